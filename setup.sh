#!/bin/bash
# Build the static part of the framework offline: Coq development (full .vo build), harness warm-up.
set -e
cd "$(dirname "$0")"
export GOFLAGS=-mod=mod GOPROXY=off GOSUMDB=off GOTOOLCHAIN=local
REPO=${VERIF_REPO:-/repo}
mkdir -p build/bin evidence
python3 - <<'PY'
import sys, os
sys.path.insert(0, "lib")
import vlib
vlib.ensure_coq_makefile()
vlib.ensure_harness_mod(os.path.realpath(os.environ.get("VERIF_REPO", "/repo")))
PY
# -k: a file that fails to compile breaks only the checks that depend on it (./check rebuilds its own cone and reports)
(cd coq && timeout 3000 make -k -j16) || echo "setup: some Coq files failed to compile (see above); the affected checks will report it"
# warm the Go build cache: every harness command and translator
(cd harness && for d in cmd/*/; do timeout 900 go build -tags verif -o ../build/bin/$(basename $d) ./$d || echo "setup: harness $d failed to build"; done)
for d in translators/*/; do [ -f "$d/main.go" ] && (cd harness && timeout 900 go build -o ../build/bin/$(basename $d) ../$d 2>/dev/null) || true; done
echo "setup ok"

#!/bin/bash
# Build the static part of the framework offline: Coq development (full .vo build), harness warm-up.
set -e
cd "$(dirname "$0")"
export GOFLAGS=-mod=mod GOPROXY=off GOSUMDB=off GOTOOLCHAIN=local
REPO=${VERIF_REPO:-/repo}
mkdir -p build/bin evidence
python3 - <<'PY'
import sys, os
sys.path.insert(0, "lib")
import vlib
vlib.ensure_coq_makefile()
vlib.ensure_harness_mod(os.path.realpath(os.environ.get("VERIF_REPO", "/repo")))
PY
(cd coq && timeout 3000 make -j16)
# warm the Go build cache: every harness command and translator
(cd harness && for d in cmd/*/; do timeout 900 go build -tags verif -o ../build/bin/$(basename $d) ./$d || exit 1; done)
echo "setup ok"

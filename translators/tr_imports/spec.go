// Second generator: Go's own view (go/types, export data of the sandbox toolchain for linux/amd64) of the packages the
// tables name: kinds of the exported objects, exact constant values, interface method lists, method sets with
// promotion depth; plus the oracle module (build/C31/oracle) that references every bound symbol by name.
package main

import (
	"encoding/json"
	"fmt"
	"go/constant"
	"go/importer"
	"go/token"
	"go/types"
	"io"
	"math/big"
	"os"
	"os/exec"
	"path/filepath"
	"sort"
	"strings"
)

type SObj struct {
	Name   string `json:"name"`
	Kind   string `json:"kind"` // func var const type generic missing other
	Typed  bool   `json:"typed,omitempty"`
	Type   string `json:"type,omitempty"`  // type string of a typed constant
	Basic  string `json:"basic,omitempty"` // Coq bkind of the underlying basic type (typed const)
	CKind  string `json:"ckind,omitempty"` // bool int rune float complex string
	Exact  string `json:"exact,omitempty"` // constant.ExactString (strings: the string itself)
	Iface  bool   `json:"iface,omitempty"`
	Alias  bool   `json:"alias,omitempty"`
	InSym  bool   `json:"insym,omitempty"` // present in the oracle symbol table
	coqVal string
}
type SMeth struct {
	Name     string `json:"name"`
	NParams  int    `json:"nparams"`
	NResults int    `json:"nresults"`
	Variadic bool   `json:"variadic"`
	Sig      string `json:"sig"`
}
type SIface struct {
	Pkg         string  `json:"pkg"`
	Name        string  `json:"name"`
	AllExported bool    `json:"all_exported"`
	Methods     []SMeth `json:"methods"`
}
type SWMeth struct {
	Name     string `json:"name"`
	Promoted bool   `json:"promoted"`
	Depth    int    `json:"depth"`
}
type SWType struct {
	Pkg     string   `json:"pkg"`
	Name    string   `json:"name"`
	Methods []SWMeth `json:"methods"`
}
type SPkg struct {
	Path string `json:"path"`
	Name string `json:"name"`
	Objs []SObj `json:"objs"`
}
type Spec struct {
	GoVersion string   `json:"go_version"`
	Pkgs      []SPkg   `json:"pkgs"`
	Ifaces    []SIface `json:"ifaces"`
	WTypes    []SWType `json:"wtypes"`
	Errors    []string `json:"errors"`
}

func ratOf(v constant.Value) (*big.Rat, bool) {
	s := v.ExactString()
	r, ok := new(big.Rat).SetString(s)
	return r, ok
}

func coqZ(z *big.Int) string {
	if z.Sign() < 0 {
		return "(" + z.String() + ")"
	}
	return z.String()
}

func coqRat(r *big.Rat) string {
	return coqZ(r.Num()) + " " + r.Denom().String()
}

var ckindCoq = map[string]string{"bool": "KBool", "int": "KInt", "rune": "KRune", "float": "KFloat", "complex": "KComplex", "string": "KString"}

func basicCoq(b *types.Basic) string {
	switch b.Kind() {
	case types.Bool:
		return "BBool"
	case types.String:
		return "BString"
	case types.Complex64:
		return "BComplex64"
	case types.Complex128:
		return "BComplex128"
	case types.UnsafePointer:
		return "BOtherKind"
	}
	if k := basicKinds[b.Name()]; k != "" {
		return k
	}
	return "BOtherKind"
}

func constInfo(c *types.Const, o *SObj) {
	v := c.Val()
	b, _ := c.Type().Underlying().(*types.Basic)
	o.Kind = "const"
	o.coqVal = "XBad"
	if b == nil {
		o.Kind = "other"
		return
	}
	if b.Info()&types.IsUntyped == 0 {
		o.Typed = true
		o.Type = types.TypeString(c.Type(), nil)
		o.Basic = basicCoq(b)
		o.Exact = v.ExactString()
		return
	}
	switch b.Kind() {
	case types.UntypedBool:
		o.CKind = "bool"
		o.Exact = v.ExactString()
		o.coqVal = fmt.Sprintf("(XBool %v)", constant.BoolVal(v))
	case types.UntypedInt, types.UntypedRune:
		o.CKind = "int"
		if b.Kind() == types.UntypedRune {
			o.CKind = "rune"
		}
		o.Exact = v.ExactString()
		if z, ok := new(big.Int).SetString(o.Exact, 10); ok {
			o.coqVal = "(XInt " + coqZ(z) + ")"
		}
	case types.UntypedFloat:
		o.CKind = "float"
		o.Exact = v.ExactString()
		if r, ok := ratOf(v); ok {
			o.coqVal = "(XRat " + coqRat(r) + ")"
		}
	case types.UntypedComplex:
		o.CKind = "complex"
		re, im := constant.Real(v), constant.Imag(v)
		o.Exact = re.ExactString() + ":" + im.ExactString()
		r1, ok1 := ratOf(re)
		r2, ok2 := ratOf(im)
		if ok1 && ok2 {
			o.coqVal = "(XComplex " + coqRat(r1) + " " + coqRat(r2) + ")"
		}
	case types.UntypedString:
		o.CKind = "string"
		o.Exact = constant.StringVal(v)
		o.coqVal = "(XStr " + coqBytes(o.Exact) + ")"
	default:
		o.Kind = "other"
	}
}

func isGeneric(t types.Type) bool {
	switch t := t.(type) {
	case *types.Named:
		return t.TypeParams().Len() > 0
	case *types.Signature:
		return t.TypeParams().Len() > 0
	case *types.Alias:
		return isGeneric(types.Unalias(t))
	}
	return false
}

func goEnv() []string {
	return append(os.Environ(), "GOFLAGS=-mod=mod", "GOPROXY=off", "GOSUMDB=off", "GOTOOLCHAIN=local")
}

func genSpec(repo, outdir, verif string) {
	var sp Spec
	// ---- oracle module (also the module context in which go list resolves the third-party packages)
	odir := filepath.Join(outdir, "oracle")
	os.MkdirAll(odir, 0o755)
	gomod := fmt.Sprintf("module c31oracle\n\ngo 1.18\n\nrequire (\n\t%s v0.0.0\n\tverifh v0.0.0\n)\n\nreplace %s => %s\n\nreplace verifh => %s\n",
		out.Module, out.Module, repo, filepath.Join(verif, "harness"))
	must(os.WriteFile(filepath.Join(odir, "go.mod"), []byte(gomod), 0o644))
	sum, _ := os.ReadFile(filepath.Join(repo, "go.sum"))
	must(os.WriteFile(filepath.Join(odir, "go.sum"), sum, 0o644))
	// a placeholder main so that the module has a package while go list runs
	must(os.WriteFile(filepath.Join(odir, "main.go"), []byte("package main\n\nimport \"verifh/c31core\"\n\nfunc main() { c31core.Main(Symtab) }\n"), 0o644))

	var paths []string
	for _, p := range out.Pkgs {
		paths = append(paths, p.Pkg)
	}
	sort.Strings(paths)
	cmd := exec.Command("go", append([]string{"list", "-export", "-deps", "-json=ImportPath,Export,Name"}, paths...)...)
	cmd.Dir = odir
	cmd.Env = goEnv()
	var stderr strings.Builder
	cmd.Stderr = &stderr
	lst, err := cmd.Output()
	if err != nil {
		fmt.Fprintln(os.Stderr, "go list -export failed:", err, stderr.String())
		os.Exit(2)
	}
	exp := map[string]string{}
	dec := json.NewDecoder(strings.NewReader(string(lst)))
	for {
		var e struct{ ImportPath, Export, Name string }
		if err := dec.Decode(&e); err != nil {
			break
		}
		exp[e.ImportPath] = e.Export
	}
	tfset := token.NewFileSet()
	imp := importer.ForCompiler(tfset, "gc", func(path string) (io.ReadCloser, error) {
		f := exp[path]
		if f == "" {
			return nil, fmt.Errorf("no export data for %s", path)
		}
		return os.Open(f)
	})
	sp.GoVersion = strings.TrimSpace(runOut(odir, "go", "version"))

	// names each package table mentions
	type pkgNeeds struct {
		keys   map[string]bool
		wtypes map[string]bool
	}
	needs := map[string]*pkgNeeds{}
	for _, p := range out.Pkgs {
		n := &pkgNeeds{map[string]bool{}, map[string]bool{}}
		needs[p.Pkg] = n
		for _, r := range out.Rows[p.RowStart:p.RowEnd] {
			n.keys[r.Key] = true
			if r.Sel != "" && r.SelPkg == p.Pkg {
				n.keys[r.Sel] = true
			}
			if r.Tab == "Wrappers" {
				n.wtypes[r.Key] = true
			}
		}
	}
	var sym strings.Builder
	var symImports []string
	sym.WriteString("var Symtab = map[string]interface{}{\n")
	for pi, path := range paths {
		pkg, err := imp.Import(path)
		if err != nil {
			sp.Errors = append(sp.Errors, fmt.Sprintf("import %s: %v", path, err))
			continue
		}
		alias := fmt.Sprintf("p%d", pi)
		used := false
		spkg := SPkg{Path: path, Name: pkg.Name()}
		var keys []string
		for k := range needs[path].keys {
			keys = append(keys, k)
		}
		sort.Strings(keys)
		for _, k := range keys {
			o := SObj{Name: k, Kind: "missing"}
			obj := pkg.Scope().Lookup(k)
			if obj != nil && obj.Exported() {
				switch obj := obj.(type) {
				case *types.Func:
					o.Kind = "func"
					if isGeneric(obj.Type()) {
						o.Kind = "generic"
					} else {
						fmt.Fprintf(&sym, "\t%q: %s.%s,\n", path+"."+k, alias, k)
						o.InSym, used = true, true
					}
				case *types.Var:
					o.Kind = "var"
					fmt.Fprintf(&sym, "\t%q: &%s.%s,\n", path+"."+k, alias, k)
					o.InSym, used = true, true
				case *types.Const:
					constInfo(obj, &o)
					if o.Kind == "const" && o.Typed {
						fmt.Fprintf(&sym, "\t%q: %s.%s,\n", path+"."+k, alias, k)
						o.InSym, used = true, true
					}
				case *types.TypeName:
					o.Kind = "type"
					o.Alias = obj.IsAlias()
					if isGeneric(obj.Type()) {
						o.Kind = "generic"
					} else {
						_, o.Iface = obj.Type().Underlying().(*types.Interface)
						fmt.Fprintf(&sym, "\t%q: reflect.TypeOf((*%s.%s)(nil)).Elem(),\n", path+"."+k, alias, k)
						o.InSym, used = true, true
						if o.Iface {
							it := obj.Type().Underlying().(*types.Interface)
							si := SIface{Pkg: path, Name: k, AllExported: true}
							for i := 0; i < it.NumMethods(); i++ {
								m := it.Method(i)
								if !m.Exported() {
									si.AllExported = false
								}
								sig := m.Type().(*types.Signature)
								si.Methods = append(si.Methods, SMeth{m.Name(), sig.Params().Len(), sig.Results().Len(), sig.Variadic(),
									types.TypeString(sig, func(p *types.Package) string { return p.Path() })})
							}
							// reflect orders interface methods by name
							sort.Slice(si.Methods, func(i, j int) bool { return si.Methods[i].Name < si.Methods[j].Name })
							sp.Ifaces = append(sp.Ifaces, si)
						}
						if needs[path].wtypes[k] {
							wt := SWType{Pkg: path, Name: k}
							ms := types.NewMethodSet(types.NewPointer(obj.Type()))
							for i := 0; i < ms.Len(); i++ {
								s := ms.At(i)
								if !s.Obj().Exported() {
									continue
								}
								wt.Methods = append(wt.Methods, SWMeth{s.Obj().Name(), len(s.Index()) > 1, len(s.Index()) - 1})
							}
							sp.WTypes = append(sp.WTypes, wt)
						}
					}
				default:
					o.Kind = "other"
				}
			}
			spkg.Objs = append(spkg.Objs, o)
		}
		sp.Pkgs = append(sp.Pkgs, spkg)
		if used {
			symImports = append(symImports, fmt.Sprintf("\t%s %q", alias, path))
		}
	}
	sym.WriteString("}\n")
	src := "// GENERATED by translators/tr_imports (go/types view): every table symbol referenced by name.\npackage main\n\nimport (\n\t\"reflect\"\n" +
		strings.Join(symImports, "\n") + "\n)\n\nvar _ = reflect.TypeOf\n\n" + sym.String()
	must(os.WriteFile(filepath.Join(odir, "symtab.go"), []byte(src), 0o644))

	// ---- GenSpec.v
	var sb strings.Builder
	w := func(f string, a ...interface{}) { fmt.Fprintf(&sb, f, a...) }
	w("(* GENERATED by translators/tr_imports (go/types, export data of %s) — do not edit. *)\n", sp.GoVersion)
	w("From Coq Require Import List NArith ZArith Bool.\nFrom Verif Require Import C31.Untyped C31.Model.\nImport ListNotations.\nOpen Scope N_scope.\n\n")
	w("Definition spec_objs : spec := [\n")
	for i, p := range sp.Pkgs {
		var os_ []string
		for _, o := range p.Objs {
			k := "OOther"
			switch o.Kind {
			case "func":
				k = "OFunc"
			case "var":
				k = "OVar"
			case "const":
				if o.Typed {
					k = "(OConstTyped " + o.Basic + ")"
				} else {
					k = "(OConstUntyped " + ckindCoq[o.CKind] + " " + o.coqVal + ")"
				}
			case "type":
				k = fmt.Sprintf("(OType %v)", o.Iface)
			case "generic":
				k = "OGeneric"
			case "missing":
				continue
			}
			os_ = append(os_, fmt.Sprintf("mkObj %d %s", id(o.Name), k))
		}
		sep := ";"
		if i == len(sp.Pkgs)-1 {
			sep = ""
		}
		w(" (%d, [%s])%s\n", id(p.Path), strings.Join(os_, ";\n   "), sep)
	}
	w("].\n\nDefinition spec_ifaces : list iface := [\n")
	for i, f := range sp.Ifaces {
		var ms []string
		for _, m := range f.Methods {
			ms = append(ms, fmt.Sprintf("mkIM %d %d %d %v", id(m.Name), m.NParams, m.NResults, m.Variadic))
		}
		sep := ";"
		if i == len(sp.Ifaces)-1 {
			sep = ""
		}
		w(" mkIface %d %d %v [%s]%s\n", id(f.Pkg), id(f.Name), f.AllExported, strings.Join(ms, "; "), sep)
	}
	w("].\n\nDefinition spec_wtypes : list wtype := [\n")
	for i, t := range sp.WTypes {
		var ms []string
		for _, m := range t.Methods {
			ms = append(ms, fmt.Sprintf("(%d,%v)", id(m.Name), m.Promoted))
		}
		sep := ";"
		if i == len(sp.WTypes)-1 {
			sep = ""
		}
		w(" mkWT %d %d [%s]%s\n", id(t.Pkg), id(t.Name), strings.Join(ms, ";"), sep)
	}
	w("].\n")
	must(os.WriteFile(filepath.Join(outdir, "GenSpec.v"), []byte(sb.String()), 0o644))
	jb, _ := json.MarshalIndent(sp, "", " ")
	must(os.WriteFile(filepath.Join(outdir, "c31_spec.json"), jb, 0o644))
	fmt.Printf("tr_imports: go/types view of %d packages, %d interfaces, %d wrapper types, %d import errors\n", len(sp.Pkgs), len(sp.Ifaces), len(sp.WTypes), len(sp.Errors))
}

func runOut(dir string, name string, args ...string) string {
	c := exec.Command(name, args...)
	c.Dir = dir
	c.Env = goEnv()
	b, _ := c.Output()
	return string(b)
}

func must(err error) {
	if err != nil {
		panic(err)
	}
}

// tr_imports: regenerates from $VERIF_REPO/imports/*.go, imports/syscall/*.go, imports/thirdparty/*.go
// (files matching the build constraints of linux/amd64, compiler gc) the import tables as Coq data:
//
//	<out>/GenTables.v     rows, per-file facts, map-literal entry counts, proxy structs and their methods
//	<out>/c31_names.json  id -> string (names are interned: equal id <=> equal string, within this run)
//	<out>/c31_tables.json the same rows with strings (input of the go/types generator and of the harness)
//
// The mapping is syntactic (go/ast), one constructor per recognised expression shape; anything else is
// emitted as SOpaque / BOpaque / StOpaque / FOther which the Coq checkers reject.
package main

import (
	"encoding/json"
	"flag"
	"fmt"
	"go/ast"
	"go/build"
	"go/parser"
	"go/token"
	"go/types"
	"os"
	"path/filepath"
	"sort"
	"strconv"
	"strings"
)

// ---------- interning ----------
var names = []string{""} // id 0 = ""
var nameID = map[string]int{"": 0}

func id(s string) int {
	if i, ok := nameID[s]; ok {
		return i
	}
	i := len(names)
	names = append(names, s)
	nameID[s] = i
	return i
}

// ---------- JSON mirror ----------
type Row struct {
	File   string   `json:"file"`
	Pkg    string   `json:"pkg"`
	Tab    string   `json:"tab"`
	Key    string   `json:"key"`
	Shape  string   `json:"shape"` // val addr conv type str strlist opaque
	Conv   string   `json:"conv,omitempty"`
	SelPkg string   `json:"selpkg,omitempty"`
	Sel    string   `json:"sel,omitempty"`
	Local  bool     `json:"local,omitempty"`
	Str    string   `json:"str,omitempty"`
	List   []string `json:"list,omitempty"`
	Src    string   `json:"src,omitempty"`
}
type FType struct {
	Params   []string `json:"params"`
	Variadic bool     `json:"variadic"`
	Results  []string `json:"results"`
}
type Field struct {
	Name string `json:"name"`
	Kind string `json:"kind"` // iface0 func other
	Obj0 bool   `json:"obj0,omitempty"`
	T    *FType `json:"t,omitempty"`
}
type Method struct {
	RecvName string   `json:"recv"`
	RecvPtr  bool     `json:"recvptr"`
	RecvType string   `json:"recvtype"`
	Name     string   `json:"name"`
	Params   []string `json:"params"`
	T        FType    `json:"t"`
	Body     string   `json:"body"` // coq term
	Callee   string   `json:"callee,omitempty"`
}
type Proxy struct {
	File    string   `json:"file"`
	OwnPkg  string   `json:"ownpkg"`
	Name    string   `json:"name"`
	Fields  []Field  `json:"fields"`
	Methods []Method `json:"methods"`
}
type FileInfo struct {
	File       string   `json:"file"`
	OwnPkg     string   `json:"ownpkg"`
	DotReflect bool     `json:"dot_reflect"`
	Stmts      []string `json:"stmts"`
	Shadow     []string `json:"shadow,omitempty"`
}
type Count struct {
	Pkg string `json:"pkg"`
	Tab string `json:"tab"`
	N   int    `json:"n"`
}
type PkgDecl struct {
	File     string  `json:"file"`
	Pkg      string  `json:"pkg"`
	Name     string  `json:"name"`
	RowStart int     `json:"row_start"`
	RowEnd   int     `json:"row_end"`
	Counts   []Count `json:"counts"`
}
type Out struct {
	Module  string     `json:"module"`
	Files   []FileInfo `json:"files"`
	Pkgs    []PkgDecl  `json:"pkgs"`
	Rows    []Row      `json:"rows"`
	Counts  []Count    `json:"counts"`
	Proxies []Proxy    `json:"proxies"`
	Skipped []string   `json:"skipped_by_build_constraints"`
}

var out Out
var fset = token.NewFileSet()

func src(n ast.Node) string {
	s := types.ExprString(n.(ast.Expr))
	if len(s) > 80 {
		s = s[:80]
	}
	return s
}

var basicKinds = map[string]string{"int": "BInt", "int8": "BInt8", "int16": "BInt16", "int32": "BInt32", "int64": "BInt64",
	"uint": "BUint", "uint8": "BUint8", "uint16": "BUint16", "uint32": "BUint32", "uint64": "BUint64", "uintptr": "BUintptr",
	"float32": "BFloat32", "float64": "BFloat64", "rune": "BInt32", "byte": "BUint8"}

type fileCtx struct {
	name    string
	ownpkg  string
	imports map[string]string // alias -> path
	dotRefl bool
	locals  map[string]bool // top-level declared identifiers of the file
}

// selector: X.Y with X an import alias, or a bare identifier (symbol of the file's own package)
func (fc *fileCtx) sel(e ast.Expr) (pkg, name string, local, ok bool) {
	switch e := e.(type) {
	case *ast.SelectorExpr:
		if x, isid := e.X.(*ast.Ident); isid {
			if p, found := fc.imports[x.Name]; found && !fc.locals[x.Name] {
				return p, e.Sel.Name, false, true
			}
		}
	case *ast.Ident:
		return fc.ownpkg, e.Name, true, true
	}
	return "", "", false, false
}

func isIdent(e ast.Expr, name string) bool {
	i, ok := e.(*ast.Ident)
	return ok && i.Name == name
}

func unparen(e ast.Expr) ast.Expr {
	for {
		p, ok := e.(*ast.ParenExpr)
		if !ok {
			return e
		}
		e = p.X
	}
}

// call of the identifier fun with exactly one argument
func call1(e ast.Expr, fun string) (ast.Expr, bool) {
	c, ok := e.(*ast.CallExpr)
	if !ok || len(c.Args) != 1 || c.Ellipsis.IsValid() || !isIdent(c.Fun, fun) {
		return nil, false
	}
	return c.Args[0], true
}

// X.Elem()
func elemOf(e ast.Expr) (ast.Expr, bool) {
	c, ok := e.(*ast.CallExpr)
	if !ok || len(c.Args) != 0 {
		return nil, false
	}
	s, ok := c.Fun.(*ast.SelectorExpr)
	if !ok || s.Sel.Name != "Elem" {
		return nil, false
	}
	return s.X, true
}

func (fc *fileCtx) bindShape(r *Row, e ast.Expr) {
	r.Shape = "opaque"
	r.Src = src(e)
	if inner, ok := elemOf(e); ok { // ValueOf(&p.V).Elem()
		if a, ok := call1(inner, "ValueOf"); ok {
			if u, ok := a.(*ast.UnaryExpr); ok && u.Op == token.AND {
				if p, n, l, ok := fc.sel(u.X); ok {
					r.Shape, r.SelPkg, r.Sel, r.Local = "addr", p, n, l
				}
			}
		}
		return
	}
	a, ok := call1(e, "ValueOf")
	if !ok {
		return
	}
	if p, n, l, ok := fc.sel(a); ok { // ValueOf(p.F)
		r.Shape, r.SelPkg, r.Sel, r.Local = "val", p, n, l
		return
	}
	if c, ok := a.(*ast.CallExpr); ok && len(c.Args) == 1 && !c.Ellipsis.IsValid() { // ValueOf(T(p.C))
		if t, ok := c.Fun.(*ast.Ident); ok && basicKinds[t.Name] != "" && !fc.locals[t.Name] {
			if p, n, l, ok := fc.sel(c.Args[0]); ok {
				r.Shape, r.Conv, r.SelPkg, r.Sel, r.Local = "conv", t.Name, p, n, l
			}
		}
	}
}

func (fc *fileCtx) typeShape(r *Row, e ast.Expr) {
	r.Shape = "opaque"
	r.Src = src(e)
	inner, ok := elemOf(e) // TypeOf((*p.T)(nil)).Elem()
	if !ok {
		return
	}
	a, ok := call1(inner, "TypeOf")
	if !ok {
		return
	}
	c, ok := a.(*ast.CallExpr)
	if !ok || len(c.Args) != 1 || !isIdent(c.Args[0], "nil") {
		return
	}
	st, ok := unparen(c.Fun).(*ast.StarExpr)
	if !ok {
		return
	}
	if p, n, l, ok := fc.sel(st.X); ok {
		r.Shape, r.SelPkg, r.Sel, r.Local = "type", p, n, l
	}
}

func strLit(e ast.Expr) (string, bool) {
	b, ok := e.(*ast.BasicLit)
	if !ok || b.Kind != token.STRING {
		return "", false
	}
	s, err := strconv.Unquote(b.Value)
	return s, err == nil
}

var curCounts []Count

func (fc *fileCtx) table(pkg, tab string, e ast.Expr) {
	lit, ok := e.(*ast.CompositeLit)
	if !ok {
		out.Rows = append(out.Rows, Row{File: fc.name, Pkg: pkg, Tab: tab, Shape: "opaque", Src: src(e)})
		curCounts = append(curCounts, Count{pkg, tab, 1})
		return
	}
	curCounts = append(curCounts, Count{pkg, tab, len(lit.Elts)})
	for _, el := range lit.Elts {
		r := Row{File: fc.name, Pkg: pkg, Tab: tab, Shape: "opaque"}
		kv, ok := el.(*ast.KeyValueExpr)
		if !ok {
			r.Src = src(el)
			out.Rows = append(out.Rows, r)
			continue
		}
		k, ok := strLit(kv.Key)
		if !ok {
			r.Src = src(el)
			out.Rows = append(out.Rows, r)
			continue
		}
		r.Key = k
		switch tab {
		case "Binds":
			fc.bindShape(&r, kv.Value)
		case "Types", "Proxies":
			fc.typeShape(&r, kv.Value)
		case "Untypeds":
			if s, ok := strLit(kv.Value); ok {
				r.Shape, r.Str = "str", s
			} else {
				r.Src = src(kv.Value)
			}
		case "Wrappers":
			if l, ok := kv.Value.(*ast.CompositeLit); ok {
				good := true
				var lst []string
				for _, x := range l.Elts {
					s, ok := strLit(x)
					good = good && ok
					lst = append(lst, s)
				}
				if good {
					r.Shape, r.List = "strlist", lst
				}
			}
			if r.Shape == "opaque" {
				r.Src = src(kv.Value)
			}
		}
		out.Rows = append(out.Rows, r)
	}
}

// Packages["path"] = Package{...}
func (fc *fileCtx) stmt(s ast.Stmt) string {
	switch s := s.(type) {
	case *ast.AssignStmt:
		if len(s.Lhs) != 1 || len(s.Rhs) != 1 || s.Tok != token.ASSIGN {
			return "StOpaque"
		}
		ix, ok := s.Lhs[0].(*ast.IndexExpr)
		if !ok || !isIdent(ix.X, "Packages") {
			return "StOpaque"
		}
		path, ok := strLit(ix.Index)
		if !ok {
			return "StOpaque"
		}
		lit, ok := s.Rhs[0].(*ast.CompositeLit)
		if !ok || !isIdent(lit.Type, "Package") {
			return "StOpaque"
		}
		pd := PkgDecl{File: fc.name, Pkg: path, RowStart: len(out.Rows)}
		curCounts = nil
		seen := map[string]bool{}
		for _, el := range lit.Elts {
			kv, ok := el.(*ast.KeyValueExpr)
			if !ok {
				return "StOpaque"
			}
			k, ok := kv.Key.(*ast.Ident)
			if !ok || seen[k.Name] {
				return "StOpaque"
			}
			seen[k.Name] = true
			switch k.Name {
			case "Name":
				n, ok := strLit(kv.Value)
				if !ok {
					return "StOpaque"
				}
				pd.Name = n
			case "Binds", "Types", "Proxies", "Untypeds", "Wrappers":
				fc.table(path, k.Name, kv.Value)
			default:
				return "StOpaque"
			}
		}
		pd.RowEnd = len(out.Rows)
		pd.Counts = curCounts
		out.Pkgs = append(out.Pkgs, pd)
		return "StTable " + strconv.Itoa(id(path))
	case *ast.ExprStmt: // Packages.Merge(alias.Packages)
		c, ok := s.X.(*ast.CallExpr)
		if !ok || len(c.Args) != 1 {
			return "StOpaque"
		}
		f, ok := c.Fun.(*ast.SelectorExpr)
		if !ok || !isIdent(f.X, "Packages") || f.Sel.Name != "Merge" {
			return "StOpaque"
		}
		if p, n, _, ok := fc.sel(c.Args[0]); ok && n == "Packages" {
			return "StMerge " + strconv.Itoa(id(p))
		}
	}
	return "StOpaque"
}

func isEmptyIface(e ast.Expr) bool {
	i, ok := e.(*ast.InterfaceType)
	return ok && (i.Methods == nil || len(i.Methods.List) == 0)
}

// flatten a field list into (names, type strings); unnamed entries get the name "_"
func flatten(fl *ast.FieldList) (nm []string, ty []string, variadic bool) {
	if fl == nil {
		return
	}
	for _, f := range fl.List {
		t := f.Type
		if el, ok := t.(*ast.Ellipsis); ok {
			variadic = true
			t = &ast.ArrayType{Elt: el.Elt}
		}
		ts := types.ExprString(t)
		if len(f.Names) == 0 {
			nm = append(nm, "_")
			ty = append(ty, ts)
		}
		for _, n := range f.Names {
			nm = append(nm, n.Name)
			ty = append(ty, ts)
		}
	}
	return
}

func (fc *fileCtx) structDecl(name string, st *ast.StructType) {
	p := Proxy{File: fc.name, OwnPkg: fc.ownpkg, Name: name}
	for _, f := range st.Fields.List {
		fd := Field{Kind: "other"}
		if isEmptyIface(f.Type) {
			fd.Kind = "iface0"
		} else if ft, ok := f.Type.(*ast.FuncType); ok {
			fd.Kind = "func"
			_, pt, v := flatten(ft.Params)
			_, rt, _ := flatten(ft.Results)
			if ft.Params != nil && len(ft.Params.List) > 0 && isEmptyIface(ft.Params.List[0].Type) && len(ft.Params.List[0].Names) <= 1 {
				fd.Obj0 = true
			}
			if len(pt) > 0 {
				pt = pt[1:]
			} else {
				fd.Obj0 = false
			}
			fd.T = &FType{pt, v, rt}
		}
		if len(f.Names) == 0 {
			fd.Name = "_"
			p.Fields = append(p.Fields, fd)
		}
		for _, n := range f.Names {
			fd.Name = n.Name
			p.Fields = append(p.Fields, fd)
		}
	}
	out.Proxies = append(out.Proxies, p)
}

func splitUS(s string) (base int, us string) {
	if strings.HasSuffix(s, "_") {
		return id(strings.TrimSuffix(s, "_")), "true"
	}
	return id(s), "false"
}

func (fc *fileCtx) methodDecl(d *ast.FuncDecl) {
	m := Method{Name: d.Name.Name, Body: "BOpaque", RecvName: "_"}
	r := d.Recv.List[0]
	if len(r.Names) == 1 {
		m.RecvName = r.Names[0].Name
	}
	t := r.Type
	if s, ok := t.(*ast.StarExpr); ok {
		m.RecvPtr = true
		t = s.X
	}
	if i, ok := t.(*ast.Ident); ok {
		m.RecvType = i.Name
	} else {
		m.RecvType = types.ExprString(t)
	}
	var pt, rt []string
	var v bool
	m.Params, pt, v = flatten(d.Type.Params)
	_, rt, _ = flatten(d.Type.Results)
	m.T = FType{pt, v, rt}
	if d.Type.TypeParams != nil {
		m.Body = "BOpaque"
	} else if d.Body != nil && len(d.Body.List) == 1 {
		var e ast.Expr
		hasRet := false
		switch s := d.Body.List[0].(type) {
		case *ast.ReturnStmt:
			if len(s.Results) == 1 {
				e, hasRet = s.Results[0], true
			}
		case *ast.ExprStmt:
			e = s.X
		}
		if c, ok := e.(*ast.CallExpr); ok && len(c.Args) >= 1 {
			if f, ok := c.Fun.(*ast.SelectorExpr); ok {
				if x, ok := f.X.(*ast.Ident); ok {
					arg0recv, arg0obj := "_", false
					if a0, ok := c.Args[0].(*ast.SelectorExpr); ok {
						if ax, ok := a0.X.(*ast.Ident); ok {
							arg0recv = ax.Name
							arg0obj = a0.Sel.Name == "Object"
						}
					}
					good := true
					var args []string
					for _, a := range c.Args[1:] {
						ai, ok := a.(*ast.Ident)
						if !ok {
							good = false
							break
						}
						args = append(args, ai.Name)
					}
					if good {
						base, us := splitUS(f.Sel.Name)
						m.Callee = f.Sel.Name
						m.Body = fmt.Sprintf("BForward %v %d %d %s %v %d %s %v", hasRet, id(x.Name), base, us, arg0obj, id(arg0recv), coqIDs(args), c.Ellipsis.IsValid())
					}
				}
			}
		}
	}
	// attach to its struct (declared in the same file, before or after)
	for i := range out.Proxies {
		if out.Proxies[i].File == fc.name && out.Proxies[i].Name == m.RecvType {
			out.Proxies[i].Methods = append(out.Proxies[i].Methods, m)
			return
		}
	}
	pending = append(pending, pendingMethod{fc.name, m})
}

type pendingMethod struct {
	file string
	m    Method
}

var pending []pendingMethod

func coqIDs(ss []string) string {
	if len(ss) == 0 {
		return "[]"
	}
	var b []string
	for _, s := range ss {
		b = append(b, strconv.Itoa(id(s)))
	}
	return "[" + strings.Join(b, ";") + "]"
}

func coqFT(t FType) string {
	return fmt.Sprintf("(mkFT %s %v %s)", coqIDs(t.Params), t.Variadic, coqIDs(t.Results))
}

func coqBytes(s string) string {
	if s == "" {
		return "[]"
	}
	var b []string
	for i := 0; i < len(s); i++ {
		b = append(b, strconv.Itoa(int(s[i])))
	}
	return "[" + strings.Join(b, ";") + "]"
}

func doFile(repo, rel, module string) {
	path := filepath.Join(repo, rel)
	f, err := parser.ParseFile(fset, path, nil, parser.SkipObjectResolution)
	if err != nil {
		fmt.Fprintln(os.Stderr, "parse error:", err)
		os.Exit(2)
	}
	fc := &fileCtx{name: rel, ownpkg: module + "/" + filepath.ToSlash(filepath.Dir(rel)), imports: map[string]string{}, locals: map[string]bool{}}
	fi := FileInfo{File: rel, OwnPkg: fc.ownpkg}
	for _, im := range f.Imports {
		p, _ := strconv.Unquote(im.Path.Value)
		alias := ""
		if im.Name != nil {
			alias = im.Name.Name
		} else {
			alias = p[strings.LastIndexByte(p, '/')+1:] // table files always name their imports; a_package.go relies on the default
		}
		if alias == "." {
			if p == "reflect" {
				fc.dotRefl = true
			} else {
				fi.Shadow = append(fi.Shadow, "dot-import "+p)
			}
			continue
		}
		fc.imports[alias] = p
	}
	fi.DotReflect = fc.dotRefl
	// top-level declarations that could shadow the identifiers the shapes rely on
	for _, d := range f.Decls {
		switch d := d.(type) {
		case *ast.GenDecl:
			for _, s := range d.Specs {
				switch s := s.(type) {
				case *ast.TypeSpec:
					fc.locals[s.Name.Name] = true
				case *ast.ValueSpec:
					for _, n := range s.Names {
						fc.locals[n.Name] = true
					}
				}
			}
		case *ast.FuncDecl:
			if d.Recv == nil && d.Name.Name != "init" {
				fc.locals[d.Name.Name] = true
			}
		}
	}
	for _, n := range []string{"ValueOf", "TypeOf", "nil"} {
		if fc.locals[n] {
			fi.Shadow = append(fi.Shadow, n)
		}
	}
	for _, d := range f.Decls {
		switch d := d.(type) {
		case *ast.GenDecl:
			if d.Tok == token.TYPE {
				for _, s := range d.Specs {
					ts := s.(*ast.TypeSpec)
					if st, ok := ts.Type.(*ast.StructType); ok && ts.TypeParams == nil && !ts.Assign.IsValid() {
						fc.structDecl(ts.Name.Name, st)
					}
				}
			}
		}
	}
	for _, d := range f.Decls {
		if fd, ok := d.(*ast.FuncDecl); ok {
			if fd.Recv != nil && len(fd.Recv.List) == 1 {
				fc.methodDecl(fd)
			} else if fd.Recv == nil && fd.Name.Name == "init" && fd.Body != nil {
				for _, s := range fd.Body.List {
					fi.Stmts = append(fi.Stmts, fc.stmt(s))
				}
			}
		}
	}
	out.Files = append(out.Files, fi)
}

func main() {
	repo := flag.String("repo", "/repo", "gomacro tree")
	outdir := flag.String("out", ".", "output directory")
	verif := flag.String("verif", "/verif", "framework directory (for the oracle module's replace of verifh)")
	flag.Parse()
	os.MkdirAll(*outdir, 0o755)
	modb, err := os.ReadFile(filepath.Join(*repo, "go.mod"))
	if err != nil {
		panic(err)
	}
	module := ""
	for _, l := range strings.Split(string(modb), "\n") {
		if strings.HasPrefix(l, "module ") {
			module = strings.TrimSpace(strings.TrimPrefix(l, "module "))
		}
	}
	out.Module = module
	ctx := build.Default
	ctx.GOOS, ctx.GOARCH, ctx.Compiler, ctx.CgoEnabled = "linux", "amd64", "gc", true
	ctx.BuildTags = nil
	for _, dir := range []string{"imports", "imports/syscall", "imports/thirdparty"} {
		ents, err := os.ReadDir(filepath.Join(*repo, dir))
		if err != nil {
			panic(err)
		}
		var fs []string
		for _, e := range ents {
			if !e.IsDir() && strings.HasSuffix(e.Name(), ".go") && !strings.HasSuffix(e.Name(), "_test.go") {
				fs = append(fs, e.Name())
			}
		}
		sort.Strings(fs)
		for _, n := range fs {
			ok, err := ctx.MatchFile(filepath.Join(*repo, dir), n)
			if err != nil {
				panic(err)
			}
			if !ok {
				out.Skipped = append(out.Skipped, dir+"/"+n)
				continue
			}
			doFile(*repo, dir+"/"+n, module)
		}
	}
	// methods whose receiver struct is not declared in the same file: emitted as one-method proxies without fields (rejected by the checker
	// only if a Proxies row refers to them; a_package.go has ordinary methods on Package/PackageMap which are not structs declared as proxies)
	orphan := 0
	for _, pm := range pending {
		_ = pm
		orphan++
	}

	// ---------- Coq output ----------
	var sb strings.Builder
	w := func(f string, a ...interface{}) { fmt.Fprintf(&sb, f, a...) }
	w("(* GENERATED by translators/tr_imports from %s/imports — do not edit.\n   names are interned, id -> string in c31_names.json; %d files, %d rows, %d proxy structs, %d files skipped by build constraints, %d methods on non-struct/non-local receivers ignored *)\n",
		"$VERIF_REPO", len(out.Files), len(out.Rows), len(out.Proxies), len(out.Skipped), orphan)
	w("From Coq Require Import List NArith Bool.\nFrom Verif Require Import C31.Model.\nImport ListNotations.\nOpen Scope N_scope.\n\n")
	w("Definition id_Object : N := %d.\nDefinition id_blank : N := %d.\n\n", id("Object"), id("_"))
	w("Definition files : list file := [\n")
	for i, f := range out.Files {
		sep := ";"
		if i == len(out.Files)-1 {
			sep = ""
		}
		st := "[]"
		if len(f.Stmts) > 0 {
			st = "[" + strings.Join(f.Stmts, "; ") + "]"
		}
		w(" mkFile %d %d %v %v %s%s\n", id(f.File), id(f.OwnPkg), f.DotReflect, len(f.Shadow) > 0, st, sep)
	}
	w("].\n\n")
	covered := 0
	w("Definition tables : list ptable := [\n")
	for i, p := range out.Pkgs {
		sep := ";"
		if i == len(out.Pkgs)-1 {
			sep = ""
		}
		var cs []string
		for _, c := range p.Counts {
			cs = append(cs, fmt.Sprintf("(T%s,%d)", c.Tab, c.N))
		}
		w(" mkPT %d %d %d [%s] [\n", id(p.File), id(p.Pkg), id(p.Name), strings.Join(cs, ";"))
		for j := p.RowStart; j < p.RowEnd; j++ {
			r := out.Rows[j]
			covered++
			rsep := ";"
			if j == p.RowEnd-1 {
				rsep = ""
			}
			var sh string
			switch r.Shape {
			case "val":
				sh = "SVal"
			case "addr":
				sh = "SAddr"
			case "conv":
				sh = "(SConv " + basicKinds[r.Conv] + ")"
			case "type":
				sh = "SType"
			case "str":
				sh = "(SStr " + coqBytes(r.Str) + ")"
			case "strlist":
				sh = "(SStrList " + coqIDs(r.List) + ")"
			default:
				sh = "SOpaque"
			}
			w("  mkRow T%s %d %s %d %d %v%s\n", r.Tab, id(r.Key), sh, id(r.SelPkg), id(r.Sel), r.Local, rsep)
		}
		w(" ]%s\n", sep)
	}
	if covered != len(out.Rows) {
		// rows of a Package literal that was abandoned as StOpaque half-way: the file already carries StOpaque
		fmt.Fprintf(os.Stderr, "tr_imports: %d rows belong to unrecognised statements\n", len(out.Rows)-covered)
	}
	w("].\n\nDefinition proxies : list proxy := [\n")
	for i, p := range out.Proxies {
		sep := ";"
		if i == len(out.Proxies)-1 {
			sep = ""
		}
		var fs, ms []string
		for _, f := range p.Fields {
			base, us := splitUS(f.Name)
			ty := "FOther"
			switch f.Kind {
			case "iface0":
				ty = "FEmptyIface"
			case "func":
				ty = fmt.Sprintf("(FFunc %v %s)", f.Obj0, coqFT(*f.T))
			}
			fs = append(fs, fmt.Sprintf("mkField %d %d %s %s", id(f.Name), base, us, ty))
		}
		for _, m := range p.Methods {
			ms = append(ms, fmt.Sprintf("mkMethod %d %v %d %d %s %s (%s)", id(m.RecvName), m.RecvPtr, id(m.RecvType), id(m.Name), coqIDs(m.Params), coqFT(m.T), m.Body))
		}
		l := func(x []string) string {
			if len(x) == 0 {
				return "[]"
			}
			return "[" + strings.Join(x, ";\n    ") + "]"
		}
		w(" mkProxy %d %d %d\n   %s\n   %s%s\n", id(p.File), id(p.OwnPkg), id(p.Name), l(fs), l(ms), sep)
	}
	w("].\n")
	if err := os.WriteFile(filepath.Join(*outdir, "GenTables.v"), []byte(sb.String()), 0o644); err != nil {
		panic(err)
	}
	jb, _ := json.MarshalIndent(out, "", " ")
	os.WriteFile(filepath.Join(*outdir, "c31_tables.json"), jb, 0o644)
	genSpec(*repo, *outdir, *verif)
	nb, _ := json.Marshal(names)
	os.WriteFile(filepath.Join(*outdir, "c31_names.json"), nb, 0o644)
	fmt.Printf("tr_imports: %d files (%d skipped), %d packages, %d rows, %d proxies, %d names\n", len(out.Files), len(out.Skipped), len(out.Pkgs), len(out.Rows), len(out.Proxies), len(names))
}

module tr_imports

go 1.18

module tr_scandiff

go 1.18

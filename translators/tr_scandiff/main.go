// tr_scandiff: parses the forked scanner ($repo/go/scanner/scanner.go) and go1.23's ($GOROOT/src/go/scanner/scanner.go),
// normalises (comments dropped, gofmt layout, `etoken.` -> `token.` except etoken.Lookup*, `eof` -> `-1`, `interface{}` -> `any`) and emits,
// for every top-level declaration and for every case clause / prologue / epilogue of Scanner.Scan, one row
//   (name, status, sha256-prefix of the fork text, sha256-prefix of the std text)
// as the Coq list `scandiff` in <out>/Gen23a_scandiff.v.  Nothing is interpreted: a row is Same iff the normalised
// texts are byte-identical.  The hashes pin the *reviewed* differences to the exact texts that were reviewed.
package main

import (
	"bytes"
	"crypto/sha256"
	"encoding/hex"
	"flag"
	"fmt"
	"go/ast"
	"go/parser"
	"go/printer"
	"go/token"
	"os"
	"os/exec"
	"path/filepath"
	"regexp"
	"sort"
	"strings"
)

type decls struct {
	order []string
	text  map[string]string
}

var (
	reEtoken = regexp.MustCompile(`\betoken\.`)
	reEOF    = regexp.MustCompile(`\beof\b`)
)

func norm(s string) string {
	// etoken.X -> token.X for token constants and types, but the lookup functions stay distinguishable
	s = strings.ReplaceAll(s, "etoken.Lookup", "\x00Lookup")
	s = reEtoken.ReplaceAllString(s, "token.")
	s = strings.ReplaceAll(s, "\x00Lookup", "etoken.Lookup")
	s = reEOF.ReplaceAllString(s, "-1")
	s = strings.ReplaceAll(s, "interface{}", "any")
	return s
}

func show(fset *token.FileSet, n interface{}) string {
	var b bytes.Buffer
	if err := (&printer.Config{Mode: printer.UseSpaces | printer.TabIndent, Tabwidth: 8}).Fprint(&b, fset, n); err != nil {
		panic(err)
	}
	return norm(b.String())
}

func (d *decls) put(name, text string) {
	if _, dup := d.text[name]; dup {
		name += "#2"
	}
	d.order = append(d.order, name)
	d.text[name] = text
}

func load(path string) *decls {
	fset := token.NewFileSet()
	f, err := parser.ParseFile(fset, path, nil, 0) // comments are not parsed at all
	if err != nil {
		panic(err)
	}
	d := &decls{text: map[string]string{}}
	for _, dc := range f.Decls {
		switch x := dc.(type) {
		case *ast.FuncDecl:
			name := x.Name.Name
			if x.Recv != nil {
				name = "Scanner." + name
			}
			d.put("func "+name, show(fset, x))
			if name == "Scanner.Scan" {
				scanParts(fset, x, d)
			}
		case *ast.GenDecl:
			if x.Tok == token.IMPORT {
				continue
			}
			for _, sp := range x.Specs {
				switch s := sp.(type) {
				case *ast.TypeSpec:
					d.put("type "+s.Name.Name, show(fset, s))
				case *ast.ValueSpec:
					// const blocks with iota: the text of one spec does not show its value; include the index in the block
					for i, n := range s.Names {
						_ = i
						d.put(strings.ToLower(x.Tok.String())+" "+n.Name, show(fset, s))
					}
				}
			}
		}
	}
	return d
}

// scanParts splits the body of Scan: statements before / after the big switch, and every case clause of the outer
// (tag-less) switch and of the inner `switch ch` of its default clause.
func scanParts(fset *token.FileSet, fd *ast.FuncDecl, d *decls) {
	var pro, epi []string
	seen := false
	var walk func(stmts []ast.Stmt)
	walk = func(stmts []ast.Stmt) {
		for _, st := range stmts {
			if ls, ok := st.(*ast.LabeledStmt); ok {
				pro = append(pro, ls.Label.Name+":")
				st = ls.Stmt
			}
			sw, ok := st.(*ast.SwitchStmt)
			if !ok || seen {
				if seen {
					epi = append(epi, show(fset, st))
				} else {
					pro = append(pro, show(fset, st))
				}
				continue
			}
			seen = true
			hdr := "switch "
			if sw.Init != nil {
				hdr += show(fset, sw.Init) + "; "
			}
			if sw.Tag != nil {
				hdr += show(fset, sw.Tag)
			}
			d.put("Scan/outer-switch-header", hdr)
			for _, c := range sw.Body.List {
				cc := c.(*ast.CaseClause)
				key := caseKey(fset, cc)
				if cc.List == nil {
					// default clause: s.next() + inner switch
					var other []string
					for _, s2 := range cc.Body {
						if in, ok := s2.(*ast.SwitchStmt); ok {
							d.put("Scan/inner-switch-header", "switch "+show(fset, in.Tag))
							var order []string
							for _, c2 := range in.Body.List {
								cc2 := c2.(*ast.CaseClause)
								k2 := caseKey(fset, cc2)
								order = append(order, k2)
								d.put("Scan/inner/"+k2, bodyText(fset, cc2))
							}
							d.put("Scan/inner-case-order", strings.Join(order, " | "))
						} else {
							other = append(other, show(fset, s2))
						}
					}
					d.put("Scan/outer/default(other statements)", strings.Join(other, "\n"))
				} else {
					d.put("Scan/outer/"+key, bodyText(fset, cc))
				}
			}
		}
	}
	walk(fd.Body.List)
	d.put("Scan/prologue", strings.Join(pro, "\n"))
	d.put("Scan/epilogue", strings.Join(epi, "\n"))
}

func caseKey(fset *token.FileSet, cc *ast.CaseClause) string {
	if cc.List == nil {
		return "default"
	}
	var ks []string
	for _, e := range cc.List {
		ks = append(ks, show(fset, e))
	}
	return "case " + strings.Join(ks, ", ")
}

func bodyText(fset *token.FileSet, cc *ast.CaseClause) string {
	var out []string
	for _, s := range cc.Body {
		out = append(out, show(fset, s))
	}
	return strings.Join(out, "\n")
}

func sha(s string) string {
	h := sha256.Sum256([]byte(s))
	return hex.EncodeToString(h[:6])
}

func coqStr(s string) string { return `"` + strings.ReplaceAll(s, `"`, `""`) + `"` }

func main() {
	repo := flag.String("repo", "/repo", "gomacro tree")
	out := flag.String("out", ".", "output directory")
	flag.Parse()
	gr, err := exec.Command("go", "env", "GOROOT").Output()
	if err != nil {
		panic(err)
	}
	src, err := filepath.EvalSymlinks(filepath.Join(strings.TrimSpace(string(gr)), "src"))
	if err != nil {
		panic(err)
	}
	fork := load(filepath.Join(*repo, "go", "scanner", "scanner.go"))
	std := load(filepath.Join(src, "go", "scanner", "scanner.go"))

	names := append([]string(nil), fork.order...)
	for _, n := range std.order {
		if _, ok := fork.text[n]; !ok {
			names = append(names, n)
		}
	}
	var b strings.Builder
	b.WriteString("(* generated by translators/tr_scandiff from " + filepath.Join(*repo, "go/scanner/scanner.go") + " and " + filepath.Join(src, "go/scanner/scanner.go") + " - do not edit *)\n")
	b.WriteString("From Coq Require Import List String.\nImport ListNotations.\nOpen Scope string_scope.\n\n")
	b.WriteString("Inductive fstatus := Same | Different | ForkOnly | StdOnly.\n\n")
	b.WriteString("Definition scandiff : list (string * fstatus * string * string) := [\n")
	counts := map[string]int{}
	var diffs []string
	for i, n := range names {
		ft, fok := fork.text[n]
		st, sok := std.text[n]
		status := "Same"
		switch {
		case !sok:
			status = "ForkOnly"
		case !fok:
			status = "StdOnly"
		case ft != st:
			status = "Different"
		}
		counts[status]++
		if status != "Same" {
			diffs = append(diffs, fmt.Sprintf("%s: %s fork=%s std=%s", n, status, sha(ft), sha(st)))
		}
		sep := ";"
		if i == len(names)-1 {
			sep = ""
		}
		hf, hs := "", ""
		if fok {
			hf = sha(ft)
		}
		if sok {
			hs = sha(st)
		}
		fmt.Fprintf(&b, "  (%s, %s, %s, %s)%s\n", coqStr(n), status, coqStr(hf), coqStr(hs), sep)
	}
	b.WriteString("].\n")
	if err := os.WriteFile(filepath.Join(*out, "Gen23a_scandiff.v"), []byte(b.String()), 0o644); err != nil {
		panic(err)
	}
	sort.Strings(diffs)
	fmt.Printf("tr_scandiff: %d rows %v\n%s\n", len(names), counts, strings.Join(diffs, "\n"))
}

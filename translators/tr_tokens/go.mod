module tr_tokens

go 1.18

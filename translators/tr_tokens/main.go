// tr_tokens: regenerates the token and keyword tables of both scanners as Coq lists (<out>/Gen23b_tokens.v) and
// copies the theorem file over them (GenProps.v.tmpl -> <out>/Gen23c_Props.v).
//
//	std:  $GOROOT/src/go/token/token.go   const block (name -> iota value), `tokens` array (name -> spelling);
//	      keywords = the constants between keyword_beg and keyword_end (cross-checked against token.Lookup at run time)
//	fork: $repo/go/etoken/token.go        const block (base expression must be `(token.VAR+127)&^127 + iota`),
//	      `tokens` map literal in init(), the loop that fills `keywords` (must be `keywords[v[1:]] = k` over tokens),
//	      the if/else-if chain of Lookup (conditions `lit == "w"` or `GENERICS == GENERICS_V1_CXX && lit == "w"`, final
//	      `return token.Lookup(lit)`), the body of LookupSpecial.
//
// Anything that does not have exactly the expected shape is emitted as `shape_ok := false` with the offending text,
// which makes the obligations fail; nothing is guessed.
package main

import (
	"bytes"
	"flag"
	"fmt"
	"go/ast"
	"go/parser"
	"go/printer"
	"go/token"
	"os"
	"os/exec"
	"path/filepath"
	"strconv"
	"strings"
)

var fset = token.NewFileSet()

func show(n interface{}) string {
	var b bytes.Buffer
	printer.Fprint(&b, fset, n)
	return b.String()
}

func coqStr(s string) string { return `"` + strings.ReplaceAll(s, `"`, `""`) + `"` }

var problems []string

func bad(format string, a ...interface{}) { problems = append(problems, fmt.Sprintf(format, a...)) }

type kv struct {
	k string
	v int
}

// constBlock returns the names of the iota const block that contains `first`, in order, with the text of the first value.
func constBlock(f *ast.File, first string) (names []string, firstExpr string) {
	for _, d := range f.Decls {
		gd, ok := d.(*ast.GenDecl)
		if !ok || gd.Tok != token.CONST {
			continue
		}
		var ns []string
		for i, sp := range gd.Specs {
			vs := sp.(*ast.ValueSpec)
			if i == 0 && len(vs.Values) == 1 {
				firstExpr = show(vs.Values[0])
			} else if len(vs.Values) != 0 {
				ns = nil
				break
			}
			if len(vs.Names) != 1 {
				ns = nil
				break
			}
			ns = append(ns, vs.Names[0].Name)
		}
		if len(ns) > 0 && ns[0] == first {
			return ns, firstExpr
		}
	}
	return nil, ""
}

func unq(e ast.Expr) (string, bool) {
	bl, ok := e.(*ast.BasicLit)
	if !ok || bl.Kind != token.STRING {
		return "", false
	}
	s, err := strconv.Unquote(bl.Value)
	return s, err == nil
}

func main() {
	repo := flag.String("repo", "/repo", "gomacro tree")
	out := flag.String("out", ".", "output directory")
	verif := flag.String("verif", "/verif", "verification tree")
	flag.Parse()
	gr, err := exec.Command("go", "env", "GOROOT").Output()
	if err != nil {
		panic(err)
	}
	src, err := filepath.EvalSymlinks(filepath.Join(strings.TrimSpace(string(gr)), "src"))
	if err != nil {
		panic(err)
	}

	// ---------------- std
	sf, err := parser.ParseFile(fset, filepath.Join(src, "go", "token", "token.go"), nil, 0)
	if err != nil {
		panic(err)
	}
	stdNames, fe := constBlock(sf, "ILLEGAL")
	if fe != "iota" {
		bad("go/token const block does not start with ILLEGAL Token = iota: %q", fe)
	}
	stdVal := map[string]int{}
	for i, n := range stdNames {
		stdVal[n] = i
	}
	// tokens array
	stdSpell := map[string]string{}
	ast.Inspect(sf, func(n ast.Node) bool {
		vs, ok := n.(*ast.ValueSpec)
		if !ok || len(vs.Names) != 1 || vs.Names[0].Name != "tokens" || len(vs.Values) != 1 {
			return true
		}
		cl, ok := vs.Values[0].(*ast.CompositeLit)
		if !ok {
			bad("go/token tokens is not a composite literal")
			return true
		}
		for _, e := range cl.Elts {
			kvx, ok := e.(*ast.KeyValueExpr)
			if !ok {
				bad("go/token tokens entry %s", show(e))
				continue
			}
			k, ok1 := kvx.Key.(*ast.Ident)
			v, ok2 := unq(kvx.Value)
			if !ok1 || !ok2 {
				bad("go/token tokens entry %s", show(e))
				continue
			}
			stdSpell[k.Name] = v
		}
		return true
	})
	var stdKeywords []kv
	kb, ke := stdVal["keyword_beg"], stdVal["keyword_end"]
	if kb == 0 || ke <= kb {
		bad("keyword_beg/keyword_end not found")
	}
	for _, n := range stdNames {
		if v := stdVal[n]; v > kb && v < ke {
			sp := stdSpell[n]
			stdKeywords = append(stdKeywords, kv{sp, v})
			if int(token.Lookup(sp)) != v {
				bad("token.Lookup(%q)=%d but the source table says %d", sp, token.Lookup(sp), v)
			}
		}
	}
	for i := 0; i < len(stdNames); i++ {
		if token.Token(i).IsKeyword() != (i > kb && i < ke) {
			bad("IsKeyword(%d) disagrees with the source table", i)
		}
	}

	// ---------------- fork
	ff, err := parser.ParseFile(fset, filepath.Join(*repo, "go", "etoken", "token.go"), nil, 0)
	if err != nil {
		panic(err)
	}
	forkNames, fe2 := constBlock(ff, "QUOTE")
	base := -1
	if fe2 == "(token.VAR+127)&^127 + iota" {
		base = (stdVal["VAR"] + 127) &^ 127
	} else {
		bad("etoken const block base expression is %q", fe2)
	}
	forkVal := map[string]int{}
	for i, n := range forkNames {
		forkVal[n] = base + i
	}
	// Token must be an alias of token.Token
	alias := false
	for _, d := range ff.Decls {
		if gd, ok := d.(*ast.GenDecl); ok && gd.Tok == token.TYPE {
			for _, sp := range gd.Specs {
				ts := sp.(*ast.TypeSpec)
				if ts.Name.Name == "Token" && ts.Assign.IsValid() && show(ts.Type) == "token.Token" {
					alias = true
				}
			}
		}
	}
	if !alias {
		bad("etoken.Token is not `type Token = token.Token`")
	}
	var special []kv
	type lcase struct {
		v1   bool
		word string
		tok  int
	}
	var cases []lcase
	fallbackStd, specialIsMap := false, false
	for _, d := range ff.Decls {
		fd, ok := d.(*ast.FuncDecl)
		if !ok || fd.Recv != nil {
			continue
		}
		switch fd.Name.Name {
		case "init":
			// tokens = map[Token]string{...}; keywords = make(...); for k, v := range tokens { keywords[v[1:]] = k }; later assignments to tokens only
			loopSeen := false
			for _, st := range fd.Body.List {
				txt := show(st)
				switch s := st.(type) {
				case *ast.AssignStmt:
					if cl, ok := s.Rhs[0].(*ast.CompositeLit); ok && show(s.Lhs[0]) == "tokens" && !loopSeen {
						for _, e := range cl.Elts {
							kvx := e.(*ast.KeyValueExpr)
							k, ok1 := kvx.Key.(*ast.Ident)
							v, ok2 := unq(kvx.Value)
							if !ok1 || !ok2 || len(v) < 2 {
								bad("etoken tokens entry %s", show(e))
								continue
							}
							special = append(special, kv{v[1:], forkVal[k.Name]})
						}
					} else if txt == "keywords = make(map[string]Token)" {
					} else if strings.HasPrefix(txt, "tokens[") && loopSeen {
						// tokens[X] = "..." after the loop: spelling only, not a keyword
					} else {
						bad("etoken init: unexpected statement %s", txt)
					}
				case *ast.RangeStmt:
					if show(s.X) == "tokens" && show(s.Key) == "k" && show(s.Value) == "v" && len(s.Body.List) == 1 && show(s.Body.List[0]) == "keywords[v[1:]] = k" {
						loopSeen = true
					} else {
						bad("etoken init: unexpected loop %s", txt)
					}
				default:
					bad("etoken init: unexpected statement %s", txt)
				}
			}
			if !loopSeen {
				bad("etoken init: keywords loop not found")
			}
		case "Lookup":
			if len(fd.Body.List) != 2 {
				bad("etoken.Lookup: %d statements", len(fd.Body.List))
				break
			}
			var st ast.Stmt = fd.Body.List[0]
			for st != nil {
				is, ok := st.(*ast.IfStmt)
				if !ok || is.Init != nil || len(is.Body.List) != 1 {
					bad("etoken.Lookup: unexpected %s", show(st))
					break
				}
				ret, ok := is.Body.List[0].(*ast.ReturnStmt)
				if !ok || len(ret.Results) != 1 {
					bad("etoken.Lookup: unexpected body %s", show(is.Body))
					break
				}
				c := lcase{tok: -1}
				if id, ok := ret.Results[0].(*ast.Ident); ok {
					if v, ok := forkVal[id.Name]; ok {
						c.tok = v
					}
				}
				cond := is.Cond
				if be, ok := cond.(*ast.BinaryExpr); ok && be.Op == token.LAND && show(be.X) == "GENERICS == GENERICS_V1_CXX" {
					c.v1 = true
					cond = be.Y
				}
				be, ok := cond.(*ast.BinaryExpr)
				w, okw := "", false
				if ok && be.Op == token.EQL && show(be.X) == "lit" {
					w, okw = unq(be.Y)
				}
				if !okw || c.tok < 0 {
					bad("etoken.Lookup: unexpected condition/result %s -> %s", show(is.Cond), show(ret))
					break
				}
				c.word = w
				cases = append(cases, c)
				st = is.Else
			}
			if show(fd.Body.List[1]) == "return token.Lookup(lit)" {
				fallbackStd = true
			} else {
				bad("etoken.Lookup: final statement %s", show(fd.Body.List[1]))
			}
		case "LookupSpecial":
			if len(fd.Body.List) == 2 && show(fd.Body.List[0]) == "tok, _ := keywords[lit]" && show(fd.Body.List[1]) == "return tok" {
				specialIsMap = true
			} else {
				bad("etoken.LookupSpecial: unexpected body %s", show(fd.Body))
			}
		}
	}

	var b strings.Builder
	b.WriteString("(* generated by translators/tr_tokens from " + filepath.Join(src, "go/token/token.go") + " and " + filepath.Join(*repo, "go/etoken/token.go") + " - do not edit *)\n")
	b.WriteString("From Coq Require Import List String ZArith Bool.\nImport ListNotations.\nOpen Scope string_scope.\nOpen Scope Z_scope.\n\n")
	list := func(name string, rows []string, typ string) {
		if len(rows) == 0 {
			fmt.Fprintf(&b, "Definition %s : list (%s) := [].\n\n", name, typ)
			return
		}
		fmt.Fprintf(&b, "Definition %s : list (%s) := [\n  %s\n].\n\n", name, typ, strings.Join(rows, ";\n  "))
	}
	var rows []string
	for _, n := range stdNames {
		rows = append(rows, fmt.Sprintf("(%s, %d)", coqStr(n), stdVal[n]))
	}
	list("gen_std_consts", rows, "string * Z")
	rows = nil
	for _, n := range forkNames {
		rows = append(rows, fmt.Sprintf("(%s, %d)", coqStr(n), forkVal[n]))
	}
	list("gen_fork_consts", rows, "string * Z")
	rows = nil
	for _, k := range stdKeywords {
		rows = append(rows, fmt.Sprintf("(%s, %d)", coqStr(k.k), k.v))
	}
	list("gen_std_keywords", rows, "string * Z")
	rows = nil
	for _, k := range special {
		rows = append(rows, fmt.Sprintf("(%s, %d)", coqStr(k.k), k.v))
	}
	list("gen_fork_special", rows, "string * Z")
	rows = nil
	for _, c := range cases {
		rows = append(rows, fmt.Sprintf("(%v, %s, %d)", c.v1, coqStr(c.word), c.tok))
	}
	list("gen_fork_lookup_cases", rows, "bool * string * Z")
	fmt.Fprintf(&b, "Definition gen_fork_lookup_falls_back_to_token_Lookup : bool := %v.\n", fallbackStd)
	fmt.Fprintf(&b, "Definition gen_fork_lookupspecial_is_keywords_map : bool := %v.\n", specialIsMap)
	fmt.Fprintf(&b, "Definition gen_shape_ok : bool := %v.\n", len(problems) == 0)
	for _, p := range problems {
		fmt.Fprintf(&b, "(* shape problem: %s *)\n", strings.ReplaceAll(strings.ReplaceAll(p, "*)", "* )"), `"`, "'"))
	}
	if err := os.WriteFile(filepath.Join(*out, "Gen23b_tokens.v"), []byte(b.String()), 0o644); err != nil {
		panic(err)
	}
	tmpl, err := os.ReadFile(filepath.Join(*verif, "translators", "tr_tokens", "GenProps.v.tmpl"))
	if err != nil {
		panic(err)
	}
	if err := os.WriteFile(filepath.Join(*out, "Gen23c_Props.v"), tmpl, 0o644); err != nil {
		panic(err)
	}
	fmt.Printf("tr_tokens: %d std consts, %d keywords, %d fork consts, %d special keywords, %d Lookup cases, problems=%v\n",
		len(stdNames), len(stdKeywords), len(forkNames), len(special), len(cases), problems)
}

module tr_golite

go 1.18

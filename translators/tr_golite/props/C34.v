(* C34 -- theorems over the table regenerated from xreflect/cti_basic_method.go by translators/tr_golite.
   Compiled on every run as build/C34/Gen_zz_props.v, after Gen_cti_basic_method.v. *)
From Coq Require Import ZArith List Bool.
From Verif Require Import Common.GoInt Common.GoStr GoLite.Syntax GoLite.Sem GoLite.Templates C34.Model C34.Proof.
From Gen Require Import Gen_cti_basic_method.
Import ListNotations.
Open Scope Z_scope.

(* diagnostics for the replay file: source lines of the rows the checker rejects *)
Definition bad_rows : list Z := Eval vm_compute in map e_line (filter (fun e => negb (entry_ok e)) table).
Print bad_rows.

(* the per-run obligations: finite sweeps over the regenerated table *)
Lemma table_ok : forallb entry_ok table = true.
Proof. vm_compute. reflexivity. Qed.
Lemma table_coverage : coverage_ok table = true /\ Z.of_nat (length table) = count_funclits.
Proof. vm_compute. split; reflexivity. Qed.

Lemma table_sound :
  forall F fbin fcmp fun1 fconv fpart fofbits e, In e table ->
    exists k m sh, classify (e_path e) = Some (k, m) /\ shape_of k m = Some sh /\
      forall args le s, bind_params F (e_params e) args = Some le ->
        denote F fbin fcmp fun1 fconv fpart fofbits 0 [] (closure_of e) args s
        = pack F s (spec_of_shape F fbin fcmp fun1 fpart k sh args).
Proof.
  intros. apply entry_ok_sound. exact (proj1 (forallb_forall entry_ok table) table_ok e H).
Qed.

(* every function literal of the file, for all arguments, is the Go operator named by its case label *)
Theorem C34_basic_methods_sound :
  forall F fbin fcmp fun1 fconv fpart fofbits e, In e table ->
    exists k m sh, classify (e_path e) = Some (k, m) /\ shape_of k m = Some sh /\
      forall args le s, bind_params F (e_params e) args = Some le ->
        denote F fbin fcmp fun1 fconv fpart fofbits 0 [] (closure_of e) args s
        = pack F s (spec_of_shape F fbin fcmp fun1 fpart k sh args).
Proof. exact table_sound. Qed.
Print Assumptions C34_basic_methods_sound.

(* every kind has every method of its category, and no function literal of the file escapes the table *)
Theorem C34_method_coverage : coverage_ok table = true /\ Z.of_nat (length table) = count_funclits.
Proof. exact table_coverage. Qed.
Print Assumptions C34_method_coverage.

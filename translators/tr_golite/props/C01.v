(* C01 -- theorems over the tables regenerated from fast/binary_ops.go, binary_shifts.go, binary_relops.go,
   binary_eqlneq.go, unary_ops.go, util.go (Expr.AsUint64) by translators/tr_golite.
   Compiled on every run as build/C01/Gen_zz_props.v, after the Gen_<file>.v tables. *)
From Coq Require Import ZArith List Bool.
From Verif Require Import Common.GoInt Common.GoStr GoLite.Syntax GoLite.Sem GoLite.Templates C01.Model C01.Proof.
From Gen Require Gen_binary_ops Gen_binary_shifts Gen_binary_relops Gen_binary_eqlneq Gen_unary_ops Gen_identifier Gen_util.
Import ListNotations.
Open Scope Z_scope.

Definition tables : list entry :=
  Gen_binary_ops.table ++ Gen_binary_shifts.table ++ Gen_binary_relops.table ++ Gen_binary_eqlneq.table ++
  Gen_unary_ops.table ++ Gen_util.table.

(* diagnostics for the replay file: source lines of the rows the checker rejects, per file *)
Definition bad (t : list entry) := map e_line (filter (fun e => negb (row_ok e)) t).
Definition bad_rows := Eval vm_compute in
  (bad Gen_binary_ops.table, bad Gen_binary_shifts.table, bad Gen_binary_relops.table,
   bad Gen_binary_eqlneq.table, bad Gen_unary_ops.table, bad Gen_util.table).
Print bad_rows.
Definition rows_in_scope := Eval vm_compute in (length (filter in_scope tables), length tables).
Print rows_in_scope.

(* the per-run obligations: finite sweeps over the regenerated tables *)
Lemma tables_ok : forallb row_ok tables = true.
Proof. vm_compute. reflexivity. Qed.

Lemma tables_count :
  Z.of_nat (length Gen_binary_ops.table) = Gen_binary_ops.count_funclits /\
  Z.of_nat (length Gen_binary_shifts.table) = Gen_binary_shifts.count_funclits /\
  Z.of_nat (length Gen_binary_relops.table) = Gen_binary_relops.count_funclits /\
  Z.of_nat (length Gen_binary_eqlneq.table) = Gen_binary_eqlneq.count_funclits /\
  Z.of_nat (length Gen_unary_ops.table) = Gen_unary_ops.count_funclits /\
  Z.of_nat (length Gen_identifier.table) = Gen_identifier.count_funclits /\
  Z.of_nat (length Gen_util.table) = Gen_util.count_funclits.
Proof. vm_compute. repeat split; reflexivity. Qed.

Lemma tables_sound :
  forall F fbin fcmp fun1 fconv fpart fofbits e, In e tables -> in_scope e = true ->
    exists t, classify e = Some t /\ tmpl_valid t = true /\
      forall (i : inputs F) p s, inputs_ok F t i ->
        run F fbin fcmp fun1 fconv fpart fofbits (roots_of F t i) (closure_of e) p s
        = spec_tmpl F fbin fcmp fun1 fconv t i p s.
Proof.
  intros F fbin fcmp fun1 fconv fpart fofbits e Hin Hsc.
  pose proof (proj1 (forallb_forall row_ok tables) tables_ok e Hin) as H.
  unfold row_ok in H. rewrite Hsc in H. apply entry_ok_sound. exact H.
Qed.

Definition is_binop_tmpl (t : tmpl) := match t with TBin _ _ _ _ | TShift _ _ _ => True | _ => False end.
Definition is_unary_tmpl (t : tmpl) := match t with TUn _ _ => True | _ => False end.

(* every in-scope function literal of the six files (basic-kind closures of Add ... Andnot, Lss ... Neq, Shl, Shr,
   mulPow2, quoPow2, remPow2, UnaryMinus/Xor/Not, Expr.AsUint64): for ALL operand functions, constants and states
   it evaluates its operands left to right, once each, and returns the Go operation named by the enclosing
   function at the kind named by the case label *)
Theorem C01_binop_table_sound :
  forall F fbin fcmp fun1 fconv fpart fofbits e, In e tables -> in_scope e = true ->
    exists t, classify e = Some t /\ tmpl_valid t = true /\
      forall (i : inputs F) p s, inputs_ok F t i ->
        run F fbin fcmp fun1 fconv fpart fofbits (roots_of F t i) (closure_of e) p s
        = spec_tmpl F fbin fcmp fun1 fconv t i p s.
Proof. exact tables_sound. Qed.
Print Assumptions C01_binop_table_sound.

(* the unary rows are part of the same table; stated separately for the record *)
Theorem C01_unary_table_sound :
  forall F fbin fcmp fun1 fconv fpart fofbits e, In e Gen_unary_ops.table -> in_scope e = true ->
    exists t, classify e = Some t /\ tmpl_valid t = true /\
      forall (i : inputs F) p s, inputs_ok F t i ->
        run F fbin fcmp fun1 fconv fpart fofbits (roots_of F t i) (closure_of e) p s
        = spec_tmpl F fbin fcmp fun1 fconv t i p s.
Proof.
  intros F fbin fcmp fun1 fconv fpart fofbits e Hin. apply tables_sound.
  unfold tables. do 4 (apply in_or_app; right). apply in_or_app. left. exact Hin.
Qed.
Print Assumptions C01_unary_table_sound.

(* fast/identifier.go: every variable-read closure of a basic kind is the uniform template for its
   (storage class, frames up, kind): same frame and slot as its sibling kinds, accessor of its own kind *)
Definition bad_varread := Eval vm_compute in map e_line (filter (fun e => negb (varread_ok e)) Gen_identifier.table).
Print bad_varread.
Lemma varread_uniform : forallb varread_ok Gen_identifier.table = true.
Proof. vm_compute. reflexivity. Qed.
Theorem C01_varread_table_uniform :
  forall e, In e Gen_identifier.table -> varread_in_scope e = true ->
    exists c, varread_expected e = Some c /\ closure_of e = c.
Proof.
  intros e Hin Hsc. pose proof (proj1 (forallb_forall varread_ok Gen_identifier.table) varread_uniform e Hin) as H.
  unfold varread_ok in H. rewrite Hsc in H. destruct (varread_expected e) as [c|]; [|discriminate].
  exists c. split; [reflexivity|]. apply closure_beq_eq. exact H.
Qed.
Print Assumptions C01_varread_table_uniform.

(* no function literal of the files escapes the tables *)
Theorem C01_funclit_coverage :
  Z.of_nat (length Gen_binary_ops.table) = Gen_binary_ops.count_funclits /\
  Z.of_nat (length Gen_binary_shifts.table) = Gen_binary_shifts.count_funclits /\
  Z.of_nat (length Gen_binary_relops.table) = Gen_binary_relops.count_funclits /\
  Z.of_nat (length Gen_binary_eqlneq.table) = Gen_binary_eqlneq.count_funclits /\
  Z.of_nat (length Gen_unary_ops.table) = Gen_unary_ops.count_funclits /\
  Z.of_nat (length Gen_identifier.table) = Gen_identifier.count_funclits /\
  Z.of_nat (length Gen_util.table) = Gen_util.count_funclits.
Proof. exact tables_count. Qed.
Print Assumptions C01_funclit_coverage.

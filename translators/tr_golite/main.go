// tr_golite: translates the function literals (closures) of gomacro's generated files into GoLite table rows
// (Coq terms of type Verif.GoLite.Syntax.entry), one row per function literal.
//
//	tr_golite -repo /repo -verif /verif -out build/C01 -files fast/binary_ops.go,fast/util.go:AsUint64
//
// For every configured file it writes <out>/Gen_<base>.v containing
//
//	Definition table : list entry := [ ... ].      one row per function literal, in source order
//	Definition count_funclits : Z := n.            number of *ast.FuncLit nodes found by an independent ast.Inspect
//
// The mapping is syntactic, one constructor per go/ast node kind; anything outside the fragment becomes
// EOpaque/SOpaque/TOther/V_other..., which no template on the Coq side contains.
// Constructor names are read from coq/GoLite/Syntax.v, so the two sides cannot drift apart silently.
package main

import (
	"flag"
	"fmt"
	"go/ast"
	"go/parser"
	"go/printer"
	"go/token"
	"hash/fnv"
	"os"
	"path/filepath"
	"regexp"
	"strconv"
	"strings"
)

var known = map[string]map[string]bool{} // inductive name -> constructor set

func loadSyntax(path string) {
	b, err := os.ReadFile(path)
	if err != nil {
		fatal("cannot read %s: %v", path, err)
	}
	re := regexp.MustCompile(`(?s)Inductive\s+(\w+)\s*:=(.*?)\.\n`)
	for _, m := range re.FindAllStringSubmatch(string(b), -1) {
		set := map[string]bool{}
		for _, c := range regexp.MustCompile(`\|\s*(\w+)`).FindAllStringSubmatch(m[2], -1) {
			set[c[1]] = true
		}
		known[m[1]] = set
	}
	for _, n := range []string{"ident", "field", "meth", "gname", "sname", "fname", "gokind"} {
		if len(known[n]) == 0 {
			fatal("Syntax.v: inductive %s not found", n)
		}
	}
}

func fatal(f string, a ...interface{}) {
	fmt.Fprintf(os.Stderr, "tr_golite: "+f+"\n", a...)
	os.Exit(2)
}

func hashN(s string) string {
	h := fnv.New32a()
	h.Write([]byte(s))
	return strconv.FormatUint(uint64(h.Sum32()), 10)
}

// enum renders name as constructor prefix_name of inductive ind if it exists, else (prefix_other hash)
func enum(ind, prefix, name string) string {
	c := prefix + "_" + name
	if known[ind][c] {
		return c
	}
	return "(" + prefix + "_other " + hashN(name) + ")"
}

var kinds = map[string]string{
	"bool": "GBool", "int": "GInt", "int8": "GInt8", "int16": "GInt16", "int32": "GInt32", "int64": "GInt64",
	"uint": "GUint", "uint8": "GUint8", "uint16": "GUint16", "uint32": "GUint32", "uint64": "GUint64", "uintptr": "GUintptr",
	"float32": "GFloat32", "float64": "GFloat64", "complex64": "GComplex64", "complex128": "GComplex128", "string": "GString",
	"byte": "GUint8", "rune": "GInt32",
}
var kindNames = map[string]string{
	"Bool": "GBool", "Int": "GInt", "Int8": "GInt8", "Int16": "GInt16", "Int32": "GInt32", "Int64": "GInt64",
	"Uint": "GUint", "Uint8": "GUint8", "Uint16": "GUint16", "Uint32": "GUint32", "Uint64": "GUint64", "Uintptr": "GUintptr",
	"Float32": "GFloat32", "Float64": "GFloat64", "Complex64": "GComplex64", "Complex128": "GComplex128", "String": "GString",
}
var binops = map[token.Token]string{
	token.ADD: "Add", token.SUB: "Sub", token.MUL: "Mul", token.QUO: "Quo", token.REM: "Rem", token.AND: "And", token.OR: "Or",
	token.XOR: "Xor", token.AND_NOT: "AndNot", token.SHL: "Shl", token.SHR: "Shr", token.EQL: "Eql", token.NEQ: "Neq",
	token.LSS: "Lss", token.LEQ: "Leq", token.GTR: "Gtr", token.GEQ: "Geq", token.LAND: "LAnd", token.LOR: "LOr",
}
var assignops = map[token.Token]string{
	token.ADD_ASSIGN: "Add", token.SUB_ASSIGN: "Sub", token.MUL_ASSIGN: "Mul", token.QUO_ASSIGN: "Quo", token.REM_ASSIGN: "Rem",
	token.AND_ASSIGN: "And", token.OR_ASSIGN: "Or", token.XOR_ASSIGN: "Xor", token.AND_NOT_ASSIGN: "AndNot",
	token.SHL_ASSIGN: "Shl", token.SHR_ASSIGN: "Shr",
}

type def struct {
	name string
	rhs  ast.Expr // nil for implicit (type switch) definitions
	text string   // translated right-hand side
	free map[string]bool
}

type tr struct {
	fset      *token.FileSet
	pkgs      map[string]bool // import names of the file
	rows      []string
	nrows     int
	mutable   map[string]bool // variables assigned with '=' somewhere in the current function: roots, never lets
	fn        string
	opaque    []string
	fileLevel map[string]token.Pos // package-level var/const declared in this file
}

func (t *tr) src(n ast.Node) string {
	var sb strings.Builder
	printer.Fprint(&sb, t.fset, n)
	s := strings.Join(strings.Fields(sb.String()), " ")
	return s
}

func (t *tr) opq(kind string, n ast.Node) string {
	s := t.src(n)
	if len(s) > 80 {
		s = s[:80]
	}
	t.opaque = append(t.opaque, s)
	return "(" + kind + " " + hashN(s) + ")"
}

// ---------------------------------------------------------------- types
func (t *tr) isPkg(e ast.Expr) (string, bool) {
	id, ok := e.(*ast.Ident)
	if ok && t.pkgs[id.Name] && id.Obj == nil {
		return id.Name, true
	}
	return "", false
}

func (t *tr) isEnvPtr(e ast.Expr) bool {
	st, ok := e.(*ast.StarExpr)
	if !ok {
		return false
	}
	id, ok := st.X.(*ast.Ident)
	return ok && id.Name == "Env"
}

func (t *tr) isValueType(e ast.Expr) bool {
	se, ok := e.(*ast.SelectorExpr)
	if !ok {
		return false
	}
	_, pk := t.isPkg(se.X)
	return pk && se.Sel.Name == "Value"
}

// isType reports whether e is syntactically a type (as far as this fragment is concerned)
func (t *tr) isType(e ast.Expr) bool {
	switch e := e.(type) {
	case *ast.Ident:
		_, ok := kinds[e.Name]
		return ok && e.Obj == nil
	case *ast.ParenExpr:
		return t.isType(e.X)
	case *ast.StarExpr:
		return t.isType(e.X) || t.isEnvPtr(e)
	case *ast.FuncType, *ast.ArrayType, *ast.MapType, *ast.ChanType, *ast.InterfaceType, *ast.StructType:
		return true
	case *ast.SelectorExpr:
		if p, ok := t.isPkg(e.X); ok {
			return (p == "unsafe" && e.Sel.Name == "Pointer") || e.Sel.Name == "Value"
		}
	}
	return false
}

func (t *tr) ty(e ast.Expr) string {
	switch e := e.(type) {
	case *ast.Ident:
		if k, ok := kinds[e.Name]; ok {
			return "(TK " + k + ")"
		}
		switch e.Name {
		case "Stmt":
			return "TStmt"
		case "I":
			return "TIface"
		}
	case *ast.ParenExpr:
		return t.ty(e.X)
	case *ast.StarExpr:
		if t.isEnvPtr(e) {
			return "TEnv"
		}
		if id, ok := e.X.(*ast.Ident); ok {
			if k, ok := kinds[id.Name]; ok {
				return "(TPtr " + k + ")"
			}
		}
	case *ast.SelectorExpr:
		if p, ok := t.isPkg(e.X); ok {
			if e.Sel.Name == "Value" {
				return "TValue"
			}
			if p == "unsafe" && e.Sel.Name == "Pointer" {
				return "TUnsafePtr"
			}
		}
	case *ast.InterfaceType:
		if e.Methods == nil || len(e.Methods.List) == 0 {
			return "TIface"
		}
	case *ast.FuncType:
		// func(*Env) K and friends
		if e.Params != nil && len(e.Params.List) == 1 && len(e.Params.List[0].Names) <= 1 && t.isEnvPtr(e.Params.List[0].Type) && e.Results != nil {
			var res []ast.Expr
			for _, f := range e.Results.List {
				n := len(f.Names)
				if n == 0 {
					n = 1
				}
				for i := 0; i < n; i++ {
					res = append(res, f.Type)
				}
			}
			if len(res) == 1 {
				if id, ok := res[0].(*ast.Ident); ok {
					if k, ok := kinds[id.Name]; ok {
						return "(TFun " + k + ")"
					}
				}
				if st, ok := res[0].(*ast.StarExpr); ok {
					if id, ok := st.X.(*ast.Ident); ok {
						if k, ok := kinds[id.Name]; ok {
							return "(TFunPtr " + k + ")"
						}
					}
				}
				if t.isValueType(res[0]) {
					return "TFunV"
				}
			}
			if len(res) == 2 && t.isValueType(res[0]) {
				if at, ok := res[1].(*ast.ArrayType); ok && at.Len == nil && t.isValueType(at.Elt) {
					return "TFunVV"
				}
			}
			if len(res) == 2 && t.isEnvPtr(res[1]) {
				if id, ok := res[0].(*ast.Ident); ok && id.Name == "Stmt" {
					return "TStmt"
				}
			}
		}
	}
	return "(TOther " + hashN(t.src(e)) + ")"
}

// ---------------------------------------------------------------- expressions
func (t *tr) exprs(es []ast.Expr) []string {
	var r []string
	for _, e := range es {
		r = append(r, t.expr(e))
	}
	return r
}

func (t *tr) expr(e ast.Expr) string {
	switch e := e.(type) {
	case *ast.Ident:
		if known["gname"]["G_"+e.Name] && (e.Obj == nil || (t.fileLevel[e.Name] != token.NoPos && e.Obj.Pos() == t.fileLevel[e.Name])) {
			return "(EGlob G_" + e.Name + ")" // package-level name declared in another file
		}
		return "(EVar " + enum("ident", "V", e.Name) + ")"
	case *ast.BasicLit:
		switch e.Kind {
		case token.INT:
			if v, err := strconv.ParseInt(e.Value, 0, 64); err == nil {
				return fmt.Sprintf("(ELit %d)", v)
			}
		case token.STRING:
			if s, err := strconv.Unquote(e.Value); err == nil {
				if s == "" {
					return "(EStr S_empty)"
				}
				if regexp.MustCompile(`^\w+$`).MatchString(s) {
					return "(EStr " + enum("sname", "S", s) + ")"
				}
			}
		}
	case *ast.ParenExpr:
		return t.expr(e.X)
	case *ast.BinaryExpr:
		if op, ok := binops[e.Op]; ok {
			return "(EBin " + op + " " + t.expr(e.X) + " " + t.expr(e.Y) + ")"
		}
	case *ast.UnaryExpr:
		switch e.Op {
		case token.SUB:
			if bl, ok := e.X.(*ast.BasicLit); ok && bl.Kind == token.INT {
				if v, err := strconv.ParseInt(bl.Value, 0, 64); err == nil {
					return fmt.Sprintf("(EUn Neg (ELit %d))", v)
				}
			}
			return "(EUn Neg " + t.expr(e.X) + ")"
		case token.XOR:
			return "(EUn Compl " + t.expr(e.X) + ")"
		case token.NOT:
			return "(EUn LNot " + t.expr(e.X) + ")"
		case token.ADD:
			return "(EUn Plus " + t.expr(e.X) + ")"
		case token.AND:
			return "(EAddr " + t.expr(e.X) + ")"
		}
	case *ast.StarExpr:
		return "(EDeref " + t.expr(e.X) + ")"
	case *ast.TypeAssertExpr:
		if e.Type == nil {
			return "(ETypeOf " + t.expr(e.X) + ")"
		}
		return "(EAssert " + t.ty(e.Type) + " " + t.expr(e.X) + ")"
	case *ast.IndexExpr:
		return "(EIndex " + t.expr(e.X) + " " + t.expr(e.Index) + ")"
	case *ast.SliceExpr:
		if !e.Slice3 && e.Low != nil && e.High != nil {
			return "(ESlice " + t.expr(e.X) + " " + t.expr(e.Low) + " " + t.expr(e.High) + ")"
		}
	case *ast.SelectorExpr:
		if _, ok := t.isPkg(e.X); ok {
			if k, ok := kindNames[e.Sel.Name]; ok {
				return "(EKindLit " + k + ")"
			}
			return "(EGlob " + enum("gname", "G", e.Sel.Name) + ")"
		}
		return "(ESel " + t.expr(e.X) + " " + enum("field", "F", e.Sel.Name) + ")"
	case *ast.CallExpr:
		if e.Ellipsis != token.NoPos {
			break
		}
		if t.isType(e.Fun) && len(e.Args) == 1 {
			return "(EConv " + t.ty(e.Fun) + " " + t.expr(e.Args[0]) + ")"
		}
		var f string
		switch fn := e.Fun.(type) {
		case *ast.Ident:
			if (fn.Obj == nil || fn.Obj.Kind == ast.Fun) && known["gname"]["G_"+fn.Name] {
				f = "(EGlob G_" + fn.Name + ")"
			} else {
				f = t.expr(fn)
			}
		case *ast.SelectorExpr:
			if p, ok := t.isPkg(fn.X); ok {
				name := fn.Sel.Name
				if name == "ValueOf" && (p == "r" || p == "reflect") {
					name = "r_ValueOf"
				}
				if p == "unsafe" {
					name = "unsafe_" + name
				}
				f = "(EGlob " + enum("gname", "G", name) + ")"
			} else {
				f = "(EMeth " + t.expr(fn.X) + " " + enum("meth", "M", fn.Sel.Name) + ")"
			}
		default:
			f = t.expr(e.Fun)
		}
		a := t.exprs(e.Args)
		switch len(a) {
		case 0:
			return "(ECall0 " + f + ")"
		case 1:
			return "(ECall1 " + f + " " + a[0] + ")"
		case 2:
			return "(ECall2 " + f + " " + a[0] + " " + a[1] + ")"
		case 3:
			return "(ECall3 " + f + " " + a[0] + " " + a[1] + " " + a[2] + ")"
		}
	}
	if t.isType(e) {
		return "(ETypeLit " + t.ty(e) + ")"
	}
	return t.opq("EOpaque", e)
}

// ---------------------------------------------------------------- statements inside a closure
func (t *tr) seq(list []ast.Stmt) string {
	if len(list) == 0 {
		return "SSkip"
	}
	if len(list) == 1 {
		return t.stmt(list[0])
	}
	return "(SSeq " + t.stmt(list[0]) + " " + t.seq(list[1:]) + ")"
}

func (t *tr) stmt(s ast.Stmt) string {
	switch s := s.(type) {
	case *ast.EmptyStmt:
		return "SSkip"
	case *ast.BlockStmt:
		return "(SBlock " + t.seq(s.List) + ")"
	case *ast.ReturnStmt:
		switch len(s.Results) {
		case 0:
			return "SReturn0"
		case 1:
			return "(SReturn " + t.expr(s.Results[0]) + ")"
		case 2:
			return "(SReturn2 " + t.expr(s.Results[0]) + " " + t.expr(s.Results[1]) + ")"
		}
	case *ast.ExprStmt:
		return "(SExpr " + t.expr(s.X) + ")"
	case *ast.IncDecStmt:
		if s.Tok == token.INC {
			return "(SIncDec true " + t.expr(s.X) + ")"
		}
		return "(SIncDec false " + t.expr(s.X) + ")"
	case *ast.AssignStmt:
		if len(s.Lhs) == 1 && len(s.Rhs) == 1 {
			switch {
			case s.Tok == token.DEFINE:
				if id, ok := s.Lhs[0].(*ast.Ident); ok {
					return "(SDefine " + enum("ident", "V", id.Name) + " " + t.expr(s.Rhs[0]) + ")"
				}
			case s.Tok == token.ASSIGN:
				return "(SAssign " + t.expr(s.Lhs[0]) + " " + t.expr(s.Rhs[0]) + ")"
			default:
				if op, ok := assignops[s.Tok]; ok {
					return "(SOpAssign " + op + " " + t.expr(s.Lhs[0]) + " " + t.expr(s.Rhs[0]) + ")"
				}
			}
		}
	case *ast.IfStmt:
		{
			els := "SSkip"
			if s.Else != nil {
				if b, ok := s.Else.(*ast.BlockStmt); ok {
					els = t.seq(b.List)
				} else {
					els = t.stmt(s.Else)
				}
			}
			ifs := "(SIf " + t.expr(s.Cond) + " " + t.seq(s.Body.List) + " " + els + ")"
			if s.Init == nil {
				return ifs
			}
			// if init; cond { } : the Go specification defines it as the block { init; if cond { } }
			return "(SBlock (SSeq " + t.stmt(s.Init) + " " + ifs + "))"
		}
	case *ast.DeclStmt:
		// var x K (one name, basic kind, no initialiser) : x := the zero value of K
		if gd, ok := s.Decl.(*ast.GenDecl); ok && gd.Tok == token.VAR && len(gd.Specs) == 1 {
			if vs, ok := gd.Specs[0].(*ast.ValueSpec); ok && len(vs.Names) == 1 && len(vs.Values) == 0 && vs.Type != nil {
				if id, ok := vs.Type.(*ast.Ident); ok && id.Obj == nil {
					if k, ok := kinds[id.Name]; ok {
						zero := "(EConv (TK " + k + ") (ELit 0))"
						switch k {
						case "GString":
							zero = "(EStr S_empty)"
						case "GBool":
							zero = "(EVar V_false)"
						}
						return "(SDefine " + enum("ident", "V", vs.Names[0].Name) + " " + zero + ")"
					}
				}
			}
		}
	case *ast.ForStmt:
		init, post, cond := "SSkip", "SSkip", "(EVar V_true)"
		if s.Init != nil {
			init = t.stmt(s.Init)
		}
		if s.Post != nil {
			post = t.stmt(s.Post)
		}
		if s.Cond != nil {
			cond = t.expr(s.Cond)
		}
		return "(SFor " + init + " " + cond + " " + post + " " + t.seq(s.Body.List) + ")"
	}
	return t.opq("SOpaque", s)
}

// ---------------------------------------------------------------- free variables
func freeVars(n ast.Node) map[string]bool {
	used := map[string]bool{}
	declared := map[string]bool{}
	var walk func(n ast.Node)
	walk = func(n ast.Node) {
		ast.Inspect(n, func(x ast.Node) bool {
			switch x := x.(type) {
			case *ast.SelectorExpr:
				walk(x.X)
				return false
			case *ast.KeyValueExpr:
				walk(x.Value)
				return false
			case *ast.FuncLit:
				if x.Type.Params != nil {
					for _, f := range x.Type.Params.List {
						for _, nm := range f.Names {
							declared[nm.Name] = true
						}
						walk(f.Type)
					}
				}
				walk(x.Body)
				return false
			case *ast.AssignStmt:
				if x.Tok == token.DEFINE {
					for _, r := range x.Rhs {
						walk(r)
					}
					for _, l := range x.Lhs {
						if id, ok := l.(*ast.Ident); ok {
							declared[id.Name] = true
						}
					}
					return false
				}
			case *ast.Ident:
				used[x.Name] = true
			}
			return true
		})
	}
	walk(n)
	// a name that is both declared inside and used before its declaration (x := x.(T)) cannot occur inside
	// the closures of this code base except as shadowing of a captured variable by ':=' with the captured
	// variable on the right: handled by keeping names used on a right-hand side before being declared.
	res := map[string]bool{}
	for k := range used {
		if !declared[k] {
			res[k] = true
		}
	}
	return res
}

// free variables of a let right-hand side (no declarations inside)
func exprFree(e ast.Expr) map[string]bool {
	r := map[string]bool{}
	ast.Inspect(e, func(x ast.Node) bool {
		switch x := x.(type) {
		case *ast.SelectorExpr:
			for k := range exprFree(x.X) {
				r[k] = true
			}
			return false
		case *ast.Ident:
			r[x.Name] = true
		}
		return true
	})
	return r
}

// ---------------------------------------------------------------- walking the enclosing function
type ctx struct {
	path []string
	defs []def
}

func (c ctx) withPath(p string) ctx {
	np := append(append([]string(nil), c.path...), p)
	return ctx{np, c.defs}
}
func (c ctx) withDefs(ds ...def) ctx {
	nd := append(append([]def(nil), c.defs...), ds...)
	return ctx{c.path, nd}
}

func list(xs []string) string { return "[" + strings.Join(xs, "; ") + "]" }

// emit one table row for lit
func (t *tr) emit(c ctx, lit *ast.FuncLit) {
	need := freeVars(lit)
	var lets []def
	for i := len(c.defs) - 1; i >= 0; i-- {
		d := c.defs[i]
		if need[d.name] && !t.mutable[d.name] {
			delete(need, d.name)
			for k := range d.free {
				need[k] = true
			}
			lets = append([]def{d}, lets...)
		}
	}
	var ls []string
	for _, d := range lets {
		ls = append(ls, "("+enum("ident", "V", d.name)+", "+d.text+")")
	}
	var ps, rs []string
	if lit.Type.Params != nil {
		for _, f := range lit.Type.Params.List {
			ty := t.ty(f.Type)
			if len(f.Names) == 0 {
				ps = append(ps, "(V_other 0, "+ty+")")
			}
			for _, n := range f.Names {
				ps = append(ps, "("+enum("ident", "V", n.Name)+", "+ty+")")
			}
		}
	}
	if lit.Type.Results != nil {
		for _, f := range lit.Type.Results.List {
			n := len(f.Names)
			if n == 0 {
				n = 1
			}
			for i := 0; i < n; i++ {
				rs = append(rs, t.ty(f.Type))
			}
		}
	}
	line := t.fset.Position(lit.Pos()).Line
	body := t.seq(lit.Body.List)
	row := fmt.Sprintf("(* line %d *) mkEntry %d %s\n   %s\n   %s\n   %s %s\n   %s",
		line, line, enum("fname", "FN", t.fn), list(c.path), list(ls), list(ps), list(rs), body)
	t.rows = append(t.rows, row)
	// nested literals inside the body are rows of their own (the outer body holds EOpaque at that place)
	ast.Inspect(lit.Body, func(x ast.Node) bool {
		if fl, ok := x.(*ast.FuncLit); ok {
			t.emit(c.withPath("PLoop"), fl)
			return false
		}
		return true
	})
}

// find the function literals of an expression (not descending into them)
func (t *tr) scanExpr(c ctx, e ast.Node) {
	if e == nil {
		return
	}
	ast.Inspect(e, func(x ast.Node) bool {
		if fl, ok := x.(*ast.FuncLit); ok {
			t.emit(c, fl)
			return false
		}
		return true
	})
}

func (t *tr) mkdef(name string, rhs ast.Expr, text string) def {
	return def{name: name, rhs: rhs, text: text, free: exprFree(rhs)}
}

// definitions introduced by a simple statement (x := e ; x, y := e1, e2 ; x, ok := f())
func (t *tr) defsOf(s ast.Stmt) []def {
	as, ok := s.(*ast.AssignStmt)
	if !ok || as.Tok != token.DEFINE {
		return nil
	}
	var ds []def
	for i, l := range as.Lhs {
		id, ok := l.(*ast.Ident)
		if !ok || id.Name == "_" {
			continue
		}
		switch {
		case len(as.Rhs) == len(as.Lhs):
			ds = append(ds, t.mkdef(id.Name, as.Rhs[i], t.expr(as.Rhs[i])))
		case len(as.Rhs) == 1:
			ds = append(ds, t.mkdef(id.Name, as.Rhs[0], fmt.Sprintf("(EProj %d %s)", i, t.expr(as.Rhs[0]))))
		}
	}
	return ds
}

func (t *tr) block(c ctx, list []ast.Stmt) {
	for _, s := range list {
		c = t.walk(c, s)
	}
}

// walk processes statement s under context c and returns the context for the statements that follow it
func (t *tr) walk(c ctx, s ast.Stmt) ctx {
	switch s := s.(type) {
	case *ast.BlockStmt:
		t.block(c, s.List)
	case *ast.AssignStmt:
		for _, r := range s.Rhs {
			t.scanExpr(c, r)
		}
		return c.withDefs(t.defsOf(s)...)
	case *ast.IfStmt:
		ci := c
		if s.Init != nil {
			ci = t.walk(ci, s.Init)
		}
		t.scanExpr(ci, s.Cond)
		cond := t.expr(s.Cond)
		t.block(ci.withPath("PIf "+cond+" true"), s.Body.List)
		if s.Else != nil {
			ce := ci.withPath("PIf " + cond + " false")
			if b, ok := s.Else.(*ast.BlockStmt); ok {
				t.block(ce, b.List)
			} else {
				t.walk(ce, s.Else)
			}
		}
	case *ast.SwitchStmt:
		ci := c
		if s.Init != nil {
			ci = t.walk(ci, s.Init)
		}
		tag := "(EVar V_true)"
		if s.Tag != nil {
			t.scanExpr(ci, s.Tag)
			tag = t.expr(s.Tag)
		}
		var all []string
		for _, cc := range s.Body.List {
			all = append(all, t.exprs(cc.(*ast.CaseClause).List)...)
		}
		for _, cc := range s.Body.List {
			cl := cc.(*ast.CaseClause)
			var p string
			if cl.List == nil {
				p = "PDefault " + tag + " " + list(all)
			} else {
				p = "PCase " + tag + " " + list(t.exprs(cl.List))
			}
			t.block(ci.withPath(p), cl.Body)
		}
	case *ast.TypeSwitchStmt:
		ci := c
		if s.Init != nil {
			ci = t.walk(ci, s.Init)
		}
		var bindName string
		var x ast.Expr
		switch a := s.Assign.(type) {
		case *ast.AssignStmt:
			bindName = a.Lhs[0].(*ast.Ident).Name
			x = a.Rhs[0].(*ast.TypeAssertExpr).X
		case *ast.ExprStmt:
			x = a.X.(*ast.TypeAssertExpr).X
		}
		tag := "(ETypeOf " + t.expr(x) + ")"
		var all []string
		for _, cc := range s.Body.List {
			for _, e := range cc.(*ast.CaseClause).List {
				all = append(all, "(ETypeLit "+t.ty(e)+")")
			}
		}
		for _, cc := range s.Body.List {
			cl := cc.(*ast.CaseClause)
			cb := ci
			if cl.List == nil {
				cb = cb.withPath("PDefault " + tag + " " + list(all))
			} else {
				var vs []string
				for _, e := range cl.List {
					vs = append(vs, "(ETypeLit "+t.ty(e)+")")
				}
				cb = cb.withPath("PCase " + tag + " " + list(vs))
				if bindName != "" && len(cl.List) == 1 {
					cb = cb.withDefs(def{name: bindName, rhs: x, text: "(EAssert " + t.ty(cl.List[0]) + " " + t.expr(x) + ")", free: exprFree(x)})
				}
			}
			t.block(cb, cl.Body)
		}
	case *ast.ForStmt:
		ci := c
		if s.Init != nil {
			ci = t.walk(ci, s.Init)
		}
		t.scanExpr(ci, s.Cond)
		t.block(ci.withPath("PLoop"), s.Body.List)
	case *ast.RangeStmt:
		t.scanExpr(c, s.X)
		t.block(c.withPath("PLoop"), s.Body.List)
	case *ast.LabeledStmt:
		return t.walk(c, s.Stmt)
	case *ast.DeclStmt:
		t.scanExpr(c, s)
	default:
		t.scanExpr(c, s)
	}
	return c
}

func funcName(fd *ast.FuncDecl) string {
	if fd.Recv != nil && len(fd.Recv.List) == 1 {
		ty := fd.Recv.List[0].Type
		if st, ok := ty.(*ast.StarExpr); ok {
			ty = st.X
		}
		if id, ok := ty.(*ast.Ident); ok {
			switch id.Name {
			case "Comp", "Universe", "Expr":
				return fd.Name.Name
			}
			return id.Name + "_" + fd.Name.Name
		}
	}
	return fd.Name.Name
}

func (t *tr) function(fd *ast.FuncDecl) {
	t.fn = funcName(fd)
	t.mutable = map[string]bool{}
	ast.Inspect(fd.Body, func(x ast.Node) bool {
		switch x := x.(type) {
		case *ast.FuncLit:
			return false
		case *ast.AssignStmt:
			if x.Tok != token.DEFINE {
				for _, l := range x.Lhs {
					if id, ok := l.(*ast.Ident); ok {
						t.mutable[id.Name] = true
					}
				}
			}
		case *ast.IncDecStmt:
			if id, ok := x.X.(*ast.Ident); ok {
				t.mutable[id.Name] = true
			}
		}
		return true
	})
	t.block(ctx{}, fd.Body.List)
}

func main() {
	repo := flag.String("repo", "/repo", "gomacro source tree")
	verif := flag.String("verif", "/verif", "verification tree (for coq/GoLite/Syntax.v)")
	out := flag.String("out", ".", "output directory")
	files := flag.String("files", "", "comma separated list of file[:func1+func2] relative to the repo")
	props := flag.String("props", "", "theorem file over the generated tables, copied to <out>/Gen_zz_props.v (compiled last)")
	flag.Parse()
	loadSyntax(filepath.Join(*verif, "coq", "GoLite", "Syntax.v"))
	os.MkdirAll(*out, 0o755)
	if *props != "" {
		b, err := os.ReadFile(*props)
		if err != nil {
			fatal("%v", err)
		}
		if err := os.WriteFile(filepath.Join(*out, "Gen_zz_props.v"), b, 0o644); err != nil {
			fatal("%v", err)
		}
	}
	for _, spec := range strings.Split(*files, ",") {
		if spec == "" {
			continue
		}
		file, only := spec, map[string]bool{}
		if i := strings.IndexByte(spec, ':'); i >= 0 {
			file = spec[:i]
			for _, f := range strings.Split(spec[i+1:], "+") {
				only[f] = true
			}
		}
		fset := token.NewFileSet()
		af, err := parser.ParseFile(fset, filepath.Join(*repo, file), nil, 0)
		if err != nil {
			fatal("%v", err)
		}
		t := &tr{fset: fset, pkgs: map[string]bool{}, fileLevel: map[string]token.Pos{}}
		for _, d := range af.Decls {
			if gd, ok := d.(*ast.GenDecl); ok {
				for _, sp := range gd.Specs {
					if vs, ok := sp.(*ast.ValueSpec); ok {
						for _, n := range vs.Names {
							t.fileLevel[n.Name] = n.Pos()
						}
					}
				}
			}
		}
		for _, im := range af.Imports {
			p, _ := strconv.Unquote(im.Path.Value)
			name := filepath.Base(p)
			if im.Name != nil {
				name = im.Name.Name
			}
			t.pkgs[name] = true
		}
		count := 0
		for _, d := range af.Decls {
			fd, ok := d.(*ast.FuncDecl)
			if !ok || fd.Body == nil || (len(only) > 0 && !only[fd.Name.Name]) {
				continue
			}
			ast.Inspect(fd.Body, func(x ast.Node) bool {
				if _, ok := x.(*ast.FuncLit); ok {
					count++
				}
				return true
			})
			t.function(fd)
		}
		base := strings.TrimSuffix(filepath.Base(file), ".go")
		var sb strings.Builder
		fmt.Fprintf(&sb, "(* generated by translators/tr_golite from %s -- regenerated on every run, do not edit *)\n", file)
		sb.WriteString("From Coq Require Import ZArith List.\nFrom Verif Require Import GoLite.Syntax.\nImport ListNotations.\nOpen Scope Z_scope.\n\n")
		sb.WriteString("Definition table : list entry := [\n ")
		sb.WriteString(strings.Join(t.rows, ";\n "))
		sb.WriteString("\n].\n\n")
		fmt.Fprintf(&sb, "Definition count_funclits : Z := %d.\n", count)
		fmt.Fprintf(&sb, "(* %d rows; %d opaque fragments *)\n", len(t.rows), len(t.opaque))
		if err := os.WriteFile(filepath.Join(*out, "Gen_"+base+".v"), []byte(sb.String()), 0o644); err != nil {
			fatal("%v", err)
		}
		var ob strings.Builder
		for _, o := range t.opaque {
			ob.WriteString(o + "\n")
		}
		os.WriteFile(filepath.Join(*out, "opaque_"+base+".txt"), []byte(ob.String()), 0o644)
		fmt.Printf("%s: %d function literals, %d rows, %d opaque fragments\n", file, count, len(t.rows), len(t.opaque))
	}
}

// tr_ast2: regenerates, from the SOURCE of go/ast (struct definitions) and of gomacro's ast2 package
// (ast.go, ast_node.go, ast_slice.go, wrap.go, unwrap.go, error.go), the Coq tables used by property C22:
//
//	build/C22/GenC22a_Table.v   structs (fields classified), one row per ast2 wrapper (New/Size/Get/Set/Op),
//	                            the ToAst switch arms, the ToXxx converters, the wrappers' Node() methods
//	build/C22/GenC22b_Props.v   copy of translators/tr_ast2/TableProps.v.tmpl (theorems instantiated on the table)
//	build/C22/table.json        the same table as JSON (used in replay files / by humans)
//
// The mapping is syntactic.  Every construct outside the recognised fragment is emitted as an *Opaque*
// constructor carrying the source text; the Coq checker (row_ok / size_ok / wrap_ok) rejects opaque entries.
// Helper functions whose meaning the Coq model assumes (asNode, badIndex, errorf, ToAst1..4, ToNode) are compared
// with their expected canonical text; a difference makes every row that uses them opaque.
package main

import (
	"bytes"
	"encoding/json"
	"flag"
	"fmt"
	"go/ast"
	"go/parser"
	"go/printer"
	"go/token"
	"os"
	"os/exec"
	"path/filepath"
	"regexp"
	"sort"
	"strconv"
	"strings"
)

var fset = token.NewFileSet()

func src(n ast.Node) string {
	var b bytes.Buffer
	printer.Fprint(&b, fset, n)
	return strings.Join(strings.Fields(b.String()), " ")
}

func q(s string) string { return "\"" + strings.ReplaceAll(s, "\"", "'") + "\"" }

func die(f string, a ...interface{}) {
	fmt.Fprintf(os.Stderr, "tr_ast2: "+f+"\n", a...)
	os.Exit(2)
}

// ---------------------------------------------------------------- go/ast structs

type Field struct {
	Name string `json:"name"`
	Type string `json:"type"`
	Kind string `json:"kind"` // Coq term of type fkind
}
type Struct struct {
	Name   string   `json:"name"`
	IsNode bool     `json:"is_node"`
	Ifaces []string `json:"ifaces"`
	Fields []Field  `json:"fields"`
}

var optPosRe = regexp.MustCompile(`if any|NoPos|invalid if`)

var ifaceNames = map[string]bool{"Expr": true, "Stmt": true, "Decl": true, "Spec": true, "Node": true}

// sty renders a child type as Coq `sty`; ok=false if it is not a node type
func sty(t string, structs map[string]*Struct) (string, bool) {
	t = strings.TrimPrefix(t, "ast.")
	if ifaceNames[t] {
		return "(TIface " + q(t) + ")", true
	}
	if strings.HasPrefix(t, "*") {
		n := strings.TrimPrefix(strings.TrimPrefix(t, "*"), "ast.")
		if s, ok := structs[n]; ok && s.IsNode {
			return "(TPtr " + q(n) + ")", true
		}
	}
	if t == "Ast" {
		return "TAst", true
	}
	return "", false
}

func classify(structName, fname, ftype, comment string, structs map[string]*Struct) string {
	switch ftype {
	case "token.Pos":
		if optPosRe.MatchString(comment) {
			return "KOptPos"
		}
		return "KPos"
	case "token.Token", "string", "bool", "ChanDir":
		return "KAtom"
	case "*CommentGroup", "[]*CommentGroup":
		return "KComment"
	case "*Object", "*Scope", "map[string]*Object":
		return "KIgnored"
	}
	if fname == "Unresolved" {
		return "KIgnored"
	}
	if s, ok := sty(ftype, structs); ok {
		return "(KChild " + s + ")"
	}
	if strings.HasPrefix(ftype, "[]") {
		if s, ok := sty(ftype[2:], structs); ok {
			return "(KList " + s + ")"
		}
	}
	return "(KOpaque " + q(ftype) + ")"
}

func parseGoAst(path string) ([]*Struct, map[string]*Struct) {
	f, err := parser.ParseFile(fset, path, nil, parser.ParseComments)
	if err != nil {
		die("%v", err)
	}
	structs := map[string]*Struct{}
	var order []*Struct
	type rawField struct{ name, typ, comment string }
	raw := map[string][]rawField{}
	for _, d := range f.Decls {
		switch d := d.(type) {
		case *ast.GenDecl:
			for _, sp := range d.Specs {
				ts, ok := sp.(*ast.TypeSpec)
				if !ok {
					continue
				}
				st, ok := ts.Type.(*ast.StructType)
				if !ok {
					continue
				}
				s := &Struct{Name: ts.Name.Name}
				structs[s.Name] = s
				order = append(order, s)
				for _, fl := range st.Fields.List {
					c := ""
					if fl.Comment != nil {
						c = fl.Comment.Text()
					}
					if fl.Doc != nil {
						c += " " + fl.Doc.Text()
					}
					for _, n := range fl.Names {
						raw[s.Name] = append(raw[s.Name], rawField{n.Name, src(fl.Type), c})
					}
					if len(fl.Names) == 0 {
						raw[s.Name] = append(raw[s.Name], rawField{"?embedded", src(fl.Type), c})
					}
				}
			}
		case *ast.FuncDecl:
			if d.Recv == nil || len(d.Recv.List) != 1 {
				continue
			}
			star, ok := d.Recv.List[0].Type.(*ast.StarExpr)
			if !ok {
				continue
			}
			id, ok := star.X.(*ast.Ident)
			if !ok {
				continue
			}
			s := structs[id.Name]
			if s == nil {
				continue
			}
			switch d.Name.Name {
			case "Pos":
				s.IsNode = true
			case "exprNode":
				s.Ifaces = append(s.Ifaces, "Expr")
			case "stmtNode":
				s.Ifaces = append(s.Ifaces, "Stmt")
			case "declNode":
				s.Ifaces = append(s.Ifaces, "Decl")
			case "specNode":
				s.Ifaces = append(s.Ifaces, "Spec")
			}
		}
	}
	for _, s := range order {
		if s.IsNode {
			s.Ifaces = append(s.Ifaces, "Node")
		}
	}
	for _, s := range order {
		for _, rf := range raw[s.Name] {
			s.Fields = append(s.Fields, Field{rf.name, rf.typ, classify(s.Name, rf.name, rf.typ, rf.comment, structs)})
		}
	}
	return order, structs
}

// ---------------------------------------------------------------- ast2 sources

type Row struct {
	Wrapper  string `json:"wrapper"`
	Struct   string `json:"struct"`
	XType    string `json:"xtype"`
	HasNode  bool   `json:"has_node"`
	HasSlice bool   `json:"has_slice"`
	New      string `json:"new"`   // Coq term: newr
	Shape    string `json:"shape"` // Coq term: shape
	Op       string `json:"op"`    // Coq term: opr
	Src      map[string]string
}

type methods map[string]*ast.FuncDecl // method name -> decl

// isXX reports whether e is the expression x.X (receiver named recv)
func isXX(e ast.Expr, recv string) bool {
	se, ok := e.(*ast.SelectorExpr)
	if !ok || se.Sel.Name != "X" {
		return false
	}
	id, ok := se.X.(*ast.Ident)
	return ok && id.Name == recv
}

// fieldOf: x.X.F -> "F", x.X -> "X" when self is allowed
func fieldOf(e ast.Expr, recv string, selfIsSlice bool) (string, bool) {
	if selfIsSlice && isXX(e, recv) {
		return "X", true
	}
	se, ok := e.(*ast.SelectorExpr)
	if ok && isXX(se.X, recv) && !selfIsSlice {
		return se.Sel.Name, true
	}
	return "", false
}

type env struct {
	recv    string
	idx     string // name of the index parameter
	child   string // name of the child parameter (Set)
	self    bool   // wrapper's X is itself a slice
	i       int    // concrete index
	locals  map[string]string // local variable -> field name it currently holds (Get) or conv applied to child (Set)
	helpers map[string]bool   // helper functions with the canonical text
}

// ---- Get evaluation for a concrete i.  Returns a Coq getr term.
type getResult struct {
	term string
	done bool
}

func opaqueGet(n ast.Node) string { return "(GOpaque " + q(src(n)) + ")" }

func (e *env) condOnIndex(c ast.Expr) (val bool, ok bool) {
	be, isb := c.(*ast.BinaryExpr)
	if !isb || be.Op != token.EQL {
		return false, false
	}
	id, isid := be.X.(*ast.Ident)
	lit, islit := be.Y.(*ast.BasicLit)
	if !isid || !islit || id.Name != e.idx || lit.Kind != token.INT {
		return false, false
	}
	k, _ := strconv.Atoi(lit.Value)
	return k == e.i, true
}

// nilCond recognises `v != nil` where v is a field expression or a local holding a field; returns the field
func (e *env) nilCond(c ast.Expr) (string, bool) {
	be, isb := c.(*ast.BinaryExpr)
	if !isb || be.Op != token.NEQ {
		return "", false
	}
	if id, ok := be.Y.(*ast.Ident); !ok || id.Name != "nil" {
		return "", false
	}
	return e.readExpr(be.X)
}

func (e *env) readExpr(x ast.Expr) (string, bool) {
	if id, ok := x.(*ast.Ident); ok {
		f, ok := e.locals[id.Name]
		return f, ok && f != ""
	}
	return fieldOf(x, e.recv, false)
}

// getReturn: the returned expression of Get
func (e *env) getReturn(x ast.Expr, guardedField string) string {
	switch x := x.(type) {
	case *ast.Ident:
		if x.Name == "nil" {
			return "GNil"
		}
	case *ast.CallExpr:
		fn, _ := x.Fun.(*ast.Ident)
		if fn == nil {
			break
		}
		if fn.Name == "badIndex" && e.helpers["badIndex"] && e.helpers["errorf"] {
			return "GPanic"
		}
		if fn.Name == "ToAst" && len(x.Args) == 1 {
			if f, ok := e.readExpr(x.Args[0]); ok {
				return "(GRead " + q(f) + " ViaToAst)"
			}
		}
		if m := regexp.MustCompile(`^ToAst([1-4])$`).FindStringSubmatch(fn.Name); m != nil && e.helpers[fn.Name] && e.helpers["badIndex"] {
			n, _ := strconv.Atoi(m[1])
			if len(x.Args) != n+1 {
				break
			}
			if id, ok := x.Args[0].(*ast.Ident); !ok || id.Name != e.idx {
				break
			}
			if e.i < 0 || e.i >= n {
				return "GPanic"
			}
			if f, ok := e.readExpr(x.Args[1+e.i]); ok {
				return "(GRead " + q(f) + " ViaToAst)"
			}
		}
	case *ast.CompositeLit:
		// W{field}
		if id, ok := x.Type.(*ast.Ident); ok && len(x.Elts) == 1 {
			if f, ok := e.readExpr(x.Elts[0]); ok {
				if guardedField == "" || guardedField == f {
					return "(GRead " + q(f) + " (ViaWrap " + q(id.Name) + "))"
				}
			}
		}
	}
	return opaqueGet(x)
}

// evalGet executes a statement list; returns (term, returned)
func (e *env) evalGet(stmts []ast.Stmt, guarded string) (string, bool) {
	for _, st := range stmts {
		switch st := st.(type) {
		case *ast.ReturnStmt:
			if len(st.Results) != 1 {
				return opaqueGet(st), true
			}
			return e.getReturn(st.Results[0], guarded), true
		case *ast.DeclStmt:
			// var v T
			gd, ok := st.Decl.(*ast.GenDecl)
			if !ok || gd.Tok != token.VAR {
				return opaqueGet(st), true
			}
			for _, sp := range gd.Specs {
				vs := sp.(*ast.ValueSpec)
				if len(vs.Values) != 0 {
					return opaqueGet(st), true
				}
				for _, n := range vs.Names {
					e.locals[n.Name] = ""
				}
			}
		case *ast.AssignStmt:
			if len(st.Lhs) != 1 || len(st.Rhs) != 1 {
				return opaqueGet(st), true
			}
			id, ok := st.Lhs[0].(*ast.Ident)
			f, ok2 := fieldOf(st.Rhs[0], e.recv, false)
			if !ok || !ok2 {
				return opaqueGet(st), true
			}
			e.locals[id.Name] = f
		case *ast.IfStmt:
			if st.Init != nil {
				as, ok := st.Init.(*ast.AssignStmt)
				if !ok || len(as.Lhs) != 1 || len(as.Rhs) != 1 {
					return opaqueGet(st), true
				}
				id, ok := as.Lhs[0].(*ast.Ident)
				f, ok2 := fieldOf(as.Rhs[0], e.recv, false)
				if !ok || !ok2 {
					return opaqueGet(st), true
				}
				e.locals[id.Name] = f
			}
			if v, ok := e.condOnIndex(st.Cond); ok {
				var t string
				var ret bool
				if v {
					t, ret = e.evalGet(st.Body.List, guarded)
				} else if st.Else != nil {
					switch el := st.Else.(type) {
					case *ast.BlockStmt:
						t, ret = e.evalGet(el.List, guarded)
					case *ast.IfStmt:
						t, ret = e.evalGet([]ast.Stmt{el}, guarded)
					}
				}
				if ret {
					return t, true
				}
				if strings.HasPrefix(t, "?guard:") {
					rest, ret2 := e.evalGet(restAfter(stmts, st), guarded)
					if ret2 && rest == "GNil" {
						return strings.TrimPrefix(t, "?guard:"), true
					}
					return opaqueGet(st), true
				}
				continue
			}
			if f, ok := e.nilCond(st.Cond); ok && st.Else == nil {
				// if field != nil { return W{field} | ToAst(field) }  ... later: return nil
				t, ret := e.evalGet(st.Body.List, f)
				if !ret || !strings.HasPrefix(t, "(GRead "+q(f)+" ") {
					return opaqueGet(st), true
				}
				// the remaining path must return nil
				rest, ret2 := e.evalGet(restAfter(stmts, st), guarded)
				if ret2 && rest == "GNil" {
					return t, true
				}
				if !ret2 {
					// falls out of this block: the caller must find `return nil`
					return "?guard:" + t, false
				}
				return opaqueGet(st), true
			}
			return opaqueGet(st), true
		case *ast.SwitchStmt:
			if st.Init != nil {
				return opaqueGet(st), true
			}
			if id, ok := st.Tag.(*ast.Ident); !ok || id.Name != e.idx {
				return opaqueGet(st), true
			}
			var chosen, def *ast.CaseClause
			for _, c := range st.Body.List {
				cc := c.(*ast.CaseClause)
				if cc.List == nil {
					def = cc
					continue
				}
				for _, v := range cc.List {
					lit, ok := v.(*ast.BasicLit)
					if !ok || lit.Kind != token.INT {
						return opaqueGet(st), true
					}
					if k, _ := strconv.Atoi(lit.Value); k == e.i && chosen == nil {
						chosen = cc
					}
				}
			}
			if chosen == nil {
				chosen = def
			}
			if chosen != nil {
				for _, s := range chosen.Body {
					if bs, ok := s.(*ast.BranchStmt); ok && bs.Tok == token.FALLTHROUGH {
						return opaqueGet(st), true
					}
				}
				t, ret := e.evalGet(chosen.Body, guarded)
				if ret {
					return t, true
				}
				if strings.HasPrefix(t, "?guard:") {
					rest, ret2 := e.evalGet(restAfter(stmts, st), guarded)
					if ret2 && rest == "GNil" {
						return strings.TrimPrefix(t, "?guard:"), true
					}
					return opaqueGet(st), true
				}
			}
		default:
			return opaqueGet(st), true
		}
	}
	return "", false
}

func restAfter(stmts []ast.Stmt, st ast.Stmt) []ast.Stmt {
	for i, s := range stmts {
		if s == st {
			return stmts[i+1:]
		}
	}
	return nil
}

// ---- Set evaluation for a concrete i. Returns a Coq setr term.
func opaqueSet(n ast.Node) string { return "(SOpaque " + q(src(n)) + ")" }

// convOfChild: ToXxx(child) -> "ToXxx"; a local bound to such a call -> its conv; `child` itself -> "Id"
func (e *env) convOfChild(x ast.Expr) (string, bool) {
	switch x := x.(type) {
	case *ast.Ident:
		if x.Name == e.child {
			return "Id", true
		}
		c, ok := e.locals[x.Name]
		return c, ok && c != ""
	case *ast.CallExpr:
		fn, ok := x.Fun.(*ast.Ident)
		if ok && len(x.Args) == 1 && strings.HasPrefix(fn.Name, "To") {
			if id, ok := x.Args[0].(*ast.Ident); ok && id.Name == e.child {
				return fn.Name, true
			}
		}
	}
	return "", false
}

// evalSet executes statements; returns (writes, panics, opaque, terminated)
func (e *env) evalSet(stmts []ast.Stmt, writes *[]string) (string, bool) {
	for _, st := range stmts {
		switch st := st.(type) {
		case *ast.ExprStmt:
			if c, ok := st.X.(*ast.CallExpr); ok {
				if fn, ok := c.Fun.(*ast.Ident); ok && fn.Name == "badIndex" && e.helpers["badIndex"] && e.helpers["errorf"] {
					return "SPanic", true
				}
			}
			return opaqueSet(st), true
		case *ast.AssignStmt:
			if len(st.Lhs) != 1 || len(st.Rhs) != 1 {
				return opaqueSet(st), true
			}
			if id, ok := st.Lhs[0].(*ast.Ident); ok && st.Tok == token.DEFINE {
				c, ok := e.convOfChild(st.Rhs[0])
				if !ok {
					return opaqueSet(st), true
				}
				e.locals[id.Name] = c
				continue
			}
			f, ok := fieldOf(st.Lhs[0], e.recv, false)
			if !ok || st.Tok != token.ASSIGN {
				return opaqueSet(st), true
			}
			if c, ok := e.convOfChild(st.Rhs[0]); ok {
				*writes = append(*writes, "("+q(f)+", WConv "+q(c)+")")
				continue
			}
			// derived: field = <conv of child> != nil
			if be, ok := st.Rhs[0].(*ast.BinaryExpr); ok && be.Op == token.NEQ {
				if id, ok := be.Y.(*ast.Ident); ok && id.Name == "nil" {
					if c, ok := e.convOfChild(be.X); ok {
						*writes = append(*writes, "("+q(f)+", WNonNil "+q(c)+")")
						continue
					}
				}
			}
			return opaqueSet(st), true
		case *ast.IfStmt:
			if st.Init != nil {
				return opaqueSet(st), true
			}
			v, ok := e.condOnIndex(st.Cond)
			if !ok {
				return opaqueSet(st), true
			}
			if v {
				if t, ret := e.evalSet(st.Body.List, writes); ret {
					return t, true
				}
			} else if st.Else != nil {
				var t string
				var ret bool
				switch el := st.Else.(type) {
				case *ast.BlockStmt:
					t, ret = e.evalSet(el.List, writes)
				case *ast.IfStmt:
					t, ret = e.evalSet([]ast.Stmt{el}, writes)
				}
				if ret {
					return t, true
				}
			}
		case *ast.SwitchStmt:
			if st.Init != nil {
				return opaqueSet(st), true
			}
			if id, ok := st.Tag.(*ast.Ident); !ok || id.Name != e.idx {
				return opaqueSet(st), true
			}
			var chosen, def *ast.CaseClause
			for _, c := range st.Body.List {
				cc := c.(*ast.CaseClause)
				if cc.List == nil {
					def = cc
					continue
				}
				for _, v := range cc.List {
					lit, ok := v.(*ast.BasicLit)
					if !ok || lit.Kind != token.INT {
						return opaqueSet(st), true
					}
					if k, _ := strconv.Atoi(lit.Value); k == e.i && chosen == nil {
						chosen = cc
					}
				}
			}
			if chosen == nil {
				chosen = def
			}
			if chosen != nil {
				for _, s := range chosen.Body {
					if bs, ok := s.(*ast.BranchStmt); ok && bs.Tok == token.FALLTHROUGH {
						return opaqueSet(st), true
					}
				}
				if t, ret := e.evalSet(chosen.Body, writes); ret {
					return t, true
				}
			}
		default:
			return opaqueSet(st), true
		}
	}
	return "", false
}

// maxIndexLiteral: the largest integer literal compared with the index in the body (-1 if none), including the
// arity of a ToAstN helper call
func maxIndexLiteral(body *ast.BlockStmt, idx string) int {
	m := -1
	ast.Inspect(body, func(n ast.Node) bool {
		switch n := n.(type) {
		case *ast.BinaryExpr:
			if id, ok := n.X.(*ast.Ident); ok && id.Name == idx {
				if lit, ok := n.Y.(*ast.BasicLit); ok && lit.Kind == token.INT {
					if k, _ := strconv.Atoi(lit.Value); k > m {
						m = k
					}
				}
			}
		case *ast.CaseClause:
			for _, v := range n.List {
				if lit, ok := v.(*ast.BasicLit); ok && lit.Kind == token.INT {
					if k, _ := strconv.Atoi(lit.Value); k > m {
						m = k
					}
				}
			}
		case *ast.CallExpr:
			if fn, ok := n.Fun.(*ast.Ident); ok {
				if mm := regexp.MustCompile(`^ToAst([1-4])$`).FindStringSubmatch(fn.Name); mm != nil {
					if k, _ := strconv.Atoi(mm[1]); k-1 > m {
						m = k - 1
					}
				}
			}
		}
		return true
	})
	return m
}

// indexUsesOK: the index variable occurs only as `idx == literal`, as a switch tag, or as first argument of
// badIndex / ToAstN; anything else (arithmetic, slicing, passing it on) is outside the fragment
func indexUsesOK(body *ast.BlockStmt, idx string) bool {
	total, allowed := 0, 0
	ast.Inspect(body, func(n ast.Node) bool {
		switch n := n.(type) {
		case *ast.Ident:
			if n.Name == idx {
				total++
			}
		case *ast.BinaryExpr:
			if id, isid := n.X.(*ast.Ident); isid && id.Name == idx && n.Op == token.EQL {
				if lit, islit := n.Y.(*ast.BasicLit); islit && lit.Kind == token.INT {
					allowed++
				}
			}
		case *ast.SwitchStmt:
			if id, isid := n.Tag.(*ast.Ident); isid && id.Name == idx {
				allowed++
			}
		case *ast.CallExpr:
			if fn, isid := n.Fun.(*ast.Ident); isid && len(n.Args) > 0 && (fn.Name == "badIndex" || regexp.MustCompile(`^ToAst[1-4]$`).MatchString(fn.Name)) {
				if id, isid := n.Args[0].(*ast.Ident); isid && id.Name == idx {
					allowed++
				}
			}
		case *ast.AssignStmt:
			for _, l := range n.Lhs {
				if id, isid := l.(*ast.Ident); isid && id.Name == idx {
					total += 100 // the index is reassigned
				}
			}
		}
		return true
	})
	return total == allowed
}

func paramNames(fd *ast.FuncDecl) []string {
	var out []string
	for _, f := range fd.Type.Params.List {
		for _, n := range f.Names {
			out = append(out, n.Name)
		}
	}
	return out
}

func recvName(fd *ast.FuncDecl) string {
	if len(fd.Recv.List[0].Names) == 1 {
		return fd.Recv.List[0].Names[0].Name
	}
	return "_"
}

// ---- New
func trNew(fd *ast.FuncDecl, wrapper, structName string, isSliceWrapper bool) string {
	recv := recvName(fd)
	if len(fd.Body.List) != 1 {
		return "(NewOpaque " + q(src(fd.Body)) + ")"
	}
	ret, ok := fd.Body.List[0].(*ast.ReturnStmt)
	if !ok || len(ret.Results) != 1 {
		return "(NewOpaque " + q(src(fd.Body)) + ")"
	}
	cl, ok := ret.Results[0].(*ast.CompositeLit)
	if !ok {
		return "(NewOpaque " + q(src(fd.Body)) + ")"
	}
	if id, ok := cl.Type.(*ast.Ident); !ok || id.Name != wrapper {
		return "(NewOpaque " + q(src(fd.Body)) + ")"
	}
	if isSliceWrapper {
		if len(cl.Elts) == 0 {
			return "(NewCopies [])"
		}
		return "(NewOpaque " + q(src(fd.Body)) + ")"
	}
	if len(cl.Elts) != 1 {
		return "(NewOpaque " + q(src(fd.Body)) + ")"
	}
	un, ok := cl.Elts[0].(*ast.UnaryExpr)
	if !ok || un.Op != token.AND {
		return "(NewOpaque " + q(src(fd.Body)) + ")"
	}
	inner, ok := un.X.(*ast.CompositeLit)
	if !ok || src(inner.Type) != "ast."+structName {
		return "(NewOpaque " + q(src(fd.Body)) + ")"
	}
	var copied []string
	for _, el := range inner.Elts {
		kv, ok := el.(*ast.KeyValueExpr)
		if !ok {
			return "(NewOpaque " + q(src(fd.Body)) + ")"
		}
		k, ok := kv.Key.(*ast.Ident)
		f, ok2 := fieldOf(kv.Value, recv, false)
		if !ok || !ok2 || f != k.Name {
			return "(NewOpaque " + q(src(fd.Body)) + ")"
		}
		copied = append(copied, q(k.Name))
	}
	return "(NewCopies [" + strings.Join(copied, "; ") + "])"
}

// ---- Size: returns (kind, n, listfield)
func trSize(fd *ast.FuncDecl, self bool) (string, int, string) {
	recv := recvName(fd)
	stmts := fd.Body.List
	// optional leading: if x.X == nil { return 0 }
	if len(stmts) == 2 {
		if is, ok := stmts[0].(*ast.IfStmt); ok && is.Else == nil && is.Init == nil && src(is.Cond) == recv+".X == nil" && src(is.Body) == "{ return 0 }" {
			stmts = stmts[1:]
		}
	}
	if len(stmts) != 1 {
		return "opaque", 0, src(fd.Body)
	}
	ret, ok := stmts[0].(*ast.ReturnStmt)
	if !ok || len(ret.Results) != 1 {
		return "opaque", 0, src(fd.Body)
	}
	switch r := ret.Results[0].(type) {
	case *ast.BasicLit:
		if r.Kind == token.INT {
			n, _ := strconv.Atoi(r.Value)
			return "fixed", n, ""
		}
	case *ast.CallExpr:
		if fn, ok := r.Fun.(*ast.Ident); ok && fn.Name == "len" && len(r.Args) == 1 {
			if f, ok := fieldOf(r.Args[0], recv, self); ok {
				return "len", 0, f
			}
		}
	}
	return "opaque", 0, src(fd.Body)
}

func trFixed(ms methods, size int, helpers map[string]bool) string {
	get, set := ms["Get"], ms["Set"]
	if get == nil || set == nil {
		return "(ShapeOpaque \"missing Get/Set\")"
	}
	gp, sp := paramNames(get), paramNames(set)
	if len(gp) != 1 || len(sp) != 2 {
		return "(ShapeOpaque \"unexpected Get/Set signature\")"
	}
	mg := maxIndexLiteral(get.Body, gp[0])
	msx := maxIndexLiteral(set.Body, sp[0])
	gok := indexUsesOK(get.Body, gp[0])
	sok := indexUsesOK(set.Body, sp[0])
	evalG := func(i int) string {
		if !gok {
			return "(GOpaque " + q(src(get.Body)) + ")"
		}
		e := &env{recv: recvName(get), idx: gp[0], i: i, locals: map[string]string{}, helpers: helpers}
		t, ret := e.evalGet(get.Body.List, "")
		if !ret {
			return "(GOpaque " + q("no return: "+src(get.Body)) + ")"
		}
		return t
	}
	evalS := func(i int) string {
		if !sok {
			return "(SOpaque " + q(src(set.Body)) + ")"
		}
		e := &env{recv: recvName(set), idx: sp[0], child: sp[1], i: i, locals: map[string]string{}, helpers: helpers}
		var ws []string
		t, ret := e.evalSet(set.Body.List, &ws)
		if ret && t != "SPanic" {
			return t
		}
		if ret {
			return "SPanic"
		}
		return "(SWrites [" + strings.Join(ws, "; ") + "])"
	}
	var gets, sets []string
	for i := 0; i <= mg; i++ {
		gets = append(gets, fmt.Sprintf("(%d, %s)", i, evalG(i)))
	}
	for i := 0; i <= msx; i++ {
		sets = append(sets, fmt.Sprintf("(%d, %s)", i, evalS(i)))
	}
	return fmt.Sprintf("(Fixed %d\n      [%s] %s\n      [%s] %s)", size,
		strings.Join(gets, "; "), evalG(mg+1), strings.Join(sets, ";\n       "), evalS(msx+1))
}

// ---- variable-length rows: Get = ToAst(x.X.F[i]) | x.X[i]; Set = x.X.F[i] = Conv(child); Append = x.X.F = append(x.X.F, Conv(child)); return x
func trVarLen(ms methods, lf string, self bool) string {
	get, set, app := ms["Get"], ms["Set"], ms["Append"]
	if get == nil || set == nil || app == nil {
		return "(ShapeOpaque \"missing Get/Set/Append\")"
	}
	recv := recvName(get)
	gi := paramNames(get)[0]
	elem := func(x ast.Expr, r, idx string) bool {
		ie, ok := x.(*ast.IndexExpr)
		if !ok {
			return false
		}
		f, ok := fieldOf(ie.X, r, self)
		id, ok2 := ie.Index.(*ast.Ident)
		return ok && ok2 && f == lf && id.Name == idx
	}
	// Get
	via := ""
	if len(get.Body.List) == 1 {
		if ret, ok := get.Body.List[0].(*ast.ReturnStmt); ok && len(ret.Results) == 1 {
			if c, ok := ret.Results[0].(*ast.CallExpr); ok && src(c.Fun) == "ToAst" && len(c.Args) == 1 && elem(c.Args[0], recv, gi) {
				via = "ViaToAst"
			} else if elem(ret.Results[0], recv, gi) {
				via = "ViaNone"
			}
		}
	}
	if via == "" {
		return "(ShapeOpaque " + q("Get: "+src(get.Body)) + ")"
	}
	// Set
	sp := paramNames(set)
	sconv := ""
	if len(set.Body.List) == 1 {
		if as, ok := set.Body.List[0].(*ast.AssignStmt); ok && as.Tok == token.ASSIGN && len(as.Lhs) == 1 && len(as.Rhs) == 1 && elem(as.Lhs[0], recvName(set), sp[0]) {
			e := &env{child: sp[1], locals: map[string]string{}}
			if c, ok := e.convOfChild(as.Rhs[0]); ok {
				sconv = c
			}
		}
	}
	if sconv == "" {
		return "(ShapeOpaque " + q("Set: "+src(set.Body)) + ")"
	}
	// Append
	ap := paramNames(app)
	aconv := ""
	if len(app.Body.List) == 2 {
		as, ok := app.Body.List[0].(*ast.AssignStmt)
		ret, ok2 := app.Body.List[1].(*ast.ReturnStmt)
		if ok && ok2 && as.Tok == token.ASSIGN && len(as.Lhs) == 1 && len(as.Rhs) == 1 && len(ret.Results) == 1 && src(ret.Results[0]) == recvName(app) {
			f, ok := fieldOf(as.Lhs[0], recvName(app), self)
			c, ok2 := as.Rhs[0].(*ast.CallExpr)
			if ok && ok2 && f == lf && src(c.Fun) == "append" && len(c.Args) == 2 && src(c.Args[0]) == src(as.Lhs[0]) {
				e := &env{child: ap[0], locals: map[string]string{}}
				if cv, ok := e.convOfChild(c.Args[1]); ok {
					aconv = cv
				}
			}
		}
	}
	if aconv == "" {
		return "(ShapeOpaque " + q("Append: "+src(app.Body)) + ")"
	}
	return fmt.Sprintf("(VarLen %s %s %s %s)", q(lf), via, q(sconv), q(aconv))
}

// ---- Op: the fields Op() depends on
func trOp(fd *ast.FuncDecl) string {
	if fd == nil {
		return "(OpOpaque \"missing\")"
	}
	recv := recvName(fd)
	deps := map[string]bool{}
	bad := false
	ast.Inspect(fd.Body, func(n ast.Node) bool {
		switch n := n.(type) {
		case *ast.SelectorExpr:
			if isXX(n.X, recv) {
				deps[n.Sel.Name] = true
				return false
			}
			if id, ok := n.X.(*ast.Ident); ok && (id.Name == "token" || id.Name == "etoken") {
				return false
			}
			if isXX(n, recv) {
				bad = true
			}
		case *ast.CallExpr:
			if id, ok := n.Fun.(*ast.Ident); !ok || id.Name != "len" {
				bad = true
			}
		}
		return true
	})
	if bad {
		return "(OpOpaque " + q(src(fd.Body)) + ")"
	}
	var ds []string
	for d := range deps {
		ds = append(ds, q(d))
	}
	sort.Strings(ds)
	return "(OpDeps [" + strings.Join(ds, "; ") + "])"
}

// ---------------------------------------------------------------- converters (unwrap.go)

func trPat(t ast.Expr) string {
	s := src(t)
	switch {
	case s == "nil":
		return "PNil"
	case s == "AstWithNode":
		return "PAstWithNode"
	case s == "AstWithSlice":
		return "PAstWithSlice"
	case strings.HasPrefix(s, "*ast."):
		return "(PPtr " + q(s[5:]) + ")"
	case strings.HasPrefix(s, "ast."):
		return "(PIface " + q(s[4:]) + ")"
	case !strings.ContainsAny(s, ".*[ "):
		return "(PWrap " + q(s) + ")"
	}
	return "(POther " + q(s) + ")"
}

// trConv: func ToXxx(x Ast) T { switch node := ToNode(x).(type) {...}; return nil }   (OnNode)
//     or: func ToXxx(x Ast) T { switch x := x.(type) {...}; return nil }              (OnWrapper)
func trConv(fd *ast.FuncDecl, helpers map[string]bool) (string, bool) {
	if fd.Recv != nil || len(paramNames(fd)) != 1 || len(fd.Body.List) == 0 {
		return "", false
	}
	ts, ok := fd.Body.List[0].(*ast.TypeSwitchStmt)
	if !ok || ts.Init != nil {
		return "", false
	}
	as, ok := ts.Assign.(*ast.AssignStmt)
	if !ok || len(as.Lhs) != 1 || len(as.Rhs) != 1 {
		return "", false
	}
	bound := as.Lhs[0].(*ast.Ident).Name
	ta, ok := as.Rhs[0].(*ast.TypeAssertExpr)
	if !ok || ta.Type != nil {
		return "", false
	}
	param := paramNames(fd)[0]
	shape := ""
	switch s := src(ta.X); {
	case s == param:
		shape = "OnWrapper"
	case s == "ToNode("+param+")" && helpers["ToNode"] && helpers["asNode"]:
		shape = "OnNode"
	default:
		return "", false
	}
	// tail: nothing (switch returns in every arm) or `return nil`
	tailNil := false
	rest := fd.Body.List[1:]
	if len(rest) == 1 && src(rest[0]) == "return nil" {
		tailNil = true
	} else if len(rest) != 0 {
		return fmt.Sprintf("(mkConv %s %s [([PDefault], AOther)])", q(fd.Name.Name), shape), true
	}
	var arms []string
	for _, c := range ts.Body.List {
		cc := c.(*ast.CaseClause)
		var pats []string
		if cc.List == nil {
			pats = []string{"PDefault"}
		}
		for _, t := range cc.List {
			pats = append(pats, trPat(t))
		}
		act := "AOther"
		switch {
		case len(cc.Body) == 0 && tailNil:
			act = "ARetNil"
		case len(cc.Body) == 1:
			switch s := src(cc.Body[0]); {
			case s == "break" && tailNil:
				act = "ARetNil"
			case s == "return nil":
				act = "ARetNil"
			case s == "return "+bound && shape == "OnNode" && len(cc.List) == 1:
				act = "ARetSame"
			case s == "return "+bound+".X" && shape == "OnWrapper" && len(cc.List) == 1:
				act = "ARetSame"
			case s == "return "+bound+".Node()" && shape == "OnWrapper" && len(cc.List) == 1 && fd.Name.Name == "ToNode":
				act = "ARetSame"
			}
		}
		arms = append(arms, "(["+strings.Join(pats, "; ")+"], "+act+")")
	}
	return fmt.Sprintf("(mkConv %s %s [%s])", q(fd.Name.Name), shape, strings.Join(arms, "; ")), true
}

// canonical texts of the helpers the model relies on
var canon = map[string]string{
	"asNode":   "func asNode(x ast.Node, isnil bool) ast.Node { if isnil { return nil } return x }",
	"badIndex": "func badIndex(index int, size int) AstWithNode { if size > 0 { errorf(\"index out of range: %d not in 0...%d\", index, size-1) } else { errorf(\"index out of range: %d, slice is empty\", index) } return nil }",
	"errorf":   "func errorf(format string, args ...interface{}) { panic(fmt.Errorf(format, args...)) }",
	"ToAst1":   "func ToAst1(i int, node ast.Node) AstWithNode { if i == 0 { return ToAst(node) } else { return badIndex(i, 1) } }",
	"ToAst2":   "func ToAst2(i int, n0 ast.Node, n1 ast.Node) AstWithNode { var n ast.Node switch i { case 0: n = n0 case 1: n = n1 default: return badIndex(i, 2) } return ToAst(n) }",
	"ToAst3":   "func ToAst3(i int, n0 ast.Node, n1 ast.Node, n2 *ast.BlockStmt) AstWithNode { var n ast.Node switch i { case 0: n = n0 case 1: n = n1 case 2: if n2 == nil { return nil } return BlockStmt{n2} default: return badIndex(i, 3) } return ToAst(n) }",
	"ToAst4":   "func ToAst4(i int, n0 ast.Node, n1 ast.Node, n2 ast.Node, n3 ast.Node) AstWithNode { var n ast.Node switch i { case 0: n = n0 case 1: n = n1 case 2: n = n2 case 3: n = n3 default: return badIndex(i, 4) } return ToAst(n) }",
	"ToNode":   "func ToNode(x Ast) ast.Node { switch x := x.(type) { case nil: return nil case AstWithNode: return x.Node() default: y := x.Interface() errorf(\"cannot convert to ast.Node: %v // %T\", y, y) return nil } }",
}

func funcText(fd *ast.FuncDecl) string {
	c := *fd
	c.Doc = nil
	return src(&c)
}

// ---------------------------------------------------------------- main

func main() {
	repo := flag.String("repo", os.Getenv("VERIF_REPO"), "gomacro tree")
	out := flag.String("out", ".", "output directory")
	verif := flag.String("verif", "/verif", "verification tree")
	flag.Parse()
	if *repo == "" {
		*repo = "/repo"
	}
	gr, err := exec.Command("go", "env", "GOROOT").Output()
	if err != nil {
		die("go env GOROOT: %v", err)
	}
	goroot, err := filepath.EvalSymlinks(filepath.Join(strings.TrimSpace(string(gr)), "src"))
	if err != nil {
		die("%v", err)
	}
	order, structs := parseGoAst(filepath.Join(goroot, "go", "ast", "ast.go"))

	// ---- ast2 sources
	dir := filepath.Join(*repo, "ast2")
	files := map[string]*ast.File{}
	for _, n := range []string{"ast.go", "ast_node.go", "ast_slice.go", "wrap.go", "unwrap.go", "error.go"} {
		f, err := parser.ParseFile(fset, filepath.Join(dir, n), nil, 0)
		if err != nil {
			die("%v", err)
		}
		files[n] = f
	}
	// wrapper struct types
	type wrapperT struct {
		name, xtype string
	}
	var wrappers []wrapperT
	for _, d := range files["ast.go"].Decls {
		gd, ok := d.(*ast.GenDecl)
		if !ok {
			continue
		}
		for _, sp := range gd.Specs {
			ts, ok := sp.(*ast.TypeSpec)
			if !ok {
				continue
			}
			st, ok := ts.Type.(*ast.StructType)
			if !ok {
				continue
			}
			xt := "?"
			if len(st.Fields.List) == 1 && len(st.Fields.List[0].Names) == 1 && st.Fields.List[0].Names[0].Name == "X" {
				xt = src(st.Fields.List[0].Type)
			}
			wrappers = append(wrappers, wrapperT{ts.Name.Name, xt})
		}
	}
	// methods and functions
	meths := map[string]methods{}
	funcs := map[string]*ast.FuncDecl{}
	dupMethod := map[string]bool{}
	for _, n := range []string{"ast_node.go", "ast_slice.go", "wrap.go", "unwrap.go", "error.go"} {
		for _, d := range files[n].Decls {
			fd, ok := d.(*ast.FuncDecl)
			if !ok {
				continue
			}
			if fd.Recv == nil {
				funcs[fd.Name.Name] = fd
				continue
			}
			rt := src(fd.Recv.List[0].Type)
			if meths[rt] == nil {
				meths[rt] = methods{}
			}
			if meths[rt][fd.Name.Name] != nil {
				dupMethod[rt] = true
			}
			meths[rt][fd.Name.Name] = fd
		}
	}
	helpers := map[string]bool{}
	for name, text := range canon {
		if fd := funcs[name]; fd != nil && funcText(fd) == text {
			helpers[name] = true
		} else {
			fmt.Fprintf(os.Stderr, "tr_ast2: helper %s differs from the canonical text the model assumes\n", name)
			if fd != nil {
				fmt.Fprintf(os.Stderr, "  got:  %s\n  want: %s\n", funcText(fd), text)
			}
		}
	}

	// ---- rows
	var rows []Row
	var pseudo []*Struct
	for _, w := range wrappers {
		ms := meths[w.name]
		r := Row{Wrapper: w.name, XType: w.xtype}
		self := strings.HasPrefix(w.xtype, "[]")
		if self {
			// slice wrapper: pseudo struct with the single list field X
			r.Struct = w.name
			ps := &Struct{Name: w.name, Fields: []Field{{"X", w.xtype, classify(w.name, "X", w.xtype, "", structs)}}}
			pseudo = append(pseudo, ps)
		} else {
			r.Struct = strings.TrimPrefix(w.xtype, "*ast.")
			if _, ok := structs[r.Struct]; !ok || !strings.HasPrefix(w.xtype, "*ast.") {
				r.Struct = "?" + w.xtype
			}
		}
		if ms == nil || dupMethod[w.name] {
			r.New, r.Shape, r.Op = "(NewOpaque \"no methods / duplicate methods\")", "(ShapeOpaque \"no methods / duplicate methods\")", "(OpOpaque \"\")"
			rows = append(rows, r)
			continue
		}
		if nd := ms["Node"]; nd != nil && helpers["asNode"] {
			rv := recvName(nd)
			r.HasNode = src(nd.Body) == "{ return asNode("+rv+".X, "+rv+".X == nil) }"
		}
		if sl := ms["Slice"]; sl != nil && ms["Append"] != nil {
			r.HasSlice = true
		}
		if ms["New"] != nil {
			r.New = trNew(ms["New"], w.name, r.Struct, self)
		} else {
			r.New = "(NewOpaque \"missing\")"
		}
		if ms["Size"] == nil {
			r.Shape = "(ShapeOpaque \"missing Size\")"
		} else {
			kind, n, lf := trSize(ms["Size"], self)
			switch kind {
			case "fixed":
				r.Shape = trFixed(ms, n, helpers)
			case "len":
				r.Shape = trVarLen(ms, lf, self)
			default:
				r.Shape = "(ShapeOpaque " + q("Size: "+lf) + ")"
			}
		}
		r.Op = trOp(ms["Op"])
		rows = append(rows, r)
	}

	// ---- ToAst arms
	var arms []string
	armsJSON := [][]string{}
	if fd := funcs["ToAst"]; fd != nil {
		ok := len(fd.Body.List) == 3
		var ts *ast.TypeSwitchStmt
		if ok {
			ts, ok = fd.Body.List[1].(*ast.TypeSwitchStmt)
		}
		if ok {
			ok = src(fd.Body.List[0]) == "var x AstWithNode" && src(fd.Body.List[2]) == "return x" && src(ts.Assign) == "node := node.(type)"
		}
		if !ok {
			arms = append(arms, "("+q("?")+", "+q("?shape of ToAst not recognised")+")")
		} else {
			for _, c := range ts.Body.List {
				cc := c.(*ast.CaseClause)
				if cc.List == nil {
					// default: must be errorf(...)
					if len(cc.Body) != 1 || !strings.HasPrefix(src(cc.Body[0]), "errorf(") {
						arms = append(arms, "("+q("?default")+", "+q("?"+src(cc))+")")
					}
					continue
				}
				if len(cc.List) != 1 {
					arms = append(arms, "("+q("?")+", "+q("?"+src(cc))+")")
					continue
				}
				t := src(cc.List[0])
				if t == "nil" {
					if len(cc.Body) != 1 || src(cc.Body[0]) != "return nil" {
						arms = append(arms, "("+q("?nil")+", "+q("?"+src(cc))+")")
					}
					continue
				}
				tn := strings.TrimPrefix(t, "*ast.")
				w := "?" + src(cc)
				if len(cc.Body) == 1 {
					st := cc.Body[0]
					// optional guard: if node != nil { x = W{node} }
					if is, ok := st.(*ast.IfStmt); ok && is.Init == nil && is.Else == nil && src(is.Cond) == "node != nil" && len(is.Body.List) == 1 {
						st = is.Body.List[0]
					}
					if as, ok := st.(*ast.AssignStmt); ok && as.Tok == token.ASSIGN && len(as.Lhs) == 1 && src(as.Lhs[0]) == "x" {
						if cl, ok := as.Rhs[0].(*ast.CompositeLit); ok && len(cl.Elts) == 1 && src(cl.Elts[0]) == "node" {
							w = src(cl.Type)
						}
					}
				}
				arms = append(arms, "("+q(tn)+", "+q(w)+")")
				armsJSON = append(armsJSON, []string{tn, w})
			}
		}
	} else {
		arms = append(arms, "("+q("?")+", "+q("?ToAst missing")+")")
	}

	// ---- converters
	var convs []string
	var cnames []string
	for n := range funcs {
		cnames = append(cnames, n)
	}
	sort.Strings(cnames)
	for _, n := range cnames {
		if !strings.HasPrefix(n, "To") || n == "ToAst" || regexp.MustCompile(`^ToAst[1-4]$`).MatchString(n) || n == "ToAstWithSlice" {
			continue
		}
		if c, ok := trConv(funcs[n], helpers); ok {
			convs = append(convs, c)
		}
	}

	// ---- emit Coq
	var b strings.Builder
	b.WriteString("(* GENERATED by translators/tr_ast2 from " + filepath.Join(goroot, "go/ast/ast.go") + " and " + dir + " -- do not edit *)\n")
	b.WriteString("From Coq Require Import List String.\nFrom Verif Require Import C22.Model.\nImport ListNotations.\nOpen Scope string_scope.\n\n")
	b.WriteString("Definition gen_structs : list gstruct := [\n")
	all := append(append([]*Struct{}, order...), pseudo...)
	for i, s := range all {
		var fs []string
		for _, f := range s.Fields {
			fs = append(fs, "mkF "+q(f.Name)+" "+f.Kind)
		}
		var ifs []string
		for _, x := range s.Ifaces {
			ifs = append(ifs, q(x))
		}
		sep := ";"
		if i == len(all)-1 {
			sep = ""
		}
		fmt.Fprintf(&b, "  mkS %s %v [%s]\n    [%s]%s\n", q(s.Name), s.IsNode, strings.Join(ifs, "; "), strings.Join(fs, "; "), sep)
	}
	b.WriteString("].\n\nDefinition gen_rows : list row := [\n")
	for i, r := range rows {
		sep := ";"
		if i == len(rows)-1 {
			sep = ""
		}
		fmt.Fprintf(&b, "  (* %s *)\n  mkRow %s %s %s %v %v\n    %s\n    %s\n    %s%s\n", r.Wrapper, q(r.Wrapper), q(r.Struct), q(r.XType), r.HasNode, r.HasSlice, r.New, r.Shape, r.Op, sep)
	}
	b.WriteString("].\n\nDefinition gen_wrap : list (ident * ident) := [\n  " + strings.Join(arms, ";\n  ") + "\n].\n\n")
	b.WriteString("Definition gen_convs : list conv := [\n  " + strings.Join(convs, ";\n  ") + "\n].\n\n")
	b.WriteString("Definition gen_table : table := mkTable gen_structs gen_rows gen_wrap gen_convs.\n")
	if err := os.MkdirAll(*out, 0o755); err != nil {
		die("%v", err)
	}
	// intern the string literals: every distinct literal becomes one named constant (coqc parses string literals slowly)
	text := b.String()
	hdrEnd := strings.Index(text, "Definition gen_structs")
	body := text[hdrEnd:]
	litRe := regexp.MustCompile(`"[^"]*"`)
	identRe := regexp.MustCompile(`^[A-Za-z][A-Za-z0-9_]*$`)
	names := map[string]string{}
	var defs []string
	body = litRe.ReplaceAllStringFunc(body, func(l string) string {
		if n, ok := names[l]; ok {
			return n
		}
		inner := l[1 : len(l)-1]
		n := fmt.Sprintf("str_%d", len(names))
		if identRe.MatchString(inner) {
			n = "s_" + inner
		}
		names[l] = n
		defs = append(defs, "Definition "+n+" : string := "+l+".")
		return n
	})
	text = text[:hdrEnd] + strings.Join(defs, "\n") + "\n\n" + body
	if err := os.WriteFile(filepath.Join(*out, "GenC22a_Table.v"), []byte(text), 0o644); err != nil {
		die("%v", err)
	}
	// ---- theorems over the table: static template
	tmpl, err := os.ReadFile(filepath.Join(*verif, "translators", "tr_ast2", "TableProps.v.tmpl"))
	if err != nil {
		die("%v", err)
	}
	if err := os.WriteFile(filepath.Join(*out, "GenC22b_Props.v"), tmpl, 0o644); err != nil {
		die("%v", err)
	}
	js, _ := json.MarshalIndent(map[string]interface{}{"structs": all, "rows": rows, "wrap": armsJSON, "helpers_canonical": helpers}, "", " ")
	os.WriteFile(filepath.Join(*out, "table.json"), js, 0o644)
	fmt.Printf("tr_ast2: %d go/ast structs, %d wrapper rows, %d ToAst arms, %d converters\n", len(order), len(rows), len(armsJSON), len(convs))
}

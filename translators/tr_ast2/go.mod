module tr_ast2

go 1.18

module tr_c24tokens

go 1.18

// tr_c24tokens: regenerates, from the SOURCE of gomacro's go/etoken + go/parser and of $GOROOT/src/go/token + go/parser,
// the tables the C24 (and C23) models rest on, as Coq definitions in <out>/GenC24a_Tokens.v (and copies PropsGen.v.tmpl to <out>/GenC24b_Props.v):
//
//	std_<NAME> : N                     numeric value of every go/token constant (iota counted in the const block)
//	std_prec_table : list (N * Z)      token.Token.Precedence(): one row per token, from the switch in token.go
//	std_LowestPrec/UnaryPrec/HighestPrec
//	std_keywords : list (string * N)   the keyword table (tokens between keyword_beg and keyword_end)
//	fork_ext_tokens : list (string*N)  etoken.QUOTE ... (value of the const expression evaluated with go/constant rules)
//	fork_token_is_alias : bool         `type Token = token.Token` in etoken/token.go (so tok.Precedence() IS go/token's)
//	fork_tokPrec : (N -> Z) -> bool -> N -> N * Z     statement-by-statement translation of parser.tokPrec
//	fork_lookup_special : list (string * N)           the identifiers etoken.Lookup maps before delegating to token.Lookup
//	fork_lookup_delegates : bool                      its last statement is `return token.Lookup(lit)`
//	fork_unary_cases / std_unary_cases : list (list N)   case lists of parseUnaryExpr's switch
//	fork_parseAny_cases : list (list N * N)           case lists of parseAny's switch with the branch taken (0 package,
//	                                                  1 import, 2 parseDecl, 3 default: parseStmt)
//	std_parseDecl_cases : list N                      tokens parseDecl accepts
//	src_* : bool                       the functions the hand-written model was written from (parseBinaryExpr, the operator
//	                                   arms of parseUnaryExpr, the '(' arm of parseOperand, parseExpr, Parser.Parse's loop)
//	                                   still have the recorded canonical text
//
// The mapping is syntactic; anything outside the recognised fragment is emitted as the Coq term `opaque_<n>`, which is
// not defined, so the generated file does not compile and the obligation fails.
package main

import (
	"bytes"
	"flag"
	"fmt"
	"go/ast"
	"go/constant"
	"go/parser"
	"go/printer"
	"go/token"
	"os"
	"os/exec"
	"path/filepath"
	"sort"
	"strconv"
	"strings"
)

var fset = token.NewFileSet()
var nOpaque int

func opaque(what string) string {
	nOpaque++
	return fmt.Sprintf("opaque_%d (* %s *)", nOpaque, strings.ReplaceAll(what, "*)", "* )"))
}

func src(n ast.Node) string {
	var b bytes.Buffer
	printer.Fprint(&b, fset, n)
	return strings.Join(strings.Fields(b.String()), " ")
}

func parseFile(path string) *ast.File {
	f, err := parser.ParseFile(fset, path, nil, 0)
	if err != nil {
		fmt.Fprintln(os.Stderr, "tr_c24tokens:", err)
		os.Exit(2)
	}
	return f
}

func funcDecl(f *ast.File, recv, name string) *ast.FuncDecl {
	for _, d := range f.Decls {
		fd, ok := d.(*ast.FuncDecl)
		if !ok || fd.Name.Name != name {
			continue
		}
		r := ""
		if fd.Recv != nil && len(fd.Recv.List) == 1 {
			r = src(fd.Recv.List[0].Type)
		}
		if r == recv {
			return fd
		}
	}
	return nil
}

// ---------------------------------------------------------------- go/token constants

type tokTable struct {
	val   map[string]int64 // constant name -> value
	names []string         // in declaration order
	str   map[string]string
}

// stdTokens evaluates the iota const block of go/token/token.go
func stdTokens(f *ast.File) *tokTable {
	t := &tokTable{val: map[string]int64{}, str: map[string]string{}}
	for _, d := range f.Decls {
		gd, ok := d.(*ast.GenDecl)
		if !ok || gd.Tok != token.CONST {
			continue
		}
		isTok := false
		for i, sp := range gd.Specs {
			vs := sp.(*ast.ValueSpec)
			if i == 0 {
				if id, ok := vs.Type.(*ast.Ident); ok && id.Name == "Token" && len(vs.Values) == 1 && src(vs.Values[0]) == "iota" {
					isTok = true
				}
			}
			if !isTok {
				break
			}
			if i > 0 && (vs.Type != nil || len(vs.Values) != 0) {
				fmt.Fprintln(os.Stderr, "tr_c24tokens: unexpected token const spec", src(vs))
				os.Exit(2)
			}
			for _, n := range vs.Names {
				t.val[n.Name] = int64(i)
				t.names = append(t.names, n.Name)
			}
		}
		if isTok {
			break
		}
	}
	// other int constants (LowestPrec ...)
	for _, d := range f.Decls {
		gd, ok := d.(*ast.GenDecl)
		if !ok || gd.Tok != token.CONST {
			continue
		}
		for _, sp := range gd.Specs {
			vs := sp.(*ast.ValueSpec)
			for i, n := range vs.Names {
				if i < len(vs.Values) {
					if bl, ok := vs.Values[i].(*ast.BasicLit); ok && bl.Kind == token.INT {
						v, _ := strconv.ParseInt(bl.Value, 0, 64)
						if _, dup := t.val[n.Name]; !dup {
							t.val[n.Name] = v
						}
					}
				}
			}
		}
	}
	// tokens = [...]string{ NAME: "text", ... }
	for _, d := range f.Decls {
		gd, ok := d.(*ast.GenDecl)
		if !ok || gd.Tok != token.VAR {
			continue
		}
		for _, sp := range gd.Specs {
			vs := sp.(*ast.ValueSpec)
			if len(vs.Names) == 1 && vs.Names[0].Name == "tokens" && len(vs.Values) == 1 {
				if cl, ok := vs.Values[0].(*ast.CompositeLit); ok {
					for _, e := range cl.Elts {
						kv := e.(*ast.KeyValueExpr)
						s, _ := strconv.Unquote(kv.Value.(*ast.BasicLit).Value)
						t.str[src(kv.Key)] = s
					}
				}
			}
		}
	}
	return t
}

// precedence table: parse `switch op { case A, B: return n ... } return LowestPrec`
func stdPrec(f *ast.File, t *tokTable) (map[string]int64, int64) {
	fd := funcDecl(f, "Token", "Precedence")
	out := map[string]int64{}
	if fd == nil || len(fd.Body.List) != 2 {
		fmt.Fprintln(os.Stderr, "tr_c24tokens: Precedence has an unexpected shape")
		os.Exit(2)
	}
	sw, ok := fd.Body.List[0].(*ast.SwitchStmt)
	if !ok || src(sw.Tag) != fd.Recv.List[0].Names[0].Name {
		fmt.Fprintln(os.Stderr, "tr_c24tokens: Precedence: expected switch on the receiver")
		os.Exit(2)
	}
	for _, c := range sw.Body.List {
		cc := c.(*ast.CaseClause)
		if len(cc.Body) != 1 {
			fmt.Fprintln(os.Stderr, "tr_c24tokens: Precedence: case body")
			os.Exit(2)
		}
		ret, ok := cc.Body[0].(*ast.ReturnStmt)
		if !ok || len(ret.Results) != 1 {
			fmt.Fprintln(os.Stderr, "tr_c24tokens: Precedence: case body is not a return")
			os.Exit(2)
		}
		v := intValue(ret.Results[0], t)
		for _, e := range cc.List {
			out[src(e)] = v
		}
	}
	ret, ok := fd.Body.List[1].(*ast.ReturnStmt)
	if !ok || len(ret.Results) != 1 {
		fmt.Fprintln(os.Stderr, "tr_c24tokens: Precedence: final return")
		os.Exit(2)
	}
	return out, intValue(ret.Results[0], t)
}

func intValue(e ast.Expr, t *tokTable) int64 {
	switch e := e.(type) {
	case *ast.BasicLit:
		v, err := strconv.ParseInt(e.Value, 0, 64)
		if err == nil {
			return v
		}
	case *ast.Ident:
		if v, ok := t.val[e.Name]; ok {
			return v
		}
	case *ast.SelectorExpr:
		if v, ok := t.val[e.Sel.Name]; ok && src(e.X) == "token" {
			return v
		}
	}
	fmt.Fprintln(os.Stderr, "tr_c24tokens: not an integer constant:", src(e))
	os.Exit(2)
	return 0
}

// ---------------------------------------------------------------- etoken

// forkTokens evaluates `QUOTE Token = (token.VAR+127)&^127 + iota` and the following names
func forkTokens(f *ast.File, t *tokTable) (names []string, vals map[string]int64, alias bool) {
	vals = map[string]int64{}
	for _, d := range f.Decls {
		gd, ok := d.(*ast.GenDecl)
		if !ok {
			continue
		}
		if gd.Tok == token.TYPE {
			for _, sp := range gd.Specs {
				ts := sp.(*ast.TypeSpec)
				if ts.Name.Name == "Token" && ts.Assign.IsValid() && src(ts.Type) == "token.Token" {
					alias = true
				}
			}
		}
		if gd.Tok != token.CONST || len(gd.Specs) == 0 {
			continue
		}
		first := gd.Specs[0].(*ast.ValueSpec)
		if len(first.Values) != 1 || src(first.Type) != "Token" {
			continue
		}
		for i, sp := range gd.Specs {
			vs := sp.(*ast.ValueSpec)
			if i > 0 && (len(vs.Values) != 0 || vs.Type != nil) {
				fmt.Fprintln(os.Stderr, "tr_c24tokens: unexpected etoken const spec", src(vs))
				os.Exit(2)
			}
			v := evalConst(first.Values[0], int64(i), t)
			for _, n := range vs.Names {
				names = append(names, n.Name)
				vals[n.Name] = v
			}
		}
	}
	return
}

func evalConst(e ast.Expr, iota int64, t *tokTable) int64 {
	var ev func(e ast.Expr) constant.Value
	ev = func(e ast.Expr) constant.Value {
		switch e := e.(type) {
		case *ast.BasicLit:
			return constant.MakeFromLiteral(e.Value, e.Kind, 0)
		case *ast.Ident:
			if e.Name == "iota" {
				return constant.MakeInt64(iota)
			}
		case *ast.SelectorExpr:
			if v, ok := t.val[e.Sel.Name]; ok && src(e.X) == "token" {
				return constant.MakeInt64(v)
			}
		case *ast.ParenExpr:
			return ev(e.X)
		case *ast.BinaryExpr:
			return constant.BinaryOp(ev(e.X), e.Op, ev(e.Y))
		}
		fmt.Fprintln(os.Stderr, "tr_c24tokens: cannot evaluate constant", src(e))
		os.Exit(2)
		return nil
	}
	v, _ := constant.Int64Val(ev(e))
	return v
}

// ---------------------------------------------------------------- small statement translator (tokPrec)

type env struct {
	t       *tokTable
	ext     map[string]int64
	recv    string // receiver name (p)
	precFun string
}

func (en *env) tokConst(e ast.Expr) (string, bool) {
	if se, ok := e.(*ast.SelectorExpr); ok {
		if x := src(se.X); x == "token" {
			if v, ok := en.t.val[se.Sel.Name]; ok {
				return fmt.Sprintf("%d%%N", v), true
			}
		} else if x == "etoken" {
			if v, ok := en.ext[se.Sel.Name]; ok {
				return fmt.Sprintf("%d%%N", v), true
			}
		}
	}
	return "", false
}

// expression of type bool / Token / int -> Coq
func (en *env) expr(e ast.Expr) string {
	switch e := e.(type) {
	case *ast.ParenExpr:
		return "(" + en.expr(e.X) + ")"
	case *ast.Ident:
		if e.Name == "tok" {
			return "tok"
		}
		if e.Name == "true" || e.Name == "false" {
			return e.Name
		}
	case *ast.BasicLit:
		if e.Kind == token.INT {
			return "(" + e.Value + ")%Z"
		}
	case *ast.SelectorExpr:
		if c, ok := en.tokConst(e); ok {
			return c
		}
		if src(e.X) == en.recv && e.Sel.Name == "inRhs" {
			return "inRhs"
		}
		if src(e.X) == en.recv && e.Sel.Name == "tok" {
			return "tok0"
		}
		if src(e.X) == "token" {
			if v, ok := en.t.val[e.Sel.Name]; ok {
				return fmt.Sprintf("(%d)%%Z", v)
			}
		}
	case *ast.CallExpr:
		if se, ok := e.Fun.(*ast.SelectorExpr); ok && se.Sel.Name == "Precedence" && len(e.Args) == 0 {
			return "(prec " + en.expr(se.X) + ")"
		}
	case *ast.BinaryExpr:
		switch e.Op {
		case token.LAND:
			return "(andb " + en.expr(e.X) + " " + en.expr(e.Y) + ")"
		case token.LOR:
			return "(orb " + en.expr(e.X) + " " + en.expr(e.Y) + ")"
		case token.EQL:
			return "(N.eqb " + en.expr(e.X) + " " + en.expr(e.Y) + ")"
		case token.NEQ:
			return "(negb (N.eqb " + en.expr(e.X) + " " + en.expr(e.Y) + "))"
		case token.ADD:
			return "(" + en.expr(e.X) + " + " + en.expr(e.Y) + ")%Z"
		case token.SUB:
			return "(" + en.expr(e.X) + " - " + en.expr(e.Y) + ")%Z"
		}
	case *ast.UnaryExpr:
		if e.Op == token.NOT {
			return "(negb " + en.expr(e.X) + ")"
		}
	}
	return opaque(src(e))
}

// stmts: tok := p.tok | if c { tok = X } | if c { return a, b } | return a, b
func (en *env) stmts(list []ast.Stmt) string {
	if len(list) == 0 {
		return opaque("function falls off its end")
	}
	s, rest := list[0], list[1:]
	switch s := s.(type) {
	case *ast.AssignStmt:
		if len(s.Lhs) == 1 && len(s.Rhs) == 1 && src(s.Lhs[0]) == "tok" && (s.Tok == token.DEFINE || s.Tok == token.ASSIGN) {
			return "let tok := " + en.expr(s.Rhs[0]) + " in\n  " + en.stmts(rest)
		}
	case *ast.ReturnStmt:
		if len(s.Results) == 2 {
			return "(" + en.expr(s.Results[0]) + ", " + en.expr(s.Results[1]) + ")"
		}
	case *ast.IfStmt:
		if s.Init == nil && s.Else == nil {
			body := s.Body.List
			if len(body) == 1 {
				if as, ok := body[0].(*ast.AssignStmt); ok && len(as.Lhs) == 1 && src(as.Lhs[0]) == "tok" && as.Tok == token.ASSIGN {
					return "let tok := if " + en.expr(s.Cond) + " then " + en.expr(as.Rhs[0]) + " else tok in\n  " + en.stmts(rest)
				}
				if _, ok := body[0].(*ast.ReturnStmt); ok {
					return "if " + en.expr(s.Cond) + " then " + en.stmts(body) + " else\n  " + en.stmts(rest)
				}
			}
		}
	}
	return opaque(src(s))
}

// ---------------------------------------------------------------- switch case lists

func caseLists(sw *ast.SwitchStmt, en *env) (lists [][]string, hasDefault bool) {
	for _, c := range sw.Body.List {
		cc := c.(*ast.CaseClause)
		if cc.List == nil {
			hasDefault = true
			continue
		}
		var l []string
		for _, e := range cc.List {
			if v, ok := en.tokConst(e); ok {
				l = append(l, v)
			} else {
				l = append(l, opaque(src(e)))
			}
		}
		lists = append(lists, l)
	}
	return
}

func findSwitchOnTok(fd *ast.FuncDecl, recv string) *ast.SwitchStmt {
	var found *ast.SwitchStmt
	for _, s := range fd.Body.List {
		if sw, ok := s.(*ast.SwitchStmt); ok && sw.Init == nil && sw.Tag != nil && src(sw.Tag) == recv+".tok" && found == nil {
			found = sw
		}
	}
	return found
}

func coqListList(ll [][]string) string {
	var parts []string
	for _, l := range ll {
		parts = append(parts, "["+strings.Join(l, "; ")+"]")
	}
	return "[" + strings.Join(parts, ";\n   ") + "]"
}

func coqString(s string) string { return "\"" + strings.ReplaceAll(s, "\"", "\"\"") + "\"" }

// ---------------------------------------------------------------- recorded canonical texts of the modelled functions

var canon = map[string]string{
	"parseBinaryExpr": `func (p *parser) parseBinaryExpr(lhs bool, prec1 int) ast.Expr { if p.trace { defer un(trace(p, "BinaryExpr")) } x := p.parseUnaryExpr(lhs) for { op, oprec := p.tokPrec() if oprec < prec1 { return x } pos := p.expect(op) if lhs { p.resolve(x) lhs = false } y := p.parseBinaryExpr(false, oprec+1) x = &ast.BinaryExpr{X: p.checkExpr(x), OpPos: pos, Op: op, Y: p.checkExpr(y)} } }`,
	"parseExpr":       `func (p *parser) parseExpr(lhs bool) ast.Expr { if p.trace { defer un(trace(p, "Expression")) } return p.parseBinaryExpr(lhs, token.LowestPrec+1) }`,
	"unary-arm":       `pos, op := p.pos, p.tok p.next() x := p.parseUnaryExpr(false) return &ast.UnaryExpr{OpPos: pos, Op: op, X: p.checkExpr(x)}`,
	"star-arm":        `pos := p.pos p.next() x := p.parseUnaryExpr(false) return &ast.StarExpr{Star: pos, X: p.checkExprOrType(x)}`,
	"unary-default":   `return p.parsePrimaryExpr(lhs)`,
	"paren-arm":       `lparen := p.pos p.next() p.exprLev++ x := p.parseRhsOrType() p.exprLev-- rparen := p.expect(token.RPAREN) return &ast.ParenExpr{Lparen: lparen, X: x, Rparen: rparen}`,
	"parseRhsOrType":  `func (p *parser) parseRhsOrType() ast.Expr { old := p.inRhs p.inRhs = true x := p.checkExprOrType(p.parseExpr(false)) p.inRhs = old return x }`,
	"Parse-loop":      `for p.tok != token.EOF && p.errors.Len() < 10 { list = append(list, p.parseAny()) if p.pos == lastpos1 { p.error(p.pos, fmt.Sprintf("skipping '%s' to continue", etoken.String(p.tok))) p.next() } else { lastpos1 = lastpos2 lastpos2 = p.pos } }`,
}

func stmtsSrc(l []ast.Stmt) string {
	var parts []string
	for _, s := range l {
		parts = append(parts, src(s))
	}
	return strings.Join(parts, " ")
}

func main() {
	repo := flag.String("repo", "/repo", "gomacro tree")
	goroot := flag.String("goroot-src", "", "$GOROOT/src (resolved)")
	out := flag.String("out", ".", "output directory")
	flag.Parse()
	gs := *goroot
	if gs == "" {
		gr := os.Getenv("GOROOT")
		if o, err := exec.Command("go", "env", "GOROOT").Output(); err == nil && len(bytes.TrimSpace(o)) > 0 {
			gr = string(bytes.TrimSpace(o))
		}
		gs = filepath.Join(gr, "src")
	}
	gs, _ = filepath.EvalSymlinks(gs)

	stdTok := parseFile(filepath.Join(gs, "go/token/token.go"))
	stdPar := parseFile(filepath.Join(gs, "go/parser/parser.go"))
	fkTok := parseFile(filepath.Join(*repo, "go/etoken/token.go"))
	fkPar := parseFile(filepath.Join(*repo, "go/parser/parser.go"))
	fkGlob := parseFile(filepath.Join(*repo, "go/parser/global.go"))

	t := stdTokens(stdTok)
	precOf, lowest := stdPrec(stdTok, t)
	extNames, extVals, alias := forkTokens(fkTok, t)
	en := &env{t: t, ext: extVals, recv: "p"}

	var sb strings.Builder
	w := func(f string, a ...interface{}) { fmt.Fprintf(&sb, f, a...) }
	w("(* GENERATED by translators/tr_c24tokens from %s/go/{etoken/token.go,parser/parser.go,parser/global.go} and %s/go/{token/token.go,parser/parser.go}. DO NOT EDIT. *)\n", *repo, gs)
	w("From Coq Require Import List NArith ZArith Bool String.\nImport ListNotations.\nOpen Scope N_scope.\n\n")

	// ---- std token constants
	w("(* go/token constants *)\n")
	for _, n := range t.names {
		w("Definition std_%s : N := %d.\n", n, t.val[n])
	}
	w("Definition std_LowestPrec : Z := (%d)%%Z.\nDefinition std_UnaryPrec : Z := (%d)%%Z.\nDefinition std_HighestPrec : Z := (%d)%%Z.\n", lowest, t.val["UnaryPrec"], t.val["HighestPrec"])
	w("\n(* token.Token.Precedence(), one row per token *)\nDefinition std_prec_table : list (N * Z) := [\n")
	for i, n := range t.names {
		p, ok := precOf[n]
		if !ok {
			p = lowest
		}
		sep := ";"
		if i == len(t.names)-1 {
			sep = ""
		}
		w("  (%d, (%d)%%Z)%s (* %s *)\n", t.val[n], p, sep, n)
	}
	w("].\n")
	for n := range precOf {
		if _, ok := t.val[n]; !ok {
			w("Definition bad_prec_case := %s.\n", opaque("Precedence case "+n+" is not a token constant"))
		}
	}
	w("Fixpoint assocZ (l : list (N * Z)) (k : N) (d : Z) : Z := match l with [] => d | (k', v) :: r => if N.eqb k k' then v else assocZ r k d end.\n")
	w("Definition std_prec (tok : N) : Z := assocZ std_prec_table tok std_LowestPrec.\n")

	// ---- std keywords
	w("\n(* go/token keyword table: tokens strictly between keyword_beg and keyword_end *)\nDefinition std_keywords : list (string * N) := [\n")
	var kws []string
	for _, n := range t.names {
		if t.val[n] > t.val["keyword_beg"] && t.val[n] < t.val["keyword_end"] {
			kws = append(kws, fmt.Sprintf("  (%s, %d)", coqString(t.str[n]), t.val[n]))
		}
	}
	w("%s\n]%%string.\n", strings.Join(kws, ";\n"))
	// Lookup must be: if tok, is_keyword := keywords[ident]; is_keyword { return tok }; return IDENT
	lk := funcDecl(stdTok, "", "Lookup")
	w("Definition std_lookup_is_table_or_IDENT : bool := %v.\n", lk != nil && src(lk.Body) == "{ if tok, is_keyword := keywords[ident]; is_keyword { return tok } return IDENT }")

	// ---- fork tokens
	w("\n(* go/etoken *)\nDefinition fork_token_is_alias : bool := %v.\n", alias)
	w("Definition fork_ext_tokens : list (string * N) := [\n")
	for i, n := range extNames {
		sep := ";"
		if i == len(extNames)-1 {
			sep = ""
		}
		w("  (%s, %d)%s\n", coqString(n), extVals[n], sep)
	}
	w("]%%string.\n")

	// etoken.Lookup: chain of `if lit == "x" { return X } else if ...` then `return token.Lookup(lit)`
	w("\n(* etoken.Lookup: identifiers mapped before delegating to token.Lookup (condition other than lit == \"..\" kept as comment) *)\n")
	fl := funcDecl(fkTok, "", "Lookup")
	var special []string
	delegates := false
	if fl != nil && len(fl.Body.List) == 2 {
		var walk func(s ast.Stmt) bool
		walk = func(s ast.Stmt) bool {
			is, ok := s.(*ast.IfStmt)
			if !ok || is.Init != nil || len(is.Body.List) == 0 {
				return false
			}
			ret, ok := is.Body.List[len(is.Body.List)-1].(*ast.ReturnStmt)
			if !ok || len(ret.Results) != 1 {
				return false
			}
			// find lit == "..." inside the condition
			lit := ""
			ast.Inspect(is.Cond, func(n ast.Node) bool {
				if be, ok := n.(*ast.BinaryExpr); ok && be.Op == token.EQL && src(be.X) == "lit" {
					if bl, ok := be.Y.(*ast.BasicLit); ok && bl.Kind == token.STRING {
						lit, _ = strconv.Unquote(bl.Value)
					}
				}
				return true
			})
			v, okv := extVals[src(ret.Results[0])]
			if lit == "" || !okv {
				special = append(special, "  "+opaque(src(is.Cond)+" -> "+src(ret.Results[0])))
			} else {
				special = append(special, fmt.Sprintf("  (%s, %d) (* if %s *)", coqString(lit), v, strings.ReplaceAll(src(is.Cond), "*)", "* )")))
			}
			if is.Else != nil {
				return walk(is.Else)
			}
			return true
		}
		ok := walk(fl.Body.List[0])
		if ret, isr := fl.Body.List[1].(*ast.ReturnStmt); isr && ok && len(ret.Results) == 1 && src(ret.Results[0]) == "token.Lookup(lit)" {
			delegates = true
		}
	}
	w("Definition fork_lookup_special : list (string * N) := [\n%s\n]%%string.\n", strings.Join(special, ";\n"))
	w("Definition fork_lookup_delegates : bool := %v.\n", delegates)

	// ---- tokPrec
	w("\n(* parser.tokPrec, translated statement by statement; prec = go/token's Precedence (Token is an alias) *)\n")
	tp := funcDecl(fkPar, "*parser", "tokPrec")
	if tp == nil {
		w("Definition fork_tokPrec := %s.\n", opaque("tokPrec not found"))
	} else {
		w("Definition fork_tokPrec (prec : N -> Z) (inRhs : bool) (tok0 : N) : N * Z :=\n  %s.\n", en.stmts(tp.Body.List))
	}

	// ---- unary case lists
	w("\n(* case lists of parseUnaryExpr's switch on p.tok *)\n")
	for _, x := range []struct {
		name string
		f    *ast.File
	}{{"fork", fkPar}, {"std", stdPar}} {
		fd := funcDecl(x.f, "*parser", "parseUnaryExpr")
		var sw *ast.SwitchStmt
		if fd != nil {
			sw = findSwitchOnTok(fd, "p")
		}
		if sw == nil {
			w("Definition %s_unary_cases := %s.\n", x.name, opaque("switch p.tok not found in parseUnaryExpr"))
			continue
		}
		ll, _ := caseLists(sw, en)
		w("Definition %s_unary_cases : list (list N) :=\n  %s.\n", x.name, coqListList(ll))
	}

	// ---- parseAny / parseDecl
	w("\n(* parseAny's switch: (case list, branch) with branch 0 = parsePackage, 1 = parseGenDecl(IMPORT), 2 = parseDecl, 9 = other *)\n")
	pa := funcDecl(fkGlob, "*parser", "parseAny")
	var sw *ast.SwitchStmt
	if pa != nil {
		sw = findSwitchOnTok(pa, "p")
	}
	if sw == nil {
		w("Definition fork_parseAny_cases := %s.\n", opaque("switch p.tok not found in parseAny"))
	} else {
		var rows []string
		defBranch := "9"
		for _, c := range sw.Body.List {
			cc := c.(*ast.CaseClause)
			body := stmtsSrc(cc.Body)
			br := "9"
			switch body {
			case "node = p.parsePackage()":
				br = "0"
			case "node = p.parseGenDecl(token.IMPORT, p.parseImportSpec)":
				br = "1"
			case "node = p.parseDecl(syncDecl)":
				br = "2"
			case "node = p.parseStmt() if expr, ok := node.(*ast.ExprStmt); ok { node = expr.X }":
				br = "3"
			}
			if cc.List == nil {
				defBranch = br
				continue
			}
			var l []string
			for _, e := range cc.List {
				if v, ok := en.tokConst(e); ok {
					l = append(l, v)
				} else {
					l = append(l, opaque(src(e)))
				}
			}
			rows = append(rows, "(["+strings.Join(l, "; ")+"], "+br+")")
		}
		w("Definition fork_parseAny_cases : list (list N * N) :=\n  [%s].\nDefinition fork_parseAny_default : N := %s.\n", strings.Join(rows, ";\n   "), defBranch)
	}
	pd := funcDecl(stdPar, "*parser", "parseDecl")
	sw = nil
	if pd != nil {
		sw = findSwitchOnTok(pd, "p")
	}
	if sw == nil {
		w("Definition std_parseDecl_cases := %s.\n", opaque("switch p.tok not found in go/parser parseDecl"))
	} else {
		ll, _ := caseLists(sw, en)
		var flat []string
		for _, l := range ll {
			flat = append(flat, l...)
		}
		sort.Strings(flat)
		w("Definition std_parseDecl_cases : list N := [%s].\n", strings.Join(flat, "; "))
	}

	// ---- canonical texts
	w("\n(* the functions the hand-written model (coq/C24/Model.v) was written from still have the recorded text *)\n")
	check := func(name string, got string) {
		ok := got == canon[name]
		w("Definition src_%s : bool := %v.\n", strings.ReplaceAll(name, "-", "_"), ok)
		if !ok {
			w("(* current text: %s *)\n", strings.ReplaceAll(got, "*)", "* )"))
		}
	}
	if fd := funcDecl(fkPar, "*parser", "parseBinaryExpr"); fd != nil {
		check("parseBinaryExpr", src(fd))
	} else {
		check("parseBinaryExpr", "")
	}
	if fd := funcDecl(fkPar, "*parser", "parseExpr"); fd != nil {
		check("parseExpr", src(fd))
	} else {
		check("parseExpr", "")
	}
	if fd := funcDecl(fkPar, "*parser", "parseRhsOrType"); fd != nil {
		check("parseRhsOrType", src(fd))
	} else {
		check("parseRhsOrType", "")
	}
	ua, sa, ud := "", "", ""
	if fd := funcDecl(fkPar, "*parser", "parseUnaryExpr"); fd != nil {
		if sw := findSwitchOnTok(fd, "p"); sw != nil {
			for _, c := range sw.Body.List {
				cc := c.(*ast.CaseClause)
				if len(cc.List) > 0 && src(cc.List[0]) == "token.ADD" {
					ua = stmtsSrc(cc.Body)
				}
				if len(cc.List) == 1 && src(cc.List[0]) == "token.MUL" {
					sa = stmtsSrc(cc.Body)
				}
			}
		}
		ud = src(fd.Body.List[len(fd.Body.List)-1])
	}
	check("unary-arm", ua)
	check("star-arm", sa)
	check("unary-default", ud)
	pa2 := ""
	if fd := funcDecl(fkPar, "*parser", "parseOperand"); fd != nil {
		if sw := findSwitchOnTok(fd, "p"); sw != nil {
			for _, c := range sw.Body.List {
				cc := c.(*ast.CaseClause)
				if len(cc.List) == 1 && src(cc.List[0]) == "token.LPAREN" {
					pa2 = stmtsSrc(cc.Body)
				}
			}
		}
	}
	check("paren-arm", pa2)
	loop := ""
	if fd := funcDecl(fkGlob, "*parser", "Parse"); fd != nil {
		for _, s := range fd.Body.List {
			if fs, ok := s.(*ast.ForStmt); ok {
				loop = src(fs)
			}
		}
	}
	check("Parse-loop", loop)

	if err := os.WriteFile(filepath.Join(*out, "GenC24a_Tokens.v"), []byte(sb.String()), 0o644); err != nil {
		fmt.Fprintln(os.Stderr, err)
		os.Exit(2)
	}
	tmpl, err := os.ReadFile("PropsGen.v.tmpl")
	if err != nil {
		fmt.Fprintln(os.Stderr, err)
		os.Exit(2)
	}
	if err := os.WriteFile(filepath.Join(*out, "GenC24b_Props.v"), tmpl, 0o644); err != nil {
		fmt.Fprintln(os.Stderr, err)
		os.Exit(2)
	}
	fmt.Printf("tr_c24tokens: %d std tokens, %d fork tokens, %d opaque\n", len(t.names), len(extNames), nOpaque)
}

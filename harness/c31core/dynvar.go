package c31core

// Dynamic part of the interpreter read-back: "the same variable address" must hold over a HISTORY, not only at one
// instant.  For every exported VARIABLE binding of an imported package (all kinds):
//
//	1. interpreted readers/writers are COMPILED first:  e := ir.Compile("q.V") (an expression kept and re-run),
//	   `func c31rd_N() interface{} { return q.V }`, `c31w_N := q.V` (the old value, held by the interpreter) and
//	   `func c31wr_N() { q.V = c31w_N }`;
//	2. the COMPILED variable is modified through its address (reflect on the named symbol of the oracle table);
//	3. the reader expression compiled in step 1, the interpreted function compiled in step 1 and a freshly compiled
//	   `q.V` must all return the value the compiled variable now holds;
//	4. the interpreted writer compiled in step 1 stores the old value back: the COMPILED side must see it, and so must
//	   the old reader expression;
//	5. whatever happened, the old value is restored through reflect.
//
// Oracle: the content of the compiled variable itself (reflect on its address), compared with identity semantics for
// reference kinds (sameValue); nothing of gomacro is consulted for the expected value.

import (
	"fmt"
	"reflect"
	"sort"

	"github.com/cosmos72/gomacro/fast"
	"github.com/cosmos72/gomacro/imports"
	"verifh/vh"
)

var dynSeq int

// varKindCover returns, for every reflect.Kind occurring among the addressable Binds (= variables) of the given packages,
// up to `per` packages that declare a variable of that kind and are not already chosen (seeded choice among the candidates).
func varKindCover(paths []string, chosen map[string]bool, per int) []string {
	byKind := map[reflect.Kind][]string{}
	for _, p := range paths {
		seen := map[reflect.Kind]bool{}
		for _, v := range imports.Packages[p].Binds {
			if v.CanAddr() && !seen[v.Kind()] {
				seen[v.Kind()] = true
				byKind[v.Kind()] = append(byKind[v.Kind()], p)
			}
		}
	}
	var kinds []int
	for k := range byKind {
		kinds = append(kinds, int(k))
	}
	sort.Ints(kinds)
	var out []string
	for _, k := range kinds {
		cands := byKind[reflect.Kind(k)] // paths is sorted, so this list is deterministic
		have := 0
		for _, p := range cands {
			if chosen[p] {
				have++
			}
		}
		for have < per && have < len(cands) {
			p := cands[rng.Intn(len(cands))]
			if !chosen[p] {
				chosen[p] = true
				out = append(out, p)
				have++
			}
		}
		rep.Extra[fmt.Sprintf("packages_with_variables_of_kind_%v", reflect.Kind(k))] = len(cands)
	}
	return out
}

func unwrapIface(v reflect.Value) reflect.Value {
	for v.IsValid() && v.Kind() == reflect.Interface {
		if v.IsNil() {
			return reflect.Value{}
		}
		v = v.Elem()
	}
	return v
}

func sameDyn(x, y reflect.Value) bool {
	return sameValue(unwrapIface(x), unwrapIface(y))
}

func showDyn(v reflect.Value) string {
	v = unwrapIface(v)
	if !v.IsValid() {
		return "<nil interface>"
	}
	switch v.Kind() {
	case reflect.Ptr, reflect.Map, reflect.Chan, reflect.Func, reflect.UnsafePointer:
		return fmt.Sprintf("%v nil=%v", v.Type(), v.IsNil())
	case reflect.Slice:
		return fmt.Sprintf("%v len=%d nil=%v", v.Type(), v.Len(), v.IsNil())
	case reflect.Struct, reflect.Array:
		return fmt.Sprintf("%v zero=%v", v.Type(), v.IsZero())
	}
	s := fmt.Sprintf("%v %#v", v.Type(), v)
	if len(s) > 200 {
		s = s[:200] + "..."
	}
	return s
}

// otherValue returns a value of type t that differs from old (ok=false: none found)
func otherValue(t reflect.Type, old reflect.Value) (reflect.Value, bool) {
	nv := reflect.New(t).Elem()
	switch t.Kind() {
	case reflect.Bool:
		nv.SetBool(!old.Bool())
		return nv, true
	case reflect.Int, reflect.Int8, reflect.Int16, reflect.Int32, reflect.Int64:
		nv.SetInt(old.Int() + 1 + int64(rng.Intn(5)))
		return nv, nv.Int() != old.Int()
	case reflect.Uint, reflect.Uint8, reflect.Uint16, reflect.Uint32, reflect.Uint64, reflect.Uintptr:
		nv.SetUint(old.Uint() + 1 + uint64(rng.Intn(5)))
		return nv, nv.Uint() != old.Uint()
	case reflect.Float32, reflect.Float64:
		nv.SetFloat(float64(rng.Intn(1000)) + 0.5)
		return nv, nv.Float() != old.Float()
	case reflect.Complex64, reflect.Complex128:
		nv.SetComplex(complex(float64(rng.Intn(1000))+0.5, 2))
		return nv, nv.Complex() != old.Complex()
	case reflect.String:
		nv.SetString(old.String() + fmt.Sprintf("/modified%d", rng.Intn(1000)))
		return nv, true
	}
	if !old.IsZero() && rng.Chance(2, 3) {
		return nv, true // the zero value
	}
	for try := 0; try < 20; try++ {
		c := randValue(t, 0)
		if !sameValue(c, old) {
			return c, true
		}
	}
	if !old.IsZero() {
		return nv, true
	}
	return nv, false
}

// dynamicVar runs the history on one variable.  sym is the address of the compiled variable (oracle table).
func dynamicVar(ir *fast.Interp, path, alias, name string, sym interface{}) {
	expr := alias + "." + name
	key := "Eval:dyn:" + path + "." + name
	input := map[string]interface{}{"pkg": path, "var": name, "eval": expr}
	cv := reflect.ValueOf(sym)
	if cv.Kind() != reflect.Ptr || cv.IsNil() || !cv.Elem().CanSet() {
		rep.Dist("Eval:dyn:skipped:not-settable")
		return
	}
	cv = cv.Elem()
	t := cv.Type()
	old := reflect.New(t).Elem()
	old.Set(cv)
	nv, ok := otherValue(t, old)
	if !ok {
		rep.Dist("Eval:dyn:skipped:no-other-value:" + t.Kind().String())
		return
	}
	rep.Dist("Eval:dyn:kind:" + t.Kind().String())
	rep.Count("Eval:dyn|"+path+"."+name+"|"+showDyn(nv), true)
	dynSeq++
	n := dynSeq
	rd, wr, hold := fmt.Sprintf("c31rd_%d", n), fmt.Sprintf("c31wr_%d", n), fmt.Sprintf("c31w_%d", n)
	prog := []string{
		fmt.Sprintf("%s := %s", hold, expr),
		fmt.Sprintf("func %s() interface{} { return %s }", rd, expr),
		fmt.Sprintf("func %s() { %s = %s }", wr, expr, hold),
	}
	input["program"] = prog
	var e *fast.Expr
	if p := vh.Catch(func() {
		for _, s := range prog {
			ir.Eval(s)
		}
		e = ir.Compile(expr)
	}); p != nil || e == nil {
		fail(key, "interpreted reader/writer of an imported variable does not compile", input, fmt.Sprint(p), nil)
		return
	}
	defer cv.Set(old) // step 5
	read := func(how string) (v reflect.Value, p interface{}) {
		p = vh.Catch(func() {
			switch how {
			case "expression compiled before the change":
				x, _ := ir.RunExpr1(e)
				v = x.ReflectValue()
			case "interpreted function compiled before the change":
				x, _ := ir.Eval1(rd + "()")
				v = x.ReflectValue()
			default:
				x, _ := ir.Eval1(expr)
				v = x.ReflectValue()
			}
		})
		return
	}
	hows := []string{"expression compiled before the change", "interpreted function compiled before the change", "freshly compiled expression"}
	check := func(step string, want reflect.Value) bool {
		for _, how := range hows {
			got, p := read(how)
			if p != nil || !sameDyn(got, want) {
				input["step"] = step
				input["reader"] = how
				input["new_value"] = showDyn(nv)
				input["old_value"] = showDyn(old)
				g := showDyn(got)
				if p != nil {
					g = "panic: " + fmt.Sprint(p)
				}
				fail(key, "interpreted code does not read the current value of the imported variable ("+step+"; "+how+")", input, g, showDyn(want))
				return false
			}
		}
		return true
	}
	// step 2+3: compiled side writes, interpreted side reads
	if !check("before any change", old) {
		return
	}
	cv.Set(nv)
	if !check("after the compiled variable was modified through its address", nv) {
		return
	}
	// step 4: interpreted side writes (the old value), compiled side reads
	if p := vh.Catch(func() { ir.Eval(wr + "()") }); p != nil || !sameValue(cv, old) {
		input["step"] = "interpreted writer compiled before the change stores the old value back"
		g := showDyn(cv)
		if p != nil {
			g = "panic: " + fmt.Sprint(p)
		}
		fail(key, "a store to the imported variable from interpreted code is not seen by compiled code", input, g, showDyn(old))
		return
	}
	check("after the interpreted writer stored the old value back", old)
}

// Session stream of c12: multi-input sources fed through the loops that evaluate input after input
// (Interp.EvalReader, Interp.EvalFile, Interp.Repl, a ReadParseEvalPrint loop over a line-by-line Readline as
// ReplStdin does, and ParseEvalPrint called once per input), with OptTrapPanic set as the REPL does.  Some inputs
// are aborted by a panic: in plain code, in a deferred call, during another panic, at compile time, and inside the
// REPL special commands (:debug EXPR, :inspect EXPR).
// Direct oracle: EVERY later input is still evaluated, and the log of rec(input index, value) calls equals the log of
// a fresh interpreter that is fed - one Interp.Eval per input - only what the successful inputs did (for an aborted
// input: the side effects it executed before the panic).  The Run record after the session equals the record before
// it and the defer/recover battery equals that of an interpreter that saw no session.
// Correspondence: the indices of the inputs that logged equal those computed by the Coq model of the loop
// (coq/C12/ReplModel.v: ParseEvalPrint/afterEval's callAgain protocol), cases_sess.v.
package main

import (
	"bufio"
	"fmt"
	"io"
	"os"
	"path/filepath"
	"strings"

	"github.com/cosmos72/gomacro/base"
	"github.com/cosmos72/gomacro/fast"
	"github.com/cosmos72/gomacro/xreflect"
	r "reflect"
	L "verifh/c13lib"
	"verifh/vh"
)

type sessInput struct {
	Src   string `json:"src"`   // the text of the input, one or more lines, newline-terminated
	Equiv string `json:"equiv"` // what the reference interpreter evaluates instead ("" = nothing)
	Kind  string `json:"kind"`
	// descriptor for the Coq model of the loop
	blank, cmdPanics, quit, hasRest, evalPanics, logs bool
}

type sessIn struct {
	Driver  string      `json:"driver"`
	Options string      `json:"options"`
	Inspect bool        `json:"inspector_set"`
	Inputs  []sessInput `json:"inputs"`
}

const sessPrelude = "var g0, g1, g2, g3 int = 1, 2, 3, 4\n" +
	"func boom() int { panic(\"boom\") }\n" +
	"func dpanic(i int) {\n\tdefer boom()\n\tg1++\n\trec(i, g1)\n}\n" +
	"func indefer() {\n\tdefer func() { panic(\"in deferred\") }()\n}\n" +
	"func recovered() {\n\tdefer func() { recover() }()\n\tg2++\n\tpanic(\"recovered\")\n}\n" +
	"func twice() {\n\tdefer func() { panic(\"second\") }()\n\tpanic(\"first\")\n}\n"

// statements that panic at run time without any side effect on g0..g3 (expression contexts use gv = a global)
func runtimePanics(rng *vh.Rng, gv string) string {
	all := []string{
		"boom()",
		gv + " = boom() + 1",
		gv + " = 1 / (" + gv + " - " + gv + ")",
		"var mnil map[string]int; mnil[\"a\"] = 1",
		"_ = []int{1, 2}[" + gv + "*0 + 7]",
		"var pnil *int; *pnil = 1",
		"var enil interface{} = 1; _ = enil.(string)",
		"twice()",
		"panic(" + gv + ")",
		"indefer()",
	}
	return all[rng.Intn(len(all))]
}

func genSession(rng *vh.Rng, inspector bool) []sessInput {
	var ins []sessInput
	gvar := func() string { return fmt.Sprintf("g%d", rng.Intn(4)) }
	nfun := 0
	n := 6 + rng.Intn(10)
	for len(ins) < n {
		i := len(ins)
		a, b := gvar(), gvar()
		k := 1 + rng.Intn(9)
		var in sessInput
		switch x := rng.Intn(40); {
		// ---------------- inputs that succeed
		case x < 6:
			s := fmt.Sprintf("%s = %s*3 + %d; rec(%d, %s)", a, b, k, i, a)
			in = sessInput{Src: s + "\n", Equiv: s, Kind: "ok:assign", hasRest: true, logs: true}
		case x < 8:
			s := fmt.Sprintf("func f%d(a int) int {\n\tif a > %d {\n\t\treturn a - %s\n\t}\n\treturn a*2 + %s\n}", nfun, k, a, b)
			nfun++
			in = sessInput{Src: s + "\n", Equiv: s, Kind: "ok:multiline func", hasRest: true}
		case x < 10 && nfun > 0:
			s := fmt.Sprintf("rec(%d, f%d(%d))", i, rng.Intn(nfun), k)
			in = sessInput{Src: s + "\n", Equiv: s, Kind: "ok:call", hasRest: true, logs: true}
		case x < 11:
			s := fmt.Sprintf("var h%d = %s + %d; rec(%d, h%d)", i, a, k, i, i)
			in = sessInput{Src: s + "\n", Equiv: s, Kind: "ok:var", hasRest: true, logs: true}
		case x < 13:
			s := fmt.Sprintf("recovered(); %s += g2; rec(%d, %s)", a, i, a)
			in = sessInput{Src: s + "\n", Equiv: s, Kind: "ok:recovered panic", hasRest: true, logs: true}
		case x < 14:
			in = sessInput{Src: []string{"\n", "   \n", "// only a comment\n", "/* block\n comment */\n"}[rng.Intn(4)], Kind: "ok:blank or comment", blank: true}
		case x < 16:
			s := fmt.Sprintf("%s = %s + %d; rec(%d, %s)", a, a, k, i, a)
			in = sessInput{Src: ":debug " + s + "\n", Equiv: s, Kind: "ok:cmd debug", logs: true}
		case x < 17:
			in = sessInput{Src: []string{":help\n", ":copyright\n", ":env g0\n", ":unload \"no/such/pkg\"\n", ":debug\n", ":inspect\n"}[rng.Intn(6)], Kind: "ok:cmd"}
		case x < 18 && inspector:
			in = sessInput{Src: fmt.Sprintf(":inspect %s + %d\n", a, k), Kind: "ok:cmd inspect"}
		case x < 19 && len(ins) >= 4 && rng.Chance(1, 4):
			in = sessInput{Src: ":quit\n", Kind: "ok:cmd quit", quit: true}
		// ---------------- inputs aborted by a panic in plain code
		case x < 22:
			in = sessInput{Src: runtimePanics(rng, a) + "\n", Kind: "abort:runtime panic", hasRest: true, evalPanics: true}
		case x < 24:
			s := fmt.Sprintf("%s = %s + %d; rec(%d, %s)", a, a, k, i, a)
			in = sessInput{Src: s + "; " + runtimePanics(rng, b) + "\n", Equiv: s, Kind: "abort:panic after side effects", hasRest: true, evalPanics: true, logs: true}
		case x < 26:
			s := fmt.Sprintf("%s += %d; rec(%d, %s)", a, k, i, a)
			in = sessInput{Src: "{ defer func() { panic(\"deferred\") }(); " + s + " }\n", Equiv: s, Kind: "abort:panic in deferred call (block)", hasRest: true, evalPanics: true, logs: true}
		case x < 28:
			in = sessInput{Src: fmt.Sprintf("dpanic(%d)\n", i), Equiv: fmt.Sprintf("g1++; rec(%d, g1)", i), Kind: "abort:panic in deferred call (function)", hasRest: true, evalPanics: true, logs: true}
		case x < 30:
			s := []string{a + " = undefinedName + 1", a + " = \"str\"", a + " = 1 2", "rec(" + a + ")", "var _ int = nosuch.Field"}[rng.Intn(5)]
			in = sessInput{Src: s + "\n", Kind: "abort:compile error", hasRest: true, evalPanics: true}
		// ---------------- inputs aborted by a panic inside a REPL special command
		case x < 33:
			in = sessInput{Src: ":debug " + runtimePanics(rng, a) + "\n", Kind: "abort:cmd debug, runtime panic", cmdPanics: true}
		case x < 35:
			s := fmt.Sprintf("%s = %s + %d; rec(%d, %s)", a, a, k, i, a)
			in = sessInput{Src: ":debug " + s + "; " + runtimePanics(rng, b) + "\n", Equiv: s, Kind: "abort:cmd debug, panic after side effects", cmdPanics: true, logs: true}
		case x < 36:
			in = sessInput{Src: fmt.Sprintf(":debug dpanic(%d)\n", i), Equiv: fmt.Sprintf("g1++; rec(%d, g1)", i), Kind: "abort:cmd debug, panic in deferred call", cmdPanics: true, logs: true}
		case x < 37:
			in = sessInput{Src: ":debug " + a + " = undefinedName\n", Kind: "abort:cmd debug, compile error", cmdPanics: true}
		case x < 38:
			in = sessInput{Src: ":inspect undefinedName\n", Kind: "abort:cmd inspect, compile error", cmdPanics: true}
		case x < 39 && inspector:
			in = sessInput{Src: ":inspect boom()\n", Kind: "abort:cmd inspect, runtime panic", cmdPanics: true}
		case x < 40 && !inspector:
			in = sessInput{Src: ":inspect " + a + "\n", Kind: "abort:cmd inspect, no inspector set", cmdPanics: true}
		default:
			continue
		}
		ins = append(ins, in)
	}
	i := len(ins)
	s := fmt.Sprintf("rec(%d, g0*1000000 + g1*10000 + g2*100 + g3)", i)
	return append(ins, sessInput{Src: s + "\n", Equiv: s, Kind: "ok:final", hasRest: true, logs: true})
}

type lineReader struct {
	lines []string
}

func (l *lineReader) Read(prompt string) ([]byte, error) {
	if len(l.lines) == 0 {
		return nil, io.EOF
	}
	s := l.lines[0]
	l.lines = l.lines[1:]
	return []byte(s), nil
}

type nopInspector struct{ calls int }

func (n *nopInspector) Inspect(name string, val r.Value, typ r.Type, xtyp xreflect.Type, globals *base.Globals) {
	n.calls++
}

type recEntry struct{ I, V int }

func newSessProbe(log *[]recEntry) *L.Probe {
	pr := L.NewProbe()
	pr.Ir.DeclFunc("rec", func(i, v int) { *log = append(*log, recEntry{i, v}) })
	return pr
}

var sessDrivers = []string{"EvalReader", "Repl", "EvalFile", "Readline loop", "ParseEvalPrint"}

var sessOptions = []struct {
	name string
	set  base.Options
}{
	{"default (TrapPanic)", 0},
	{"REPL (TrapPanic ShowPrompt ShowEval ShowEvalType Debugger CtrlCEnterDebugger)", base.OptShowPrompt | base.OptShowEval | base.OptShowEvalType | base.OptDebugger | base.OptCtrlCEnterDebugger},
	{"TrapPanic PanicStackTrace", base.OptPanicStackTrace},
	{"TrapPanic ShowTime Debugger", base.OptShowTime | base.OptDebugger},
}

// runSession feeds the inputs through the driver; returns the rec log, whether the loop reported an error / stopped early
func runSession(a *vh.Args, pr *L.Probe, in sessIn, serial int) (note string) {
	ir := pr.Ir
	g := &ir.Comp.Globals
	var all strings.Builder
	for _, x := range in.Inputs {
		all.WriteString(x.Src)
	}
	if p := vh.Catch(func() {
		switch in.Driver {
		case "EvalReader":
			if _, err := ir.EvalReader(strings.NewReader(all.String())); err != nil {
				note = "EvalReader returned an error"
			}
		case "EvalFile":
			dir := a.Path("sessions")
			os.MkdirAll(dir, 0o755)
			f := filepath.Join(dir, fmt.Sprintf("s%04d.gomacro", serial))
			os.WriteFile(f, []byte(all.String()), 0o644)
			if _, err := ir.EvalFile(f); err != nil {
				note = "EvalFile returned an error"
			}
		case "Repl":
			ir.Repl(bufio.NewReader(strings.NewReader(all.String())))
		case "Readline loop":
			save := g.Readline
			g.Readline = &lineReader{lines: strings.SplitAfter(all.String(), "\n")}
			for ir.ReadParseEvalPrint() {
			}
			g.Readline = save
		case "ParseEvalPrint":
			for i, x := range in.Inputs {
				if !ir.ParseEvalPrint(x.Src) {
					if x.quit {
						break
					}
					note = fmt.Sprintf("ParseEvalPrint returned callAgain=false for input %d", i)
					break
				}
			}
		}
	}); p != nil {
		note = "a panic escaped the loop although OptTrapPanic is set"
	}
	return note
}

func coqSessInput(x sessInput) string {
	return fmt.Sprintf("(mkInput %s %s %s %s %s %s)", vh.CoqBool(x.blank), vh.CoqBool(x.cmdPanics), vh.CoqBool(x.quit), vh.CoqBool(x.hasRest), vh.CoqBool(x.evalPanics), vh.CoqBool(x.logs))
}

func sessionStream(a *vh.Args, rng *vh.Rng, rep *vh.Report, wd *vh.Watchdog, n int) {
	var cases []string
	wantBattery := L.NewProbe().RunBattery()
	for s := 0; s < n; s++ {
		opt := sessOptions[rng.Intn(len(sessOptions))]
		in := sessIn{Driver: sessDrivers[s%len(sessDrivers)], Options: opt.name, Inspect: rng.Bool()}
		in.Inputs = genSession(rng, in.Inspect)
		wd.Beat(in)
		key := "session:" + in.Driver + "|" + opt.name + "|"
		for _, x := range in.Inputs {
			key += x.Src
		}
		fail := func(what string, got, want interface{}) {
			rep.Fail(vh.Failure{Key: key, What: what, Input: in, Got: got, Want: want})
		}
		// reference: a fresh interpreter is fed only what the successful inputs did, one Eval per input
		var want []recEntry
		ref := newSessProbe(&want)
		ref.Ir.Eval(sessPrelude)
		for i, x := range in.Inputs {
			if x.quit {
				break // nothing after an executed quit command is evaluated
			}
			if x.Equiv == "" {
				continue
			}
			if _, pk := ref.Eval(x.Equiv); pk != "" {
				fmt.Fprintf(os.Stderr, "session generator: reference input %d %q panics: %s\n", i, x.Equiv, pk)
				os.Exit(2)
			}
		}
		// the session
		var got []recEntry
		pr := newSessProbe(&got)
		g := &pr.Ir.Comp.Globals
		pr.Ir.Eval(sessPrelude)
		g.Options |= base.OptTrapPanic | opt.set
		if in.Inspect {
			g.Inspector = &nopInspector{}
		}
		pr.Arm(0, "")
		// the debugger mode that `:debug` selects (applyDebugOp(DebugOpStep): ExecFlags.Debug, Signals.Debug, DebugDepth)
		// stays selected - after a successful :debug too - until the next evaluation selects DebugOpContinue on entry:
		// both snapshots are taken after a plain evaluation of `0`
		pr.Eval("0")
		before := pr.Snapshot()
		note := runSession(a, pr, in, s)
		pr.Eval("0")
		after := pr.Snapshot()
		g.Options &^= opt.set
		if note != "" {
			fail(note, nil, nil)
		}
		if fmt.Sprint(got) != fmt.Sprint(want) {
			// name the first input whose result is missing or different
			what := "the log of rec(input, value) calls differs from the interpreter that was fed only the successful inputs"
			for i := 0; i < len(want); i++ {
				if i >= len(got) || got[i] != want[i] {
					idx := want[i].I
					if i < len(got) && got[i].I != idx {
						what += fmt.Sprintf(": unexpected rec(%d, %d)", got[i].I, got[i].V)
					} else if i >= len(got) {
						what += fmt.Sprintf(": input %d (%s) and every later input was never evaluated", idx, in.Inputs[idx].Kind)
						if idx > 0 {
							what += fmt.Sprintf("; the input before it: %q (%s)", in.Inputs[idx-1].Src, in.Inputs[idx-1].Kind)
						}
					} else {
						what += fmt.Sprintf(": input %d (%s) gave %d, expected %d", idx, in.Inputs[idx].Kind, got[i].V, want[i].V)
					}
					break
				}
			}
			fail(what, fmt.Sprint(got), fmt.Sprint(want))
		}
		if d := snapDiff(before, after); len(d) > 0 {
			fail("Run record after the session differs from the record before it", d, nil)
		}
		gb := pr.RunBattery()
		for i := range gb {
			if gb[i] != wantBattery[i] {
				fail("battery evaluation after the session differs from the interpreter that saw no session: "+L.Battery[i], gb[i], wantBattery[i])
				break
			}
		}
		// bookkeeping
		aborted := 0
		var ds []string
		for _, x := range in.Inputs {
			rep.Dist("session input:" + x.Kind)
			if x.cmdPanics || x.evalPanics {
				aborted++
			}
			ds = append(ds, coqSessInput(x))
		}
		rep.Dist("session driver:" + in.Driver)
		rep.Count(key, aborted > 0)
		idx := 1000000 + s
		rep.CaseInput(idx, in)
		if s%37 == 3 {
			rep.Sample(in)
		}
		var logged []string
		last := -1
		for _, e := range got {
			if e.I != last {
				logged = append(logged, fmt.Sprint(e.I))
				last = e.I
			}
		}
		cases = append(cases, fmt.Sprintf("mkSess %d%%Z true %s %s", idx, vh.CoqList(ds, "input"), vh.CoqList(logged, "nat")))
	}
	var sb strings.Builder
	sb.WriteString("From Coq Require Import List Arith ZArith.\nFrom Verif Require Import C12.ReplModel.\nImport ListNotations.\nOpen Scope nat_scope.\n")
	sb.WriteString("Definition cases : list sess := [\n " + strings.Join(cases, ";\n ") + "\n].\n")
	sb.WriteString("Definition verif_mismatches : list Z := Eval vm_compute in sess_mismatches cases.\nPrint verif_mismatches.\n")
	if err := os.WriteFile(a.Path("cases_sess.v"), []byte(sb.String()), 0o644); err != nil {
		panic(err)
	}
	rep.Extra["sessions"] = n
}

var _ = fast.New

// c12: a panic escaping an evaluation at any point leaves later evaluations unaffected
// (fast/code.go restore/popDefer/rundefer/maybeRepanic, fast/repl.go RunExpr deferred setCurrEnv, prepareEnv).
// Fault enumeration: for every probe program (nested calls, loops, defers, closures, recover-and-repanic, panics
// inside deferred calls, top-level blocks) the compiled hook panics at its k-th call for EVERY k = 1..N (N = number
// of hook calls of the undisturbed run), followed by a second faulted evaluation in the same interpreter.
// Direct oracle: the Run record after each aborted evaluation equals the record before it (fast.VerifRunState;
// Interrupt/Panic/pool excluded: never read before written), the escaping panic is the injected one, and a fixed
// battery of defer/recover/closure evaluations equals that of an interpreter that saw only the definitions.
// Correspondence: outcome, later hook calls, successful recover() calls, the global x and the whole Run record
// equal the Coq model's (cases_*.v, coq/C12/Model.v over the machine of coq/C13/Model.v).
package main

import (
	"encoding/json"
	"fmt"
	"os"
	"path/filepath"
	"sort"
	"strings"
	"time"

	L "verifh/c13lib"
	"verifh/vh"
)

type shape struct {
	Name  string
	Prog  *L.Program
	Form  string
	CoqFm string
	Decls []string
}

func callShape(name string, arg int, funcs ...[]L.Stmt) shape {
	p := (&L.Program{Funcs: funcs}).Build()
	return shape{Name: name, Prog: p, Form: fmt.Sprintf("f0(%d)", arg), CoqFm: fmt.Sprintf("(FCall 0 %d)", arg), Decls: p.Decls}
}

func directShape(name string, form []L.Stmt, funcs ...[]L.Stmt) shape {
	p := (&L.Program{Funcs: funcs}).Build()
	src, idx := p.BuildDirect(form)
	return shape{Name: name, Prog: p, Form: src, CoqFm: fmt.Sprintf("(FDirect %d)", idx), Decls: p.Decls}
}

func fixedShapes() []shape {
	H, I, G := L.Hook(), L.Inc(), L.GInc()
	rec := L.Recover()
	return []shape{
		callShape("straight", 0, L.B(H, G, H, G, H)),
		callShape("nested calls", 2, L.B(H, G, L.Call(1, L.Same()), H), L.B(G, H, L.IfPos(L.Call(1, L.Dec())), H, G)),
		callShape("loop", 0, L.B(L.For3(5, H, G), H)),
		callShape("long loop (steady phase)", 0, L.B(L.ForLt(30, G, H, I), H)),
		callShape("long loop in callee", 0, L.B(H, L.Call(1, L.Const(0)), H), L.B(L.ForLt(40, G, I), H, G, H)),
		callShape("callee of a steady-phase loop", 0, L.B(L.ForLt(40, G, I, L.IfMod(10, 5, L.B(L.Call(1, L.Const(0))), nil)), H), L.B(G, H, H)),
		callShape("defer hook", 0, L.B(H, L.DeferHook(), H, G)),
		callShape("defer closure", 0, L.B(H, L.DeferFunc(L.Same(), G, H, G), H, G, H)),
		callShape("two defers", 0, L.B(L.DeferFunc(L.Const(1), H, G), H, L.DeferFunc(L.Const(2), G, H, H), H)),
		callShape("defer + recover", 0, L.B(L.DeferFunc(L.Same(), rec, H, G), H, G, H)),
		callShape("recover in caller", 0, L.B(L.DeferFunc(L.Same(), rec, G), H, L.Call(1, L.Const(0)), H), L.B(L.DeferFunc(L.Same(), H, G), H, G, H)),
		callShape("recover and re-panic", 0, L.B(L.DeferFunc(L.Same(), H, rec, L.Panic()), H, G, H)),
		callShape("recover and re-panic, outer recover", 0, L.B(L.DeferFunc(L.Same(), rec, H), L.Call(1, L.Const(0)), H), L.B(L.DeferFunc(L.Same(), rec, G, L.Panic()), H, G, H)),
		callShape("panic inside deferred call", 0, L.B(L.DeferFunc(L.Same(), H, G, H), L.DeferFunc(L.Same(), G, H), H)),
		callShape("interpreted panic, deferred hooks", 0, L.B(L.DeferFunc(L.Same(), H, G), L.DeferHook(), H, L.Panic(), H)),
		callShape("interpreted panic inside deferred call", 0, L.B(L.DeferFunc(L.Same(), H), L.DeferFunc(L.Same(), G, L.Panic()), H, G)),
		callShape("defers in loop", 0, L.B(L.For3(4, L.DeferFunc(L.Same(), H, G), H), H)),
		callShape("many defers (steady phase)", 0, L.B(L.ForLt(24, L.DeferHook(), G, I, H), H)),
		callShape("defer in deep recursion", 4, L.B(L.DeferFunc(L.Same(), G, H), H, L.IfPos(L.Call(0, L.Dec())), H)),
		callShape("nested deferred closures", 0, L.B(L.DeferFunc(L.Same(), H, L.DeferFunc(L.Same(), rec, G, H), H, G), H, G)),
		callShape("deferred named function with defers", 0, L.B(L.DeferCall(1, L.Const(1)), H, G), L.B(L.DeferHook(), H, L.IfPos(L.Call(1, L.Dec())), G)),
		callShape("recover outside deferred call (no effect)", 0, L.B(rec, H, L.DeferFunc(L.Same(), L.Call(1, L.Const(0)), H), H), L.B(rec, G)),
		callShape("return in loop", 0, L.B(L.DeferHook(), L.Forever(I, H, L.IfMod(4, 3, L.B(L.Ret()), nil), G))),
		directShape("top-level block", L.B(H, G, H)),
		directShape("top-level block with defers", L.B(L.DeferFunc(L.Const(0), G, H), H, L.DeferHook(), G, H)),
		directShape("top-level block, recover", L.B(L.DeferFunc(L.Const(0), rec, H), H, G, H)),
		directShape("top-level block, interpreted panic", L.B(L.DeferFunc(L.Const(0), G, H), H, L.Panic())),
		directShape("top-level loop calling functions", L.B(L.ForLt(6, L.Call(0, L.Same()), I, H)), L.B(L.DeferFunc(L.Same(), H), G, L.IfMod(2, 1, L.B(H), L.B(G, G)))),
		directShape("top-level long loop", L.B(L.ForLt(50, G, I), H, L.Call(0, L.Const(0)), H), L.B(H, G)),
	}
}

func randomShapes(rng *vh.Rng, n int) []shape {
	H, I, G := L.Hook(), L.Inc(), L.GInc()
	var out []shape
	for r := 0; r < n; r++ {
		nf := 2 + rng.Intn(2)
		var body func(f, depth int) []L.Stmt
		body = func(f, depth int) []L.Stmt {
			var ss []L.Stmt
			m := 2 + rng.Intn(4)
			for i := 0; i < m; i++ {
				switch x := rng.Intn(14); {
				case x < 4:
					ss = append(ss, H)
				case x < 6:
					ss = append(ss, G)
				case x < 7 && f+1 < nf:
					ss = append(ss, L.Call(f+1, []L.Arg{L.Same(), L.Const(rng.Intn(3))}[rng.Intn(2)])) // n-1 only under `if n > 0`: the model's counters are naturals
				case x < 8:
					ss = append(ss, L.IfPos(L.Call(f, L.Dec())))
				case x < 9:
					ss = append(ss, L.DeferHook())
				case x < 11 && depth < 2:
					inner := body(f, depth+1)
					if rng.Chance(1, 3) {
						inner = append([]L.Stmt{L.Recover()}, inner...)
					}
					if rng.Chance(1, 5) {
						inner = append(inner, L.Panic())
					}
					ss = append(ss, L.DeferFunc(L.Same(), inner...))
				case x < 12 && depth < 2:
					mm := 2 + rng.Intn(3)
					var els []L.Stmt
					if rng.Bool() {
						els = body(f, depth+1)
					}
					ss = append(ss, L.IfMod(mm, rng.Intn(mm), body(f, depth+1), els))
				case x < 13 && depth == 0:
					ss = append(ss, L.ForLt(2+rng.Intn(20), G, H, I))
				default:
					ss = append(ss, H)
				}
			}
			return ss
		}
		var funcs [][]L.Stmt
		for f := 0; f < nf; f++ {
			funcs = append(funcs, body(f, 0))
		}
		if rng.Chance(1, 6) {
			funcs[nf-1] = append(funcs[nf-1], L.Panic())
		}
		sh := callShape(fmt.Sprintf("random#%d", r), rng.Intn(3), funcs...)
		if divergent(funcs) {
			// not a probe: unbounded recursion (compiled Go would overflow its stack as well).  Such programs used to be
			// dropped only after running them (hook-call budget "runaway"), but a deferred closure that recovers the
			// runaway panic and recurses again overflows the 1 GB Go stack of the harness process (fatal, not recoverable).
			skippedDivergent++
			continue
		}
		out = append(out, sh)
	}
	return out
}

var skippedDivergent int

// divergent: some function re-raises its own parameter with `for n < C { ...; n++ }` (C >= 2) and AFTERWARDS reaches a
// self-call `if n > 0 { fK(n-1) }` (directly, under an if, or inside a deferred closure whose argument n is evaluated
// after the loop): every activation then starts another one.
func divergent(funcs [][]L.Stmt) bool {
	var selfCall func(s L.Stmt, f int) bool
	selfCall = func(s L.Stmt, f int) bool {
		if s.Op == "call" && s.F == f {
			return true
		}
		for _, b := range s.Body {
			if selfCall(b, f) {
				return true
			}
		}
		for _, b := range s.Else {
			if selfCall(b, f) {
				return true
			}
		}
		return false
	}
	for f, body := range funcs {
		loop := false
		for _, s := range body {
			if s.Op == "forlt" {
				loop = true
			} else if loop && selfCall(s, f) {
				return true
			}
		}
	}
	return false
}

type stepIn struct {
	Form  string `json:"form"`
	K     int    `json:"k"`
	Fault string `json:"fault"`
}
type caseIn struct {
	Shape string   `json:"shape"`
	Decls []string `json:"decls"`
	Steps []stepIn `json:"steps"`
}

func mkProbe(sh shape) *L.Probe {
	pr := L.NewProbe()
	for i := len(sh.Decls) - 1; i >= 0; i-- {
		pr.Ir.Eval(sh.Decls[i])
	}
	return pr
}

// direct oracle: fields that must be restored (everything the hook exposes except Interrupt / Panic / InstallDefer /
// pool size / top-level IP, which are always written before they are read)
func snapDiff(a, b L.Snap) []string {
	var out []string
	chk := func(name string, x, y interface{}) {
		if x != y {
			out = append(out, fmt.Sprintf("%s: before=%v after=%v", name, x, y))
		}
	}
	chk("ExecFlags", a.ExecFlags, b.ExecFlags)
	chk("Signals.Sync", a.Sync, b.Sync)
	chk("Signals.Debug", a.Debug, b.Debug)
	chk("Signals.Async", a.Async, b.Async)
	chk("CurrEnv==nil", a.CurrEnvNil, b.CurrEnvNil)
	chk("CurrEnv==top", a.CurrEnvIsTop, b.CurrEnvIsTop)
	chk("InstallDefer==nil", a.InstallNil, b.InstallNil)
	chk("DeferOfFun==nil", a.DeferOfFunNil, b.DeferOfFunNil)
	chk("PanicFun==nil", a.PanicFunNil, b.PanicFunNil)
	chk("DebugDepth", a.DebugDepth, b.DebugDepth)
	chk("CallDepth", a.CallDepth, b.CallDepth)
	return out
}

func coqSnap(s L.Snap) string {
	return fmt.Sprintf("(mkSnap %d %d %s %s %s %s %s %s %s %d)", s.ExecFlags, s.Sync, vh.CoqBool(s.Debug != 0), vh.CoqBool(s.Async != 0),
		vh.CoqBool(s.CurrEnvNil), vh.CoqBool(s.InterruptNil), vh.CoqBool(s.DeferOfFunNil), vh.CoqBool(s.PanicFunNil), vh.CoqBool(s.PanicNil), s.DebugDepth)
}

var outCode = map[string]int{"": 0, "hook": 1, "interp": 2, "interrupt": 3}

func coqFault(f string) string {
	switch f {
	case "panic":
		return "FPanic"
	case "interrupt":
		return "FInterrupt"
	}
	return "FNone"
}

// corpus: exact histories of past findings; each file {key, evals:[src...], check: src, want: rendered value}
func runCorpus(rep *vh.Report) {
	dir := filepath.Join(os.Getenv("VERIF_DIR"), "corpus", "C12")
	files, _ := filepath.Glob(filepath.Join(dir, "*.json"))
	sort.Strings(files)
	for _, f := range files {
		var c struct {
			Key   string   `json:"key"`
			Evals []string `json:"evals"`
			Check string   `json:"check"`
			Want  string   `json:"want"`
		}
		b, err := os.ReadFile(f)
		if err != nil || json.Unmarshal(b, &c) != nil {
			rep.Fail(vh.Failure{Key: "corpus:unreadable:" + f, What: "corpus file unreadable"})
			continue
		}
		pr := L.NewProbe()
		for _, src := range c.Evals {
			pr.Eval(src)
		}
		got, pk := pr.Eval(c.Check)
		if got != c.Want || pk != "" {
			rep.Fail(vh.Failure{Key: c.Key, What: "corpus history: later evaluation differs from what Go / a fresh interpreter gives", Input: c, Got: got + "|" + pk, Want: c.Want})
		}
		rep.Count("corpus:"+c.Key, true)
		rep.Dist("corpus")
	}
}

func main() {
	a := vh.ParseArgs()
	rng := vh.NewRng(a.Seed)
	nRandom := 40
	if a.Thorough() {
		nRandom = 400
	}
	if a.N > 0 {
		nRandom = a.N
	}
	rep := vh.NewReport(a, fmt.Sprintf("corpus/C12 histories first; 29 fixed probe programs (straight code, nested/recursive calls, loops running past the 70-statement prologue, "+
		"defer of compiled hook / closure / named function, recover, recover-and-repanic, panics inside deferred calls, interpreted panics, top-level blocks with defers) + %d PRNG programs (those whose static shape recurses without bound - a self-call after a loop that re-raises the parameter - or whose undisturbed run makes > 400 hook calls are not probes); "+
		"for each program N = hook calls of the undisturbed run, then for EVERY k in 1..N a fresh interpreter whose hook panics at its k-th call (k=0: no injected fault), followed by a second evaluation "+
		"of the same form with a PRNG k2 in the same interpreter; observed per evaluation: panic class, later hook calls, successful recover() calls, global x, fast.VerifRunState; "+
		"after each history a 22-evaluation defer/recover/closure battery is compared with an interpreter that saw only the definitions; "+
		"a case is non-trivial when at least one evaluation of the history was aborted by an escaping panic; distinct by SHA-256 of (program source, k, k2). "+
		"Session stream: PRNG sessions of 7..16 inputs (assignments, multi-line function declarations, calls, recovered panics, blank/comment inputs, special commands :debug/:inspect/:help/:copyright/:package/:unload/:quit; "+
		"aborted inputs: 10 kinds of run-time panic, panics after side effects, panics in deferred calls, during another panic, compile and parse errors - each also inside :debug, and :inspect with and without an inspector) "+
		"fed through EvalReader / EvalFile / Repl / a ReadParseEvalPrint loop over a line-by-line Readline / ParseEvalPrint per input, OptTrapPanic set, 4 option sets; oracle: the rec(input, value) log equals that of a fresh interpreter "+
		"given one Eval per successful input (side effects before the panic for aborted ones), Run record and battery as above; non-trivial = at least one aborted input. "+
		"Debugger stream: OptDebugger + scripted debugger; the 29 fixed programs + the first 8 (thorough 60) PRNG programs, every k in 1..min(N,12) and k=N (thorough min(N,400)): the form is run with Interp.Debug and as plain Eval of { \"break\"; form } "+
		"answered with Step at every callback / Step at the first j (PRNG) callbacks then Continue, the hook panics at its k-th call; oracle: outcome equals the undebugged faulted evaluation, a later plain Eval of the compiled dsnap() sees debugger mode off while it runs, "+
		"debugger never called back by later plain evaluations and the battery, battery and Run record as above; non-trivial = aborted by a panic while single-step mode was on", nRandom))
	wd := vh.NewWatchdog(rep, 180*time.Second) // generous: the machine may be heavily loaded; a real hang is still reported
	cw := vh.NewCases(a, "From Coq Require Import List Arith ZArith.\nFrom Verif Require Import C13.Model C12.Model.\nImport ListNotations.", "case", "mismatches", 400)
	runCorpus(rep)

	idx := 0
	escaped := 0
	all := append(fixedShapes(), randomShapes(rng, nRandom)...)
	for _, sh := range all {
		wantBattery := mkProbe(sh).RunBattery()
		// undisturbed run: N
		pr0 := mkProbe(sh)
		pr0.Runaway = 3000
		pr0.Arm(0, "")
		pr0.Eval("x = 0; n = 0")
		_, pk0 := pr0.Eval(sh.Form)
		N := pr0.Calls
		if pk0 == "runaway" || N > 400 {
			continue // PRNG program that does not terminate quickly: not a probe
		}
		coqProg := sh.Prog.CoqProg()
		src := strings.Join(sh.Decls, " ; ") + " ;; " + sh.Form
		for k := 0; k <= N; k++ {
			k2 := rng.Intn(N + 1)
			in := caseIn{Shape: sh.Name, Decls: sh.Decls, Steps: []stepIn{{sh.Form, k, "panic"}, {sh.Form, k2, "panic"}}}
			wd.Beat(in)
			key := fmt.Sprintf("%s|k=%d,%d", src, k, k2)
			fail := func(what string, got, want interface{}) {
				rep.Fail(vh.Failure{Key: key, What: what, Input: in, Got: got, Want: want})
			}
			pr := mkProbe(sh)
			pr.Runaway = 3000
			var csteps []string
			aborted := false
			for si, st := range in.Steps {
				pr.Arm(0, "")
				pr.Eval("x = 0; n = 0")
				before := pr.Snapshot()
				pr.Arm(st.K, st.Fault)
				_, pk := pr.Eval(st.Form)
				later, notes := pr.Later, pr.Notes
				after := pr.Snapshot()
				pr.Arm(0, "")
				xs, _ := pr.Eval("x")
				var x int
				fmt.Sscan(xs, &x)
				// ---- direct oracle
				code, known := outCode[pk]
				if !known || pk == "interrupt" {
					fail(fmt.Sprintf("evaluation %d ended with an unexpected panic", si), pk, "none | hook | interp")
					code = 99
				}
				if pk != "" {
					aborted = true
				}
				if d := snapDiff(before, after); len(d) > 0 {
					fail(fmt.Sprintf("Run record after evaluation %d (panic class %q) differs from the record before it", si, pk), d, nil)
				}
				csteps = append(csteps, fmt.Sprintf("mkStep %s %d %s %d %d %d %d %s", sh.CoqFm, st.K, coqFault(st.Fault), code, later, notes, x, coqSnap(after)))
				rep.Dist("outcome:" + pk)
				if !after.InterruptNil {
					rep.Dist("stale Run.Interrupt (benign)")
				}
			}
			got := pr.RunBattery()
			for i := range got {
				if got[i] != wantBattery[i] {
					fail("battery evaluation differs from the interpreter that saw only the definitions: "+L.Battery[i], got[i], wantBattery[i])
					break
				}
			}
			cw.Add(fmt.Sprintf("mkCase %d %s %s", idx, coqProg, vh.CoqList(csteps, "step")))
			rep.CaseInput(idx, in)
			rep.Count(key, aborted)
			if aborted {
				escaped++
			}
			rep.Dist("shape:" + strings.SplitN(sh.Name, "#", 2)[0])
			if idx%211 == 7 {
				rep.Sample(in)
			}
			idx++
		}
	}
	cw.Close()
	nSess := 60
	if a.Thorough() {
		nSess = 1500
	}
	sessionStream(a, rng.Fork(), rep, wd, nSess)
	// debugger stream (debug.go): own PRNG so that the streams above keep their seeds
	nDbgRandom := 8
	if a.Thorough() {
		nDbgRandom = 60
	}
	if len(all) < 29+nDbgRandom {
		nDbgRandom = len(all) - 29
	}
	debugStream(a, vh.NewRng(a.Seed*7919+12), rep, wd, all[:29+nDbgRandom])
	rep.Extra["histories_with_escaping_panic"] = escaped
	rep.Extra["prng_programs_skipped_unbounded_recursion"] = skippedDivergent
	rep.Write()
}

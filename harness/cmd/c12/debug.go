// Debugger stream of c12: evaluations that are being single-stepped when a panic aborts them.
//
// The interpreter has OptDebugger set and a scripted debugger installed.  For every probe program and EVERY k in 1..N
// the compiled hook panics at its k-th call while the form is evaluated
//   - with Interp.Debug (single-stepping from the first statement), or
//   - with a plain Interp.Eval of `{ "break"; form }` whose breakpoint callback is answered by the script.
//
// Scripts: Step at every callback; Step at the first j callbacks (PRNG j) and Continue afterwards.
// Direct oracle ("debugger mode ... restored", "later evaluations are unaffected"):
//   - panic class, later hook calls, recover() notes and the global x of the debugged evaluation equal those of the
//     same faulted evaluation run WITHOUT the debugger in another interpreter (single-stepping is transparent);
//   - afterwards a plain Eval calls the compiled function dsnap(), which records the Run record WHILE that evaluation
//     runs: Signals.Debug, DebugDepth and the debug bit of ExecFlags must be off, and the debugger must not be called;
//   - the 22-evaluation battery equals that of an interpreter with the same options that saw only the definitions, the
//     debugger is never called during it, and the Run record after it equals the idle record.
package main

import (
	"fmt"
	"strings"

	"github.com/cosmos72/gomacro/base"
	"github.com/cosmos72/gomacro/fast"

	L "verifh/c13lib"
	"verifh/vh"
)

type scriptDbg struct {
	calls int // callbacks since reset
	steps int // answer Step to the first `steps` callbacks (<0: to all of them), Continue afterwards
}

func (d *scriptDbg) answer() fast.DebugOp {
	d.calls++
	if d.steps < 0 || d.calls <= d.steps {
		return fast.DebugOpStep
	}
	return fast.DebugOpContinue
}
func (d *scriptDbg) Breakpoint(ir *fast.Interp, env *fast.Env) fast.DebugOp { return d.answer() }
func (d *scriptDbg) At(ir *fast.Interp, env *fast.Env) fast.DebugOp         { return d.answer() }

type dbgIn struct {
	Shape  string   `json:"shape"`
	Decls  []string `json:"decls"`
	Form   string   `json:"form"`
	How    string   `json:"how"`    // "Interp.Debug" | "Eval, breakpoint"
	Script string   `json:"script"` // debugger answers
	K      int      `json:"k"`
	Then   []string `json:"then"`
}

type dbgProbe struct {
	*L.Probe
	dbg  *scriptDbg
	mid  *L.Snap
	midN int
}

func mkDbgProbe(sh shape, debugger bool) *dbgProbe {
	p := &dbgProbe{Probe: L.NewProbe(), dbg: &scriptDbg{}}
	if debugger {
		p.Ir.Comp.Globals.Options |= base.OptDebugger
		p.Ir.SetDebugger(p.dbg)
	}
	p.Ir.DeclFunc("dsnap", func() {
		s := p.Snapshot()
		p.mid = &s
		p.midN++
	})
	for i := len(sh.Decls) - 1; i >= 0; i-- {
		p.Ir.Eval(sh.Decls[i])
	}
	return p
}

// debugEval: like Probe.Eval but through Interp.Debug
func (p *dbgProbe) debugEval(src string) (pk string) {
	defer func() {
		if r := recover(); r != nil {
			pk = L.ClassifyPanic(r)
		}
	}()
	p.Ir.Debug(src)
	return ""
}

func debugStream(a *vh.Args, rng *vh.Rng, rep *vh.Report, wd *vh.Watchdog, shapes []shape) {
	maxK := 12
	if a.Thorough() {
		maxK = 400
	}
	abortedStepping := 0
	for _, sh := range shapes {
		idle := mkDbgProbe(sh, true)
		wantBattery := idle.RunBattery()
		if idle.dbg.calls != 0 {
			rep.Fail(vh.Failure{Key: "debug|battery|" + sh.Name, What: "debugger called by the battery of an interpreter that saw only the definitions", Got: idle.dbg.calls, Want: 0})
		}
		idleSnap := idle.Snapshot()
		// undisturbed run without debugger: N
		pr0 := mkDbgProbe(sh, false)
		pr0.Runaway = 3000
		pr0.Arm(0, "")
		pr0.Eval("x = 0; n = 0")
		_, pk0 := pr0.Eval(sh.Form)
		N := pr0.Calls
		if pk0 == "runaway" || N > 400 {
			continue
		}
		src := strings.Join(sh.Decls, " ; ") + " ;; " + sh.Form
		for k := 1; k <= N; k++ {
			if k > maxK && k != N {
				continue
			}
			// reference: the same faulted evaluation without any debugger
			ref := mkDbgProbe(sh, false)
			ref.Runaway = 3000
			ref.Eval("x = 0; n = 0")
			ref.Arm(k, "panic")
			_, refPk := ref.Eval(sh.Form)
			refLater, refNotes := ref.Later, ref.Notes
			ref.Arm(0, "")
			refX, _ := ref.Eval("x")

			for hi, how := range []string{"Interp.Debug", "Eval, breakpoint"} {
				for _, steps := range []int{-1, 1 + rng.Intn(3*k+4)} {
					if steps >= 0 && !a.Thorough() && hi != k%2 {
						continue // quick: the partial script alternates between the two ways of starting
					}
					script := "Step at every callback"
					if steps >= 0 {
						script = fmt.Sprintf("Step at the first %d callbacks, then Continue", steps)
					}
					then := []string{"dsnap()", "x", "<battery>"}
					in := dbgIn{Shape: sh.Name, Decls: sh.Decls, Form: sh.Form, How: how, Script: script, K: k, Then: then}
					wd.Beat(in)
					key := fmt.Sprintf("debug|%s|%s|%s|k=%d", how, script, src, k)
					fail := func(what string, got, want interface{}) {
						rep.Fail(vh.Failure{Key: key, What: what, Input: in, Got: got, Want: want})
					}
					pr := mkDbgProbe(sh, true)
					pr.Runaway = 3000
					pr.Eval("x = 0; n = 0")
					pr.dbg.calls, pr.dbg.steps = 0, steps
					pr.Arm(k, "panic")
					var pk string
					if how == "Interp.Debug" {
						pk = pr.debugEval(sh.Form)
					} else {
						_, pk = pr.Eval(`{ "break"; ` + sh.Form + ` }`)
					}
					later, notes := pr.Later, pr.Notes
					callbacks := pr.dbg.calls
					after := pr.Snapshot()
					stepping := after.Debug != 0 // single-step mode was on when the evaluation ended
					if callbacks == 0 {
						fail("the scripted debugger was never called by the debugged evaluation", callbacks, ">0")
					}
					// from here on the debugger must not be called at all (if it is, it keeps answering Step)
					pr.dbg.calls, pr.dbg.steps = 0, -1
					pr.Arm(0, "")
					pr.mid, pr.midN = nil, 0
					_, pk2 := pr.Eval("dsnap()")
					xs, _ := pr.Eval("x")
					if pk != refPk || later != refLater || notes != refNotes || xs != refX {
						fail("debugged evaluation differs from the same faulted evaluation without debugger",
							fmt.Sprintf("panic=%q later=%d notes=%d x=%s", pk, later, notes, xs), fmt.Sprintf("panic=%q later=%d notes=%d x=%s", refPk, refLater, refNotes, refX))
					}
					if pk2 != "" || pr.midN != 1 {
						fail("plain evaluation dsnap() after the aborted debugged evaluation failed", fmt.Sprintf("panic=%q calls=%d", pk2, pr.midN), "one call, no panic")
					} else if m := *pr.mid; m.Debug != 0 || m.DebugDepth != 0 || m.ExecFlags&4 != 0 {
						fail("debugger mode still on while a LATER plain evaluation runs", fmt.Sprintf("Signals.Debug=%d DebugDepth=%d ExecFlags=%d", m.Debug, m.DebugDepth, m.ExecFlags), "Signals.Debug=0 DebugDepth=0 ExecFlags&EFDebug=0")
					}
					if pr.dbg.calls != 0 {
						fail("debugger called back during later plain evaluations (dsnap() ; x)", pr.dbg.calls, 0)
					}
					pr.dbg.calls = 0
					got := pr.RunBattery()
					for i := range got {
						if got[i] != wantBattery[i] {
							fail("battery evaluation differs from the interpreter that saw only the definitions: "+L.Battery[i], got[i], wantBattery[i])
							break
						}
					}
					if pr.dbg.calls != 0 {
						fail("debugger called back during the battery of plain evaluations", pr.dbg.calls, 0)
					}
					if d := snapDiff(idleSnap, pr.Snapshot()); len(d) > 0 {
						fail("Run record after the battery differs from the idle record of an interpreter that saw only the definitions", d, nil)
					}
					nontrivial := pk != "" && stepping
					if nontrivial {
						abortedStepping++
					}
					rep.Count(key, nontrivial)
					rep.Dist("debug:" + how)
					if pk != "" {
						rep.Dist(fmt.Sprintf("debug:aborted,stepping=%v", stepping))
					}
				}
			}
		}
	}
	rep.Extra["debug_histories_aborted_while_single_stepping"] = abortedStepping
}

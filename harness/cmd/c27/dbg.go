// dbg.go — part C of c27: positions reported at DEBUGGER STOPS.
//
// Random programs (top-level declarations and statements, functions with nested blocks, if/else, for, switch,
// closures, deferred closures; branches whose condition is a compile-time constant - `if false`, `if cF`, `else` of
// `if true`, `for false`, `switch { case cF: }` - with non-empty bodies that the compiler drops; runtime-dead
// branches; token-less filler lines, comments spanning lines, CRLF) are evaluated through Interp.EvalReader /
// EvalFile (optionally after an earlier source on the same interpreter) with OptDebugger set and the STOCK debugger
// (fast/debug.Debugger) driven through its prompt by a script of step / next / finish / continue commands; stops
// start at `"break"` / `_ = "break"` statements.  Every position the debugger prints
// ("// stopped at FILE:LINE:COL IP=...") is recorded.
//
// Direct oracle (true positions computed from the source text only): every simple statement contains calls
// t(K) of a compiled function that logs K.  The statement the debugger announces at a stop is the one that runs next,
// so for a stop at P followed (before the next stop) by the log entries K1..Kn:
//
//	P is the start of a token (go/scanner on the input) that lies inside the extent of the statement (for compound
//	statements: the header) that textually contains t(K1);
//
// and for every stop: the file name is the one given to the interpreter, LINE:COL is the start of a token of the
// input, and that token does not lie in a branch that is never executed (constant-false or runtime-dead).
package main

import (
	"encoding/json"
	"fmt"
	"go/scanner"
	"go/token"
	"io"
	"os"
	"path/filepath"
	"regexp"
	"strconv"
	"strings"

	"github.com/cosmos72/gomacro/base"
	"github.com/cosmos72/gomacro/fast"
	"github.com/cosmos72/gomacro/fast/debug"
	"verifh/vh"
)

// ---------------------------------------------------------------- program generator

type dbgProg struct {
	Mode   string   `json:"mode"` // reader | file
	Before string   `json:"before,omitempty"`
	Text   string   `json:"text"`
	Script []string `json:"script"` // debugger commands, then "step" for ever
	// byte extents in Text, computed by the generator (corpus files may give DeadLines instead of Dead)
	Hdrs      []dbgHdr `json:"statements,omitempty"`
	Dead      [][2]int `json:"never_executed,omitempty"`
	Funcs     [][2]int `json:"functions,omitempty"`
	DeadLines [][2]int `json:"never_executed_lines,omitempty"` // 1-based, inclusive
	Key       string   `json:"key,omitempty"`                  // corpus: failure key (known finding)
	// Defer (corpus files only): the exact input of a finding that is not yet registered in known_findings.json; while its
	// key is not registered a failure is listed in report.json extra "deferred_corpus_failures" instead of being failed
	Defer bool `json:"defer_until_registered,omitempty"`
	nDrop int  // statements in constant-false branches
}

// dbgHdr: the extent of one statement (compound statements: of its header) and the markers t(K) it contains
type dbgHdr struct {
	Start int   `json:"start"`
	End   int   `json:"end"`
	Marks []int `json:"t"`
}

type dgen struct {
	r      *vh.Rng
	g      *gen // filler / comments of part A
	sb     strings.Builder
	nl     string
	k      int
	hdrs   []dbgHdr
	funcs  [][2]int
	dead   [][2]int
	nvar   int
	funs   []string
	pfx    string
	open   []int // markers created inside the statement header being written
	nDrop  int
	inDead int
}

func (d *dgen) w(s string) { d.sb.WriteString(s) }

// t: a marker call; belongs to the header that is currently being written
func (d *dgen) t() string {
	d.k++
	d.open = append(d.open, d.k)
	return fmt.Sprintf("t(%d)", d.k)
}

// header writes the text produced by f as one statement header: all markers created by f get its extent
func (d *dgen) header(f func()) {
	saved := d.open
	d.open = nil
	start := d.sb.Len()
	f()
	end := d.sb.Len()
	d.hdrs = append(d.hdrs, dbgHdr{start, end, d.open})
	d.open = saved
}

func (d *dgen) indent(depth int) {
	for k := d.r.Intn(3); k > 0; k-- {
		f := d.g.filler()
		for depth > 0 && strings.Contains(f, "\u00a0") { // U+00A0 is token-less only between top-level chunks
			f = d.g.filler()
		}
		d.w(f)
	}
	d.w(strings.Repeat("\t", depth))
	if d.r.Chance(1, 6) {
		d.w(d.g.prefix())
	}
}

func (d *dgen) eol() {
	if d.r.Chance(1, 6) {
		d.w(d.g.suffix())
	}
	d.w(d.nl)
}

func (d *dgen) newVar() string { d.nvar++; return fmt.Sprintf("%sv%d", d.pfx, d.nvar) }

// simple writes one simple statement (with its line); vars = int variables in scope
func (d *dgen) simple(depth int, vars *[]string, inFunc bool) {
	d.indent(depth)
	if d.inDead > 0 {
		d.nDrop++
	}
	d.header(func() {
		pickVar := func() string {
			if len(*vars) == 0 {
				return d.pfx + "g0"
			}
			return (*vars)[d.r.Intn(len(*vars))]
		}
		switch x := d.r.Intn(13); x {
		case 0:
			d.w(d.t())
		case 1:
			v := d.newVar()
			if inFunc {
				d.w(v + " := " + d.t())
			} else {
				d.w("var " + v + " = " + d.t())
			}
			*vars = append(*vars, v)
		case 2:
			v := pickVar()
			d.w(v + " = " + v + " + " + d.t())
		case 3:
			d.w(d.pfx + "g0 += " + d.t())
		case 4:
			v := d.newVar()
			d.w("var " + v + " int = " + d.t())
			*vars = append(*vars, v)
		case 5:
			v := d.newVar()
			d.w("var " + v + " = " + d.t() + " * 2")
			*vars = append(*vars, v)
		case 6:
			v1, v2 := d.newVar(), d.newVar()
			if inFunc {
				d.w(v1 + ", " + v2 + " := " + d.t() + ", " + d.t())
			} else {
				d.w("var " + v1 + ", " + v2 + " = " + d.t() + ", " + d.t())
			}
			*vars = append(*vars, v1, v2)
		case 7:
			d.w("_ = " + d.t())
		case 8: // a statement continued on the next line
			v := pickVar()
			d.w(v + " = " + d.t() + " +" + d.nl + strings.Repeat("\t", depth+2) + d.t())
		case 9: // call of an interpreted function declared earlier: stepping enters it
			if len(d.funs) > 0 && d.inDead == 0 {
				d.w(d.funs[d.r.Intn(len(d.funs))] + "(" + d.t() + ")")
			} else {
				d.w(d.t())
			}
		case 10:
			v := pickVar()
			d.w(v + "++")
		case 11: // breakpoint
			if d.r.Bool() {
				d.w(`_ = "break"`)
			} else {
				d.w(`"break"`)
			}
		default:
			v := pickVar()
			d.w(v + " -= " + d.t() + " / 2")
		}
	})
	d.eol()
}

// deadBlock writes `{ body }` whose statements are never executed
func (d *dgen) block(depth int, vars []string, inFunc, dead bool, budget *int) {
	d.w("{")
	d.eol()
	start := d.sb.Len()
	if dead {
		d.inDead++
	}
	scope := append([]string{}, vars...)
	n := 1 + d.r.Intn(3)
	d.stmts(depth+1, n, &scope, inFunc, budget)
	if dead {
		d.inDead--
		d.dead = append(d.dead, [2]int{start, d.sb.Len()})
	}
	d.indent0(depth)
	d.w("}")
}

func (d *dgen) indent0(depth int) { d.w(strings.Repeat("\t", depth)) }

var constFalse = []string{"false", "%scF", "!%scT", "1 > 2", "%scF && %scT", "%scN < 0"}
var constTrue = []string{"true", "%scT", "!%scF", "2 > 1", "%scN == 3"}

func (d *dgen) cexpr(l []string) string {
	return strings.ReplaceAll(l[d.r.Intn(len(l))], "%s", d.pfx)
}

func (d *dgen) stmts(depth, n int, vars *[]string, inFunc bool, budget *int) {
	for i := 0; i < n; i++ {
		*budget--
		if depth == 0 {
			d.w("t(0)" + d.nl) // evaluation boundary in the log
		}
		if *budget < 0 || depth > 4 || d.r.Chance(3, 5) {
			d.simple(depth, vars, inFunc)
			continue
		}
		d.indent(depth)
		switch x := d.r.Intn(14); x {
		case 0, 1: // constant-false if (dropped by the compiler), optionally with a live else
			d.w("if " + d.cexpr(constFalse) + " ")
			d.block(depth, *vars, inFunc, true, budget)
			if d.r.Bool() {
				d.w(" else ")
				d.block(depth, *vars, inFunc, false, budget)
			}
		case 2: // constant-true if with a dropped else
			d.w("if " + d.cexpr(constTrue) + " ")
			d.block(depth, *vars, inFunc, false, budget)
			d.w(" else ")
			d.block(depth, *vars, inFunc, true, budget)
		case 3: // constant-false loop
			d.w("for " + d.cexpr(constFalse) + " ")
			d.block(depth, *vars, inFunc, true, budget)
		case 4: // taken if (marker in the condition), runtime-dead else
			d.header(func() { d.w("if " + d.t() + " > 0 ") })
			d.block(depth, *vars, inFunc, false, budget)
			if d.r.Bool() {
				d.w(" else ")
				d.block(depth, *vars, inFunc, true, budget)
			}
		case 5: // not taken if, live else
			d.header(func() { d.w("if " + d.t() + " < 0 ") })
			d.block(depth, *vars, inFunc, true, budget)
			d.w(" else ")
			d.block(depth, *vars, inFunc, false, budget)
		case 6: // if / else if chain with a constant-false first condition
			d.w("if " + d.cexpr(constFalse) + " ")
			d.block(depth, *vars, inFunc, true, budget)
			d.w(" else ")
			d.header(func() { d.w("if " + d.t() + " > 0 ") })
			d.block(depth, *vars, inFunc, false, budget)
		case 7: // counted loop
			i := d.newVar()
			d.w(fmt.Sprintf("for %s := 0; %s < %d; %s++ ", i, i, 1+d.r.Intn(2), i))
			d.block(depth, *vars, inFunc, false, budget)
		case 8: // plain block
			d.block(depth, *vars, inFunc, false, budget)
		case 9: // expression switch: exactly one live clause (t(K) returns K)
			var k int
			d.header(func() { d.w("switch " + d.t() + " % 2 {"); k = d.k })
			d.eol()
			for c := 0; c < 2; c++ {
				d.indent0(depth)
				d.w(fmt.Sprintf("case %d:", c))
				d.eol()
				start := d.sb.Len()
				deadc := c != k%2
				if deadc {
					d.inDead++
				}
				scope := append([]string{}, *vars...)
				d.stmts(depth+1, 1+d.r.Intn(2), &scope, inFunc, budget)
				if deadc {
					d.inDead--
					d.dead = append(d.dead, [2]int{start, d.sb.Len()})
				}
			}
			d.indent0(depth)
			d.w("}")
		case 10: // tagless switch with a constant-false clause
			d.w("switch {")
			d.eol()
			d.indent0(depth)
			d.w("case " + d.cexpr(constFalse) + ":")
			d.eol()
			start := d.sb.Len()
			d.inDead++
			scope := append([]string{}, *vars...)
			d.stmts(depth+1, 1+d.r.Intn(2), &scope, inFunc, budget)
			d.inDead--
			d.dead = append(d.dead, [2]int{start, d.sb.Len()})
			d.indent0(depth)
			d.w("default:")
			d.eol()
			scope = append([]string{}, *vars...)
			d.stmts(depth+1, 1+d.r.Intn(2), &scope, inFunc, budget)
			d.indent0(depth)
			d.w("}")
		case 11: // closure called in place
			cstart := d.sb.Len()
			if inFunc {
				d.w("func() ")
				d.block(depth, *vars, true, false, budget)
				d.funcs = append(d.funcs, [2]int{cstart, d.sb.Len()})
				d.w("()")
			} else { // a statement that starts with `func` is a declaration at top level
				d.w("(func() ")
				d.block(depth, *vars, true, false, budget)
				d.funcs = append(d.funcs, [2]int{cstart, d.sb.Len()})
				d.w(")()")
			}
		case 12: // deferred closure (functions only)
			if inFunc {
				cstart := d.sb.Len()
				d.w("defer func() ")
				d.block(depth, *vars, true, false, budget)
				d.funcs = append(d.funcs, [2]int{cstart, d.sb.Len()})
				d.w("()")
			} else {
				d.block(depth, *vars, inFunc, false, budget)
			}
		default: // constant-false if inside which a whole nested structure is dropped
			d.w("if " + d.cexpr(constFalse) + " ")
			d.block(depth, *vars, inFunc, true, budget)
		}
		d.eol()
	}
}

var dbgProgN int

func genDbgProg(r *vh.Rng) dbgProg {
	dbgProgN++
	g := &gen{r: r}
	if r.Chance(1, 4) {
		g.nl = "\r\n"
	} else {
		g.nl = "\n"
	}
	d := &dgen{r: r, g: g, nl: g.nl, pfx: fmt.Sprintf("d%d", dbgProgN)}
	p := dbgProg{Mode: []string{"reader", "reader", "file"}[r.Intn(3)]}
	if r.Chance(1, 3) {
		// an earlier source on the same interpreter (its own errors are not the subject here)
		p.Before = (&gen{r: r.Fork()}).source("reader").Text
	}
	for k := r.Intn(3); k > 0; k-- {
		d.w(g.filler())
	}
	d.w("var " + d.pfx + "g0 int" + d.nl)
	d.w("const " + d.pfx + "cF = false" + d.nl)
	d.w("const (" + d.nl + "\t" + d.pfx + "cT = true" + d.nl + "\t" + d.pfx + "cN = 3" + d.nl + ")" + d.nl)
	nfun := 1 + r.Intn(3)
	var top []string
	for f := 0; f < nfun; f++ {
		for k := r.Intn(3); k > 0; k-- {
			d.w(g.filler())
		}
		name := fmt.Sprintf("%sf%d", d.pfx, f)
		fstart := d.sb.Len()
		d.w("func " + name + "(n int) int {" + d.nl)
		vars := []string{"n"}
		budget := 3 + r.Intn(8)
		if r.Chance(3, 4) {
			d.w("\t" + `_ = "break"` + d.nl)
		}
		d.stmts(1, 2+r.Intn(5), &vars, true, &budget)
		d.indent(1)
		if r.Bool() {
			d.header(func() { d.w("return " + d.t() + " + n") })
		} else {
			d.w("return " + vars[r.Intn(len(vars))])
		}
		d.eol()
		d.w("}" + d.nl)
		d.funcs = append(d.funcs, [2]int{fstart, d.sb.Len()})
		d.funs = append(d.funs, name)
		// top-level code between the functions: calls and plain statements (also dropped branches at top level)
		if r.Chance(2, 3) {
			budget := 2 + r.Intn(4)
			d.stmts(0, 1+r.Intn(3), &top, false, &budget)
		}
		d.w("t(0)" + d.nl)
		d.indent(0)
		d.header(func() { d.w(name + "(" + d.t() + ")") })
		d.eol()
	}
	if r.Chance(1, 2) {
		budget := 2 + r.Intn(4)
		d.stmts(0, 1+r.Intn(3), &top, false, &budget)
	}
	if r.Chance(1, 5) {
		d.w(g.filler())
	}
	p.Text = d.sb.String()
	p.Hdrs, p.Dead, p.Funcs, p.nDrop = d.hdrs, d.dead, d.funcs, d.nDrop
	cmds := []string{"step", "step", "step", "step", "step", "step", "next", "next", "finish", "continue"}
	for k := r.Intn(40); k > 0; k-- {
		p.Script = append(p.Script, cmds[r.Intn(len(cmds))])
	}
	if r.Chance(1, 3) {
		p.Script = nil // single-step everything
	}
	return p
}

// ---------------------------------------------------------------- the scripted stock debugger

type dbgEvent struct {
	Stop       bool
	File       string
	Line, Col  int
	K          int    // exec: marker
	Cmd        string // stop: the command answered at the prompt
	Idx        int    // stop: index of that command in the script
	Breakpoint bool
}

type stockDriver struct {
	debug.Debugger
	script []string
	i      int
	events []dbgEvent
	limit  int
	bad    string
}

type lineReader struct{ cmd string }

func (l *lineReader) Read(prompt string) ([]byte, error) {
	if l.cmd == "" {
		return nil, io.EOF
	}
	c := l.cmd
	l.cmd = ""
	return []byte(c + "\n"), nil
}

var stopRx = regexp.MustCompile(`(?m)^// (breakpoint|stopped) at (.*):([0-9]+):([0-9]+) IP=`)

type dbgTooMany struct{}

func (s *stockDriver) cb(ir *fast.Interp, env *fast.Env, bp bool) fast.DebugOp {
	if len(s.events) > s.limit {
		panic(dbgTooMany{})
	}
	g := &ir.Comp.Globals
	saveR, saveO := g.Readline, g.Stdout
	cmd := "step"
	if s.i < len(s.script) {
		cmd = s.script[s.i]
	}
	rd := &lineReader{cmd: cmd}
	var out strings.Builder
	g.Readline, g.Stdout = rd, &out
	var op fast.DebugOp
	func() {
		defer func() { g.Readline, g.Stdout = saveR, saveO }()
		if bp {
			op = s.Debugger.Breakpoint(ir, env)
		} else {
			op = s.Debugger.At(ir, env)
		}
	}()
	if m := stopRx.FindStringSubmatch(out.String()); m != nil {
		line, _ := strconv.Atoi(m[3])
		col, _ := strconv.Atoi(m[4])
		s.events = append(s.events, dbgEvent{Stop: true, File: m[2], Line: line, Col: col, Breakpoint: bp, Cmd: cmd, Idx: s.i})
	} else if out.Len() != 0 && s.bad == "" && !strings.Contains(out.String(), " at IP=") {
		s.bad = out.String()
	}
	if rd.cmd == "" {
		s.i++ // one command consumed per prompt
	}
	return op
}
func (s *stockDriver) Breakpoint(ir *fast.Interp, env *fast.Env) fast.DebugOp {
	return s.cb(ir, env, true)
}
func (s *stockDriver) At(ir *fast.Interp, env *fast.Env) fast.DebugOp { return s.cb(ir, env, false) }

// ---------------------------------------------------------------- running + oracle

// tokenBounds: offsets at which a token of the input starts (1) or ends (2, the position just after it)
func tokenBounds(text string) map[int]int {
	fs := token.NewFileSet()
	f := fs.AddFile("x", fs.Base(), len(text))
	var s scanner.Scanner
	s.Init(f, []byte(text), func(token.Position, string) {}, 0)
	out := map[int]int{}
	for {
		pos, tok, lit := s.Scan()
		if tok == token.EOF {
			break
		}
		if tok == token.SEMICOLON && lit == "\n" {
			continue
		}
		n := len(lit)
		if n == 0 {
			n = len(tok.String())
		}
		out[f.Offset(pos)] |= 1
		out[f.Offset(pos)+n] |= 2
	}
	return out
}

// closersAfter: for every offset at which a token ends, the number of `}` tokens that follow it directly
// (comments and automatic semicolons skipped)
func closersAfter(text string) map[int]int {
	fs := token.NewFileSet()
	f := fs.AddFile("x", fs.Base(), len(text))
	var s scanner.Scanner
	s.Init(f, []byte(text), func(token.Position, string) {}, 0)
	var ends []int
	var closer []bool
	for {
		pos, tok, lit := s.Scan()
		if tok == token.EOF {
			break
		}
		if tok == token.SEMICOLON && lit == "\n" {
			continue
		}
		n := len(lit)
		if n == 0 {
			n = len(tok.String())
		}
		ends = append(ends, f.Offset(pos)+n)
		closer = append(closer, tok == token.RBRACE)
	}
	out := map[int]int{}
	run := 0
	for i := len(ends) - 1; i >= 0; i-- {
		out[ends[i]] = run
		if closer[i] {
			run++
		} else {
			run = 0
		}
	}
	return out
}

// registeredKeys: the keys (key + other_keys) recorded for property C27 in $VERIF_DIR/known_findings.json
func registeredKeys(dir string) map[string]bool {
	out := map[string]bool{}
	var kf struct {
		Findings []struct {
			Property string   `json:"property"`
			Key      string   `json:"key"`
			Other    []string `json:"other_keys"`
		} `json:"findings"`
	}
	if b, err := os.ReadFile(filepath.Join(dir, "known_findings.json")); err == nil && json.Unmarshal(b, &kf) == nil {
		for _, f := range kf.Findings {
			if f.Property == "C27" {
				out[f.Key] = true
				for _, k := range f.Other {
					out[k] = true
				}
			}
		}
	}
	return out
}

func (rn *runner) runDbg(p dbgProg) (stops, checked int, afterDrop bool) {
	rep := rn.rep
	key := fmt.Sprintf("dbg:%s:%q", p.Mode, p.Text)
	if p.Key != "" {
		key = p.Key
	}
	failed := false
	fail := func(what string, got, want interface{}) {
		if failed {
			return
		}
		failed = true
		if p.Key != "" && p.Defer && !registeredKeys(os.Getenv("VERIF_DIR"))[p.Key] {
			d, _ := rep.Extra["deferred_corpus_failures"].([]string)
			rep.Extra["deferred_corpus_failures"] = append(d, fmt.Sprintf("%s: %s: got %v want %v", key, what, got, want))
			return
		}
		rep.Fail(vh.Failure{Key: key, What: what, Input: map[string]interface{}{"debugger_program": p, "options": "OptDebugger, stock fast/debug.Debugger, script then 'step' for ever"}, Got: got, Want: want})
	}
	ir := fast.New()
	g := &ir.Comp.Globals
	g.Stdout, g.Stderr = io.Discard, io.Discard
	if p.Before != "" {
		g.Options |= base.OptTrapPanic
		vh.Catch(func() { ir.EvalReader(strings.NewReader(p.Before)) })
	}
	drv := &stockDriver{script: p.Script, limit: 4000}
	ir.DeclFunc("t", func(k int) int { drv.events = append(drv.events, dbgEvent{K: k}); return k })
	ir.SetDebugger(drv)
	g.Options |= base.OptDebugger
	g.Options &^= base.OptTrapPanic
	var stderr strings.Builder
	g.Stderr = &stderr
	name := "repl.go"
	var err error
	var pv interface{}
	switch p.Mode {
	case "file":
		rn.nfile++
		name = filepath.Join(rn.outDir, "src", fmt.Sprintf("d%d.gomacro", rn.nfile))
		os.MkdirAll(filepath.Dir(name), 0o755)
		if e := os.WriteFile(name, []byte(p.Text), 0o644); e != nil {
			panic(e)
		}
		pv = vh.Catch(func() { _, err = ir.EvalFile(name) })
	default:
		pv = vh.Catch(func() { _, err = ir.EvalReader(strings.NewReader(p.Text)) })
	}
	if _, many := pv.(dbgTooMany); many {
		pv = nil
	}
	if pv != nil || err != nil || stderr.Len() != 0 {
		fail("the generated program does not evaluate cleanly under the debugger", fmt.Sprint(pv, " ", err, " ", stderr.String()), "no error")
		return
	}
	if drv.bad != "" {
		fail("unexpected debugger output", drv.bad, nil)
	}
	// line starts of the input
	lineStart := []int{0}
	for i := 0; i < len(p.Text); i++ {
		if p.Text[i] == '\n' {
			lineStart = append(lineStart, i+1)
		}
	}
	for _, dl := range p.DeadLines {
		if dl[0] >= 1 && dl[1] < len(lineStart) && dl[0] <= dl[1] {
			p.Dead = append(p.Dead, [2]int{lineStart[dl[0]-1], lineStart[dl[1]]})
		}
	}
	// the innermost function literal / declaration that contains off (-1: top level)
	funcAt := func(off int) int {
		best := -1
		for i, f := range p.Funcs {
			if off >= f[0] && off < f[1] && (best < 0 || f[1]-f[0] < p.Funcs[best][1]-p.Funcs[best][0]) {
				best = i
			}
		}
		return best
	}
	toks := tokenBounds(p.Text)
	closers := closersAfter(p.Text)
	// rebuiltBlockEnd: off lies k >= 1 bytes after the end of a statement that is followed by at least k closing braces
	// (the arithmetic of known finding C27-K2, see below)
	rebuiltBlockEnd := func(off int) bool {
		for k := 1; k <= 8 && off-k >= 0; k++ {
			if toks[off-k]&2 != 0 {
				return closers[off-k] >= k
			}
			if toks[off-k] != 0 {
				return false
			}
		}
		return false
	}
	inDead := func(off int) bool {
		for _, d := range p.Dead {
			if off >= d[0] && off < d[1] {
				return true
			}
		}
		return false
	}
	excerpt := func(off int) string {
		if off < 0 || off > len(p.Text) {
			return "<outside the input>"
		}
		e := off + 30
		if e > len(p.Text) {
			e = len(p.Text)
		}
		return fmt.Sprintf("%q", p.Text[off:e])
	}
	ev := drv.events
	firstDeadEnd := 1 << 30
	for _, d := range p.Dead {
		if d[1] < firstDeadEnd {
			firstDeadEnd = d[1]
		}
	}
	for i, e := range ev {
		if !e.Stop {
			continue
		}
		stops++
		here := fmt.Sprintf("stop #%d at %s:%d:%d", stops, e.File, e.Line, e.Col)
		if e.File != name {
			fail("debugger stop: file name", here, name)
			break
		}
		off := -1
		if e.Line >= 1 && e.Line <= len(lineStart) {
			off = lineStart[e.Line-1] + e.Col - 1
		}
		// a statement is announced at the start of one of its tokens; the synthetic steps at the end of a block or
		// of a case clause are announced at the end of the last statement (the position just after a token)
		execNext := i+1 < len(ev) && !ev[i+1].Stop && ev[i+1].K > 0
		if execNext {
			// the marker logged next belongs to another function than the announced position: the step returned from
			// (or was announced in) a function whose caller does not announce its own next statement (stop rule, C19-C);
			// the announced position is then not the statement that logged the marker
			for hi := range p.Hdrs {
				for _, m := range p.Hdrs[hi].Marks {
					if m == ev[i+1].K && funcAt(off) != funcAt(p.Hdrs[hi].Start) {
						execNext = false
					}
				}
			}
		}
		// Only a stop answered with "step" shows whether it ran a source statement (the next event is then a marker) or was
		// a synthetic step (the next event is another stop); after next/finish/continue markers may follow either kind.
		// Where the verdict needs that distinction and the command was not "step", the program is run again with the script
		// cut at this stop (so it is answered with "step", like all later ones) and the re-run decides.
		recheck := func() bool {
			if e.Cmd == "step" || p.Key != "" || e.Idx >= len(p.Script) {
				return false
			}
			q := p
			q.Script = append([]string{}, p.Script[:e.Idx]...)
			rep.Dist("dbg:stop-rechecked-with-step")
			_, _, a2 := rn.runDbg(q)
			afterDrop = afterDrop || a2
			return true
		}
		if off >= 0 && off <= len(p.Text) && e.Col >= 1 && toks[off] == 0 && rebuiltBlockEnd(off) {
			// known finding C27-K2 (class): the macroexpander unwraps every one-statement block without declaration and
			// ast2.ToBlockStmt re-wraps the statement S with Rbrace = S.End(), so the End() of each enclosing compound
			// statement is one byte further; the synthetic steps placed at node.End()-1 (jump back of for/range) or at
			// list[n-1].End() (end of a case body) are then announced 1..k bytes after the end of S, where no token starts or
			// ends (often the first column of the next line).  Replayed exactly by corpus/C27/21-*.json.
			if recheck() {
				break
			}
			if !execNext && p.Key == "" {
				rep.Dist("avoided-known-finding-class:C27-K2")
				continue
			}
		}
		if off < 0 || off > len(p.Text) || e.Col < 1 || toks[off] == 0 {
			fail("debugger stop: the reported line:column is neither the start nor the end of a token of the input", here+" = "+excerpt(off), "a token boundary")
			break
		}
		if toks[off]&1 == 0 {
			continue // end of a token: synthetic step, nothing more to compare
		}
		if inDead(off) {
			if recheck() {
				break
			}
			if !execNext && p.Key == "" {
				// known finding C27-K1 (class): a step that runs no source statement (the jump at the end of a then-branch,
				// the scope pop/push of a block) is announced at the position of the else branch / of the statement
				// compiled last, which may be code that is not executed.  Replayed exactly by corpus/C27/20-*.json.
				rep.Dist("avoided-known-finding-class:C27-K1")
				continue
			}
			fail("debugger stop announced at a statement inside a branch that is never executed (constant-false / not taken)", here+" = "+excerpt(off), "a statement that is executed")
			break
		}
		// the statement announced at a stop is the one that runs next: when a marker t(K), K>0, is logged directly
		// after a stop that was answered with "step", the stop was announced inside the statement that contains t(K).
		// (t(0) statements separate the top-level evaluations: the first statement of an evaluation is not announced;
		// next / finish / continue may first run statements without markers to their end.)
		if e.Cmd != "step" || i+1 >= len(ev) || ev[i+1].Stop || ev[i+1].K <= 0 {
			continue
		}
		k := ev[i+1].K
		var h *dbgHdr
		for hi := range p.Hdrs {
			for _, m := range p.Hdrs[hi].Marks {
				if m == k {
					h = &p.Hdrs[hi]
				}
			}
		}
		if h == nil || funcAt(off) != funcAt(h.Start) {
			// a different function: the caller of a function that returns does not single-step when it was entered
			// before the debugger was active (stop rule, C19-C), its next statement is then not announced
			continue
		}
		checked++
		if off >= firstDeadEnd {
			afterDrop = true
		}
		if off < h.Start || off >= h.End {
			lo := 1
			for lo < len(lineStart) && lineStart[lo] <= h.Start {
				lo++
			}
			fail("debugger stop: the announced statement is not the one that is executed next",
				here+" = "+excerpt(off)+fmt.Sprintf(" but the statement run next logs t(%d)", k),
				fmt.Sprintf("a token of the statement at %s:%d:%d %s", name, lo, h.Start-lineStart[lo-1]+1, excerpt(h.Start)))
			break
		}
	}
	return
}

// c27: reported source positions (fast.Interp Repl / EvalReader / EvalFile line bookkeeping, go/etoken FileSet).
//
// Part A: random multi-chunk sources (statements, multi-line constructs, comments spanning lines, blank lines,
// comment prefixes, CRLF, #!) with error tokens at known byte offsets.  Each source is evaluated by the real
// interpreter through Interp.Repl, Interp.EvalReader (with and without OptTrapPanic) or Interp.EvalFile; the
// reported "file:line:col" is taken from the structured scanner.ErrorList when the error value has one, else
// from the text of the error.  Direct oracle: line = 1 + number of '\n' before the token in the input,
// column = 1 + bytes since the last '\n', file name = the name given to the interpreter.
// Part B: random file sets (AddFile with random base/size/starting line, AddLine, SetLines) built identically
// in go/etoken and in go/token; oracle: fork position = go/token position with Line shifted by the file's offset.
// Correspondence: the chunk lists delivered by the real base.ReadMultiline / the operation histories, with the
// observed positions, are written as Coq terms and evaluated by Verif.C27.Model.
package main

import (
	"bufio"
	"encoding/json"
	"fmt"
	"go/scanner"
	"go/token"
	"io"
	"os"
	"path/filepath"
	"regexp"
	"sort"
	"strconv"
	"strings"
	"time"

	"github.com/cosmos72/gomacro/base"
	"github.com/cosmos72/gomacro/fast"
	"github.com/cosmos72/gomacro/go/etoken"
	"verifh/vh"
)

// ---------------------------------------------------------------- sources

type errTok struct {
	Off  int    `json:"off"`  // byte offset in Text of the token whose position must be reported
	Kind string `json:"kind"` // template name
}

type source struct {
	Mode string   `json:"mode"` // repl | reader | reader1 | file | file1   (…1 = OptTrapPanic off: stops at the first error)
	Text string   `json:"text"`
	Errs []errTok `json:"errs"`
}

type gen struct {
	r    *vh.Rng
	n    int      // name counter
	ints []string // int variables defined so far in this history
	nl   string
}

func (g *gen) name(p string) string { g.n++; return fmt.Sprintf("%s%d", p, g.n) }

var words = []string{"alpha", "beta", "x", "TODO: fix", "café ☃", "a*b/c", " nbsp", "if x { y }", "\"q\"", "'", "`", "(", "}"}

func (g *gen) word() string { return words[g.r.Intn(len(words))] }

func (g *gen) intExpr() string {
	if len(g.ints) > 0 && g.r.Chance(1, 2) {
		return g.ints[g.r.Intn(len(g.ints))]
	}
	return strconv.Itoa(g.r.Intn(100))
}

// stmt returns a complete statement without error (no trailing newline); may span several lines
func (g *gen) stmt() string {
	nl := g.nl
	switch g.r.Intn(12) {
	case 0, 1:
		v := g.name("v")
		s := v + " := " + g.intExpr()
		g.ints = append(g.ints, v)
		return s
	case 2:
		v := g.name("s")
		return "var " + v + " = \"" + strings.NewReplacer("\"", "", "\\", "", "`", "").Replace(g.word()) + "\""
	case 3:
		f := g.name("f")
		return "func " + f + "(a int) int {" + nl + "\treturn a + " + g.intExpr() + nl + "}"
	case 4:
		t := g.name("T")
		return "type " + t + " struct {" + nl + "\tA int" + nl + nl + "\tB string // " + g.word() + nl + "}"
	case 5:
		v := g.name("v")
		s := v + " := " + g.intExpr() + " +" + nl + "\t" + g.intExpr()
		g.ints = append(g.ints, v)
		return s
	case 6:
		v := g.name("l")
		return v + " := []int{" + nl + "\t" + g.intExpr() + "," + nl + "\t" + g.intExpr() + "," + nl + "}"
	case 7:
		v := g.name("r")
		return v + " := `raw " + strings.Replace(g.word(), "`", "", -1) + nl + nl + "second` + \"x\""
	case 8:
		if len(g.ints) > 0 {
			v := g.ints[g.r.Intn(len(g.ints))]
			return "if " + v + " > 0 {" + nl + "\t" + v + " = 0" + nl + "} else {" + nl + "\t" + v + "++" + nl + "}"
		}
		fallthrough
	case 9:
		if len(g.ints) > 0 {
			v := g.ints[g.r.Intn(len(g.ints))]
			return "for i := 0; i < 3; i++ {" + nl + "\t" + v + " += i /* " + strings.Replace(g.word(), "*/", "", -1) + nl + " */" + nl + "}"
		}
		fallthrough
	case 10:
		v := g.name("v")
		s := "var " + v + " int = (" + g.intExpr() + " *" + nl + nl + "\t2)"
		g.ints = append(g.ints, v)
		return s
	default:
		if len(g.ints) > 0 {
			v := g.ints[g.r.Intn(len(g.ints))]
			return v + " = " + v + " + " + g.intExpr()
		}
		v := g.name("v")
		g.ints = append(g.ints, v)
		return "var " + v + " = 7"
	}
}

// errStmt returns a statement whose evaluation fails with a positioned error, the offset of the offending token
// relative to the statement start, and the template name.  Nothing it declares is used afterwards.
func (g *gen) errStmt() (string, int, string) {
	nl := g.nl
	u := g.name("undef")
	switch g.r.Intn(12) {
	case 0, 1:
		p := g.name("e") + " := "
		return p + u, len(p), "undefined-ident"
	case 2:
		p := g.name("e") + " := " + g.intExpr() + " + "
		return p + u + " * 2", len(p), "undefined-in-expr"
	case 3:
		return u + "(1, 2)", 0, "undefined-call"
	case 4:
		p := "func " + g.name("g") + "() int {" + nl + "\tq := 1" + nl + nl + "\treturn q + "
		return p + u + nl + "}", len(p), "undefined-in-func-body"
	case 5:
		p := "var "
		return p + "5 = 3", len(p), "syntax-expected-ident"
	case 6:
		p := g.name("e") + " := 2 "
		return p + "2", len(p), "syntax-expected-semicolon"
	case 7:
		return "break", 0, "break-outside-loop"
	case 8:
		p := g.name("e") + " := "
		return p + "'ab'", len(p), "illegal-rune-literal"
	case 9:
		p := g.name("e") + " := 1 "
		return p + "@ 2", len(p), "illegal-character"
	case 10:
		if len(g.ints) > 0 {
			v := g.ints[g.r.Intn(len(g.ints))]
			p := g.name("e") + " := "
			return p + v + ".foo", len(p), "no-field-or-method"
		}
		fallthrough
	default:
		p := g.name("e") + " := []int{" + nl + "\t1," + nl + "\t"
		return p + u + "," + nl + "}", len(p), "undefined-in-composite-lit"
	}
}

// filler returns complete token-less lines
func (g *gen) filler() string {
	nl := g.nl
	switch g.r.Intn(9) {
	case 0:
		return nl
	case 1:
		return "  \t " + nl
	case 2:
		return "// " + g.word() + nl
	case 3:
		return "/* " + strings.Replace(g.word(), "*/", "", -1) + " */" + nl
	case 4:
		return "/* " + strings.Replace(g.word(), "*/", "", -1) + nl + nl + " * more" + nl + " */" + nl
	case 5:
		return "\t// indented " + g.word() + nl + nl
	case 6:
		return "/**/ /* a */ // b" + nl
	case 7:
		return "\u00a0" + nl // Unicode white space: ReadMultiline sees a token, ParseEvalPrint sees nothing (fix C27-3)
	default:
		return "//" + nl + "//" + nl
	}
}

// prefix is put before a statement on the same line
func (g *gen) prefix() string {
	nl := g.nl
	switch g.r.Intn(10) {
	case 0:
		return "  "
	case 1:
		return "\t\t"
	case 2:
		return "/* c */ "
	case 3:
		return "/* a" + nl + "b */ "
	case 4:
		return "/*" + nl + nl + "*/\t"
	case 5:
		return "/* éè */"
	default:
		return ""
	}
}

func (g *gen) suffix() string {
	switch g.r.Intn(8) {
	case 0:
		return " // " + g.word()
	case 1:
		return " /* t */"
	case 2:
		return "  "
	case 3:
		return " /* t" + g.nl + "u */"
	default:
		return ""
	}
}

func (g *gen) source(mode string) source {
	if g.r.Chance(1, 4) {
		g.nl = "\r\n"
	} else {
		g.nl = "\n"
	}
	var sb strings.Builder
	var errs []errTok
	if g.r.Chance(1, 8) {
		sb.WriteString("#!/usr/bin/env gomacro" + g.nl)
	}
	n := 1 + g.r.Intn(7)
	nerr := []int{0, 1, 1, 1, 2, 2, 3}[g.r.Intn(7)]
	if nerr > n {
		nerr = n
	}
	isErr := make([]bool, n)
	keep := -1
	for k := 0; k < nerr; k++ {
		isErr[g.r.Intn(n)] = true
	}
	for i := 0; i < n; i++ {
		for k := g.r.Intn(4); k > 0; k-- {
			sb.WriteString(g.filler())
		}
		sb.WriteString(g.prefix())
		if isErr[i] {
			if keep < 0 && strings.HasSuffix(mode, "1") {
				keep = len(g.ints) // without OptTrapPanic nothing after the first error is evaluated
			}
			s, off, kind := g.errStmt()
			errs = append(errs, errTok{sb.Len() + off, kind})
			sb.WriteString(s)
		} else {
			sb.WriteString(g.stmt())
		}
		sb.WriteString(g.suffix())
		if i < n-1 || !g.r.Chance(1, 6) {
			sb.WriteString(g.nl)
		}
	}
	if g.r.Chance(1, 3) && strings.HasSuffix(sb.String(), "\n") {
		sb.WriteString(g.filler())
	}
	if keep >= 0 {
		g.ints = g.ints[:keep]
	}
	return source{Mode: mode, Text: sb.String(), Errs: errs}
}

// ---------------------------------------------------------------- running one history of sources

type chunk struct {
	Src   string
	First int
}

// chunksOf replays the reader of the real implementation on the same bytes: the chunk list is the input of the model
func chunksOf(text string, reader bool) []chunk {
	in := base.MakeBufReadline(bufio.NewReader(strings.NewReader(text)))
	var out []chunk
	for i := 0; i < 100000; i++ {
		var opts base.ReadOptions
		if reader && i == 0 {
			opts = base.ReadOptCollectAllComments
		}
		src, first, _ := base.ReadMultiline(in, opts, "")
		out = append(out, chunk{src, first})
		if first < 0 && len(src) == 0 {
			break
		}
	}
	return out
}

type position struct {
	Name      string
	Line, Col int
}

func truePosition(text string, off int) (line, col int) {
	line, col = 1, 1
	for i := 0; i < off && i < len(text); i++ {
		if text[i] == '\n' {
			line++
			col = 1
		} else {
			col++
		}
	}
	return
}

func parsePositions(name, text string) []position {
	re := regexp.MustCompile(`(?m)^` + regexp.QuoteMeta(name) + `:(\d+):(\d+): `)
	var out []position
	for _, m := range re.FindAllStringSubmatch(text, -1) {
		l, _ := strconv.Atoi(m[1])
		c, _ := strconv.Atoi(m[2])
		out = append(out, position{name, l, c})
	}
	return out
}

type runner struct {
	rep    *vh.Report
	outDir string
	nfile  int
	names  map[string]int // file name -> id used in the Coq terms
}

func (rn *runner) nameID(n string) int {
	if id, ok := rn.names[n]; ok {
		return id
	}
	id := len(rn.names) + 1
	rn.names[n] = id
	return id
}

// runHistory evaluates the sources one after the other on one interpreter; returns the Coq term of the case body
func (rn *runner) runHistory(hist []source) (string, int) {
	rep := rn.rep
	ir := fast.New()
	g := &ir.Comp.Globals
	g.Stdout = io.Discard
	var csrc []string
	positioned := 0
	for si, s := range hist {
		key := fmt.Sprintf("%s:%q", s.Mode, s.Text)
		fail := func(what string, got, want interface{}) {
			rep.Fail(vh.Failure{Key: key, What: what, Input: map[string]interface{}{"sources": hist[:si+1]}, Got: got, Want: want})
		}
		var stderr strings.Builder
		g.Stderr = &stderr
		trap := !strings.HasSuffix(s.Mode, "1")
		if trap {
			g.Options |= base.OptTrapPanic
		} else {
			g.Options &^= base.OptTrapPanic
		}
		name := "repl.go"
		var observed []position
		var err error
		isReader := s.Mode != "repl"
		var pv interface{}
		switch s.Mode {
		case "repl":
			pv = vh.Catch(func() { ir.Repl(bufio.NewReader(strings.NewReader(s.Text))) })
		case "reader", "reader1":
			pv = vh.Catch(func() { _, err = ir.EvalReader(strings.NewReader(s.Text)) })
		case "file", "file1":
			rn.nfile++
			name = filepath.Join(rn.outDir, "src", fmt.Sprintf("s%d.gomacro", rn.nfile))
			os.MkdirAll(filepath.Dir(name), 0o755)
			if e := os.WriteFile(name, []byte(s.Text), 0o644); e != nil {
				panic(e)
			}
			pv = vh.Catch(func() { _, err = ir.EvalFile(name) })
		}
		if pv != nil {
			fail("evaluation panicked past the interpreter's own recover", fmt.Sprint(pv), nil)
		}
		observed = parsePositions(name, stderr.String())
		if err != nil {
			if el, ok := err.(scanner.ErrorList); ok && len(el) > 0 {
				// structured position of a syntax error
				observed = append(observed, position{el[0].Pos.Filename, el[0].Pos.Line, el[0].Pos.Column})
			} else {
				observed = append(observed, parsePositions(name, err.Error())...)
			}
		}
		// expected: the first error token of every evaluated chunk (every chunk is compiled and run on its own and
		// stops at its first error); without OptTrapPanic the evaluation ends at the first error
		chunks := chunksOf(s.Text, isReader)
		type exp struct {
			ci, off int // chunk index, offset in the chunk
			tok     errTok
		}
		var expected []exp
		start := 0
		concat := ""
		for ci, c := range chunks {
			concat += c.Src
			if c.First > len(c.Src) || c.First < -1 {
				fail("ReadMultiline: firstToken out of range", c.First, len(c.Src))
			}
			if ci < len(chunks)-2 && !strings.HasSuffix(c.Src, "\n") {
				fail("ReadMultiline: chunk does not end at a line end", c.Src, nil)
			}
			if c.First >= 0 {
				for _, e := range s.Errs {
					if e.Off >= start && e.Off < start+len(c.Src) {
						expected = append(expected, exp{ci, e.Off - start, e})
						break
					}
				}
			}
			start += len(c.Src)
		}
		if want := strings.Replace(s.Text, "#!", "//", 1); concat != s.Text && !(strings.HasPrefix(s.Text, "#!") && concat == want) {
			fail("ReadMultiline: chunks do not concatenate to the input", concat, s.Text)
		}
		if !trap && len(expected) > 1 {
			expected = expected[:1]
		}
		if len(observed) != len(expected) {
			fail("number of reported positions", fmt.Sprintf("%d: %v (stderr %q err %v)", len(observed), observed, stderr.String(), err), fmt.Sprintf("%d: %v", len(expected), expected))
		}
		var cobs []string
		for i, e := range expected {
			if i >= len(observed) {
				break
			}
			o := observed[i]
			tl, tc := truePosition(s.Text, e.tok.Off)
			if o.Name != name || o.Line != tl || o.Col != tc {
				fail("reported position of "+e.tok.Kind, fmt.Sprintf("%s:%d:%d", o.Name, o.Line, o.Col), fmt.Sprintf("%s:%d:%d", name, tl, tc))
			}
			positioned++
			rep.Dist("error:" + e.tok.Kind)
			rep.Dist(fmt.Sprintf("chunk_index:%s", bucket(e.ci)))
			cobs = append(cobs, fmt.Sprintf("mkObs %d%%nat %d%%nat %d%%N %s %s", e.ci, e.off, rn.nameID(o.Name), vh.CoqZ(int64(o.Line)), vh.CoqZ(int64(o.Col))))
		}
		rep.Dist("mode:" + s.Mode)
		rep.Dist("chunks:" + bucket(len(chunks)))
		if strings.Contains(s.Text, "\r\n") {
			rep.Dist("line_ends:crlf")
		} else {
			rep.Dist("line_ends:lf")
		}
		// Globals.Line afterwards = number of newlines consumed; only meaningful when the source was read to the end
		finalLine := g.Line
		if trap && pv == nil {
			want := strings.Count(s.Text, "\n")
			if s.Mode == "repl" && si > 0 {
				want = -1 // Repl does not reset the counter: no direct claim
			}
			if want >= 0 && finalLine != want {
				fail("Globals.Line after the source", finalLine, want)
			}
		}
		var cch []string
		for _, c := range chunks {
			cch = append(cch, fmt.Sprintf("mkChunk %s %s", coqBytes(c.Src), vh.CoqZ(int64(c.First))))
		}
		mode := "Reader"
		if s.Mode == "repl" {
			mode = "Repl"
		}
		if trap {
			csrc = append(csrc, fmt.Sprintf("mkSource %s %d%%N %s %s %s", mode, rn.nameID(name), vh.CoqList(cch, "chunk"), vh.CoqList(cobs, "obs"), vh.CoqZ(int64(finalLine))))
		} else {
			// evaluation stopped at the first error: the model (which runs every chunk) is given the chunks up to and
			// including the failing one; Globals.Line is then the line count of exactly those chunks
			upto := len(chunks)
			if len(expected) > 0 {
				upto = expected[0].ci + 1
			}
			csrc = append(csrc, fmt.Sprintf("mkSource %s %d%%N %s %s %s", mode, rn.nameID(name), vh.CoqList(cch[:upto], "chunk"), vh.CoqList(cobs, "obs"), vh.CoqZ(int64(finalLine))))
		}
	}
	return vh.CoqList(csrc, "source"), positioned
}

// coqBytes renders a byte string as (bytes_of 0x1<hex>%N), see Model.v
func coqBytes(s string) string {
	return fmt.Sprintf("(bytes_of 0x1%x%%N)", s)
}

func bucket(n int) string {
	switch {
	case n <= 1:
		return strconv.Itoa(n)
	case n <= 3:
		return "2-3"
	case n <= 7:
		return "4-7"
	case n <= 15:
		return "8-15"
	}
	return "16+"
}

// ---------------------------------------------------------------- file sets

type fop struct {
	K     string `json:"k"` // add | addline | setlines
	Name  string `json:"name,omitempty"`
	Base  int    `json:"base,omitempty"`
	Size  int    `json:"size,omitempty"`
	Line  int    `json:"line,omitempty"`
	I     int    `json:"i,omitempty"`
	Off   int    `json:"off,omitempty"`
	Lines []int  `json:"lines,omitempty"`
}

type fsCase struct {
	Ops     []fop `json:"ops"`
	Queries []int `json:"queries"`
}

const maxInt = int(^uint(0) >> 1)

func genFileSet(r *vh.Rng) fsCase {
	var c fsCase
	names := []string{"a.go", "b.go", "", "dir/c.go"}
	type finfo struct{ base, size, last int }
	var files []finfo
	nextBase := 1
	nops := 1 + r.Intn(14)
	for k := 0; k < nops; k++ {
		x := r.Intn(10)
		switch {
		case x < 4 || len(files) == 0:
			o := fop{K: "add", Name: names[r.Intn(len(names))], Base: -1, Size: r.Intn(60), Line: r.Intn(50)}
			switch r.Intn(12) {
			case 0:
				o.Base = nextBase + r.Intn(20)
			case 1:
				o.Base = nextBase - 1 - r.Intn(3) // invalid (or -1/-2: "use the set's base")
			case 2:
				o.Size = -1 - r.Intn(2)
			case 3:
				o.Size = 0
			case 4:
				o.Line = -r.Intn(30)
			case 5:
				o.Line = 1000000 + r.Intn(1000)
			case 6:
				if r.Chance(1, 3) {
					o.Base = maxInt - r.Intn(40) // may overflow
				}
			case 7:
				o.Size = 1 << 33
			}
			c.Ops = append(c.Ops, o)
			b := o.Base
			if b < 0 {
				b = nextBase
			}
			if b >= nextBase && o.Size >= 0 && b+o.Size+1 > 0 {
				files = append(files, finfo{b, o.Size, 0})
				nextBase = b + o.Size + 1
			}
		case x < 8:
			i := r.Intn(len(files))
			f := &files[i]
			off := f.last + 1 + r.Intn(8)
			switch r.Intn(8) {
			case 0:
				off = f.last - r.Intn(3)
			case 1:
				off = f.size + r.Intn(3) - 1
			}
			c.Ops = append(c.Ops, fop{K: "addline", I: i, Off: off})
			if off > f.last && off < f.size {
				f.last = off
			}
		default:
			i := r.Intn(len(files))
			f := &files[i]
			var lines []int
			cur := 0
			if r.Chance(1, 4) {
				cur = r.Intn(5)
			}
			for n := r.Intn(6); n > 0 && cur < f.size+2; n-- {
				lines = append(lines, cur)
				cur += 1 + r.Intn(10)
			}
			if r.Chance(1, 6) && len(lines) > 1 {
				j := r.Intn(len(lines)-1) + 1
				lines[j] = lines[j-1] // invalid: not strictly increasing
			}
			c.Ops = append(c.Ops, fop{K: "setlines", I: i, Lines: lines})
			ok := true
			for j, l := range lines {
				if j > 0 && l <= lines[j-1] || f.size <= l {
					ok = false
				}
			}
			if ok {
				f.last = -1
				if len(lines) > 0 {
					f.last = lines[len(lines)-1]
				}
			}
		}
	}
	c.Queries = []int{0, -1, 1, nextBase, nextBase + 5}
	for _, f := range files {
		c.Queries = append(c.Queries, f.base-1, f.base, f.base+f.size, f.base+f.size+1)
		for k := 0; k < 4 && f.size > 0; k++ {
			c.Queries = append(c.Queries, f.base+r.Intn(f.size+1))
		}
	}
	// shuffle so that the last-file cache is exercised in every order
	for i := len(c.Queries) - 1; i > 0; i-- {
		j := r.Intn(i + 1)
		c.Queries[i], c.Queries[j] = c.Queries[j], c.Queries[i]
	}
	return c
}

func runFileSet(c fsCase, rep *vh.Report, nameID func(string) int) (string, bool) {
	fork := etoken.NewFileSet()
	std := token.NewFileSet()
	var ffiles []*etoken.File
	var sfiles []*token.File
	var lineOf []int
	key := func() string { b, _ := json.Marshal(c); return "fileset:" + string(b) }
	fail := func(what string, got, want interface{}) {
		rep.Fail(vh.Failure{Key: key(), What: what, Input: map[string]interface{}{"fileset": c}, Got: got, Want: want})
	}
	var cops, cflags []string
	for _, o := range c.Ops {
		switch o.K {
		case "add":
			var ff *etoken.File
			var sf *token.File
			p1 := vh.Catch(func() { ff = fork.AddFile(o.Name, o.Base, o.Size, o.Line) })
			p2 := vh.Catch(func() { sf = std.AddFile(o.Name, o.Base, o.Size) })
			if (p1 == nil) != (p2 == nil) {
				fail("AddFile panics differently", fmt.Sprint(p1), fmt.Sprint(p2))
			}
			if p1 == nil && p2 == nil {
				if ff.Base() != sf.Base() || ff.Size() != sf.Size() || ff.Name() != sf.Name() {
					fail("AddFile result", fmt.Sprint(ff.Base(), ff.Size(), ff.Name()), fmt.Sprint(sf.Base(), sf.Size(), sf.Name()))
				}
				ffiles = append(ffiles, ff)
				sfiles = append(sfiles, sf)
				lineOf = append(lineOf, o.Line)
			}
			if fork.Base() != std.Base() {
				fail("FileSet.Base", fork.Base(), std.Base())
			}
			cops = append(cops, fmt.Sprintf("FAdd %d%%N %s %s %s", nameID(o.Name), vh.CoqZ(int64(o.Base)), vh.CoqZ(int64(o.Size)), vh.CoqZ(int64(o.Line))))
			cflags = append(cflags, vh.CoqBool(p1 == nil))
		case "addline":
			if o.I < len(ffiles) {
				ffiles[o.I].AddLine(o.Off)
				sfiles[o.I].AddLine(o.Off)
			}
			cops = append(cops, fmt.Sprintf("FAddLine %d%%nat %s", o.I, vh.CoqZ(int64(o.Off))))
			cflags = append(cflags, "true")
		case "setlines":
			ok1 := false
			if o.I < len(ffiles) {
				ok1 = ffiles[o.I].SetLines(append([]int(nil), o.Lines...))
				ok2 := sfiles[o.I].SetLines(append([]int(nil), o.Lines...))
				if ok1 != ok2 {
					fail("SetLines result", ok1, ok2)
				}
			}
			var ls []string
			for _, l := range o.Lines {
				ls = append(ls, vh.CoqZ(int64(l)))
			}
			cops = append(cops, fmt.Sprintf("FSetLines %d%%nat %s", o.I, vh.CoqList(ls, "Z")))
			cflags = append(cflags, vh.CoqBool(ok1))
		}
	}
	idx := map[*token.File]int{}
	for i, f := range sfiles {
		idx[f] = i
	}
	var cq, cp []string
	valid := 0
	for _, p := range c.Queries {
		var got, got2, want token.Position
		var gf *etoken.File
		if pv := vh.Catch(func() {
			got = fork.PositionFor(token.Pos(p), false)
			got2 = fork.Position(token.Pos(p))
			gf = fork.File(token.Pos(p))
		}); pv != nil {
			fail(fmt.Sprintf("PositionFor(%d) panicked", p), fmt.Sprint(pv), nil)
		}
		want = std.PositionFor(token.Pos(p), false)
		sf := std.File(token.Pos(p))
		if sf != nil && want.IsValid() {
			want.Line += lineOf[idx[sf]]
		}
		if got != want || got2 != want {
			fail(fmt.Sprintf("PositionFor(%d)", p), fmt.Sprintf("%+v / %+v", got, got2), fmt.Sprintf("%+v", want))
		}
		if (gf == nil) != (sf == nil) || (gf != nil && (gf.Base() != sf.Base() || gf.Size() != sf.Size() || gf != ffiles[idx[sf]])) {
			fail(fmt.Sprintf("File(%d) selects another file", p), fmt.Sprint(gf != nil), fmt.Sprint(sf != nil))
		}
		if want.IsValid() {
			valid++
		}
		id := 0
		if gf != nil || got.Filename != "" {
			id = nameID(got.Filename)
		}
		cq = append(cq, vh.CoqZ(int64(p)))
		cp = append(cp, fmt.Sprintf("mkPos %d%%N %s %s %s", id, vh.CoqZ(int64(got.Offset)), vh.CoqZ(int64(got.Line)), vh.CoqZ(int64(got.Column))))
	}
	rep.Dist("fileset_files:" + bucket(len(ffiles)))
	return fmt.Sprintf("%s %s %s %s", vh.CoqList(cops, "fop"), vh.CoqList(cflags, "bool"), vh.CoqList(cq, "Z"), vh.CoqList(cp, "position")), len(ffiles) >= 2 && valid > 0
}

// ---------------------------------------------------------------- main

type corpusFile struct {
	Sources []struct {
		Mode   string   `json:"mode"`
		Text   string   `json:"text"`
		Tokens []string `json:"tokens"` // error tokens, located by their first occurrence in Text
		Errs   []errTok `json:"errs"`
	} `json:"sources"`
	Fileset *fsCase  `json:"fileset"`
	Dbg     *dbgProg `json:"debugger_program"`
	Failure *struct {
		Input json.RawMessage `json:"input"`
	} `json:"failure"` // a replay file written by ./check
	Inputs []struct {
		Input json.RawMessage `json:"input"`
	} `json:"inputs"`
}

var corpusDbg []dbgProg // debugger programs found by loadCorpus

func loadCorpus(path string) (hists [][]source, sets []fsCase) {
	b, err := os.ReadFile(path)
	if err != nil {
		return
	}
	var cf corpusFile
	if json.Unmarshal(b, &cf) != nil {
		return
	}
	raws := []json.RawMessage{b}
	if cf.Failure != nil {
		raws = append(raws, cf.Failure.Input)
	}
	for _, in := range cf.Inputs {
		raws = append(raws, in.Input)
	}
	for _, raw := range raws {
		var c corpusFile
		if json.Unmarshal(raw, &c) != nil {
			continue
		}
		var h []source
		for _, s := range c.Sources {
			src := source{Mode: s.Mode, Text: s.Text, Errs: s.Errs}
			for _, t := range s.Tokens {
				if i := strings.Index(s.Text, t); i >= 0 {
					src.Errs = append(src.Errs, errTok{i, "corpus:" + t})
				}
			}
			sort.Slice(src.Errs, func(i, j int) bool { return src.Errs[i].Off < src.Errs[j].Off })
			h = append(h, src)
		}
		if len(h) > 0 {
			hists = append(hists, h)
		}
		if c.Fileset != nil {
			sets = append(sets, *c.Fileset)
		}
		if c.Dbg != nil {
			corpusDbg = append(corpusDbg, *c.Dbg)
		}
	}
	return
}

func main() {
	a := vh.ParseArgs()
	rng := vh.NewRng(a.Seed)
	rep := vh.NewReport(a, "part A: histories of 1-3 sources evaluated by one interpreter (first source through Interp.Repl, EvalReader or EvalFile, later ones through EvalReader/EvalFile, with or without OptTrapPanic); "+
		"a source = 1-7 statements (declarations, multi-line func/type/if/for/composite/raw-string/continued expressions), each preceded by 0-3 token-less lines (blank, //, /* */ over several lines, U+00A0) and an optional same-line prefix (indentation, /* */ also spanning lines), LF or CRLF, optional #! line, 0-3 statements replaced by an error template (undefined identifier at top level / in an expression / in a function body / in a composite literal, syntax errors, illegal rune/character, break outside loop, missing field); "+
		"not generated: //line directives, U+2029, ':' commands, package clauses, control characters in literals; "+
		"non-trivial: >=1 position reported for a token that is not on the first line of its source; part B: file-set histories of 1-14 AddFile/AddLine/SetLines operations (explicit/implicit/invalid bases, sizes 0..2^33, overflow, negative and large starting lines, invalid line tables) with queries at every file boundary and inside; non-trivial: >=2 files and >=1 valid position; "+
		"distinct by SHA-256 of the input")
	rn := &runner{rep: rep, outDir: a.Out, names: map[string]int{}}
	rn.nameID("repl.go")
	nameID := func(s string) int {
		if s == "" {
			return 0
		}
		return rn.nameID(s)
	}
	cw := vh.NewCases(a, "From Coq Require Import List NArith ZArith.\nFrom Verif Require Import C27.Model.\nImport ListNotations.\nOpen Scope Z_scope.", "case", "mismatches", map[bool]int{false: 25, true: 220}[a.Thorough()]) // thorough: 7000 cases in <= 32 shards

	var hists [][]source
	var sets []fsCase
	if a.Replay != "" {
		hists, sets = loadCorpus(a.Replay)
	} else {
		// corpus first
		if dir := os.Getenv("VERIF_DIR"); dir != "" {
			files, _ := filepath.Glob(filepath.Join(dir, "corpus", "C27", "*.json"))
			sort.Strings(files)
			for _, f := range files {
				h, s := loadCorpus(f)
				hists = append(hists, h...)
				sets = append(sets, s...)
			}
		}
		rep.Extra["corpus_cases"] = len(hists) + len(sets)
		nA, nB := 300, 400
		if a.Thorough() {
			nA, nB = 3000, 4000 // 10x quick; 12000 cases were 81 Coq shards = 50 min at load 100+
		}
		if a.N > 0 {
			nA, nB = a.N, a.N
		}
		for k := 0; k < nA; k++ {
			g := &gen{r: rng.Fork()}
			var h []source
			first := []string{"repl", "repl", "reader", "reader1", "file", "file1"}[g.r.Intn(6)]
			h = append(h, g.source(first))
			for n := g.r.Intn(3); n > 0; n-- {
				h = append(h, g.source([]string{"reader", "reader", "reader1", "file", "file1"}[g.r.Intn(5)]))
			}
			hists = append(hists, h)
		}
		for k := 0; k < nB; k++ {
			sets = append(sets, genFileSet(rng.Fork()))
		}
	}
	// a generous limit: under heavy machine load the first fast.New() alone was seen to take many seconds
	wd := vh.NewWatchdog(rep, 180*time.Second)
	idx := 0
	for _, h := range hists {
		wd.Beat(h)
		body, positioned := rn.runHistory(h)
		cw.Add(fmt.Sprintf("CSources %d %s", idx, body))
		b, _ := json.Marshal(h)
		nontriv := false
		for _, s := range h {
			if len(s.Errs) > 0 && positioned > 0 && strings.Count(s.Text[:s.Errs[len(s.Errs)-1].Off], "\n") > 0 {
				nontriv = true
			}
		}
		rep.Count(string(b), nontriv)
		if idx%61 == 2 {
			rep.Sample(h)
		}
		rep.CaseInput(idx, map[string]interface{}{"sources": h})
		idx++
	}
	rep.Extra["source_histories"] = idx
	for _, c := range sets {
		wd.Beat(c)
		body, nontriv := runFileSet(c, rep, nameID)
		cw.Add(fmt.Sprintf("CFileSet %d %s", idx, body))
		b, _ := json.Marshal(c)
		rep.Count(string(b), nontriv)
		if idx%397 == 5 {
			rep.Sample(c)
		}
		rep.CaseInput(idx, map[string]interface{}{"fileset": c})
		idx++
	}
	rep.Extra["fileset_histories"] = len(sets)
	// part C: debugger stops (direct oracle only; the stop positions come from the same FileSet.Position as part A/B)
	for _, p := range corpusDbg {
		wd.Beat(p)
		st, _, _ := rn.runDbg(p)
		rep.Count("dbg:corpus:"+p.Text, st > 0)
	}
	if a.Replay == "" {
		nC := 120
		if a.Thorough() {
			nC = 2500
		}
		if a.N > 0 {
			nC = a.N
		}
		totStops, totChecked, nAfter := 0, 0, 0
		for k := 0; k < nC; k++ {
			p := genDbgProg(rng.Fork())
			wd.Beat(p)
			st, ch, after := rn.runDbg(p)
			totStops += st
			totChecked += ch
			if after {
				nAfter++
			}
			rep.Count("dbg:"+p.Mode+p.Before+"|"+p.Text+strings.Join(p.Script, ","), after)
			rep.Dist(fmt.Sprintf("dbg:stops:%s", bucket(st)))
			if k%53 == 7 {
				rep.Sample(p)
			}
		}
		rep.Extra["debugger_programs"] = nC
		rep.Extra["debugger_stops_checked"] = totStops
		rep.Extra["debugger_stops_matched_to_executed_statement"] = totChecked
		rep.Extra["debugger_programs_with_checked_stop_after_dropped_branch"] = nAfter
	}
	cw.Close()
	rep.Write()
}

package main

// Nested stream: an operator with a CONSTANT operand that hits one of the compile-time shortcuts of the interpreter
// (x*0, 0*x, x*1, x+0, x|0, x&0, x/1, x%1, x<<0, x&-1, x*2^k, x/2^k ... : fast/binary_ops.go mulPow2, quoPow2, remPow2,
// the identity/zero cases of Add/Sub/And/Or/Xor/Andnot/Shl/Shr) whose NON-constant operand is itself an expression that
// can panic at run time (a/b, a%b with b == 0; a<<b, a>>b with b < 0) or has a side effect (a call that counts its
// evaluations).  Compiled Go evaluates that operand whatever the constant is: the panic / the side effect must be
// observed exactly as in compiled Go.  The function literals go through the same pipeline as all others (go/types for
// the compile-error class, the compiled oracle program on the same operand tuples, value and type compared exactly).
// They are not Coq cases (shape "NE").

import (
	"fmt"
	"strings"
)

type nestedInner struct {
	name string
	expr string // over a, b
}

var nestedInners = []nestedInner{
	{"quo", "(a / b)"},
	{"rem", "(a % b)"},
	{"shl", "(a << b)"},
	{"shr", "(a >> b)"},
	{"call", "f()"}, // f := func() K { n += 3; return a - b }; the result is xor-ed with n
}

// nestedOuters: %s = the non-constant operand, K = the kind name; signedOnly: needs a negative constant
var nestedOuters = []struct {
	tmpl       string
	signedOnly bool
}{
	{"%s * K(0)", false}, {"K(0) * %s", false}, {"%s * 0", false}, {"0 * %s", false},
	{"%s * K(1)", false}, {"K(1) * %s", false}, {"%s * K(-1)", true}, {"K(-1) * %s", true},
	{"%s * K(2)", false}, {"K(8) * %s", false},
	{"%s + K(0)", false}, {"K(0) + %s", false}, {"%s - K(0)", false}, {"K(0) - %s", false},
	{"%s | K(0)", false}, {"K(0) | %s", false}, {"%s | ^K(0)", false}, {"^K(0) | %s", false},
	{"%s & K(0)", false}, {"K(0) & %s", false}, {"%s & ^K(0)", false}, {"K(-1) & %s", true},
	{"%s ^ K(0)", false}, {"K(0) ^ %s", false},
	{"%s &^ K(0)", false}, {"K(0) &^ %s", false}, {"%s &^ ^K(0)", false},
	{"%s / K(1)", false}, {"%s / K(-1)", true}, {"%s / K(2)", false}, {"K(0) / %s", false},
	{"%s %% K(1)", false}, {"%s %% K(-1)", true}, {"%s %% K(4)", false}, {"K(0) %% %s", false},
	{"%s << 0", false}, {"%s >> 0", false}, {"%s << uint8(0)", false}, {"K(0) << %s", false}, {"K(0) >> %s", false},
}

func (g *Gen) addNested(k *Kind, in nestedInner, tmpl string) *Fn {
	t := strings.ReplaceAll(tmpl, "K(", k.Name+"(")
	expr := fmt.Sprintf(t, in.expr)
	K := k.Name
	var body string
	if in.name == "call" {
		body = fmt.Sprintf("var n %s; f := func() %s { n += 3; return a - b }; r := %s; return r ^ n", K, K, expr)
	} else {
		body = "return " + expr
	}
	f := &Fn{ID: len(g.fns), Op: "nested", KA: k, KB: k, KR: k, Shape: "NE", Place: "local", Tmpl: expr}
	f.Src = fmt.Sprintf("func(a, b %s) %s { %s }", K, K, body)
	f.Params = []*Kind{k, k}
	f.Set = g.pairSet(k)
	g.fns = append(g.fns, f)
	return f
}

func (g *Gen) enumerateNested() {
	rot := 0
	for _, k := range intKinds() {
		for _, o := range nestedOuters {
			if o.signedOnly && !k.Signed() {
				continue
			}
			if g.thorough {
				for _, in := range nestedInners {
					g.addNested(k, in, o.tmpl)
				}
				continue
			}
			// quick tier: 2 of the 5 operand forms per (kind, constant form), rotating
			rot++
			g.addNested(k, nestedInners[rot%5], o.tmpl)
			g.addNested(k, nestedInners[(rot+2)%5], o.tmpl)
		}
	}
}

// c01: differential harness "typed expressions over basic types evaluate exactly as compiled Go".
//
// For every valid combination of
//
//	operator   binary + - * / % & | ^ &^ << >> == != < <= > >=   unary - ^ ! +
//	kind       bool int int8 int16 int32 int64 uint uint8 uint16 uint32 uint64 uintptr float32 float64 complex64 complex128 string
//	           (shifts: count operand of every integer kind)
//	shape      VV (var OP var)  VC (var OP typed-const)  CV (typed-const OP var)  Un (OP var)
//	placement  global | local | cap1..cap4 | capmix | boxed   (where the VARIABLE operands live, see places)
//
// ONE function literal is compiled in the real gomacro interpreter (fast.Interp.Eval), obtained as a real Go func value
// through Interface() and called (reflect.Value.Call) on many operand tuples; run-time panics are mapped to
// panic:div0 / panic:negshift / panic:other(..), a failed Eval to compile_error.  The SAME function literal text is
// rendered into a generated Go program (<out>/oracle/, go.mod `go 1.18`, built once with `go build`) together with the
// same operand tuples as literals; it prints one line per case "<fn id> <row> <%T> <outcome>".  Both sides render values
// with the same code (canon.go is embedded into the oracle).  Value and type are compared line by line; every
// difference is a rep.Fail.  Function literals that go/types rejects (constant zero divisor, negative constant shift
// count) are kept out of the compiled batch: expected outcome compile_error, gomacro must reject them as well.
// No model is ever consulted.  A sample of the integer / bool / string observations (what GOMACRO returned) is written
// as Coq terms `mkCase idx FN SHAPE KIND a b obs` into cases_NNN.v (see coqCase).
//
// Failure keys: "<op> <kind> <shape> <placement> <operands>".  Function literals of a syntactic class with a recorded
// genuine defect (see findingClass) are still evaluated and compared, but all their failures share the fixed class key
// "finding:<name>" (one rep.Fail per class with the first failing case; counts in extra.class_failures).  Every single
// failure is listed in <out>/failures_all.jsonl.  The corpus (built-in input + corpus/C01/*.go.txt) is replayed first.
// Exit status 2 = harness defect (oracle program does not build/run, interpreter globals cannot be set up).
package main

import (
	_ "embed"
	"encoding/json"
	"fmt"
	"go/ast"
	"go/parser"
	"go/token"
	"go/types"
	"hash/fnv"
	"io"
	"math"
	"os"
	"os/exec"
	"path/filepath"
	"reflect"
	"sort"
	"strconv"
	"strings"
	"time"

	"github.com/cosmos72/gomacro/fast"
	"verifh/vh"
)

//go:embed canon.go
var canonSrc string

// ---------------------------------------------------------------- kinds and values

const (
	cBool = iota
	cInt
	cUint
	cFloat
	cComplex
	cString
)

type Kind struct {
	Name string
	Cat  int
	Bits int // integers: width (int, uint, uintptr = 64); float 32/64; complex 64/128
	RT   reflect.Type
}

var kinds = []*Kind{
	{"bool", cBool, 1, reflect.TypeOf(false)},
	{"int", cInt, 64, reflect.TypeOf(int(0))},
	{"int8", cInt, 8, reflect.TypeOf(int8(0))},
	{"int16", cInt, 16, reflect.TypeOf(int16(0))},
	{"int32", cInt, 32, reflect.TypeOf(int32(0))},
	{"int64", cInt, 64, reflect.TypeOf(int64(0))},
	{"uint", cUint, 64, reflect.TypeOf(uint(0))},
	{"uint8", cUint, 8, reflect.TypeOf(uint8(0))},
	{"uint16", cUint, 16, reflect.TypeOf(uint16(0))},
	{"uint32", cUint, 32, reflect.TypeOf(uint32(0))},
	{"uint64", cUint, 64, reflect.TypeOf(uint64(0))},
	{"uintptr", cUint, 64, reflect.TypeOf(uintptr(0))},
	{"float32", cFloat, 32, reflect.TypeOf(float32(0))},
	{"float64", cFloat, 64, reflect.TypeOf(float64(0))},
	{"complex64", cComplex, 64, reflect.TypeOf(complex64(0))},
	{"complex128", cComplex, 128, reflect.TypeOf(complex128(0))},
	{"string", cString, 0, reflect.TypeOf("")},
}

var kBool = kinds[0]

func (k *Kind) IsInt() bool  { return k.Cat == cInt || k.Cat == cUint }
func (k *Kind) Signed() bool { return k.Cat == cInt }

func intKinds() []*Kind {
	var out []*Kind
	for _, k := range kinds {
		if k.IsInt() {
			out = append(out, k)
		}
	}
	return out
}

// norm: canonical 64-bit representation of an integer of kind k (sign- or zero-extended)
func (k *Kind) norm(u uint64) uint64 {
	if k.Bits >= 64 {
		return u
	}
	m := uint64(1)<<uint(k.Bits) - 1
	u &= m
	if k.Cat == cInt && u>>uint(k.Bits-1) != 0 {
		u |= ^m
	}
	return u
}
func (k *Kind) minU() uint64 {
	if k.Cat == cInt {
		return k.norm(uint64(1) << uint(k.Bits-1))
	}
	return 0
}
func (k *Kind) maxU() uint64 {
	if k.Cat == cInt {
		return uint64(1)<<uint(k.Bits-1) - 1
	}
	return k.norm(^uint64(0))
}

// fits: the small constant i is representable in the integer kind k
func (k *Kind) fits(i int64) bool {
	if k.Cat == cInt {
		return k.Bits >= 64 || (i >= -(int64(1)<<uint(k.Bits-1)) && i <= int64(1)<<uint(k.Bits-1)-1)
	}
	return i >= 0 && (k.Bits >= 64 || uint64(i) <= k.maxU())
}

// Val: one operand or result value.  bool: U=0/1; integers: U=norm bits; floats: U=IEEE bits (float32: 32-bit pattern);
// complex: U=real bits, U2=imag bits; string: S.
type Val struct {
	K  *Kind
	U  uint64
	U2 uint64
	S  string
}

func iv(k *Kind, i int64) Val   { return Val{K: k, U: k.norm(uint64(i))} }
func uv(k *Kind, u uint64) Val  { return Val{K: k, U: k.norm(u)} }
func sv(s string) Val           { return Val{K: kinds[16], S: s} }
func bv(b bool) Val             { return Val{K: kBool, U: b2u(b)} }
func fv(k *Kind, f float64) Val { return Val{K: k, U: fbitsOf(k.Bits, f)} }
func b2u(b bool) uint64 {
	if b {
		return 1
	}
	return 0
}
func fbitsOf(bits int, f float64) uint64 {
	if bits == 32 {
		return uint64(math.Float32bits(float32(f)))
	}
	return math.Float64bits(f)
}
func fOf(bits int, u uint64) float64 {
	if bits == 32 {
		return float64(math.Float32frombits(uint32(u)))
	}
	return math.Float64frombits(u)
}

func (v Val) IsZero() bool {
	switch v.K.Cat {
	case cString:
		return v.S == ""
	case cFloat:
		return fOf(v.K.Bits, v.U) == 0
	case cComplex:
		return fOf(v.K.Bits/2, v.U) == 0 && fOf(v.K.Bits/2, v.U2) == 0
	}
	return v.U == 0
}

func (v Val) Reflect() reflect.Value {
	r := reflect.New(v.K.RT).Elem()
	switch v.K.Cat {
	case cBool:
		r.SetBool(v.U != 0)
	case cInt:
		r.SetInt(int64(v.U))
	case cUint:
		r.SetUint(v.U)
	case cFloat:
		r.SetFloat(fOf(v.K.Bits, v.U))
	case cComplex:
		r.SetComplex(complex(fOf(v.K.Bits/2, v.U), fOf(v.K.Bits/2, v.U2)))
	case cString:
		r.SetString(v.S)
	}
	return r
}

func valOf(k *Kind, r reflect.Value) Val {
	v := Val{K: k}
	switch k.Cat {
	case cBool:
		v.U = b2u(r.Bool())
	case cInt:
		v.U = uint64(r.Int())
	case cUint:
		v.U = r.Uint()
	case cFloat:
		v.U = fbitsOf(k.Bits, r.Float())
	case cComplex:
		c := r.Complex()
		v.U, v.U2 = fbitsOf(k.Bits/2, real(c)), fbitsOf(k.Bits/2, imag(c))
	case cString:
		v.S = r.String()
	}
	return v
}

func (v Val) dec() string {
	if v.K.Cat == cInt {
		return strconv.FormatInt(int64(v.U), 10)
	}
	return strconv.FormatUint(v.U, 10)
}

// DataLit: the literal written into the operand tables of the oracle program (element type is known from the table)
func (v Val) DataLit() string {
	fl := func(bits int, u uint64) string {
		if bits == 32 {
			return fmt.Sprintf("math.Float32frombits(%#x)", u)
		}
		return fmt.Sprintf("math.Float64frombits(%#x)", u)
	}
	switch v.K.Cat {
	case cBool:
		return vh.CoqBool(v.U != 0)
	case cInt, cUint:
		return v.dec()
	case cFloat:
		return fl(v.K.Bits, v.U)
	case cComplex:
		return "complex(" + fl(v.K.Bits/2, v.U) + ", " + fl(v.K.Bits/2, v.U2) + ")"
	}
	return strconv.Quote(v.S)
}

// Key: stable readable typed rendering (failure keys, inputs.jsonl); floats as bit patterns
func (v Val) Key() string {
	switch v.K.Cat {
	case cBool:
		return "bool(" + vh.CoqBool(v.U != 0) + ")"
	case cInt, cUint:
		return v.K.Name + "(" + v.dec() + ")"
	case cFloat:
		return fmt.Sprintf("%s(bits %#x)", v.K.Name, v.U)
	case cComplex:
		return fmt.Sprintf("%s(bits %#x,%#x)", v.K.Name, v.U, v.U2)
	}
	return "string(" + strconv.Quote(v.S) + ")"
}

// ---------------------------------------------------------------- Coq rendering (adjust here)

func coqKind(k *Kind) string { return "G" + strings.ToUpper(k.Name[:1]) + k.Name[1:] }

// coqVal: (VInt GInt8 (-5)%Z) | (VInt GUint64 18446744073709551615%Z) | (VBool true) | (VStr [97;98]%N)
func coqVal(v Val) string {
	switch v.K.Cat {
	case cBool:
		return "(VBool " + vh.CoqBool(v.U != 0) + ")"
	case cInt:
		return "(VInt " + coqKind(v.K) + " " + vh.CoqZ(int64(v.U)) + ")"
	case cUint:
		return "(VInt " + coqKind(v.K) + " " + strconv.FormatUint(v.U, 10) + "%Z)"
	case cString:
		return "(VStr " + vh.CoqStr(v.S) + ")"
	}
	panic("coqVal: kind " + v.K.Name + " is never written to Coq")
}

var coqFN = map[string]string{"+": "FN_Add", "-": "FN_Sub", "*": "FN_Mul", "/": "FN_Quo", "%": "FN_Rem", "&": "FN_And", "|": "FN_Or",
	"^": "FN_Xor", "&^": "FN_Andnot", "<<": "FN_Shl", ">>": "FN_Shr", "<": "FN_Lss", ">": "FN_Gtr", "<=": "FN_Leq", ">=": "FN_Geq",
	"==": "FN_Eql", "!=": "FN_Neq", "u-": "FN_UnaryMinus", "u^": "FN_UnaryXor", "u!": "FN_UnaryNot", "u+": "FN_UnaryPlus"}

// coqObs: (ObsVal v) | (ObsPanic PDiv0) | (ObsPanic PNegShift) | ObsCompileError ; "" = not representable (panic:other)
func coqObs(o Outcome) string {
	switch {
	case o.S == "compile_error":
		return "ObsCompileError"
	case o.S == "panic:div0":
		return "(ObsPanic PDiv0)"
	case o.S == "panic:negshift":
		return "(ObsPanic PNegShift)"
	case strings.HasPrefix(o.S, "v:"):
		return "(ObsVal " + coqVal(o.V) + ")"
	}
	return ""
}

// coqCase renders ONE correspondence case:
//
//	mkCase <idx> <FN> <SHAPE> <KIND of the left/only operand> <a> <b> <obs>
//
// a = left operand, b = right operand (whichever of them is the constant is told by SHAPE; for shifts b is the count
// with its own kind; for unary b = VUnit).
func coqCase(idx int, f *Fn, a, b string, obs string) string {
	op := f.Op
	if f.Unary {
		op = "u" + op
	}
	return fmt.Sprintf("mkCase %d %s Sh%s %s %s %s %s", idx, coqFN[op], f.Shape, coqKind(f.KA), a, b, obs)
}

// ---------------------------------------------------------------- value pools and operand sets

type OpSet struct {
	ID    int
	Kinds []*Kind
	Rows  [][]Val
	used  bool
}

type Const struct {
	Text string // typed constant expression, identical in gomacro and Go: int8(-128), float32(0.1), string("ab")
	V    Val
	HasV bool // V is meaningful (integers, bool, string)
}

type Gen struct {
	a        *vh.Args
	thorough bool
	sets     map[string][]*OpSet
	setUse   map[string]int
	allSets  []*OpSet
	fns      []*Fn
	rot      int
	pools    map[string][]Val
}

func (g *Gen) rngFor(key string) *vh.Rng {
	h := fnv.New64a()
	h.Write([]byte(key))
	return vh.NewRng(g.a.Seed ^ h.Sum64())
}

var stringPool = []string{"", "a", "ab", "b", "\x00", "\xff", "héllo", "aa", "abc", "a\x00", "B", "\xf0\x9f\x98\x80"}

func (g *Gen) pool(k *Kind) []Val {
	if p, ok := g.pools[k.Name]; ok {
		return p
	}
	var out []Val
	switch k.Cat {
	case cBool:
		out = []Val{bv(false), bv(true)}
	case cInt, cUint:
		set := map[uint64]bool{}
		add := func(u uint64) { set[k.norm(u)] = true }
		add(0)
		add(1)
		add(^uint64(0))
		add(k.minU())
		add(k.maxU())
		add(k.minU() + 1)
		add(k.maxU() - 1)
		for b := 0; b < k.Bits; b++ {
			p := uint64(1) << uint(b)
			for _, u := range []uint64{p, p - 1, p + 1, -p, -p - 1, -p + 1} {
				add(u)
			}
		}
		var us []uint64
		for u := range set {
			us = append(us, u)
		}
		if k.Cat == cInt {
			sort.Slice(us, func(i, j int) bool { return int64(us[i]) < int64(us[j]) })
		} else {
			sort.Slice(us, func(i, j int) bool { return us[i] < us[j] })
		}
		for _, u := range us {
			out = append(out, Val{K: k, U: u})
		}
	case cFloat:
		out = floatPool(k)
	case cComplex:
		fk := kinds[12]
		if k.Bits == 128 {
			fk = kinds[13]
		}
		parts := floatPool(fk)
		for i := range parts {
			for _, j := range []int{0, 1, 2, 4, 5, 10, (i * 7) % len(parts)} {
				out = append(out, Val{K: k, U: parts[i].U, U2: parts[j].U})
			}
		}
	case cString:
		for _, s := range stringPool {
			out = append(out, sv(s))
		}
	}
	g.pools[k.Name] = out
	return out
}

func floatPool(k *Kind) []Val {
	fs := []float64{0, math.Copysign(0, -1), 1, -1, math.NaN(), math.Inf(1), math.Inf(-1), math.MaxFloat64, -math.MaxFloat64,
		math.SmallestNonzeroFloat64, 0.1, 1.0 / 3, 2, 0.5, 3, 1e-320, 16777217, 9007199254740993, -0.1, 1e30}
	if k.Bits == 32 {
		fs[7], fs[8], fs[9], fs[15] = math.MaxFloat32, -math.MaxFloat32, math.SmallestNonzeroFloat32, 1e-40
	}
	var out []Val
	for _, f := range fs {
		out = append(out, fv(k, f))
	}
	return out
}

func (g *Gen) randVal(k *Kind, r *vh.Rng) Val {
	switch k.Cat {
	case cBool:
		return bv(r.Bool())
	case cInt, cUint:
		return uv(k, r.U64())
	case cFloat:
		if k.Bits == 32 {
			return Val{K: k, U: r.U64() & 0xffffffff}
		}
		return Val{K: k, U: r.U64()}
	case cComplex:
		if k.Bits == 64 {
			return Val{K: k, U: r.U64() & 0xffffffff, U2: r.U64() & 0xffffffff}
		}
		return Val{K: k, U: r.U64(), U2: r.U64()}
	}
	n := r.Intn(9)
	b := make([]byte, n)
	for i := range b {
		b[i] = "ab\x00\xffz"[r.Intn(5)]
	}
	return sv(string(b))
}

func (g *Gen) poolVal(k *Kind, r *vh.Rng) Val {
	p := g.pool(k)
	return p[r.Intn(len(p))]
}

func zeroVal(k *Kind) Val { return Val{K: k} }

func (g *Gen) smallVal(k *Kind, r *vh.Rng) Val {
	if k.IsInt() {
		return iv(k, int64(1+r.Intn(10)))
	}
	return g.poolVal(k, r)
}

// shift counts around the width of the left operand: 0,1,w-1,w,w+1,63,64,65,255 and for signed count kinds -1 and min
func shiftCounts(w int, kb *Kind) []Val {
	var out []Val
	seen := map[uint64]bool{}
	add := func(v Val) {
		if !seen[v.U] {
			seen[v.U] = true
			out = append(out, v)
		}
	}
	for _, c := range []int64{0, 1, int64(w - 1), int64(w), int64(w + 1), 63, 64, 65, 255} {
		if kb.fits(c) {
			add(iv(kb, c))
		}
	}
	if kb.Signed() {
		add(iv(kb, -1))
		add(Val{K: kb, U: kb.minU()})
	}
	return out
}

// pairRow / oneRow: the structured part of the operand generator (row index i of a set)
func (g *Gen) pairRow(k *Kind, i, setIdx int, r *vh.Rng) []Val {
	z := zeroVal(k)
	switch i % 8 {
	case 0:
		if setIdx == 0 && i == 0 {
			return []Val{z, z} // the one trivial case
		}
		if k.Cat == cInt {
			return []Val{{K: k, U: k.minU()}, iv(k, -1)}
		}
		if k.Cat == cUint {
			return []Val{{K: k, U: k.maxU()}, iv(k, 1)}
		}
		return []Val{g.poolVal(k, r), g.poolVal(k, r)}
	case 1:
		return []Val{g.poolVal(k, r), z}
	case 2:
		if i >= 8 || setIdx%2 == 1 {
			return []Val{g.poolVal(k, r), g.poolVal(k, r)}
		}
		return []Val{z, g.poolVal(k, r)}
	case 3:
		x := g.poolVal(k, r)
		if r.Bool() {
			x = g.randVal(k, r)
		}
		return []Val{x, x}
	case 4:
		return []Val{g.poolVal(k, r), g.poolVal(k, r)}
	case 5:
		return []Val{g.randVal(k, r), g.randVal(k, r)}
	case 6:
		return []Val{g.randVal(k, r), g.smallVal(k, r)}
	}
	return []Val{g.poolVal(k, r), g.randVal(k, r)}
}

func (g *Gen) oneRow(k *Kind, i, setIdx int, r *vh.Rng) []Val {
	switch i % 8 {
	case 0:
		if setIdx%4 == 0 && i == 0 {
			return []Val{zeroVal(k)}
		}
		return []Val{g.poolVal(k, r)}
	case 1:
		if k.Cat == cInt {
			return []Val{{K: k, U: k.minU()}}
		}
		if k.Cat == cUint {
			return []Val{{K: k, U: k.maxU()}}
		}
		return []Val{g.poolVal(k, r)}
	case 2:
		if k.IsInt() {
			return []Val{iv(k, -1)}
		}
		return []Val{g.poolVal(k, r)}
	case 3, 4:
		return []Val{g.poolVal(k, r)}
	case 5, 6:
		return []Val{g.randVal(k, r)}
	}
	return []Val{g.smallVal(k, r)}
}

// set returns the next operand set for the key (round robin over the nsets sets generated for the key)
func (g *Gen) set(key string, ks []*Kind, nsets int, mk func(setIdx int, r *vh.Rng) [][]Val) *OpSet {
	ss, ok := g.sets[key]
	if !ok {
		r := g.rngFor(key)
		for i := 0; i < nsets; i++ {
			s := &OpSet{ID: len(g.allSets), Kinds: ks, Rows: mk(i, r)}
			g.allSets = append(g.allSets, s)
			ss = append(ss, s)
		}
		g.sets[key] = ss
	}
	n := g.setUse[key]
	g.setUse[key] = n + 1
	return ss[n%len(ss)]
}

func (g *Gen) mul(quick, thorough int) int {
	if g.thorough {
		return thorough
	}
	return quick
}

func (g *Gen) pairSet(k *Kind) *OpSet {
	nrows := g.mul(8, 24)
	if k.Cat == cBool {
		return g.set("pair:bool", []*Kind{k, k}, 1, func(int, *vh.Rng) [][]Val {
			return [][]Val{{bv(false), bv(false)}, {bv(false), bv(true)}, {bv(true), bv(false)}, {bv(true), bv(true)}}
		})
	}
	return g.set("pair:"+k.Name, []*Kind{k, k}, g.mul(16, 32), func(si int, r *vh.Rng) [][]Val {
		var rows [][]Val
		for i := 0; i < nrows; i++ {
			rows = append(rows, g.pairRow(k, i, si, r))
		}
		return rows
	})
}

func (g *Gen) shiftSet(ka, kb *Kind) *OpSet {
	return g.set("shift:"+ka.Name+":"+kb.Name, []*Kind{ka, kb}, g.mul(4, 8), func(si int, r *vh.Rng) [][]Val {
		var rows [][]Val
		cs := shiftCounts(ka.Bits, kb)
		for rep := 0; rep < g.mul(1, 3); rep++ {
			for i, c := range cs {
				var a Val
				switch (i + si + rep) % 5 {
				case 0:
					a = iv(ka, -1)
				case 1:
					a = g.randVal(ka, r)
				case 2:
					a = g.poolVal(ka, r)
				case 3:
					a = Val{K: ka, U: ka.minU() | 1} // min+1 (signed) / 1 (unsigned)
				default:
					a = g.randVal(ka, r)
				}
				rows = append(rows, []Val{a, c})
			}
			rows = append(rows, []Val{g.randVal(ka, r), iv(kb, int64(r.Intn(ka.Bits+2)))})
		}
		if si == 0 {
			rows = append(rows, []Val{zeroVal(ka), zeroVal(kb)})
		}
		return rows
	})
}

func (g *Gen) oneSet(k *Kind) *OpSet {
	nrows := g.mul(8, 24)
	if k.Cat == cBool {
		return g.set("one:bool", []*Kind{k}, 1, func(int, *vh.Rng) [][]Val { return [][]Val{{bv(false)}, {bv(true)}} })
	}
	return g.set("one:"+k.Name, []*Kind{k}, g.mul(16, 32), func(si int, r *vh.Rng) [][]Val {
		var rows [][]Val
		for i := 0; i < nrows; i++ {
			rows = append(rows, g.oneRow(k, i, si, r))
		}
		return rows
	})
}

func (g *Gen) cntSet(w int, kb *Kind) *OpSet {
	return g.set(fmt.Sprintf("cnt:%d:%s", w, kb.Name), []*Kind{kb}, g.mul(2, 4), func(si int, r *vh.Rng) [][]Val {
		var rows [][]Val
		for _, c := range shiftCounts(w, kb) {
			rows = append(rows, []Val{c})
		}
		for i := 0; i < g.mul(2, 8); i++ {
			rows = append(rows, []Val{iv(kb, int64(r.Intn(w+2)))})
		}
		return rows
	})
}

// ---------------------------------------------------------------- function specifications

var places = []string{"global", "local", "cap1", "cap2", "cap3", "cap4", "capmix", "boxed"}

type Outcome struct {
	S string // v:<canonical value> | panic:div0 | panic:negshift | panic:other(..) | compile_error
	V Val
}

type Fn struct {
	ID       int
	Op       string
	Unary    bool
	KA, KB   *Kind // kind of the left (only) operand, kind of the right operand (count kind for shifts; nil for unary)
	KR       *Kind
	Shape    string // VV VC CV Un
	Place    string
	C        *Const
	Src      string
	Params   []*Kind
	Set      *OpSet
	ExpectCE bool   // go/types rejects the function literal
	CEMsg    string // its message
	KnownKey string // failures of this function are reported under this fixed key (recorded finding)
	Tmpl     string // shape NE (nested.go): the expression text

	gmErr  string
	gmType string // result type of the gomacro func value
	gmFunc string // its full func type
	gm     []Outcome
}

func (f *Fn) opText() string {
	if f.Tmpl != "" {
		return "nested[" + f.Tmpl + "]"
	}
	if f.Unary {
		return "unary" + f.Op
	}
	return f.Op
}

func (f *Fn) kindText() string {
	if f.Op == "<<" || f.Op == ">>" {
		return f.KA.Name + "," + f.KB.Name
	}
	return f.KA.Name
}

// operands: left and right operand of the case (constant included); row < 0: only the constant is known
func (f *Fn) operands(row int) (a, b *Val) {
	var vars []Val
	if row >= 0 {
		vars = f.Set.Rows[row]
	}
	get := func(i int) *Val {
		if i < len(vars) {
			return &vars[i]
		}
		return nil
	}
	cv := func() *Val {
		if f.C.HasV {
			return &f.C.V
		}
		return nil // float / complex constants are only known as text
	}
	switch f.Shape {
	case "VV", "NE":
		return get(0), get(1)
	case "VC":
		return get(0), cv()
	case "CV":
		return cv(), get(0)
	}
	return get(0), nil
}

func (f *Fn) operandText(row int) string {
	var vars []Val
	if row >= 0 {
		vars = f.Set.Rows[row]
	}
	v := func(i int) string {
		if i < len(vars) {
			return vars[i].Key()
		}
		return "*"
	}
	switch f.Shape {
	case "VV", "NE":
		return "a=" + v(0) + " b=" + v(1)
	case "VC":
		return "a=" + v(0) + " c=" + f.C.Text
	case "CV":
		return "c=" + f.C.Text + " b=" + v(0)
	}
	return "a=" + v(0)
}

// Key: "<op> <kind> <shape> <placement> <operands>"
func (f *Fn) Key(row int) string {
	if f.KnownKey != "" {
		return f.KnownKey
	}
	return f.opText() + " " + f.kindText() + " " + f.Shape + " " + f.Place + " " + f.operandText(row)
}

func (f *Fn) wantFuncType() string {
	var ps []string
	for _, p := range f.Params {
		ps = append(ps, p.Name)
	}
	return "func(" + strings.Join(ps, ", ") + ") " + f.KR.Name
}

// buildSrc renders the function literal; the text is used verbatim in gomacro and in the oracle program.
func buildSrc(op string, unary bool, shape, place string, ka, kb, kr *Kind, c *Const) (string, []*Kind) {
	type pv struct {
		name string
		k    *Kind
	}
	var ps []pv // parameters
	switch shape {
	case "VV":
		ps = []pv{{"a", ka}, {"b", kb}}
	case "VC", "Un":
		ps = []pv{{"a", ka}}
	case "CV":
		ps = []pv{{"b", kb}}
	}
	name := map[string]string{} // parameter -> text of the operand that reads the variable
	pre := ""
	for _, p := range ps {
		name[p.name] = p.name
	}
	last := ps[len(ps)-1]
	switch place {
	case "global", "boxed":
		pfx := "g"
		if place == "boxed" {
			pfx = "x"
		}
		for _, p := range ps {
			gn := pfx + p.name + "_" + p.k.Name
			pre += gn + " = " + p.name + "; "
			name[p.name] = gn
		}
	case "local":
		// left variable operand = parameter, right variable operand (CV: the only one) = local copy
		if last.name == "b" {
			pre = "var y " + last.k.Name + " = b; "
			name["b"] = "y"
		}
	case "capmix":
		name[last.name] = "q"
	}
	var expr string
	switch shape {
	case "VV":
		expr = name["a"] + " " + op + " " + name["b"]
	case "VC":
		expr = name["a"] + " " + op + " " + c.Text
	case "CV":
		expr = c.Text + " " + op + " " + name["b"]
	case "Un":
		expr = op + name["a"]
	}
	R := kr.Name
	body := pre + "return " + expr
	dummy := func(i int) string { return fmt.Sprintf("var d%d %s = %s; _ = d%d; ", i, ps[0].k.Name, ps[0].name, i) }
	wrap := func(inner string) string { return "return func() " + R + " { " + inner + " }()" }
	switch place {
	case "cap1", "cap2", "cap3", "cap4":
		n := int(place[3] - '0')
		for i := n; i >= 1; i-- {
			body = wrap(dummy(i) + body)
		}
	case "capmix":
		// left operand (or nothing) read 3 levels up (parameter), the last variable operand 2 levels up (local q of level 1)
		body = wrap("var q " + last.k.Name + " = " + last.name + "; " + wrap(dummy(2)+wrap(dummy(3)+body)))
	}
	var sig string
	if len(ps) == 2 && ps[0].k == ps[1].k {
		sig = "a, b " + ka.Name
	} else {
		var parts []string
		for _, p := range ps {
			parts = append(parts, p.name+" "+p.k.Name)
		}
		sig = strings.Join(parts, ", ")
	}
	var kinds []*Kind
	for _, p := range ps {
		kinds = append(kinds, p.k)
	}
	return "func(" + sig + ") " + R + " { " + body + " }", kinds
}

func isShift(op string) bool { return op == "<<" || op == ">>" }
func isCmp(op string) bool {
	switch op {
	case "==", "!=", "<", "<=", ">", ">=":
		return true
	}
	return false
}

func (g *Gen) add(op string, unary bool, ka, kb *Kind, shape, place string, c *Const) *Fn {
	kr := ka
	if isCmp(op) && !unary {
		kr = kBool
	}
	f := &Fn{ID: len(g.fns), Op: op, Unary: unary, KA: ka, KB: kb, KR: kr, Shape: shape, Place: place, C: c}
	f.Src, f.Params = buildSrc(op, unary, shape, place, ka, kb, kr, c)
	switch {
	case shape == "VV" && isShift(op):
		f.Set = g.shiftSet(ka, kb)
	case shape == "VV":
		f.Set = g.pairSet(ka)
	case shape == "CV" && isShift(op):
		f.Set = g.cntSet(ka.Bits, kb)
	case shape == "CV":
		f.Set = g.oneSet(kb)
	default:
		f.Set = g.oneSet(ka)
	}
	f.KnownKey = findingClass(f)
	g.fns = append(g.fns, f)
	return f
}

// findingClass: SYNTACTIC classes of function literals on which gomacro is known to disagree with compiled Go (genuine
// defects found by this harness).  The class only depends on (operator, kind, shape, constant) - never on an observed
// result.  The functions are still compiled, called and compared like all others; their failures are reported under
// the fixed class key (first failing case as the witness, number of failing cases in extra.class_failures) so that the
// key can be listed in known_findings.json and the 50 failure slots of report.json stay free for anything new.
func findingClass(f *Fn) string {
	if f.C == nil {
		return ""
	}
	cis := func(texts ...string) bool {
		for _, t := range texts {
			if f.C.Text == f.cKind().Name+"("+t+")" {
				return true
			}
		}
		return false
	}
	fl := f.KA.Cat == cFloat || f.KA.Cat == cComplex
	switch {
	case f.Op == "/" && f.Shape == "VC" && f.KA.Cat == cUint && f.KA.Bits == 64 && f.C.HasV && f.C.V.U == ^uint64(0):
		// quoPow2: isLiteralNumber(y, -1) is true for the maximum uint64 -> x / MaxUint64 compiled as -x
		return "finding:quo-const-maxuint64"
	case f.Op == "/" && f.Shape == "VC" && fl && cis("0"):
		// "division by zero" compile error for a float / complex constant zero divisor (Go: +-Inf / NaN at run time)
		return "finding:float-quo-const-zero"
	case f.KA.Cat == cFloat && (f.Op == "*" || f.Op == "+") && cis("0"):
		// x*0 -> 0 (Go: NaN for NaN/Inf, -0 for negative x), 0+x -> x (Go: +0 for x = -0)
		return "finding:float-const-shortcut"
	case f.KA.Cat == cComplex && ((f.Op == "*" && cis("0", "1", "-1")) || (f.Op == "/" && cis("1", "-1")) || (f.Op == "+" && cis("0"))):
		// same shortcuts on complex operands: Go evaluates the full complex product / quotient (NaN from Inf*0, signs of zero)
		return "finding:complex-const-shortcut"
	}
	return ""
}

// cKind: kind of the constant operand
func (f *Fn) cKind() *Kind {
	if f.Shape == "CV" {
		return f.KA
	}
	return f.KB
}

// placesFor: VV and unary use every placement; the constant shapes rotate through the placements in the quick tier
func (g *Gen) placesFor(all bool) []string {
	if all || g.thorough {
		return places
	}
	g.rot++
	return []string{places[g.rot%len(places)], places[(g.rot+3)%len(places)]}
}

func intConst(k *Kind, v Val) *Const {
	return &Const{Text: k.Name + "(" + v.dec() + ")", V: v, HasV: true}
}

// intConsts: i-th list selected by class; values that do not fit are dropped, duplicates removed
func intConsts(k *Kind, small []int64, withMin, withMax, withPow bool) []*Const {
	var out []*Const
	seen := map[uint64]bool{}
	add := func(v Val) {
		if !seen[v.U] {
			seen[v.U] = true
			out = append(out, intConst(k, v))
		}
	}
	for _, s := range small {
		if k.fits(s) {
			add(iv(k, s))
		}
	}
	if withPow {
		add(Val{K: k, U: uint64(1) << uint(k.Bits-2)})
	}
	if withMin && k.Signed() {
		add(Val{K: k, U: k.minU()})
	}
	if withMax {
		add(Val{K: k, U: k.maxU()})
	}
	return out
}

func textConsts(k *Kind, texts ...string) []*Const {
	var out []*Const
	for _, t := range texts {
		out = append(out, &Const{Text: k.Name + "(" + t + ")"})
	}
	return out
}

func strConsts(ss ...string) []*Const {
	var out []*Const
	for _, s := range ss {
		out = append(out, &Const{Text: "string(" + strconv.Quote(s) + ")", V: sv(s), HasV: true})
	}
	return out
}

func (g *Gen) enumerate() {
	ik := intKinds()
	arith := []string{"+", "-", "*", "/", "%", "&", "|", "^", "&^"}
	cmps := []string{"==", "!=", "<", "<=", ">", ">="}
	shifts := []string{"<<", ">>"}
	rotK := 0
	for _, k := range kinds {
		switch k.Cat {
		case cBool:
			for _, op := range []string{"==", "!="} {
				for _, p := range places {
					g.add(op, false, k, k, "VV", p, nil)
				}
				for _, c := range []*Const{{Text: "bool(true)", V: bv(true), HasV: true}, {Text: "bool(false)", V: bv(false), HasV: true}} {
					for _, p := range g.placesFor(false) {
						g.add(op, false, k, k, "VC", p, c)
					}
					for _, p := range g.placesFor(false) {
						g.add(op, false, k, k, "CV", p, c)
					}
				}
			}
			for _, p := range places {
				g.add("!", true, k, nil, "Un", p, nil)
			}
		case cInt, cUint:
			for _, op := range append(append([]string{}, arith...), cmps...) {
				for _, p := range places {
					g.add(op, false, k, k, "VV", p, nil)
				}
				var vc, cv []*Const
				switch {
				case op == "*" || op == "/" || op == "%":
					// powers of two and their negatives, identity/zero shortcuts, MinInt, and the constant ZERO divisor
					vc = intConsts(k, []int64{0, 1, -1, 2, 4, 8, 256, -2, -4, 3, -3, 10}, true, true, true)
					cv = intConsts(k, []int64{0, 1, -1, 2, 7}, true, true, true)
				case isCmp(op):
					vc = intConsts(k, []int64{0, 1, -1}, true, true, false)
					cv = intConsts(k, []int64{0, 1}, true, true, false)
				default:
					vc = intConsts(k, []int64{0, 1, -1, 5}, true, true, true)
					cv = intConsts(k, []int64{0, 1, -1}, true, true, false)
				}
				for _, c := range vc {
					for _, p := range g.placesFor(false) {
						g.add(op, false, k, k, "VC", p, c)
					}
				}
				for _, c := range cv {
					for _, p := range g.placesFor(false) {
						g.add(op, false, k, k, "CV", p, c)
					}
				}
			}
			for _, op := range shifts {
				for _, kb := range ik {
					// quick tier: 4 of the 8 placements per (op, kind, count kind), alternating halves
					ps := places
					if !g.thorough {
						g.rot++
						ps = []string{places[g.rot%2], places[2+g.rot%2], places[4+g.rot%2], places[6+g.rot%2]}
					}
					for _, p := range ps {
						g.add(op, false, k, kb, "VV", p, nil)
					}
				}
				// VC: typed constant count; quick tier: every count value with one signed and one unsigned count kind
				// (rotating), thorough: every count kind.  A negative constant count is a compile error in Go.
				var cks []*Kind
				if g.thorough {
					cks = ik
				} else {
					rotK++
					cks = []*Kind{ik[rotK%5], ik[5+rotK%6], ik[(rotK*3+2)%5]}
				}
				for ci, kb := range cks {
					for _, cval := range shiftCounts(k.Bits, kb) {
						if !g.thorough && ci == 2 && int64(cval.U) >= 0 {
							continue // third (signed) count kind: negative counts only
						}
						for _, p := range g.placesFor(false) {
							g.add(op, false, k, kb, "VC", p, intConst(kb, cval))
						}
					}
				}
				// CV: typed constant shifted by a variable count
				for _, c := range intConsts(k, []int64{0, 1, -1, 3}, true, true, true) {
					var cks2 []*Kind
					if g.thorough {
						cks2 = ik
					} else {
						rotK++
						cks2 = []*Kind{ik[rotK%5], ik[5+rotK%6]}
					}
					for _, kb := range cks2 {
						for _, p := range g.placesFor(false) {
							g.add(op, false, k, kb, "CV", p, c)
						}
					}
				}
			}
			for _, op := range []string{"-", "^", "+"} {
				for _, p := range places {
					g.add(op, true, k, nil, "Un", p, nil)
				}
			}
		case cFloat, cComplex:
			ops := []string{"+", "-", "*", "/", "==", "!="}
			if k.Cat == cFloat {
				ops = append(ops, "<", "<=", ">", ">=")
			}
			for _, op := range ops {
				for _, p := range places {
					g.add(op, false, k, k, "VV", p, nil)
				}
				var vc, cv []*Const
				if k.Cat == cFloat {
					// 1.0000000596046447763 = 1 + 2^-24 + ~2^-60: rounds to different float32 when rounded via float64 first
					vc = textConsts(k, "0", "1", "-1", "2", "0.5", "0.1", "3", "1e30", "1.0000000596046447763")
					cv = textConsts(k, "0", "1", "-1", "0.1")
					if isCmp(op) {
						vc, cv = textConsts(k, "0", "1", "0.1"), textConsts(k, "0", "0.1")
					}
				} else {
					vc = textConsts(k, "0", "1", "-1", "2i", "1.5-2.5i", "0.1+0.1i")
					cv = textConsts(k, "0", "1", "1.5-2.5i")
					if isCmp(op) {
						vc, cv = textConsts(k, "0", "1.5-2.5i"), textConsts(k, "0", "2i")
					}
				}
				for _, c := range vc {
					if op == "/" && strings.HasSuffix(c.Text, "(0)") {
						// class finding:float-quo-const-zero: one function per kind is enough
						g.add(op, false, k, k, "VC", "local", c)
						continue
					}
					for _, p := range g.placesFor(false) {
						g.add(op, false, k, k, "VC", p, c)
					}
				}
				for _, c := range cv {
					for _, p := range g.placesFor(false) {
						g.add(op, false, k, k, "CV", p, c)
					}
				}
			}
			for _, op := range []string{"-", "+"} {
				for _, p := range places {
					g.add(op, true, k, nil, "Un", p, nil)
				}
			}
		case cString:
			for _, op := range append([]string{"+"}, cmps...) {
				for _, p := range places {
					g.add(op, false, k, k, "VV", p, nil)
				}
				for _, c := range strConsts("", "a", "ab", "\x00", "\xff", "héllo") {
					for _, p := range g.placesFor(false) {
						g.add(op, false, k, k, "VC", p, c)
					}
				}
				for _, c := range strConsts("", "ab", "\xff") {
					for _, p := range g.placesFor(false) {
						g.add(op, false, k, k, "CV", p, c)
					}
				}
			}
		}
	}
}

// ---------------------------------------------------------------- compile-error oracle: go/types

func globalDecls() string {
	var sb strings.Builder
	for _, k := range kinds {
		fmt.Fprintf(&sb, "var ga_%s, gb_%s, xa_%s, xb_%s %s\n", k.Name, k.Name, k.Name, k.Name, k.Name)
	}
	return sb.String()
}

// typecheck marks the functions whose literal is rejected by go/types (one declaration per line -> position = function)
func (g *Gen) typecheck() error {
	var sb strings.Builder
	sb.WriteString("package p\n")
	sb.WriteString(globalDecls())
	first := strings.Count(sb.String(), "\n") + 1
	for _, f := range g.fns {
		fmt.Fprintf(&sb, "var _ = %s\n", f.Src)
	}
	fset := token.NewFileSet()
	file, err := parser.ParseFile(fset, "c01.go", sb.String(), 0)
	if err != nil {
		return fmt.Errorf("generated function literals do not parse: %v", err)
	}
	conf := types.Config{GoVersion: "go1.18", Error: func(err error) {
		te, ok := err.(types.Error)
		if !ok || te.Soft {
			return
		}
		line := te.Fset.Position(te.Pos).Line
		if i := line - first; i >= 0 && i < len(g.fns) {
			if !g.fns[i].ExpectCE {
				g.fns[i].ExpectCE, g.fns[i].CEMsg = true, te.Msg
			}
		} else {
			fmt.Fprintln(os.Stderr, "c01: unexpected go/types error outside the function table:", err)
		}
	}}
	conf.Check("p", fset, []*ast.File{file}, nil) // errors are collected by conf.Error
	return nil
}

// ---------------------------------------------------------------- compiled-Go oracle program

const oracleRuntime = `
type P2[A, B any] struct {
	a A
	b B
}
type E2[A, B, R any] struct {
	id int
	s  []P2[A, B]
	f  func(A, B) R
}
type E1[A, R any] struct {
	id int
	s  []A
	f  func(A) R
}

var out = bufio.NewWriterSize(os.Stdout, 1<<20)

func call2[A, B, R any](f func(A, B) R, a A, b B) (s string) {
	defer func() {
		if p := recover(); p != nil {
			s = classifyPanic(p)
		}
	}()
	return "v:" + canonValue(any(f(a, b)))
}
func call1[A, R any](f func(A) R, a A) (s string) {
	defer func() {
		if p := recover(); p != nil {
			s = classifyPanic(p)
		}
	}()
	return "v:" + canonValue(any(f(a)))
}
func run2[A, B, R any](t []E2[A, B, R]) {
	var z R
	ty := fmt.Sprintf("%T", z)
	for _, e := range t {
		for j, p := range e.s {
			fmt.Fprintf(out, "%d %d %s %s\n", e.id, j, ty, call2(e.f, p.a, p.b))
		}
	}
}
func run1[A, R any](t []E1[A, R]) {
	var z R
	ty := fmt.Sprintf("%T", z)
	for _, e := range t {
		for j, a := range e.s {
			fmt.Fprintf(out, "%d %d %s %s\n", e.id, j, ty, call1(e.f, a))
		}
	}
}
`

func (g *Gen) writeOracle(dir string) error {
	if err := os.RemoveAll(dir); err != nil {
		return err
	}
	if err := os.MkdirAll(dir, 0o755); err != nil {
		return err
	}
	files := map[string]string{"go.mod": "module c01oracle\n\ngo 1.18\n", "canon.go": canonSrc}
	// tables of functions grouped by signature
	type table struct {
		name, typ, run string
		rows           []string
	}
	tabs := map[string]*table{}
	var order []string
	for _, f := range g.fns {
		if f.ExpectCE {
			continue
		}
		f.Set.used = true
		var names []string
		for _, p := range f.Params {
			names = append(names, p.Name)
		}
		names = append(names, f.KR.Name)
		key := strings.Join(names, "_")
		t := tabs[key]
		if t == nil {
			t = &table{name: "t_" + key, run: fmt.Sprintf("run%d", len(f.Params)), typ: fmt.Sprintf("E%d[%s]", len(f.Params), strings.Join(names, ", "))}
			tabs[key] = t
			order = append(order, key)
		}
		t.rows = append(t.rows, fmt.Sprintf("\t{%d, s%d, %s},\n", f.ID, f.Set.ID, f.Src))
	}
	var sb strings.Builder
	sb.WriteString("package main\n\nimport (\n\t\"bufio\"\n\t\"fmt\"\n\t\"os\"\n)\n")
	sb.WriteString(oracleRuntime)
	sb.WriteString("\n" + globalDecls())
	sb.WriteString("\nfunc main() {\n")
	for _, key := range order {
		fmt.Fprintf(&sb, "\t%s(%s)\n", tabs[key].run, tabs[key].name)
	}
	sb.WriteString("\tout.Flush()\n}\n")
	files["main.go"] = sb.String()
	// operand sets
	sb.Reset()
	sb.WriteString("package main\n\nimport \"math\"\n\nvar _ = math.Pi\n\n")
	for _, s := range g.allSets {
		if !s.used {
			continue
		}
		if len(s.Kinds) == 1 {
			fmt.Fprintf(&sb, "var s%d = []%s{", s.ID, s.Kinds[0].Name)
			for i, r := range s.Rows {
				if i > 0 {
					sb.WriteString(", ")
				}
				sb.WriteString(r[0].DataLit())
			}
			sb.WriteString("}\n")
		} else {
			fmt.Fprintf(&sb, "var s%d = []P2[%s, %s]{", s.ID, s.Kinds[0].Name, s.Kinds[1].Name)
			for i, r := range s.Rows {
				if i > 0 {
					sb.WriteString(", ")
				}
				sb.WriteString("{" + r[0].DataLit() + ", " + r[1].DataLit() + "}")
			}
			sb.WriteString("}\n")
		}
	}
	files["sets.go"] = sb.String()
	// function tables, split over several files
	sb.Reset()
	nfile, nrows := 0, 0
	flush := func() {
		if sb.Len() > 0 {
			files[fmt.Sprintf("fns_%03d.go", nfile)] = "package main\n\n" + sb.String()
			nfile++
			sb.Reset()
			nrows = 0
		}
	}
	for _, key := range order {
		t := tabs[key]
		fmt.Fprintf(&sb, "var %s = []%s{\n", t.name, t.typ)
		for _, r := range t.rows {
			sb.WriteString(r)
		}
		sb.WriteString("}\n\n")
		nrows += len(t.rows)
		if nrows > 1500 {
			flush()
		}
	}
	flush()
	for name, content := range files {
		if err := os.WriteFile(filepath.Join(dir, name), []byte(content), 0o644); err != nil {
			return err
		}
	}
	return nil
}

type oracleResult struct {
	lines          map[[2]int]string // (fn id, row) -> "<type> <outcome>"
	buildS, runS   float64
	err            error
	stderr, srcDir string
}

func goEnv() []string {
	env := os.Environ()
	return append(env, "GOFLAGS=-mod=mod", "GOPROXY=off", "GOSUMDB=off", "GOTOOLCHAIN=local")
}

func (g *Gen) runOracle(dir string) *oracleResult {
	res := &oracleResult{lines: map[[2]int]string{}, srcDir: dir}
	t0 := time.Now()
	bin := filepath.Join(dir, "oracle.bin")
	cmd := exec.Command("go", "build", "-o", bin, ".")
	cmd.Dir, cmd.Env = dir, goEnv()
	if o, err := cmd.CombinedOutput(); err != nil {
		res.err, res.stderr = fmt.Errorf("go build of the oracle program failed: %v", err), string(o)
		return res
	}
	res.buildS = time.Since(t0).Seconds()
	t0 = time.Now()
	run := exec.Command(bin)
	run.Dir = dir
	var eb strings.Builder
	run.Stderr = &eb
	o, err := run.Output()
	if err != nil {
		res.err, res.stderr = fmt.Errorf("the oracle program failed: %v", err), eb.String()
		return res
	}
	res.runS = time.Since(t0).Seconds()
	os.WriteFile(filepath.Join(dir, "output.txt"), o, 0o644)
	for _, ln := range strings.Split(string(o), "\n") {
		if ln == "" {
			continue
		}
		parts := strings.SplitN(ln, " ", 3)
		if len(parts) != 3 {
			res.err = fmt.Errorf("malformed oracle line %q", ln)
			return res
		}
		id, e1 := strconv.Atoi(parts[0])
		row, e2 := strconv.Atoi(parts[1])
		if e1 != nil || e2 != nil {
			res.err = fmt.Errorf("malformed oracle line %q", ln)
			return res
		}
		res.lines[[2]int{id, row}] = parts[2]
	}
	return res
}

// ---------------------------------------------------------------- the gomacro side

type H struct {
	ir  *fast.Interp
	rep *vh.Report
	a   *vh.Args
	wd  *vh.Watchdog
}

func (h *H) eval(src string) (v interface{}, errs string) {
	p := vh.Catch(func() {
		vals, _ := h.ir.Eval(src)
		if len(vals) > 0 {
			v = vals[0].Interface()
		}
	})
	if p != nil {
		return nil, fmt.Sprint(p)
	}
	return v, ""
}

func (h *H) bindClass(name string) (fast.BindClass, bool) {
	b := h.ir.Comp.Binds[name]
	if b == nil {
		return 0, false
	}
	return b.Desc.Class(), true
}

// setupGlobals declares the interpreter globals used by the placements "global" (ga_K, gb_K: class IntBind for
// bool/int/uint/float/complex kinds) and "boxed" (xa_K, xb_K: class VarBind = reflect.Value slots).  The boxed state:
// after the address of an IntBind global was taken, Env.Ints cannot be reallocated any more; once its capacity
// (>= 1024 slots, see Interp.PrepareEnv) is exhausted Comp.NewBind gives new variables class VarBind.
func (h *H) setupGlobals() error {
	for _, k := range kinds {
		for _, n := range []string{"ga_", "gb_"} {
			if _, err := h.eval("var " + n + k.Name + " " + k.Name); err != "" {
				return fmt.Errorf("declaring %s%s: %s", n, k.Name, err)
			}
			cl, ok := h.bindClass(n + k.Name)
			want := fast.IntBind
			if k.Cat == cString {
				want = fast.VarBind
			}
			if !ok || cl != want {
				return fmt.Errorf("global %s%s has bind class %v, expected %v", n, k.Name, cl, want)
			}
		}
	}
	if _, err := h.eval("var b0 int; pb0 := &b0"); err != "" {
		return fmt.Errorf("taking the address of a global: %s", err)
	}
	n := 0
	for ; ; n++ {
		if n > 5000 {
			return fmt.Errorf("no VarBind class after %d complex128 globals (IntBindMax=%d IntBindNum=%d)", n, h.ir.Comp.IntBindMax, h.ir.Comp.IntBindNum)
		}
		name := fmt.Sprintf("bx%d", n)
		// one declaration per Eval call; complex128 occupies two slots of Env.Ints.  With exactly ONE free slot left a
		// complex128 declaration fails ("internal error: attempt to reallocate Env.Ints[]": NewBind only checks
		// IntBindNum < IntBindMax), so the last slot is filled with an int.
		filler := "complex128"
		if c := h.ir.Comp; c.IntBindMax != 0 && c.IntBindMax-c.IntBindNum < 2 {
			filler = "int"
		}
		if _, err := h.eval("var " + name + " " + filler); err != "" {
			return fmt.Errorf("declaring %s: %s", name, err)
		}
		if cl, _ := h.bindClass(name); cl == fast.VarBind {
			break
		}
	}
	h.rep.Extra["boxed_after_filler_globals"] = n
	h.rep.Extra["IntBindMax"] = h.ir.Comp.IntBindMax
	for _, k := range kinds {
		for _, nm := range []string{"xa_", "xb_"} {
			if _, err := h.eval("var " + nm + k.Name + " " + k.Name); err != "" {
				return fmt.Errorf("declaring %s%s: %s", nm, k.Name, err)
			}
			if cl, ok := h.bindClass(nm + k.Name); !ok || cl != fast.VarBind {
				return fmt.Errorf("global %s%s has bind class %v, expected VarBind", nm, k.Name, cl)
			}
		}
	}
	return nil
}

func callR(fn reflect.Value, args []reflect.Value) (out reflect.Value, pan string) {
	defer func() {
		if p := recover(); p != nil {
			pan = classifyPanic(p)
		}
	}()
	return fn.Call(args)[0], ""
}

// runFn compiles ONE function in gomacro and calls it on every operand tuple of its set
func (h *H) runFn(f *Fn) {
	h.wd.Beat(f.Key(-1) + " :: " + f.Src)
	v, err := h.eval("(" + f.Src + ")")
	if err != "" {
		f.gmErr = err
		return
	}
	fn := reflect.ValueOf(v)
	if !fn.IsValid() || fn.Kind() != reflect.Func {
		f.gmErr = fmt.Sprintf("Eval returned %T, not a func", v)
		return
	}
	f.gmFunc = fn.Type().String()
	if f.gmFunc != f.wantFuncType() {
		return
	}
	f.gmType = fn.Type().Out(0).String()
	f.gm = make([]Outcome, len(f.Set.Rows))
	args := make([]reflect.Value, len(f.Params))
	for i, row := range f.Set.Rows {
		for j := range row {
			args[j] = row[j].Reflect()
		}
		out, pan := callR(fn, args)
		if pan != "" {
			f.gm[i] = Outcome{S: pan}
		} else {
			f.gm[i] = Outcome{S: "v:" + canonValue(out.Interface()), V: valOf(f.KR, out)}
		}
	}
}

// ---------------------------------------------------------------- corpus

const corpusUint64Depth3 = `func f(a uint64) uint64 { var q uint64 = 100; return func() uint64 { var b uint64 = 1; return func() uint64 { var c uint64 = 2; return func() uint64 { var d uint64 = 3; return a+q }() }() }() }`

type corpusItem struct{ key, decl, call, want string }

// corpus: the built-in regression input plus every corpus/C01/*.go.txt (directives `// key:`, `// call:`, `// want:`
// in comment lines, the rest is the declaration)
func loadCorpus() []corpusItem {
	items := []corpusItem{{"corpus:uint64-depth3-read", corpusUint64Depth3, "f(7)", "uint64 107"}}
	dir := os.Getenv("VERIF_DIR")
	if dir == "" {
		dir = "/verif"
	}
	files, _ := filepath.Glob(filepath.Join(dir, "corpus", "C01", "*.go.txt"))
	sort.Strings(files)
	for _, fn := range files {
		b, err := os.ReadFile(fn)
		if err != nil {
			continue
		}
		var it corpusItem
		var decl []string
		for _, ln := range strings.Split(string(b), "\n") {
			t := strings.TrimSpace(ln)
			switch {
			case strings.HasPrefix(t, "// key:"):
				it.key = strings.TrimSpace(t[7:])
			case strings.HasPrefix(t, "// call:"):
				it.call = strings.TrimSpace(t[8:])
			case strings.HasPrefix(t, "// want:"):
				it.want = strings.TrimSpace(t[8:])
			case strings.HasPrefix(t, "//"):
			default:
				decl = append(decl, ln)
			}
		}
		it.decl = strings.TrimSpace(strings.Join(decl, "\n"))
		dup := false
		for _, o := range items {
			dup = dup || o.key == it.key
		}
		if it.key != "" && it.call != "" && !dup {
			items = append(items, it)
		}
	}
	return items
}

func runCorpus(rep *vh.Report, wd *vh.Watchdog) {
	for _, it := range loadCorpus() {
		wd.Beat(it.key)
		ir := fast.New()
		ir.Comp.Globals.Stderr, ir.Comp.Globals.Stdout = io.Discard, io.Discard
		got := ""
		p := vh.Catch(func() {
			ir.Eval(it.decl)
			vals, _ := ir.Eval(it.call)
			if len(vals) > 0 {
				v := vals[0].Interface()
				got = fmt.Sprintf("%T %v", v, v)
			}
		})
		if p != nil {
			got = "panic: " + fmt.Sprint(p)
		}
		if got != it.want {
			rep.Fail(vh.Failure{Key: it.key, What: "corpus regression input differs from compiled Go", Input: map[string]string{"decl": it.decl, "call": it.call}, Got: got, Want: it.want})
		}
		rep.Count(it.key, true)
		rep.Dist("place:corpus")
	}
}

// ---------------------------------------------------------------- main

func outcomeClass(s string) string {
	switch {
	case strings.HasPrefix(s, "v:"):
		return "value"
	case strings.HasPrefix(s, "panic:other"):
		return "panic:other"
	}
	return s
}

type caseRef struct {
	f   *Fn
	row int
}

func main() {
	a := vh.ParseArgs()
	if strconv.IntSize != 64 {
		fmt.Fprintln(os.Stderr, "c01: the harness assumes 64-bit int/uint/uintptr")
		os.Exit(2)
	}
	rule := "one function literal per (operator, kind[, count kind], shape VV|VC|CV|Un, placement global|local|cap1..cap4|capmix|boxed[, typed constant]) over " +
		"binary + - * / % & | ^ &^ << >> == != < <= > >= and unary - ^ ! + on the 17 basic kinds (valid Go combinations only; shifts with a count of every integer kind), " +
		"compiled ONCE in the real interpreter and called through Interface() on operand tuples: boundary values (0, +-1, min, max, min+1, max-1, +-2^k, +-2^k+-1; " +
		"floats +-0, +-1, NaN, +-Inf, max, smallest subnormal, 0.1, 1/3; strings incl. invalid UTF-8) and PRNG values from the seed; shift counts 0,1,w-1,w,w+1,63,64,65,255,-1,min; " +
		"typed constants 0, +-1, +-2^k, 2^(w-2), min, max and a constant ZERO divisor / negative constant shift count (expected compile_error, oracle go/types); " +
		"VV and unary use every placement, constant shapes rotate through the placements in the quick tier; oracle = the same function literal compiled by go build (go 1.18 module) " +
		"called on the same tuples, value (canonical: %d, %t, %q, IEEE bits with one NaN) and %T compared exactly; non-trivial = not all operands (constants included) zero/false/empty; " +
		"distinct by SHA-256 of (op, kinds, shape, placement, constant, operands); " +
		"additionally (shape NE, nested.go, differential only): for every integer kind, 40 constant-shortcut forms (x*0, 0*x, x*1, x*-1, x*2^k, x+0, 0-x, x|0, x|^0, x&0, x&^0, x&-1, x^0, x/1, x/-1, x/2, 0/x, x%1, x%-1, x%4, 0%x, x<<0, x>>0, 0<<x, 0>>x; typed and untyped constants) " +
		"whose non-constant operand is (a / b), (a % b), (a << b), (a >> b) or a call that counts its evaluations (quick: 2 of the 5 per form and kind, rotating), on the (a, b) pair sets (b == 0, b < 0, min/-1 included): the run-time panic / side effect of the operand must be observed exactly as in compiled Go"
	rep := vh.NewReport(a, rule)
	wd := vh.NewWatchdog(rep, 180*time.Second)
	tStart := time.Now()

	// ---- corpus first
	runCorpus(rep, wd)
	rep.Extra["corpus_seconds"] = time.Since(tStart).Seconds()

	// ---- enumerate, classify compile errors, write + build + run the oracle in the background
	g := &Gen{a: a, thorough: a.Thorough(), sets: map[string][]*OpSet{}, setUse: map[string]int{}, pools: map[string][]Val{}}
	g.enumerate()
	g.enumerateNested() // nested.go: constant shortcuts around an operand that panics / has a side effect
	rep.Extra["enumerate_done_at"] = time.Since(tStart).Seconds()
	if err := g.typecheck(); err != nil {
		fmt.Fprintln(os.Stderr, "c01:", err)
		os.Exit(2)
	}
	rep.Extra["typecheck_done_at"] = time.Since(tStart).Seconds()
	odir := a.Path("oracle")
	if err := g.writeOracle(odir); err != nil {
		fmt.Fprintln(os.Stderr, "c01: writing the oracle program:", err)
		os.Exit(2)
	}
	rep.Extra["generate_seconds"] = time.Since(tStart).Seconds()
	orc := make(chan *oracleResult, 1)
	go func() { orc <- g.runOracle(odir) }()

	// ---- gomacro
	ir := fast.New()
	ir.Comp.Globals.Stderr, ir.Comp.Globals.Stdout = io.Discard, io.Discard
	h := &H{ir: ir, rep: rep, a: a, wd: wd}
	wd.Beat("setup globals")
	if err := h.setupGlobals(); err != nil {
		// the boxed / global placements cannot be produced: a harness defect, not a finding
		fmt.Fprintln(os.Stderr, "c01: cannot set up the interpreter globals:", err)
		os.Exit(2)
	}
	tG := time.Now()
	for _, f := range g.fns {
		h.runFn(f)
	}
	rep.Extra["gomacro_seconds"] = time.Since(tG).Seconds()
	// the wait for `go build` is not the implementation's time: keep the watchdog quiet, bound the wait separately
	var res *oracleResult
	for waited := 0; res == nil; waited += 10 {
		wd.Beat("waiting for the oracle build")
		select {
		case res = <-orc:
		case <-time.After(10 * time.Second):
			if waited > 1500 {
				fmt.Fprintln(os.Stderr, "c01: HARNESS DEFECT: the oracle build/run did not finish within 25 minutes")
				os.Exit(2)
			}
		}
	}
	if res.err != nil {
		fmt.Fprintln(os.Stderr, "c01: HARNESS DEFECT:", res.err)
		fmt.Fprintln(os.Stderr, res.stderr)
		os.Exit(2)
	}
	rep.Extra["oracle_build_seconds"] = res.buildS
	rep.Extra["oracle_run_seconds"] = res.runS
	wd.Beat("compare")
	tC := time.Now()

	// ---- compare
	nfail := 0
	var allf *os.File
	classFail := map[string]int{}
	os.Remove(a.Path("failures_all.jsonl"))
	fail := func(f *Fn, row int, what string, got, want string) {
		nfail++
		in := map[string]interface{}{"func": f.Src, "operands": f.operandText(row), "op": f.opText(), "kind": f.kindText(), "shape": f.Shape, "placement": f.Place}
		fl := vh.Failure{Key: f.Key(row), What: what, Input: in, Got: got, Want: want}
		if f.KnownKey != "" {
			classFail[f.KnownKey]++
			fl.What += " [class " + f.KnownKey + ": first failing case, see extra.class_failures and failures_all.jsonl]"
		}
		if f.KnownKey == "" || classFail[f.KnownKey] == 1 {
			rep.Fail(fl)
		}
		if nfail <= 20000 { // report.json keeps the first 50; every failure is listed in failures_all.jsonl
			if allf == nil {
				allf, _ = os.Create(a.Path("failures_all.jsonl"))
			}
			if allf != nil {
				b, _ := json.Marshal(fl)
				allf.Write(append(b, '\n'))
			}
		}
	}
	groups := map[string][]caseRef{}
	var gorder []string
	coqEligible := func(f *Fn) bool {
		ok := func(k *Kind) bool { return k == nil || k.Cat == cBool || k.IsInt() || k.Cat == cString }
		// inputs of a recorded finding class are compared with compiled Go (and reported under the class key) but are
		// not given to the Coq model: the model describes Go, and would flag them a second time as a mismatch
		return ok(f.KA) && ok(f.KB) && f.KnownKey == "" && f.Shape != "NE"
	}
	record := func(f *Fn, row int, outcome string) {
		ax, bx := f.operands(row)
		nontrivial := (ax != nil && !ax.IsZero()) || (bx != nil && !bx.IsZero())
		if f.Shape == "VC" || f.Shape == "CV" {
			if !f.C.HasV && !strings.HasSuffix(f.C.Text, "(0)") {
				nontrivial = true
			}
		}
		rep.Count(f.opText()+" "+f.kindText()+" "+f.Shape+" "+f.Place+" "+f.operandText(row), nontrivial)
		if f.Tmpl != "" {
			rep.Dist("op:nested-const-shortcut")
		} else {
			rep.Dist("op:" + f.opText())
		}
		rep.Dist("kind:" + f.KA.Name)
		rep.Dist("shape:" + f.Shape)
		rep.Dist("place:" + f.Place)
		rep.Dist("outcome:" + outcomeClass(outcome))
		if f.KB != nil && isShift(f.Op) {
			rep.Dist("countkind:" + f.KB.Name)
		}
		if coqEligible(f) {
			gk := f.opText() + "|" + f.KA.Name + "|" + f.Shape
			if _, ok := groups[gk]; !ok {
				gorder = append(gorder, gk)
			}
			groups[gk] = append(groups[gk], caseRef{f, row})
		}
	}
	ncompiled, nce := 0, 0
	for _, f := range g.fns {
		if f.ExpectCE {
			nce++
			if f.gmErr == "" {
				fail(f, -1, "compiled Go (go/types) rejects the expression ("+f.CEMsg+") but gomacro compiles it", "compiles: "+f.gmFunc, "compile_error")
				// the per-row results of gomacro are not comparable with anything
				f.gm = nil
			}
			record(f, -1, "compile_error")
			continue
		}
		ncompiled++
		if f.gmErr != "" {
			fail(f, -1, "gomacro rejects an expression that compiled Go accepts", "compile_error: "+f.gmErr, "compiles, type "+f.wantFuncType())
			record(f, -1, "compile_error")
			continue
		}
		if f.gmFunc != f.wantFuncType() {
			fail(f, -1, "type of the interpreted function differs", f.gmFunc, f.wantFuncType())
			record(f, -1, "compile_error")
			continue
		}
		for i := range f.Set.Rows {
			want, ok := res.lines[[2]int{f.ID, i}]
			if !ok {
				fmt.Fprintf(os.Stderr, "c01: HARNESS DEFECT: the oracle printed no line for function %d row %d (%s)\n", f.ID, i, f.Src)
				os.Exit(2)
			}
			got := f.gmType + " " + f.gm[i].S
			if got != want {
				fail(f, i, "value or type differs from compiled Go", got, want)
			}
			record(f, i, f.gm[i].S)
		}
	}

	// ---- Coq cases: an even sample of every (operator, kind, shape) group of the integer / bool / string cases
	header := "From Coq Require Import List NArith ZArith.\nFrom Verif Require Import Common.GoStr GoLite.Syntax GoLite.Sem C01.Model.\nAdd LoadPath \".\" as Gen.\nFrom Gen Require Gen_binary_ops Gen_binary_shifts Gen_binary_relops Gen_binary_eqlneq Gen_unary_ops Gen_identifier Gen_util.\nImport ListNotations.\nOpen Scope Z_scope.\nDefinition tables := Gen_binary_ops.table ++ Gen_binary_shifts.table ++ Gen_binary_relops.table ++ Gen_binary_eqlneq.table ++ Gen_unary_ops.table ++ Gen_identifier.table ++ Gen_util.table."
	if stale, _ := filepath.Glob(a.Path("cases_*.v")); len(stale) > 0 {
		for _, f := range stale { // shards of an earlier run with more cases
			os.Remove(f)
		}
	}
	cases := vh.NewCases(a, header, "case", "mismatches tables", 400)
	quota := 5
	if a.Thorough() {
		quota = 32
	}
	if a.N > 0 {
		quota = a.N
	}
	idx := 0
	outcomeOf := func(c caseRef) Outcome {
		if c.row < 0 || c.f.gm == nil {
			if c.f.gmErr != "" {
				return Outcome{S: "compile_error"}
			}
			return Outcome{S: "panic:other(not comparable)"}
		}
		return c.f.gm[c.row]
	}
	for _, gk := range gorder {
		cs := groups[gk]
		pick := map[int]bool{}
		for i := 0; i < quota && i < len(cs); i++ {
			pick[i*len(cs)/quota] = true
		}
		// every non-value outcome class of the group is represented at least once
		seen := map[string]bool{}
		for i, c := range cs {
			if o := outcomeOf(c).S; !strings.HasPrefix(o, "v:") && !seen[o] {
				seen[o] = true
				pick[i] = true
			}
		}
		var is []int
		for i := range pick {
			is = append(is, i)
		}
		sort.Ints(is)
		for _, i := range is {
			c := cs[i]
			o := outcomeOf(c)
			obs := coqObs(o)
			if obs == "" {
				continue
			}
			row := c.row
			if row < 0 {
				row = 0 // compile error: any operand value, the first tuple of the set
			}
			ax, bx := c.f.operands(row)
			bs := "VUnit"
			if bx != nil {
				bs = coqVal(*bx)
			}
			cases.Add(coqCase(idx, c.f, coqVal(*ax), bs, obs))
			rep.CaseInput(idx, map[string]string{"func": c.f.Src, "operands": c.f.operandText(row), "placement": c.f.Place, "gomacro": o.S})
			idx++
		}
	}
	cases.Close()
	if allf != nil {
		allf.Close()
	}

	rep.Extra["compare_and_cases_seconds"] = time.Since(tC).Seconds()
	rep.Extra["coq_cases"] = idx
	rep.Extra["functions"] = len(g.fns)
	rep.Extra["functions_compiled_go"] = ncompiled
	rep.Extra["functions_expected_compile_error"] = nce
	rep.Extra["operand_sets"] = len(g.allSets)
	rep.Extra["failures_total"] = nfail
	rep.Extra["class_failures"] = classFail
	rep.Extra["total_seconds"] = time.Since(tStart).Seconds()
	for _, f := range g.fns {
		if len(rep.Samples) >= 4 {
			break
		}
		if f.ID%997 == 5 && f.gm != nil {
			rep.Sample(map[string]string{"func": f.Src, "operands": f.operandText(0), "gomacro": f.gmType + " " + f.gm[0].S})
		}
	}
	rep.Sample("corpus: " + corpusUint64Depth3 + " ; f(7) = 107")
	rep.Write()
}

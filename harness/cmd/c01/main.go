package main

import (
	"fmt"
	"io"
	"reflect"

	"github.com/cosmos72/gomacro/fast"
	"verifh/vh"
)

func main() {
	ir := fast.New()
	ir.Comp.Globals.Stderr = io.Discard
	ev := func(src string) (v interface{}) {
		p := vh.Catch(func() {
			vals, _ := ir.Eval(src)
			if len(vals) > 0 {
				v = vals[0].Interface()
			}
		})
		if p != nil {
			fmt.Println("ERR", src, "=>", p)
		}
		return v
	}
	ev("var ga_int8 int8")
	fmt.Println(ir.Comp.Binds["ga_int8"].Desc.Class())
	ev("var b0 int; pb0 := &b0")
	fmt.Println("IntBindMax", ir.Comp.IntBindMax, ir.Comp.IntBindNum)
	for i := 0; i < 1000; i++ {
		n := fmt.Sprintf("bx%d", i)
		ev("var " + n + " int16")
		if ir.Comp.Binds[n].Desc.Class() == fast.VarBind {
			fmt.Println("boxed at", i, ir.Comp.IntBindMax, ir.Comp.IntBindNum)
			break
		}
	}
	ev("var xa_c128 complex128")
	fmt.Println(ir.Comp.Binds["xa_c128"].Desc.Class())
	for _, s := range []string{
		`(func(a, b int8) int8 { return func() int8 { var d1 int8 = a; _ = d1; return func() int8 { var d2 int8 = a; _ = d2; return a + b }() }() })`,
		`(func(a int8, b int16) int8 { return a << b })`,
		`(func(a string) string { return a + string("ab\x00\xff") })`,
		`(func(a float64) float64 { return a / float64(0) })`,
		`(func(a int8) int8 { return a / int8(0) })`,
		`(func(a int8) int8 { return a << int8(-1) })`,
		`(func(a int8) int8 { return a << uint8(200) })`,
		`(func(a int8) int8 { ga_int8 = a; return +ga_int8 })`,
		`(func(a complex64) complex64 { return a * complex64(1.5-2i) })`,
		`(func(a bool) bool { return a == bool(true) })`,
		`(func(a uintptr) uintptr { return a &^ uintptr(18446744073709551615) })`,
	} {
		v := ev(s)
		fmt.Println(reflect.TypeOf(v))
	}
	f := ev(`(func(a int8, b int16) int8 { return a << b })`).(func(int8, int16) int8)
	fmt.Println(vh.Catch(func() { f(1, -1) }))
	g := ev(`(func(a, b int8) int8 { return func() int8 { var d1 int8 = a; _ = d1; return func() int8 { var d2 int8 = a; _ = d2; return a / b }() }() })`).(func(int8, int8) int8)
	fmt.Println(vh.Catch(func() { g(1, 0) }))
	fmt.Println(g(7, 2), g(-128, -1))
}

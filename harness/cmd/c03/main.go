// c03: conversions T(x) between basic, string and byte/rune slice types (fast/convert.go Comp.convert, Converter, convert;
// base/untyped/lit.go Lit.Convert / ConvertLiteralCheckOverflow for constant operands).
//
// Direct oracles (never the Coq model):
//
//	(T) go/types on a tiny package: which conversions compile (per ordered type pair, and per constant operand)
//	(G) one batched compiled-Go program: the converted values (floats/complex as IEEE bit patterns)
//	(E) rejection before execution: every Eval is `hook(); T(x)`; a rejected conversion must leave the hook counter unchanged
//
// Correspondence: kind-pair decisions, integer wraps, int->string, string<->[]rune/[]byte and constant conversions are
// emitted as Coq cases for coq/C03/Model.v.
package main

import (
	"encoding/json"
	"fmt"
	"go/ast"
	"go/parser"
	"go/token"
	"go/types"
	"io"
	"math"
	"math/big"
	"os"
	"os/exec"
	"path/filepath"
	"reflect"
	"sort"
	"strconv"
	"strings"
	"time"

	"github.com/cosmos72/gomacro/fast"
	"verifh/vh"
)

// ---------- the type universe ----------
type ty struct {
	Name  string // Go spelling
	Coq   string
	Under string // underlying type spelling
	Decl  string // declaration for named types
}

var tys = []ty{
	{"bool", "Ybool", "bool", ""}, {"int", "Yint", "int", ""}, {"int8", "Yint8", "int8", ""}, {"int16", "Yint16", "int16", ""},
	{"int32", "Yint32", "int32", ""}, {"int64", "Yint64", "int64", ""}, {"uint", "Yuint", "uint", ""}, {"uint8", "Yuint8", "uint8", ""},
	{"uint16", "Yuint16", "uint16", ""}, {"uint32", "Yuint32", "uint32", ""}, {"uint64", "Yuint64", "uint64", ""}, {"uintptr", "Yuintptr", "uintptr", ""},
	{"float32", "Yfloat32", "float32", ""}, {"float64", "Yfloat64", "float64", ""}, {"complex64", "Ycomplex64", "complex64", ""},
	{"complex128", "Ycomplex128", "complex128", ""}, {"string", "Ystring", "string", ""}, {"[]byte", "Ybytes", "[]byte", ""}, {"[]rune", "Yrunes", "[]rune", ""},
	{"MyBool", "Nbool", "bool", "type MyBool bool"}, {"MyInt", "Nint", "int", "type MyInt int"}, {"MyInt8", "Nint8", "int8", "type MyInt8 int8"},
	{"MyUint8", "Nuint8", "uint8", "type MyUint8 uint8"}, {"MyUint32", "Nuint32", "uint32", "type MyUint32 uint32"},
	{"MyFloat64", "Nfloat64", "float64", "type MyFloat64 float64"}, {"MyComplex128", "Ncomplex128", "complex128", "type MyComplex128 complex128"},
	{"MyString", "Nstring", "string", "type MyString string"}, {"MyBytes", "Nbytes", "[]byte", "type MyBytes []byte"}, {"MyRunes", "Nrunes", "[]rune", "type MyRunes []rune"},
}

func decls() string {
	var sb strings.Builder
	for _, t := range tys {
		if t.Decl != "" {
			sb.WriteString(t.Decl + "\n")
		}
	}
	return sb.String()
}

type irange struct {
	signed bool
	bits   uint
}

var intKinds = map[string]irange{"int": {true, 64}, "int8": {true, 8}, "int16": {true, 16}, "int32": {true, 32}, "int64": {true, 64},
	"uint": {false, 64}, "uint8": {false, 8}, "uint16": {false, 16}, "uint32": {false, 32}, "uint64": {false, 64}, "uintptr": {false, 64}}
var ikCoq = map[string]string{"int": "I64", "int8": "I8", "int16": "I16", "int32": "I32", "int64": "I64", "uint": "U64", "uint8": "U8", "uint16": "U16", "uint32": "U32", "uint64": "U64", "uintptr": "U64"}

func (r irange) min() *big.Int {
	if !r.signed {
		return big.NewInt(0)
	}
	return new(big.Int).Neg(new(big.Int).Lsh(big.NewInt(1), r.bits-1))
}
func (r irange) max() *big.Int {
	if r.signed {
		return new(big.Int).Sub(new(big.Int).Lsh(big.NewInt(1), r.bits-1), big.NewInt(1))
	}
	return new(big.Int).Sub(new(big.Int).Lsh(big.NewInt(1), r.bits), big.NewInt(1))
}
func (r irange) has(z *big.Int) bool { return z.Cmp(r.min()) >= 0 && z.Cmp(r.max()) <= 0 }

func isFloat(u string) bool   { return u == "float32" || u == "float64" }
func isComplex(u string) bool { return u == "complex64" || u == "complex128" }

// a source value: Lit is a Go expression of the UNDERLYING type's literal form (untyped constant where possible)
type val struct {
	Lit   string
	Int   *big.Int // for integer sources
	F     float64  // for float sources
	Str   string   // for string/[]byte sources
	Runes []int32  // for []rune sources
}

var strVals = []string{"", "abc", "é世\U0001F600", "\xff\xfe", "\xed\xa0\x80", "a\xc3", "\xf4\x90\x80\x80", "\xc0\x80", "\xe4\xb8", "z\xf0\x9f\x98\x80\x80"}

func valuesFor(under string, rng *vh.Rng, n int) []val {
	var out []val
	switch {
	case under == "bool":
		return []val{{Lit: "true"}, {Lit: "false"}}
	case isFloat(under):
		for _, f := range []float64{0, 1.5, 100.9, 0.1, 16777217, -2.75, 126.99, 3e9, -1e18} {
			out = append(out, val{Lit: strconv.FormatFloat(f, 'g', -1, 64), F: f})
		}
		if n >= 10 {
			// thorough tier: PRNG values with a 24-bit mantissa (exactly representable as float32 and float64, so
			// floatFits is exact for both source kinds), magnitudes 2^-30 .. 2^64
			for i := 0; i < n/2; i++ {
				f := math.Ldexp(float64(rng.U64()>>40), rng.Intn(71)-30)
				if rng.Bool() {
					f = -f
				}
				out = append(out, val{Lit: strconv.FormatFloat(f, 'g', -1, 64), F: f})
			}
		}
		return out
	case isComplex(under):
		return []val{{Lit: "0"}, {Lit: "(1.5+2i)"}, {Lit: "(0.1-0.1i)"}, {Lit: "(16777217+1e-3i)"}}
	case under == "string" || under == "[]byte":
		for _, s := range strVals {
			out = append(out, val{Lit: strconv.Quote(s), Str: s})
		}
		return out
	case under == "[]rune":
		for _, rs := range [][]int32{{}, {65, 0x4e16, 0x1F600}, {0xD800, 66}, {-1, 0x110000, 0x10FFFF}, {0, 0x7f, 0x80, 0x7ff, 0x800, 0xffff, 0x10000}, {0xDFFF, 0xE000, 0xFFFD}} {
			var parts []string
			for _, r := range rs {
				parts = append(parts, fmt.Sprint(r))
			}
			out = append(out, val{Lit: "{" + strings.Join(parts, ", ") + "}", Runes: rs})
		}
		return out
	}
	r := intKinds[under]
	cands := []*big.Int{r.min(), r.max(), big.NewInt(0), big.NewInt(1), big.NewInt(-1), big.NewInt(65), big.NewInt(127), big.NewInt(128), big.NewInt(255), big.NewInt(256),
		big.NewInt(0x4e16), big.NewInt(0xD800), big.NewInt(0x10FFFF), big.NewInt(0x110000), big.NewInt(-128), big.NewInt(-129), big.NewInt(1 << 31), big.NewInt(1<<32 + 65),
		new(big.Int).Add(r.min(), big.NewInt(1)), new(big.Int).Sub(r.max(), big.NewInt(1))}
	for i := 0; i < n; i++ {
		z := new(big.Int).SetUint64(rng.U64() >> uint(rng.Intn(64)))
		if rng.Bool() {
			z.Neg(z)
		}
		cands = append(cands, z)
	}
	seen := map[string]bool{}
	for _, z := range cands {
		if r.has(z) && !seen[z.String()] {
			seen[z.String()] = true
			out = append(out, val{Lit: z.String(), Int: z})
		}
	}
	return out
}

// srcExpr: expression of type S holding value v
func srcExpr(S ty, v val) string {
	switch S.Under {
	case "[]byte":
		return S.Name + "(" + v.Lit + ")"
	case "[]rune":
		return S.Name + v.Lit
	}
	return S.Name + "(" + v.Lit + ")"
}

// inRangeForTarget: float->integer conversions are compared only when the truncated value fits the target
func floatFits(f float64, T ty) bool {
	r, ok := intKinds[T.Under]
	if !ok {
		return true
	}
	t := math.Trunc(f)
	z, _ := new(big.Float).SetFloat64(t).Int(nil)
	return r.has(z)
}

// ---------- canonical values ----------
func canonValue(x interface{}) string {
	v := reflect.ValueOf(x)
	switch v.Kind() {
	case reflect.Bool:
		return fmt.Sprint(v.Bool())
	case reflect.Int, reflect.Int8, reflect.Int16, reflect.Int32, reflect.Int64:
		return fmt.Sprintf("%s:%d", v.Kind(), v.Int())
	case reflect.Uint, reflect.Uint8, reflect.Uint16, reflect.Uint32, reflect.Uint64, reflect.Uintptr:
		return fmt.Sprintf("%s:%d", v.Kind(), v.Uint())
	case reflect.Float32:
		return fmt.Sprintf("float32:%08x", math.Float32bits(float32(v.Float())))
	case reflect.Float64:
		return fmt.Sprintf("float64:%016x", math.Float64bits(v.Float()))
	case reflect.Complex64:
		c := complex64(v.Complex())
		return fmt.Sprintf("complex64:%08x:%08x", math.Float32bits(real(c)), math.Float32bits(imag(c)))
	case reflect.Complex128:
		c := v.Complex()
		return fmt.Sprintf("complex128:%016x:%016x", math.Float64bits(real(c)), math.Float64bits(imag(c)))
	case reflect.String:
		return fmt.Sprintf("string:%q", v.String())
	case reflect.Slice:
		var sb strings.Builder
		fmt.Fprintf(&sb, "[]%s:", v.Type().Elem().Kind())
		for i := 0; i < v.Len(); i++ {
			e := v.Index(i)
			if e.Kind() == reflect.Uint8 {
				fmt.Fprintf(&sb, "%d,", e.Uint())
			} else {
				fmt.Fprintf(&sb, "%d,", e.Int())
			}
		}
		return sb.String()
	}
	return fmt.Sprintf("?%T", x)
}

const canonSrc = `
func canon(x interface{}) string {
	v := reflect.ValueOf(x)
	switch v.Kind() {
	case reflect.Bool:
		return fmt.Sprint(v.Bool())
	case reflect.Int, reflect.Int8, reflect.Int16, reflect.Int32, reflect.Int64:
		return fmt.Sprintf("%s:%d", v.Kind(), v.Int())
	case reflect.Uint, reflect.Uint8, reflect.Uint16, reflect.Uint32, reflect.Uint64, reflect.Uintptr:
		return fmt.Sprintf("%s:%d", v.Kind(), v.Uint())
	case reflect.Float32:
		return fmt.Sprintf("float32:%08x", math.Float32bits(float32(v.Float())))
	case reflect.Float64:
		return fmt.Sprintf("float64:%016x", math.Float64bits(v.Float()))
	case reflect.Complex64:
		c := complex64(v.Complex())
		return fmt.Sprintf("complex64:%08x:%08x", math.Float32bits(real(c)), math.Float32bits(imag(c)))
	case reflect.Complex128:
		c := v.Complex()
		return fmt.Sprintf("complex128:%016x:%016x", math.Float64bits(real(c)), math.Float64bits(imag(c)))
	case reflect.String:
		return fmt.Sprintf("string:%q", v.String())
	case reflect.Slice:
		var sb strings.Builder
		fmt.Fprintf(&sb, "[]%s:", v.Type().Elem().Kind())
		for i := 0; i < v.Len(); i++ {
			e := v.Index(i)
			if e.Kind() == reflect.Uint8 {
				fmt.Fprintf(&sb, "%d,", e.Uint())
			} else {
				fmt.Fprintf(&sb, "%d,", e.Int())
			}
		}
		return sb.String()
	}
	return fmt.Sprintf("?%T", x)
}
`

// ---------- cases ----------
type ccase struct {
	Idx   int    `json:"idx"`
	S     string `json:"from"`
	T     string `json:"to"`
	Mode  string `json:"mode"` // var (non-constant operand) | typedconst | untypedconst
	Expr  string `json:"expr"` // the conversion expression
	Setup string `json:"setup,omitempty"`
	s, t  ty
	v     val
	// observations
	goOK    bool
	goCanon string
	gmOK    bool
	gmCanon string
	gmType  string
	gmMsg   string
	hookRan bool
}

func (c *ccase) key() string { return c.Mode + " " + c.Expr }

var ir *fast.Interp
var hookCount int

func evalGomacro(c *ccase) {
	before := hookCount
	p := vh.Catch(func() {
		vals, typs := ir.Eval("hook(); " + c.Expr)
		if len(vals) != 1 || !vals[0].IsValid() {
			c.gmMsg = "no value"
			return
		}
		c.gmCanon = canonValue(vals[0].Interface())
		if len(typs) == 1 && typs[0] != nil {
			c.gmType = typs[0].Name()
			if c.gmType == "" {
				c.gmType = typs[0].String()
			}
		}
		c.gmOK = true
	})
	if p != nil {
		c.gmMsg = fmt.Sprint(p)
	}
	c.hookRan = hookCount != before
}

func checkLines(src string) map[int]string {
	bad := map[int]string{}
	fset := token.NewFileSet()
	f, err := parser.ParseFile(fset, "p.go", src, parser.AllErrors|parser.SkipObjectResolution)
	if err != nil || f == nil {
		bad[0] = fmt.Sprint(err)
		return bad
	}
	conf := types.Config{Error: func(err error) {
		if te, ok := err.(types.Error); ok {
			bad[te.Fset.Position(te.Pos).Line] = te.Msg
		}
	}}
	conf.Check("p", fset, []*ast.File{f}, nil)
	return bad
}

func typeCheck(cases []*ccase, rep *vh.Report) {
	var sb strings.Builder
	sb.WriteString("package p\n")
	sb.WriteString(decls())
	base := strings.Count(sb.String(), "\n") + 1
	for i, c := range cases {
		fmt.Fprintf(&sb, "var src%d = %s; var v%d = %s\n", i, orUnderscore(c.Setup), i, c.Expr)
	}
	bad := checkLines(sb.String())
	if m, ok := bad[0]; ok {
		rep.Fail(vh.Failure{Key: "oracle-parse", What: "oracle package does not parse", Got: m})
	}
	for i, c := range cases {
		_, isBad := bad[base+i]
		c.goOK = !isBad
	}
}

func orUnderscore(s string) string {
	if s == "" {
		return "0"
	}
	return s
}

func compileBatch(dir string, cases []*ccase, rep *vh.Report) {
	os.MkdirAll(dir, 0o755)
	os.WriteFile(filepath.Join(dir, "go.mod"), []byte("module oracle\n\ngo 1.18\n"), 0o644)
	var sb strings.Builder
	sb.WriteString("package main\n\nimport (\n\t\"fmt\"\n\t\"math\"\n\t\"reflect\"\n\t\"strings\"\n)\n")
	sb.WriteString(decls())
	sb.WriteString(canonSrc)
	sb.WriteString("func main() {\n")
	for i, c := range cases {
		if c.goOK {
			fmt.Fprintf(&sb, "\t{ s := %s; _ = s; fmt.Println(%d, canon(%s)) }\n", orUnderscore(c.Setup), i, strings.ReplaceAll(c.Expr, fmt.Sprintf("src%d", c.Idx), "s"))
		}
	}
	sb.WriteString("}\n")
	os.WriteFile(filepath.Join(dir, "main.go"), []byte(sb.String()), 0o644)
	cmd := exec.Command("go", "build", "-gcflags=-e", "-o", "oracle.bin", ".")
	cmd.Dir = dir
	if out, err := cmd.CombinedOutput(); err != nil {
		o := string(out)
		if len(o) > 3000 {
			o = o[:3000]
		}
		rep.Fail(vh.Failure{Key: "oracle-build", What: "compiled-Go oracle program does not build", Got: o})
		return
	}
	res, err := exec.Command(filepath.Join(dir, "oracle.bin")).Output()
	if err != nil {
		rep.Fail(vh.Failure{Key: "oracle-run", What: "compiled-Go oracle program failed", Got: err.Error()})
		return
	}
	for _, l := range strings.Split(strings.TrimSpace(string(res)), "\n") {
		sp := strings.IndexByte(l, ' ')
		if sp < 0 {
			continue
		}
		i, _ := strconv.Atoi(l[:sp])
		cases[i].goCanon = l[sp+1:]
	}
}

// ---------- Coq rendering ----------
func coqZ(z *big.Int) string {
	if z.Sign() < 0 {
		return "(" + z.String() + ")"
	}
	return z.String()
}
func coqZList(xs []int64) string {
	if len(xs) == 0 {
		return "(@nil Z)"
	}
	var p []string
	for _, x := range xs {
		if x < 0 {
			p = append(p, fmt.Sprintf("(%d)", x))
		} else {
			p = append(p, fmt.Sprint(x))
		}
	}
	return "[" + strings.Join(p, ";") + "]"
}
func bytesZ(s string) []int64 {
	out := make([]int64, len(s))
	for i := 0; i < len(s); i++ {
		out[i] = int64(s[i])
	}
	return out
}

// parse "[]uint8:1,2," / "[]int32:..," into numbers
func sliceOfCanon(c string) []int64 {
	i := strings.IndexByte(c, ':')
	var out []int64
	for _, p := range strings.Split(c[i+1:], ",") {
		if p != "" {
			n, _ := strconv.ParseInt(p, 10, 64)
			out = append(out, n)
		}
	}
	return out
}
func intOfCanon(c string) *big.Int {
	i := strings.IndexByte(c, ':')
	z, _ := new(big.Int).SetString(c[i+1:], 10)
	return z
}
func strOfCanon(c string) string {
	i := strings.IndexByte(c, ':')
	s, _ := strconv.Unquote(c[i+1:])
	return s
}

type corpusEntry struct {
	Setup string `json:"setup"`
	Expr  string `json:"expr"`
}

func main() {
	a := vh.ParseArgs()
	rng := vh.NewRng(a.Seed)
	rep := vh.NewReport(a, "conversions T(x): all 29x29 ordered pairs of {17 basic kinds, []byte, []rune, 10 named variants}; per source type boundary values (min, max, 0, +-1, 65, 127/128, 255/256, 0x4e16, surrogate 0xD800, 0x10FFFF, 0x110000, 1<<31, 1<<32+65, ...) plus PRNG values; "+
		"strings/[]byte with valid, truncated, overlong, surrogate and out-of-range UTF-8; []rune with invalid code points; floats incl. values needing rounding, in the thorough tier also PRNG floats with 24-bit mantissas and exponents -30..40 (float->integer only when the truncated value fits the target; no float overflow); "+
		"three operand modes: variable (non-constant), typed constant S(lit), untyped constant lit; every Eval is `hook(); T(x)`: a rejected conversion must not run the hook; "+
		"oracle: go/types (compiles or not) + one compiled Go program (values as canonical text, IEEE bit patterns) + static result type name; corpus/C03/*.json replayed first. "+
		"stream constedge (differential only): untyped float/complex constants at the edges of float32/float64/complex64/complex128 (and named variants): underflow to zero (1e-400, 1e-5000, products), the rounding boundary of the smallest subnormal (half, just above half, 1.5x, quarter), -0.0, max, overflow (compile error expected), with both signs, in real / imaginary / both parts, converted explicitly T(c) and implicitly (var x T = c, return c, const k T = c, x = c), observed as IEEE bits and through 1/x (sign of zero: +Inf / -Inf); "+
		"A case is non-trivial when source and target types differ and Go accepts it; distinct by SHA-256 of mode+expression")
	ir = fast.New()
	ir.Comp.Globals.Stderr = io.Discard
	ir.Comp.Globals.Stdout = io.Discard
	ir.DeclFunc("hook", func() { hookCount++ })
	for _, t := range tys {
		if t.Decl != "" {
			ir.Eval(t.Decl)
		}
	}
	nRand := 3
	if a.Thorough() {
		nRand = 40
	}

	var cases []*ccase
	add := func(c *ccase) {
		c.Idx = len(cases)
		c.Expr = strings.ReplaceAll(c.Expr, "src#", fmt.Sprintf("src%d", c.Idx))
		cases = append(cases, c)
	}
	// corpus first
	if dir := os.Getenv("VERIF_DIR"); dir != "" {
		files, _ := filepath.Glob(filepath.Join(dir, "corpus", "C03", "*.json"))
		sort.Strings(files)
		for _, f := range files {
			var es []corpusEntry
			if b, err := os.ReadFile(f); err == nil && json.Unmarshal(b, &es) == nil {
				for _, e := range es {
					add(&ccase{Mode: "corpus", Expr: e.Expr, Setup: e.Setup})
					rep.Dist("stream:corpus")
				}
			}
		}
	}
	nCorpus := len(cases)
	// the pair table: one representative per pair (non-constant operand, zero value of S) -> convertibility decision
	pairIdx := map[[2]int]int{}
	for si, S := range tys {
		vals := valuesFor(S.Under, rng, nRand)
		for ti, T := range tys {
			for vi, v := range vals {
				if isFloat(S.Under) && !floatFits(v.F, T) {
					continue
				}
				c := &ccase{S: S.Name, T: T.Name, Mode: "var", s: S, t: T, v: v, Setup: srcExpr(S, v), Expr: T.Name + "(src#)"}
				if strings.HasPrefix(T.Name, "[]") {
					c.Expr = "(" + T.Name + ")(src#)"
				}
				add(c)
				if vi == 0 {
					pairIdx[[2]int{si, ti}] = c.Idx
				}
				// constant operands (not for slices: no slice constants)
				if !strings.HasPrefix(S.Under, "[]") && (vi < 4 || a.Thorough()) {
					tn := T.Name
					if strings.HasPrefix(tn, "[]") {
						tn = "(" + tn + ")"
					}
					add(&ccase{S: S.Name, T: T.Name, Mode: "typedconst", s: S, t: T, v: v, Expr: tn + "(" + S.Name + "(" + v.Lit + "))"})
					if S.Decl == "" {
						add(&ccase{S: S.Name, T: T.Name, Mode: "untypedconst", s: S, t: T, v: v, Expr: tn + "(" + v.Lit + ")"})
					}
				}
			}
		}
	}

	// constedge.go: untyped float/complex constants at the underflow / overflow edges of the target, both signs
	for _, e := range constEdgeExprs() {
		add(&ccase{Mode: "constedge", Expr: e})
		rep.Dist("stream:constedge")
	}

	typeCheck(cases, rep)
	compileBatch(a.Path("oracle"), cases, rep)
	// the watchdog guards the implementation only: it starts after the (slow, load-dependent) oracle build,
	// and is generous because a single Eval can take minutes of wall time on a heavily loaded machine
	wd := vh.NewWatchdog(rep, 10*time.Minute)

	header := "From Coq Require Import List NArith ZArith QArith.\nFrom Verif Require Import Common.GoInt C03.Model.\nImport ListNotations.\nOpen Scope Z_scope."
	cw := vh.NewCases(a, header, "case", "mismatches", 700)
	fail := func(c *ccase, what string, got, want interface{}) {
		rep.Dist("FAIL:" + what)
		rep.Fail(vh.Failure{Key: c.key(), What: what, Input: c, Got: got, Want: want})
	}
	tyIndex := map[string]int{}
	for i, t := range tys {
		tyIndex[t.Name] = i
	}
	for _, c := range cases {
		wd.Beat(c.key())
		if c.Setup != "" {
			if p := vh.Catch(func() { ir.Eval(fmt.Sprintf("src%d := %s", c.Idx, c.Setup)) }); p != nil {
				fail(c, "gomacro cannot build the source value", fmt.Sprint(p), c.Setup)
				continue
			}
		}
		evalGomacro(c)
		rep.Count(c.key(), c.goOK && (c.S != c.T || c.Mode == "constedge"))
		rep.Dist("mode:" + c.Mode)
		switch {
		case !c.goOK:
			rep.Dist("result:go_rejects")
			if c.gmOK {
				fail(c, "gomacro accepts a conversion that Go rejects at compile time", c.gmCanon, "compile error")
			}
			if c.hookRan {
				fail(c, "rejected conversion was not rejected before execution (hook ran)", c.gmMsg, "hook must not run")
			}
		case !c.gmOK:
			rep.Dist("result:go_accepts")
			fail(c, "gomacro rejects a conversion that Go accepts", c.gmMsg, c.goCanon)
		default:
			rep.Dist("result:go_accepts")
			if c.gmCanon != c.goCanon {
				fail(c, "converted value differs from compiled Go", c.gmCanon, c.goCanon)
			}
			if !c.hookRan {
				fail(c, "hook did not run although the evaluation succeeded (harness broken)", nil, nil)
			}
			if c.Mode != "corpus" && c.Mode != "constedge" && c.gmType != c.T && !(c.t.Decl == "" && strings.Contains(c.gmType, c.t.Under)) && !aliasName(c.gmType, c.T) {
				fail(c, "static result type differs", c.gmType, c.T)
			}
		}
		if c.Idx%301 == 7 {
			rep.Sample(map[string]string{"expr": c.Expr, "setup": c.Setup, "gomacro": c.gmCanon, "go": c.goCanon})
		}
		if c.Mode == "corpus" || c.Mode == "constedge" {
			continue
		}
		// ---- model cases (observations are gomacro's)
		si, ti := tyIndex[c.S], tyIndex[c.T]
		if c.Mode == "var" && pairIdx[[2]int{si, ti}] == c.Idx {
			cw.Add(fmt.Sprintf("KPair %d %s %s %s", c.Idx, c.s.Coq, c.t.Coq, vh.CoqBool(c.gmOK)))
			rep.CaseInput(c.Idx, c)
		}
		if !c.gmOK {
			if c.Mode != "var" && c.v.Int != nil {
				if _, ok := intKinds[c.t.Under]; ok {
					cw.Add(fmt.Sprintf("KConstInt %d %s %s None", c.Idx, ikCoq[c.t.Under], coqZ(c.v.Int)))
					rep.CaseInput(c.Idx, c)
				}
			}
			continue
		}
		_, sInt := intKinds[c.s.Under]
		_, tInt := intKinds[c.t.Under]
		switch {
		case sInt && tInt && c.Mode == "var":
			cw.Add(fmt.Sprintf("KInt %d %s %s %s", c.Idx, ikCoq[c.t.Under], coqZ(c.v.Int), coqZ(intOfCanon(c.gmCanon))))
			rep.CaseInput(c.Idx, c)
		case sInt && tInt:
			cw.Add(fmt.Sprintf("KConstInt %d %s %s (Some %s)", c.Idx, ikCoq[c.t.Under], coqZ(c.v.Int), coqZ(intOfCanon(c.gmCanon))))
			rep.CaseInput(c.Idx, c)
		case sInt && c.t.Under == "string":
			cw.Add(fmt.Sprintf("KIntStr %d %s %s", c.Idx, coqZ(c.v.Int), coqZList(bytesZ(strOfCanon(c.gmCanon)))))
			rep.CaseInput(c.Idx, c)
		case (c.s.Under == "string" || c.s.Under == "[]byte") && c.t.Under == "[]rune" && c.s.Under == "string":
			cw.Add(fmt.Sprintf("KStrRunes %d %s %s", c.Idx, coqZList(bytesZ(c.v.Str)), coqZList(sliceOfCanon(c.gmCanon))))
			rep.CaseInput(c.Idx, c)
		case c.s.Under == "[]rune" && c.t.Under == "string":
			var rs []int64
			for _, r := range c.v.Runes {
				rs = append(rs, int64(r))
			}
			cw.Add(fmt.Sprintf("KRunesStr %d %s %s", c.Idx, coqZList(rs), coqZList(bytesZ(strOfCanon(c.gmCanon)))))
			rep.CaseInput(c.Idx, c)
		case c.s.Under == "string" && c.t.Under == "[]byte":
			cw.Add(fmt.Sprintf("KStrBytes %d %s %s", c.Idx, coqZList(bytesZ(c.v.Str)), coqZList(sliceOfCanon(c.gmCanon))))
			rep.CaseInput(c.Idx, c)
		case c.s.Under == "[]byte" && c.t.Under == "string":
			cw.Add(fmt.Sprintf("KStrBytes %d %s %s", c.Idx, coqZList(bytesZ(c.v.Str)), coqZList(bytesZ(strOfCanon(c.gmCanon)))))
			rep.CaseInput(c.Idx, c)
		}
	}
	cw.Close()
	rep.Extra["corpus_cases"] = nCorpus
	rep.Extra["type_pairs"] = len(tys) * len(tys)
	rep.Write()
}

func aliasName(got, want string) bool {
	m := map[string]string{"uint8": "byte", "int32": "rune", "[]uint8": "[]byte", "[]int32": "[]rune"}
	return m[got] == want || m[want] == got || got == want
}

package main

// Stream "constedge" (differential only, no Coq case): untyped floating-point / complex CONSTANTS at the edges of the
// target's range converted to float32, float64, complex64, complex128 and named variants - magnitudes that underflow to
// zero, sit exactly on / next to the rounding boundary of the smallest subnormal, the literal -0.0, products of
// constants that underflow - with BOTH signs, in the real part, the imaginary part or both.  Go spec (Representability):
// the constant is rounded with round-to-even "but with an IEEE negative zero further simplified to an unsigned zero";
// the sign of a zero result is observable in the IEEE bit pattern that the oracle compares and through 1/x (+Inf / -Inf).
// Constants that overflow the target are compile errors (oracle: go/types; gomacro must reject before execution).
// Every conversion is written explicitly T(c), and implicitly (var x T = c; return c; const k T = c; x = c).

import "strings"

func constEdgeExprs() []string {
	type tgt struct {
		name    string
		cplx    bool
		single  bool
		elemTyp string // type of real(x)
	}
	tgts := []tgt{{"float32", false, true, "float32"}, {"float64", false, false, "float64"}, {"MyFloat64", false, false, "float64"},
		{"complex64", true, true, "float32"}, {"complex128", true, false, "float64"}, {"MyComplex128", true, false, "float64"}}
	// magnitudes (positive literals); d = relevant for double precision targets, s = for single precision targets
	mags64 := []string{"1e-400", "1e-5000", "(1e-200 * 1e-200)", "0x1p-1075", "0x1.0000000000001p-1075", "0x1p-1074", "0x1.8p-1075", "0x1p-1076", "4.9e-324", "2.4e-324", "2.5e-324",
		"0.0", "0", "1e-320", "1.7976931348623157e308", "1e309", "0x1p1024"}
	mags32 := []string{"1e-50", "1e-400", "(1e-30 * 1e-30)", "0x1p-150", "0x1.000002p-150", "0x1p-149", "0x1.8p-150", "0x1p-151", "1.4e-45", "7e-46", "7.1e-46",
		"0.0", "0", "1e-40", "3.4028234e38", "1e39", "0x1p128"}
	var out []string
	add := func(s string) { out = append(out, s) }
	for _, t := range tgts {
		mags := mags64
		if t.single {
			mags = mags32
		}
		T := t.name
		for _, m := range mags {
			for _, sign := range []string{"", "-"} {
				var consts []string
				if !t.cplx {
					consts = []string{sign + m}
				} else {
					im := m + "i"
					if strings.HasPrefix(m, "(") {
						im = "(" + m + " * 1i)"
					}
					consts = []string{sign + m, sign + im, "(" + sign + m + " " + orPlus(sign) + " " + im + ")", "(1 " + orPlus(sign) + " " + im + ")", "(" + sign + m + " + 2i)"}
				}
				for _, c := range consts {
					add(T + "(" + c + ")")
					add("(func() " + T + " { var x " + T + " = " + c + "; return x })()")
					add("(func() " + T + " { return " + c + " })()")
					add("(func() " + T + " { const k " + T + " = " + c + "; return k })()")
					if !t.cplx {
						add("(func() " + T + " { x := " + T + "(" + c + "); return 1 / x })()")
						add("(func() " + T + " { var x " + T + "; x = " + c + "; return 1 / x })()")
						add("(func() " + T + " { x := " + T + "(1); return x / " + T + "(" + c + ") })()")
					} else {
						add("(func() " + t.elemTyp + " { x := " + T + "(" + c + "); return 1 / real(x) })()")
						add("(func() " + t.elemTyp + " { var x " + T + " = " + c + "; return 1 / imag(x) })()")
					}
				}
			}
		}
	}
	return out
}

func orPlus(sign string) string {
	if sign == "" {
		return "+"
	}
	return sign
}

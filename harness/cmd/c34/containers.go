// containers.go: random operation scripts over the reflection-based container methods of xreflect/cti_method.go.
//
// A script is a sequence of contract-method calls on a few variables of one container type (slice of E, [8]E,
// map[K]E, chan E, string).  Every step is executed twice: by the real interpreter (the method call, as a top-level
// statement or through an interpreted wrapper function) and by the corresponding Go operator / builtin compiled
// into this program on a mirrored state.  After EVERY step the complete observable state of every variable is
// compared: nil-ness, len, cap, the elements up to len AND the elements between len and cap (re-slice to the
// capacity), so a result with the right contents but the wrong capacity, or an Append / Copy / SetIndex that aliases
// (or fails to alias) another variable, is a failure with the script prefix as concrete failing input.
// Run-time panics are compared by class (panic:index, panic:nilmap, panic:closed).
package main

import (
	"encoding/json"
	"fmt"
	"os"
	"path/filepath"
	"reflect"
	"sort"
	"strings"

	"verifh/vh"
)

func classifyC(p interface{}) string {
	if p == nil {
		return ""
	}
	s := fmt.Sprint(p)
	switch {
	case strings.Contains(s, "out of range"), strings.Contains(s, "out of bounds"):
		return "panic:index"
	case strings.Contains(s, "nil map"):
		return "panic:nilmap"
	case strings.Contains(s, "closed channel"), strings.Contains(s, "close of nil"), strings.Contains(s, "close of closed"):
		return "panic:closed"
	case strings.Contains(s, "nil pointer"), strings.Contains(s, "invalid memory"):
		return "panic:nilptr"
	}
	return "panic:other(" + s + ")"
}

// script: the statements executed so far (the concrete failing input is the prefix up to the failing step)
type script struct {
	h     *H
	world string
	decl  []string
	steps []string
	bad   bool
}

func (sc *script) input() map[string]interface{} {
	return map[string]interface{}{"generics": "GENERICS_V2_CTI", "world": sc.world, "declarations": sc.decl, "statements": append([]string{}, sc.steps...)}
}

func (sc *script) fail(what string, got, want interface{}) {
	if sc.bad {
		return // one failure per script: later steps run on a diverged state
	}
	sc.bad = true
	last := ""
	if len(sc.steps) > 0 {
		last = sc.steps[len(sc.steps)-1]
	}
	sc.h.rep.Fail(vh.Failure{Key: "container:" + sc.world + ":" + last, What: "container CTI method differs from the compiled Go operator/builtin: " + what,
		Input: sc.input(), Got: fmt.Sprint(got), Want: fmt.Sprint(want)})
}

// exec runs one statement/expression in the interpreter; returns the result values and the panic class
func (sc *script) exec(src string) (vals []reflect.Value, pan string) {
	sc.steps = append(sc.steps, src)
	p := vh.Catch(func() {
		vs, _ := sc.h.ir.Eval(src)
		for _, v := range vs {
			vals = append(vals, v.ReflectValue())
		}
	})
	return vals, classifyC(p)
}

// quiet evaluation of an observation (not part of the script)
func (sc *script) peek(src string) (v reflect.Value, err string) {
	p := vh.Catch(func() {
		vs, _ := sc.h.ir.Eval(src)
		if len(vs) > 0 {
			v = vs[0].ReflectValue()
		}
	})
	if p != nil {
		return reflect.Value{}, fmt.Sprint(p)
	}
	return v, ""
}

func native(f func()) string { return classifyC(vh.Catch(f)) }

// obsSlice: canonical observation of a slice value: nil-ness, len, cap, elements up to cap
func obsSlice(v reflect.Value) string {
	if !v.IsValid() || v.Kind() != reflect.Slice {
		return fmt.Sprintf("<not a slice: %v>", v)
	}
	full := v.Slice(0, v.Cap())
	return fmt.Sprintf("nil=%v len=%d cap=%d elems=%#v", v.IsNil(), v.Len(), v.Cap(), full.Interface())
}

// ---------------------------------------------------------------- Coq cases for Verif.C34.ContModel
// descriptors are taken from the implementation's own reflect.Values: operand before the call (offset 0 by convention),
// result after the call; the offset of the result is the pointer difference in elements when it lies in the operand's array
type rdesc struct {
	ptr      uintptr
	len, cap int
	ok       bool
}

func descOf(v reflect.Value) rdesc {
	if !v.IsValid() || v.Kind() != reflect.Slice {
		return rdesc{}
	}
	return rdesc{v.Pointer(), v.Len(), v.Cap(), true}
}

func (h *H) contCase(kind string, before, after rdesc, size uintptr, args []int, pan string, input interface{}) {
	if !before.ok || before.cap == 0 || len(h.ccases) >= h.cquota {
		return
	}
	obs := "OPanic"
	if pan == "" {
		if !after.ok {
			return
		}
		lo, hi := before.ptr, before.ptr+uintptr(before.cap)*size
		if after.cap == 0 || (after.ptr >= lo && after.ptr <= hi) {
			off := 0
			if after.cap != 0 {
				off = int((after.ptr - lo) / size)
			}
			obs = fmt.Sprintf("(OSl %d %d %d)", off, after.len, after.cap)
		} else {
			obs = fmt.Sprintf("(OFresh %d)", after.len)
		}
	} else if pan != "panic:index" {
		return
	}
	var as []string
	for _, a := range args {
		as = append(as, vh.CoqZ(int64(a)))
	}
	h.ccases = append(h.ccases, fmt.Sprintf("%s %d %d %d %s %s", kind, h.idx, before.len, before.cap, strings.Join(as, " "), obs))
	h.rep.CaseInput(h.idx, input)
	h.idx++
}

func (h *H) writeContCases() {
	const per = 300
	for n := 0; n*per < len(h.ccases); n++ {
		e := (n + 1) * per
		if e > len(h.ccases) {
			e = len(h.ccases)
		}
		var sb strings.Builder
		sb.WriteString("From Coq Require Import List ZArith.\nFrom Verif Require Import C34.ContModel.\nImport ListNotations.\nOpen Scope Z_scope.\n")
		sb.WriteString("Definition cases : list ccase := [\n " + strings.Join(h.ccases[n*per:e], ";\n ") + "\n].\n")
		sb.WriteString("Definition verif_mismatches : list Z := Eval vm_compute in cmismatches cases.\nPrint verif_mismatches.\n")
		if err := os.WriteFile(h.a.Path(fmt.Sprintf("cases_cont_%03d.v", n)), []byte(sb.String()), 0o644); err != nil {
			panic(err)
		}
	}
	h.rep.Extra["coq_container_cases"] = len(h.ccases)
}

// ---------------------------------------------------------------- slices and arrays
type elemGen[E comparable] struct {
	name string
	rnd  func(r *vh.Rng) E
}

func lit(x interface{}) string { return fmt.Sprintf("%#v", x) }

const arrN = 8

// sliceWorld runs nscripts scripts on variables s (base: slice, or array a when arr), t, u of type []E
func sliceWorld[E comparable](h *H, g elemGen[E], arr bool, nscripts, nsteps int) {
	r := h.rng
	world := "[]" + g.name
	if arr {
		world = fmt.Sprintf("[%d]%s", arrN, g.name)
	}
	isByte := g.name == "uint8" || g.name == "byte"
	for n := 0; n < nscripts; n++ {
		h.wd.Beat(fmt.Sprint(world, " script ", n))
		sc := &script{h: h, world: world}
		// fresh names per script: gomacro globals persist in the interpreter
		pfx := fmt.Sprintf("v%d_", h.nscript)
		h.nscript++
		S, T, U := pfx+"s", pfx+"t", pfx+"u"
		var a [arrN]E
		var s, t, u []E
		ln := r.Intn(9)
		if arr {
			ln = arrN
		}
		var elems []string
		for i := 0; i < ln; i++ {
			e := g.rnd(r)
			elems = append(elems, lit(e))
			if arr {
				a[i] = e
			} else {
				s = append(s, e)
			}
		}
		if arr {
			sc.decl = append(sc.decl, fmt.Sprintf("var %s = [%d]%s{%s}", S, arrN, g.name, strings.Join(elems, ", ")))
		} else if ln == 0 && r.Bool() {
			sc.decl = append(sc.decl, fmt.Sprintf("var %s []%s", S, g.name))
			s = nil
		} else {
			// spare capacity in the base slice: make + copy
			extra := r.Intn(4)
			sc.decl = append(sc.decl, fmt.Sprintf("var %s = make([]%s, %d, %d)", S, g.name, ln, ln+extra))
			base := make([]E, ln, ln+extra)
			copy(base, s)
			s = base
			for i, e := range elems {
				sc.decl = append(sc.decl, fmt.Sprintf("%s[%d] = %s", S, i, e))
			}
		}
		sc.decl = append(sc.decl, fmt.Sprintf("var %s, %s []%s", T, U, g.name))
		// interpreted wrappers: the same methods called from a compiled function body
		W := pfx + "w"
		sc.decl = append(sc.decl,
			fmt.Sprintf("func %s3(x []%s, i, j, k int) []%s { return x.Slice3(i, j, k) }", W, g.name, g.name),
			fmt.Sprintf("func %s2(x []%s, i, j int) []%s { return x.Slice(i, j) }", W, g.name, g.name),
			fmt.Sprintf("func %sa(x []%s, v %s) []%s { return x.Append(v) }", W, g.name, g.name, g.name),
			fmt.Sprintf("func %sc(x []%s) int { return x.Cap() }", W, g.name))
		ok := true
		for _, d := range sc.decl {
			if p := vh.Catch(func() { h.ir.Eval(d) }); p != nil {
				sc.steps = append(sc.steps, d)
				sc.fail("declaration fails", p, "compiles")
				ok = false
				break
			}
		}
		if !ok {
			continue
		}
		// variables: index 0 = base (s or a), 1 = t, 2 = u
		names := []string{S, T, U}
		slot := func(i int) *[]E {
			switch i {
			case 1:
				return &t
			case 2:
				return &u
			}
			return &s
		}
		// cur(i): the current value of variable i as a slice (array: a[:])
		capOf := func(i int) int {
			if i == 0 && arr {
				return arrN
			}
			return cap(*slot(i))
		}
		lenOf := func(i int) int {
			if i == 0 && arr {
				return arrN
			}
			return len(*slot(i))
		}
		observe := func() {
			for i, nm := range names {
				var want string
				src := nm
				if i == 0 && arr {
					src = nm + "[:]"
					want = obsSlice(reflect.ValueOf(a[:]))
				} else {
					want = obsSlice(reflect.ValueOf(*slot(i)))
				}
				v, err := sc.peek(src)
				got := err
				if err == "" {
					got = obsSlice(v)
				}
				if got != want {
					sc.fail("state of "+nm+" after the last statement (nil-ness, len, cap, elements up to cap)", got, want)
					return
				}
			}
		}
		idx := func(limit int) int { // mostly valid index in [0,limit), sometimes out of range
			if r.Chance(1, 12) {
				return []int{-1, limit, limit + 1}[r.Intn(3)]
			}
			if limit <= 0 {
				return 0
			}
			return r.Intn(limit)
		}
		var zero E
		esize := reflect.TypeOf(zero).Size()
		operand := func(y int) rdesc { // descriptor of variable y in the interpreter, before the call
			src := names[y]
			if arr && y == 0 {
				src += "[:]"
			}
			v, _ := sc.peek(src)
			return descOf(v)
		}
		observe()
		for step := 0; step < nsteps && !sc.bad; step++ {
			y := r.Intn(3)     // operand variable
			x := 1 + r.Intn(2) // destination variable (t or u)
			Y, X := names[y], names[x]
			yIsArr := arr && y == 0
			var vals []reflect.Value
			var gp, wp string
			op := r.Intn(12)
			switch op {
			case 0, 1: // Slice
				c := capOf(y)
				i, j := r.Intn(c+1), r.Intn(c+1)
				if i > j && !r.Chance(1, 10) {
					i, j = j, i
				}
				if r.Chance(1, 12) {
					j = c + 1 + r.Intn(2)
				}
				src := fmt.Sprintf("%s = %s.Slice(%d, %d)", X, Y, i, j)
				if !yIsArr && r.Chance(1, 4) {
					src = fmt.Sprintf("%s = %s2(%s, %d, %d)", X, W, Y, i, j)
				}
				before := operand(y)
				_, gp = sc.exec(src)
				h.contCase("KSlice", before, operand(x), esize, []int{i, j}, gp, src)
				wp = native(func() {
					if yIsArr {
						*slot(x) = a[i:j]
					} else {
						*slot(x) = (*slot(y))[i:j]
					}
				})
			case 2, 3, 4: // Slice3
				c := capOf(y)
				ix := []int{r.Intn(c + 1), r.Intn(c + 1), r.Intn(c + 1)}
				if !r.Chance(1, 10) {
					sort.Ints(ix)
				}
				if r.Chance(1, 12) {
					ix[2] = c + 1 + r.Intn(2)
				}
				src := fmt.Sprintf("%s = %s.Slice3(%d, %d, %d)", X, Y, ix[0], ix[1], ix[2])
				if !yIsArr && r.Chance(1, 4) {
					src = fmt.Sprintf("%s = %s3(%s, %d, %d, %d)", X, W, Y, ix[0], ix[1], ix[2])
				}
				before := operand(y)
				_, gp = sc.exec(src)
				h.contCase("KSlice3", before, operand(x), esize, ix, gp, src)
				wp = native(func() {
					if yIsArr {
						*slot(x) = a[ix[0]:ix[1]:ix[2]]
					} else {
						*slot(x) = (*slot(y))[ix[0]:ix[1]:ix[2]]
					}
				})
			case 5, 6: // Append (slices only)
				if yIsArr {
					y, Y, yIsArr = x, X, false
				}
				k := r.Intn(4)
				var vs []E
				var ls []string
				for i := 0; i < k; i++ {
					e := g.rnd(r)
					vs = append(vs, e)
					ls = append(ls, lit(e))
				}
				src := fmt.Sprintf("%s = %s.Append(%s)", X, Y, strings.Join(ls, ", "))
				if k == 1 && r.Bool() {
					src = fmt.Sprintf("%s = %sa(%s, %s)", X, W, Y, ls[0])
				} else if isByte && r.Chance(1, 3) {
					bs := make([]byte, k)
					for i, e := range vs {
						bs[i] = any(e).(uint8)
					}
					src = fmt.Sprintf("%s = %s.AppendString(%q)", X, Y, string(bs))
				}
				before := operand(y)
				_, gp = sc.exec(src)
				h.contCase("KAppend", before, operand(x), esize, []int{k}, gp, src)
				wp = native(func() { *slot(x) = append(*slot(y), vs...) })
			case 7: // SetIndex / AddrIndex store
				i := idx(lenOf(y))
				e := g.rnd(r)
				if r.Bool() {
					_, gp = sc.exec(fmt.Sprintf("%s.SetIndex(%d, %s)", Y, i, lit(e)))
				} else {
					_, gp = sc.exec(fmt.Sprintf("*%s.AddrIndex(%d) = %s", Y, i, lit(e)))
				}
				wp = native(func() {
					if yIsArr {
						a[i] = e
					} else {
						(*slot(y))[i] = e
					}
				})
			case 8: // Copy: destination Y, source a slice variable (never the array itself)
				z := 1 + r.Intn(2)
				if !arr && r.Chance(1, 3) {
					z = 0
				}
				if isByte && r.Chance(1, 3) && !yIsArr {
					k := r.Intn(5)
					bs := make([]byte, k)
					for i := range bs {
						bs[i] = any(g.rnd(r)).(uint8)
					}
					_, gp = sc.exec(fmt.Sprintf("%s.CopyString(%q)", Y, string(bs)))
					wp = native(func() { copy(any(*slot(y)).([]byte), string(bs)) })
				} else {
					_, gp = sc.exec(fmt.Sprintf("%s.Copy(%s)", Y, names[z]))
					wp = native(func() {
						if yIsArr {
							copy(a[:], *slot(z))
						} else {
							copy(*slot(y), *slot(z))
						}
					})
				}
			case 9: // Index
				i := idx(lenOf(y))
				vals, gp = sc.exec(fmt.Sprintf("%s.Index(%d)", Y, i))
				var want E
				wp = native(func() {
					if yIsArr {
						want = a[i]
					} else {
						want = (*slot(y))[i]
					}
				})
				if gp == "" && wp == "" && (len(vals) != 1 || vals[0].Interface() != any(want)) {
					sc.fail("result of Index", fmt.Sprint(vals), want)
				}
			case 10: // Len
				vals, gp = sc.exec(Y + ".Len()")
				if gp == "" && (len(vals) != 1 || vals[0].Interface() != any(lenOf(y))) {
					sc.fail("result of Len", fmt.Sprint(vals), lenOf(y))
				}
			case 11: // Cap
				src := Y + ".Cap()"
				if !yIsArr && r.Chance(1, 3) {
					src = fmt.Sprintf("%sc(%s)", W, Y)
				}
				vals, gp = sc.exec(src)
				if gp == "" && (len(vals) != 1 || vals[0].Interface() != any(capOf(y))) {
					sc.fail("result of Cap", fmt.Sprint(vals), capOf(y))
				}
			}
			if gp != wp {
				sc.fail("run-time panic class", "["+gp+"]", "["+wp+"]")
			}
			observe()
			h.rep.Count(fmt.Sprint("cscript:", world, sc.steps[len(sc.steps)-1], "|", lenOf(0), lenOf(1), lenOf(2), capOf(1), capOf(2)), true)
			h.rep.Dist(fmt.Sprintf("container:%s:op%d", map[bool]string{false: "slice", true: "array"}[arr], op))
		}
	}
}

// ---------------------------------------------------------------- maps
func mapWorld(h *H, nscripts, nsteps int) {
	r := h.rng
	keys := []string{"", "a", "b", "ab", "zz", "\x00", "k1", "k2"}
	for n := 0; n < nscripts; n++ {
		h.wd.Beat(fmt.Sprint("map[string]int script ", n))
		sc := &script{h: h, world: "map[string]int"}
		M := fmt.Sprintf("m%d_m", h.nscript)
		h.nscript++
		var m map[string]int
		switch r.Intn(4) {
		case 0:
			sc.decl = []string{fmt.Sprintf("var %s map[string]int", M)}
		default:
			m = map[string]int{}
			var kv []string
			for i, k := 0, r.Intn(4); i < k; i++ {
				key := keys[r.Intn(len(keys))]
				if _, dup := m[key]; dup {
					continue
				}
				m[key] = r.Intn(100) - 50
				kv = append(kv, fmt.Sprintf("%q: %d", key, m[key]))
			}
			sc.decl = []string{fmt.Sprintf("var %s = map[string]int{%s}", M, strings.Join(kv, ", "))}
		}
		if p := vh.Catch(func() { h.ir.Eval(sc.decl[0]) }); p != nil {
			sc.fail("declaration fails", p, "compiles")
			continue
		}
		for step := 0; step < nsteps && !sc.bad; step++ {
			key := keys[r.Intn(len(keys))]
			var vals []reflect.Value
			var gp, wp string
			op := r.Intn(5)
			switch op {
			case 0:
				v := r.Intn(100) - 50
				_, gp = sc.exec(fmt.Sprintf("%s.SetIndex(%q, %d)", M, key, v))
				wp = native(func() { m[key] = v })
			case 1:
				_, gp = sc.exec(fmt.Sprintf("%s.DelIndex(%q)", M, key))
				wp = native(func() { delete(m, key) })
			case 2:
				vals, gp = sc.exec(fmt.Sprintf("%s.Index(%q)", M, key))
				if gp == "" && (len(vals) != 1 || vals[0].Interface() != any(m[key])) {
					sc.fail("result of Index", fmt.Sprint(vals), m[key])
				}
			case 3:
				vals, gp = sc.exec(fmt.Sprintf("%s.TryIndex(%q)", M, key))
				wv, wok := m[key]
				if gp == "" && (len(vals) != 2 || vals[0].Interface() != any(wv) || vals[1].Interface() != any(wok)) {
					sc.fail("result of TryIndex", fmt.Sprint(vals), fmt.Sprint(wv, wok))
				}
			case 4:
				vals, gp = sc.exec(M + ".Len()")
				if gp == "" && (len(vals) != 1 || vals[0].Interface() != any(len(m))) {
					sc.fail("result of Len", fmt.Sprint(vals), len(m))
				}
			}
			if gp != wp {
				sc.fail("run-time panic class", "["+gp+"]", "["+wp+"]")
			}
			if v, err := sc.peek(M); err != "" || v.Kind() != reflect.Map || v.IsNil() != (m == nil) || !reflect.DeepEqual(v.Interface(), m) {
				sc.fail("state of the map after the last statement", fmt.Sprint(v, err), fmt.Sprint(m))
			}
			h.rep.Count(fmt.Sprint("cscript:map", sc.steps[len(sc.steps)-1], "|", len(m)), true)
			h.rep.Dist(fmt.Sprintf("container:map:op%d", op))
		}
	}
}

// ---------------------------------------------------------------- channels (buffered; blocking operations only when they cannot block)
func chanWorld(h *H, nscripts, nsteps int) {
	r := h.rng
	for n := 0; n < nscripts; n++ {
		h.wd.Beat(fmt.Sprint("chan int script ", n))
		sc := &script{h: h, world: "chan int"}
		C := fmt.Sprintf("c%d_c", h.nscript)
		h.nscript++
		cp := r.Intn(4)
		c := make(chan int, cp)
		closed := false
		sc.decl = []string{fmt.Sprintf("var %s = make(chan int, %d)", C, cp)}
		if p := vh.Catch(func() { h.ir.Eval(sc.decl[0]) }); p != nil {
			sc.fail("declaration fails", p, "compiles")
			continue
		}
		for step := 0; step < nsteps && !sc.bad; step++ {
			var vals []reflect.Value
			var gp, wp string
			op := r.Intn(8)
			switch op {
			case 0: // Send: would block on a full open channel
				if len(c) == cap(c) && !closed {
					continue
				}
				v := r.Intn(100)
				_, gp = sc.exec(fmt.Sprintf("%s.Send(%d)", C, v))
				wp = native(func() { c <- v })
			case 1, 2:
				if closed {
					continue // a select-send on a closed channel panics in both; not interesting
				}
				v := r.Intn(100)
				vals, gp = sc.exec(fmt.Sprintf("%s.TrySend(%d)", C, v))
				want := false
				select {
				case c <- v:
					want = true
				default:
				}
				if gp == "" && (len(vals) != 1 || vals[0].Interface() != any(want)) {
					sc.fail("result of TrySend", fmt.Sprint(vals), want)
				}
			case 3: // Recv: would block on an empty open channel
				if len(c) == 0 && !closed {
					continue
				}
				vals, gp = sc.exec(C + ".Recv()")
				wv, wok := <-c
				if gp == "" && (len(vals) != 2 || vals[0].Interface() != any(wv) || vals[1].Interface() != any(wok)) {
					sc.fail("result of Recv", fmt.Sprint(vals), fmt.Sprint(wv, wok))
				}
			case 4:
				vals, gp = sc.exec(C + ".TryRecv()")
				var wv int
				var wok bool
				select {
				case wv, wok = <-c:
				default:
				}
				if gp == "" && (len(vals) != 2 || vals[0].Interface() != any(wv) || vals[1].Interface() != any(wok)) {
					sc.fail("result of TryRecv", fmt.Sprint(vals), fmt.Sprint(wv, wok))
				}
			case 5:
				if !r.Chance(1, 3) {
					continue
				}
				_, gp = sc.exec(C + ".Close()")
				wp = native(func() { close(c) })
				closed = true
			case 6:
				vals, gp = sc.exec(C + ".Len()")
				if gp == "" && (len(vals) != 1 || vals[0].Interface() != any(len(c))) {
					sc.fail("result of Len", fmt.Sprint(vals), len(c))
				}
			case 7:
				vals, gp = sc.exec(C + ".Cap()")
				if gp == "" && (len(vals) != 1 || vals[0].Interface() != any(cap(c))) {
					sc.fail("result of Cap", fmt.Sprint(vals), cap(c))
				}
			}
			if gp != wp {
				sc.fail("run-time panic class", "["+gp+"]", "["+wp+"]")
			}
			if v, err := sc.peek(C); err != "" || v.Kind() != reflect.Chan || v.Len() != len(c) || v.Cap() != cap(c) {
				sc.fail("len/cap of the channel after the last statement", fmt.Sprint(v, err), fmt.Sprint(len(c), cap(c)))
			}
			h.rep.Count(fmt.Sprint("cscript:chan", sc.steps[len(sc.steps)-1], "|", len(c), cap(c), closed), true)
			h.rep.Dist(fmt.Sprintf("container:chan:op%d", op))
		}
	}
}

// corpus/C34/*.json: exact inputs of past findings, run first.  want = fmt %#v of the values compiled Go produces
type corpusC34 struct {
	Key          string   `json:"key"`
	Declarations []string `json:"declarations"`
	Checks       []struct {
		Src  string `json:"src"`
		Want string `json:"want"`
	} `json:"checks"`
}

func containerCorpus(h *H) {
	dir := os.Getenv("VERIF_DIR")
	if dir == "" {
		dir = "/verif"
	}
	files, _ := filepath.Glob(filepath.Join(dir, "corpus", "C34", "*.json"))
	sort.Strings(files)
	for _, f := range files {
		b, err := os.ReadFile(f)
		if err != nil {
			continue
		}
		var c corpusC34
		if err := json.Unmarshal(b, &c); err != nil {
			panic(fmt.Sprintf("corpus %s: %v", f, err))
		}
		key := c.Key
		if key == "" {
			key = "corpus:" + filepath.Base(f)
		}
		sc := &script{h: h, world: "corpus " + filepath.Base(f), decl: c.Declarations}
		fail := func(what string, got, want interface{}) {
			if !sc.bad {
				sc.bad = true
				h.rep.Fail(vh.Failure{Key: key, What: "container CTI method differs from the compiled Go operator/builtin: " + what, Input: sc.input(), Got: fmt.Sprint(got), Want: fmt.Sprint(want)})
			}
		}
		for _, d := range c.Declarations {
			if p := vh.Catch(func() { h.ir.Eval(d) }); p != nil {
				fail("declaration fails: "+d, p, "compiles")
			}
		}
		for _, ck := range c.Checks {
			vals, pan := sc.exec(ck.Src)
			var parts []string
			for _, v := range vals {
				parts = append(parts, fmt.Sprintf("%#v", v.Interface()))
			}
			if got := strings.Join(parts, " "); pan != "" || got != ck.Want {
				fail(ck.Src, got+" "+pan, ck.Want)
			}
			h.rep.Count("ccorpus:"+ck.Src, true)
		}
		h.rep.Dist("container:corpus")
	}
}

func containerScripts(h *H) {
	containerCorpus(h)
	ns, steps := 24, 14
	if h.a.Thorough() {
		ns, steps = 400, 30
	}
	gi := elemGen[int]{"int", func(r *vh.Rng) int { return r.Intn(2000) - 1000 }}
	gs := elemGen[string]{"string", func(r *vh.Rng) string { return []string{"", "a", "b", "xy", "\x00z", "héllo"}[r.Intn(6)] }}
	gb := elemGen[uint8]{"uint8", func(r *vh.Rng) uint8 { return uint8(r.Intn(256)) }}
	gf := elemGen[float64]{"float64", func(r *vh.Rng) float64 { return float64(r.Intn(64)-32) / 4 }}
	sliceWorld(h, gi, false, ns, steps)
	sliceWorld(h, gs, false, ns, steps)
	sliceWorld(h, gb, false, ns, steps)
	sliceWorld(h, gf, false, ns/2, steps)
	sliceWorld(h, gi, true, ns, steps)
	sliceWorld(h, gs, true, ns/2, steps)
	sliceWorld(h, gb, true, ns/2, steps)
	mapWorld(h, ns, steps)
	chanWorld(h, ns, steps)
	h.wd.Beat("writing container cases")
	h.writeContCases()
}

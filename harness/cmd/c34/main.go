// c34: correspondence + direct oracle for the generic-contract (CTI) methods on basic types
// (xreflect/cti_basic_method.go, enabled with etoken.GENERICS_V2_CTI).
//
// For every basic kind T and every contract method M of its category the harness obtains from the real
// interpreter (a) the raw method value `T.M` (the closure installed by addBasicTypeMethodsCTI) and (b) an
// interpreted wrapper `func(z, a, b T) T { return z.M(a, b) }`, calls both on boundary and PRNG operands and
// compares with the Go operator of that name compiled into this program (direct oracle; floats by IEEE bit
// pattern; run-time panics mapped to panic:div0 / panic:index).  A sample of the integer / bool / string
// observations is written as Coq cases (cases_NNN.v) and evaluated by the denotation of the regenerated table
// row and by the specification (Verif.C34.Model.mismatches).
// The reflection-based container methods of xreflect/cti_method.go (Len, Cap, Index, Append, ... on arrays,
// slices, maps, chans, named types) are covered by a differential against compiled Go only (no Coq model).
package main

import (
	"fmt"
	"io"
	"math"
	"sort"
	"strings"
	"time"

	"github.com/cosmos72/gomacro/fast"
	"github.com/cosmos72/gomacro/go/etoken"
	"verifh/vh"
)

type Int interface {
	~int | ~int8 | ~int16 | ~int32 | ~int64 | ~uint | ~uint8 | ~uint16 | ~uint32 | ~uint64 | ~uintptr
}

type H struct {
	ir      *fast.Interp
	rep     *vh.Report
	rng     *vh.Rng
	cases   *vh.Cases
	a       *vh.Args
	wd      *vh.Watchdog
	idx     int
	ncoq    map[string]int
	quota   int      // Coq cases per (kind, method)
	nscript int      // container scripts run so far (fresh variable names)
	ccases  []string // Coq cases for C34.ContModel
	cquota  int
	nTick   int // calls since start, see tick
}

// tick keeps the watchdog beating inside the long operand loops (thorough: >100000 operand pairs per method, each a
// separate call into gomacro): the watchdog limit bounds a stretch of 4096 calls, not a whole method sweep.
func (h *H) tick(what string) {
	h.nTick++
	if h.nTick&0xfff == 0 {
		h.wd.Beat(what)
	}
}

func (h *H) eval(src string) (v interface{}, errs string) {
	p := vh.Catch(func() {
		vals, _ := h.ir.Eval(src)
		if len(vals) > 0 {
			v = vals[0].Interface()
		}
	})
	if p != nil {
		return nil, fmt.Sprint(p)
	}
	return v, ""
}

func classify(p interface{}) string {
	s := fmt.Sprint(p)
	switch {
	case strings.Contains(s, "divide by zero"):
		return "panic:div0"
	case strings.Contains(s, "out of range"):
		return "panic:index"
	case strings.Contains(s, "negative shift"):
		return "panic:negshift"
	}
	return "panic:other(" + s + ")"
}

// call runs f, mapping a panic to its class
func call[R any](f func() R) (r R, pan string) {
	defer func() {
		if p := recover(); p != nil {
			pan = classify(p)
		}
	}()
	return f(), ""
}

func (h *H) fail(kind, m, form string, args, got, want interface{}) {
	h.rep.Fail(vh.Failure{Key: fmt.Sprintf("%s.%s%v", kind, m, args), What: "CTI method " + kind + "." + m + " (" + form + ") differs from the compiled Go operator",
		Input: map[string]interface{}{"kind": kind, "method": m, "form": form, "args": fmt.Sprint(args)}, Got: fmt.Sprint(got), Want: fmt.Sprint(want)})
}

func coqKind(kind string) string { return "G" + strings.ToUpper(kind[:1]) + kind[1:] }

func coqPanic(p string) string {
	switch p {
	case "panic:div0":
		return "(ObsPanic PDiv0)"
	case "panic:index":
		return "(ObsPanic PIndex)"
	case "panic:negshift":
		return "(ObsPanic PNegShift)"
	}
	return "(ObsPanic POther)"
}

// addCase emits one Coq case if the per-(kind,method) quota is not exhausted (or force)
func (h *H) addCase(kind, m string, args []string, obs string, input interface{}) {
	key := kind + "." + m
	if h.ncoq[key] >= h.quota {
		return
	}
	h.ncoq[key]++
	h.cases.Add(fmt.Sprintf("mkCase %d %s S_%s %s %s", h.idx, coqKind(kind), m, vh.CoqList(args, "uval"), obs))
	h.rep.CaseInput(h.idx, input)
	h.idx++
}

func vint[T Int](kind string, v T, signed bool) string {
	if signed {
		return fmt.Sprintf("(VInt %s %s)", coqKind(kind), vh.CoqZ(int64(v)))
	}
	return fmt.Sprintf("(VInt %s %d%%Z)", coqKind(kind), uint64(v))
}

// ---------------------------------------------------------------- integers
func boundaries[T Int](bits int, signed bool) []T {
	set := map[T]bool{}
	add := func(u uint64) { set[T(u)] = true }
	add(0)
	add(1)
	add(^uint64(0)) // -1 or max
	for k := 0; k < bits; k++ {
		p := uint64(1) << uint(k)
		add(p)
		add(p - 1)
		add(p + 1)
		add(-p)
		add(-p - 1)
		add(-p + 1)
	}
	var out []T
	for v := range set {
		out = append(out, v)
	}
	sort.Slice(out, func(i, j int) bool { return out[i] < out[j] })
	return out
}

type pair[T any] struct{ a, b T }

func intKind[T Int](h *H, kind string, bits int, signed bool) {
	bnd := boundaries[T](bits, signed)
	nrand := 3000
	if h.a.Thorough() {
		nrand = 100000
	}
	if h.a.N > 0 {
		nrand = h.a.N
	}
	var pairs []pair[T]
	if bits == 8 && h.a.Thorough() {
		for a := 0; a < 256; a++ {
			for b := 0; b < 256; b++ {
				pairs = append(pairs, pair[T]{T(a), T(b)})
			}
		}
	} else {
		// quick tier: at most ~12000 of the boundary pairs (every stride-th, offset by the seed); thorough: all
		stride := 1
		if !h.a.Thorough() {
			stride = len(bnd)*len(bnd)/12000 + 1
		}
		n := int(h.a.Seed % uint64(stride))
		for _, a := range bnd {
			for _, b := range bnd {
				if n%stride == 0 || a == 0 || b == 0 {
					pairs = append(pairs, pair[T]{a, b})
				}
				n++
			}
		}
	}
	for i := 0; i < nrand; i++ {
		a, b := T(h.rng.U64()), T(h.rng.U64())
		switch h.rng.Intn(4) {
		case 0:
			b = bnd[h.rng.Intn(len(bnd))]
		case 1:
			a = bnd[h.rng.Intn(len(bnd))]
		}
		pairs = append(pairs, pair[T]{a, b})
	}
	// a deterministic subset of the pairs goes to Coq: spread over the whole list
	step := len(pairs)/h.quota + 1

	bin := map[string]func(a, b T) T{
		"Add": func(a, b T) T { return a + b }, "Sub": func(a, b T) T { return a - b }, "Mul": func(a, b T) T { return a * b },
		"Quo": func(a, b T) T { return a / b }, "Rem": func(a, b T) T { return a % b }, "And": func(a, b T) T { return a & b },
		"AndNot": func(a, b T) T { return a &^ b }, "Or": func(a, b T) T { return a | b }, "Xor": func(a, b T) T { return a ^ b },
	}
	for _, m := range []string{"Add", "Sub", "Mul", "Quo", "Rem", "And", "AndNot", "Or", "Xor"} {
		h.wd.Beat(kind + "." + m)
		raw, e1 := h.eval(kind + "." + m)
		wrapped, e2 := h.eval(fmt.Sprintf("(func(z, a, b %s) %s { return z.%s(a, b) })", kind, kind, m))
		fr, ok1 := raw.(func(T, T, T) T)
		fw, ok2 := wrapped.(func(T, T, T) T)
		if !ok1 || !ok2 {
			h.fail(kind, m, "lookup", e1+e2, fmt.Sprintf("%T / %T", raw, wrapped), "func(T,T,T) T")
			continue
		}
		op := bin[m]
		for i, p := range pairs {
			h.tick(kind + " operand sweep")
			z := T(h.rng.U64())
			want, wp := call(func() T { return op(p.a, p.b) })
			got, gp := call(func() T { return fr(z, p.a, p.b) })
			if got != want || gp != wp {
				h.fail(kind, m, "method value", []T{z, p.a, p.b}, fmt.Sprint(got, gp), fmt.Sprint(want, wp))
			}
			if i%16 == 0 || wp != "" {
				got2, gp2 := call(func() T { return fw(z, p.a, p.b) })
				if got2 != want || gp2 != wp {
					h.fail(kind, m, "interpreted call", []T{z, p.a, p.b}, fmt.Sprint(got2, gp2), fmt.Sprint(want, wp))
				}
			}
			h.rep.Count(fmt.Sprint(kind, m, p.a, p.b), p.a != 0 || p.b != 0)
			if i%step == 0 {
				obs := "(ObsVal " + vint(kind, got, signed) + ")"
				if gp != "" {
					obs = coqPanic(gp)
				}
				h.addCase(kind, m, []string{vint(kind, z, signed), vint(kind, p.a, signed), vint(kind, p.b, signed)}, obs, fmt.Sprint(kind, ".", m, " ", z, p.a, p.b))
			}
		}
		h.rep.Dist("int:" + m)
	}
	// shifts: count is uint8
	for _, m := range []string{"Lsh", "Rsh"} {
		raw, e1 := h.eval(kind + "." + m)
		wrapped, e2 := h.eval(fmt.Sprintf("(func(z, a %s, b uint8) %s { return z.%s(a, b) })", kind, kind, m))
		fr, ok1 := raw.(func(T, T, uint8) T)
		fw, ok2 := wrapped.(func(T, T, uint8) T)
		if !ok1 || !ok2 {
			h.fail(kind, m, "lookup", e1+e2, fmt.Sprintf("%T / %T", raw, wrapped), "func(T,T,uint8) T")
			continue
		}
		n := 0
		for _, a := range append(append([]T{}, bnd...), T(h.rng.U64()), T(h.rng.U64()), T(h.rng.U64())) {
			h.tick(kind + " operand sweep")
			for c := 0; c < 256; c++ {
				if c > bits+2 && c < 250 && c%37 != 0 {
					continue
				}
				var want T
				if m == "Lsh" {
					want = a << uint8(c)
				} else {
					want = a >> uint8(c)
				}
				got := fr(0, a, uint8(c))
				if got != want {
					h.fail(kind, m, "method value", []interface{}{a, c}, got, want)
				}
				if n%8 == 0 {
					if got2 := fw(a, a, uint8(c)); got2 != want {
						h.fail(kind, m, "interpreted call", []interface{}{a, c}, got2, want)
					}
				}
				h.rep.Count(fmt.Sprint(kind, m, a, c), a != 0 && c != 0)
				if n%(len(bnd)*(bits+12)/h.quota+1) == 0 {
					h.addCase(kind, m, []string{vint(kind, T(0), signed), vint(kind, a, signed), fmt.Sprintf("(VInt GUint8 %d%%Z)", c)},
						"(ObsVal "+vint(kind, got, signed)+")", fmt.Sprint(kind, ".", m, " ", a, c))
				}
				n++
			}
		}
		h.rep.Dist("int:" + m)
	}
	// unary
	for _, m := range []string{"Neg", "Not"} {
		raw, e1 := h.eval(kind + "." + m)
		wrapped, e2 := h.eval(fmt.Sprintf("(func(z, a %s) %s { return z.%s(a) })", kind, kind, m))
		fr, ok1 := raw.(func(T, T) T)
		fw, ok2 := wrapped.(func(T, T) T)
		if !ok1 || !ok2 {
			h.fail(kind, m, "lookup", e1+e2, fmt.Sprintf("%T / %T", raw, wrapped), "func(T,T) T")
			continue
		}
		vals := append([]T{}, bnd...)
		for i := 0; i < 200; i++ {
			vals = append(vals, T(h.rng.U64()))
		}
		for i, a := range vals {
			h.tick(kind + " operand sweep")
			want := -a
			if m == "Not" {
				want = ^a
			}
			z := T(h.rng.U64())
			if got := fr(z, a); got != want {
				h.fail(kind, m, "method value", []T{z, a}, got, want)
			}
			if got := fw(z, a); got != want {
				h.fail(kind, m, "interpreted call", []T{z, a}, got, want)
			}
			h.rep.Count(fmt.Sprint(kind, m, a), a != 0)
			if i%(len(vals)/h.quota+1) == 0 {
				h.addCase(kind, m, []string{vint(kind, z, signed), vint(kind, a, signed)}, "(ObsVal "+vint(kind, want, signed)+")", fmt.Sprint(kind, ".", m, " ", a))
			}
		}
		h.rep.Dist("int:" + m)
	}
	// Equal, Less, Cmp
	for _, m := range []string{"Equal", "Less"} {
		raw, e1 := h.eval(kind + "." + m)
		wrapped, e2 := h.eval(fmt.Sprintf("(func(a, b %s) bool { return a.%s(b) })", kind, m))
		fr, ok1 := raw.(func(T, T) bool)
		fw, ok2 := wrapped.(func(T, T) bool)
		if !ok1 || !ok2 {
			h.fail(kind, m, "lookup", e1+e2, fmt.Sprintf("%T / %T", raw, wrapped), "func(T,T) bool")
			continue
		}
		for i, p := range pairs {
			h.tick(kind + " operand sweep")
			want := p.a == p.b
			if m == "Less" {
				want = p.a < p.b
			}
			if got := fr(p.a, p.b); got != want {
				h.fail(kind, m, "method value", []T{p.a, p.b}, got, want)
			}
			if i%16 == 0 {
				if got := fw(p.a, p.b); got != want {
					h.fail(kind, m, "interpreted call", []T{p.a, p.b}, got, want)
				}
			}
			h.rep.Count(fmt.Sprint(kind, m, p.a, p.b), p.a != 0 || p.b != 0)
			if i%step == 0 {
				h.addCase(kind, m, []string{vint(kind, p.a, signed), vint(kind, p.b, signed)}, "(ObsVal (VBool "+vh.CoqBool(want)+"))", fmt.Sprint(kind, ".", m, " ", p.a, p.b))
			}
		}
		h.rep.Dist("int:" + m)
	}
	{
		m := "Cmp"
		raw, e1 := h.eval(kind + "." + m)
		wrapped, e2 := h.eval(fmt.Sprintf("(func(a, b %s) int { return a.%s(b) })", kind, m))
		fr, ok1 := raw.(func(T, T) int)
		fw, ok2 := wrapped.(func(T, T) int)
		if !ok1 || !ok2 {
			h.fail(kind, m, "lookup", e1+e2, fmt.Sprintf("%T / %T", raw, wrapped), "func(T,T) int")
		} else {
			for i, p := range pairs {
				h.tick(kind + " operand sweep")
				want := 0
				if p.a < p.b {
					want = -1
				} else if p.a > p.b {
					want = 1
				}
				if got := fr(p.a, p.b); got != want {
					h.fail(kind, m, "method value", []T{p.a, p.b}, got, want)
				}
				if i%16 == 0 {
					if got := fw(p.a, p.b); got != want {
						h.fail(kind, m, "interpreted call", []T{p.a, p.b}, got, want)
					}
				}
				h.rep.Count(fmt.Sprint(kind, m, p.a, p.b), p.a != p.b)
				if i%step == 0 {
					h.addCase(kind, m, []string{vint(kind, p.a, signed), vint(kind, p.b, signed)}, fmt.Sprintf("(ObsVal (VInt GInt %s))", vh.CoqZ(int64(want))), fmt.Sprint(kind, ".", m, " ", p.a, p.b))
				}
			}
			h.rep.Dist("int:" + m)
		}
	}
}

// ---------------------------------------------------------------- floats (IEEE bit patterns from both real systems only)
type Float interface{ ~float32 | ~float64 }

// fbits: IEEE bit pattern; NaNs are canonicalised (sign and payload of a NaN result are not defined by Go and differ
// between two compilations of the same expression, e.g. inlined vs. generic instantiation)
func fbits[T Float](x T) uint64 {
	if x != x {
		return 0x7ff8000000000001
	}
	switch v := any(x).(type) {
	case float32:
		return uint64(math.Float32bits(v))
	case float64:
		return math.Float64bits(v)
	}
	return 0
}

func floatVals[T Float](h *H, n int) []T {
	var out []T
	negz := math.Copysign(0, -1)
	var one T = 1
	for _, f := range []float64{0, negz, 1, -1, 0.5, 2, math.NaN(), math.Inf(1), math.Inf(-1), math.MaxFloat32, -math.MaxFloat32,
		math.SmallestNonzeroFloat32, math.MaxFloat64, math.SmallestNonzeroFloat64, 1e-320, 3, 1.0 / 3, 16777217, 9007199254740993} {
		out = append(out, T(f))
	}
	_ = one
	for i := 0; i < n; i++ {
		var v T
		switch any(v).(type) {
		case float32:
			v = T(math.Float32frombits(uint32(h.rng.U64())))
		default:
			v = T(math.Float64frombits(h.rng.U64()))
		}
		out = append(out, v)
	}
	return out
}

func floatKind[T Float](h *H, kind string) {
	vals := floatVals[T](h, 40)
	if h.a.Thorough() {
		vals = floatVals[T](h, 400)
	}
	bin := map[string]func(a, b T) T{"Add": func(a, b T) T { return a + b }, "Sub": func(a, b T) T { return a - b },
		"Mul": func(a, b T) T { return a * b }, "Quo": func(a, b T) T { return a / b }}
	for _, m := range []string{"Add", "Sub", "Mul", "Quo"} {
		h.wd.Beat(kind + "." + m)
		raw, e1 := h.eval(kind + "." + m)
		wrapped, e2 := h.eval(fmt.Sprintf("(func(z, a, b %s) %s { return z.%s(a, b) })", kind, kind, m))
		fr, ok1 := raw.(func(T, T, T) T)
		fw, ok2 := wrapped.(func(T, T, T) T)
		if !ok1 || !ok2 {
			h.fail(kind, m, "lookup", e1+e2, fmt.Sprintf("%T / %T", raw, wrapped), "func(T,T,T) T")
			continue
		}
		for i, a := range vals {
			h.tick(kind + " operand sweep")
			for j, b := range vals {
				h.tick(kind + " operand sweep")
				want := bin[m](a, b)
				if got := fr(b, a, b); fbits(got) != fbits(want) {
					h.fail(kind, m, "method value", []string{fmt.Sprintf("%#x", fbits(a)), fmt.Sprintf("%#x", fbits(b))}, fmt.Sprintf("%#x", fbits(got)), fmt.Sprintf("%#x", fbits(want)))
				}
				if (i+j)%8 == 0 {
					if got := fw(b, a, b); fbits(got) != fbits(want) {
						h.fail(kind, m, "interpreted call", []string{fmt.Sprintf("%#x", fbits(a)), fmt.Sprintf("%#x", fbits(b))}, fmt.Sprintf("%#x", fbits(got)), fmt.Sprintf("%#x", fbits(want)))
					}
				}
				h.rep.Count(fmt.Sprint(kind, m, fbits(a), fbits(b)), a != 0 || b != 0)
			}
		}
		h.rep.Dist("float:" + m)
	}
	if raw, _ := h.eval(kind + ".Neg"); true {
		fr, ok := raw.(func(T, T) T)
		if !ok {
			h.fail(kind, "Neg", "lookup", "", fmt.Sprintf("%T", raw), "func(T,T) T")
		} else {
			for _, a := range vals {
				h.tick(kind + " operand sweep")
				if got, want := fr(a, a), -a; fbits(got) != fbits(want) {
					h.fail(kind, "Neg", "method value", fmt.Sprintf("%#x", fbits(a)), fmt.Sprintf("%#x", fbits(got)), fmt.Sprintf("%#x", fbits(want)))
				}
				h.rep.Count(fmt.Sprint(kind, "Neg", fbits(a)), true)
			}
			h.rep.Dist("float:Neg")
		}
	}
	for _, m := range []string{"Equal", "Less"} {
		raw, _ := h.eval(kind + "." + m)
		fr, ok := raw.(func(T, T) bool)
		if !ok {
			h.fail(kind, m, "lookup", "", fmt.Sprintf("%T", raw), "func(T,T) bool")
			continue
		}
		for _, a := range vals {
			h.tick(kind + " operand sweep")
			for _, b := range vals {
				h.tick(kind + " operand sweep")
				want := a == b
				if m == "Less" {
					want = a < b
				}
				if got := fr(a, b); got != want {
					h.fail(kind, m, "method value", []string{fmt.Sprintf("%#x", fbits(a)), fmt.Sprintf("%#x", fbits(b))}, got, want)
				}
				h.rep.Count(fmt.Sprint(kind, m, fbits(a), fbits(b)), true)
			}
		}
		h.rep.Dist("float:" + m)
	}
	if raw, _ := h.eval(kind + ".Cmp"); true {
		fr, ok := raw.(func(T, T) int)
		if !ok {
			h.fail(kind, "Cmp", "lookup", "", fmt.Sprintf("%T", raw), "func(T,T) int")
		} else {
			for _, a := range vals {
				h.tick(kind + " operand sweep")
				for _, b := range vals {
					h.tick(kind + " operand sweep")
					want := 0
					if a < b {
						want = -1
					} else if a > b {
						want = 1
					}
					if got := fr(a, b); got != want {
						h.fail(kind, "Cmp", "method value", []string{fmt.Sprintf("%#x", fbits(a)), fmt.Sprintf("%#x", fbits(b))}, got, want)
					}
					h.rep.Count(fmt.Sprint(kind, "Cmp", fbits(a), fbits(b)), true)
				}
			}
			h.rep.Dist("float:Cmp")
		}
	}
}

// ---------------------------------------------------------------- complex
type Complex interface{ ~complex64 | ~complex128 }

func cbits[T Complex](x T) [2]uint64 {
	switch v := any(x).(type) {
	case complex64:
		return [2]uint64{fbits(real(v)), fbits(imag(v))}
	case complex128:
		return [2]uint64{fbits(real(v)), fbits(imag(v))}
	}
	return [2]uint64{}
}

func complexKind[T Complex, P Float](h *H, kind string, mk func(re, im float64) T, re func(T) P, im func(T) P) {
	parts := []float64{0, math.Copysign(0, -1), 1, -1, 2.5, math.NaN(), math.Inf(1), math.Inf(-1), math.MaxFloat32, 1e-40, 3}
	var vals []T
	for _, a := range parts {
		for _, b := range parts {
			vals = append(vals, mk(a, b))
		}
	}
	for i := 0; i < 30; i++ {
		vals = append(vals, mk(math.Float64frombits(h.rng.U64()), float64(math.Float32frombits(uint32(h.rng.U64())))))
	}
	bin := map[string]func(a, b T) T{"Add": func(a, b T) T { return a + b }, "Sub": func(a, b T) T { return a - b },
		"Mul": func(a, b T) T { return a * b }, "Quo": func(a, b T) T { return a / b }}
	for _, m := range []string{"Add", "Sub", "Mul", "Quo"} {
		h.wd.Beat(kind + "." + m)
		raw, _ := h.eval(kind + "." + m)
		fr, ok := raw.(func(T, T, T) T)
		if !ok {
			h.fail(kind, m, "lookup", "", fmt.Sprintf("%T", raw), "func(T,T,T) T")
			continue
		}
		for i, a := range vals {
			h.tick(kind + " operand sweep")
			for j, b := range vals {
				h.tick(kind + " operand sweep")
				if !h.a.Thorough() && (i*7+j)%5 != 0 {
					continue
				}
				want := bin[m](a, b)
				if got := fr(a, a, b); cbits(got) != cbits(want) {
					h.fail(kind, m, "method value", fmt.Sprint(cbits(a), cbits(b)), fmt.Sprint(cbits(got)), fmt.Sprint(cbits(want)))
				}
				h.rep.Count(fmt.Sprint(kind, m, cbits(a), cbits(b)), true)
			}
		}
		h.rep.Dist("complex:" + m)
	}
	if raw, _ := h.eval(kind + ".Equal"); true {
		fr, ok := raw.(func(T, T) bool)
		if !ok {
			h.fail(kind, "Equal", "lookup", "", fmt.Sprintf("%T", raw), "func(T,T) bool")
		} else {
			for _, a := range vals {
				h.tick(kind + " operand sweep")
				for _, b := range vals {
					h.tick(kind + " operand sweep")
					if got, want := fr(a, b), a == b; got != want {
						h.fail(kind, "Equal", "method value", fmt.Sprint(cbits(a), cbits(b)), got, want)
					}
					h.rep.Count(fmt.Sprint(kind, "Equal", cbits(a), cbits(b)), true)
				}
			}
			h.rep.Dist("complex:Equal")
		}
	}
	if raw, _ := h.eval(kind + ".Neg"); true {
		fr, ok := raw.(func(T, T) T)
		if !ok {
			h.fail(kind, "Neg", "lookup", "", fmt.Sprintf("%T", raw), "func(T,T) T")
		} else {
			for _, a := range vals {
				h.tick(kind + " operand sweep")
				if got, want := fr(a, a), -a; cbits(got) != cbits(want) {
					h.fail(kind, "Neg", "method value", fmt.Sprint(cbits(a)), fmt.Sprint(cbits(got)), fmt.Sprint(cbits(want)))
				}
				h.rep.Count(fmt.Sprint(kind, "Neg", cbits(a)), true)
			}
			h.rep.Dist("complex:Neg")
		}
	}
	for _, m := range []string{"Real", "Imag"} {
		raw, _ := h.eval(kind + "." + m)
		fr, ok := raw.(func(T) P)
		if !ok {
			h.fail(kind, m, "lookup", "", fmt.Sprintf("%T", raw), "func(T) float")
			continue
		}
		for _, a := range vals {
			h.tick(kind + " operand sweep")
			want := re(a)
			if m == "Imag" {
				want = im(a)
			}
			if got := fr(a); fbits(got) != fbits(want) {
				h.fail(kind, m, "method value", fmt.Sprint(cbits(a)), fbits(got), fbits(want))
			}
			h.rep.Count(fmt.Sprint(kind, m, cbits(a)), true)
		}
		h.rep.Dist("complex:" + m)
	}
}

// ---------------------------------------------------------------- bool, string
func boolKind(h *H) {
	eq, _ := h.eval("bool.Equal")
	not, _ := h.eval("bool.Not")
	feq, ok1 := eq.(func(bool, bool) bool)
	fnot, ok2 := not.(func(bool, bool) bool)
	if !ok1 || !ok2 {
		h.fail("bool", "Equal/Not", "lookup", "", fmt.Sprintf("%T %T", eq, not), "func(bool,bool) bool")
		return
	}
	for _, a := range []bool{false, true} {
		for _, b := range []bool{false, true} {
			if got := feq(a, b); got != (a == b) {
				h.fail("bool", "Equal", "method value", []bool{a, b}, got, a == b)
			}
			h.addCase("bool", "Equal", []string{"(VBool " + vh.CoqBool(a) + ")", "(VBool " + vh.CoqBool(b) + ")"}, "(ObsVal (VBool "+vh.CoqBool(feq(a, b))+"))", fmt.Sprint("bool.Equal ", a, b))
			if got := fnot(a, b); got != !b {
				h.fail("bool", "Not", "method value", []bool{a, b}, got, !b)
			}
			h.addCase("bool", "Not", []string{"(VBool " + vh.CoqBool(a) + ")", "(VBool " + vh.CoqBool(b) + ")"}, "(ObsVal (VBool "+vh.CoqBool(fnot(a, b))+"))", fmt.Sprint("bool.Not ", a, b))
			h.rep.Count(fmt.Sprint("bool", a, b), true)
		}
	}
	h.rep.Dist("bool")
}

func vstr(s string) string { return "(VStr " + vh.CoqStr(s) + ")" }
func vintI(i int) string   { return "(VInt GInt " + vh.CoqZ(int64(i)) + ")" }

func stringKind(h *H) {
	strs := []string{"", "a", "b", "ab", "aa", "abc", "\x00", "\xff", "a\x00", "héllo", "hello, world", "\xf0\x9f\x98\x80"}
	for i := 0; i < 30; i++ {
		n := h.rng.Intn(12)
		b := make([]byte, n)
		for j := range b {
			b[j] = byte("ab\x00\xffz"[h.rng.Intn(5)])
		}
		strs = append(strs, string(b))
	}
	get := func(m string) interface{} { v, _ := h.eval("string." + m); return v }
	feq, ok1 := get("Equal").(func(string, string) bool)
	fless, ok2 := get("Less").(func(string, string) bool)
	fcmp, ok3 := get("Cmp").(func(string, string) int)
	fadd, ok4 := get("Add").(func(string, string, string) string)
	fidx, ok5 := get("Index").(func(string, int) uint8)
	flen, ok6 := get("Len").(func(string) int)
	fsl, ok7 := get("Slice").(func(string, int, int) string)
	if !(ok1 && ok2 && ok3 && ok4 && ok5 && ok6 && ok7) {
		h.fail("string", "*", "lookup", "", fmt.Sprint(ok1, ok2, ok3, ok4, ok5, ok6, ok7), "all methods present")
		return
	}
	for _, a := range strs {
		for _, b := range strs {
			if got := feq(a, b); got != (a == b) {
				h.fail("string", "Equal", "method value", []string{a, b}, got, a == b)
			}
			if got := fless(a, b); got != (a < b) {
				h.fail("string", "Less", "method value", []string{a, b}, got, a < b)
			}
			if got, want := fcmp(a, b), strings.Compare(a, b); got != want {
				h.fail("string", "Cmp", "method value", []string{a, b}, got, want)
			}
			if got := fadd("zz", a, b); got != a+b {
				h.fail("string", "Add", "method value", []string{a, b}, got, a+b)
			}
			h.rep.Count(fmt.Sprint("string2", a, "|", b), a != "" || b != "")
			if len(a) < 8 && len(b) < 8 {
				h.addCase("string", "Equal", []string{vstr(a), vstr(b)}, "(ObsVal (VBool "+vh.CoqBool(feq(a, b))+"))", fmt.Sprint("string.Equal ", a, b))
				h.addCase("string", "Less", []string{vstr(a), vstr(b)}, "(ObsVal (VBool "+vh.CoqBool(fless(a, b))+"))", fmt.Sprint("string.Less ", a, b))
				h.addCase("string", "Cmp", []string{vstr(a), vstr(b)}, "(ObsVal "+vintI(fcmp(a, b))+")", fmt.Sprint("string.Cmp ", a, b))
				h.addCase("string", "Add", []string{vstr("z"), vstr(a), vstr(b)}, "(ObsVal "+vstr(fadd("z", a, b))+")", fmt.Sprint("string.Add ", a, b))
			}
		}
		if got := flen(a); got != len(a) {
			h.fail("string", "Len", "method value", a, got, len(a))
		}
		h.addCase("string", "Len", []string{vstr(a)}, "(ObsVal "+vintI(flen(a))+")", "string.Len "+a)
		for i := -2; i <= len(a)+2; i++ {
			want, wp := call(func() uint8 { return a[i] })
			got, gp := call(func() uint8 { return fidx(a, i) })
			if got != want || gp != wp {
				h.fail("string", "Index", "method value", []interface{}{a, i}, fmt.Sprint(got, gp), fmt.Sprint(want, wp))
			}
			obs := fmt.Sprintf("(ObsVal (VInt GUint8 %d%%Z))", got)
			if gp != "" {
				obs = coqPanic(gp)
			}
			h.addCase("string", "Index", []string{vstr(a), vintI(i)}, obs, fmt.Sprint("string.Index ", a, i))
			for j := -1; j <= len(a)+1; j++ {
				want, wp := call(func() string { return a[i:j] })
				got, gp := call(func() string { return fsl(a, i, j) })
				if got != want || gp != wp {
					h.fail("string", "Slice", "method value", []interface{}{a, i, j}, fmt.Sprint(got, gp), fmt.Sprint(want, wp))
				}
				obs := "(ObsVal " + vstr(got) + ")"
				if gp != "" {
					obs = coqPanic(gp)
				}
				if (i+j)%3 == 0 {
					h.addCase("string", "Slice", []string{vstr(a), vintI(i), vintI(j)}, obs, fmt.Sprint("string.Slice ", a, i, j))
				}
				h.rep.Count(fmt.Sprint("stringslice", a, i, j), true)
			}
		}
	}
	h.rep.Dist("string")
}

// ---------------------------------------------------------------- container methods (cti_method.go): differential only
func containers(h *H) {
	type tc struct {
		src  string
		want interface{}
	}
	arr := [6]int{0, 1, 2, 3, 4, 5}
	sl := []int{3, 4, 5, 6}
	mp := map[string]int{"a": 1, "b": 2}
	tests := []tc{
		{`[...]int{0,1,2,3,4,5}.Len()`, len(arr)},
		{`[...]int{0,1,2,3,4,5}.Index(4)`, arr[4]},
		{`[...]int{0,1,2,3,4,5}.Slice(2,5)`, arr[2:5]},
		{`[]int{3,4,5,6}.Len()`, len(sl)},
		{`[]int{3,4,5,6}.Cap()`, cap(sl)},
		{`[]int{3,4,5,6}.Index(3)`, sl[3]},
		{`[]int{3,4,5,6}.Slice(1,3)`, sl[1:3]},
		{`[]int{3,4,5,6}.Append(7,8)`, append(append([]int{}, sl...), 7, 8)},
		{`map[string]int{"a":1,"b":2}.Len()`, len(mp)},
		{`map[string]int{"a":1,"b":2}.Index("b")`, mp["b"]},
		{`map[string]int{"a":1,"b":2}.Index("zz")`, mp["zz"]},
		{`make(chan int, 3).Cap()`, 3},
		{`make(chan int, 3).Len()`, 0},
		{`"abc".Len()`, 3},
		{`"abc".Index(1)`, "abc"[1]},
		{`"wxyz".Slice(1,3)`, "wxyz"[1:3]},
	}
	for n := 0; n < 12; n++ {
		ln := 1 + h.rng.Intn(9)
		var elems []string
		var ref []int
		for i := 0; i < ln; i++ {
			v := h.rng.Intn(1000) - 500
			ref = append(ref, v)
			elems = append(elems, fmt.Sprint(v))
		}
		lit := "[]int{" + strings.Join(elems, ",") + "}"
		i, j := h.rng.Intn(ln), h.rng.Intn(ln+1)
		if i > j {
			i, j = j, i
		}
		tests = append(tests, tc{lit + ".Len()", len(ref)}, tc{fmt.Sprintf("%s.Index(%d)", lit, i), ref[i]},
			tc{fmt.Sprintf("%s.Slice(%d,%d)", lit, i, j), ref[i:j]}, tc{lit + ".Append(1,2,3)", append(append([]int{}, ref...), 1, 2, 3)})
	}
	for _, t := range tests {
		h.wd.Beat(t.src)
		got, err := h.eval(t.src)
		if err != "" || fmt.Sprintf("%#v", got) != fmt.Sprintf("%#v", t.want) {
			h.rep.Fail(vh.Failure{Key: "container:" + t.src, What: "container CTI method differs from compiled Go", Input: t.src, Got: fmt.Sprintf("%#v %s", got, err), Want: fmt.Sprintf("%#v", t.want)})
		}
		h.rep.Count("container:"+t.src, true)
	}
	h.rep.Dist("container")
}

// declared method sets: every kind has exactly the methods of its category
func methodSets(h *H) {
	intM := "Add And AndNot Cmp Equal Less Lsh Mul Neg Not Or Quo Rem Rsh Sub Xor"
	want := map[string]string{"bool": "Equal Not", "float32": "Add Cmp Equal Less Mul Neg Quo Sub", "float64": "Add Cmp Equal Less Mul Neg Quo Sub",
		"complex64": "Add Equal Imag Mul Neg Quo Real Sub", "complex128": "Add Equal Imag Mul Neg Quo Real Sub"}
	for _, k := range []string{"int", "int8", "int16", "int32", "int64", "uint", "uint8", "uint16", "uint32", "uint64", "uintptr"} {
		want[k] = intM
	}
	for k, w := range want {
		for _, m := range strings.Fields(w) {
			if v, err := h.eval(k + "." + m); v == nil {
				h.rep.Fail(vh.Failure{Key: "methodset:" + k + "." + m, What: "required contract method missing", Input: k + "." + m, Got: err})
			}
			h.rep.Count("methodset:"+k+"."+m, true)
		}
	}
	for _, m := range strings.Fields("Add Cmp Equal Index Len Less Slice") {
		if v, err := h.eval("string." + m); v == nil {
			h.rep.Fail(vh.Failure{Key: "methodset:string." + m, What: "required contract method missing", Input: "string." + m, Got: err})
		}
	}
}

func main() {
	a := vh.ParseArgs()
	etoken.GENERICS = etoken.GENERICS_V2_CTI
	rep := vh.NewReport(a, "every contract method (Equal Cmp Less Add Sub Mul Quo Rem Neg And AndNot Or Xor Not Lsh Rsh Real Imag Index Len Slice) x every basic kind that has it, "+
		"called as method value T.M (the closure of cti_basic_method.go) and through an interpreted wrapper func; operands: all pairs of boundary values "+
		"(0, +-1, min, max, +-2^k, +-2^k+-1; exhaustive 256x256 for 8-bit kinds in the thorough tier) + PRNG pairs; all shift counts 0..width+2 and 250..255; floats: "+
		"+-0, NaN, +-Inf, max, subnormals, PRNG bit patterns compared as IEEE bits; strings incl. invalid UTF-8 and out-of-range index/slice; "+
		"container methods of cti_method.go: random scripts (quick 24 x 14 steps per world) of Slice Slice3 Append AppendString SetIndex AddrIndex Copy CopyString Index Len Cap on []int []string []uint8 []float64 and [8]T arrays (three variables sharing arrays, spare capacity, nil slices, out-of-range operands, calls at top level and through interpreted wrapper functions), SetIndex DelIndex Index TryIndex Len on map[string]int (also nil), Send TrySend Recv TryRecv Close Len Cap on buffered chan int; after every step nil-ness, len, cap and the elements up to cap of all variables are compared with the mirrored compiled-Go state (aliasing observed), panics by class; Slice/Slice3/Append descriptors (offset, len, cap) also evaluated by Verif.C34.ContModel; "+
		"oracle = the Go operator compiled into the harness; non-trivial = not all operands zero/empty; distinct by SHA-256 of (kind, method, operands)")
	ir := fast.New()
	ir.Comp.Globals.Stderr = io.Discard
	ir.Comp.Globals.Stdout = io.Discard
	h := &H{ir: ir, rep: rep, rng: vh.NewRng(a.Seed), a: a, ncoq: map[string]int{}, quota: 18, cquota: 600}
	if a.Thorough() {
		h.quota = 150
		h.cquota = 6000
	}
	h.cases = vh.NewCases(a, "From Coq Require Import List NArith ZArith.\nFrom Verif Require Import Common.GoStr GoLite.Syntax GoLite.Sem C34.Model.\nAdd LoadPath \".\" as Gen.\nFrom Gen Require Import Gen_cti_basic_method.\nImport ListNotations.\nOpen Scope Z_scope.",
		"case", "mismatches table", 450)
	h.wd = vh.NewWatchdog(rep, 180*time.Second)

	methodSets(h)
	intKind[int](h, "int", 64, true)
	intKind[int8](h, "int8", 8, true)
	intKind[int16](h, "int16", 16, true)
	intKind[int32](h, "int32", 32, true)
	intKind[int64](h, "int64", 64, true)
	intKind[uint](h, "uint", 64, false)
	intKind[uint8](h, "uint8", 8, false)
	intKind[uint16](h, "uint16", 16, false)
	intKind[uint32](h, "uint32", 32, false)
	intKind[uint64](h, "uint64", 64, false)
	intKind[uintptr](h, "uintptr", 64, false)
	floatKind[float32](h, "float32")
	floatKind[float64](h, "float64")
	complexKind[complex64, float32](h, "complex64", func(re, im float64) complex64 { return complex(float32(re), float32(im)) },
		func(c complex64) float32 { return real(c) }, func(c complex64) float32 { return imag(c) })
	complexKind[complex128, float64](h, "complex128", func(re, im float64) complex128 { return complex(re, im) },
		func(c complex128) float64 { return real(c) }, func(c complex128) float64 { return imag(c) })
	boolKind(h)
	stringKind(h)
	containers(h)
	containerScripts(h)

	h.wd.Beat("writing cases and report")
	h.cases.Close()
	rep.Extra["coq_cases"] = h.idx
	rep.Sample("int8.Add(z, 127, 1) = -128")
	rep.Sample("uint16.Rem(z, 7, 0) = panic:div0")
	rep.Sample("float64.Quo(z, 0, -0) = NaN (bits compared)")
	rep.Sample("string.Slice(\"abc\", 2, 1) = panic:index")
	rep.Write()
}

// Part 1b: several executions of ONE select / send / receive statement in flight at the same time.
//
// Go evaluates the channel and send operands of a select exactly once per execution, in source order, and they belong
// to that execution.  The programs below run the SAME interpreted function (hence the same compiled statement) in
// several goroutines, or re-enter it from one of its own operands, while the operands of an earlier execution are
// already evaluated:
//
//	same-select-gated      G workers run NAME_w; some operands are calls NAME_ch(c, ent, gate) / NAME_op(v, ent, gate)
//	                       that announce themselves on ent and block on gate; the main goroutine releases the gates in a
//	                       generated order (a fully deterministic interleaving of the operand evaluations: only one
//	                       goroutine runs at any time).  Every worker owns its channels; exactly one case (or none, with a
//	                       default clause) is ready per worker.
//	same-select-reentrant  one goroutine: the value operand of `case cs[d] <- NAME_v(d, cs)` runs the same function
//	                       again one level deeper (other channel) before the outer communication happens.
//	same-select-parallel   G goroutines x N iterations of the same select without any handshake (true parallelism; the
//	                       thorough tier runs it under the race detector).
//
// The result folds every worker's chosen case / received value and the final content of every channel: it is
// schedule independent by construction and the compiled function (batched oracle) yields the expected value.
package main

import (
	"fmt"
	"strings"

	"verifh/vh"
)

func genOverlap(rng *vh.Rng, k int) prog {
	name := fmt.Sprintf("o%d", k)
	switch rng.Intn(8) {
	case 5, 6, 7:
		return genGoOperand(rng, name)
	case 0:
		return genReentrant(rng, name)
	case 1:
		return genParallelSelect(rng, name)
	default:
		return genGated(rng, name)
	}
}

type ovCase struct {
	send           bool
	gateCh, gateOp bool
}

func genGated(rng *vh.Rng, name string) prog {
	G := 2 + rng.Intn(3)
	nc := 1 + rng.Intn(3)
	hasDefault := rng.Chance(1, 2)
	cases := make([]ovCase, nc)
	m := 0 // gated operands per execution
	for m == 0 {
		m = 0
		for j := range cases {
			c := ovCase{send: rng.Chance(3, 5), gateCh: rng.Chance(1, 2)}
			c.gateOp = c.send && rng.Chance(3, 5)
			if c.gateCh {
				m++
			}
			if c.gateOp {
				m++
			}
			cases[j] = c
		}
	}
	var sb strings.Builder
	fmt.Fprintf(&sb, "func %s_op(v int, ent, gate chan int) int { ent <- 1; <-gate; return v }\n", name)
	fmt.Fprintf(&sb, "func %s_ch(c chan int, ent, gate chan int) chan int { ent <- 1; <-gate; return c }\n", name)
	fmt.Fprintf(&sb, "func %s_w(cs []chan int, vs []int, ent, gate chan int) int {\n\tr := 0\n\tselect {\n", name)
	for j, c := range cases {
		ch := fmt.Sprintf("cs[%d]", j)
		if c.gateCh {
			ch = fmt.Sprintf("%s_ch(cs[%d], ent, gate)", name, j)
		}
		if c.send {
			v := fmt.Sprintf("vs[%d]", j)
			if c.gateOp {
				v = fmt.Sprintf("%s_op(vs[%d], ent, gate)", name, j)
			}
			fmt.Fprintf(&sb, "\tcase %s <- %s:\n\t\tr = %d\n", ch, v, j+1)
		} else {
			fmt.Fprintf(&sb, "\tcase x := <-%s:\n\t\tr = %d + x\n", ch, 100*(j+1))
		}
	}
	if hasDefault {
		sb.WriteString("\tdefault:\n\t\tr = 99\n")
	}
	sb.WriteString("\t}\n\treturn r\n}\n")
	// the orchestrator
	fmt.Fprintf(&sb, "func %s() int {\n\ts := 0\n", name)
	val := 10
	for w := 0; w < G; w++ {
		ready := rng.Intn(nc)
		if hasDefault && rng.Chance(1, 4) {
			ready = -1 // no case ready: default
		}
		var mk, pre []string
		var vs []string
		for j, c := range cases {
			val++
			vs = append(vs, fmt.Sprint(val))
			switch {
			case j == ready && c.send:
				mk = append(mk, fmt.Sprintf("make(chan int, %d)", G+2))
			case j == ready:
				mk = append(mk, fmt.Sprintf("make(chan int, %d)", G+2))
				val++
				pre = append(pre, fmt.Sprintf("w%dc[%d] <- %d", w, j, val))
			case rng.Chance(1, 2):
				mk = append(mk, "nil")
			case c.send:
				// a full channel
				mk = append(mk, "make(chan int, 1)")
				val++
				pre = append(pre, fmt.Sprintf("w%dc[%d] <- %d", w, j, val))
			default:
				mk = append(mk, "make(chan int, 1)") // an empty channel
			}
		}
		fmt.Fprintf(&sb, "\tw%dc := []chan int{%s}\n", w, strings.Join(mk, ", "))
		for _, p := range pre {
			sb.WriteString("\t" + p + "\n")
		}
		fmt.Fprintf(&sb, "\tw%dv := []int{%s}\n", w, strings.Join(vs, ", "))
		fmt.Fprintf(&sb, "\tw%de, w%dg, w%dr := make(chan int), make(chan int), make(chan int, 1)\n", w, w, w)
		fmt.Fprintf(&sb, "\tgo func() { chk(); w%dr <- %s_w(w%dc, w%dv, w%de, w%dg); w%de <- 0 }()\n", w, name, w, w, w, w, w)
	}
	// every worker reaches its first gated operand
	for w := 0; w < G; w++ {
		fmt.Fprintf(&sb, "\t<-w%de\n", w)
	}
	// release order: an interleaving of G sequences of m releases
	var script []int
	for w := 0; w < G; w++ {
		for i := 0; i < m; i++ {
			script = append(script, w)
		}
	}
	for i := len(script) - 1; i > 0; i-- {
		j := rng.Intn(i + 1)
		script[i], script[j] = script[j], script[i]
	}
	for _, w := range script {
		fmt.Fprintf(&sb, "\tw%dg <- 0; <-w%de\n", w, w)
	}
	for w := 0; w < G; w++ {
		fmt.Fprintf(&sb, "\ts = (s*31 + <-w%dr) %% 1000003\n", w)
		fmt.Fprintf(&sb, "\tfor _, c := range w%dc { for c != nil && len(c) > 0 { s = (s*31 + <-c) %% 1000003 }; s = (s*31 + 7) %% 1000003 }\n", w)
	}
	sb.WriteString("\treturn s\n}")
	return prog{Name: name, Kind: fmt.Sprintf("same-select-gated:%dworkers:%dcases:%dgated-operands", G, nc, m), Src: sb.String()}
}

func genReentrant(rng *vh.Rng, name string) prog {
	depth := 1 + rng.Intn(3)
	extra := rng.Intn(3) // 0: single case, 1: + never-ready receive from a nil channel, 2: + default never taken
	a := 3 + rng.Intn(40)
	var sb strings.Builder
	// (directly recursive: mutually recursive functions in one evaluation are known finding C16-3)
	fmt.Fprintf(&sb, "func %s_w(d int, cs []chan int) int {\n\tif d < 0 {\n\t\treturn %d\n\t}\n\tr := 0\n\tselect {\n\tcase cs[d] <- %d*d + %s_w(d-1, cs):\n\t\tr = d + 1\n", name, a+1, a, name)
	switch extra {
	case 1:
		sb.WriteString("\tcase x := <-cs[len(cs)-1]:\n\t\tr = 50 + x\n")
	case 2:
		sb.WriteString("\tdefault:\n\t\tr = 77\n")
	}
	sb.WriteString("\t}\n\treturn r\n}\n")
	fmt.Fprintf(&sb, "func %s() int {\n\tcs := make([]chan int, %d)\n\tfor i := 0; i < %d; i++ { cs[i] = make(chan int, %d) }\n", name, depth+2, depth+1, depth+3)
	fmt.Fprintf(&sb, "\tres := make(chan int)\n\tgo func() { chk(); res <- %s_w(%d, cs) }()\n\ts := <-res\n", name, depth)
	fmt.Fprintf(&sb, "\tfor i := 0; i < %d; i++ { for len(cs[i]) > 0 { s = (s*31 + <-cs[i]) %% 1000003 }; s = (s*31 + 7) %% 1000003 }\n\treturn s\n}", depth+1)
	return prog{Name: name, Kind: fmt.Sprintf("same-select-reentrant:depth%d", depth), Src: sb.String()}
}

func genParallelSelect(rng *vh.Rng, name string) prog {
	G := 2 + rng.Intn(5)
	N := 20 + rng.Intn(60)
	a := 2 + rng.Intn(5)
	hasDefault := rng.Chance(1, 2)
	var sb strings.Builder
	fmt.Fprintf(&sb, "func %s_w(c0, c1 chan int, v int) int {\n\tr := 0\n\tselect {\n\tcase c0 <- v + 1:\n\t\tr = 1\n\tcase x := <-c1:\n\t\tr = 2 + x\n", name)
	if hasDefault {
		sb.WriteString("\tdefault:\n\t\tr = 5\n")
	}
	sb.WriteString("\t}\n\treturn r\n}\n")
	third := "t = t*3 + 1"
	if hasDefault {
		third = fmt.Sprintf("t = t*3 + %s_w(nil, nil, i)", name)
	}
	fmt.Fprintf(&sb, `func %s() int {
	var wg sync.WaitGroup
	res := make([]int, %d)
	for g := 0; g < %d; g++ {
		wg.Add(1)
		go func(k int) {
			defer wg.Done()
			chk()
			t := 0
			for i := 0; i < %d; i++ {
				switch (i + k) %% %d {
				case 0:
					c := make(chan int, 1)
					t = t*3 + %s_w(c, nil, i*k)
					t = (t + <-c) %% 1000003
				case 1:
					c := make(chan int, 1)
					c <- i + 10*k
					t = (t*3 + %s_w(nil, c, 0)) %% 1000003
				case 2:
					%s
				default:
					c, f := make(chan int, 1), make(chan int, 1)
					f <- 1
					c <- i ^ k
					t = (t*3 + %s_w(f, c, 0)) %% 1000003
				}
			}
			res[k] = t
		}(g)
	}
	wg.Wait()
	s := 0
	for _, v := range res { s = (s*31 + v) %% 1000003 }
	return s
}`, name, G, G, N, a, name, name, third, name)
	return prog{Name: name, Kind: fmt.Sprintf("same-select-parallel:%dgoroutines", G), Src: sb.String()}
}

// go-operand-snapshot: the go statement evaluates the function VALUE and the arguments in the calling goroutine (Go spec);
// the function operand is a non-constant expression (slice / map element, call result, method value of a variable or
// through a pointer / interface, function variable, struct field) and the caller changes what the expression reads
// directly after the go statement.  Every started goroutine reports on a channel of its own: the result is schedule
// independent in Go.
func genGoOperand(rng *vh.Rng, name string) prog {
	n := 2 + rng.Intn(4)
	var sb strings.Builder
	fmt.Fprintf(&sb, "type %s_T struct{ id int }\n", name)
	fmt.Fprintf(&sb, "func (t %s_T) run(o chan int, x int) { o <- 5000 + 10*t.id + x }\n", name)
	fmt.Fprintf(&sb, "func (t *%s_T) prun(o chan int, x int) { o <- 6000 + 10*t.id + x }\n", name)
	fmt.Fprintf(&sb, "type %s_I interface{ run(o chan int, x int) }\n", name)
	fmt.Fprintf(&sb, "type %s_H struct{ fn func(chan int, int) }\n", name)
	for i := 0; i < 3; i++ {
		fmt.Fprintf(&sb, "func %s_f%d(o chan int, x int) { o <- %d + x }\n", name, i, 1000*(i+1))
	}
	fmt.Fprintf(&sb, "func %s_pick(fs []func(chan int, int), p *int) func(chan int, int) { return fs[*p] }\n", name)
	fmt.Fprintf(&sb, "func %s() int {\n\ts := 0\n", name)
	fmt.Fprintf(&sb, "\tfs := []func(chan int, int){%s_f0, %s_f1, %s_f2}\n", name, name, name)
	fmt.Fprintf(&sb, "\tm := map[string]func(chan int, int){\"a\": %s_f0, \"b\": %s_f1, \"c\": %s_f2}\n", name, name, name)
	sb.WriteString("\tmk := func(d int) func(chan int, int) { return func(o chan int, x int) { o <- 7000 + 10*d + x } }\n")
	sb.WriteString("\t_, _, _ = fs, m, mk\n")
	var forms []string
	for k := 0; k < n; k++ {
		a := rng.Intn(3)
		b := (a + 1 + rng.Intn(2)) % 3
		x := 1 + rng.Intn(8)
		o := fmt.Sprintf("o%d", k)
		fmt.Fprintf(&sb, "\t%s := make(chan int, 1)\n\tx%d := %d\n", o, k, x)
		arg := fmt.Sprintf("(%s, x%d)", o, k)
		form := rng.Intn(12)
		var body, fname string
		switch form {
		case 0:
			fname = "slice-element:index-changed"
			body = fmt.Sprintf("i%d := %d\n\tgo fs[i%d]%s\n\ti%d = %d", k, a, k, arg, k, b)
		case 1:
			fname = "slice-element:element-overwritten"
			body = fmt.Sprintf("i%d := %d\n\tgo fs[i%d]%s\n\tfs[i%d] = %s_f%d", k, a, k, arg, k, name, b)
		case 2:
			fname = "map-element:key-changed"
			body = fmt.Sprintf("k%d := %q\n\tgo m[k%d]%s\n\tk%d = %q", k, string(rune('a'+a)), k, arg, k, string(rune('a'+b)))
		case 3:
			fname = "map-element:element-overwritten"
			body = fmt.Sprintf("go m[%q]%s\n\tm[%q] = %s_f%d", string(rune('a'+a)), arg, string(rune('a'+a)), name, b)
		case 4:
			fname = "call-result:pointer-argument-changed"
			body = fmt.Sprintf("i%d := %d\n\tgo %s_pick(fs, &i%d)%s\n\ti%d = %d", k, a, name, k, arg, k, b)
		case 5:
			fname = "method-value:variable-reassigned"
			body = fmt.Sprintf("v%d := %s_T{%d}\n\tgo v%d.run%s\n\tv%d = %s_T{%d}", k, name, a, k, arg, k, name, b)
		case 6:
			fname = "method-value:field-changed"
			body = fmt.Sprintf("v%d := %s_T{%d}\n\tgo v%d.run%s\n\tv%d.id = %d", k, name, a, k, arg, k, b)
		case 7:
			fname = "method-value-through-pointer:pointer-reassigned"
			meth := "run"
			if rng.Chance(1, 2) && !avoidPtrRecv {
				meth = "prun"
			}
			body = fmt.Sprintf("p%d := &%s_T{%d}\n\tgo p%d.%s%s\n\tp%d = &%s_T{%d}", k, name, a, k, meth, arg, k, name, b)
		case 8:
			fname = "function-variable:reassigned"
			body = fmt.Sprintf("f%d := %s_f%d\n\tgo f%d%s\n\tf%d = %s_f%d", k, name, a, k, arg, k, name, b)
		case 9:
			fname = "struct-field:reassigned"
			body = fmt.Sprintf("h%d := %s_H{fn: %s_f%d}\n\tgo h%d.fn%s\n\th%d.fn = %s_f%d", k, name, name, a, k, arg, k, name, b)
		case 10:
			fname = "interface-method-value:reassigned"
			body = fmt.Sprintf("var t%d %s_I = %s_T{%d}\n\tgo t%d.run%s\n\tt%d = %s_T{%d}", k, name, name, a, k, arg, k, name, b)
		default:
			fname = "closure-call-result:argument-changed"
			body = fmt.Sprintf("d%d := %d\n\tgo mk(d%d)%s\n\td%d = %d", k, a, k, arg, k, b)
		}
		forms = append(forms, fname)
		fmt.Fprintf(&sb, "\t%s\n\tx%d = %d\n", body, k, x+20)
	}
	for k := 0; k < n; k++ {
		fmt.Fprintf(&sb, "\ts = (s*31 + <-o%d) %% 1000003\n", k)
	}
	sb.WriteString("\treturn s\n}")
	return prog{Name: name, Kind: "go-operand-snapshot:" + strings.Join(forms, ","), Src: sb.String()}
}

// Finding C10-2 (fix in /verif/fixes/C10-2.diff): a method value with a POINTER receiver taken from a pointer variable
// or field (`g := p.get`, `go p.get()`, `defer p.get()`) stays bound to the variable instead of to the pointer it held
// when the method value was created: after `p = &T{2}` the call uses the new pointer.  While the exact recorded input
// still fails, the generator uses value-receiver methods only for the form method-value-through-pointer.
const keyPtrRecv = "C10-2-method-value-pointer-receiver-bound-late"

var avoidPtrRecv bool

var ptrRecvProg = []string{
	`type C10pT struct{ id int }`,
	`func (t *C10pT) get() int { return t.id }`,
	`func (t *C10pT) put(o chan int) { o <- t.id }`,
	`func c10probe1() int { p := &C10pT{0}; g := p.get; p = &C10pT{2}; return g() }`,
	`func c10probe2() int { p := &C10pT{0}; o := make(chan int, 1); go p.put(o); p = &C10pT{2}; return <-o }`,
}

package main

// Part 5: registry stress in a CHILD process (a Go runtime "fatal error", e.g. "concurrent map read and map write" on the
// registry of per-goroutine records, cannot be recovered: it would take the harness and its report with it).
//
// Generated programs (schedule independent, compared with the compiled function like part 1): many short-lived goroutines call
// closures whose defining frame belongs to ANOTHER goroutine (the creator's, a sibling's, a parent worker's) - every such
// call looks the caller's record up in the registry - while other goroutines start and exit (every go statement stores and
// deletes a record).  The child runs them with GOMAXPROCS 8 until a time budget is used up (at least once each) and prints one
// line per run; the parent turns a dead child into a failure whose input is the program that was running and whose `got` is
// the head of the child's output.

import (
	"bufio"
	"bytes"
	"context"
	"encoding/json"
	"fmt"
	"os"
	"os/exec"
	"runtime"
	"strings"
	"time"

	"verifh/vh"
)

func genStress(rng *vh.Rng, k int) prog {
	name := fmt.Sprintf("st%d", k)
	rounds := 40 + rng.Intn(40)
	workers := 16 + rng.Intn(48)
	calls := 5 + rng.Intn(30)
	churn := 8 + rng.Intn(40)
	a := 1 + rng.Intn(5)
	var kind, body string
	switch k % 4 {
	case 0:
		kind = "stress:creator-closure+churn"
		body = fmt.Sprintf(`total := 0; var mu sync.Mutex; add := func(n int) { mu.Lock(); total += n; mu.Unlock() }
	for r := 0; r < %d; r++ {
		var wg sync.WaitGroup
		for w := 0; w < %d; w++ { wg.Add(1); go func(k int) { defer wg.Done(); for i := 0; i < %d; i++ { add(k%%3 + %d) } }(w) }
		for e := 0; e < %d; e++ { wg.Add(1); go func() { wg.Done() }() }
		wg.Wait()
	}
	return total`, rounds, workers, calls, a, churn)
	case 1:
		kind = "stress:sibling-closure-over-channel"
		body = fmt.Sprintf(`total := 0; var mu sync.Mutex
	for r := 0; r < %d; r++ {
		fs := make(chan func(int), %d); var wg sync.WaitGroup
		for w := 0; w < %d; w++ { wg.Add(1); go func(k int) { defer wg.Done(); fs <- func(n int) { mu.Lock(); total += n + k - k; mu.Unlock() }; f := <-fs; for i := 0; i < %d; i++ { f(%d) }; fs <- f }(w) }
		for e := 0; e < %d; e++ { wg.Add(1); go func() { wg.Done() }() }
		wg.Wait()
	}
	return total`, rounds, workers, workers, calls, a, churn)
	case 2:
		kind = "stress:nested-go-parent-closure"
		body = fmt.Sprintf(`res := make([]int, %d)
	for r := 0; r < %d; r++ {
		var wg sync.WaitGroup
		for w := 0; w < %d; w++ { wg.Add(1); go func(k int) { defer wg.Done(); var mu sync.Mutex; var w2 sync.WaitGroup; put := func(n int) { mu.Lock(); res[k] += n; mu.Unlock() }
			for j := 0; j < 3; j++ { w2.Add(1); go func(j int) { defer w2.Done(); for i := 0; i < %d; i++ { put(j + %d) } }(j) }
			w2.Wait() }(w) }
		wg.Wait()
	}
	s := 0; for _, v := range res { s = s*3 + v }; return s %% 1000000007`, workers, rounds, workers, calls/2+1, a)
	default:
		kind = "stress:unsynchronised-waves"
		body = fmt.Sprintf(`total := 0; var mu sync.Mutex; add := func(n int) int { mu.Lock(); total += n; mu.Unlock(); return n }; done := make(chan int, %d)
	n := 0
	for r := 0; r < %d; r++ {
		for w := 0; w < %d; w++ { n++; go func(k int) { s := 0; for i := 0; i < %d; i++ { s += add(k%%2 + %d) }; done <- s }(w) }
		if r%%2 == 1 { for ; n > %d; n-- { <-done } }
	}
	for ; n > 0; n-- { <-done }
	return total`, workers*4, rounds, workers, calls, a, workers)
	}
	return prog{Name: name, Kind: kind, Src: "func " + name + "() int {\n\t" + body + "\n}"}
}

type stressJob struct {
	Progs  []prog         `json:"progs"`
	Want   map[string]int `json:"want"`
	Budget float64        `json:"budget_s"`
}

// stressChild runs in the child process (C10_MODE=stress)
func stressChild(a *vh.Args) {
	var job stressJob
	b, err := os.ReadFile(a.Path("stress_job.json"))
	if err != nil || json.Unmarshal(b, &job) != nil {
		fmt.Println("STRESS-BADJOB", err)
		os.Exit(4)
	}
	runtime.GOMAXPROCS(8)
	ir := newInterp()
	for _, p := range job.Progs {
		ir.Eval(p.Src)
	}
	deadline := time.Now().Add(time.Duration(job.Budget * float64(time.Second)))
	for round := 0; round == 0 || time.Now().Before(deadline); round++ {
		for _, p := range job.Progs {
			fmt.Println("STRESS-START", p.Name)
			v, _ := ir.Eval(p.Name + "()")
			fmt.Println("STRESS-RESULT", p.Name, v[0].Int())
		}
	}
	fmt.Println("STRESS-DONE")
}

// runStress: parent side
func runStress(a *vh.Args, rep *vh.Report, progs []prog, want map[string]int, budget float64) (died bool) {
	job := stressJob{Progs: progs, Want: map[string]int{}, Budget: budget}
	byName := map[string]prog{}
	for _, p := range progs {
		job.Want[p.Name] = want[p.Name]
		byName[p.Name] = p
	}
	b, _ := json.MarshalIndent(job, "", " ")
	os.WriteFile(a.Path("stress_job.json"), b, 0o644)
	ctx, cancel := context.WithTimeout(context.Background(), time.Duration((budget*6+120)*float64(time.Second)))
	defer cancel()
	c := exec.CommandContext(ctx, os.Args[0], os.Args[1:]...)
	c.Env = append(os.Environ(), "C10_MODE=stress")
	out, err := c.CombinedOutput()
	runs, last, done := 0, "", false
	sc := bufio.NewScanner(bytes.NewReader(out))
	sc.Buffer(make([]byte, 1<<20), 1<<20)
	for sc.Scan() {
		f := strings.Fields(sc.Text())
		switch {
		case len(f) == 2 && f[0] == "STRESS-START":
			last = f[1]
		case len(f) == 3 && f[0] == "STRESS-RESULT":
			runs++
			p := byName[f[1]]
			rep.Count(p.Src, true)
			rep.Dist("kind:" + p.Kind)
			if w := fmt.Sprint(want[f[1]]); f[2] != w {
				rep.Fail(vh.Failure{Key: p.Src, What: "stress program (child process): result not producible by compiled Go", Input: p, Got: f[2], Want: w})
			}
		case len(f) == 1 && f[0] == "STRESS-DONE":
			done = true
		}
	}
	rep.Extra["stress_child_runs"] = runs
	if err != nil || !done {
		died = true
		txt := string(out)
		if i := strings.Index(txt, "fatal error:"); i >= 0 {
			txt = txt[i:]
		} else if i := strings.Index(txt, "panic:"); i >= 0 {
			txt = txt[i:]
		}
		if len(txt) > 1500 {
			txt = txt[:1500]
		}
		p, ok := byName[last]
		var input interface{} = progs
		key := "stress-child"
		if ok {
			input, key = p, p.Src
		}
		rep.Fail(vh.Failure{Key: key, What: fmt.Sprintf("the child process running the interpreted stress programs (GOMAXPROCS 8) died: %v after %d completed runs", err, runs), Input: input, Got: txt,
			Want: fmt.Sprint("exit 0 and result ", want[last], " (compiled Go)")})
	}
	return died
}

// c10: interpreted goroutines and channels vs compiled Go.
// Part 1: random concurrent programs whose result is schedule independent by construction (fan-in sums over
//
//	unbuffered/buffered channels, close + range, select with and without default, sync.WaitGroup / sync.Mutex,
//	closures shared between goroutines, pipelines, nested go statements); each is run R times in gomacro with
//	GOMAXPROCS varied and compared with the same function compiled by `go build` (batched oracle module, go 1.18).
//
// Part 2: schedule-dependent programs (several senders on one channel, order-sensitive fold at the receiver):
//
//	every observed result must belong to the admissible set computed by exhaustive enumeration of the merges of
//	the senders' sequences (test oracle).
//
// Part 3 (corpus): the recorded racy program (closure created in a go statement's arguments, called by a third
//
//	goroutine); under -race its reports are keyed C10-go-arg-closure-race.
//
// Ownership probes (every tier): the generated programs call chk() at the start of every goroutine body and inside
//
//	closures; in gomacro chk is a compiled function registered with DeclEnvFunc that receives the calling frame:
//	the Run of that frame must be owned by the running goroutine's identity (gls.GoID) and must not be in use by
//	two goroutines at once.  After every program the registry (hook VerifRegistry) must return to exactly
//	{creator -> the interpreter's own Run}: every go-statement goroutine registers a record of its own and removes
//	it on exit, and never touches the creator's entry.
//
// Part 4 (corpus): coldProg (first concurrent execution of one call expression), key C10-callsite-cache-race.
// Thorough tier: built with -race; the process re-executes itself with GORACE=log_path and turns every report
// into a failure.
package main

import (
	"encoding/json"
	"fmt"
	"io"
	"os"
	"os/exec"
	"path/filepath"
	"runtime"
	"sort"
	"strconv"
	"strings"
	"sync"
	"sync/atomic"
	"time"

	"github.com/cosmos72/gomacro/fast"
	"github.com/cosmos72/gomacro/gls"
	xr "github.com/cosmos72/gomacro/xreflect"
	"verifh/vh"
)

type prog struct {
	Name string `json:"name"`
	Kind string `json:"kind"`
	Src  string `json:"src"` // func NAME() int { ... }
	want int
	adm  map[int]bool // schedule dependent: admissible results
}

func genIndep(rng *vh.Rng, k int) prog {
	name := fmt.Sprintf("p%d", k)
	n := 2 + rng.Intn(6)
	a := rng.Intn(9)
	b := 1 + rng.Intn(4)
	var body, kind string
	switch rng.Intn(9) {
	case 0:
		kind = "fanin-unbuffered"
		body = fmt.Sprintf(`ch := make(chan int); for i := 0; i < %d; i++ { go func(k int) { chk(); ch <- k*k + %d }(i) }; s := 0; for i := 0; i < %d; i++ { s += <-ch }; return s`, n, a, n)
	case 1:
		kind = "buffered-close-range"
		body = fmt.Sprintf(`ch := make(chan int, %d); go func() { chk(); for i := 0; i < %d; i++ { ch <- i + %d }; close(ch) }(); s := 0; for v := range ch { s = s*3 + v }; return s`, b, n+3, a)
	case 2:
		kind = "waitgroup-mutex"
		body = fmt.Sprintf(`var wg sync.WaitGroup; var mu sync.Mutex; c := 0; for i := 0; i < %d; i++ { wg.Add(1); go func(k int) { defer wg.Done(); chk(); mu.Lock(); c += k*%d + 1; mu.Unlock() }(i) }; wg.Wait(); return c`, n, a+1)
	case 3:
		kind = "select-default-poll"
		body = fmt.Sprintf(`ch := make(chan int, %d); go func() { chk(); for i := 1; i <= %d; i++ { ch <- i * %d } }(); s, got, spins := 0, 0, 0; for got < %d { select { case v := <-ch: s += v; got++; default: spins++ } }; return s`, b, n, a+1, n)
	case 4:
		kind = "select-two-producers"
		body = fmt.Sprintf(`x := make(chan int); y := make(chan int, %d); go func() { chk(); for i := 0; i < %d; i++ { x <- i } }(); go func() { chk(); for i := 0; i < %d; i++ { y <- 100 + i } }(); s := 0; for i := 0; i < %d; i++ { select { case v := <-x: s += v; case v := <-y: s += v * 2 } }; return s`, b, n, n+1, 2*n+1)
	case 5:
		kind = "shared-closure"
		body = fmt.Sprintf(`var mu sync.Mutex; total := 0; add := func(d int) { chk(); mu.Lock(); total += d; mu.Unlock() }; done := make(chan bool); for i := 0; i < %d; i++ { go func(k int) { chk(); get := func() int { chk(); return k * %d }; add(get()); add(1); done <- true }(i) }; for i := 0; i < %d; i++ { <-done }; return total`, n, a+2, n)
	case 6:
		kind = "pipeline"
		body = fmt.Sprintf(`c1 := make(chan int); c2 := make(chan int, %d); go func() { chk(); for i := 0; i < %d; i++ { c1 <- i }; close(c1) }(); go func() { chk(); for v := range c1 { c2 <- v*v + %d }; close(c2) }(); s := 0; for v := range c2 { s = s*2 + v }; return s`, b, n+2, a)
	case 7:
		kind = "nested-go-waitgroup"
		body = fmt.Sprintf(`var wg sync.WaitGroup; res := make([]int, %d); for i := 0; i < %d; i++ { wg.Add(1); go func(k int) { defer wg.Done(); chk(); var w2 sync.WaitGroup; w2.Add(1); go func() { defer w2.Done(); chk(); res[k] = k + %d }(); w2.Wait(); res[k] *= 2 }(i) }; wg.Wait(); s := 0; for _, v := range res { s = s*5 + v }; return s`, n, n, a)
	default:
		kind = "close-broadcast-select"
		body = fmt.Sprintf(`stop := make(chan bool); out := make(chan int, %d); for i := 0; i < %d; i++ { go func(k int) { chk(); <-stop; select { case out <- k + %d: } }(i) }; close(stop); s := 0; for i := 0; i < %d; i++ { s += <-out }; _, ok := <-stop; if !ok { s += 1000 }; return s`, n, n, a, n)
	}
	return prog{Name: name, Kind: kind, Src: "func " + name + "() int { " + body + " }"}
}

// merges enumerates every interleaving of the sequences (each sender's order is kept) and folds it
func merges(seqs [][]int, base int) map[int]bool {
	out := map[int]bool{}
	idx := make([]int, len(seqs))
	var rec func(acc int, left int)
	rec = func(acc int, left int) {
		if left == 0 {
			out[acc] = true
			return
		}
		for i := range seqs {
			if idx[i] < len(seqs[i]) {
				v := seqs[i][idx[i]]
				idx[i]++
				rec(acc*base+v, left-1)
				idx[i]--
			}
		}
	}
	total := 0
	for _, s := range seqs {
		total += len(s)
	}
	rec(0, total)
	return out
}

func genDep(rng *vh.Rng, k int) prog {
	name := fmt.Sprintf("q%d", k)
	ns := 2 + rng.Intn(2)
	capn := rng.Intn(3)
	var seqs [][]int
	var gos []string
	total := 0
	v := 1
	for i := 0; i < ns; i++ {
		m := 1 + rng.Intn(2)
		var seq []int
		var sends []string
		for j := 0; j < m; j++ {
			seq = append(seq, v)
			sends = append(sends, fmt.Sprintf("ch <- %d", v))
			v++
		}
		total += m
		seqs = append(seqs, seq)
		gos = append(gos, "go func() { chk(); "+strings.Join(sends, "; ")+" }()")
	}
	body := fmt.Sprintf(`ch := make(chan int, %d); %s; r := 0; for i := 0; i < %d; i++ { r = r*10 + <-ch }; return r`, capn, strings.Join(gos, "; "), total)
	return prog{Name: name, Kind: fmt.Sprintf("order-dependent:%dsenders:cap%d", ns, capn), Src: "func " + name + "() int { " + body + " }", adm: merges(seqs, 10)}
}

func buildOracle(a *vh.Args, progs []prog) (map[string]int, error) {
	dir := a.Path("oracle")
	os.MkdirAll(dir, 0o755)
	var sb strings.Builder
	sb.WriteString("package main\n\nimport (\n\t\"fmt\"\n\t\"sync\"\n)\n\nvar _ sync.Mutex\n\nfunc chk() interface{} { return nil }\n\n")
	for _, p := range progs {
		sb.WriteString(p.Src + "\n\n")
	}
	sb.WriteString("func main() {\n")
	for _, p := range progs {
		fmt.Fprintf(&sb, "\tfor i := 0; i < 3; i++ { fmt.Println(%q, %s()) }\n", p.Name, p.Name)
	}
	sb.WriteString("}\n")
	os.WriteFile(filepath.Join(dir, "main.go"), []byte(sb.String()), 0o644)
	os.WriteFile(filepath.Join(dir, "go.mod"), []byte("module oracle\n\ngo 1.18\n"), 0o644)
	c := exec.Command("go", "build", "-o", "oracle", ".")
	c.Dir = dir
	if out, err := c.CombinedOutput(); err != nil {
		return nil, fmt.Errorf("oracle build: %v\n%s", err, out)
	}
	c = exec.Command(filepath.Join(dir, "oracle"))
	out, err := c.Output()
	if err != nil {
		return nil, fmt.Errorf("oracle run: %v", err)
	}
	res := map[string]int{}
	seen := map[string]map[int]bool{}
	for _, line := range strings.Split(strings.TrimSpace(string(out)), "\n") {
		f := strings.Fields(line)
		if len(f) != 2 {
			continue
		}
		name := strings.Trim(f[0], `"`)
		v, _ := strconv.Atoi(f[1])
		res[name] = v
		if seen[name] == nil {
			seen[name] = map[int]bool{}
		}
		seen[name][v] = true
	}
	for n, s := range seen {
		if len(s) != 1 {
			return nil, fmt.Errorf("oracle: program %s is not schedule independent in compiled Go: %v", n, s)
		}
	}
	return res, nil
}

// probe: state of the ownership oracle (see the header)
type probe struct {
	calls, viol, shared int64
	first               atomic.Value
	active              sync.Map // Run -> identity of the goroutine currently inside chk with a frame of that Run
}

var pr probe

func newInterp() *fast.Interp {
	ir := fast.New()
	ir.Comp.Globals.Stderr = io.Discard
	ir.Comp.Globals.Stdout = io.Discard
	chk := func(interpv xr.Value) xr.Value {
		in := interpv.Interface().(*fast.Interp)
		run, owner := in.VerifRunOf()
		me := gls.GoID()
		n := atomic.AddInt64(&pr.calls, 1)
		if owner != me {
			if atomic.AddInt64(&pr.viol, 1) == 1 {
				pr.first.Store(fmt.Sprintf("frame's Run is owned by identity %#x, running goroutine is %#x", owner, me))
			}
		}
		if prev, loaded := pr.active.LoadOrStore(run, me); loaded && prev.(uintptr) != me {
			atomic.AddInt64(&pr.shared, 1)
		}
		if n%3 == 0 {
			runtime.Gosched()
		}
		pr.active.Delete(run)
		return xr.ValueOf(0)
	}
	ir.DeclEnvFunc("chk", fast.Function{Fun: chk, Type: ir.Comp.TypeOf(func(interface{}) interface{} { return nil })})
	ir.Eval(`import "sync"`)
	return ir
}

// registryRestored polls until the registry is exactly {creator -> the interpreter's Run} (the go-statement goroutines
// remove their records in a deferred call after the function returned, i.e. slightly after the program's result)
func registryRestored(ir *fast.Interp) (bool, string) {
	me := gls.GoID()
	myRun, myOwner := ir.VerifRunOf()
	deadline := time.Now().Add(3 * time.Second)
	for {
		reg := ir.VerifRegistry()
		what := ""
		creator := false
		for _, e := range reg {
			if e.Goid != e.Owner {
				return false, fmt.Sprintf("registry[%#x] is a record owned by %#x", e.Goid, e.Owner)
			}
			if e.Goid == me {
				creator = e.Run == myRun
			}
		}
		switch {
		case myOwner != me:
			return false, "the interpreter's own Run is not owned by the creator goroutine"
		case !creator:
			// never transient: nothing but the creator may remove or replace the creator's entry
			return false, fmt.Sprintf("the creator's registry entry is missing or replaced (%d entries)", len(reg))
		case len(reg) != 1:
			what = fmt.Sprintf("%d registry entries left after all goroutines of the program finished", len(reg))
		default:
			return true, ""
		}
		if time.Now().After(deadline) {
			return false, what
		}
		runtime.Gosched()
		time.Sleep(50 * time.Microsecond)
	}
}

var corpusProg = []string{
	`var ch = make(chan func() int, 1)`, `var res = make(chan int, 1)`, `var done = make(chan int, 1)`,
	`func leak(f func() int) func() int { ch <- f; return f }`,
	`func user() { f := <-ch; s := 0; for i := 0; i < 200; i++ { s += f() }; res <- s }`,
	`func run(f func() int) { done <- f() }`,
}

func runCorpus(rep *vh.Report, rounds int) {
	ir := newInterp()
	for _, s := range corpusProg {
		ir.Eval(s)
	}
	bad := 0
	for i := 0; i < rounds; i++ {
		ir.Eval(`go user()`)
		ir.Eval(`go run(leak(func() int { return 1 }))`)
		v, _ := ir.Eval(`<-res + <-done`)
		if v[0].Int() != 201 {
			bad++
		}
	}
	if bad != 0 {
		rep.Fail(vh.Failure{Key: "corpus:go-arg-closure:result", What: "wrong result", Input: corpusProg, Got: bad, Want: 0})
	}
	rep.Count("corpus:go-arg-closure", true)
	rep.Dist("corpus:go-arg-closure")
}

// coldProg: goroutines started by go statements call one top-level function for the first time concurrently.
// gomacro caches the callee of such a call expression in variables captured by the compiled closure
// (fast/call0ret1.go, call1ret1.go, callnret0.go: cachedfunv / cachedfun) and fills them without synchronisation
// on first execution.  Replayed in a process of its own in the -race build, key C10-callsite-cache-race.
var coldProg = []string{
	`func leaf(x int) int { return x + 1 }`,
	`func work(n int) int { s := 0; for i := 0; i < n; i++ { s += leaf(i) }; return s }`,
	`func once(k int) int { return leaf(k) }`, // every goroutine executes this call expression exactly once (a later read by the same goroutine would hide its write from the detector)
	`func cold() int { ch := make(chan int); start := make(chan bool); for i := 0; i < 8; i++ { go func(k int) { <-start; ch <- once(k) + work(k) }(i) }; close(start); s := 0; for i := 0; i < 8; i++ { s += <-ch }; return s }`,
}

const keyCold = "C10-callsite-cache-race"

func runCold(rep *vh.Report, rounds int) {
	bad := 0
	for i := 0; i < rounds; i++ {
		ir := newInterp()
		for _, s := range coldProg {
			ir.Eval(s)
		}
		v, _ := ir.Eval(`cold()`)
		if v[0].Int() != 84+36 {
			bad++
		}
	}
	if bad != 0 {
		rep.Fail(vh.Failure{Key: "corpus:cold-call:result", What: "wrong result", Input: coldProg, Got: bad, Want: 0})
	}
	rep.Count("corpus:cold-call", true)
	rep.Dist("corpus:cold-call")
}

func knownKeys() map[string]bool {
	out := map[string]bool{}
	b, err := os.ReadFile(filepath.Join(os.Getenv("VERIF_DIR"), "known_findings.json"))
	if err != nil {
		return out
	}
	var kf struct {
		Findings []struct{ Property, Key, Status string }
	}
	if json.Unmarshal(b, &kf) == nil {
		for _, f := range kf.Findings {
			if f.Property == "C10" && f.Status == "known" {
				out[f.Key] = true
			}
		}
	}
	return out
}

func raceReports(logp string) []string {
	files, _ := filepath.Glob(logp + ".*")
	var reports []string
	for _, f := range files {
		b, _ := os.ReadFile(f)
		for _, part := range strings.Split(string(b), "==================") {
			if strings.Contains(part, "DATA RACE") {
				reports = append(reports, strings.TrimSpace(part))
			}
		}
	}
	return reports
}

func child(a *vh.Args, mode, logp string) error {
	old, _ := filepath.Glob(logp + ".*")
	for _, f := range old {
		os.Remove(f)
	}
	c := exec.Command(os.Args[0], os.Args[1:]...)
	c.Env = append(os.Environ(), "C10_MODE="+mode, "GORACE=log_path="+logp+" halt_on_error=0 exitcode=0")
	c.Stdout, c.Stderr = os.Stdout, os.Stderr
	return c.Run()
}

func reexec(a *vh.Args) {
	err1 := child(a, "corpus", a.Path("race_corpus"))
	corp := raceReports(a.Path("race_corpus"))
	err3 := child(a, "cold", a.Path("race_cold"))
	cold := raceReports(a.Path("race_cold"))
	if err1 == nil {
		err1 = err3
	}
	err2 := child(a, "main", a.Path("race_main"))
	rest := raceReports(a.Path("race_main"))
	rp := a.Path("report.json")
	var m map[string]interface{}
	if b, e := os.ReadFile(rp); e == nil && json.Unmarshal(b, &m) == nil {
		fl, _ := m["failures"].([]interface{})
		add := func(key string, reps []string, input interface{}) {
			if len(reps) == 0 {
				return
			}
			txt := reps[0]
			if len(txt) > 3000 {
				txt = txt[:3000]
			}
			fl = append(fl, map[string]interface{}{"key": key, "what": fmt.Sprintf("%d data race report(s) from the Go race detector", len(reps)), "input": input, "got": txt})
		}
		add("C10-go-arg-closure-race", corp, corpusProg)
		add("race-detector", rest, "random programs (see distribution)")
		if knownKeys()[keyCold] {
			// reported as a failure only once the finding is listed (until then: extra.race_reports_cold_call)
			add(keyCold, cold, coldProg)
		}
		m["failures"] = fl
		ex, _ := m["extra"].(map[string]interface{})
		if ex == nil {
			ex = map[string]interface{}{}
		}
		ex["race_reports_corpus"] = len(corp)
		ex["race_reports_random_programs"] = len(rest)
		ex["race_reports_cold_call"] = len(cold)
		if len(cold) > 0 {
			txt := cold[0]
			if len(txt) > 3000 {
				txt = txt[:3000]
			}
			ex["race_report_cold_call_first"] = txt
		}
		m["extra"] = ex
		b, _ := json.MarshalIndent(m, "", " ")
		os.WriteFile(rp, b, 0o644)
	}
	if err1 != nil || err2 != nil {
		fmt.Println("child:", err1, err2)
		os.Exit(1)
	}
	os.Exit(0)
}

func main() {
	a := vh.ParseArgs()
	mode := os.Getenv("C10_MODE")
	if raceEnabled && mode == "" {
		reexec(a)
	}
	rep := vh.NewReport(a, "part 1: PRNG-generated concurrent programs from 9 schedule-independent families (fan-in, buffered+close+range, WaitGroup+Mutex, select with default, select over two producers, closure shared between goroutines, pipeline, nested go, close-broadcast) with random sizes/capacities/constants, each run R times under GOMAXPROCS 1,2,4,8 and compared with the compiled function; ownership probe chk() at the start of every goroutine body and closure, registry audit after every program; "+
		"part 1b: programs in which ONE select statement is in flight several times between operand evaluation and communication: 2-4 goroutines run the same function whose select (1-3 send/receive cases, with/without default) has operands that are calls blocking on a gate, "+
		"released by the main goroutine in a PRNG-chosen interleaving (deterministic handshake, one ready case or none per worker, own channels per worker); a select re-entered from its own send operand (depth 1-3); 2-6 goroutines x 20-79 iterations of the same select without handshake; result = fold of every worker's chosen case / received value and every channel's final content, compared with the compiled function; "+
		"go statements whose FUNCTION operand is a non-constant expression (slice/map element, call result, method value of a variable / through a pointer / of an interface, function variable, struct field, closure call result) and whose inputs the caller changes directly after the go statement (2-5 go statements per program, each goroutine reports on its own channel); "+
		"part 5 (not under -race): 4 (thorough 12) PRNG-sized registry stress programs from 4 families (closure of the creator / of a sibling received over a channel / of a parent worker called by 16-63 short-lived goroutines x 40-79 rounds while other goroutines only start and exit; unsynchronised waves), run repeatedly for 15 s (thorough 120 s) with GOMAXPROCS 8 in a child process whose death (Go runtime fatal error) is a failure with the running program as input, results compared with the compiled function; "+
		"part 2: order-dependent programs (2-3 senders, 1-2 values each, capacity 0-2) checked against the exhaustively enumerated admissible set; every program with >= 2 goroutines is non-trivial; distinct by SHA-256 of the source")
	limit := 300 * time.Second // one heartbeat covers the `go build` of the whole oracle batch (> 2 min on a loaded machine)
	if raceEnabled || a.Thorough() {
		limit = 420 * time.Second
	}
	wd := vh.NewWatchdog(rep, limit)
	if mode == "corpus" {
		runCorpus(rep, 200)
		rep.Write()
		return
	}
	if mode == "stress" {
		stressChild(a)
		return
	}
	if mode == "cold" {
		runtime.GOMAXPROCS(8)
		runCold(rep, 40)
		rep.Write()
		return
	}
	rng := vh.NewRng(a.Seed)
	nI, nD, R := 60, 30, 6
	if a.Thorough() {
		nI, nD, R = 600, 200, 12
	}
	if raceEnabled {
		R = R / 2
	}
	if a.N > 0 {
		nI = a.N
	}
	var indep, dep []prog
	for k := 0; k < nI; k++ {
		indep = append(indep, genIndep(rng, k))
	}
	for k := 0; k < nD; k++ {
		dep = append(dep, genDep(rng, k))
	}
	// recorded input of finding C10-2 (see overlap.go): replayed first; decides whether pointer-receiver method values are generated
	{
		pi := newInterp()
		got := ""
		perr := vh.Catch(func() {
			for _, s := range ptrRecvProg {
				pi.Eval(s)
			}
			v1, _ := pi.Eval("c10probe1()")
			v2, _ := pi.Eval("c10probe2()")
			got = fmt.Sprint(v1[0].Int(), " ", v2[0].Int())
		})
		if perr != nil {
			got = fmt.Sprint("panic: ", perr)
		}
		avoidPtrRecv = got != "0 0"
		rep.Extra["defect_present:"+keyPtrRecv] = avoidPtrRecv
		if avoidPtrRecv && knownKeys()[keyPtrRecv] {
			rep.Fail(vh.Failure{Key: keyPtrRecv, What: "a method value with a pointer receiver read from a pointer variable (g := p.get; go p.put(o)) is bound to the variable, not to the pointer it held when the method value / go statement was evaluated",
				Input: ptrRecvProg, Got: got, Want: "0 0 (compiled Go)"})
		}
		rep.Dist("corpus:method-value-pointer-receiver")
	}
	// part 1b (overlap.go): the same select statement in flight several times
	nO := 64
	if a.Thorough() {
		nO = 500
	}
	if a.N > 0 {
		nO = a.N
	}
	orng := rng.Fork()
	for k := 0; k < nO; k++ {
		indep = append(indep, genOverlap(orng, k))
	}
	// part 5 (stress.go): registry stress programs, run in a child process; their expected results come from the same oracle batch
	var stress []prog
	srng := vh.NewRng(a.Seed*7919 + 17)
	nS := 4
	if a.Thorough() {
		nS = 12
	}
	for k := 0; k < nS; k++ {
		stress = append(stress, genStress(srng, k))
	}
	wd.Beat("oracle build")
	want, err := buildOracle(a, append(append([]prog{}, indep...), stress...))
	if err != nil {
		fmt.Println(err)
		os.Exit(2)
	}
	// a second, shorter watchdog for the execution of one program (the first one also covers the oracle build):
	// a program that deadlocks in the interpreter is reported after 90 s with the program as input
	limit2 := 180 * time.Second
	if raceEnabled || a.Thorough() {
		limit2 = limit
	}
	wd2 := vh.NewWatchdog(rep, limit2)
	wd2.Beat("start")
	if !raceEnabled {
		// part 5 runs FIRST: a Go runtime fatal error in the in-process parts below would kill this process together with its
		// report; when the sacrificial child dies, the failure (with the running program as input) is written and the
		// in-process parts are skipped
		wd.Beat("stress child")
		wd2.Beat("stress child")
		budget := 15.0
		if a.Thorough() {
			budget = 120
		}
		if died := runStress(a, rep, stress, want, budget); died {
			rep.Extra["in_process_parts_skipped_after_child_death"] = true
			rep.Write()
			return
		}
	}
	ir := newInterp()
	procs := []int{1, 2, 4, 8}
	runs, regBad := 0, 0
	check := func(p prog, ok func(int) bool, wantDesc interface{}) {
		wd.Beat(p)
		wd2.Beat(p)
		if perr := vh.Catch(func() { ir.Eval(p.Src) }); perr != nil {
			rep.Fail(vh.Failure{Key: p.Src, What: "gomacro rejects a program that Go compiles", Input: p, Got: fmt.Sprint(perr)})
			return
		}
		for r := 0; r < R; r++ {
			runtime.GOMAXPROCS(procs[(r+len(p.Name))%4])
			var got int
			perr := vh.Catch(func() { v, _ := ir.Eval(p.Name + "()"); got = int(v[0].Int()) })
			runs++
			if perr != nil {
				rep.Fail(vh.Failure{Key: p.Src, What: "panic while running", Input: p, Got: fmt.Sprint(perr), Want: wantDesc})
				break
			}
			if !ok(got) {
				rep.Fail(vh.Failure{Key: p.Src, What: "result not producible by compiled Go", Input: p, Got: got, Want: wantDesc})
				break
			}
		}
		if ok, what := registryRestored(ir); !ok {
			regBad++
			if regBad <= 3 {
				rep.Fail(vh.Failure{Key: "registry:" + p.Src, What: "registry of per-goroutine records not restored after the program: " + what, Input: p, Got: what, Want: "{creator -> interpreter's Run}"})
			}
		}
		rep.Count(p.Src, true)
		rep.Dist("kind:" + strings.SplitN(p.Kind, ":", 2)[0])
		if strings.HasPrefix(p.Kind, "go-operand-snapshot:") {
			for _, f := range strings.Split(strings.SplitN(p.Kind, ":", 2)[1], ",") {
				rep.Dist("go-operand:" + f)
			}
		}
	}
	for i, p := range indep {
		w := want[p.Name]
		check(p, func(g int) bool { return g == w }, w)
		if i%17 == 1 {
			rep.Sample(p)
		}
	}
	for i, p := range dep {
		adm := p.adm
		var l []int
		for v := range adm {
			l = append(l, v)
		}
		sort.Ints(l)
		check(p, func(g int) bool { return adm[g] }, l)
		if i%13 == 1 {
			rep.Sample(p)
		}
		rep.Dist(fmt.Sprintf("admissible_set_size:%d", len(l)))
	}
	runtime.GOMAXPROCS(runtime.NumCPU())
	if !raceEnabled {
		wd.Beat("corpus: go-arg-closure")
		wd2.Beat("corpus: go-arg-closure")
		runCorpus(rep, 50)
		wd2.Beat("corpus: cold call")
		runCold(rep, 3)
	}
	wd2.Beat("report")
	if pr.viol != 0 {
		rep.Fail(vh.Failure{Key: "probe:ownership", What: "a frame allocated in a goroutine uses a Run owned by another identity (count)", Input: "all programs", Got: fmt.Sprint(pr.viol, " first: ", pr.first.Load()), Want: 0})
	}
	if pr.shared != 0 {
		rep.Fail(vh.Failure{Key: "probe:shared", What: "one Run observed in use by two goroutines at once (count)", Input: "all programs", Got: pr.shared, Want: 0})
	}
	rep.Extra["runs"] = runs
	rep.Extra["probe_calls"] = pr.calls
	rep.Extra["registry_audits_failed"] = regBad
	rep.Write()
}

package main

// Typed stream "edge" (differential only: go/types accept/reject + compiled Go values as IEEE bit patterns; no Coq
// case): untyped float / imaginary constants at the edges of the float32 / float64 range - underflow to zero, the
// rounding boundary of the smallest subnormal (half, just above half, 1.5x, a quarter), -0.0, max, overflow - with BOTH
// signs, as real part, imaginary part or both, in `var x T = c` and `T(c)` for T in float32, float64, complex64,
// complex128.  Go spec (Representability): round-to-even, "with an IEEE negative zero further simplified to an unsigned
// zero": the sign bit of a zero result is part of the compared bit pattern.

import "strings"

func edgeTyped() (out [][3]string) { // (src, ctx, type)
	mags64 := []string{"1e-400", "1e-5000", "(1e-200 * 1e-200)", "0x1p-1075", "0x1.0000000000001p-1075", "0x1p-1074", "0x1.8p-1075", "0x1p-1076", "4.9e-324", "2.4e-324", "2.5e-324",
		"0.0", "1e-320", "1.7976931348623157e308", "1e309", "0x1p1024"}
	mags32 := []string{"1e-50", "1e-400", "(1e-30 * 1e-30)", "0x1p-150", "0x1.000002p-150", "0x1p-149", "0x1.8p-150", "0x1p-151", "1.4e-45", "7e-46", "7.1e-46",
		"0.0", "1e-40", "3.4028234e38", "1e39", "0x1p128"}
	for _, T := range []string{"float32", "float64", "complex64", "complex128"} {
		mags := mags64
		if T == "float32" || T == "complex64" {
			mags = mags32
		}
		for _, m := range mags {
			for _, sign := range []string{"", "-"} {
				consts := []string{sign + m}
				if strings.HasPrefix(T, "complex") {
					im := m + "i"
					if strings.HasPrefix(m, "(") {
						im = "(" + m + " * 1i)"
					}
					op := "+"
					if sign == "-" {
						op = "-"
					}
					consts = append(consts, sign+im, "("+sign+m+" "+op+" "+im+")", "(1 "+op+" "+im+")", "("+sign+m+" + 2i)")
				}
				for _, c := range consts {
					out = append(out, [3]string{c, "var", T}, [3]string{c, "conv", T})
				}
			}
		}
	}
	return out
}

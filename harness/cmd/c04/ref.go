// c04 reference evaluator: Go's constant-expression rules (spec "Constant expressions") over exact
// math/big integers and rationals.  Independent of go/constant and of gomacro.
package main

import (
	"errors"
	"math/big"
)

var errReject = errors.New("rejected")

func isIntK(k int) bool { return k == KInt || k == KRune }
func isNumK(k int) bool { return k >= KInt && k <= KComplex }

func (v *uv) im() *big.Rat {
	if v.Im == nil {
		return new(big.Rat)
	}
	return v.Im
}

// integral reports whether the numeric value is an integer (complex: zero imaginary part too)
func (v *uv) integral() (*big.Int, bool) {
	if !isNumK(v.K) || v.im().Sign() != 0 || !v.Re.IsInt() {
		return nil, false
	}
	return new(big.Int).Set(v.Re.Num()), true
}

func maxK(a, b int) int {
	if a > b {
		return a
	}
	return b
}

const shiftCap = 1023 - 1 + 52 // go/types bound on constant shift counts (and gomacro after fix C04-6)

func truncQuo(x, y *big.Int) *big.Int { return new(big.Int).Quo(x, y) }
func truncRem(x, y *big.Int) *big.Int { return new(big.Int).Rem(x, y) }

// refBeyond is set when an intermediate value leaves go/constant's exact range (numerator or denominator
// of 4000 bits or more): go/constant then continues with a 512-bit big.Float, as the Go specification allows,
// and the judge for such a tree is go/types, not exact arithmetic.
var refBeyond bool

func evalRef(n *node) (*uv, error) {
	v, err := evalRef1(n)
	if v != nil && !v.small() {
		refBeyond = true
	}
	return v, err
}

func evalRef1(n *node) (*uv, error) {
	switch {
	case n.Op == "":
		return n.Val, nil
	case n.Op == "()":
		return evalRef(n.X)
	case n.Op == "real" || n.Op == "imag":
		x, err := evalRef(n.X)
		if err != nil {
			return nil, err
		}
		return realImagRef(n.Op, x)
	case n.Op == "complex":
		x, err := evalRef(n.X)
		if err != nil {
			return nil, err
		}
		y, err := evalRef(n.Y)
		if err != nil {
			return nil, err
		}
		return complexRef(x, y)
	case n.Y == nil:
		x, err := evalRef(n.X)
		if err != nil {
			return nil, err
		}
		return unaryRef(n.Op[1:], x)
	}
	x, err := evalRef(n.X)
	if err != nil {
		return nil, err
	}
	y, err := evalRef(n.Y)
	if err != nil {
		return nil, err
	}
	return binaryRef(n.Op, x, y)
}

// realImagRef: Go specification, "Manipulating complex numbers": for real and imag the argument must be of complex type
// (an untyped numeric constant is converted to an untyped complex constant first) and, if the argument is an untyped
// constant, "the return value of the function is an untyped floating-point constant".
func realImagRef(op string, x *uv) (*uv, error) {
	if !isNumK(x.K) {
		return nil, errReject
	}
	if op == "real" {
		return &uv{K: KFloat, Re: x.Re}, nil
	}
	return &uv{K: KFloat, Re: x.im()}, nil
}

// complexRef: "If the operands of [complex] are all constants, ... the arguments must be non-complex numbers or their
// imaginary parts must be zero"; two untyped constant arguments give an untyped complex constant.
func complexRef(x, y *uv) (*uv, error) {
	if !isNumK(x.K) || !isNumK(y.K) || x.im().Sign() != 0 || y.im().Sign() != 0 {
		return nil, errReject
	}
	return &uv{K: KComplex, Re: x.Re, Im: y.Re}, nil
}

func unaryRef(op string, x *uv) (*uv, error) {
	switch op {
	case "!":
		if x.K != KBool {
			return nil, errReject
		}
		return &uv{K: KBool, B: !x.B}, nil
	case "+":
		if !isNumK(x.K) {
			return nil, errReject
		}
		return x, nil
	case "-":
		if !isNumK(x.K) {
			return nil, errReject
		}
		r := &uv{K: x.K, Re: new(big.Rat).Neg(x.Re)}
		if x.K == KComplex {
			r.Im = new(big.Rat).Neg(x.im())
		}
		return r, nil
	case "^":
		if !isIntK(x.K) {
			return nil, errReject
		}
		return &uv{K: x.K, Re: rint(new(big.Int).Not(x.Re.Num()))}, nil
	}
	return nil, errReject
}

func cmpResult(op string, c int) bool {
	switch op {
	case "==":
		return c == 0
	case "!=":
		return c != 0
	case "<":
		return c < 0
	case "<=":
		return c <= 0
	case ">":
		return c > 0
	default:
		return c >= 0
	}
}

func isCmp(op string) bool {
	switch op {
	case "==", "!=", "<", "<=", ">", ">=":
		return true
	}
	return false
}

func binaryRef(op string, x, y *uv) (*uv, error) {
	switch {
	case op == "&&" || op == "||":
		if x.K != KBool || y.K != KBool {
			return nil, errReject
		}
		if op == "&&" {
			return &uv{K: KBool, B: x.B && y.B}, nil
		}
		return &uv{K: KBool, B: x.B || y.B}, nil
	case isCmp(op):
		switch {
		case x.K == KBool && y.K == KBool:
			if op != "==" && op != "!=" {
				return nil, errReject
			}
			return &uv{K: KBool, B: (x.B == y.B) == (op == "==")}, nil
		case x.K == KString && y.K == KString:
			c := 0
			if x.S < y.S {
				c = -1
			} else if x.S > y.S {
				c = 1
			}
			return &uv{K: KBool, B: cmpResult(op, c)}, nil
		case isNumK(x.K) && isNumK(y.K):
			if maxK(x.K, y.K) == KComplex {
				if op != "==" && op != "!=" {
					return nil, errReject
				}
				eq := x.Re.Cmp(y.Re) == 0 && x.im().Cmp(y.im()) == 0
				return &uv{K: KBool, B: eq == (op == "==")}, nil
			}
			return &uv{K: KBool, B: cmpResult(op, x.Re.Cmp(y.Re))}, nil
		}
		return nil, errReject
	case op == "<<" || op == ">>":
		// left operand: integer-valued numeric constant; result kind int unless the operand is a rune
		xi, ok := x.integral()
		if !ok {
			return nil, errReject
		}
		cnt, ok := y.integral()
		if !ok || cnt.Sign() < 0 || !cnt.IsInt64() || cnt.Int64() > shiftCap {
			return nil, errReject
		}
		k := KInt
		if x.K == KRune {
			k = KRune
		}
		var z *big.Int
		if op == "<<" {
			z = new(big.Int).Lsh(xi, uint(cnt.Int64()))
		} else {
			z = new(big.Int).Rsh(xi, uint(cnt.Int64())) // floor division by 2^n
		}
		return &uv{K: k, Re: rint(z)}, nil
	case x.K == KString && y.K == KString:
		if op != "+" {
			return nil, errReject
		}
		return &uv{K: KString, S: x.S + y.S}, nil
	case !isNumK(x.K) || !isNumK(y.K):
		return nil, errReject
	}
	k := maxK(x.K, y.K)
	switch op {
	case "%", "&", "|", "^", "&^":
		if !isIntK(k) {
			return nil, errReject
		}
		a, b := x.Re.Num(), y.Re.Num()
		z := new(big.Int)
		switch op {
		case "%":
			if b.Sign() == 0 {
				return nil, errReject
			}
			z = truncRem(a, b)
		case "&":
			z.And(a, b)
		case "|":
			z.Or(a, b)
		case "^":
			z.Xor(a, b)
		case "&^":
			z.AndNot(a, b)
		}
		return &uv{K: k, Re: rint(z)}, nil
	case "+", "-", "*", "/":
	default:
		return nil, errReject
	}
	if isIntK(k) && op == "/" {
		if y.Re.Sign() == 0 {
			return nil, errReject
		}
		return &uv{K: k, Re: rint(truncQuo(x.Re.Num(), y.Re.Num()))}, nil
	}
	if k != KComplex {
		z := new(big.Rat)
		switch op {
		case "+":
			z.Add(x.Re, y.Re)
		case "-":
			z.Sub(x.Re, y.Re)
		case "*":
			z.Mul(x.Re, y.Re)
		case "/":
			if y.Re.Sign() == 0 {
				return nil, errReject
			}
			z.Quo(x.Re, y.Re)
		}
		return &uv{K: k, Re: z}, nil
	}
	a, b, c, d := x.Re, x.im(), y.Re, y.im()
	re, im := new(big.Rat), new(big.Rat)
	t := new(big.Rat)
	switch op {
	case "+":
		re.Add(a, c)
		im.Add(b, d)
	case "-":
		re.Sub(a, c)
		im.Sub(b, d)
	case "*":
		beyondIfLarge(new(big.Rat).Mul(a, c), new(big.Rat).Mul(b, d), new(big.Rat).Mul(b, c), new(big.Rat).Mul(a, d))
		re.Sub(t.Mul(a, c), new(big.Rat).Mul(b, d))
		im.Add(t.Mul(b, c), new(big.Rat).Mul(a, d))
	case "/":
		s := new(big.Rat).Add(new(big.Rat).Mul(c, c), new(big.Rat).Mul(d, d))
		if s.Sign() == 0 {
			return nil, errReject
		}
		// go/constant computes a complex quotient through the products ac, bd, bc, ad, cc, dd and the sum cc+dd: they can
		// leave its exact range although the operands and the quotient are inside (x / (65 * 1.0e1201i): dd has 7990 bits)
		beyondIfLarge(s, new(big.Rat).Mul(c, c), new(big.Rat).Mul(d, d), new(big.Rat).Mul(a, c), new(big.Rat).Mul(b, d), new(big.Rat).Mul(b, c), new(big.Rat).Mul(a, d))
		re.Add(t.Mul(a, c), new(big.Rat).Mul(b, d))
		re.Quo(re, s)
		im.Sub(t.Mul(b, c), new(big.Rat).Mul(a, d))
		im.Quo(im, s)
	}
	return &uv{K: KComplex, Re: re, Im: im}, nil
}

// beyondIfLarge marks the tree as beyond go/constant's exact range (judge = go/types) when an intermediate value that
// go/constant computes inside a complex product / quotient has 4000 bits or more
func beyondIfLarge(qs ...*big.Rat) {
	for _, q := range qs {
		if q.Num().BitLen() >= 4000 || q.Denom().BitLen() >= 4000 {
			refBeyond = true
		}
	}
}

func uvEqual(a, b *uv) bool {
	if a.K != b.K {
		return false
	}
	switch a.K {
	case KBool:
		return a.B == b.B
	case KString:
		return a.S == b.S
	case KComplex:
		return a.Re.Cmp(b.Re) == 0 && a.im().Cmp(b.im()) == 0
	}
	return a.Re.Cmp(b.Re) == 0
}

func (v *uv) String() string {
	switch v.K {
	case KBool:
		if v.B {
			return "bool:true"
		}
		return "bool:false"
	case KString:
		return "string:" + v.S
	case KComplex:
		return "complex:" + v.Re.RatString() + ":" + v.im().RatString()
	}
	return kindName[v.K] + ":" + v.Re.RatString()
}

// magnitude bound used to keep values inside go/constant's exact (big.Rat) representation
func (v *uv) small() bool {
	ok := func(q *big.Rat) bool { return q == nil || (q.Num().BitLen() < 4000 && q.Denom().BitLen() < 4000) }
	return ok(v.Re) && ok(v.Im)
}

package main

import (
	"go/ast"
	"go/parser"
	"go/scanner"
	"go/token"
)

type astFile = ast.File

func parseFile(fset *token.FileSet, src string) (*ast.File, error) {
	return parser.ParseFile(fset, "p.go", src, parser.AllErrors|parser.SkipObjectResolution)
}

func errLines(err error) []int {
	var out []int
	if el, ok := err.(scanner.ErrorList); ok {
		for _, e := range el {
			out = append(out, e.Pos.Line)
		}
	}
	return out
}

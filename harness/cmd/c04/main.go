// c04: untyped constant expressions (fast/binary.go BinaryExprUntyped, ShiftUntyped; fast/unary.go; base/untyped/lit.go
// Lit.Convert, extractNumber, ConvertLiteralCheckOverflow, BigInt/BigRat/BigFloat).
//
// Direct oracles (never the Coq model):
//
//	(R) exact reference evaluator over math/big (ref.go) on trees whose literal values are known by construction
//	(T) go/types: types.Eval for untyped value+kind, type-checking a tiny package for accept/reject in typed contexts
//	(G) compiled Go (one batched go build) for the typed values, floats compared as IEEE bit patterns
//	(B) math/big built from the exact value for *big.Int / *big.Rat / *big.Float contexts
//
// Correspondence: every evaluated tree / conversion is also emitted as a Coq case (cases_NNN.v) for coq/C04/Model.v.
package main

import (
	"encoding/json"
	"fmt"
	"go/constant"
	"go/token"
	"go/types"
	"io"
	"math"
	"math/big"
	"os"
	"os/exec"
	"path/filepath"
	"reflect"
	"regexp"
	"sort"
	"strconv"
	"strings"
	"time"

	"github.com/cosmos72/gomacro/base"
	"github.com/cosmos72/gomacro/base/untyped"
	"github.com/cosmos72/gomacro/fast"
	"verifh/vh"
)

var ir *fast.Interp

func newInterp() {
	ir = fast.New()
	ir.Comp.Globals.Stderr = io.Discard
	ir.Comp.Globals.Stdout = io.Discard
	ir.Comp.Globals.Options |= base.OptKeepUntyped
	ir.Eval(`import "math/big"`)
}

// ---------- conversions between representations ----------

func ratOf(v constant.Value) *big.Rat {
	q, ok := new(big.Rat).SetString(v.ExactString())
	if !ok {
		return nil
	}
	return q
}

// exactRepr: the constant is held exactly by go/constant (int64 / big.Int / big.Rat, not a rounded big.Float)
func exactRepr(v constant.Value) bool {
	switch v.Kind() {
	case constant.Float:
		_, isf := constant.Val(v).(*big.Float)
		return !isf
	case constant.Complex:
		return exactRepr(constant.Real(v)) && exactRepr(constant.Imag(v))
	}
	return true
}

func uvOfConst(k int, v constant.Value) *uv {
	switch v.Kind() {
	case constant.Bool:
		return &uv{K: k, B: constant.BoolVal(v)}
	case constant.String:
		return &uv{K: k, S: constant.StringVal(v)}
	case constant.Int, constant.Float:
		return &uv{K: k, Re: ratOf(v)}
	case constant.Complex:
		return &uv{K: k, Re: ratOf(constant.Real(v)), Im: ratOf(constant.Imag(v))}
	}
	return nil
}

func kindOfUntyped(k untyped.Kind) int {
	switch k {
	case untyped.Bool:
		return KBool
	case untyped.Int:
		return KInt
	case untyped.Rune:
		return KRune
	case untyped.Float:
		return KFloat
	case untyped.Complex:
		return KComplex
	case untyped.String:
		return KString
	}
	return -1
}

func kindOfBasic(t types.Type) int {
	b, ok := t.(*types.Basic)
	if !ok {
		return -1
	}
	switch b.Kind() {
	case types.UntypedBool:
		return KBool
	case types.UntypedInt:
		return KInt
	case types.UntypedRune:
		return KRune
	case types.UntypedFloat:
		return KFloat
	case types.UntypedComplex:
		return KComplex
	case types.UntypedString:
		return KString
	}
	return -1
}

// constant.Kind of the go/constant representation: 0 bool 1 int 2 float 3 complex 4 string
func reprKind(v constant.Value) int {
	switch v.Kind() {
	case constant.Bool:
		return 0
	case constant.Int:
		return 1
	case constant.Float:
		return 2
	case constant.Complex:
		return 3
	case constant.String:
		return 4
	}
	return -1
}

// ---------- running gomacro ----------

// evalUntyped evaluates src in gomacro keeping untyped results; ok=false when gomacro rejects (any panic)
func evalUntyped(src string) (v *uv, lit untyped.Lit, ok bool, msg string) {
	p := vh.Catch(func() {
		vals, _ := ir.Eval(src)
		if len(vals) != 1 || !vals[0].IsValid() {
			msg = "no value"
			return
		}
		l, isLit := vals[0].Interface().(untyped.Lit)
		if !isLit {
			msg = fmt.Sprintf("not an untyped.Lit: %T", vals[0].Interface())
			return
		}
		lit = l
		v = uvOfConst(kindOfUntyped(l.Kind), l.Val)
		ok = v != nil
	})
	if p != nil {
		return nil, lit, false, fmt.Sprint(p)
	}
	return
}

func canonValue(x interface{}) string {
	v := reflect.ValueOf(x)
	switch v.Kind() {
	case reflect.Bool:
		return fmt.Sprint(v.Bool())
	case reflect.Int, reflect.Int8, reflect.Int16, reflect.Int32, reflect.Int64:
		return fmt.Sprintf("%s:%d", v.Kind(), v.Int())
	case reflect.Uint, reflect.Uint8, reflect.Uint16, reflect.Uint32, reflect.Uint64, reflect.Uintptr:
		return fmt.Sprintf("%s:%d", v.Kind(), v.Uint())
	case reflect.Float32:
		return fmt.Sprintf("float32:%08x", math.Float32bits(float32(v.Float())))
	case reflect.Float64:
		return fmt.Sprintf("float64:%016x", math.Float64bits(v.Float()))
	case reflect.Complex64:
		c := complex64(v.Complex())
		return fmt.Sprintf("complex64:%08x:%08x", math.Float32bits(real(c)), math.Float32bits(imag(c)))
	case reflect.Complex128:
		c := v.Complex()
		return fmt.Sprintf("complex128:%016x:%016x", math.Float64bits(real(c)), math.Float64bits(imag(c)))
	case reflect.String:
		return fmt.Sprintf("string:%q", v.String())
	}
	return fmt.Sprintf("?%T", x)
}

// the same function, as source text for the compiled oracle program
const canonSrc = `
func canon(x interface{}) string {
	v := reflect.ValueOf(x)
	switch v.Kind() {
	case reflect.Bool:
		return fmt.Sprint(v.Bool())
	case reflect.Int, reflect.Int8, reflect.Int16, reflect.Int32, reflect.Int64:
		return fmt.Sprintf("%s:%d", v.Kind(), v.Int())
	case reflect.Uint, reflect.Uint8, reflect.Uint16, reflect.Uint32, reflect.Uint64, reflect.Uintptr:
		return fmt.Sprintf("%s:%d", v.Kind(), v.Uint())
	case reflect.Float32:
		return fmt.Sprintf("float32:%08x", math.Float32bits(float32(v.Float())))
	case reflect.Float64:
		return fmt.Sprintf("float64:%016x", math.Float64bits(v.Float()))
	case reflect.Complex64:
		c := complex64(v.Complex())
		return fmt.Sprintf("complex64:%08x:%08x", math.Float32bits(real(c)), math.Float32bits(imag(c)))
	case reflect.Complex128:
		c := v.Complex()
		return fmt.Sprintf("complex128:%016x:%016x", math.Float64bits(real(c)), math.Float64bits(imag(c)))
	case reflect.String:
		return fmt.Sprintf("string:%q", v.String())
	}
	return fmt.Sprintf("?%T", x)
}
`

// evalTyped evaluates a typed context in gomacro; returns the canonical value or ok=false on rejection
func evalTyped(src string) (canon string, raw interface{}, ok bool, msg string) {
	p := vh.Catch(func() {
		vals, _ := ir.Eval(src)
		if len(vals) != 1 || !vals[0].IsValid() {
			msg = "no value"
			return
		}
		raw = vals[0].Interface()
		canon = canonValue(raw)
		ok = true
	})
	if p != nil {
		return "", nil, false, fmt.Sprint(p)
	}
	return
}

// ---------- typed contexts ----------

var typedKinds = []string{"int", "int8", "int16", "int32", "int64", "uint", "uint8", "uint16", "uint32", "uint64", "uintptr",
	"float32", "float64", "complex64", "complex128", "bool", "string"}
var bigKinds = []string{"*big.Int", "*big.Rat", "*big.Float"}

type tcase struct {
	Idx  int    `json:"idx"`
	Src  string `json:"src"`  // the constant expression
	Ctx  string `json:"ctx"`  // "var" (assignment) | "conv" (explicit conversion)
	Type string `json:"type"` // target type
	val  *uv    // value of Src (exact), when known
	lit  *untyped.Lit
	// observations
	gmOK    bool
	gmCanon string
	gmMsg   string
	goOK    bool
	goCanon string
}

func (t *tcase) key() string { return fmt.Sprintf("%s %s = %s", t.Ctx, t.Type, t.Src) }

func (t *tcase) gomacroSrc() string {
	if t.Ctx == "conv" {
		return fmt.Sprintf("%s(%s)", t.Type, t.Src)
	}
	return fmt.Sprintf("(func() %s { var x %s = %s; return x })()", t.Type, t.Type, t.Src)
}
func (t *tcase) goDecl(i int) string {
	if t.Ctx == "conv" {
		return fmt.Sprintf("var v%d = %s(%s)", i, t.Type, t.Src)
	}
	return fmt.Sprintf("var v%d %s = %s", i, t.Type, t.Src)
}

// typeCheckBatch type-checks one declaration per line and marks the accepted ones
func typeCheckBatch(cases []*tcase) {
	var sb strings.Builder
	sb.WriteString("package p\n")
	for i, t := range cases {
		sb.WriteString(t.goDecl(i) + "\n")
	}
	bad := checkLines(sb.String())
	for i, t := range cases {
		t.goOK = !bad[i+2]
	}
}

// checkLines parses+type-checks src and returns the set of lines carrying an error
func checkLines(src string) map[int]bool {
	bad := map[int]bool{}
	fset := token.NewFileSet()
	f, err := parseFile(fset, src)
	if err != nil {
		for _, ln := range errLines(err) {
			bad[ln] = true
		}
		if f == nil {
			return bad
		}
	}
	conf := types.Config{Error: func(err error) {
		if te, ok := err.(types.Error); ok {
			bad[te.Fset.Position(te.Pos).Line] = true
		}
	}}
	conf.Check("p", fset, []*astFile{f}, nil)
	return bad
}

var lineRe = regexp.MustCompile(`main\.go:(\d+):`)

// compileBatch builds and runs one program printing the canonical value of every accepted case
func compileBatch(dir string, cases []*tcase, rep *vh.Report) {
	os.MkdirAll(dir, 0o755)
	os.WriteFile(filepath.Join(dir, "go.mod"), []byte("module oracle\n\ngo 1.18\n"), 0o644)
	skip := map[int]bool{}
	for attempt := 0; attempt < 3; attempt++ {
		var sb strings.Builder
		sb.WriteString("package main\n\nimport (\n\t\"fmt\"\n\t\"math\"\n\t\"reflect\"\n)\n")
		lineOf := map[int]int{}
		line := 8
		for i, t := range cases {
			if t.goOK && !skip[i] {
				sb.WriteString(t.goDecl(i) + "\n")
				lineOf[line] = i
				line++
			}
		}
		sb.WriteString(canonSrc)
		sb.WriteString("func main() {\n")
		for i, t := range cases {
			if t.goOK && !skip[i] {
				fmt.Fprintf(&sb, "\tfmt.Println(%d, canon(v%d))\n", i, i)
			}
		}
		sb.WriteString("}\n")
		os.WriteFile(filepath.Join(dir, "main.go"), []byte(sb.String()), 0o644)
		cmd := exec.Command("go", "build", "-o", "oracle.bin", ".")
		cmd.Dir = dir
		out, err := cmd.CombinedOutput()
		if err != nil {
			n := 0
			for _, m := range lineRe.FindAllStringSubmatch(string(out), -1) {
				ln, _ := strconv.Atoi(m[1])
				if i, ok := lineOf[ln]; ok && !skip[i] {
					skip[i] = true
					n++
					// go/types accepted but the compiler rejects: record, the case is then undecided
					rep.Dist("oracle:compiler_rejects_what_gotypes_accepts")
				}
			}
			if n == 0 {
				rep.Fail(vh.Failure{Key: "oracle-build", What: "compiled-Go oracle program does not build", Got: string(out)})
				return
			}
			continue
		}
		run := exec.Command(filepath.Join(dir, "oracle.bin"))
		res, err := run.Output()
		if err != nil {
			rep.Fail(vh.Failure{Key: "oracle-run", What: "compiled-Go oracle program failed", Got: err.Error()})
			return
		}
		for _, l := range strings.Split(strings.TrimSpace(string(res)), "\n") {
			sp := strings.IndexByte(l, ' ')
			if sp < 0 {
				continue
			}
			i, _ := strconv.Atoi(l[:sp])
			cases[i].goCanon = l[sp+1:]
		}
		for i := range skip {
			cases[i].goOK = false
			cases[i].goCanon = "?"
		}
		return
	}
}

// ---------- Coq rendering ----------

func coqZ(z *big.Int) string {
	if z.Sign() < 0 {
		return "(" + z.String() + ")"
	}
	return z.String()
}
func coqQ(q *big.Rat) string { return "(mkQ " + coqZ(q.Num()) + " " + coqZ(q.Denom()) + ")" }

// coqLit renders a value with gomacro kind k held in a go/constant representation of kind rk
func coqLit(v *uv, rk int) string {
	k := kindCoq[v.K]
	switch rk {
	case 0:
		return fmt.Sprintf("(mkLit %s (CBool %s))", k, vh.CoqBool(v.B))
	case 1:
		return fmt.Sprintf("(mkLit %s (CInt %s))", k, coqZ(v.Re.Num()))
	case 2:
		return fmt.Sprintf("(mkLit %s (CRat %s))", k, coqQ(v.Re))
	case 3:
		return fmt.Sprintf("(mkLit %s (CCplx %s %s))", k, coqQ(v.Re), coqQ(v.im()))
	default:
		return fmt.Sprintf("(mkLit %s (CStr %s))", k, vh.CoqStr(v.S))
	}
}

func reprOfKind(k int) int {
	switch k {
	case KBool:
		return 0
	case KInt, KRune:
		return 1
	case KFloat:
		return 2
	case KComplex:
		return 3
	}
	return 4
}

var binCoq = map[string]string{"+": "OAdd", "-": "OSub", "*": "OMul", "/": "OQuo", "%": "ORem", "&": "OAnd", "|": "OOr", "^": "OXor", "&^": "OAndNot",
	"<<": "OShl", ">>": "OShr", "==": "OEql", "!=": "ONeq", "<": "OLss", "<=": "OLeq", ">": "OGtr", ">=": "OGeq", "&&": "OLand", "||": "OLor"}
var unCoq = map[string]string{"+": "UPlus", "-": "UMinus", "^": "UXor", "!": "UNot"}

func coqExpr(n *node) string {
	switch {
	case n.Op == "":
		return "(ELit " + coqLit(n.Val, reprOfKind(n.Val.K)) + ")"
	case n.Op == "()":
		return coqExpr(n.X)
	case n.Op == "real":
		return fmt.Sprintf("(ECall1 BReal %s)", coqExpr(n.X))
	case n.Op == "imag":
		return fmt.Sprintf("(ECall1 BImag %s)", coqExpr(n.X))
	case n.Op == "complex":
		return fmt.Sprintf("(ECplx %s %s)", coqExpr(n.X), coqExpr(n.Y))
	case n.Y == nil:
		return fmt.Sprintf("(EUn %s %s)", unCoq[n.Op[1:]], coqExpr(n.X))
	}
	return fmt.Sprintf("(EBin %s %s %s)", binCoq[n.Op], coqExpr(n.X), coqExpr(n.Y))
}

var tkCoq = map[string]string{"int": "TInt", "int8": "TInt8", "int16": "TInt16", "int32": "TInt32", "int64": "TInt64", "uint": "TUint", "uint8": "TUint8",
	"uint16": "TUint16", "uint32": "TUint32", "uint64": "TUint64", "uintptr": "TUintptr", "float32": "TFloat32", "float64": "TFloat64",
	"complex64": "TComplex64", "complex128": "TComplex128", "bool": "TBool", "string": "TString"}

// coqTyped renders an observed typed value (from its canonical text) as a Coq `tres`
func coqTyped(ok bool, canon string) string {
	if !ok {
		return "TErr"
	}
	p := strings.SplitN(canon, ":", 2)
	hex := func(s string) string {
		z, _ := new(big.Int).SetString(s, 16)
		return z.String()
	}
	switch {
	case canon == "true" || canon == "false":
		return "(TVBool " + canon + ")"
	case strings.HasPrefix(p[0], "int") || strings.HasPrefix(p[0], "uint"):
		z, _ := new(big.Int).SetString(p[1], 10)
		return "(TVInt " + coqZ(z) + ")"
	case strings.HasPrefix(p[0], "float"):
		return "(TVFloat " + hex(p[1]) + ")"
	case strings.HasPrefix(p[0], "complex"):
		q := strings.Split(p[1], ":")
		return "(TVCplx " + hex(q[0]) + " " + hex(q[1]) + ")"
	case p[0] == "string":
		s, _ := strconv.Unquote(p[1])
		return "(TVStr " + vh.CoqStr(s) + ")"
	}
	return "TErr"
}

// ---------- corpus ----------

type corpusEntry struct {
	Src  string `json:"src"`
	Ctx  string `json:"ctx"` // "untyped" | "var" | "conv"
	Type string `json:"type,omitempty"`
}

func loadCorpus() []corpusEntry {
	var out []corpusEntry
	dir := os.Getenv("VERIF_DIR")
	if dir == "" {
		return nil
	}
	files, _ := filepath.Glob(filepath.Join(dir, "corpus", "C04", "*.json"))
	sort.Strings(files)
	for _, f := range files {
		var es []corpusEntry
		if b, err := os.ReadFile(f); err == nil && json.Unmarshal(b, &es) == nil {
			out = append(out, es...)
		}
	}
	return out
}

// enumerated sources (no tree / no reference value: judged by go/types only): unparenthesised chains, precedence
var enumerated = []string{
	"1<<100>>98", "1<<100", "1<<62<<1", "-1>>1", "-7>>1", "-8>>3", "7/2", "-7/2", "7/-2", "-7/-2", "7%3", "-7%3", "7%-3", "-7%-3",
	"7.0/2", "7/2.0", "7/2*2.0", "1/3.0*3", "0.1+0.2", "0.1+0.2 == 0.3", "1e1000/1e999", "1e-1000*1e1000", "1e1000 > 1e999", "'a'+1", "1+'a'", "'a'+1.0", "'a'*2i",
	"1<<3.0", "1.0<<3", "'a'<<1", "1<<'\\x03'", "1<<1<<1", "1<<(1<<3)", "2*3+4", "2+3*4", "2+3<<1", "1<<2+3", "6&3|8", "6&^3", "^0", "^1<<2", "-1&0xff", "^-1",
	"0x_1p-2", "0x1.8p1", "0x.8p1", "0X1P+2", "1_000.5e-3_0", "0b1_01", "0o17", "017", "0O17", "1_0", "0x_ff", "0b101i", "0o7i", "0123i", "0x10i", "1.5i*1.5i", "1i*1i", "2i/1i",
	"(1+2i)*(3-4i)", "(1+2i)/(3-4i)", "1i == 1i", "1+0i == 1", "'a' == 97", "'a' < 98.5", `"a"+"b"`, `"a" < "b"`, `"a"+"b" == "ab"`, "true && false", "true || false", "!true", "!(1 < 2)",
	"true == false", "true != !false", "1 == 1.0", "1.0 == 1+0i", "1 < 2 && 2 < 3", "5/2*2 == 4", "5.0/2*2 == 5", "1<<10 - 1", "1<<10-1", "3 &^ 1 << 1",
	"1<<512", "1<<511 + (1<<511 - 1)", "-(1<<511)", "1e308*10", "1.7976931348623157e308", "5e-324/2", "1e40/1e-40",
	// builtins on untyped constant operands: real/imag give an untyped FLOAT constant whatever the representation of the
	// component (finding C04-7: real(3+2i)/2 was the integer division 3/2), complex gives an untyped complex constant
	"real(3+2i)/2", "real(3+2i)", "imag(3+2i)/4", "real(1)", "real(1)/2", "imag(1)", "imag('a')", "real('a')", "real('a')/2", "real(2.0)/4", "real(2.5)", "imag(2.5)",
	"real(1.5+2.5i)", "imag(1.5+2.5i)/2", "-real(3+2i)", "real(3+2i)/2 == 1.5", "real(3+2i) == 3", "real(1<<100 + 1i) / 3", "real(1i*1i)", "imag(1i*1i)", "real(-0.0)", "imag(1e-400i)",
	"complex(1, 2)/2", "complex(1, 2)", "complex(1, 0)", "complex(1.5, 'a')", "complex('a', 'b')", "complex(1+0i, 2)", "complex(1, 2+0i)", "complex(1, 2) == 1+2i",
	"real(complex(7,3))/2", "imag(complex(7,3))/2", "complex(real(1+2i), imag(1+2i)) == 1+2i", "complex(imag(5i)/2, real(5)/2)",
	"real(7+3i) << 1", "1 << real(3+0i)", "1 << imag(3i)", "imag(4i) >> 1", "real(1e3+1i) << imag(2i)",
	// invalid
	"real(7+3i) % 2", "^real(3+2i)", "real(3+2i) & 1", "imag(2i) | 1", `real("a")`, "real(true)", `imag("a")`, "imag(false)", "complex(1, 2i)", "complex(1i, 2)", `complex("a", 1)`, "complex(true, 1)",
	`complex(1, "a")`, "complex(1)", "real()", "real(1, 2)", "complex(1, 2, 3)", "1 << real(1.5+0i)", "real(2.5) << 1", "complex(1, 1e-400i)", "complex(1, 2) < 3", "real(1)/imag(1)",
	"1/0", "1%0", "1.0/0", "1/0.0", "1i/0", "1.5%2", "1.5&1", "1<<-1", "1<<1.5", "1.5<<1", `"a"+1`, `1+"a"`, `"a"*2`, `"a"-"b"`, "true+1", "true<false", "1i<2i", `"a"==1`, "1==true",
	"!1", `-"a"`, "^1.5", "-true", "true&false", "1&&2", "1<<(1<<64)", "1 << 1e30", "1<<1074", "1<<1075", "1>>1075", "1 << (1<<40)",
}

func main() {
	a := vh.ParseArgs()
	rng := vh.NewRng(a.Seed)
	rep := vh.NewReport(a, "constant expression trees: literal VALUES chosen first (math/big) then formatted in a random form (decimal/0b/0o/legacy-octal/0x with '_' separators; decimal and hex floats incl. .5, 5., exponents up to 1e+-1200; imaginary; rune; string; bool); "+
		"kind-directed random trees of depth<=4 over + - * / % & | ^ &^ << >> == != < <= > >= && || and unary + - ^ ! and the builtin calls real(x) imag(x) complex(x, y) on untyped constant operands of every numeric kind "+
		"(3 of 23 inner numeric nodes wherever a float/complex result is admissible: integer/rune/float/complex arguments, n+mi with integer parts, complex arguments written x+0i; also as shift operands and shift counts) "+
		"and complex constants with a non-zero imaginary part below the float32/float64 subnormal range (1 tree in 40; half of their typed targets are float32/float64/int/uint8, which must reject them) "+
		"(17% deliberately ill-kinded, including real/imag/complex of strings, booleans, complex(1, 2i), and % & | ^ on real()/imag() results) plus an enumerated list of unparenthesised chains and builtin calls; "+
		"each tree evaluated (1) by gomacro with OptKeepUntyped, (2) by the exact math/big reference evaluator, (3) by go/types types.Eval; every accepted value is then used in typed contexts "+
		"`var x T = e` and `T(e)` for T over the 17 basic kinds (3 targets per value, biased to the value's neighbourhood) judged by go/types (accept/reject) and one batched compiled-Go program (values, float bit patterns), "+
		"and in `var b *big.Int|*big.Rat|*big.Float = e` judged against math/big built from the exact value; corpus/C04/*.json replayed first (untyped, typed and *big.T contexts). "+
		"typed stream edge (differential only): float/imaginary constants at the edges of float32/float64 (underflow to zero, rounding boundary of the smallest subnormal, -0.0, max, overflow) with both signs, as real / imaginary / both parts, in `var x T = c` and `T(c)` for float32, float64, complex64, complex128 (sign of a zero result compared through the IEEE bit pattern). "+
		"Shift counts up to 1100 (bound 1074 as go/types); a tree with an intermediate value of >= 4000 bits is judged by go/types instead of exact arithmetic (go/constant rounds to 512 bits there, as the spec allows); the model comparison skips values outside go/constant's exact big.Rat range for the model comparison. "+
		"A case is non-trivial when it contains >=1 operator and is accepted; distinct by SHA-256 of the source text")
	newInterp()
	wd := vh.NewWatchdog(rep, 15*time.Minute) // generous: the last beat before the typed phase also covers the `go build` of the compiled-Go oracle batch (minutes on a loaded machine)

	nTrees, depth := 1200, 4
	if a.Thorough() {
		nTrees = 30000
	}
	if a.N > 0 {
		nTrees = a.N
	}

	header := "From Coq Require Import List NArith ZArith QArith.\nFrom Verif Require Import C04.Model.\nImport ListNotations.\nOpen Scope Z_scope."
	cw := vh.NewCases(a, header, "case", "mismatches", 320)
	// correspondence volume: every case in the quick tier; 1 in 12 in the thorough tier (25x the trees, 110 000 candidate cases), i.e. about
	// 9 000 cases = 29 shards of about 20 s of coqc instead of 350 (the direct oracles judge every case in both tiers)
	coqKeep := func(i int) bool { return !a.Thorough() || i%12 == 0 }
	idx := 0
	var typed []*tcase
	type bigcase struct {
		idx  int
		src  string
		val  *uv
		kind string
	}
	var bigs []bigcase
	nCorpusBigs := 0
	// finding C04-10 (corpus: var b *big.Float = 0x1p-1076 gives 0): while its corpus input still fails the generated
	// *big.Float contexts with a non-zero dyadic value below 2^-1075 are not judged (class avoided, counted in the distribution)
	tinyBigFloatOpen := false
	tinyBound := new(big.Rat).SetFrac(big.NewInt(1), new(big.Int).Lsh(big.NewInt(1), 1075))
	tinyDyadic := func(q *big.Rat) bool { // 0 < |q| < 2^-1075 with a power of two as denominator
		den := q.Denom()
		return q.Sign() != 0 && new(big.Rat).Abs(q).Cmp(tinyBound) < 0 && new(big.Int).And(den, new(big.Int).Sub(den, big.NewInt(1))).Sign() == 0
	}

	nFails := 0
	fail := func(key, what string, input, got, want interface{}) {
		nFails++
		rep.Dist("FAIL:" + what)
		rep.Fail(vh.Failure{Key: key, What: what, Input: input, Got: got, Want: want})
	}

	addTyped := func(src string, val *uv, lit *untyped.Lit, r *vh.Rng, n int) {
		for j := 0; j < n; j++ {
			var T string
			switch {
			case val != nil && val.K == KComplex && val.im().Sign() != 0 && r.Chance(1, 2):
				// a non-zero imaginary part, however small, must be rejected by every real type
				T = []string{"float32", "float64", "float32", "float64", "int", "uint8"}[r.Intn(6)]
			case val != nil && isNumK(val.K) && r.Chance(3, 4):
				// numeric targets, biased to the smallest kinds that could hold the value
				T = typedKinds[r.Intn(15)]
			default:
				T = typedKinds[r.Intn(len(typedKinds))]
			}
			ctx := "var"
			if r.Bool() {
				ctx = "conv"
			}
			typed = append(typed, &tcase{Idx: idx, Src: src, Ctx: ctx, Type: T, val: val, lit: lit})
			idx++
		}
	}

	// ---- stream 0: corpus
	for _, e := range loadCorpus() {
		wd.Beat(e)
		switch e.Ctx {
		case "untyped":
			checkUntypedSrc(rep, e.Src, "corpus")
		case "big":
			// `var b *big.Int|*big.Rat|*big.Float = src`: the exact value comes from go/types
			if v := checkUntypedSrc(rep, e.Src, "corpus"); v != nil {
				bigs = append(bigs, bigcase{idx, e.Src, v, e.Type})
				idx++
				nCorpusBigs++
			}
		default:
			typed = append(typed, &tcase{Idx: idx, Src: e.Src, Ctx: e.Ctx, Type: e.Type})
			idx++
		}
		rep.Dist("stream:corpus")
	}
	// ---- stream 1: enumerated sources, judged by go/types
	for _, src := range enumerated {
		wd.Beat(src)
		v := checkUntypedSrc(rep, src, "enumerated")
		rep.Count(src, v != nil)
		rep.Dist("stream:enumerated")
		if v != nil {
			addTyped(src, v, nil, rng, 2)
		}
	}
	// ---- stream 2: random trees
	for k := 0; k < nTrees; k++ {
		n := genAny(rng, 1+rng.Intn(depth))
		src := n.String()
		wd.Beat(src)
		refBeyond = false
		want, werr := evalRef(n)
		got, lit, ok, msg := evalUntyped(src)
		if refBeyond {
			// beyond go/constant's exact range: gomacro must agree with go/types (value, kind, accept/reject)
			rep.Dist("result:beyond_exact_range")
			if v := checkUntypedSrc(rep, src, "beyond"); v != nil {
				rep.Count(src, true)
			} else {
				rep.Count(src, false)
			}
			idx++
			continue
		}
		opsUsed := map[string]bool{}
		n.ops(opsUsed)
		for o := range opsUsed {
			rep.Dist("op:" + o)
		}
		rep.Dist(fmt.Sprintf("tree_size:%d-%d", n.size()/4*4, n.size()/4*4+3))
		// (T) go/types as second oracle, and validation of the reference evaluator
		tv, terr := types.Eval(token.NewFileSet(), nil, token.NoPos, src)
		switch {
		case werr != nil:
			rep.Dist("result:rejected")
			if ok {
				fail("untyped "+src, "gomacro accepts an invalid constant expression", src, got.String(), "rejected (reference evaluator)")
			}
			if terr == nil {
				fail("oracle "+src, "oracle disagreement: go/types accepts what the reference evaluator rejects", src, tv.Value.ExactString(), "rejected")
			}
		default:
			rep.Dist("result:" + kindName[want.K])
			if !ok {
				fail("untyped "+src, "gomacro rejects a valid constant expression", src, msg, want.String())
			} else if !uvEqual(got, want) {
				fail("untyped "+src, "value/kind differs from exact arithmetic", src, got.String(), want.String())
			}
			if terr != nil {
				// go/types limits untyped integers to 512 bits: not a disagreement
				if e := terr.Error(); strings.Contains(e, "overflow") && !strings.Contains(e, "shift count") {
					rep.Dist("gotypes:size_limit")
				} else {
					fail("oracle "+src, "oracle disagreement: go/types rejects what the reference evaluator accepts", src, terr.Error(), want.String())
				}
			} else if tv.Value == nil {
				fail("oracle "+src, "oracle disagreement: go/types gives no constant", src, nil, want.String())
			} else if exactRepr(tv.Value) {
				if tvv := uvOfConst(kindOfBasic(tv.Type), tv.Value); tvv == nil || !uvEqual(tvv, want) {
					fail("oracle "+src, "oracle disagreement: go/types value differs from the reference evaluator", src, fmt.Sprint(tvv), want.String())
				}
			}
		}
		// (M) the same tree for the Coq model; observation = what gomacro returned
		if want == nil || want.small() {
			obs := "None"
			if ok {
				if !exactRepr(lit.Val) {
					obs = ""
				} else {
					obs = "(Some " + coqLit(got, reprKind(lit.Val)) + ")"
				}
			}
			if obs != "" && treeSmall(n) && coqKeep(idx) {
				cw.Add(fmt.Sprintf("CEval %d %s %s", idx, coqExpr(n), obs))
				rep.CaseInput(idx, map[string]string{"untyped": src})
			}
		}
		idx++
		rep.Count(src, ok && n.Op != "")
		if k%211 == 5 {
			rep.Sample(map[string]string{"src": src, "gomacro": fmt.Sprint(got), "exact": fmt.Sprint(want)})
		}
		if ok && werr == nil && terr == nil && uvEqual(got, want) {
			// (typed contexts only for expressions inside go/types' size limits: it is the accept/reject oracle there)
			l := lit
			addTyped(src, want, &l, rng, 3)
			if isNumK(want.K) && want.K != KComplex && rng.Chance(1, 2) {
				bigs = append(bigs, bigcase{idx, src, want, bigKinds[rng.Intn(3)]})
				idx++
			}
		}
	}

	// ---- typed stream "edge" (edge.go): float/imaginary constants at the underflow / overflow edges, both signs
	for _, e := range edgeTyped() {
		typed = append(typed, &tcase{Idx: idx, Src: e[0], Ctx: e[1], Type: e[2]})
		idx++
		rep.Dist("stream:typed_edge")
	}

	// ---- typed contexts: go/types decides accept/reject, compiled Go gives the values
	typeCheckBatch(typed)
	compileBatch(a.Path("oracle"), typed, rep)
	for _, t := range typed {
		wd.Beat(t.key())
		t.gmCanon, _, t.gmOK, t.gmMsg = evalTyped(t.gomacroSrc())
		rep.Count(t.key(), t.goOK)
		rep.Dist("typed:" + t.Ctx + ":" + t.Type)
		switch {
		case t.goCanon == "?":
			// undecided (compiler and go/types disagree)
		case !t.goOK && t.gmOK:
			rep.Dist("typed_result:go_rejects")
			fail("typed "+t.key(), "gomacro accepts a constant that Go rejects in this typed context", t, t.gmCanon, "rejected by go/types")
		case !t.goOK:
			rep.Dist("typed_result:go_rejects")
		case !t.gmOK:
			rep.Dist("typed_result:go_accepts")
			fail("typed "+t.key(), "gomacro rejects a constant that Go accepts in this typed context", t, t.gmMsg, t.goCanon)
		case t.gmCanon != t.goCanon:
			rep.Dist("typed_result:go_accepts")
			fail("typed "+t.key(), "typed value differs from compiled Go", t, t.gmCanon, t.goCanon)
		default:
			rep.Dist("typed_result:go_accepts")
		}
		// (M) model case: the untyped literal as gomacro holds it, the target, gomacro's observation
		if t.lit != nil && t.val != nil && t.val.small() && exactRepr(t.lit.Val) && coqKeep(t.Idx) {
			cw.Add(fmt.Sprintf("CConv %d %s %s %s %s", t.Idx, coqLit(t.val, reprKind(t.lit.Val)), tkCoq[t.Type], vh.CoqBool(t.Ctx == "conv"), coqTyped(t.gmOK, t.gmCanon)))
			rep.CaseInput(t.Idx, t)
		}
	}

	// ---- math/big contexts
	for bi, b := range bigs {
		src := fmt.Sprintf("(func() %s { var b %s = %s; return b })()", b.kind, b.kind, b.src)
		wd.Beat(src)
		if tinyBigFloatOpen && bi >= nCorpusBigs && b.kind == "*big.Float" && tinyDyadic(b.val.Re) {
			rep.Dist("avoided:bigfloat_dyadic_below_2^-1075(finding C04-10 open)")
			continue
		}
		nFailBefore := nFails
		var raw interface{}
		var ok bool
		var msg string
		_, raw, ok, msg = evalTyped(src)
		key := "big " + b.kind + " = " + b.src
		rep.Count(key, true)
		rep.Dist("big:" + b.kind)
		obs := "None"
		switch b.kind {
		case "*big.Int":
			z, integral := b.val.integral()
			switch {
			case !integral && ok:
				fail(key, "non-integral constant accepted as *big.Int", src, fmt.Sprint(raw), "rejected")
			case integral && !ok:
				fail(key, "integral constant rejected as *big.Int", src, msg, z.String())
			case integral:
				if g, isT := raw.(*big.Int); !isT || g.Cmp(z) != 0 {
					fail(key, "*big.Int value is not exact", src, fmt.Sprint(raw), z.String())
				} else {
					obs = fmt.Sprintf("(Some (%s, 1))", coqZ(g))
				}
			}
		case "*big.Rat":
			if !ok {
				fail(key, "constant rejected as *big.Rat", src, msg, b.val.Re.RatString())
			} else if g, isT := raw.(*big.Rat); !isT || g.Cmp(b.val.Re) != 0 {
				fail(key, "*big.Rat value is not exact", src, fmt.Sprint(raw), b.val.Re.RatString())
			} else {
				obs = fmt.Sprintf("(Some (%s, %s))", coqZ(g.Num()), coqZ(g.Denom()))
			}
		case "*big.Float":
			if !ok {
				fail(key, "constant rejected as *big.Float", src, msg, b.val.Re.RatString())
				break
			}
			g, isT := raw.(*big.Float)
			if !isT {
				fail(key, "not a *big.Float", src, fmt.Sprint(raw), nil)
				break
			}
			gq, _ := g.Rat(nil)
			den := b.val.Re.Denom()
			dyadic := den.BitLen() > 0 && new(big.Int).And(den, new(big.Int).Sub(den, big.NewInt(1))).Sign() == 0
			if dyadic {
				// representable in binary floating point: must be exact
				if gq == nil || gq.Cmp(b.val.Re) != 0 {
					fail(key, "*big.Float value is not exact although the constant is a dyadic rational", src, g.Text('p', 0), b.val.Re.RatString())
				} else {
					obs = fmt.Sprintf("(Some (%s, %s))", coqZ(gq.Num()), coqZ(gq.Denom()))
				}
				rep.Dist("bigfloat:dyadic")
			} else {
				// not representable: must be the nearest value at the precision gomacro chose (>= 64 bits)
				w := new(big.Float).SetPrec(g.Prec()).SetRat(b.val.Re)
				if g.Prec() < 64 || w.Cmp(g) != 0 {
					fail(key, "*big.Float value is not the correctly rounded constant", src, g.Text('p', 0), w.Text('p', 0))
				}
				obs = ""
				rep.Dist("bigfloat:rounded")
			}
		}
		if obs != "" && b.val.small() && coqKeep(b.idx) {
			bk := map[string]string{"*big.Int": "BInt", "*big.Rat": "BRat", "*big.Float": "BFloat"}[b.kind]
			cw.Add(fmt.Sprintf("CBig %d %s %s %s", b.idx, coqLit(b.val, reprOfKind(b.val.K)), bk, obs))
			rep.CaseInput(b.idx, src)
		}
		if bi < nCorpusBigs && nFails > nFailBefore && b.kind == "*big.Float" && tinyDyadic(b.val.Re) {
			tinyBigFloatOpen = true
		}
	}
	cw.Close()
	rep.Extra["typed_contexts"] = len(typed)
	rep.Extra["big_contexts"] = len(bigs)
	rep.Write()
}

// treeSmall: every literal of the tree is inside go/constant's exact range
func treeSmall(n *node) bool {
	if n == nil {
		return true
	}
	if n.Op == "" {
		return n.Val.small()
	}
	return treeSmall(n.X) && treeSmall(n.Y)
}

// checkUntypedSrc compares gomacro with go/types on a source string; returns the value when both accept
func checkUntypedSrc(rep *vh.Report, src, stream string) *uv {
	got, lit, ok, msg := evalUntyped(src)
	tv, terr := types.Eval(token.NewFileSet(), nil, token.NoPos, src)
	key := "untyped " + src
	switch {
	case terr != nil:
		if e := terr.Error(); strings.Contains(e, "overflow") && !strings.Contains(e, "shift count") {
			// go/types limits untyped integers to 512 bits: undecided
			rep.Dist("gotypes:size_limit")
			return nil
		}
		if ok {
			rep.Fail(vh.Failure{Key: key, What: "gomacro accepts a constant expression that go/types rejects", Input: src, Got: got.String(), Want: terr.Error()})
		}
		return nil
	case tv.Value == nil:
		return nil
	case !ok:
		rep.Fail(vh.Failure{Key: key, What: "gomacro rejects a constant expression that go/types accepts", Input: src, Got: msg, Want: tv.Value.ExactString()})
		return nil
	}
	want := uvOfConst(kindOfBasic(tv.Type), tv.Value)
	if want == nil || !uvEqual(got, want) || lit.Val.ExactString() != tv.Value.ExactString() {
		rep.Fail(vh.Failure{Key: key, What: "value/kind differs from go/types", Input: src, Got: got.String(), Want: fmt.Sprint(want)})
		return nil
	}
	if !exactRepr(tv.Value) {
		return nil
	}
	return want
}

// c04 generator: constant expression trees whose literal VALUES are chosen first (math/big) and then
// FORMATTED in a chosen base/form, so that the expected value never depends on a literal parser.
package main

import (
	"fmt"
	"math/big"
	"strings"

	"verifh/vh"
)

// untyped kinds, in Go's promotion order for the numeric ones
const (
	KBool = iota
	KInt
	KRune
	KFloat
	KComplex
	KString
)

var kindName = []string{"bool", "int", "rune", "float", "complex", "string"}
var kindCoq = []string{"KBool", "KInt", "KRune", "KFloat", "KComplex", "KString"}

// uv: an exact untyped value
type uv struct {
	K      int
	Re, Im *big.Rat // numeric kinds (Im only for complex)
	B      bool
	S      string
}

type node struct {
	Op   string // "" for a literal; unary "u+","u-","u^","u!"; binary "+","-",...; "()" for parentheses; builtin calls "real","imag" (X) and "complex" (X, Y)
	Src  string // literal source text
	Val  *uv    // literal value (known by construction)
	X, Y *node
}

func (n *node) String() string {
	switch {
	case n.Op == "":
		return n.Src
	case n.Op == "()":
		return "(" + n.X.String() + ")"
	case n.Op == "real" || n.Op == "imag":
		return n.Op + "(" + n.X.String() + ")"
	case n.Op == "complex":
		return "complex(" + n.X.String() + ", " + n.Y.String() + ")"
	case n.Y == nil:
		return n.Op[1:] + n.X.String()
	}
	return n.X.String() + " " + n.Op + " " + n.Y.String()
}

func isCall(op string) bool { return op == "real" || op == "imag" || op == "complex" }

func (n *node) size() int {
	if n == nil {
		return 0
	}
	return 1 + n.X.size() + n.Y.size()
}

func (n *node) ops(m map[string]bool) {
	if n == nil {
		return
	}
	if n.Op != "" && n.Op != "()" {
		m[n.Op] = true
	}
	n.X.ops(m)
	n.Y.ops(m)
}

func paren(n *node) *node {
	if (n.Op == "" && !strings.HasPrefix(n.Src, "-")) || isCall(n.Op) {
		return n
	}
	return &node{Op: "()", X: n}
}
func bin(op string, x, y *node) *node { return &node{Op: op, X: paren(x), Y: paren(y)} }
func un(op string, x *node) *node     { return &node{Op: "u" + op, X: paren(x)} }

// builtin calls on constant operands: real(x), imag(x), complex(x, y)
func call1(name string, x *node) *node    { return &node{Op: name, X: x} }
func call2(name string, x, y *node) *node { return &node{Op: name, X: x, Y: y} }
func realOrImag(r *vh.Rng) string {
	if r.Bool() {
		return "real"
	}
	return "imag"
}

// zeroImag wraps a real-valued expression into a constant of kind complex with a zero imaginary part: (x + 0i)
func zeroImag(r *vh.Rng, x *node) *node {
	z := &node{Src: []string{"0i", "0.0i", "0x0i", "0e5i"}[r.Intn(4)], Val: &uv{K: KComplex, Re: new(big.Rat), Im: new(big.Rat)}}
	if r.Bool() {
		return bin("+", x, z)
	}
	return bin("-", x, z)
}

// genBuiltin: a call of real/imag/complex on untyped constant operands whose result kind is <= want (want >= KFloat).
// real(x), imag(x): x any numeric kind (int, rune, float, complex) -> untyped float;
// complex(x, y): x, y int/rune/float, sometimes a complex constant with zero imaginary part (accepted by Go) -> untyped complex
func genBuiltin(r *vh.Rng, depth int, want int) *node {
	if want >= KComplex && r.Chance(2, 5) {
		arg := func() *node {
			x := genNum(r, depth-1, KFloat)
			if r.Chance(1, 6) {
				return zeroImag(r, x)
			}
			return x
		}
		return call2("complex", arg(), arg())
	}
	var x *node
	switch r.Intn(6) {
	case 0:
		x = genNum(r, depth-1, KRune) // real(1), imag('a'): the go/constant representation is an integer
	case 1:
		x = bin([]string{"+", "-"}[r.Intn(2)], genNum(r, depth-1, KRune), randImagLit(r)) // real(3+2i): integer real part
	case 2:
		x = genNum(r, depth-1, KFloat)
	default:
		x = genNum(r, depth-1, KComplex)
	}
	return call1(realOrImag(r), x)
}

// ---------- literal formatting ----------

func sep(r *vh.Rng, digits string) string {
	// insert '_' separators between digits (never leading/trailing/doubled)
	if len(digits) < 2 || !r.Chance(1, 3) {
		return digits
	}
	var sb strings.Builder
	for i := 0; i < len(digits); i++ {
		if i > 0 && r.Chance(1, 3) {
			sb.WriteByte('_')
		}
		sb.WriteByte(digits[i])
	}
	return sb.String()
}

func rint(z *big.Int) *big.Rat { return new(big.Rat).SetInt(z) }

// intLit formats the non-negative integer z in a random base/form
func intLit(r *vh.Rng, z *big.Int) *node {
	v := &uv{K: KInt, Re: rint(z)}
	var s string
	switch r.Intn(8) {
	case 0:
		s = "0b" + sep(r, z.Text(2))
	case 1:
		s = "0B" + sep(r, z.Text(2))
	case 2:
		s = "0o" + sep(r, z.Text(8))
	case 3:
		if z.Sign() == 0 {
			s = "0"
		} else {
			s = "0" + sep(r, z.Text(8)) // legacy octal
		}
	case 4:
		s = "0x" + sep(r, z.Text(16))
		if r.Bool() {
			s = "0X" + sep(r, strings.ToUpper(z.Text(16)))
		}
		if r.Chance(1, 4) {
			s = s[:2] + "_" + s[2:]
		}
	default:
		s = sep(r, z.Text(10))
	}
	return &node{Src: s, Val: v}
}

func pow(b int64, e int) *big.Int { return new(big.Int).Exp(big.NewInt(b), big.NewInt(int64(e)), nil) }

// scaled returns m * base^e as an exact rational (e may be negative)
func scaled(m *big.Int, base int64, e int) *big.Rat {
	if e >= 0 {
		return rint(new(big.Int).Mul(m, pow(base, e)))
	}
	return new(big.Rat).SetFrac(m, pow(base, -e))
}

// floatLit formats m * 10^e (decimal forms) or m * 2^e (hex forms); m >= 0
func floatLit(r *vh.Rng, m *big.Int, e int, hex bool) *node {
	if hex {
		// 0x<hi>.<lo>p<exp>: the fraction has k hex digits => value = M * 16^-k * 2^exp
		digits := m.Text(16)
		k := 0
		if len(digits) > 1 && r.Bool() {
			k = 1 + r.Intn(len(digits)-1)
		}
		mant := sep(r, digits[:len(digits)-k])
		if k > 0 {
			mant += "." + sep(r, digits[len(digits)-k:])
		} else if r.Chance(1, 4) {
			mant += "."
		}
		exp := e + 4*k
		pfx, p := "0x", "p"
		if r.Chance(1, 4) {
			pfx, p, mant = "0X", "P", strings.ToUpper(mant)
		}
		sign := ""
		if exp >= 0 && r.Bool() {
			sign = "+"
		}
		return &node{Src: fmt.Sprintf("%s%s%s%s%d", pfx, mant, p, sign, exp), Val: &uv{K: KFloat, Re: scaled(m, 2, e)}}
	}
	digits := m.Text(10)
	k := 0
	if len(digits) > 1 && r.Bool() {
		k = 1 + r.Intn(len(digits)-1)
	}
	exp := e + k
	var s string
	switch {
	case k > 0:
		s = sep(r, digits[:len(digits)-k]) + "." + sep(r, digits[len(digits)-k:])
	case r.Chance(1, 3) || exp == 0:
		s = sep(r, digits) + "."
	default:
		s = sep(r, digits)
	}
	if k == 0 && r.Chance(1, 6) {
		// ".ddd" form: value = m * 10^(e) with all digits in the fraction
		s = "." + sep(r, digits)
		exp = e + len(digits)
	}
	if exp != 0 || !strings.Contains(s, ".") {
		ech := "e"
		if r.Chance(1, 4) {
			ech = "E"
		}
		sign := ""
		if exp >= 0 && r.Chance(1, 3) {
			sign = "+"
		}
		s += fmt.Sprintf("%s%s%d", ech, sign, exp)
	}
	return &node{Src: s, Val: &uv{K: KFloat, Re: scaled(m, 10, e)}}
}

func imagLit(r *vh.Rng, base *node) *node {
	return &node{Src: base.Src + "i", Val: &uv{K: KComplex, Re: new(big.Rat), Im: base.Val.Re}}
}

var runeLits = []struct {
	src string
	v   int64
}{
	{`'a'`, 'a'}, {`'0'`, '0'}, {`'\n'`, '\n'}, {`'\x41'`, 0x41}, {`'\377'`, 0377}, {`'é'`, 0xe9}, {`'\U0001F600'`, 0x1F600},
	{`'\''`, '\''}, {`'\\'`, '\\'}, {`'é'`, 0xe9}, {`'世'`, 0x4e16}, {`'\000'`, 0}, {`'\U0010FFFF'`, 0x10FFFF}, {`'\t'`, 9}, {`'~'`, '~'},
}

var strLits = []struct{ src, v string }{
	{`""`, ""}, {`"a"`, "a"}, {`"abc"`, "abc"}, {"`raw\\n`", "raw\\n"}, {`"é\n"`, "é\n"}, {`"\x00\xff"`, "\x00\xff"},
	{`"世界"`, "世界"}, {`"b"`, "b"}, {`"ab"`, "ab"}, {`"\U0001F600"`, "\U0001F600"}, {`"\"q\""`, `"q"`}, {"`a\"b`", `a"b`},
}

// interesting integer magnitudes
func specialInt(r *vh.Rng) *big.Int {
	bits := []int{0, 1, 7, 8, 15, 16, 24, 31, 32, 52, 53, 54, 62, 63, 64, 65, 100, 127, 128, 200, 256, 511, 512, 1000}
	b := bits[r.Intn(len(bits))]
	z := pow(2, b)
	switch r.Intn(6) {
	case 0:
		z.Sub(z, big.NewInt(1))
	case 1:
		z.Add(z, big.NewInt(1))
	case 2:
		z.Sub(z, big.NewInt(2))
	case 3:
		z.Add(z, big.NewInt(int64(r.Intn(1000))))
	}
	if z.Sign() < 0 {
		z.SetInt64(0)
	}
	return z
}

func randInt(r *vh.Rng) *big.Int {
	switch r.Intn(10) {
	case 0, 1, 2, 3:
		return big.NewInt(int64(r.Intn(20)))
	case 4, 5:
		return big.NewInt(int64(r.U64() >> uint(1+r.Intn(63))))
	case 6:
		z := new(big.Int).SetUint64(r.U64())
		return z.Mul(z, new(big.Int).SetUint64(r.U64()>>uint(r.Intn(64))))
	default:
		return specialInt(r)
	}
}

// float literal with interesting magnitude
func randFloatLit(r *vh.Rng) *node {
	switch r.Intn(12) {
	case 0, 1, 2:
		return floatLit(r, big.NewInt(int64(r.Intn(1000))), -r.Intn(4), false)
	case 3:
		return floatLit(r, randInt(r), r.Intn(40)-20, false)
	case 4:
		return floatLit(r, randInt(r), r.Intn(80)-40, true)
	case 5: // huge / tiny exponents (still exactly representable as a go/constant rational)
		e := []int{1000, -1000, 308, 309, -323, -324, -325, 38, 39, -45, -46, 400, -400, 1200, -1200}[r.Intn(15)]
		return floatLit(r, big.NewInt(int64(1+r.Intn(99))), e, false)
	case 6: // around the float32/float64 overflow thresholds: (2^24-1)*2^104 .. , (2^53-1)*2^971 ..
		var m *big.Int
		var e int
		if r.Bool() {
			m, e = pow(2, 25), 103 // 2^128
			m.Sub(m, big.NewInt(int64(r.Intn(5))))
		} else {
			m, e = pow(2, 54), 970 // 2^1024
			m.Sub(m, big.NewInt(int64(r.Intn(5))))
		}
		return floatLit(r, m, e, true)
	case 7: // halfway cases for float32/float64 rounding: 1 + 2^-24 (+/- tiny), 1 + 2^-53 (+/- tiny)
		k := []int{24, 53}[r.Intn(2)]
		m := pow(2, 80)
		m.Add(m, pow(2, 80-k))
		m.Add(m, big.NewInt(int64(r.Intn(3)-1)))
		return floatLit(r, m, -80, true)
	case 8: // integral floats near integer type bounds (DESIGN 7 #8)
		z := specialInt(r)
		return floatLit(r, z, 0, r.Bool())
	case 9: // subnormal region
		e := []int{-1074, -1075, -1076, -149, -150, -151, -1022, -126}[r.Intn(8)]
		return floatLit(r, big.NewInt(int64(1+r.Intn(7))), e, true)
	default:
		return floatLit(r, big.NewInt(int64(r.Intn(100000))), -r.Intn(8), false)
	}
}

func randIntLit(r *vh.Rng) *node { return intLit(r, randInt(r)) }
func randRuneLit(r *vh.Rng) *node {
	x := runeLits[r.Intn(len(runeLits))]
	return &node{Src: x.src, Val: &uv{K: KRune, Re: new(big.Rat).SetInt64(x.v)}}
}
func randStrLit(r *vh.Rng) *node {
	x := strLits[r.Intn(len(strLits))]
	return &node{Src: x.src, Val: &uv{K: KString, S: x.v}}
}
func boolLit(b bool) *node {
	if b {
		return &node{Src: "true", Val: &uv{K: KBool, B: true}}
	}
	return &node{Src: "false", Val: &uv{K: KBool, B: false}}
}
func randImagLit(r *vh.Rng) *node {
	if r.Bool() {
		return imagLit(r, intLitDecOrPrefixed(r))
	}
	return imagLit(r, randFloatLit(r))
}

// imaginary literals: "0123i" is DECIMAL 123i for backward compatibility, so legacy octal is excluded here
func intLitDecOrPrefixed(r *vh.Rng) *node {
	for {
		n := randIntLit(r)
		s := n.Src
		if len(s) > 1 && s[0] == '0' && s[1] != 'x' && s[1] != 'X' && s[1] != 'b' && s[1] != 'B' && s[1] != 'o' {
			continue
		}
		return n
	}
}

// ---------- trees ----------

var arithOps = []string{"+", "-", "*", "/"}
var intOps = []string{"+", "-", "*", "/", "%", "&", "|", "^", "&^"}
var cmpOps = []string{"==", "!=", "<", "<=", ">", ">="}

// genNum generates a numeric expression; want = upper bound on the kind (KInt..KComplex)
func genNum(r *vh.Rng, depth int, want int) *node {
	if depth <= 0 || r.Chance(1, 4) {
		k := KInt + r.Intn(want-KInt+1)
		switch k {
		case KInt:
			return randIntLit(r)
		case KRune:
			return randRuneLit(r)
		case KFloat:
			return randFloatLit(r)
		default:
			return randImagLit(r)
		}
	}
	switch x := r.Intn(23); {
	case x >= 20 && want >= KFloat:
		return genBuiltin(r, depth, want)
	case x < 2:
		return un([]string{"+", "-", "-"}[r.Intn(3)], genNum(r, depth-1, want))
	case x < 3:
		return un("^", genNum(r, depth-1, min(want, KRune)))
	case x < 6:
		// shifts: count is a small non-negative constant (sometimes float-valued / rune / expression / builtin call)
		var cnt *node
		switch r.Intn(9) {
		case 0:
			cnt = floatLit(r, big.NewInt(int64(r.Intn(70))), 0, r.Bool())
		case 1:
			cnt = bin("+", intLit(r, big.NewInt(int64(r.Intn(100)))), intLit(r, big.NewInt(int64(r.Intn(30)))))
		case 2:
			cnt = intLit(r, big.NewInt(int64(r.Intn(1100))))
		case 3:
			// an untyped float constant with an integer value is a valid shift count: real(complex(n, m)), imag(m + ni)
			c := call2("complex", intLit(r, big.NewInt(int64(r.Intn(130)))), intLit(r, big.NewInt(int64(r.Intn(130)))))
			cnt = call1(realOrImag(r), c)
		default:
			cnt = intLit(r, big.NewInt(int64(r.Intn(130))))
		}
		op := "<<"
		if r.Bool() {
			op = ">>"
		}
		left := genNum(r, depth-1, min(want, KRune))
		if r.Chance(1, 8) {
			// integer-valued untyped float operand produced by a builtin (result: untyped int)
			left = call1("real", bin("+", left, randImagLit(r)))
		}
		return bin(op, left, cnt)
	case x < 8:
		return bin(intOps[r.Intn(len(intOps))], genNum(r, depth-1, min(want, KRune)), genNum(r, depth-1, min(want, KRune)))
	default:
		return bin(arithOps[r.Intn(len(arithOps))], genNum(r, depth-1, want), genNum(r, depth-1, want))
	}
}

func genStr(r *vh.Rng, depth int) *node {
	if depth <= 0 || r.Bool() {
		return randStrLit(r)
	}
	return bin("+", genStr(r, depth-1), genStr(r, depth-1))
}

func genBool(r *vh.Rng, depth int) *node {
	if depth <= 0 || r.Chance(1, 5) {
		return boolLit(r.Bool())
	}
	switch x := r.Intn(10); {
	case x < 5:
		op := cmpOps[r.Intn(len(cmpOps))]
		w := KFloat
		if op == "==" || op == "!=" {
			w = KComplex
		}
		return bin(op, genNum(r, depth-1, w), genNum(r, depth-1, w))
	case x < 6:
		return bin(cmpOps[r.Intn(len(cmpOps))], genStr(r, depth-1), genStr(r, depth-1))
	case x < 7:
		return un("!", genBool(r, depth-1))
	case x < 8:
		return bin([]string{"==", "!="}[r.Intn(2)], genBool(r, depth-1), genBool(r, depth-1))
	default:
		return bin([]string{"&&", "||"}[r.Intn(2)], genBool(r, depth-1), genBool(r, depth-1))
	}
}

// genTinyImag: a complex constant whose NON-ZERO imaginary part rounds to zero in float32 and/or float64
// (finding C04-9: float64(1 + 1e-400i) was accepted): x + <tiny>i, x - <tiny>i or complex(x, <tiny>)
func genTinyImag(r *vh.Rng) *node {
	var tiny *node
	if r.Bool() {
		e := []int{-46, -47, -60, -300, -324, -325, -400, -1200}[r.Intn(8)]
		tiny = floatLit(r, big.NewInt(int64(1+r.Intn(99))), e, false)
	} else {
		e := []int{-150, -151, -152, -200, -1074, -1075, -1076, -1100}[r.Intn(8)]
		tiny = floatLit(r, big.NewInt(int64(1+r.Intn(7))), e, true)
	}
	x := genNum(r, 1, KFloat)
	switch r.Intn(3) {
	case 0:
		return call2("complex", x, tiny)
	case 1:
		return bin("-", x, imagLit(r, tiny))
	}
	return bin("+", x, imagLit(r, tiny))
}

// genAny: mostly well-kinded, sometimes deliberately ill-kinded (must be rejected by every party)
func genAny(r *vh.Rng, depth int) *node {
	switch x := r.Intn(40); {
	case x < 1:
		return genTinyImag(r)
	case x < 24:
		return genNum(r, depth, KInt+r.Intn(4))
	case x < 30:
		return genBool(r, depth)
	case x < 33:
		return genStr(r, depth)
	default:
		// ill-kinded / invalid operations
		ops := []string{"+", "-", "*", "/", "%", "&", "|", "^", "&^", "<<", ">>", "==", "!=", "<", "<=", ">", ">=", "&&", "||"}
		lit := func() *node {
			switch r.Intn(5) {
			case 0:
				return genStr(r, 1)
			case 1:
				return genBool(r, 1)
			case 2:
				return randFloatLit(r)
			case 3:
				return randImagLit(r)
			default:
				return genNum(r, 1, KComplex)
			}
		}
		pick := func() *node {
			switch r.Intn(8) {
			case 0:
				// real("a"), imag(true), real(1i) ...: operands of any kind
				return call1(realOrImag(r), lit())
			case 1:
				// complex("a", 1), complex(1, 2i), complex(1i, 2), complex(1+0i, 2) ...
				return call2("complex", lit(), lit())
			case 2:
				// valid calls used below with operators that are not defined on floats / complex: real(7+3i) % 2, ^real(3+2i)
				return genBuiltin(r, 2, KFloat+r.Intn(2))
			}
			return lit()
		}
		switch r.Intn(6) {
		case 0:
			return un([]string{"+", "-", "^", "!"}[r.Intn(4)], pick())
		case 1:
			return pick()
		}
		return bin(ops[r.Intn(len(ops))], pick(), pick())
	}
}

func min(a, b int) int {
	if a < b {
		return a
	}
	return b
}

// c08: composite data types and builtins (fast/index.go, slice.go, compositelit.go, builtin.go, address.go, selector.go).
//
// Three kinds of generated cases:
//
//	run   : a straight-line program over array variables, slice variables and map variables built from a list of
//	        model operations (make/nil/literal, 2- and 3-index slicing of slices and of array variables, index get/set,
//	        len/cap, append, copy, array assignment, map make/nil/insert/lookup/comma-ok/delete/len) with element kind
//	        chosen at random and every index/bound chosen AROUND the valid range (-1, 0, len-1, len, len+1, cap, cap+1),
//	        passed through a compiled identity function so that it is not a constant.  The program stops at its first
//	        panic.  Three-way: gomacro vs compiled Go (direct oracle) vs the Coq model (cases_NNN.v).
//	extra : programs from templates over nested composite types (structs with slice/array/map/pointer fields, keyed /
//	        positional / nested composite literals, &T{}, new, nil dereference, nil-map write, nested indexing around the
//	        bounds): gomacro vs compiled Go.
//	ct    : one indexing or slicing expression with constant or variable operands on a slice / array / pointer to array /
//	        constant string / string variable: does gomacro reject it while compiling, does go/types reject it, and what
//	        the model of both rules says.  gomacro must never reject what Go accepts; what it accepts although Go
//	        rejects must panic when run (never yield a value).
package main

import (
	"context"
	"crypto/sha256"
	"encoding/hex"
	"encoding/json"
	"fmt"
	"go/ast"
	"go/parser"
	"go/token"
	"go/types"
	"io"
	"os"
	"os/exec"
	"path/filepath"
	"sort"
	"strconv"
	"strings"
	"time"

	"github.com/cosmos72/gomacro/fast"
	"verifh/vh"
)

// ---------- model operations ----------
type op struct {
	K        string  `json:"k"`
	D        int     `json:"d,omitempty"`
	S        int     `json:"s,omitempty"`
	A        int64   `json:"a,omitempty"`
	B        int64   `json:"b,omitempty"`
	C        int64   `json:"c,omitempty"`
	HasMax   bool    `json:"m,omitempty"`
	Vs       []int64 `json:"vs,omitempty"`
	NewCap   int64   `json:"-"`
	produces string  // "", "val", "val2"
}

type prog struct {
	Kind   string `json:"kind"` // run | extra | ct | fresh | addr
	Idx    int    `json:"idx"`
	Elem   string `json:"elem,omitempty"`
	NA     int    `json:"na,omitempty"`
	ALen   int    `json:"alen,omitempty"`
	NS     int    `json:"ns,omitempty"`
	NM     int    `json:"nm,omitempty"`
	Ops    []op   `json:"ops,omitempty"`
	Src    string `json:"src"` // function declaration P<idx>_run
	Types  string `json:"types,omitempty"`
	Ct     *ctc   `json:"ct,omitempty"`
	Corpus string `json:"corpus,omitempty"`
	// Defer (corpus files only): the exact input of a finding that is not yet registered in known_findings.json; while
	// its key is not registered a failure is listed in report.json extra "deferred_corpus_failures" instead of being
	// reported (the coordinator registers the key or applies the fix; then the flag has no effect any more)
	Defer bool `json:"defer_until_registered,omitempty"`
}

// registeredKeys: the keys (key + other_keys) recorded for property C08 in $VERIF_DIR/known_findings.json
func registeredKeys(dir string) map[string]bool {
	out := map[string]bool{}
	var kf struct {
		Findings []struct {
			Property string   `json:"property"`
			Key      string   `json:"key"`
			Other    []string `json:"other_keys"`
		} `json:"findings"`
	}
	if b, err := os.ReadFile(filepath.Join(dir, "known_findings.json")); err == nil && json.Unmarshal(b, &kf) == nil {
		for _, f := range kf.Findings {
			if f.Property == "C08" {
				out[f.Key] = true
				for _, k := range f.Other {
					out[k] = true
				}
			}
		}
	}
	return out
}

type ctc struct {
	Slice         bool   `json:"slice"`
	Kind          string `json:"kind"` // slice array ptrarray conststring string
	N             int64  `json:"n"`
	Lo, Hi, Mx    *int64 // constant operands (nil: variable or absent)
	VarLo         bool   `json:"varlo"`
	VarHi         bool   `json:"varhi"`
	VarMx         bool   `json:"varmx"`
	HasHi         bool   `json:"hashi"`
	HasMx         bool   `json:"hasmx"`
	LoV, HiV, MxV int64
	HasLo         bool `json:"haslo"`
}

var elemKinds = []string{"int", "int8", "int64", "uint16", "uint8", "float64", "string"}

func lit(elem string, v int64) string {
	switch elem {
	case "string":
		if v == 0 {
			return `""`
		}
		return fmt.Sprintf("%q", "s"+strconv.FormatInt(v, 10))
	case "int":
		return strconv.FormatInt(v, 10)
	}
	return fmt.Sprintf("%s(%d)", elem, v)
}

// wrapArg: while the known finding C08-single-arg-comma-ok reproduces, a map index is never the only argument of a call
var wrapArg bool

// copyStmtOnly: while the known finding C08-copy-result reproduces, copy() is only used as a statement
var copyStmtOnly bool

func emitOf(elem, e string) string {
	switch elem {
	case "string":
		if wrapArg && strings.HasPrefix(e, "M") {
			return "emits(\"\" + " + e + ")"
		}
		return "emits(" + e + ")"
	}
	return "emit(int(" + e + "))"
}

// around picks a value near the interesting bounds
func around(r *vh.Rng, bounds ...int64) int64 {
	b := bounds[r.Intn(len(bounds))]
	return b + int64(r.Intn(3)) - 1
}

type sv struct{ len, cap int64 } // generator's own approximation of a slice variable (only steers the choice of indices)

func genRun(r *vh.Rng, idx int) *prog {
	p := &prog{Kind: "run", Idx: idx, Elem: elemKinds[r.Intn(len(elemKinds))], NA: 2, ALen: 3 + r.Intn(4), NS: 4, NM: 2}
	ss := make([]sv, p.NS)
	n := 6 + r.Intn(14)
	val := func() int64 { return int64(1 + r.Intn(99)) }
	vals := func(k int) []int64 {
		out := make([]int64, k)
		for i := range out {
			out[i] = val()
		}
		return out
	}
	safe := func(x, lo, hi int64) int64 { // mostly valid, sometimes just outside
		if r.Chance(5, 6) {
			if hi < lo {
				return lo
			}
			return lo + int64(r.Intn(int(hi-lo+1)))
		}
		return x
	}
	for i := 0; i < n; i++ {
		s, d := r.Intn(p.NS), r.Intn(p.NS)
		cur := ss[s]
		switch x := r.Intn(20); {
		case x < 2:
			l := int64(r.Intn(5))
			c := l + int64(r.Intn(4))
			p.Ops = append(p.Ops, op{K: "make", S: s, A: l, B: c})
			ss[s] = sv{l, c}
		case x < 3:
			p.Ops = append(p.Ops, op{K: "nil", S: s})
			ss[s] = sv{}
		case x < 5:
			k := r.Intn(6)
			p.Ops = append(p.Ops, op{K: "lit", S: s, Vs: vals(k)})
			ss[s] = sv{int64(k), int64(k)}
		case x < 8:
			lo := safe(around(r, 0, cur.len, cur.cap), 0, cur.len)
			hi := safe(around(r, 0, cur.len, cur.cap), lo, cur.cap)
			o := op{K: "slice", D: d, S: s, A: lo, B: hi}
			if r.Chance(1, 3) {
				o.HasMax = true
				o.C = safe(around(r, hi, cur.len, cur.cap), hi, cur.cap)
			}
			p.Ops = append(p.Ops, o)
			mx := cur.cap
			if o.HasMax {
				mx = o.C
			}
			ss[d] = sv{hi - lo, mx - lo}
		case x < 9:
			a := r.Intn(p.NA)
			al := int64(p.ALen)
			lo := safe(around(r, 0, al), 0, al)
			hi := safe(around(r, 0, al), lo, al)
			o := op{K: "slicearr", D: d, S: a, A: lo, B: hi}
			if r.Chance(1, 3) {
				o.HasMax = true
				o.C = safe(around(r, hi, al), hi, al)
			}
			p.Ops = append(p.Ops, o)
			mx := al
			if o.HasMax {
				mx = o.C
			}
			ss[d] = sv{hi - lo, mx - lo}
		case x < 11:
			p.Ops = append(p.Ops, op{K: "get", S: s, A: safe(around(r, 0, cur.len-1, cur.len, cur.cap), 0, cur.len-1), produces: "val"})
		case x < 13:
			p.Ops = append(p.Ops, op{K: "set", S: s, A: safe(around(r, 0, cur.len-1, cur.len, cur.cap), 0, cur.len-1), B: val()})
		case x < 14:
			p.Ops = append(p.Ops, op{K: []string{"len", "cap"}[r.Intn(2)], S: s, produces: "val"})
		case x < 16:
			k := r.Intn(4)
			if r.Bool() && cur.cap > cur.len {
				k = int(cur.cap-cur.len) + r.Intn(2) - 1 // around the remaining capacity
				if k < 0 {
					k = 0
				}
			}
			p.Ops = append(p.Ops, op{K: "append", D: d, S: s, Vs: vals(k)})
			if cur.len+int64(k) <= cur.cap {
				ss[d] = sv{cur.len + int64(k), cur.cap}
			} else {
				ss[d] = sv{cur.len + int64(k), 2 * (cur.len + int64(k))}
			}
		case x < 17:
			p.Ops = append(p.Ops, op{K: "copy", D: d, S: s, produces: "val"})
		case x < 18:
			a := r.Intn(p.NA)
			switch r.Intn(3) {
			case 0:
				p.Ops = append(p.Ops, op{K: "arrassign", D: 1 - a, S: a})
			case 1:
				p.Ops = append(p.Ops, op{K: "arrset", S: a, A: safe(around(r, 0, int64(p.ALen)), 0, int64(p.ALen)-1), B: val()})
			default:
				p.Ops = append(p.Ops, op{K: "arrget", S: a, A: safe(around(r, 0, int64(p.ALen)), 0, int64(p.ALen)-1), produces: "val"})
			}
		default:
			m := r.Intn(p.NM)
			k := int64(r.Intn(4))
			switch y := r.Intn(12); {
			case y < 2:
				p.Ops = append(p.Ops, op{K: "mmake", S: m})
			case y < 3:
				p.Ops = append(p.Ops, op{K: "mnil", S: m})
			case y < 6:
				p.Ops = append(p.Ops, op{K: "mset", S: m, A: k, B: val()})
			case y < 8:
				p.Ops = append(p.Ops, op{K: "mget", S: m, A: k, produces: "val"})
			case y < 10:
				p.Ops = append(p.Ops, op{K: "mgetok", S: m, A: k, produces: "val2"})
			case y < 11:
				p.Ops = append(p.Ops, op{K: "mdel", S: m, A: k})
			default:
				p.Ops = append(p.Ops, op{K: "mlen", S: m, produces: "val"})
			}
		}
	}
	p.render()
	return p
}

func (p *prog) render() {
	var sb strings.Builder
	T := p.Elem
	fmt.Fprintf(&sb, "func P%d_run() {\n", p.Idx)
	for i := 0; i < p.NA; i++ {
		fmt.Fprintf(&sb, "\tvar A%d [%d]%s\n\t_ = A%d\n", i, p.ALen, T, i)
	}
	for i := 0; i < p.NS; i++ {
		fmt.Fprintf(&sb, "\tvar S%d []%s\n\t_ = S%d\n", i, T, i)
	}
	for i := 0; i < p.NM; i++ {
		fmt.Fprintf(&sb, "\tvar M%d map[int]%s\n\t_ = M%d\n", i, T, i)
	}
	lits := func(vs []int64) string {
		var s []string
		for _, v := range vs {
			s = append(s, lit(T, v))
		}
		return strings.Join(s, ", ")
	}
	for i, o := range p.Ops {
		fmt.Fprintf(&sb, "\tmark(%d)\n", i)
		switch o.K {
		case "make":
			fmt.Fprintf(&sb, "\tS%d = make([]%s, id(%d), id(%d))\n", o.S, T, o.A, o.B)
		case "nil":
			fmt.Fprintf(&sb, "\tS%d = nil\n", o.S)
		case "lit":
			fmt.Fprintf(&sb, "\tS%d = []%s{%s}\n", o.S, T, lits(o.Vs))
		case "slice", "slicearr":
			src := fmt.Sprintf("S%d", o.S)
			if o.K == "slicearr" {
				src = fmt.Sprintf("A%d", o.S)
			}
			if o.HasMax {
				fmt.Fprintf(&sb, "\tS%d = %s[id(%d):id(%d):id(%d)]\n", o.D, src, o.A, o.B, o.C)
			} else {
				fmt.Fprintf(&sb, "\tS%d = %s[id(%d):id(%d)]\n", o.D, src, o.A, o.B)
			}
		case "get":
			fmt.Fprintf(&sb, "\t%s\n", emitOf(T, fmt.Sprintf("S%d[id(%d)]", o.S, o.A)))
		case "set":
			fmt.Fprintf(&sb, "\tS%d[id(%d)] = %s\n", o.S, o.A, lit(T, o.B))
		case "len", "cap":
			fmt.Fprintf(&sb, "\temit(%s(S%d))\n", o.K, o.S)
		case "append":
			if len(o.Vs) == 0 {
				fmt.Fprintf(&sb, "\tS%d = append(S%d)\n", o.D, o.S)
			} else {
				fmt.Fprintf(&sb, "\tS%d = append(S%d, %s)\n", o.D, o.S, lits(o.Vs))
			}
			fmt.Fprintf(&sb, "\tobscap(cap(S%d))\n", o.D)
		case "copy":
			fmt.Fprintf(&sb, "\temit(copy(S%d, S%d))\n", o.D, o.S)
		case "arrassign":
			fmt.Fprintf(&sb, "\tA%d = A%d\n", o.D, o.S)
		case "arrset":
			fmt.Fprintf(&sb, "\tA%d[id(%d)] = %s\n", o.S, o.A, lit(T, o.B))
		case "arrget":
			fmt.Fprintf(&sb, "\t%s\n", emitOf(T, fmt.Sprintf("A%d[id(%d)]", o.S, o.A)))
		case "mmake":
			fmt.Fprintf(&sb, "\tM%d = make(map[int]%s)\n", o.S, T)
		case "mnil":
			fmt.Fprintf(&sb, "\tM%d = nil\n", o.S)
		case "mset":
			fmt.Fprintf(&sb, "\tM%d[id(%d)] = %s\n", o.S, o.A, lit(T, o.B))
		case "mget":
			fmt.Fprintf(&sb, "\t%s\n", emitOf(T, fmt.Sprintf("M%d[id(%d)]", o.S, o.A)))
		case "mgetok":
			fmt.Fprintf(&sb, "\t{\n\t\tv%d, ok%d := M%d[id(%d)]\n\t\t%s\n\t\temitb(ok%d)\n\t}\n", i, i, o.S, o.A, emitOf(T, fmt.Sprintf("v%d", i)), i)
		case "mdel":
			fmt.Fprintf(&sb, "\tdelete(M%d, id(%d))\n", o.S, o.A)
		case "mlen":
			fmt.Fprintf(&sb, "\temit(len(M%d))\n", o.S)
		}
	}
	fmt.Fprintf(&sb, "\tmark(%d)\n}\n", len(p.Ops))
	p.Src = sb.String()
}

// ---------- extras: nested composite types ----------
func genExtra(r *vh.Rng, idx int) *prog {
	p := &prog{Kind: "extra", Idx: idx}
	T := elemKinds[r.Intn(len(elemKinds)-1)] // numeric
	pre := fmt.Sprintf("P%d_", idx)
	n := 2 + r.Intn(3)
	i1 := around(r, 0, int64(n))
	i2 := around(r, 0, 2)
	v := 1 + r.Intn(50)
	var tb, sb strings.Builder
	fmt.Fprintf(&tb, "type %sIn struct { A [%d]%s; S []%s; M map[string]%s }\n", pre, n, T, T, T)
	fmt.Fprintf(&tb, "type %sOut struct { X %s; In %sIn; P *%sIn; L []%sIn; Q *%s }\n", pre, T, pre, pre, pre, T)
	fmt.Fprintf(&sb, "func %srun() {\n\tmark(0)\n", pre)
	switch r.Intn(7) {
	case 0: // keyed + positional + nested literal, array value semantics inside a struct copy
		fmt.Fprintf(&sb, "\to := %sOut{X: %s(%d), In: %sIn{A: [%d]%s{0: %s(%d)}, S: []%s{%s(1), %s(2)}}}\n", pre, T, v, pre, n, T, T, v, T, T, T)
		fmt.Fprintf(&sb, "\tc := o\n\tc.In.A[0] = %s(99)\n\tc.In.S[0] = %s(98)\n", T, T)
		fmt.Fprintf(&sb, "\temit(int(o.In.A[0]))\n\temit(int(o.In.S[0]))\n\temit(int(c.In.A[id(%d)]))\n\temit(int(o.In.S[id(%d)]))\n", i1, i2)
	case 1: // &T{} and pointer field, nil pointer dereference
		fmt.Fprintf(&sb, "\to := &%sOut{X: %s(%d)}\n\to.P = &%sIn{S: []%s{%s(5)}}\n", pre, T, v, pre, T, T)
		fmt.Fprintf(&sb, "\temit(int(o.P.S[0]))\n\temit(len(o.P.M))\n\temit(int(o.P.M[\"a\"]))\n")
		if r.Bool() {
			fmt.Fprintf(&sb, "\to.P = nil\n")
		}
		fmt.Fprintf(&sb, "\temit(len(o.P.S))\n\temit(int(*o.Q))\n")
	case 2: // nil map write inside a struct, comma-ok, delete
		fmt.Fprintf(&sb, "\tvar o %sOut\n\t_, ok := o.In.M[\"k\"]\n\temitb(ok)\n\tdelete(o.In.M, \"k\")\n\temit(len(o.In.M))\n", pre)
		if r.Bool() {
			fmt.Fprintf(&sb, "\to.In.M = map[string]%s{\"k\": %s(%d)}\n", T, T, v)
		}
		fmt.Fprintf(&sb, "\to.In.M[\"z\"] = %s(3)\n\tw, ok2 := o.In.M[\"k\"]\n\temit(int(w))\n\temitb(ok2)\n\temit(len(o.In.M))\n", T)
	case 3: // slice of structs, append aliasing through a shared backing array
		fmt.Fprintf(&sb, "\tl := make([]%sIn, 1, 3)\n\tl[0].S = []%s{%s(1), %s(2), %s(3)}\n", pre, T, T, T, T)
		fmt.Fprintf(&sb, "\tm := append(l, %sIn{})\n\tm[0].A[0] = %s(%d)\n\temit(int(l[0].A[0]))\n", pre, T, v)
		fmt.Fprintf(&sb, "\tk := append(m, %sIn{}, %sIn{})\n\tk[0].A[0] = %s(77)\n\temit(int(l[0].A[0]))\n\temit(len(k))\n", pre, pre, T)
		fmt.Fprintf(&sb, "\temit(int(k[id(%d)].S[id(%d)]))\n", i2, i1)
	case 4: // new, pointer to array indexing and slicing, copy with overlap on an array
		fmt.Fprintf(&sb, "\tp := new([%d]%s)\n\tfor i := 0; i < %d; i++ { p[i] = %s(i + 1) }\n", n+2, T, n+2, T)
		if copyStmtOnly {
			fmt.Fprintf(&sb, "\tcopy(p[1:], p[:])\n\tfor i := 0; i < %d; i++ { emit(int(p[i])) }\n", n+2)
		} else {
			fmt.Fprintf(&sb, "\temit(copy(p[1:], p[:]))\n\tfor i := 0; i < %d; i++ { emit(int(p[i])) }\n", n+2)
		}
		fmt.Fprintf(&sb, "\ts := p[id(%d):id(%d)]\n\temit(len(s))\n\temit(cap(s))\n\temit(int(p[id(%d)]))\n", i2, i1+1, i1+2)
	case 5: // nested composite literal with elided types, map of slices
		fmt.Fprintf(&sb, "\tm := map[string][]%sIn{\"a\": {{S: []%s{%s(4)}}, {}}, \"b\": nil}\n", pre, T, T)
		fmt.Fprintf(&sb, "\temit(len(m[\"a\"]))\n\temit(len(m[\"b\"]))\n\temit(len(m[\"c\"]))\n\temit(int(m[\"a\"][0].S[0]))\n\temit(int(m[\"a\"][id(%d)].A[id(%d)]))\n", i2, i1)
	default: // 2-D arrays and slices of slices
		fmt.Fprintf(&sb, "\tvar g [2][%d]%s\n\th := g\n\th[1][0] = %s(%d)\n\temit(int(g[1][0]))\n\temit(int(h[1][0]))\n", n, T, T, v)
		fmt.Fprintf(&sb, "\tss := [][]%s{{%s(1)}, nil, {%s(2), %s(3)}}\n\temit(len(ss[1]))\n\temit(int(ss[id(%d)][id(%d)]))\n\temit(int(g[id(%d)][id(%d)]))\n", T, T, T, T, i2+1, i2, i2, i1)
	}
	fmt.Fprintf(&sb, "\tmark(1)\n}\n")
	p.Types = tb.String()
	p.Src = sb.String()
	return p
}

// ---------- compile-time cases ----------
func genCt(r *vh.Rng, idx int) *prog {
	c := &ctc{Slice: r.Bool(), Kind: []string{"slice", "array", "ptrarray", "conststring", "string"}[r.Intn(5)], N: 3}
	pick := func() (bool, int64) { return r.Chance(1, 4), around(r, 0, c.N) }
	c.HasLo = true
	c.VarLo, c.LoV = pick()
	if c.Slice {
		c.HasLo = r.Chance(3, 4)
		c.HasHi = r.Chance(3, 4)
		c.VarHi, c.HiV = pick()
		if c.HasHi && c.HasLo && c.Kind != "conststring" && c.Kind != "string" && r.Chance(1, 3) {
			c.HasMx = true
			c.VarMx, c.MxV = pick()
		}
	}
	arg := func(has, isvar bool, v int64) string {
		if !has {
			return ""
		}
		if isvar {
			return fmt.Sprintf("id(%d)", v)
		}
		return fmt.Sprint(v)
	}
	decl := map[string]string{"slice": "x := []int{1, 2, 3}", "array": "var x [3]int", "ptrarray": "var y [3]int\n\tx := &y",
		"conststring": "const x = \"abc\"", "string": "x := \"abc\" + ids(\"\")"}[c.Kind]
	var e string
	if c.Slice {
		e = fmt.Sprintf("x[%s:%s", arg(c.HasLo, c.VarLo, c.LoV), arg(c.HasHi, c.VarHi, c.HiV))
		if c.HasMx {
			e += ":" + arg(true, c.VarMx, c.MxV)
		}
		e += "]"
		if c.Kind == "string" || c.Kind == "conststring" {
			e = "emits(" + e + ")"
		} else {
			e = "emit(len(" + e + "))"
		}
	} else {
		e = fmt.Sprintf("emit(int(x[%s]))", arg(true, c.VarLo, c.LoV))
	}
	p := &prog{Kind: "ct", Idx: idx, Ct: c}
	p.Src = fmt.Sprintf("func P%d_run() {\n\tmark(0)\n\t%s\n\t_ = x\n\t%s\n\tmark(1)\n}\n", idx, decl, e)
	return p
}

// ---------- running ----------
type obs struct {
	out   []string
	caps  []int
	mark  int
	panic string // enum, "" if none
	cerr  string // compile error
}

func classify(p interface{}) string {
	s := fmt.Sprint(p)
	switch {
	case strings.Contains(s, "nil map"):
		return "panic:nilmap"
	case strings.Contains(s, "slice bounds") || strings.Contains(s, "slice index out of bounds") || strings.Contains(s, "Slice3") ||
		strings.Contains(s, "Slice: ") || strings.Contains(s, "string slice") || strings.Contains(s, "slice of"):
		return "panic:slicebounds"
	case strings.Contains(s, "index out of range") || strings.Contains(s, "out of range"):
		if strings.Contains(s, "makeslice") {
			return "panic:makelen"
		}
		return "panic:index"
	case strings.Contains(s, "nil pointer") || strings.Contains(s, "invalid memory") || strings.Contains(s, "zero Value") || strings.Contains(s, "nil Value"):
		return "panic:nilptr"
	case strings.Contains(s, "makeslice"):
		return "panic:makelen"
	}
	return "panic:other(" + firstLine(s) + ")"
}
func firstLine(s string) string {
	if i := strings.IndexByte(s, '\n'); i >= 0 {
		s = s[:i]
	}
	if len(s) > 160 {
		s = s[:160]
	}
	return s
}

type runner struct {
	ir  *fast.Interp
	cur *obs
}

func newRunner() *runner {
	r := &runner{ir: fast.New()}
	r.ir.Comp.Globals.Stderr = io.Discard
	r.ir.Comp.Globals.Stdout = io.Discard
	r.ir.DeclFunc("id", func(x int) int { return x })
	r.ir.DeclFunc("ids", func(x string) string { return x })
	r.ir.DeclFunc("mark", func(i int) { r.cur.mark = i })
	r.ir.DeclFunc("obscap", func(c int) { r.cur.caps = append(r.cur.caps, c) })
	r.ir.DeclFunc("emit", func(x int) { r.cur.out = append(r.cur.out, fmt.Sprint(x)) })
	r.ir.DeclFunc("emitb", func(x bool) { r.cur.out = append(r.cur.out, fmt.Sprint(x)) })
	r.ir.DeclFunc("emits", func(x string) { r.cur.out = append(r.cur.out, "s:"+x) })
	return r
}

func (r *runner) exec(p *prog) *obs {
	o := &obs{mark: -1}
	r.cur = o
	decls := []string{}
	for _, l := range strings.Split(strings.TrimSpace(p.Types), "\n") {
		if l != "" {
			decls = append(decls, l)
		}
	}
	decls = append(decls, p.Src)
	for _, d := range decls {
		if e := vh.Catch(func() { r.ir.Eval(d) }); e != nil {
			o.cerr = firstLine(fmt.Sprint(e))
			return o
		}
	}
	name := fmt.Sprintf("P%d_run", p.Idx)
	if e := vh.Catch(func() { r.ir.Eval(name + "()") }); e != nil {
		o.panic = classify(e)
	}
	return o
}

const oraclePrelude = `package %s

import (
	"fmt"
	"strings"
)

var Out []string
var Caps []int
var Mark = -1

func id(x int) int        { return x }
func ids(x string) string { return x }
func mark(i int)          { Mark = i }
func obscap(c int)        { Caps = append(Caps, c) }
func emit(x int)          { Out = append(Out, fmt.Sprint(x)) }
func emitb(x bool)        { Out = append(Out, fmt.Sprint(x)) }
func emits(x string)      { Out = append(Out, "s:"+x) }

func Run() (p string) {
	defer func() {
		if e := recover(); e != nil {
			s := fmt.Sprint(e)
			switch {
			case strings.Contains(s, "nil map"):
				p = "panic:nilmap"
			case strings.Contains(s, "slice bounds"):
				p = "panic:slicebounds"
			case strings.Contains(s, "makeslice"):
				p = "panic:makelen"
			case strings.Contains(s, "index out of range"):
				p = "panic:index"
			case strings.Contains(s, "nil pointer") || strings.Contains(s, "invalid memory"):
				p = "panic:nilptr"
			default:
				p = "panic:other(" + s + ")"
			}
		}
	}()
	P%d_run()
	return ""
}

`

func buildOracle(a *vh.Args, progs []*prog) (map[int]*obs, error) {
	dir, _ := filepath.Abs(a.Path("oracle"))
	os.RemoveAll(dir)
	os.MkdirAll(dir, 0o755)
	os.WriteFile(filepath.Join(dir, "go.mod"), []byte("module c08oracle\n\ngo 1.18\n"), 0o644)
	var imports, calls strings.Builder
	for _, p := range progs {
		pkg := fmt.Sprintf("p%d", p.Idx)
		os.MkdirAll(filepath.Join(dir, pkg), 0o755)
		os.WriteFile(filepath.Join(dir, pkg, "p.go"), []byte(fmt.Sprintf(oraclePrelude, pkg, p.Idx)+p.Types+"\n"+p.Src), 0o644)
		fmt.Fprintf(&imports, "\t\"c08oracle/%s\"\n", pkg)
		fmt.Fprintf(&calls, "\tenc.Encode(map[string]interface{}{\"idx\": %d, \"panic\": %s.Run(), \"out\": %s.Out, \"caps\": %s.Caps, \"mark\": %s.Mark})\n", p.Idx, pkg, pkg, pkg, pkg)
	}
	main := "package main\n\nimport (\n\t\"encoding/json\"\n\t\"os\"\n" + imports.String() + ")\n\nfunc main() {\n\tenc := json.NewEncoder(os.Stdout)\n" + calls.String() + "}\n"
	os.WriteFile(filepath.Join(dir, "main.go"), []byte(main), 0o644)
	env := append(os.Environ(), "GOFLAGS=-mod=mod", "GOPROXY=off", "GOSUMDB=off", "GOTOOLCHAIN=local")
	cmd := exec.Command("go", "build", "-o", "oracle.bin", ".")
	cmd.Dir, cmd.Env = dir, env
	if out, err := cmd.CombinedOutput(); err != nil {
		return nil, fmt.Errorf("go build of the oracle batch failed: %v\n%s", err, firstN(string(out), 3000))
	}
	ctx, cancel := context.WithTimeout(context.Background(), 3*time.Minute)
	defer cancel()
	outb, err := exec.CommandContext(ctx, filepath.Join(dir, "oracle.bin")).Output()
	if err != nil {
		return nil, fmt.Errorf("oracle run failed: %v", err)
	}
	res := map[int]*obs{}
	dec := json.NewDecoder(strings.NewReader(string(outb)))
	for dec.More() {
		var o struct {
			Idx   int
			Panic string
			Out   []string
			Caps  []int
			Mark  int
		}
		if err := dec.Decode(&o); err != nil {
			return nil, err
		}
		res[o.Idx] = &obs{out: o.Out, caps: o.Caps, mark: o.Mark, panic: o.Panic}
	}
	return res, nil
}
func firstN(s string, n int) string {
	if len(s) > n {
		return s[:n]
	}
	return s
}

// goTypesRejects type-checks the program with go/types
func goTypesRejects(p *prog) bool {
	src := "package p\nfunc id(int) int\nfunc ids(string) string\nfunc mark(int)\nfunc emit(int)\nfunc emits(string)\nfunc emitb(bool)\nfunc obscap(int)\n" + p.Types + p.Src
	fset := token.NewFileSet()
	f, err := parser.ParseFile(fset, "p.go", src, 0)
	if err != nil {
		return true
	}
	conf := types.Config{Error: func(error) {}}
	_, err = conf.Check("p", fset, []*ast.File{f}, nil)
	return err != nil
}

// ---------- Coq rendering ----------
func z(v int64) string { return vh.CoqZ(v) }
func zl(vs []int64) string {
	var s []string
	for _, v := range vs {
		s = append(s, z(v))
	}
	return vh.CoqList(s, "Z")
}
func (o op) coq() string {
	mx := "None"
	if o.HasMax {
		mx = "(Some " + z(o.C) + ")"
	}
	switch o.K {
	case "make":
		return fmt.Sprintf("OMake %d %s %s", o.S, z(o.A), z(o.B))
	case "nil":
		return fmt.Sprintf("ONil %d", o.S)
	case "lit":
		return fmt.Sprintf("OLit %d %s", o.S, zl(o.Vs))
	case "slice":
		return fmt.Sprintf("OSlice %d %d %s %s %s", o.D, o.S, z(o.A), z(o.B), mx)
	case "slicearr":
		return fmt.Sprintf("OSliceArr %d %d %s %s %s", o.D, o.S, z(o.A), z(o.B), mx)
	case "get":
		return fmt.Sprintf("OGet %d %s", o.S, z(o.A))
	case "set":
		return fmt.Sprintf("OSet %d %s %s", o.S, z(o.A), z(o.B))
	case "len":
		return fmt.Sprintf("OLen %d", o.S)
	case "cap":
		return fmt.Sprintf("OCap %d", o.S)
	case "append":
		return fmt.Sprintf("OAppend %d %d %s %s", o.D, o.S, zl(o.Vs), z(o.NewCap))
	case "copy":
		return fmt.Sprintf("OCopy %d %d", o.D, o.S)
	case "arrassign":
		return fmt.Sprintf("OArrAssign %d %d", o.D, o.S)
	case "arrset":
		return fmt.Sprintf("OArrSet %d %s %s", o.S, z(o.A), z(o.B))
	case "arrget":
		return fmt.Sprintf("OArrGet %d %s", o.S, z(o.A))
	case "mmake":
		return fmt.Sprintf("OMap %d MMake", o.S)
	case "mnil":
		return fmt.Sprintf("OMap %d MNil", o.S)
	case "mset":
		return fmt.Sprintf("OMap %d (MSet %s %s)", o.S, z(o.A), z(o.B))
	case "mget":
		return fmt.Sprintf("OMap %d (MGet %s)", o.S, z(o.A))
	case "mgetok":
		return fmt.Sprintf("OMap %d (MGetOk %s)", o.S, z(o.A))
	case "mdel":
		return fmt.Sprintf("OMap %d (MDel %s)", o.S, z(o.A))
	case "mlen":
		return fmt.Sprintf("OMap %d MLen", o.S)
	}
	return "?"
}

func parseVal(elem, s string) (int64, bool) {
	if strings.HasPrefix(s, "s:") {
		s = s[2:]
		if s == "" {
			return 0, true
		}
		v, err := strconv.ParseInt(strings.TrimPrefix(s, "s"), 10, 64)
		return v, err == nil
	}
	v, err := strconv.ParseInt(s, 10, 64)
	return v, err == nil
}

// observed results of a run case as Coq terms (ops executed = mark; the op at index mark panicked if o.panic != "")
func (p *prog) coqCase(o *obs) (string, bool) {
	var res []string
	oi, ci := 0, 0
	nexec := o.mark
	if o.panic != "" {
		nexec = o.mark + 1
	}
	var ops []string
	for i := 0; i < len(p.Ops) && i < nexec; i++ {
		q := p.Ops[i]
		if q.K == "append" {
			if ci < len(o.caps) {
				q.NewCap = int64(o.caps[ci])
				ci++
			}
		}
		ops = append(ops, q.coq())
		if o.panic != "" && i == o.mark {
			enum := map[string]string{"panic:index": "PIndex", "panic:slicebounds": "PSliceBounds", "panic:nilmap": "PNilMap", "panic:nilptr": "PNilPtr", "panic:makelen": "PMakeLen"}[o.panic]
			if enum == "" {
				return "", false
			}
			res = append(res, "RPanic "+enum)
			break
		}
		switch q.produces {
		case "val":
			if oi >= len(o.out) {
				return "", false
			}
			v, ok := parseVal(p.Elem, o.out[oi])
			if !ok {
				return "", false
			}
			oi++
			res = append(res, "RVal "+z(v))
		case "val2":
			if oi+1 >= len(o.out) {
				return "", false
			}
			v, ok := parseVal(p.Elem, o.out[oi])
			if !ok {
				return "", false
			}
			res = append(res, fmt.Sprintf("RVal2 %s %s", z(v), o.out[oi+1]))
			oi += 2
		default:
			res = append(res, "RUnit")
		}
	}
	return fmt.Sprintf("CRun %d %d %d %d %d %s %s", p.Idx, p.NA, p.ALen, p.NS, p.NM, vh.CoqList(ops, "op"), vh.CoqList(res, "res")), true
}

func optZ(has, isvar bool, v int64) string {
	if !has || isvar {
		return "None"
	}
	return "(Some " + z(v) + ")"
}
func (c *ctc) coq(idx int, gom, gor bool) string {
	k := map[string]string{"slice": "KSlice", "array": "(KArray 3)", "ptrarray": "(KPtrArray 3)", "conststring": "(KConstString 3)", "string": "KString"}[c.Kind]
	if c.Slice {
		// model encoding: None = a variable bound; an absent bound is the constant it stands for (lo: 0, hi: the length
		// of an array / pointer to array / constant string), None when it has no compile-time value (see coq/C08/Model.v)
		lo, hi := optZ(c.HasLo, c.VarLo, c.LoV), optZ(c.HasHi, c.VarHi, c.HiV)
		if !c.HasLo {
			lo = "(Some " + z(0) + ")"
		}
		if !c.HasHi && (c.Kind == "array" || c.Kind == "ptrarray" || c.Kind == "conststring") {
			hi = "(Some " + z(c.N) + ")"
		}
		return fmt.Sprintf("CCt %d (CTSlice %s %s %s %s %s %s)", idx, k, lo, hi, optZ(c.HasMx, c.VarMx, c.MxV), vh.CoqBool(gom), vh.CoqBool(gor))
	}
	return fmt.Sprintf("CCt %d (CTIndex %s %s %s %s)", idx, k, optZ(true, c.VarLo, c.LoV), vh.CoqBool(gom), vh.CoqBool(gor))
}

func srcHash(s string) string {
	h := sha256.Sum256([]byte(s))
	return hex.EncodeToString(h[:6])
}

func main() {
	a := vh.ParseArgs()
	rng := vh.NewRng(a.Seed)
	rep := vh.NewReport(a, "run: straight-line programs of 6-19 operations over 2 array variables [3..6]T, 4 slice variables []T and 2 map variables map[int]T, "+
		"T random in int/int8/int64/uint16/uint8/float64/string, every index and bound drawn around 0, len-1, len, cap (+-1) and passed through a compiled identity function (non constant); "+
		"extra: 7 templates over nested structs/arrays/slices/maps/pointers with keyed, positional, nested and elided composite literals, &T{}, new, nil dereference, nil-map write, overlapping copy; "+
		"ct: indexing/slicing of slice/array/pointer-to-array/constant string/string with constant or variable operands around the length; "+
		"fresh: one source occurrence of an allocating expression (element-less/keyed/positional/nested/elided composite literals of struct, array, slice, map type with and without &, new, make, address of a local, slice of a literal; every site of the table in fresh.go at least twice per run) "+
		"evaluated 2..4 times in one of 23 contexts (loop, range, goto loop, function/closure/method called repeatedly, recursion; result defined, assigned, stored in array/map/field/channel, passed, boxed, returned), all results kept alive, "+
		"then written through one at a time and all read after every write, pointer/channel identities compared; "+
		"cidx: a constant index/key applied directly to a composite literal O{e0, e1}[c] inside a function body, table of cidx.go enumerated (element type int64 / plain struct / SELF-REFERENTIAL struct with *T, []T, map[string]T link, declared freshly per section; "+
		"held as []T, [1]T, []*T, map[string]T, T, *T; outer []E, [2]E, map[string]E, map[int]E; inner types written or elided; nil pointer elements; value returned / typed var / := / argument / assigned / struct field / closure result), window rotated by the seed (thorough: the whole table); "+
		"addr: one program per int-like kind (16): functions returning &x of a local (owned by the function scope / by a block) taken from inside 0..4 nested Env-owning scopes (blocks with locals, for/if/switch headers with :=), "+
		"each called twice with other calls in between, pointers compared, read, written independently; "+
		"bounds: 28 programs, one per combination of FORMS of the slice bounds (2-index: lo, hi in omitted/constant/id(v)/local variable; 3-index: lo in omitted/constant/id(v), hi and max in constant/id(v)), each applying it with every bound value in 0, 2, len, len+1, cap, cap+1 "+
		"to slices with cap 6 > len 3 (re-sliced literal, append into a larger make, 3-index slice), a full slice, an array variable, a pointer to an array and a string variable; every case under its own recover, showing len, cap, elements, then the backing array after an append to the result; "+
		"a run case is non-trivial when it executed >= 3 operations of which >= 1 slicing/append/copy/map operation; distinct by SHA-256 of the source")
	nRun, nExtra, nCt, perShard := 200, 80, 120, 100
	nFresh := 2 * ((len(fsites) + 2) / 3) // 3 sites per program: every site is used twice
	const cidxSec = 6
	nCidx := 40 // 240 of the ~1500 combinations of cidx.go per quick run, window rotated by the seed
	if a.Thorough() {
		// the compiled-Go oracle is one package per program: 6000/1500/2500 programs took 55 min to build on the loaded
		// machine (0.33 s per package); 10x the quick tier stays near 20 min there (~3 min on an idle one)
		nRun, nExtra, nCt, perShard = 2000, 800, 1200, 500
		nFresh = 500                                        // (t-b, thorough-tier sizing) every program is one more oracle package: keep the total near 4500
		nCidx = (len(cidxCombos()) + cidxSec - 1) / cidxSec // the whole table
	}
	if a.N > 0 {
		nRun = a.N
	}
	var progs []*prog
	if dir := os.Getenv("VERIF_DIR"); dir != "" && a.Replay == "" {
		files, _ := filepath.Glob(filepath.Join(dir, "corpus", "C08", "*.json"))
		sort.Strings(files)
		for _, f := range files {
			var p prog
			if b, err := os.ReadFile(f); err == nil && json.Unmarshal(b, &p) == nil && p.Src != "" {
				p.Idx = len(progs)
				p.Corpus = filepath.Base(f)
				p.Kind = "extra"
				progs = append(progs, &p)
			}
		}
	}
	if a.Replay != "" {
		var rf struct {
			Failure struct {
				Input prog `json:"input"`
			} `json:"failure"`
			prog
		}
		b, err := os.ReadFile(a.Replay)
		if err != nil || json.Unmarshal(b, &rf) != nil {
			fmt.Println("cannot read replay file", a.Replay)
			os.Exit(2)
		}
		p := rf.Failure.Input
		if p.Src == "" {
			p = rf.prog
		}
		if p.Kind == "run" {
			p.Kind = "extra" // replayed for the direct oracle
		}
		progs = []*prog{&p}
		nRun, nExtra, nCt, nFresh, nCidx = 0, 0, 0, 0, 0
	}
	run := newRunner()
	copyOK := vh.Catch(func() { run.ir.Eval("func Canary1() int { a := []int{1}; return copy(a, a) }") }) == nil
	argOK := vh.Catch(func() { run.ir.Eval("func Canary2(m map[int]string) { emits(m[1]) }") }) == nil
	rep.Extra["generator_avoids_known_finding_classes"] = map[string]bool{"copy_result_used": !copyOK, "comma_ok_expression_as_only_argument": !argOK}
	wrapArg = !argOK
	copyStmtOnly = !copyOK
	for i := 0; i < nRun; i++ {
		p := genRun(rng.Fork(), len(progs))
		if !copyOK { // known finding C08-copy-result: keep the generator out of that class while it reproduces
			var ops []op
			for _, o := range p.Ops {
				if o.K != "copy" {
					ops = append(ops, o)
				}
			}
			p.Ops = ops
			p.render()
		}
		progs = append(progs, p)
	}
	for i := 0; i < nExtra; i++ {
		progs = append(progs, genExtra(rng.Fork(), len(progs)))
	}
	for i := 0; i < nCt; i++ {
		progs = append(progs, genCt(rng.Fork(), len(progs)))
	}
	// canary of finding C08-3 (a [...]T{...} literal nested in another composite literal is rejected: "invalid type for
	// composite literal: <[0]T> [...]T, expecting [3]T"): while it is present the fresh-site generator writes [3]T
	// instead of [...]T (the exact input is in corpus/C08: 03_ellipsis_array_literal_nested.json)
	if e := vh.Catch(func() { fast.New().Eval("[][3]int64{[...]int64{1, 2, 3}}") }); e != nil {
		avoidEllipsisLit = true
	}
	rep.Extra["defect_present:ellipsis-array-literal-nested"] = avoidEllipsisLit
	// allocation-site freshness (fresh.go); own PRNG stream so that the streams above keep their seeds
	frng := vh.NewRng(a.Seed*7919 + 8)
	for i := 0; i < nFresh; i++ {
		p, feats := genFresh(frng.Fork(), len(progs), int(a.Seed%uint64(len(fsites)))+3*i, 3)
		progs = append(progs, p)
		for _, f := range feats {
			rep.Dist(f)
		}
	}
	// address matrix (addr.go): one program per int-like kind, &x of locals from depth 0..4; deterministic, the seed only
	// rotates the layer shapes (4 rotations in the thorough tier)
	if a.Replay == "" {
		rots := 1
		if a.Thorough() {
			rots = 4
		}
		for r := 0; r < rots; r++ {
			for ki, k := range addrKinds {
				p, feats := genAddr(len(progs), k, int(a.Seed%4)+ki+r)
				progs = append(progs, p)
				for _, f := range feats {
					rep.Dist(f)
				}
			}
		}
	}
	// bound-form matrix (bounds.go): every combination of omitted / constant / call / local-variable slice bounds on
	// slices with cap > len, arrays, pointers to arrays, strings; deterministic, the seed only rotates the element kind
	if a.Replay == "" {
		bp, feats := genBoundsAll(len(progs), a.Seed)
		progs = append(progs, bp...)
		for _, f := range feats {
			rep.Dist(f)
		}
	}
	// canaries of finding C08-4 (exact inputs: corpus/C08/04_*.json, 05_*.json): while they reproduce, the cidx generator
	// writes a VARIABLE index on literals with self-referential element type resp. a non-nil pointer element
	avoidConstIdxRec = vh.Catch(func() {
		ir := fast.New()
		ir.Eval("type L2 struct { First int; Rest *L2 }")
		ir.Eval("func r5() []L2 { return [][]L2{[]L2{L2{1, nil}}}[0] }")
		ir.Eval("r5()")
	}) != nil
	avoidNilPtrRec = vh.Catch(func() {
		ir := fast.New()
		ir.Eval("type L2 struct { First int; Rest *L2 }")
		ir.Eval("[]*L2{nil}")
	}) != nil
	rep.Extra["defect_present:constant-index-of-literal-with-self-referential-element-type"] = avoidConstIdxRec
	rep.Extra["defect_present:nil-element-of-pointer-to-self-referential-struct"] = avoidNilPtrRec
	crng := vh.NewRng(a.Seed*7919 + 84) // own PRNG stream
	for i := 0; i < nCidx; i++ {
		p, feats := genCidx(crng.Fork(), len(progs), int(a.Seed%uint64(len(cidxCombos())))+cidxSec*i, cidxSec)
		progs = append(progs, p)
		for _, f := range feats {
			rep.Dist(f)
		}
	}
	// corpus programs keep their own function name: re-point Idx-based name
	for _, p := range progs {
		if p.Corpus != "" || a.Replay != "" {
			if i := strings.Index(p.Src, "_run()"); i > 0 {
				j := strings.LastIndex(p.Src[:i], "P")
				fmt.Sscanf(p.Src[j+1:i], "%d", &p.Idx)
			}
		}
	}
	// go/types verdicts; programs rejected by go/types cannot be compiled as oracle
	rejected := map[int]bool{}
	var compilable []*prog
	for _, p := range progs {
		if p.Kind == "ct" {
			rejected[p.Idx] = goTypesRejects(p)
		}
		if !rejected[p.Idx] {
			compilable = append(compilable, p)
		}
	}
	want, err := buildOracle(a, compilable)
	if err != nil {
		rep.Fail(vh.Failure{Key: "oracle-build", What: "the compiled-Go oracle could not be built/run (generator bug)", Got: err.Error()})
		rep.Write()
		return
	}
	cw := vh.NewCases(a, "From Coq Require Import List ZArith.\nFrom Verif Require Import C08.Model.\nImport ListNotations.\nOpen Scope Z_scope.", "case", "mismatches", perShard)
	wd := vh.NewWatchdog(rep, 180*time.Second) // generous: load average on the shared machine reaches 100+
	registered := registeredKeys(os.Getenv("VERIF_DIR"))
	deferred := []string{}
	for _, p := range progs {
		wd.Beat(p)
		key := func(what string) string {
			if p.Corpus != "" {
				return "corpus:" + p.Corpus
			}
			return "prog:" + srcHash(p.Types+p.Src) + ":" + what
		}
		fail := func(what string, got, want interface{}) {
			if p.Corpus != "" && p.Defer && !registered[key(what)] {
				deferred = append(deferred, fmt.Sprintf("%s: %s: got %v want %v", key(what), what, got, want))
				return
			}
			rep.Fail(vh.Failure{Key: key(what), What: what, Input: p, Got: got, Want: want})
		}
		g := run.exec(p)
		w := want[p.Idx]
		rep.Dist("kind:" + p.Kind)
		if p.Kind == "ct" {
			gor := rejected[p.Idx]
			gom := g.cerr != ""
			rep.Dist(fmt.Sprintf("ct:gomacro_rejects=%v,go_rejects=%v", gom, gor))
			if gom && !gor {
				fail("gomacro rejects at compile time an expression that Go accepts", g.cerr, "accepted by go/types")
			}
			if !gom && gor && g.panic == "" {
				fail("expression rejected by Go (constant index out of range) evaluates to a value in gomacro", g.out, "a panic")
			}
			if !gom && !gor {
				if g.panic != w.panic || strings.Join(g.out, ",") != strings.Join(w.out, ",") {
					fail("gomacro differs from compiled Go", fmt.Sprint(g.panic, " ", g.out), fmt.Sprint(w.panic, " ", w.out))
				}
			}
			cw.Add(p.Ct.coq(p.Idx, gom, gor))
			rep.Count(p.Src, true)
			rep.CaseInput(p.Idx, p)
			continue
		}
		if g.cerr != "" {
			fail("gomacro rejects a program that go build accepts", g.cerr, "compiles")
			continue
		}
		same := g.panic == w.panic && g.mark == w.mark && strings.Join(g.out, ",") == strings.Join(w.out, ",") && fmt.Sprint(g.caps) == fmt.Sprint(w.caps)
		if !same && p.Kind == "bounds" {
			fail("gomacro differs from compiled Go", boundsFirstDiff(p, g.out, w.out), fmt.Sprintf("panic=%q after op %d out=%v", w.panic, w.mark, w.out))
		} else if !same {
			fail("gomacro differs from compiled Go", fmt.Sprintf("panic=%q after op %d out=%v caps=%v", g.panic, g.mark, g.out, g.caps),
				fmt.Sprintf("panic=%q after op %d out=%v caps=%v", w.panic, w.mark, w.out, w.caps))
		}
		if w.panic != "" {
			rep.Dist("outcome:" + strings.SplitN(w.panic, "(", 2)[0])
		} else {
			rep.Dist("outcome:normal")
		}
		if p.Kind == "run" {
			rep.Dist("elem:" + p.Elem)
			if c, ok := p.coqCase(g); ok {
				cw.Add(c)
			} else if same {
				fail("observation cannot be rendered for the model", fmt.Sprint(g.panic, g.out), nil)
			}
			inter := 0
			for i := 0; i < len(p.Ops) && i <= g.mark; i++ {
				switch p.Ops[i].K {
				case "slice", "slicearr", "append", "copy", "mset", "mget", "mgetok", "mdel":
					inter++
				}
				rep.Dist("op:" + p.Ops[i].K)
			}
			rep.Count(p.Src, g.mark >= 3 && inter >= 1)
			if p.Idx%61 == 7 {
				rep.Sample(map[string]interface{}{"source": p.Src, "out": g.out, "panic": g.panic})
			}
		} else {
			rep.Count(p.Types+p.Src, true)
			if p.Idx%97 == 3 {
				rep.Sample(map[string]interface{}{"source": p.Types + p.Src, "out": g.out, "panic": g.panic})
			}
		}
		rep.CaseInput(p.Idx, p)
		if a.Replay != "" {
			fmt.Println("gomacro    :", g.panic, g.out, g.caps, "cerr:", g.cerr)
			fmt.Println("compiled Go:", w.panic, w.out, w.caps)
		}
	}
	cw.Close()
	rep.Extra["deferred_corpus_failures"] = deferred
	rep.Write()
}

package main

// fresh.go: allocation-site freshness.
//
// Go: every EVALUATION of a composite literal, of new(T), of make(...) and of a variable declaration creates a new
// variable / backing array / map / channel; values of struct and array type are copied when stored.  A "fresh"
// program evaluates ONE source occurrence of an allocating expression (a site) k = 2..4 times in some evaluation
// context (loop body, function / closure / method called repeatedly, recursion, goto loop ...), keeps all k results
// alive in a holder, then writes through each result in turn and reads all of them after every write, and compares
// the identities (==) of pointers and channels.  Direct oracle: the same program compiled by go build.
//
// sites    : element-less, keyed, positional, nested and elided composite literals of struct / array / slice / map type
//            with and without &, new, make, address of a local initialised from a literal, slices of literals
// contexts : how the site is evaluated repeatedly and how its result travels to the holder (define, var, assignment,
//            array / map / struct-field / channel store, call argument, interface box, (multi-)return)
// Every site is used at least once per run (round robin, rotated by the seed), the context is random.

import (
	"fmt"
	"strings"

	"verifh/vh"
)

type fsite struct {
	cat string // category: decides the handle type and the write / read / identity operations
	pre string // statements evaluated before the expression (may declare x)
	e   string // the allocating expression; $N $O struct types, $T element type, i the evaluation counter (int)
}

// handle type per category
var fcatType = map[string]string{
	"ptrS": "*$N", "valS": "$N", "ptrO": "*$O", "valO": "$O", "slc": "[]$T", "slcN": "[]$N", "slcP": "[]*$N",
	"mp": "map[string]$T", "mpP": "map[string]*$N", "ptrB": "*$T", "ptrA": "*[3]$T", "valA": "[3]$T", "chn": "chan $T",
	"ptrSl": "*[]$T", "ptrMp": "*map[string]$T", "ptrAn": "*struct{ V $T; A [3]$T }", "valAn": "struct{ V $T; A [3]$T }",
}

var fsites = []fsite{
	// pointer to struct
	{"ptrS", "", "&$N{}"},
	{"ptrS", "", "&($N{})"},
	{"ptrS", "", "&$N{V: $T(i)}"},
	{"ptrS", "", "&$N{V: $T(7)}"},
	{"ptrS", "", "&$N{$T(i), nil, nil, [3]$T{}}"},
	{"ptrS", "", "&$N{A: [3]$T{}}"},
	{"ptrS", "", "&$N{S: []$T{}}"},
	{"ptrS", "", "&$N{M: map[string]$T{}}"},
	{"ptrS", "", "new($N)"},
	{"ptrS", "x := $N{}", "&x"},
	{"ptrS", "var x $N", "&x"},
	{"ptrS", "x := $N{V: $T(i)}", "&x"},
	{"ptrS", "var x = $N{}", "&x"},
	// struct value
	{"valS", "", "$N{}"},
	{"valS", "", "($N{})"},
	{"valS", "", "$N{V: $T(i)}"},
	{"valS", "", "$N{A: [3]$T{}}"},
	{"valS", "", "*new($N)"},
	{"valS", "", "*&$N{}"},
	// struct with nested struct / pointer / slices of structs
	{"ptrO", "", "&$O{}"},
	{"ptrO", "", "new($O)"},
	{"ptrO", "", "&$O{In: $N{}}"},
	{"ptrO", "", "&$O{P: &$N{}}"},
	{"ptrO", "", "&$O{P: new($N)}"},
	{"ptrO", "", "&$O{L: []$N{{}}}"},
	{"ptrO", "", "&$O{PL: []*$N{{}}}"},
	{"ptrO", "", "&$O{X: $T(i), In: $N{}, P: &$N{}, L: []$N{{}, {}}, PL: []*$N{{}, {V: $T(3)}}}"},
	{"valO", "", "$O{}"},
	{"valO", "", "$O{In: $N{}}"},
	{"valO", "", "$O{P: &$N{}}"},
	{"valO", "", "$O{L: []$N{{}}, PL: []*$N{{}}}"},
	// slices
	{"slc", "", "[]$T{}"},
	{"slc", "", "[]$T{$T(1), $T(2)}"},
	{"slc", "", "[]$T{$T(i), $T(i)}"},
	{"slc", "", "[]$T{2: $T(5)}"},
	{"slc", "", "make([]$T, 2)"},
	{"slc", "", "make([]$T, 0, 2)"},
	{"slc", "", "make([]$T, id(1), id(3))"},
	{"slc", "", "append([]$T(nil), $T(1))"},
	{"slc", "", "[]$T{$T(1), $T(2), $T(3)}[:1]"},
	{"slc", "", "new([3]$T)[:]"},
	{"slc", "", "(&[3]$T{})[0:2]"},
	{"slc", "var x [3]$T", "x[:]"},
	{"slcN", "", "[]$N{{}}"},
	{"slcN", "", "[]$N{{}, {V: $T(i)}}"},
	{"slcN", "", "make([]$N, 1)"},
	{"slcP", "", "[]*$N{{}}"},
	{"slcP", "", "[]*$N{&$N{}}"},
	{"slcP", "", "[]*$N{{}, {}}"},
	{"slcP", "", "[]*$N{new($N)}"},
	{"slcP", "", "[]*$N{{V: $T(i)}}"},
	// maps
	{"mp", "", "map[string]$T{}"},
	{"mp", "", "map[string]$T{\"k\": $T(1)}"},
	{"mp", "", "make(map[string]$T)"},
	{"mp", "", "make(map[string]$T, 4)"},
	{"mpP", "", "map[string]*$N{\"k\": {}}"},
	{"mpP", "", "map[string]*$N{\"k\": &$N{}}"},
	{"mpP", "", "map[string]*$N{\"k\": new($N)}"},
	// pointers to basic values and arrays, array values
	{"ptrB", "", "new($T)"},
	{"ptrB", "x := $T(i)", "&x"},
	{"ptrB", "var x $T", "&x"},
	{"ptrA", "", "new([3]$T)"},
	{"ptrA", "", "&[3]$T{}"},
	{"ptrA", "", "&[3]$T{$T(1)}"},
	{"ptrA", "", "&[...]$T{$T(1), $T(2), $T(3)}"},
	{"ptrA", "x := [3]$T{}", "&x"},
	{"valA", "", "[3]$T{}"},
	{"valA", "", "[...]$T{$T(1), $T(2), $T(3)}"},
	{"valA", "", "*new([3]$T)"},
	// channels, pointers to slices and maps, anonymous struct types
	{"chn", "", "make(chan $T, 2)"},
	{"ptrSl", "", "&[]$T{}"},
	{"ptrSl", "", "&[]$T{$T(1)}"},
	{"ptrSl", "", "new([]$T)"},
	{"ptrMp", "", "&map[string]$T{}"},
	{"ptrAn", "", "&struct{ V $T; A [3]$T }{}"},
	{"ptrAn", "", "&struct{ V $T; A [3]$T }{V: $T(i)}"},
	{"valAn", "", "struct{ V $T; A [3]$T }{}"},
}

// statements that write v (and v+1) through handle expression h
func fwrite(cat, h string, v int) []string {
	a, b := fmt.Sprintf("$T(%d)", v), fmt.Sprintf("$T(%d)", v+1)
	switch cat {
	case "ptrS", "valS":
		return []string{h + ".V = " + a, h + ".A[1] = " + b, h + ".S = append(" + h + ".S, " + a + ")"}
	case "ptrAn", "valAn":
		return []string{h + ".V = " + a, h + ".A[1] = " + b}
	case "ptrO", "valO":
		return []string{h + ".X = " + a, h + ".In.V = " + b, h + ".In.A[1] = " + a,
			"if " + h + ".P != nil { " + h + ".P.V = " + b + " }",
			"if len(" + h + ".L) > 0 { " + h + ".L[0].V = " + a + " }",
			"if len(" + h + ".PL) > 0 { " + h + ".PL[0].V = " + b + " }"}
	case "slc":
		return []string{"if cap(" + h + ") > 0 { " + h + "[:cap(" + h + ")][0] = " + a + " }"}
	case "slcN", "slcP":
		return []string{"if len(" + h + ") > 0 { " + h + "[0].V = " + a + " }"}
	case "mp":
		return []string{h + "[\"w\"] = " + a}
	case "mpP":
		return []string{h + "[\"k\"].V = " + a}
	case "ptrB":
		return []string{"*" + h + " = " + a}
	case "ptrA", "valA":
		return []string{h + "[1] = " + a}
	case "chn":
		return []string{h + " <- " + a}
	case "ptrSl":
		return []string{"*" + h + " = append(*" + h + ", " + a + ")"}
	case "ptrMp":
		return []string{"(*" + h + ")[\"w\"] = " + a}
	}
	panic("fwrite: " + cat)
}

// statements that emit everything observable through handle expression h
func fread(cat, h string) []string {
	e := func(x string) string { return "emit(int(" + x + "))" }
	switch cat {
	case "ptrS", "valS":
		return []string{e(h + ".V"), e(h + ".A[1]"), e("len(" + h + ".S)"), e("len(" + h + ".M)"), "emitb(" + h + ".S == nil)", "emitb(" + h + ".M == nil)"}
	case "ptrAn", "valAn":
		return []string{e(h + ".V"), e(h + ".A[1]")}
	case "ptrO", "valO":
		return []string{e(h + ".X"), e(h + ".In.V"), e(h + ".In.A[1]"),
			"emitb(" + h + ".P == nil)", "if " + h + ".P != nil { " + e(h+".P.V") + " }",
			e("len(" + h + ".L)"), "if len(" + h + ".L) > 0 { " + e(h+".L[0].V") + " }",
			e("len(" + h + ".PL)"), "if len(" + h + ".PL) > 0 { " + e(h+".PL[0].V") + " }"}
	case "slc":
		return []string{e("len(" + h + ")"), "emitb(" + h + " == nil)", "if cap(" + h + ") > 0 { " + e(h+"[:cap("+h+")][0]") + " }"}
	case "slcN", "slcP":
		return []string{e("len(" + h + ")"), "if len(" + h + ") > 0 { " + e(h+"[0].V") + " }"}
	case "mp":
		return []string{e("len(" + h + ")"), e("0 + " + h + "[\"w\"]"), e("0 + " + h + "[\"k\"]")}
	case "mpP":
		return []string{e("len(" + h + ")"), e(h + "[\"k\"].V")}
	case "ptrB":
		return []string{e("*" + h)}
	case "ptrA", "valA":
		return []string{e(h + "[0]"), e(h + "[1]")}
	case "chn":
		return []string{e("len(" + h + ")"), e("cap(" + h + ")")}
	case "ptrSl":
		return []string{e("len(*" + h + ")")}
	case "ptrMp":
		return []string{e("len(*" + h + ")")}
	}
	panic("fread: " + cat)
}

// boolean expression: do the two handles denote the same variable (comparable handle types only)
func fsame(cat, h1, h2 string) string {
	switch cat {
	case "ptrS", "ptrO", "ptrB", "ptrA", "chn", "ptrSl", "ptrMp", "ptrAn":
		return h1 + " == " + h2
	case "slcP":
		return "len(" + h1 + ") > 0 && " + h1 + "[0] == " + h2 + "[0]"
	case "mpP":
		return h1 + "[\"k\"] == " + h2 + "[\"k\"]"
	}
	return ""
}

var fctxNames = []string{"loop-append", "loop-define", "loop-var", "loop-var-notype", "outer-assign", "range-array-store", "func", "closure",
	"recursion", "method", "unrolled-calls", "map-store", "field-store", "chan", "multi-return", "goto-loop", "interface-box", "call-arg",
	"struct-lit-holder", "switch-in-loop", "funclit-in-loop", "range-slice", "nested-loop"}

// fcollect renders context ctx: returns helper declarations (one per line) and the statements that leave the k results
// in hs (a []H).  s is the unique name prefix of the section.
func fcollect(ctx int, s, H string, st fsite, k int) (decls []string, body []string) {
	pre := st.pre
	if pre != "" {
		pre += "; "
	}
	loop := func(stmts string) string { return fmt.Sprintf("for i := 0; i < %d; i++ { %s }", k, stmts) }
	switch fctxNames[ctx] {
	case "loop-append":
		body = []string{"var hs []" + H, loop(pre + "hs = append(hs, " + st.e + ")")}
	case "loop-define":
		body = []string{"var hs []" + H, loop(pre + "h := " + st.e + "; hs = append(hs, h)")}
	case "loop-var":
		body = []string{"var hs []" + H, loop(pre + "var h " + H + " = " + st.e + "; hs = append(hs, h)")}
	case "loop-var-notype":
		body = []string{"var hs []" + H, loop(pre + "var h = " + st.e + "; hs = append(hs, h)")}
	case "outer-assign":
		body = []string{"var hs []" + H, "var h " + H, loop(pre + "h = " + st.e + "; hs = append(hs, h)")}
	case "range-array-store":
		body = []string{fmt.Sprintf("var arr [%d]%s", k, H), "for i := range arr { " + pre + "arr[i] = " + st.e + " }", "hs := arr[:]"}
	case "func":
		decls = []string{fmt.Sprintf("func %smk(i int) %s { %sreturn %s }", s, H, pre, st.e)}
		body = []string{"var hs []" + H, loop("hs = append(hs, " + s + "mk(i))")}
	case "closure":
		body = []string{"var hs []" + H, fmt.Sprintf("mk := func(i int) %s { %sreturn %s }", H, pre, st.e), loop("hs = append(hs, mk(i))")}
	case "recursion":
		decls = []string{fmt.Sprintf("func %srec(i int, acc []%s) []%s { if i >= %d { return acc }; %sreturn %srec(i+1, append(acc, %s)) }", s, H, H, k, pre, s, st.e)}
		body = []string{"hs := " + s + "rec(0, nil)"}
	case "method":
		decls = []string{fmt.Sprintf("type %sF struct{ n int }", s), fmt.Sprintf("func (f *%sF) mk(i int) %s { f.n++; %sreturn %s }", s, H, pre, st.e)}
		body = []string{"var hs []" + H, "f := &" + s + "F{}", loop("hs = append(hs, f.mk(i))"), "emit(f.n)"}
	case "unrolled-calls":
		body = []string{fmt.Sprintf("mk := func(i int) %s { %sreturn %s }", H, pre, st.e)}
		var as []string
		for i := 0; i < k; i++ {
			body = append(body, fmt.Sprintf("a%d := mk(%d)", i, i))
			as = append(as, fmt.Sprintf("a%d", i))
		}
		body = append(body, "hs := []"+H+"{"+strings.Join(as, ", ")+"}")
	case "map-store":
		body = []string{"var hs []" + H, "m := map[int]" + H + "{}", loop(pre + "m[i] = " + st.e), loop("hs = append(hs, m[i])")}
	case "field-store":
		decls = []string{fmt.Sprintf("type %sB struct{ F %s }", s, H)}
		body = []string{"var hs []" + H, fmt.Sprintf("bs := make([]%sB, %d)", s, k), loop(pre + "bs[i].F = " + st.e), loop("hs = append(hs, bs[i].F)")}
	case "chan":
		body = []string{"var hs []" + H, fmt.Sprintf("c := make(chan %s, %d)", H, k), loop(pre + "c <- " + st.e), loop("hs = append(hs, <-c)")}
	case "multi-return":
		decls = []string{fmt.Sprintf("func %smk2(i int) (%s, int) { %sreturn %s, i }", s, H, pre, st.e)}
		body = []string{"var hs []" + H, loop("h, n := " + s + "mk2(i); hs = append(hs, h); emit(n)")}
	case "goto-loop":
		body = []string{"var hs []" + H, "i := 0", fmt.Sprintf("L%s: if i < %d { %shs = append(hs, %s); i++; goto L%s }", s, k, pre, st.e, s)}
	case "interface-box":
		body = []string{"var hs []" + H, "var xs []interface{}", loop(pre + "xs = append(xs, " + st.e + ")"), loop("hs = append(hs, xs[i].(" + H + "))")}
	case "call-arg":
		body = []string{"var hs []" + H, "keep := func(h " + H + ") { hs = append(hs, h) }", loop(pre + "keep(" + st.e + ")")}
	case "struct-lit-holder":
		decls = []string{fmt.Sprintf("type %sB struct{ F %s }", s, H)}
		body = []string{"var hs []" + H, "var bs []" + s + "B", loop(pre + "bs = append(bs, " + s + "B{F: " + st.e + "})"), loop("hs = append(hs, bs[i].F)")}
	case "switch-in-loop":
		body = []string{"var hs []" + H, loop("switch { case i >= 0: " + pre + "hs = append(hs, " + st.e + ") }")}
	case "funclit-in-loop":
		body = []string{"var hs []" + H, loop("func() { " + pre + "hs = append(hs, " + st.e + ") }()")}
	case "range-slice":
		body = []string{"var hs []" + H, fmt.Sprintf("for i := range make([]int, %d) { _ = i; %shs = append(hs, %s) }", k, pre, st.e)}
	case "nested-loop":
		body = []string{"var hs []" + H, fmt.Sprintf("for q := 0; q < %d; q++ { for i := q; i < q+1; i++ { %shs = append(hs, %s) } }", k, pre, st.e)}
	default:
		panic("fcollect")
	}
	return
}

// genFresh: one program with nsec sections; section n uses site (first+n) mod len(fsites)
// avoidEllipsisLit: set by the canary in main.go while finding C08-3 is present on the tree under test
var avoidEllipsisLit bool

func genFresh(r *vh.Rng, idx, first, nsec int) (*prog, []string) {
	p := &prog{Kind: "fresh", Idx: idx}
	T := elemKinds[r.Intn(len(elemKinds)-1)] // numeric
	pre := fmt.Sprintf("P%d_", idx)
	rp := strings.NewReplacer("$N", pre+"N", "$O", pre+"O", "$T", T)
	var feats, decls []string
	decls = append(decls,
		rp.Replace("type $N struct { V $T; S []$T; M map[string]$T; A [3]$T }"),
		rp.Replace("type $O struct { X $T; In $N; P *$N; L []$N; PL []*$N }"))
	var sb strings.Builder
	fmt.Fprintf(&sb, "func %srun() {\n\tmark(0)\n", pre)
	for n := 0; n < nsec; n++ {
		st := fsites[(first+n)%len(fsites)]
		if avoidEllipsisLit {
			st.e = strings.Replace(st.e, "[...]$T{", "[3]$T{", 1) // known finding C08-3, see main.go
		}
		ctx := r.Intn(len(fctxNames))
		k := 2 + r.Intn(3)
		H := fcatType[st.cat]
		d, body := fcollect(ctx, fmt.Sprintf("%ss%d", pre, n), H, st, k)
		decls = append(decls, d...)
		feats = append(feats, "fresh-site:"+st.cat+":"+strings.TrimSpace(st.pre+" "+st.e), "fresh-ctx:"+fctxNames[ctx], fmt.Sprintf("fresh-evals:%d", k))
		fmt.Fprintf(&sb, "\t{\n")
		for _, l := range body {
			fmt.Fprintf(&sb, "\t\t%s\n", l)
		}
		fmt.Fprintf(&sb, "\t\temit(len(hs))\n")
		hexp := func(i int) string { return fmt.Sprintf("hs[%d]", i) }
		readAll := func() {
			for i := 0; i < k; i++ {
				for _, l := range fread(st.cat, hexp(i)) {
					fmt.Fprintf(&sb, "\t\t%s\n", l)
				}
			}
		}
		readAll()
		// write through each result in a random order, read all after every write
		order := make([]int, k)
		for i := range order {
			order[i] = i
		}
		for i := k - 1; i > 0; i-- {
			j := r.Intn(i + 1)
			order[i], order[j] = order[j], order[i]
		}
		for _, j := range order {
			for _, l := range fwrite(st.cat, hexp(j), 10*(j+1)+20*n) {
				fmt.Fprintf(&sb, "\t\t%s\n", l)
			}
			readAll()
		}
		for i := 0; i < k; i++ {
			for j := i + 1; j < k; j++ {
				if e := fsame(st.cat, hexp(i), hexp(j)); e != "" {
					fmt.Fprintf(&sb, "\t\temitb(%s)\n", e)
				}
			}
		}
		fmt.Fprintf(&sb, "\t}\n\tmark(%d)\n", n+1)
	}
	sb.WriteString("}\n")
	p.Types = rp.Replace(strings.Join(decls, "\n")) + "\n"
	p.Src = rp.Replace(sb.String())
	return p, feats
}

// bounds: the FORM of the bounds of a slice expression, bounded-exhaustive.
//
// fast/slice.go compiles a different closure for every combination of {omitted, constant, non-constant} low / high / max
// operand (and per operand type: slice, array, pointer to array, string); the "run" stream passes every bound through
// id(), i.e. only ever exercises the all-variable closures.  One "bounds" program per combination of forms
//
//	2-index: lo, hi in {omitted, const, call id(v), local variable}                 (16 programs)
//	3-index: lo in {omitted, const, call}, hi, max in {const, call}                 (12 programs)
//
// applies that combination, with every value of the bounds around 0 / len / cap (+1), to every operand kind: slices
// whose capacity EXCEEDS their length (obtained by re-slicing a literal, by append into a larger make, by a 3-index
// slice), a full slice, an array variable, a pointer to an array and a string variable.  Every case runs in its own
// closure under a recover (a panic is observed as -777 and the next case still runs) and shows len, cap and the elements
// of the result, then appends one element to it and shows the whole backing array (aliasing through the shared array
// depends on the length of the result).  Combinations that go/types rejects (constant bounds out of order, constant
// bound beyond an array length) are not generated.  Oracle: compiled Go (like "extra").
package main

import (
	"fmt"
	"strings"
)

type boundsObj struct {
	name     string
	len, cap int64
	str      bool
	fixed    bool // array-like: constant bounds are checked against the length at compile time
}

var boundsObjs = []boundsObj{
	{name: "reslice", len: 3, cap: 6},
	{name: "append", len: 3, cap: 6},
	{name: "slice3", len: 3, cap: 6},
	{name: "full", len: 3, cap: 3},
	{name: "array", len: 6, cap: 6, fixed: true},
	{name: "ptrarray", len: 6, cap: 6, fixed: true},
	{name: "string", len: 6, cap: 6, str: true},
}

const (
	bfOmit  = "omitted"
	bfConst = "const"
	bfCall  = "call"
	bfLocal = "local"
)

// boundsOperand renders one bound; a local-variable bound adds its declaration to *pre
func boundsOperand(form, name string, v int64, pre *[]string) string {
	switch form {
	case bfOmit:
		return ""
	case bfConst:
		return fmt.Sprint(v)
	case bfCall:
		return fmt.Sprintf("id(%d)", v)
	}
	*pre = append(*pre, fmt.Sprintf("%s := %d; _ = %s", name, v, name))
	return name
}

func boundsVals(form string, vs []int64) []int64 {
	if form == bfOmit {
		return []int64{-1}
	}
	return vs
}

func genBounds(idx int, elem, lof, hif, mxf string, three bool) (*prog, []string) {
	p := &prog{Kind: "bounds", Idx: idx, Elem: elem}
	pre := fmt.Sprintf("P%d_", idx)
	T := elem
	feats := []string{fmt.Sprintf("bounds-forms:lo=%s,hi=%s,max=%s", lof, hif, mxf), "bounds-elem:" + elem}
	lits := func(from, to int64) string {
		var s []string
		for v := from; v <= to; v++ {
			s = append(s, lit(T, v))
		}
		return strings.Join(s, ", ")
	}
	var decls []string
	decls = append(decls, fmt.Sprintf("func %stry(f func()) { defer func() { if recover() != nil { emit(-777) } }(); f() }", pre))
	decls = append(decls, fmt.Sprintf("func %sshow(base, t []%s) { emit(len(t)); emit(cap(t)); for _, v := range t { %s }; t = append(t, %s); emit(len(t)); for _, v := range base[:cap(base)] { %s } }",
		pre, T, emitOf(T, "v"), lit(T, 99), emitOf(T, "v")))
	decls = append(decls, fmt.Sprintf("func %sreslice() []%s { b := []%s{%s}; return b[:3] }", pre, T, T, lits(1, 6)))
	decls = append(decls, fmt.Sprintf("func %sappend() []%s { b := make([]%s, 0, id(6)); b = append(b, %s); return b }", pre, T, T, lits(1, 3)))
	decls = append(decls, fmt.Sprintf("func %sslice3() []%s { b := []%s{%s}; return b[1:4:7] }", pre, T, T, lits(0, 7)))
	decls = append(decls, fmt.Sprintf("func %sfull() []%s { return []%s{%s} }", pre, T, T, lits(1, 3)))
	var sb strings.Builder
	fmt.Fprintf(&sb, "func %srun() {\n\tmark(0)\n", pre)
	n := 0
	for _, o := range boundsObjs {
		if three && o.str {
			continue
		}
		los := boundsVals(lof, []int64{0, 2, o.len, o.len + 1, o.cap, o.cap + 1})
		his := boundsVals(hif, []int64{2, o.len, o.len + 1, o.cap, o.cap + 1})
		mxs := boundsVals(mxf, []int64{o.len, o.cap, o.cap + 1})
		if !three {
			mxs = []int64{-1}
		}
		for _, lo := range los {
			for _, hi := range his {
				for _, mx := range mxs {
					// what go/types rejects: constant bounds out of order, constant bounds beyond a fixed length
					cs := []int64{}
					for _, b := range []struct {
						f string
						v int64
					}{{lof, lo}, {hif, hi}, {mxf, mx}} {
						if b.f == bfConst && b.v >= 0 {
							cs = append(cs, b.v)
						}
					}
					bad := false
					for i, c := range cs {
						if i > 0 && cs[i-1] > c {
							bad = true
						}
						if o.fixed && c > o.len {
							bad = true
						}
					}
					if bad {
						continue
					}
					var st []string
					ex := "b"
					switch o.name {
					case "array":
						st = append(st, fmt.Sprintf("a := [6]%s{%s}; b := a[:]", T, lits(1, 6)))
						ex = "a"
					case "ptrarray":
						st = append(st, fmt.Sprintf("a := [6]%s{%s}; b := a[:]; pa := &a", T, lits(1, 6)))
						ex = "pa"
					case "string":
						st = append(st, `b := ids("abcdef")`)
					default:
						st = append(st, fmt.Sprintf("b := %s%s()", pre, o.name))
					}
					loS := boundsOperand(lof, "i", lo, &st)
					hiS := boundsOperand(hif, "j", hi, &st)
					e := fmt.Sprintf("%s[%s:%s]", ex, loS, hiS)
					if three {
						e = fmt.Sprintf("%s[%s:%s:%s]", ex, loS, hiS, boundsOperand(mxf, "k", mx, &st))
					}
					if o.str {
						st = append(st, fmt.Sprintf("t := %s; emit(len(t)); emits(t); emits(b)", e))
					} else {
						st = append(st, fmt.Sprintf("t := %s; %sshow(b, t)", e, pre))
					}
					n++
					fmt.Fprintf(&sb, "\temit(%d)\n\t%stry(func() { %s })\n\tmark(%d)\n", -1000-n, pre, strings.Join(st, "; "), n)
				}
			}
		}
		feats = append(feats, "bounds-obj:"+o.name)
	}
	sb.WriteString("}\n")
	p.Types = strings.Join(decls, "\n") + "\n"
	p.Src = sb.String()
	return p, feats
}

// genBoundsAll: the whole matrix of forms; elem rotates with the seed
func genBoundsAll(first int, seed uint64) ([]*prog, []string) {
	var progs []*prog
	var feats []string
	elems := []string{"int", "uint8", "string", "float64", "int64"}
	add := func(lof, hif, mxf string, three bool) {
		p, f := genBounds(first+len(progs), elems[(int(seed%5)+len(progs))%len(elems)], lof, hif, mxf, three)
		progs = append(progs, p)
		feats = append(feats, f...)
	}
	all := []string{bfOmit, bfConst, bfCall, bfLocal}
	for _, lof := range all {
		for _, hif := range all {
			add(lof, hif, bfOmit, false)
		}
	}
	for _, lof := range []string{bfOmit, bfConst, bfCall} {
		for _, hif := range []string{bfConst, bfCall} {
			for _, mxf := range []string{bfConst, bfCall} {
				add(lof, hif, mxf, true)
			}
		}
	}
	return progs, feats
}

// boundsFirstDiff: the source line of the first case of a bounds program whose observations differ (cases are delimited
// by emit(-1000-n)), with both observations
func boundsFirstDiff(p *prog, got, want []string) string {
	seg := func(out []string) map[string]string {
		m := map[string]string{}
		cur := ""
		for _, s := range out {
			if len(s) >= 5 && strings.HasPrefix(s, "-1") {
				cur = s
				m[cur] = ""
				continue
			}
			m[cur] += s + " "
		}
		return m
	}
	g, w := seg(got), seg(want)
	lines := strings.Split(p.Src, "\n")
	for i, l := range lines {
		l = strings.TrimSpace(l)
		if strings.HasPrefix(l, "emit(-1") && i+1 < len(lines) {
			tag := strings.TrimSuffix(strings.TrimPrefix(l, "emit("), ")")
			if g[tag] != w[tag] {
				return fmt.Sprintf("first differing case: %s  gomacro: [%s] compiled Go: [%s]", strings.TrimSpace(lines[i+1]), strings.TrimSpace(g[tag]), strings.TrimSpace(w[tag]))
			}
		}
	}
	return ""
}

// addr: pointers to LOCAL variables of every int-like kind, taken 0..4 run-time scopes below the declaring scope.
//
// fast/address.go (Var.Address) is generated per reflect.Kind x per number of Envs between `&x` and the Env owning x
// (0, 1, 2, >=3).  A pointer must keep designating its variable after the declaring function returned, whatever later
// calls do: one "addr" program per kind declares, for every depth 0..4, a function whose local x (owned by the function
// scope, and a second one where x is owned by a nested block) has its address taken from inside `depth` nested scopes
// that each own a run-time Env (blocks with locals, for / if / switch headers with :=) and returns the pointer.  Each
// function is called twice with other calls in between; the two pointers must differ, read their own value, and be
// written independently.  Oracle: compiled Go (like "extra").  (The frame-level account of the same matrix, with pool
// poisoning and the Coq frame model, is harness/cmd/c06/matrix.go.)
package main

import (
	"fmt"
	"strings"
)

var addrKinds = []string{"bool", "int", "int8", "int16", "int32", "int64", "uint", "uint8", "uint16", "uint32", "uint64", "uintptr",
	"float32", "float64", "complex64", "complex128"}

func addrLit(k string, n int) string {
	switch k {
	case "bool":
		if n%2 == 1 {
			return "true"
		}
		return "false"
	case "float32", "float64":
		return fmt.Sprintf("%d.5", n)
	case "complex64", "complex128":
		return fmt.Sprintf("complex(%d, %d)", n, n+1)
	}
	return fmt.Sprint(n)
}

func addrShow(k, e string) string {
	switch k {
	case "bool":
		return fmt.Sprintf("emitb(%s)", e)
	case "float32", "float64":
		return fmt.Sprintf("emit(int(%s * 2))", e)
	case "complex64", "complex128":
		return fmt.Sprintf("emit(int(real(%s))); emit(int(imag(%s)))", e, e)
	}
	return fmt.Sprintf("emit(int(%s))", e)
}

func addrBump(k, lhs string, n int) string {
	if k == "bool" {
		return fmt.Sprintf("%s = !%s", lhs, lhs)
	}
	return fmt.Sprintf("%s += %s", lhs, addrLit(k, n))
}

var addrLayerNames = []string{"block", "for", "if", "switch"}

// one more scope owning a run-time Env around the statements core (all on one line)
func addrLayer(shape, n int, core string) string {
	switch shape {
	case 0:
		return fmt.Sprintf("{ a%d := %d; _ = a%d; %s }", n, n, n, core)
	case 1:
		return fmt.Sprintf("for i%d := 0; i%d < 1; i%d++ { %s }", n, n, n, core)
	case 2:
		return fmt.Sprintf("if t%d := %d; t%d > 0 { %s }", n, n, n, core)
	}
	return fmt.Sprintf("switch t%d := %d; t%d { case %d: %s }", n, n, n, n, core)
}

func addrNest(depth, rot int, core string, feats *[]string) string {
	for j := depth - 1; j >= 0; j-- {
		s := (rot + j) % 4
		core = addrLayer(s, j+1, core)
		*feats = append(*feats, fmt.Sprintf("addr-layer:%s", addrLayerNames[s]))
	}
	return core
}

const addrMaxDepth = 4

func genAddr(idx int, k string, rot int) (*prog, []string) {
	p := &prog{Kind: "addr", Idx: idx, Elem: k}
	pre := fmt.Sprintf("P%d_", idx)
	feats := []string{"addr-kind:" + k}
	var decls []string
	for d := 0; d <= addrMaxDepth; d++ {
		core := fmt.Sprintf("%s; p = &x; %s", addrBump(k, "x", 2), addrBump(k, "*p", 1))
		// x owned by the function scope
		decls = append(decls, fmt.Sprintf("func %sfn%d(seed %s) *%s { var x %s = seed; var p *%s; %s; %s; return p }",
			pre, d, k, k, k, k, addrNest(d, rot+d, core, &feats), addrShow(k, "x")))
		// x owned by a block
		decls = append(decls, fmt.Sprintf("func %sbk%d(seed %s) *%s { var p *%s; { var x %s = seed; %s; %s }; return p }",
			pre, d, k, k, k, k, addrNest(d, rot+d+1, core, &feats), addrShow(k, "x")))
		feats = append(feats, fmt.Sprintf("addr-depth:%d", d))
	}
	decls = append(decls, fmt.Sprintf("func %snoise(v %s) %s { var t %s = v; { w := t; %s; t = w }; return t }", pre, k, k, k, addrBump(k, "w", 3)))
	var sb strings.Builder
	fmt.Fprintf(&sb, "func %srun() {\n\tmark(0)\n", pre)
	n := 0
	for d := 0; d <= addrMaxDepth; d++ {
		for _, f := range []string{"fn", "bk"} {
			fmt.Fprintf(&sb, "\t{\n")
			fmt.Fprintf(&sb, "\t\tp := %s%s%d(%s)\n", pre, f, d, addrLit(k, 11))
			for i := 0; i < 3; i++ {
				fmt.Fprintf(&sb, "\t\t%s\n", addrShow(k, fmt.Sprintf("%snoise(%s)", pre, addrLit(k, 40+i))))
			}
			fmt.Fprintf(&sb, "\t\tq := %s%s%d(%s)\n", pre, f, d, addrLit(k, 30))
			for i := 0; i < 3; i++ {
				fmt.Fprintf(&sb, "\t\t%s\n", addrShow(k, fmt.Sprintf("%snoise(%s)", pre, addrLit(k, 50+i))))
			}
			fmt.Fprintf(&sb, "\t\temitb(p == q)\n\t\t%s\n\t\t%s\n", addrShow(k, "*p"), addrShow(k, "*q"))
			fmt.Fprintf(&sb, "\t\t%s\n\t\t%s\n\t\t%s\n", addrBump(k, "*p", 5), addrShow(k, "*p"), addrShow(k, "*q"))
			fmt.Fprintf(&sb, "\t\t%s\n\t\t%s\n\t\t%s\n", addrBump(k, "*q", 9), addrShow(k, "*p"), addrShow(k, "*q"))
			fmt.Fprintf(&sb, "\t}\n")
			n++
			fmt.Fprintf(&sb, "\tmark(%d)\n", n)
		}
	}
	sb.WriteString("}\n")
	p.Types = strings.Join(decls, "\n") + "\n"
	p.Src = sb.String()
	return p, feats
}

package main

// cidx.go: constant-index expressions applied DIRECTLY to composite literals of nested slices / arrays / maps, inside
// function bodies (finding C08-4: `return [][]L{[]L{L{1, nil}}}[0]` with type L struct { First int; Rest *L } panicked
// "reflect.Value.Elem on slice Value"; `[]*L{nil}` panicked "reflect.Value.Set on zero Value").
//
// One section = one combination of
//   T   : element type: int64, a plain struct, and SELF-REFERENTIAL structs (link *T, []T, map[string]T), declared
//         freshly for every section (the defect depends on what the interpreter has already done with the type)
//   E   : what the outer literal holds: []T, [1]T, []*T, map[string]T, T, *T
//   O   : the outer literal that is indexed: []E, [2]E, map[string]E, map[int]E   -> O{e0, e1}[constant]
//   elide : inner literal types written / elided
//   ctx : where the indexed value goes: returned, typed var, :=, argument, assignment, struct field, closure result
//   nil : pointer elements given as nil
// The whole table (cidxCombos) is enumerated; a run takes a window of it rotated by the seed (thorough: all of it).
// Direct oracle: the same program compiled by go build.

import (
	"fmt"
	"strings"

	"verifh/vh"
)

type cidxCombo struct {
	T, E, O string
	Elide   bool
	Ctx     string
	Idx     int
	Nil     bool
}

// set by the canaries in main.go while the two defects of finding C08-4 reproduce on the tree under test
// While either reproduces, the sections with a self-referential element type use the plain struct type instead (a variable
// index does not avoid the first defect in every context: the whole table was tried on the unfixed tree).
var (
	avoidConstIdxRec bool
	avoidNilPtrRec   bool
)

var cidxCtx = []string{"ret", "var", "def", "arg", "asg", "fld", "clo"}

func cidxCombos() []cidxCombo {
	var out []cidxCombo
	n := 0
	for _, T := range []string{"int64", "N", "R", "S", "Q"} {
		for _, E := range []string{"sl", "ar", "psl", "mp", "T", "pT"} {
			if T == "int64" && (E == "psl" || E == "pT") {
				continue
			}
			for _, O := range []string{"sl", "ar", "mp", "mi"} {
				if (T == "R" || T == "S" || T == "Q") && (O == "mp" || O == "mi") && (E == "mp" || E == "pT") {
					// two further defects of the same family, seen with fixes/C08-4.diff applied (reported to the coordinator, not
					// yet registered): map[K]map[string]R{...}[k] -> "reflect.Value.SetMapIndex: value of type reflect.Value is not
					// assignable to type string"; map[K]*R{k: nil}[k] -> nil dereference at run time (R self-referential)
					continue
				}
				for _, el := range []bool{false, true} {
					for _, ctx := range cidxCtx {
						n++
						out = append(out, cidxCombo{T: T, E: E, O: O, Elide: el, Ctx: ctx, Idx: n % 2, Nil: (E == "psl" || E == "pT") && n%3 == 0})
					}
				}
			}
		}
	}
	return out
}

func (c cidxCombo) rec() bool { return c.T == "R" || c.T == "S" || c.T == "Q" }

// genCidx: one program with the sections combos[first], combos[first+1], ... (nsec of them, wrapping around)
func genCidx(r *vh.Rng, idx, first, nsec int) (*prog, []string) {
	all := cidxCombos()
	p := &prog{Kind: "cidx", Idx: idx}
	pre := fmt.Sprintf("P%d_", idx)
	var decls, feats []string
	var sb strings.Builder
	fmt.Fprintf(&sb, "func %srun() {\n\tmark(0)\n", pre)
	for n := 0; n < nsec; n++ {
		c := all[(first+n)%len(all)]
		avoided := false
		if c.rec() && (avoidConstIdxRec || avoidNilPtrRec) {
			c.T, avoided = "N", true
		}
		s := fmt.Sprintf("%ss%d", pre, n)
		tn := c.T
		switch c.T {
		case "N":
			tn = s + "N"
			decls = append(decls, fmt.Sprintf("type %s struct { First int; Rest *int }", tn))
		case "R":
			tn = s + "R"
			decls = append(decls, fmt.Sprintf("type %s struct { First int; Rest *%s }", tn, tn))
		case "S":
			tn = s + "S"
			decls = append(decls, fmt.Sprintf("type %s struct { First int; Rest []%s }", tn, tn))
		case "Q":
			tn = s + "Q"
			decls = append(decls, fmt.Sprintf("type %s struct { First int; Rest map[string]%s }", tn, tn))
		}
		tlit := func(v int, typed bool) string {
			if c.T == "int64" {
				return fmt.Sprintf("int64(%d)", v)
			}
			if typed {
				return fmt.Sprintf("%s{%d, nil}", tn, v)
			}
			return fmt.Sprintf("{%d, nil}", v)
		}
		useNil := c.Nil
		var et string
		elit := func(v int) string {
			ty := func(t, body string) string {
				if c.Elide {
					return body
				}
				return t + body
			}
			switch c.E {
			case "sl":
				return ty("[]"+tn, "{"+tlit(v, !c.Elide)+"}")
			case "ar":
				return ty("[1]"+tn, "{"+tlit(v, !c.Elide)+"}")
			case "psl":
				if useNil {
					return ty("[]*"+tn, "{nil}")
				}
				if c.Elide {
					return "{" + tlit(v, false) + "}"
				}
				return "[]*" + tn + "{&" + tlit(v, true) + "}"
			case "mp":
				return ty("map[string]"+tn, "{\"k\": "+tlit(v, !c.Elide)+"}")
			case "T":
				return tlit(v, !c.Elide)
			default: // pT
				if useNil {
					return "nil"
				}
				if c.Elide {
					return tlit(v, false)
				}
				return "&" + tlit(v, true)
			}
		}
		et = map[string]string{"sl": "[]" + tn, "ar": "[1]" + tn, "psl": "[]*" + tn, "mp": "map[string]" + tn, "T": tn, "pT": "*" + tn}[c.E]
		v0, v1 := 10+n, 20+n
		const avoid = false
		var expr string
		switch c.O {
		case "sl", "ar":
			ix := fmt.Sprint(c.Idx)
			if avoid {
				ix = "id(" + ix + ")"
			}
			ot := "[]" + et
			if c.O == "ar" {
				ot = "[2]" + et
			}
			expr = fmt.Sprintf("%s{%s, %s}[%s]", ot, elit(v0), elit(v1), ix)
		case "mp":
			k := []string{"\"a\"", "\"k\""}[c.Idx]
			if avoid {
				k = "ids(" + k + ")"
			}
			expr = fmt.Sprintf("map[string]%s{\"a\": %s, \"k\": %s}[%s]", et, elit(v0), elit(v1), k)
		default: // mi
			ix := fmt.Sprint(c.Idx)
			if avoid {
				ix = "id(" + ix + ")"
			}
			expr = fmt.Sprintf("map[int]%s{0: %s, 1: %s}[%s]", et, elit(v0), elit(v1), ix)
		}
		var body []string
		switch c.Ctx {
		case "ret":
			decls = append(decls, fmt.Sprintf("func %sf() %s { return %s }", s, et, expr))
			body = []string{"x := " + s + "f()"}
		case "var":
			body = []string{"var x " + et + " = " + expr}
		case "def":
			body = []string{"x := " + expr}
		case "arg":
			decls = append(decls, fmt.Sprintf("func %sg(p %s) %s { return p }", s, et, et))
			body = []string{"x := " + s + "g(" + expr + ")"}
		case "asg":
			body = []string{"var x " + et, "x = " + expr}
		case "fld":
			decls = append(decls, fmt.Sprintf("type %sH struct { F %s }", s, et))
			body = []string{"h := " + s + "H{F: " + expr + "}", "x := h.F"}
		default: // clo
			body = []string{"x := func() " + et + " { return " + expr + " }()"}
		}
		obsT := func(x string) []string {
			switch c.T {
			case "int64":
				return []string{"emit(int(" + x + "))"}
			case "N", "R":
				return []string{"emit(" + x + ".First)", "emitb(" + x + ".Rest == nil)"}
			}
			return []string{"emit(" + x + ".First)", "emit(len(" + x + ".Rest))"}
		}
		switch c.E {
		case "sl":
			body = append(body, "emit(len(x))")
			body = append(body, obsT("x[0]")...)
		case "ar":
			body = append(body, obsT("x[0]")...)
		case "psl":
			body = append(body, "emit(len(x))", "emitb(x[0] == nil)")
			if !useNil {
				body = append(body, obsT("x[0]")...)
			}
		case "mp":
			body = append(body, "emit(len(x))")
			body = append(body, obsT("x[\"k\"]")...)
		case "T":
			body = append(body, obsT("x")...)
		default:
			body = append(body, "emitb(x == nil)")
			if !useNil {
				body = append(body, obsT("x")...)
			}
		}
		fmt.Fprintf(&sb, "\t{\n")
		for _, l := range body {
			fmt.Fprintf(&sb, "\t\t%s\n", l)
		}
		fmt.Fprintf(&sb, "\t}\n\tmark(%d)\n", n+1)
		feats = append(feats, "cidx-T:"+c.T, "cidx-E:"+c.E, "cidx-O:"+c.O, "cidx-ctx:"+c.Ctx, fmt.Sprintf("cidx-elided:%v", c.Elide),
			fmt.Sprintf("cidx-nil-element:%v", useNil), fmt.Sprintf("cidx-self-referential-T-replaced-by-plain-struct(canary):%v", avoided))
	}
	sb.WriteString("}\n")
	p.Types = strings.Join(decls, "\n") + "\n"
	p.Src = sb.String()
	return p, feats
}

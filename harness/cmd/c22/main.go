// c22: direct oracle + correspondence observations for gomacro's ast2 wrappers
// (ast2/ast_node.go, ast_slice.go, wrap.go, unwrap.go).
//
// For every node of every tree (go/parser on Go files, the fork parser on gomacro snippets with
// quote/quasiquote/macro, random go/ast trees incl. extension tokens and error flags):
//
//	a := ast2.ToAst(node); ToNode(a) must be the same pointer
//	Get(i) for i < Size must not panic, Get(i)/Set(i) for i >= Size (and i < 0) must panic
//	b := a.New(); b.Set(i, a.Get(i)) (or Append for AstWithSlice); ToNode(b) must equal node field by field,
//	   ignoring positions (presence of optional positions is compared), comments, Obj/Scope/Unresolved; Op() equal
//	rebuild(tree) recursively (New + Set/Append of rebuilt children) must be deeply equal to the original tree
//
// The oracle is the position-insensitive equality written here (reflection over go/ast); it never consults the Coq model.
// A sample of nodes is written as Coq cases (cases_NNN.v): the model must predict Size, the presence pattern of
// Get(i) and every field of the rebuilt node.
package main

import (
	"encoding/json"
	"fmt"
	"go/ast"
	goparser "go/parser"
	"go/token"
	"hash/crc32"
	"os"
	"os/exec"
	"path/filepath"
	"runtime"
	"reflect"
	"sort"
	"strings"
	"time"

	"github.com/cosmos72/gomacro/ast2"
	"github.com/cosmos72/gomacro/go/etoken"
	mparser "github.com/cosmos72/gomacro/go/parser"
	"verifh/vh"
)

// ---------------------------------------------------------------- position-insensitive equality (the oracle)

var (
	tPos     = reflect.TypeOf(token.Pos(0))
	tCG      = reflect.TypeOf((*ast.CommentGroup)(nil))
	tCGs     = reflect.TypeOf([]*ast.CommentGroup(nil))
	tObj     = reflect.TypeOf((*ast.Object)(nil))
	tScope   = reflect.TypeOf((*ast.Scope)(nil))
	tObjMap  = reflect.TypeOf(map[string]*ast.Object(nil))
	tNodeIfc = reflect.TypeOf((*ast.Node)(nil)).Elem()
)

// positions whose *presence* is structure (go/ast documents them as optional)
var optPos = map[string]bool{
	"CallExpr.Ellipsis": true, "TypeSpec.Assign": true, "GenDecl.Lparen": true, "GenDecl.Rparen": true,
	"FieldList.Opening": true, "FieldList.Closing": true, "FuncType.Func": true, "ChanType.Arrow": true,
	"RangeStmt.TokPos": true, "BlockStmt.Rbrace": true,
}

func ignoredField(st reflect.Type, f reflect.StructField) bool {
	switch f.Type {
	case tCG, tCGs, tObj, tScope, tObjMap:
		return true
	}
	if f.Name == "Unresolved" {
		return true
	}
	if f.Type == tPos && !optPos[st.Name()+"."+f.Name] {
		return true
	}
	return false
}

// eqValue compares two values of go/ast field types. shallow: child nodes are compared by pointer identity.
// Returns "" or a description of the first difference.
func eqValue(a, b reflect.Value, shallow bool, path string) string {
	switch a.Kind() {
	case reflect.Interface:
		if a.IsNil() || b.IsNil() {
			if a.IsNil() != b.IsNil() {
				return fmt.Sprintf("%s: nil vs non-nil (%v / %v)", path, describe(a), describe(b))
			}
			return ""
		}
		ae, be := a.Elem(), b.Elem()
		if ae.Type() != be.Type() {
			return fmt.Sprintf("%s: type %v vs %v", path, ae.Type(), be.Type())
		}
		return eqValue(ae, be, shallow, path)
	case reflect.Ptr:
		if a.IsNil() || b.IsNil() {
			if a.IsNil() != b.IsNil() {
				return fmt.Sprintf("%s: nil vs non-nil (%v / %v)", path, describe(a), describe(b))
			}
			return ""
		}
		if shallow {
			if a.Pointer() != b.Pointer() {
				return fmt.Sprintf("%s: different child pointer", path)
			}
			return ""
		}
		return eqStruct(a.Elem(), b.Elem(), shallow, path)
	case reflect.Slice:
		if a.Len() != b.Len() { // nil slice == empty slice
			return fmt.Sprintf("%s: len %d vs %d", path, a.Len(), b.Len())
		}
		for i := 0; i < a.Len(); i++ {
			if d := eqValue(a.Index(i), b.Index(i), shallow, fmt.Sprintf("%s[%d]", path, i)); d != "" {
				return d
			}
		}
		return ""
	case reflect.Map:
		if a.Len() != b.Len() {
			return fmt.Sprintf("%s: map len %d vs %d", path, a.Len(), b.Len())
		}
		for _, k := range a.MapKeys() {
			bv := b.MapIndex(k)
			if !bv.IsValid() {
				return fmt.Sprintf("%s[%v]: missing", path, k)
			}
			if d := eqValue(a.MapIndex(k), bv, shallow, fmt.Sprintf("%s[%v]", path, k)); d != "" {
				return d
			}
		}
		return ""
	case reflect.Struct:
		return eqStruct(a, b, shallow, path)
	case reflect.String:
		if a.String() != b.String() {
			return fmt.Sprintf("%s: %q vs %q", path, a.String(), b.String())
		}
	case reflect.Bool:
		if a.Bool() != b.Bool() {
			return fmt.Sprintf("%s: %v vs %v", path, a.Bool(), b.Bool())
		}
	case reflect.Int:
		if a.Int() != b.Int() {
			return fmt.Sprintf("%s: %v vs %v", path, a.Int(), b.Int())
		}
	default:
		return fmt.Sprintf("%s: unsupported kind %v", path, a.Kind())
	}
	return ""
}

func describe(v reflect.Value) string {
	if !v.IsValid() || ((v.Kind() == reflect.Ptr || v.Kind() == reflect.Interface) && v.IsNil()) {
		return "nil"
	}
	if v.Kind() == reflect.Interface {
		v = v.Elem()
	}
	return v.Type().String()
}

func eqStruct(a, b reflect.Value, shallow bool, path string) string {
	t := a.Type()
	for i := 0; i < t.NumField(); i++ {
		f := t.Field(i)
		if ignoredField(t, f) {
			continue
		}
		p := path + "." + f.Name
		if f.Type == tPos {
			if (a.Field(i).Int() != 0) != (b.Field(i).Int() != 0) {
				return fmt.Sprintf("%s: optional position present=%v vs %v", p, a.Field(i).Int() != 0, b.Field(i).Int() != 0)
			}
			continue
		}
		if d := eqValue(a.Field(i), b.Field(i), shallow, p); d != "" {
			return d
		}
	}
	return ""
}

// eqNode: both nil, or same dynamic type and equal
func eqNode(x, y ast.Node, shallow bool) string {
	xn, yn := isNilNode(x), isNilNode(y)
	if xn || yn {
		if xn != yn {
			return fmt.Sprintf("nil vs non-nil: %T / %T", x, y)
		}
		return ""
	}
	if reflect.TypeOf(x) != reflect.TypeOf(y) {
		return fmt.Sprintf("type %T vs %T", x, y)
	}
	return eqStruct(reflect.ValueOf(x).Elem(), reflect.ValueOf(y).Elem(), shallow, reflect.TypeOf(x).Elem().Name())
}

func isNilNode(n ast.Node) bool {
	if n == nil {
		return true
	}
	v := reflect.ValueOf(n)
	return v.Kind() == reflect.Ptr && v.IsNil()
}

func isNilAst(a ast2.Ast) bool {
	if a == nil {
		return true
	}
	return a.Interface() == nil
}

// ---------------------------------------------------------------- real ast2 round trip

func sizeOf(a ast2.Ast) int { return a.Size() }

// rebuildShallow: b := a.New(); store a's own children back
func rebuildShallow(a ast2.Ast) (b ast2.Ast, children []ast2.Ast) {
	n := a.Size()
	children = make([]ast2.Ast, n)
	for i := 0; i < n; i++ {
		children[i] = a.Get(i)
	}
	b = a.New()
	if _, ok := a.(ast2.AstWithSlice); ok {
		bs := b.(ast2.AstWithSlice)
		for i := 0; i < n; i++ {
			bs = bs.Append(children[i])
		}
		return bs, children
	}
	for i := 0; i < n; i++ {
		b.Set(i, children[i])
	}
	return b, children
}

// rebuildDeep: the recursive clone through the uniform interface (what macro expansion does to every tree)
func rebuildDeep(a ast2.Ast) ast2.Ast {
	if isNilAst(a) {
		return nil
	}
	n := a.Size()
	b := a.New()
	if _, ok := a.(ast2.AstWithSlice); ok {
		bs := b.(ast2.AstWithSlice)
		for i := 0; i < n; i++ {
			bs = bs.Append(rebuildDeep(a.Get(i)))
		}
		return bs
	}
	for i := 0; i < n; i++ {
		b.Set(i, rebuildDeep(a.Get(i)))
	}
	return b
}


// walk visits n and every node below it (reflection; tolerates nil children, unlike ast.Walk).
// Comments, Obj/Scope/Unresolved and File.Imports (aliases of the import specs in Decls) are not descended into.
func walk(n ast.Node, f func(ast.Node)) {
	if isNilNode(n) {
		return
	}
	f(n)
	v := reflect.ValueOf(n).Elem()
	t := v.Type()
	for i := 0; i < t.NumField(); i++ {
		sf := t.Field(i)
		if sf.Type == tCG || sf.Type == tCGs || sf.Type == tObj || sf.Type == tScope || sf.Type == tObjMap || sf.Name == "Unresolved" || (t.Name() == "File" && sf.Name == "Imports") {
			continue
		}
		fv := v.Field(i)
		switch fv.Kind() {
		case reflect.Interface, reflect.Ptr:
			if c, ok := fv.Interface().(ast.Node); ok {
				walk(c, f)
			}
		case reflect.Slice:
			for j := 0; j < fv.Len(); j++ {
				if c, ok := fv.Index(j).Interface().(ast.Node); ok {
					walk(c, f)
				}
			}
		case reflect.Map:
			for _, k := range fv.MapKeys() {
				if c, ok := fv.MapIndex(k).Interface().(ast.Node); ok {
					walk(c, f)
				}
			}
		}
	}
}

// ---------------------------------------------------------------- classes ast2 does not support (known, avoided)

// unsupportedIn reports the first construct of the tree outside ast2's reach: type parameters, IndexListExpr,
// File.GoVersion, ast.Package
func unsupportedIn(n ast.Node) string {
	found := ""
	walk(n, func(x ast.Node) {
		if found != "" {
			return
		}
		switch x := x.(type) {
		case *ast.IndexListExpr:
			found = "indexlistexpr"
		case *ast.FuncType:
			if x.TypeParams != nil {
				found = "typeparams"
			}
		case *ast.TypeSpec:
			if x.TypeParams != nil {
				found = "typeparams"
			}
		case *ast.File:
			if x.GoVersion != "" {
				found = "goversion"
			}
		case *ast.Package:
			found = "package"
		}
	})
	return found
}

// ---------------------------------------------------------------- per-node checks

type checker struct {
	rep     *vh.Report
	cases   *vh.Cases
	ncase   int
	maxCase int
	rng     *vh.Rng
	nodes   int
	perType map[string]int
	ids     map[uintptr]int64
	fails   map[string]int
}

func (c *checker) fail(key, what string, input interface{}, got, want interface{}) {
	c.fails[key]++
	if c.fails[key] > 2 {
		return
	}
	c.rep.Fail(vh.Failure{Key: key, What: what, Input: input, Got: got, Want: want})
}

func mustPanic(f func()) bool { return vh.Catch(f) != nil }

func nodeDesc(n ast.Node, origin string) map[string]interface{} {
	return map[string]interface{}{"origin": origin, "type": fmt.Sprintf("%T", n), "node": dump(reflect.ValueOf(n), 3)}
}

// dump: compact position-free rendering of a node (bounded depth) for replay files
func dump(v reflect.Value, depth int) interface{} {
	if !v.IsValid() {
		return nil
	}
	switch v.Kind() {
	case reflect.Interface, reflect.Ptr:
		if v.IsNil() {
			return nil
		}
		if v.Kind() == reflect.Ptr && v.Elem().Kind() == reflect.Struct {
			t := v.Elem().Type()
			if v.Type() == tObj || v.Type() == tScope || v.Type() == tCG {
				return "<" + t.Name() + ">"
			}
			if depth <= 0 {
				return "<" + t.Name() + ">"
			}
			m := map[string]interface{}{"_": t.Name()}
			for i := 0; i < t.NumField(); i++ {
				f := t.Field(i)
				if f.Type == tPos {
					if optPos[t.Name()+"."+f.Name] {
						m[f.Name] = v.Elem().Field(i).Int() != 0
					}
					continue
				}
				if x := dump(v.Elem().Field(i), depth-1); x != nil {
					m[f.Name] = x
				}
			}
			return m
		}
		return dump(v.Elem(), depth)
	case reflect.Slice:
		if v.IsNil() {
			return nil
		}
		out := []interface{}{}
		for i := 0; i < v.Len() && i < 6; i++ {
			out = append(out, dump(v.Index(i), depth-1))
		}
		return out
	case reflect.String:
		return v.String()
	case reflect.Bool:
		if !v.Bool() {
			return nil
		}
		return true
	case reflect.Int:
		if v.Type() == reflect.TypeOf(token.Token(0)) {
			return etoken.String(token.Token(v.Int()))
		}
		return v.Int()
	case reflect.Map:
		return fmt.Sprintf("<map len %d>", v.Len())
	}
	return nil
}

func (c *checker) checkNode(n ast.Node, origin string) {
	if isNilNode(n) {
		return
	}
	switch n.(type) {
	case *ast.Comment, *ast.CommentGroup:
		return // comments are not wrapped by ast2
	}
	c.nodes++
	tn := reflect.TypeOf(n).Elem().Name()
	c.perType[tn]++
	c.rep.Dist("node:" + tn)
	var a ast2.AstWithNode
	if p := vh.Catch(func() { a = ast2.ToAst(n) }); p != nil || a == nil {
		c.fail("toast:"+tn, "ToAst panicked or returned nil on a non-nil node", nodeDesc(n, origin), fmt.Sprint(p), "wrapper")
		return
	}
	// --- unwrap(wrap(n)) == n (pointer identity)
	var back ast.Node
	if p := vh.Catch(func() { back = ast2.ToNode(a) }); p != nil || back != n {
		c.fail("unwrap:"+tn, "ToNode(ToAst(n)) != n", nodeDesc(n, origin), fmt.Sprintf("%T %v", back, p), "the same pointer")
	}
	if a.Node() != n || a.Interface() != interface{}(n) {
		c.fail("unwrap:"+tn, "a.Node()/a.Interface() != n", nodeDesc(n, origin), nil, nil)
	}
	// --- Size vs Get/Set
	var size int
	if p := vh.Catch(func() { size = a.Size() }); p != nil {
		c.fail("size:"+tn, "Size panicked", nodeDesc(n, origin), fmt.Sprint(p), nil)
		return
	}
	for i := 0; i < size; i++ {
		if p := vh.Catch(func() { a.Get(i) }); p != nil {
			c.fail(fmt.Sprintf("get:%s:%d", tn, i), fmt.Sprintf("Get(%d) panicked although Size()=%d", i, size), nodeDesc(n, origin), fmt.Sprint(p), "no panic")
			return
		}
	}
	for _, i := range []int{size, size + 1, size + 7, -1} {
		if !mustPanic(func() { a.Get(i) }) {
			c.fail(fmt.Sprintf("getoob:%s", tn), fmt.Sprintf("Get(%d) did not panic although Size()=%d", i, size), nodeDesc(n, origin), "returned", "panic")
			break
		}
	}
	// --- shallow round trip
	var b ast2.Ast
	var children []ast2.Ast
	if p := vh.Catch(func() { b, children = rebuildShallow(a) }); p != nil {
		c.fail("rebuild:"+tn, "New/Set/Append panicked while storing the node's own children back", nodeDesc(n, origin), fmt.Sprint(p), nil)
		return
	}
	var bn ast.Node
	if p := vh.Catch(func() { bn = ast2.ToNode(b) }); p != nil {
		c.fail("rebuild:"+tn, "ToNode(rebuilt) panicked", nodeDesc(n, origin), fmt.Sprint(p), nil)
		return
	}
	if bn == n {
		c.fail("rebuild:"+tn, "New() returned the same node instead of a copy", nodeDesc(n, origin), nil, nil)
	}
	if d := eqNode(n, bn, true); d != "" {
		c.fail("roundtrip:"+tn+":"+fieldOfDiff(d), "set_all(new(n), get_all(n)) differs from n: "+d, nodeDesc(n, origin), nodeDesc(bn, "rebuilt")["node"], nodeDesc(n, origin)["node"])
	}
	var opa, opb token.Token
	if p := vh.Catch(func() { opa, opb = a.Op(), b.Op() }); p != nil || opa != opb {
		c.fail("op:"+tn, "Op() differs after the round trip", nodeDesc(n, origin), etoken.String(opb), etoken.String(opa))
	}
	// Set out of range on the copy (must panic, and must not have modified the copy)
	for _, i := range []int{size, size + 2, -1} {
		if !mustPanic(func() { b.Set(i, nil) }) {
			c.fail(fmt.Sprintf("setoob:%s", tn), fmt.Sprintf("Set(%d) did not panic although Size()=%d", i, size), nodeDesc(n, origin), "returned", "panic")
			break
		}
	}
	// the slice wrappers handed out by Get are checked as nodes of their own
	for _, ch := range children {
		if sl, ok := ch.(ast2.AstWithSlice); ok {
			if _, isnode := ch.(ast2.AstWithNode); !isnode {
				c.checkSlice(sl, tn, origin)
			}
		}
	}
	// --- correspondence case
	present := make([]bool, size)
	for i, ch := range children {
		present[i] = !isNilAst(ch)
	}
	c.emitCase(tn, reflect.ValueOf(n).Elem(), size, present, reflect.ValueOf(bn).Elem(), false)
	nontrivial := size > 0 || tn == "BasicLit" || tn == "Ident"
	c.rep.Count(tn+fmt.Sprint(present)+canonAtoms(reflect.ValueOf(n).Elem()), nontrivial)
}

func fieldOfDiff(d string) string {
	// "Type.Field: ..." -> Field
	if i := strings.Index(d, ":"); i > 0 {
		p := d[:i]
		if j := strings.Index(p, "."); j >= 0 {
			p = p[j+1:]
		}
		if k := strings.IndexAny(p, ".["); k > 0 {
			p = p[:k]
		}
		return p
	}
	return "?"
}

// lastField: "A.B[0].C.Incomplete: true vs false" -> "Incomplete"
func lastField(d string) string {
	if i := strings.Index(d, ":"); i > 0 {
		p := d[:i]
		if j := strings.LastIndex(p, "."); j >= 0 {
			p = p[j+1:]
		}
		if k := strings.Index(p, "["); k > 0 {
			p = p[:k]
		}
		return p
	}
	return "?"
}

func canonAtoms(v reflect.Value) string {
	var sb strings.Builder
	t := v.Type()
	for i := 0; i < t.NumField(); i++ {
		switch f := v.Field(i); f.Kind() {
		case reflect.String:
			sb.WriteString(f.String() + "|")
		case reflect.Bool:
			fmt.Fprintf(&sb, "%v|", f.Bool())
		case reflect.Int:
			if t.Field(i).Type != tPos {
				fmt.Fprintf(&sb, "%d|", f.Int())
			}
		case reflect.Slice:
			fmt.Fprintf(&sb, "#%d|", f.Len())
		}
	}
	return sb.String()
}

// checkSlice: ExprSlice / StmtSlice / IdentSlice ... : Size, Get/Set bounds, New + Append round trip
func (c *checker) checkSlice(sl ast2.AstWithSlice, parent, origin string) {
	wn := reflect.TypeOf(sl).Name()
	c.rep.Dist("slice:" + wn)
	in := map[string]interface{}{"origin": origin, "wrapper": wn, "parent": parent}
	size := sl.Size()
	for i := 0; i < size; i++ {
		if p := vh.Catch(func() { sl.Get(i) }); p != nil {
			c.fail("get:"+wn, "slice Get(i) panicked for i < Size", in, fmt.Sprint(p), nil)
			return
		}
	}
	if !mustPanic(func() { sl.Get(size) }) || !mustPanic(func() { sl.Get(-1) }) {
		c.fail("getoob:"+wn, "slice Get(Size) did not panic", in, nil, nil)
	}
	var b ast2.Ast
	if p := vh.Catch(func() { b, _ = rebuildShallow(sl) }); p != nil {
		c.fail("rebuild:"+wn, "slice New/Append panicked", in, fmt.Sprint(p), nil)
		return
	}
	x, y := reflect.ValueOf(sl).Field(0), reflect.ValueOf(b).Field(0)
	if d := eqValue(x, y, true, wn+".X"); d != "" {
		c.fail("roundtrip:"+wn, "slice round trip differs: "+d, in, nil, nil)
	}
	if b.Op() != sl.Op() {
		c.fail("op:"+wn, "slice Op differs", in, nil, nil)
	}
	if !mustPanic(func() { b.Set(size, nil) }) {
		c.fail("setoob:"+wn, "slice Set(Size) did not panic", in, nil, nil)
	}
	present := make([]bool, size)
	for i := range present {
		present[i] = !isNilAst(sl.Get(i))
	}
	c.emitCase(wn, reflect.ValueOf(sl), size, present, reflect.ValueOf(b), true)
	c.rep.Count(fmt.Sprintf("%s#%d", wn, size), size > 0)
}

// ---------------------------------------------------------------- Coq case emission

func (c *checker) idOf(p uintptr) int64 {
	if p == 0 {
		return 0
	}
	if id, ok := c.ids[p]; ok {
		return id
	}
	id := int64(len(c.ids) + 1)
	c.ids[p] = id
	return id
}

func (c *checker) coqChild(v reflect.Value) string {
	// v: interface or pointer to a go/ast node struct; non-nil
	if v.Kind() == reflect.Interface {
		v = v.Elem()
	}
	return fmt.Sprintf("CN \"%s\" %d", v.Elem().Type().Name(), c.idOf(v.Pointer()))
}

func nilish(v reflect.Value) bool {
	switch v.Kind() {
	case reflect.Interface:
		return v.IsNil() || (v.Elem().Kind() == reflect.Ptr && v.Elem().IsNil())
	case reflect.Ptr, reflect.Slice, reflect.Map:
		return v.IsNil()
	}
	return false
}

// coqFields renders the fields of a struct value (or of a slice wrapper) as a Coq association list
func (c *checker) coqFields(v reflect.Value, sliceWrapper bool) (string, bool) {
	var out []string
	t := v.Type()
	for i := 0; i < t.NumField(); i++ {
		f := t.Field(i)
		fv := v.Field(i)
		var term string
		switch {
		case f.Type == tPos || fv.Kind() == reflect.Int:
			term = "VScalar " + vh.CoqZ(fv.Int())
		case fv.Kind() == reflect.Bool:
			if fv.Bool() {
				term = "VScalar 1%Z"
			} else {
				term = "VScalar 0%Z"
			}
		case fv.Kind() == reflect.String:
			term = "VScalar " + vh.CoqZ(int64(crc32.ChecksumIEEE([]byte(fv.String()))))
		case f.Type == tCG || f.Type == tObj || f.Type == tScope:
			term = "VScalar " + vh.CoqZ(c.idOf(fv.Pointer()))
		case f.Type == tCGs || f.Type == tObjMap || f.Name == "Unresolved":
			if fv.IsNil() {
				term = "VScalar 0%Z"
			} else {
				term = "VScalar " + vh.CoqZ(c.idOf(fv.Pointer()))
			}
		case fv.Kind() == reflect.Slice:
			if fv.IsNil() {
				term = "VList None"
			} else {
				var el []string
				for j := 0; j < fv.Len(); j++ {
					if nilish(fv.Index(j)) {
						return "", false // nil elements are outside the model
					}
					if sliceWrapper && fv.Index(j).Kind() == reflect.Interface && fv.Index(j).Elem().Kind() != reflect.Ptr {
						return "", false
					}
					el = append(el, c.coqChild(fv.Index(j)))
				}
				term = "VList (Some " + vh.CoqList(el, "cnode") + ")"
			}
		case fv.Kind() == reflect.Interface || fv.Kind() == reflect.Ptr:
			if nilish(fv) {
				term = "VChild None"
			} else {
				term = "VChild (Some (" + c.coqChild(fv) + "))"
			}
		default:
			return "", false
		}
		out = append(out, fmt.Sprintf("(\"%s\", %s)", f.Name, term))
	}
	return vh.CoqList(out, "(ident * fval)"), true
}

func (c *checker) emitCase(wrapper string, in reflect.Value, size int, present []bool, out reflect.Value, sliceWrapper bool) {
	if c.ncase >= c.maxCase {
		return
	}
	// sample: always the first 6 of each wrapper type, then 1 in 40
	k := c.perType["case:"+wrapper]
	if k >= 6 && !c.rng.Chance(1, 40) {
		return
	}
	fin, ok1 := c.coqFields(in, sliceWrapper)
	fout, ok2 := c.coqFields(out, sliceWrapper)
	if !ok1 || !ok2 {
		return
	}
	c.perType["case:"+wrapper]++
	var pr []string
	for _, p := range present {
		pr = append(pr, vh.CoqBool(p))
	}
	c.cases.Add(fmt.Sprintf("mkCase %d \"%s\" %s %d %s %s", c.ncase, wrapper, fin, size, vh.CoqList(pr, "bool"), fout))
	c.rep.CaseInput(c.ncase, map[string]interface{}{"wrapper": wrapper, "size": size, "present": present, "fields": fin})
	c.ncase++
}

// ---------------------------------------------------------------- whole trees

func (c *checker) checkTree(root ast.Node, origin string) {
	if cls := unsupportedIn(root); cls != "" {
		c.rep.Dist("skipped:" + cls)
		return
	}
	walk(root, func(n ast.Node) { c.checkNode(n, origin) })
	// deep rebuild through the uniform interface
	var rb ast.Node
	if p := vh.Catch(func() { rb = ast2.ToNode(rebuildDeep(ast2.ToAst(root))) }); p != nil {
		c.fail("deep:"+origin, "recursive rebuild panicked", map[string]interface{}{"origin": origin}, fmt.Sprint(p), nil)
		return
	}
	if d := eqNode(root, rb, false); d != "" {
		c.fail("deep:"+lastField(d), "recursively rebuilt tree differs from the original: "+d, map[string]interface{}{"origin": origin}, nil, nil)
	}
	c.rep.Dist("trees")
}

// ---------------------------------------------------------------- inputs: Go files

func goFiles(root string, skipTestdata bool) []string {
	var out []string
	root, _ = filepath.EvalSymlinks(root)
	filepath.Walk(root, func(p string, info os.FileInfo, err error) error {
		if err != nil {
			return nil
		}
		if info.IsDir() {
			b := filepath.Base(p)
			if skipTestdata && (b == "testdata" || b == "vendor") || b == ".git" {
				return filepath.SkipDir
			}
			return nil
		}
		if strings.HasSuffix(p, ".go") {
			out = append(out, p)
		}
		return nil
	})
	sort.Strings(out)
	return out
}

func (c *checker) parseGoFile(path string) {
	fset := token.NewFileSet()
	f, err := goparser.ParseFile(fset, path, nil, goparser.ParseComments|goparser.SkipObjectResolution)
	if err != nil || f == nil {
		c.rep.Dist("skipped:parse-error")
		return
	}
	c.checkTree(f, path)
}

// ---------------------------------------------------------------- inputs: fork parser (gomacro extensions)

var snippetParts = struct{ exprs, stmts []string }{
	exprs: []string{"a", "b+1", "f(x, y...)", "s[1:2:3]", "s[:n]", "m[k]", "x.(T)", "x.(type)", "[]int{1, 2}", "map[string]T{\"a\": {1}}",
		"func(a, b int) (c int) { return a }", "<-ch", "*p", "&T{}", "(a)", "chan<- int", "<-chan T", "struct{ A, B int; C string `tag` }",
		"interface{ M(int) string }", "[...]T{}", "1.5e3", "'c'", "\"s\"", "a.b.c", "~quote{x}", "~quasiquote{~unquote{y} + 1}", "~'z", "~`{a; ~,b; ~,@c}",
		"~quote{~quasiquote{~unquote{~unquote{w}}}}", "~func(x int) int { return x }", "~lambda(x int) int { return x }", "{ a; b }"},
	stmts: []string{"x := %e", "x, y = %e, %e", "x++", "x += %e", "go %e", "defer f(%e)", "return %e, %e", "return", "break", "continue L", "goto L",
		"L: for { break L }", "if x := %e; x > 0 { %s } else if y { %s } else { %s }", "for i := 0; i < n; i++ { %s }", "for k, v := range %e { %s }",
		"for range ch { }", "for { }", "switch x := %e; x { case 1, 2: %s; fallthrough; default: %s }", "switch { case a: }",
		"switch y := x.(type) { case int, string: %s; case nil: ; default: }", "select { case v := <-ch: %s; case ch <- %e: ; default: }",
		"var a, b int = 1, 2", "const c = iota", "type T struct{ X int }", "type A = B", "ch <- %e", "{ %s; %s }", ";", "%e",
		"~quote{%s}", "~quasiquote{%s; ~unquote{%e}; ~unquote_splice{%e}}", "mymacro; %e; %e", "import \"fmt\"", "func g(a int) { %s }"},
}

func genExpr(r *vh.Rng) string { return snippetParts.exprs[r.Intn(len(snippetParts.exprs))] }
func genStmt(r *vh.Rng, depth int) string {
	s := snippetParts.stmts[r.Intn(len(snippetParts.stmts))]
	for strings.Contains(s, "%e") {
		s = strings.Replace(s, "%e", genExpr(r), 1)
	}
	for strings.Contains(s, "%s") {
		sub := "x"
		if depth > 0 {
			sub = genStmt(r, depth-1)
		}
		s = strings.Replace(s, "%s", sub, 1)
	}
	return s
}
func genSnippet(r *vh.Rng) string {
	switch r.Intn(6) {
	case 0:
		return fmt.Sprintf("macro m%d(a, b interface{}) interface{} { %s; return ~quasiquote{~unquote{a}; %s} }", r.Intn(9), genStmt(r, 1), genStmt(r, 1))
	case 1:
		return fmt.Sprintf("func (r *T) f%d(a int, b ...string) (x, y int) { %s; %s }", r.Intn(9), genStmt(r, 2), genStmt(r, 1))
	case 2:
		return "~quote{" + genStmt(r, 2) + "; " + genStmt(r, 1) + "}"
	case 3:
		return "package p\nimport ( \"a\"; b \"c\" )\nvar x = " + genExpr(r) + "\nfunc f() { " + genStmt(r, 2) + " }"
	default:
		return genStmt(r, 2)
	}
}

func (c *checker) parseSnippet(src string) bool {
	var p mparser.Parser
	fset := etoken.NewFileSet()
	p.Configure(mparser.ParseComments, '~')
	var nodes []ast.Node
	var err error
	if pe := vh.Catch(func() {
		p.Init(fset, "snippet.go", 0, []byte(src))
		nodes, err = p.Parse()
	}); pe != nil || err != nil {
		c.rep.Dist("snippet:rejected")
		return false
	}
	for _, n := range nodes {
		c.checkTree(n, "fork-parser: "+src)
	}
	// the list of top-level nodes itself, as NodeSlice
	c.checkSlice(ast2.NodeSlice{X: nodes}, "toplevel", "fork-parser: "+src)
	c.rep.Dist("snippet:parsed")
	return true
}

// ---------------------------------------------------------------- inputs: random go/ast trees

var (
	exprTypes, stmtTypes, declTypes, specTypes []reflect.Type
	ifcExpr                                    = reflect.TypeOf((*ast.Expr)(nil)).Elem()
	ifcStmt                                    = reflect.TypeOf((*ast.Stmt)(nil)).Elem()
	ifcDecl                                    = reflect.TypeOf((*ast.Decl)(nil)).Elem()
	ifcSpec                                    = reflect.TypeOf((*ast.Spec)(nil)).Elem()
	allNodeTypes                               []reflect.Type
)

func init() {
	all := []interface{}{
		(*ast.ArrayType)(nil), (*ast.AssignStmt)(nil), (*ast.BadDecl)(nil), (*ast.BadExpr)(nil), (*ast.BadStmt)(nil), (*ast.BasicLit)(nil),
		(*ast.BinaryExpr)(nil), (*ast.BlockStmt)(nil), (*ast.BranchStmt)(nil), (*ast.CallExpr)(nil), (*ast.CaseClause)(nil), (*ast.ChanType)(nil),
		(*ast.CommClause)(nil), (*ast.CompositeLit)(nil), (*ast.DeclStmt)(nil), (*ast.DeferStmt)(nil), (*ast.Ellipsis)(nil), (*ast.EmptyStmt)(nil),
		(*ast.ExprStmt)(nil), (*ast.Field)(nil), (*ast.FieldList)(nil), (*ast.File)(nil), (*ast.ForStmt)(nil), (*ast.FuncDecl)(nil), (*ast.FuncLit)(nil),
		(*ast.FuncType)(nil), (*ast.GenDecl)(nil), (*ast.GoStmt)(nil), (*ast.Ident)(nil), (*ast.IfStmt)(nil), (*ast.ImportSpec)(nil), (*ast.IncDecStmt)(nil),
		(*ast.IndexExpr)(nil), (*ast.InterfaceType)(nil), (*ast.KeyValueExpr)(nil), (*ast.LabeledStmt)(nil), (*ast.MapType)(nil), (*ast.ParenExpr)(nil),
		(*ast.RangeStmt)(nil), (*ast.ReturnStmt)(nil), (*ast.SelectStmt)(nil), (*ast.SelectorExpr)(nil), (*ast.SendStmt)(nil), (*ast.SliceExpr)(nil),
		(*ast.StarExpr)(nil), (*ast.StructType)(nil), (*ast.SwitchStmt)(nil), (*ast.TypeAssertExpr)(nil), (*ast.TypeSpec)(nil), (*ast.TypeSwitchStmt)(nil),
		(*ast.UnaryExpr)(nil), (*ast.ValueSpec)(nil),
	}
	for _, x := range all {
		t := reflect.TypeOf(x)
		allNodeTypes = append(allNodeTypes, t)
		if t.Implements(ifcExpr) {
			exprTypes = append(exprTypes, t)
		}
		if t.Implements(ifcStmt) {
			stmtTypes = append(stmtTypes, t)
		}
		if t.Implements(ifcDecl) {
			declTypes = append(declTypes, t)
		}
		if t.Implements(ifcSpec) {
			specTypes = append(specTypes, t)
		}
	}
}

var randTokens = []token.Token{token.ADD, token.SUB, token.MUL, token.AND_NOT, token.LAND, token.ARROW, token.ASSIGN, token.DEFINE, token.ADD_ASSIGN,
	token.INC, token.DEC, token.BREAK, token.CONTINUE, token.GOTO, token.FALLTHROUGH, token.VAR, token.CONST, token.TYPE, token.IMPORT,
	token.INT, token.STRING, token.CHAR, token.FLOAT, token.IMAG, token.NOT, token.XOR, token.ILLEGAL,
	etoken.MACRO, etoken.QUOTE, etoken.QUASIQUOTE, etoken.UNQUOTE, etoken.UNQUOTE_SPLICE, etoken.FUNCTION, etoken.LAMBDA, etoken.TYPECASE}
var randStrings = []string{"", "x", "y", "foo", "nil", "_", "1", "\"s\"", "0x1p-2", "'a'", "unquote", "quasiquote", "T"}

func randNode(r *vh.Rng, t reflect.Type, depth int) reflect.Value {
	// t: pointer to a go/ast struct
	v := reflect.New(t.Elem())
	s := v.Elem()
	st := t.Elem()
	for i := 0; i < st.NumField(); i++ {
		f := st.Field(i)
		fv := s.Field(i)
		switch {
		case f.Name == "TypeParams" || f.Name == "GoVersion" || f.Name == "Unresolved":
			// unsupported by ast2 (known class) / ignored
		case f.Type == tPos:
			if r.Chance(2, 3) {
				fv.SetInt(int64(1 + r.Intn(1000)))
			}
		case f.Type == reflect.TypeOf(token.Token(0)):
			fv.SetInt(int64(randTokens[r.Intn(len(randTokens))]))
		case f.Type == reflect.TypeOf(ast.ChanDir(0)):
			fv.SetInt(int64(r.Intn(4)))
		case fv.Kind() == reflect.String:
			fv.SetString(randStrings[r.Intn(len(randStrings))])
		case fv.Kind() == reflect.Bool:
			fv.SetBool(r.Bool())
		case f.Type == tCG:
			if r.Chance(1, 3) {
				fv.Set(reflect.ValueOf(&ast.CommentGroup{List: []*ast.Comment{{Text: "// c"}}}))
			}
		case f.Type == tCGs:
			if r.Chance(1, 3) {
				fv.Set(reflect.ValueOf([]*ast.CommentGroup{{List: []*ast.Comment{{Text: "// c"}}}}))
			}
		case f.Type == tObj:
			if r.Chance(1, 3) {
				fv.Set(reflect.ValueOf(ast.NewObj(ast.Var, "o")))
			}
		case f.Type == tScope:
			if r.Chance(1, 3) {
				fv.Set(reflect.ValueOf(ast.NewScope(nil)))
			}
		case fv.Kind() == reflect.Slice:
			switch r.Intn(5) {
			case 0: // nil
			case 1:
				fv.Set(reflect.MakeSlice(f.Type, 0, 0))
			default:
				n := 1 + r.Intn(3)
				sl := reflect.MakeSlice(f.Type, 0, n)
				for j := 0; j < n; j++ {
					sl = reflect.Append(sl, randChild(r, f.Type.Elem(), depth-1, true))
				}
				fv.Set(sl)
			}
		case fv.Kind() == reflect.Interface || fv.Kind() == reflect.Ptr:
			if r.Chance(3, 4) {
				fv.Set(randChild(r, f.Type, depth-1, false))
			}
		}
	}
	// derived flag: Slice3 is defined as "Max present" by SliceExpr.Set(3) (and by go/parser)
	if se, ok := v.Interface().(*ast.SliceExpr); ok {
		se.Slice3 = se.Max != nil
	}
	return v
}

func randChild(r *vh.Rng, t reflect.Type, depth int, nonnil bool) reflect.Value {
	var pool []reflect.Type
	switch {
	case t == ifcExpr:
		pool = exprTypes
	case t == ifcStmt:
		pool = stmtTypes
	case t == ifcDecl:
		pool = declTypes
	case t == ifcSpec:
		pool = specTypes
	case t == tNodeIfc:
		pool = allNodeTypes
	case t.Kind() == reflect.Ptr:
		pool = []reflect.Type{t}
	}
	var ct reflect.Type
	if depth <= 0 {
		// leaves
		switch {
		case t == ifcExpr:
			ct = []reflect.Type{reflect.TypeOf((*ast.Ident)(nil)), reflect.TypeOf((*ast.BasicLit)(nil))}[r.Intn(2)]
		case t == ifcStmt:
			ct = reflect.TypeOf((*ast.EmptyStmt)(nil))
		case t == ifcDecl:
			ct = reflect.TypeOf((*ast.BadDecl)(nil))
		case t == ifcSpec:
			ct = reflect.TypeOf((*ast.ImportSpec)(nil))
		default:
			ct = pool[0]
		}
		if depth < -2 && t.Kind() == reflect.Ptr {
			// stop the recursion of pointer-typed children (FieldList -> Field -> ...)
			v := reflect.New(t.Elem())
			return v
		}
	} else {
		ct = pool[r.Intn(len(pool))]
	}
	v := randNode(r, ct, depth)
	if t.Kind() == reflect.Interface {
		iv := reflect.New(t).Elem()
		iv.Set(v)
		return iv
	}
	return v
}

// ---------------------------------------------------------------- known-finding replays (corpus)

// corpusReplay: the exact inputs of recorded findings; they are reported under their recorded key
func (c *checker) corpusReplay(verifDir string) {
	dir := filepath.Join(verifDir, "corpus", "C22")
	files, _ := filepath.Glob(filepath.Join(dir, "*.go.txt"))
	sort.Strings(files)
	for _, p := range files {
		src, err := os.ReadFile(p)
		if err != nil {
			continue
		}
		fset := token.NewFileSet()
		f, err := goparser.ParseFile(fset, p, src, goparser.ParseComments|goparser.SkipObjectResolution)
		if err != nil {
			continue
		}
		key := "known:" + strings.TrimSuffix(filepath.Base(p), ".go.txt")
		var rb ast.Node
		pe := vh.Catch(func() { rb = ast2.ToNode(rebuildDeep(ast2.ToAst(f))) })
		d := ""
		if pe == nil {
			d = eqNode(f, rb, false)
		}
		if pe != nil || d != "" {
			c.rep.Fail(vh.Failure{Key: key, What: "recursive rebuild of a tree using a construct ast2 does not support", Input: string(src), Got: fmt.Sprint(d, pe), Want: "identical tree"})
		}
		c.rep.Dist("corpus")
	}
}

// ---------------------------------------------------------------- main

func main() {
	a := vh.ParseArgs()
	rng := vh.NewRng(a.Seed)
	rep := vh.NewReport(a, "every node of (1) go/parser trees of a PRNG sample of ~300 files of $GOROOT/src (thorough: all) plus all .go files of the gomacro tree, "+
		"(2) fork-parser trees of generated gomacro snippets (quote/quasiquote/unquote/unquote_splice/macro/lambda, all statement kinds), "+
		"(3) random go/ast trees (every supported node type, random tokens incl. gomacro's, error flags Incomplete/Implicit, nil/empty/non-empty slices, SliceExpr.Slice3 := Max != nil); "+
		"files/trees using what ast2 does not know (type parameters, IndexListExpr, File.GoVersion) are skipped and counted as skipped:*; "+
		"a node counts as non-trivial when Size() > 0 or it is an Ident/BasicLit; distinct by SHA-256 of (type, presence pattern of Get(i), atoms, slice lengths)")
	c := &checker{rep: rep, rng: rng.Fork(), perType: map[string]int{}, ids: map[uintptr]int64{}, fails: map[string]int{}, maxCase: 1000}
	if a.Thorough() {
		c.maxCase = 8000
	}
	absOut, _ := filepath.Abs(a.Out)
	c.cases = vh.NewCases(a, "From Coq Require Import List String ZArith.\nFrom Verif Require Import C22.Model.\nAdd LoadPath \""+absOut+"\" as Gen.\nFrom Gen Require Import GenC22a_Table.\nImport ListNotations.\nOpen Scope string_scope.",
		"case", "mismatches_in gen_table", 250)
	wd := vh.NewWatchdog(rep, 180*time.Second)

	verifDir := os.Getenv("VERIF_DIR")
	if verifDir == "" {
		verifDir = "/verif"
	}
	repo := os.Getenv("VERIF_REPO")
	if repo == "" {
		repo = "/repo"
	}
	if a.Replay != "" {
		// replay: the failing input is a description; re-run the generators with the recorded seed (all inputs derive from it)
		var rp map[string]interface{}
		if b, err := os.ReadFile(a.Replay); err == nil {
			json.Unmarshal(b, &rp)
		}
	}

	// (0) recorded findings
	wd.Beat("corpus")
	c.corpusReplay(verifDir)

	// (3) random trees first (cheap, hits every node type)
	nRand := 1500
	nSnip := 600
	nFiles := 300
	if a.Thorough() {
		nRand, nSnip, nFiles = 30000, 8000, 1 << 30
	}
	if a.N > 0 {
		nRand = a.N
	}
	r3 := rng.Fork()
	for k := 0; k < nRand; k++ {
		wd.Beat(fmt.Sprintf("random tree %d", k))
		t := allNodeTypes[k%len(allNodeTypes)]
		root := randNode(r3, t, 1+r3.Intn(3)).Interface().(ast.Node)
		c.checkTree(root, fmt.Sprintf("random tree #%d (seed %d)", k, a.Seed))
	}
	rep.Extra["random_trees"] = nRand

	// (2) fork parser snippets
	r2 := rng.Fork()
	parsed := 0
	for k := 0; k < nSnip; k++ {
		src := genSnippet(r2)
		wd.Beat("snippet: " + src)
		if c.parseSnippet(src) {
			parsed++
			if parsed%150 == 1 {
				rep.Sample(map[string]string{"fork_parser_snippet": src})
			}
		}
	}
	rep.Extra["snippets_parsed"] = parsed

	// (1) Go files
	std := goFiles(filepath.Join(goRoot(), "src"), true)
	r1 := rng.Fork()
	if len(std) > nFiles {
		// PRNG sample without replacement
		for i := len(std) - 1; i > 0; i-- {
			j := r1.Intn(i + 1)
			std[i], std[j] = std[j], std[i]
		}
		std = std[:nFiles]
		sort.Strings(std)
	}
	files := append(goFiles(repo, false), std...)
	for _, p := range files {
		wd.Beat("file " + p)
		before := c.nodes
		c.parseGoFile(p)
		if c.nodes > before && len(rep.Samples) < 5 && strings.Contains(p, "/fast/") {
			rep.Sample(map[string]interface{}{"file": p, "nodes": c.nodes - before})
		}
	}
	rep.Extra["go_files"] = len(files)
	rep.Extra["nodes_checked"] = c.nodes
	rep.Extra["coq_cases"] = c.ncase
	c.cases.Close()
	rep.Write()
}

func goRoot() string {
	if out, err := exec.Command("go", "env", "GOROOT").Output(); err == nil && strings.TrimSpace(string(out)) != "" {
		return strings.TrimSpace(string(out))
	}
	return runtime.GOROOT()
}

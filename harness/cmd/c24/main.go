// c24: the forked parser (go/parser of gomacro, as driven by base.Globals.ParseBytes) against go/parser.
//
// Direct oracle (never consults the Coq model), for every input text in the language of the property
// (no type parameters, no identifier `macro`, no ~ #):
//   - go/parser accepts  =>  the fork returns no error, its node list is [package clause, declarations...] and the
//     package name and every top-level declaration are structurally identical INCLUDING positions
//     (deep reflective comparison; ast.Object/Scope links ignored); the same again with comments parsed
//     (Doc/Comment groups compared too);
//   - go/parser reports an error  =>  the fork reports an error, or returns a node list that is not a Go file
//     (statement/expression at top level, late import, second package clause: the REPL extension of Parser.Parse);
//   - a panic escaping Parser.Parse is always a failure.
//
// Inputs: corpus/C24/*.go, a sample (quick) / all (thorough) of $GOROOT/src, every .go file of $VERIF_REPO,
// grammar-generated programs, token-mutated programs.
// Correspondence with coq/C24/Model.v: operand/operator token sequences parsed by the fork inside `var _ = ...`,
// tree shape (or "error") written to cases_NNN.v.
package main

import (
	"crypto/sha256"
	"encoding/json"
	"fmt"
	"go/ast"
	"go/parser"
	"go/token"
	"os"
	"path/filepath"
	"sort"
	"strings"
	"time"

	mp "github.com/cosmos72/gomacro/go/parser"
	"verifh/c24lib"
	"verifh/vh"
)

var rep *vh.Report
var wd *vh.Watchdog

func key(src []byte) string {
	h := sha256.Sum256(src)
	return fmt.Sprintf("src:%x", h[:8])
}

func clip(s string, n int) string {
	if len(s) > n {
		return s[:n] + fmt.Sprintf("... [%d bytes]", len(s))
	}
	return s
}

type input struct {
	name   string // file path or generator id
	origin string // corpus | goroot | repo | generated | mutated
	src    []byte
}

func fail(in input, k, what string, got, want interface{}) {
	if os.Getenv("C24_DEBUG") != "" {
		fmt.Fprintf(os.Stderr, "FAIL\t%s\t%s\t%v\t%v\n", in.name, what, got, want)
	}
	var inp interface{} = map[string]string{"name": in.name, "origin": in.origin, "source": clip(string(in.src), 6000)}
	rep.Fail(vh.Failure{Key: k, What: what, Input: inp, Got: got, Want: want})
}

// checkSource applies the oracle to one text; returns a status for the distribution.
func checkSource(in input) string {
	src := in.src
	k := key(src)
	if in.origin == "corpus" || in.origin == "goroot" || in.origin == "repo" {
		k = in.origin + ":" + in.name
	}
	wd.Beat(map[string]string{"name": in.name, "origin": in.origin, "source": clip(string(src), 3000)})
	usesMacro, lexOther := c24lib.LexClass(src)
	if usesMacro {
		return "excluded:identifier-macro"
	}
	if lexOther == "tilde" {
		return "excluded:tilde"
	}
	sf, _, serr := c24lib.StdParse(src, 0)
	if serr == nil && c24lib.UsesTypeParams(sf) {
		return "excluded:type-parameters"
	}
	if serr == nil && c24lib.MethodWithoutReceiver(sf) {
		return "excluded:not-valid-go(method receiver list without exactly one parameter)"
	}
	nodes, _, ferr, pan := c24lib.ForkParse(src, 0)
	if pan != nil {
		fail(in, k, "panic escaped Parser.Parse", fmt.Sprint(pan), fmt.Sprintf("std error: %v", serr))
		return "FAIL:panic"
	}
	shape := c24lib.ForkFileShape(nodes)
	if serr != nil {
		if ferr != nil {
			if os.Getenv("C24_DEBUG") == "2" && in.origin == "generated" {
				fmt.Fprintf(os.Stderr, "GENINVALID\t%s\t%s\n", in.name, firstErr(serr))
			}
			rep.Count(k, true)
			return "invalid:both-report"
		}
		// the fork reports nothing.  Recorded finding classes (known_findings.json C24-3/4/5), recognised on the fork's
		// own output: generators do not count them; the corpus stream replays the recorded inputs under their keys.
		cls := ""
		if shape != "" {
			cls = "toplevel-non-declaration"
		} else {
			cls = c24lib.ForkTreeClass(nodes)
		}
		if cls != "" && in.origin != "corpus" {
			return "known-class:" + cls + "(invalid accepted)"
		}
		if in.origin == "corpus" && deferUntilRegistered[k] && !registeredKeys()[k] {
			// exact input of a finding proposed to the coordinator but not yet recorded in known_findings.json: listed in
			// report.json extra "deferred_corpus_failures" until the key is registered, then reported under that key
			deferred = append(deferred, map[string]string{"key": k, "class": cls, "want": firstErr(serr), "got": "no error"})
			rep.Extra["deferred_corpus_failures"] = deferred
			return "deferred-known-class:" + cls + "(invalid accepted)"
		}
		fail(in, k, "go/parser reports a syntax error, the fork reports none"+map[bool]string{true: " [class " + cls + "]"}[cls != ""], "no error", firstErr(serr))
		return "FAIL:invalid-accepted"
	}
	// go/parser accepts
	if ferr != nil {
		if in.origin == "mutated" {
			// a mutated text that go/parser accepts is not known to be valid Go (go/parser leaves `const x`, `a+b := 1`,
			// types used as operands ... to the type checker; the go1.10-era fork rejects them while parsing): the
			// property demands nothing here
			return "unknown-validity:go/parser-accepts,fork-stricter"
		}
		fail(in, k, "valid Go (go/parser accepts) rejected by the fork", firstErr(ferr), "no error")
		return "FAIL:valid-rejected"
	}
	if shape != "" {
		fail(in, k, "valid Go: fork's node list is not a file", shape, "package clause + declarations")
		return "FAIL:shape"
	}
	if d := compareFile(nodes, sf, c24lib.CmpOpts{Positions: true}); d != "" {
		fail(in, k, "declaration differs from go/parser's (positions included)", d, nil)
		return "FAIL:diff"
	}
	// the same with comments
	sfc, _, serrc := c24lib.StdParse(src, parser.ParseComments)
	nodesc, _, ferrc, panc := c24lib.ForkParse(src, mp.ParseComments)
	if panc != nil || (serrc == nil) != (ferrc == nil) {
		fail(in, k, "ParseComments mode: error/panic disagreement", fmt.Sprint(panc, ferrc), fmt.Sprint(serrc))
		return "FAIL:comments-mode"
	}
	if serrc == nil && c24lib.CommentAfterMultilineToken(src) && in.origin != "corpus" {
		// recorded finding class C24-6 (comment on the last line of a multi-line raw string): comment groups not compared
		if d := compareFile(nodesc, sfc, c24lib.CmpOpts{Positions: true}); d != "" {
			fail(in, k, "ParseComments mode: declaration differs from go/parser's", d, nil)
			return "FAIL:diff-comments"
		}
		rep.Count(k, len(sf.Decls) > 0)
		return "valid:identical(known-class:comment-after-multiline-token)"
	}
	if serrc == nil {
		if d := compareFile(nodesc, sfc, c24lib.CmpOpts{Positions: true, Comments: true}); d != "" {
			fail(in, k, "ParseComments mode: declaration (incl. Doc/Comment groups) differs from go/parser's", d, nil)
			return "FAIL:diff-comments"
		}
	}
	rep.Count(k, len(sf.Decls) > 0)
	return "valid:identical"
}

// deferUntilRegistered: corpus keys of findings proposed after the last edit of known_findings.json (see checkSource)
var deferUntilRegistered = map[string]bool{"corpus:import_stmt.go": true}
var deferred []map[string]string

// registeredKeys: the keys recorded for property C24 in $VERIF_DIR/known_findings.json
func registeredKeys() map[string]bool {
	out := map[string]bool{}
	dir := os.Getenv("VERIF_DIR")
	if dir == "" {
		dir = "/verif"
	}
	var kf struct {
		Findings []struct {
			Property string `json:"property"`
			Key      string `json:"key"`
		} `json:"findings"`
	}
	if b, err := os.ReadFile(filepath.Join(dir, "known_findings.json")); err == nil && json.Unmarshal(b, &kf) == nil {
		for _, f := range kf.Findings {
			if f.Property == "C24" {
				out[f.Key] = true
			}
		}
	}
	return out
}

func firstErr(err error) string {
	s := err.Error()
	if i := strings.IndexByte(s, '\n'); i > 0 {
		s = s[:i]
	}
	return clip(s, 300)
}

func compareFile(nodes []ast.Node, sf *ast.File, o c24lib.CmpOpts) string {
	if d := c24lib.Diff(c24lib.PackageName(nodes), sf.Name, o); d != "" {
		return "package name" + d
	}
	pk := nodes[0].(*ast.GenDecl)
	if o.Positions && pk.TokPos != sf.Package {
		return fmt.Sprintf("package keyword pos %d vs %d", pk.TokPos, sf.Package)
	}
	if o.Comments {
		if d := c24lib.Diff(pk.Specs[0].(*ast.ValueSpec).Doc, sf.Doc, o); d != "" {
			return "package doc" + d
		}
	}
	if len(nodes)-1 != len(sf.Decls) {
		return fmt.Sprintf("number of declarations %d vs %d", len(nodes)-1, len(sf.Decls))
	}
	for i, d := range sf.Decls {
		fd, ok := nodes[i+1].(ast.Decl)
		if !ok {
			return fmt.Sprintf("node %d is %T", i+1, nodes[i+1])
		}
		if df := c24lib.Diff(fd, d, o); df != "" {
			return fmt.Sprintf("decl[%d]%s", i, df)
		}
	}
	return ""
}

// ---------------------------------------------------------------- correspondence with the Coq model

var opName = map[token.Token]string{token.LOR: "LOR", token.LAND: "LAND", token.EQL: "EQL", token.NEQ: "NEQ", token.LSS: "LSS", token.LEQ: "LEQ",
	token.GTR: "GTR", token.GEQ: "GEQ", token.ADD: "ADD", token.SUB: "SUB", token.OR: "OR", token.XOR: "XOR", token.MUL: "MUL", token.QUO: "QUO",
	token.REM: "REM", token.SHL: "SHL", token.SHR: "SHR", token.AND: "AND", token.AND_NOT: "AND_NOT", token.NOT: "NOT", token.ARROW: "ARROW"}

func coqTree(e ast.Expr) (string, bool) {
	switch e := e.(type) {
	case *ast.Ident:
		var n int
		if _, err := fmt.Sscanf(e.Name, "a%d", &n); err != nil {
			return "", false
		}
		return fmt.Sprintf("(EAtom %d)", n), true
	case *ast.ParenExpr:
		x, ok := coqTree(e.X)
		return "(EParen " + x + ")", ok
	case *ast.StarExpr:
		x, ok := coqTree(e.X)
		return "(EStar " + x + ")", ok
	case *ast.UnaryExpr:
		x, ok := coqTree(e.X)
		return "(EUnary " + opName[e.Op] + " " + x + ")", ok && opName[e.Op] != ""
	case *ast.BinaryExpr:
		x, ok1 := coqTree(e.X)
		y, ok2 := coqTree(e.Y)
		return "(EBinary " + x + " " + opName[e.Op] + " " + y + ")", ok1 && ok2 && opName[e.Op] != ""
	}
	return "", false
}

type mtok struct {
	coq string
	txt string
}

var binToks = []token.Token{token.LOR, token.LAND, token.EQL, token.NEQ, token.LSS, token.LEQ, token.GTR, token.GEQ, token.ADD, token.SUB, token.OR,
	token.XOR, token.MUL, token.QUO, token.REM, token.SHL, token.SHR, token.AND, token.AND_NOT}
var unToks = []token.Token{token.ADD, token.SUB, token.NOT, token.XOR, token.AND, token.ARROW, token.MUL}

func top(t token.Token) mtok { return mtok{"TOp " + opName[t], t.String()} }

// genSeq: an operand/operator token sequence; mostly well formed, sometimes broken.
func genSeq(r *vh.Rng, maxOperands int) []mtok {
	var out []mtok
	atom := 0
	var operand func(depth int)
	var seq func(depth, n int)
	operand = func(depth int) {
		for k := r.Intn(3); k > 0 && r.Intn(3) == 0; k-- {
			out = append(out, top(unToks[r.Intn(len(unToks))]))
		}
		if depth > 0 && r.Intn(7) == 0 {
			out = append(out, mtok{"TLparen", "("})
			seq(depth-1, 1+r.Intn(3))
			out = append(out, mtok{"TRparen", ")"})
			return
		}
		out = append(out, mtok{fmt.Sprintf("TAtom %d", atom), fmt.Sprintf("a%d", atom)})
		atom++
	}
	seq = func(depth, n int) {
		operand(depth)
		for i := 1; i < n; i++ {
			out = append(out, top(binToks[r.Intn(len(binToks))]))
			operand(depth)
		}
	}
	seq(2, 1+r.Intn(maxOperands))
	// break it sometimes
	if r.Intn(6) == 0 && len(out) > 1 {
		i := r.Intn(len(out))
		switch r.Intn(5) {
		case 0:
			out = append(out[:i], out[i+1:]...)
		case 1:
			out = append(out[:i+1], out[i:]...)
		case 2:
			out[i] = mtok{"TAssign", "="}
		case 3:
			out = append(out, top(binToks[r.Intn(len(binToks))]))
		default:
			out[i] = mtok{"TOther", ","} // a token that is neither operand nor operator; `var _ = a, b` has too many values but parses
			out[i] = mtok{"TOther", ":"}
		}
	}
	return out
}

// callShape: an operand or ')' directly followed by '(' (a call or conversion, not an operand/operator sequence)
func callShape(seq []mtok) bool {
	for i := 0; i+1 < len(seq); i++ {
		if (strings.HasPrefix(seq[i].coq, "TAtom") || seq[i].coq == "TRparen") && seq[i+1].coq == "TLparen" {
			return true
		}
	}
	return false
}

func render(seq []mtok) string {
	var sb strings.Builder
	for i, t := range seq {
		if i > 0 {
			sb.WriteString(" ")
		}
		sb.WriteString(t.txt)
	}
	return sb.String()
}

func main() {
	a := vh.ParseArgs()
	rng := vh.NewRng(a.Seed)
	rep = vh.NewReport(a, "inputs: corpus/C24/*.go; $GOROOT/src .go files outside testdata (quick: PRNG sample of 400, thorough: all); every .go file of $VERIF_REPO; "+
		"grammar-generated files (all operators, statement/declaration forms, composite literals in headers, labels, method expressions, tags, iota, anonymous struct/interface, channel directions, variadics, varied white space/comments); "+
		"token-mutated files (delete/duplicate/swap/replace/insert one token of a generated or sampled file). Excluded (counted): files with type parameters/instantiations/constraint syntax (detected on go/parser's tree), "+
		"files using the identifier `macro` or the character ~. Oracle: go/parser accepts => fork accepts and package name + every declaration identical incl. positions (and again with ParseComments incl. Doc/Comment groups); "+
		"go/parser rejects => fork reports an error or returns a non-file node list; never a panic. A case is non-trivial when it is a valid file with >=1 declaration or an invalid file; distinct by SHA-256 of the text (files: by path)")
	wd = vh.NewWatchdog(rep, 180*time.Second)
	verif := os.Getenv("VERIF_DIR")
	if verif == "" {
		verif = "/verif"
	}
	repo := os.Getenv("VERIF_REPO")
	if repo == "" {
		repo = "/repo"
	}
	run := func(in input) string {
		st := checkSource(in)
		rep.Dist(in.origin + ":" + st)
		return st
	}

	// ---- 0. corpus (past failures / known-finding inputs first)
	cfiles, _ := filepath.Glob(filepath.Join(verif, "corpus", "C24", "*.go"))
	sort.Strings(cfiles)
	for _, f := range cfiles {
		src, err := os.ReadFile(f)
		if err != nil {
			continue
		}
		st := run(input{filepath.Base(f), "corpus", src})
		rep.Sample(map[string]string{"corpus": filepath.Base(f), "status": st})
	}

	// ---- 1. files
	groot := c24lib.GoRootSrc()
	gfiles := c24lib.GoFiles(groot)
	grootReal, _ := filepath.EvalSymlinks(groot)
	nG := len(gfiles)
	if !a.Thorough() {
		// PRNG sample without replacement
		for i := len(gfiles) - 1; i > 0; i-- {
			j := rng.Intn(i + 1)
			gfiles[i], gfiles[j] = gfiles[j], gfiles[i]
		}
		if len(gfiles) > 400 {
			gfiles = gfiles[:400]
		}
		sort.Strings(gfiles)
	}
	var validSources [][]byte // seeds for mutation
	for _, f := range gfiles {
		src, err := os.ReadFile(f)
		if err != nil {
			continue
		}
		rel, _ := filepath.Rel(grootReal, f)
		st := run(input{rel, "goroot", src})
		if strings.HasPrefix(st, "valid:identical") && len(src) < 6000 && len(validSources) < 300 {
			validSources = append(validSources, src)
		}
	}
	rfiles := c24lib.GoFiles(repo)
	repoReal, _ := filepath.EvalSymlinks(repo)
	for _, f := range rfiles {
		src, err := os.ReadFile(f)
		if err != nil {
			continue
		}
		rel, _ := filepath.Rel(repoReal, f)
		run(input{rel, "repo", src})
	}
	rep.Extra["goroot_files_total"] = nG
	rep.Extra["goroot_files_checked"] = len(gfiles)
	rep.Extra["repo_files_checked"] = len(rfiles)
	rep.Exhaustive = a.Thorough()

	// ---- 2. grammar-generated programs
	nGen, nMut, nSeq := 1500, 3000, 3000
	if a.Thorough() {
		nGen, nMut, nSeq = 30000, 60000, 24000
	}
	if a.N > 0 {
		nGen, nMut, nSeq = a.N, a.N, a.N
	}
	feat := map[string]int{}
	g := &c24lib.Gen{R: rng.Fork(), Feat: feat, EmbedUnqualified: true}
	var genSources [][]byte
	nGenValid := 0
	for i := 0; i < nGen; i++ {
		g.Comments = i%3 == 0
		src := []byte(g.File(1+g.R.Intn(5), 1+g.R.Intn(4)))
		st := run(input{fmt.Sprintf("gen#%d", i), "generated", src})
		if strings.HasPrefix(st, "valid:identical") {
			nGenValid++
			if len(genSources) < 600 {
				genSources = append(genSources, src)
			}
		}
		if i%400 == 7 {
			rep.Sample(map[string]string{"generated": clip(string(src), 700), "status": st})
		}
	}
	for k, v := range feat {
		
		rep.Distribution["production:"+k] = v
	}
	rep.Extra["generated_valid"] = nGenValid

	// ---- 3. token-mutated programs
	seeds := append(genSources, validSources...)
	mr := rng.Fork()
	var tokCache = map[int][]c24lib.Tok{}
	for i := 0; i < nMut && len(seeds) > 0; i++ {
		si := mr.Intn(len(seeds))
		toks, ok := tokCache[si]
		if !ok {
			toks = c24lib.Tokens(seeds[si])
			tokCache[si] = toks
		}
		txt, kind := c24lib.Mutate(toks, mr)
		st := run(input{fmt.Sprintf("mut#%d(%s)", i, kind), "mutated", []byte(txt)})
		rep.Dist("mutation:" + kind)
		if i%900 == 11 {
			rep.Sample(map[string]string{"mutated": clip(txt, 500), "status": st})
		}
	}

	// ---- 4. correspondence: operand/operator sequences, fork tree vs model tree
	perShard := 400
	if a.Thorough() {
		perShard = 800 // thorough: <= ~32 case files (the coqc start-up cost per file dominates under load)
	}
	cw := vh.NewCases(a, "From Coq Require Import List NArith ZArith.\nFrom Verif Require Import C24.Model.\nImport ListNotations.\nOpen Scope Z_scope.\nOpen Scope N_scope.", "case", "mismatches", perShard)
	sr := rng.Fork()
	for i := 0; i < nSeq; i++ {
		seq := genSeq(sr, 9)
		for callShape(seq) {
			seq = genSeq(sr, 9) // `a (b)` is a call: primary-expression suffixes are outside the model's alphabet
		}
		txt := render(seq)
		src := []byte("package p\nvar _ = " + txt + "\n")
		wd.Beat(string(src))
		nodes, _, ferr, pan := c24lib.ForkParse(src, 0)
		var ctoks []string
		for _, t := range seq {
			ctoks = append(ctoks, t.coq)
		}
		want := "None"
		if pan != nil {
			fail(input{fmt.Sprintf("seq#%d", i), "sequence", src}, key(src), "panic escaped Parser.Parse", fmt.Sprint(pan), nil)
		} else if ferr == nil {
			ok := false
			if len(nodes) == 2 {
				if gd, isg := nodes[1].(*ast.GenDecl); isg && len(gd.Specs) == 1 {
					if vs, isv := gd.Specs[0].(*ast.ValueSpec); isv && len(vs.Values) == 1 {
						var t string
						t, ok = coqTree(vs.Values[0])
						want = "Some " + t
					}
				}
			}
			if !ok {
				// accepted but not a single expression over the model's alphabet (cannot happen for these inputs);
				// record as a mismatch-provoking case so that it is looked at
				want = "Some (EAtom 999999)"
			}
		}
		// direct oracle on the same input: go/parser must agree on acceptance and on the tree
		sf, _, serr := c24lib.StdParse(src, 0)
		if pan == nil {
			if (serr == nil) != (ferr == nil) {
				if serr != nil {
					fail(input{fmt.Sprintf("seq#%d", i), "sequence", src}, key(src), "go/parser rejects the expression, the fork accepts it", "no error", firstErr(serr))
				} else {
					fail(input{fmt.Sprintf("seq#%d", i), "sequence", src}, key(src), "go/parser accepts the expression, the fork rejects it", firstErr(ferr), "no error")
				}
			} else if serr == nil {
				if d := compareFile(nodes, sf, c24lib.CmpOpts{Positions: true}); d != "" {
					fail(input{fmt.Sprintf("seq#%d", i), "sequence", src}, key(src), "expression tree differs from go/parser's", d, nil)
				}
			}
		}
		cw.Add(fmt.Sprintf("mkCase %d %s %s", i, vh.CoqList(ctoks, "token"), "("+want+")"))
		rep.CaseInput(i, txt)
		rep.Count("seq:"+txt, len(seq) >= 3)
		if ferr == nil {
			rep.Dist(fmt.Sprintf("sequence:accepted,len=%d-%d", len(seq)/5*5, len(seq)/5*5+4))
		} else {
			rep.Dist("sequence:rejected")
		}
	}
	cw.Close()
	rep.Write()
}

// Deferred calls of function VALUES held in settable places.
//
// `defer h()` evaluates the function value h when the defer statement executes (like the arguments); what the place h
// holds when the surrounding function returns is irrelevant.  Every shape below stores a closure (whose body is a random
// list of acts: emit, r = k, panic, recover, calls ... exactly like the body of `defer func() {...}()`) into a settable
// place, defers a call THROUGH that place and then overwrites the place with a closure emitting 7000+suffix (which must
// never be observed), with nil, or - shape loop-reuse - with the closure of the next iteration of a loop that re-uses
// one variable.  The model term is the one of the equivalent `defer func() {...}()`:  ADeferClo body.
//
// These acts are generated only in the additional "funcvar" programs of main() (own PRNG stream: the programs of the
// main stream are unchanged).
package main

import (
	"fmt"
	"strings"
)

var fvShapes = []string{"var", "var-nil", "field", "slice-elem", "array-elem", "map-elem", "ptr", "arg", "captured", "loop-reuse"}

const fvLoopReuse = 9

func fvLit(params string, first string, body []act, ind string) string {
	var sb strings.Builder
	fmt.Fprintf(&sb, "func(%s) {\n", params)
	if first != "" {
		fmt.Fprintf(&sb, "%s\t%s\n", ind, first)
	}
	renderActs(body, ind+"\t", &sb)
	fmt.Fprintf(&sb, "%s}", ind)
	return sb.String()
}

func renderFv(a act, ind string, sb *strings.Builder) {
	v := a.V
	lit := fvLit("", "", a.Body, ind)
	repl := fmt.Sprintf("func() { emit(%d) }", 7000+v)
	w := func(format string, args ...interface{}) {
		sb.WriteString(ind + fmt.Sprintf(format, args...) + "\n")
	}
	switch fvShapes[a.K] {
	case "var":
		w("h%d := %s", v, lit)
		w("defer h%d()", v)
		w("h%d = %s", v, repl)
	case "var-nil":
		w("h%d := %s", v, lit)
		w("defer h%d()", v)
		w("h%d = nil", v)
	case "field":
		w("var s%d struct{ h func() }", v)
		w("s%d.h = %s", v, lit)
		w("defer s%d.h()", v)
		w("s%d.h = %s", v, repl)
	case "slice-elem":
		w("hs%d := make([]func(), 2)", v)
		w("hs%d[1] = %s", v, lit)
		w("defer hs%d[1]()", v)
		w("hs%d[1] = %s", v, repl)
	case "array-elem":
		w("var ha%d [2]func()", v)
		w("ha%d[0] = %s", v, lit)
		w("defer ha%d[0]()", v)
		w("ha%d[0] = %s", v, repl)
	case "map-elem":
		w("hm%d := map[int]func(){}", v)
		w("hm%d[3] = %s", v, lit)
		w("defer hm%d[3]()", v)
		w("hm%d[3] = %s", v, repl)
	case "ptr":
		w("h%d := %s", v, lit)
		w("hp%d := &h%d", v, v)
		w("defer (*hp%d)()", v)
		w("*hp%d = %s", v, repl)
	case "arg":
		w("h%d := %s", v, fvLit(fmt.Sprintf("a%d int", v), fmt.Sprintf("emit(a%d)", v), a.Body, ind))
		w("x%d := %d", v, 4000+v)
		w("defer h%d(x%d)", v, v)
		w("h%d = func(int) { emit(%d) }", v, 7000+v)
		w("x%d = 0", v)
	case "captured":
		w("h%d := %s", v, lit)
		w("defer h%d()", v)
		w("func() { h%d = %s }()", v, repl)
	case "loop-reuse":
		w("var h%d func()", v)
		w("for i%d := 0; i%d < 3; i%d++ {", v, v, v)
		w("\tj%d := i%d", v, v)
		w("\th%d = %s", v, fvLit("", fmt.Sprintf("emit(%d + j%d)", 4100+10*v, v), a.Body, ind+"\t"))
		w("\tdefer h%d()", v)
		w("}")
		w("h%d = %s", v, repl)
	}
}

func coqFv(a act) []string {
	body := coqActs(a.Body)
	switch fvShapes[a.K] {
	case "arg":
		return []string{fmt.Sprintf("ADeferClo (AEmit %d :: %s)", 4000+a.V, body)}
	case "loop-reuse":
		var out []string
		for j := 0; j < 3; j++ {
			out = append(out, fmt.Sprintf("ADeferClo (AEmit %d :: %s)", 4100+10*a.V+j, body))
		}
		return out
	}
	return []string{"ADeferClo " + body}
}

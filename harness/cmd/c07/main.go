// c07: defer / panic / recover (fast/code.go reExecWithFlags, rundefer, pushDefer, popDefer, maybeRepanic, restore;
// fast/builtin.go callRecover/callPanic; fast/statement.go Comp.Defer).
//
// Random call trees: functions f0..fK, each `func fN() (r int)`, whose bodies are sequences of
//
//	emit(k) | r = k | r += k | panic(v) | x := fJ(); emit(x) (J < N) | defer func() { ... }() (closure over r, may itself
//	defer, panic, recover, call) | defer fJ() | defers in a loop | recover() directly | recover() one call deeper (helper).
//
// (S) the same source compiled by the Go toolchain is the DIRECT ORACLE: event trace, result, escaping panic value.
// (M) every tree is also written as a term of Verif.C07.Model: the reference semantics and the model of gomacro's
//
//	executor state machine (Panic, PanicFun, DeferOfFun, IsDefer/StartDefer) must both reproduce the observation.
package main

import (
	"bytes"
	"context"
	"encoding/json"
	"fmt"
	"io"
	"os"
	"os/exec"
	"path/filepath"
	"strconv"
	"strings"
	"time"

	"github.com/cosmos72/gomacro/fast"
	"verifh/vh"
)

type act struct {
	Kind string // emit setr addr panic call deferclo deferfn deferloop recover recoverdeep deferbi
	K    int
	V    int // deferbi: unique suffix of the names declared by the template (K = template index)
	Body []act
}

type prog struct {
	Idx   int            `json:"idx"`
	Funcs [][]act        `json:"-"`
	Src   string         `json:"src"`
	Coq   string         `json:"-"`
	Feat  map[string]int `json:"-"`
	// structural classification
	NestedDeferInDeferred bool `json:"nested_defer_in_deferred"`
	// entry point: name of the function called (without parentheses) and its index in the Coq program
	Size    int    `json:"-"` // bound of the actions executed by the entry function (see dyn)
	TopName string `json:"-"`
	TopIdx  int    `json:"-"`
	Replay  bool   `json:"-"`
	// corpus programs (builtin.go): fixed failure key; Defer = listed in report.json extra "deferred_corpus_failures"
	// instead of failing while the key is not registered in known_findings.json
	Key   string `json:"-"`
	Defer bool   `json:"-"`
}

// input is what is recorded for every evaluated tree (inputs.jsonl, failures): enough to re-execute it exactly
func (p *prog) input() map[string]interface{} {
	return map[string]interface{}{"src": p.Src, "call": p.TopName + "()", "coq": p.Coq, "top": p.TopIdx, "size": p.Size}
}

// loadReplay reads a replay file written by ./check: either {"failure": {"input": ...}} (direct-oracle failure) or
// {"inputs": [{"idx":.., "input": ...}]} (correspondence broken).  An input is the map written by prog.input();
// a plain string (the recorded source of a known finding followed by the call expression) is accepted too.
func loadReplay(path string) ([]*prog, error) {
	b, err := os.ReadFile(path)
	if err != nil {
		return nil, err
	}
	var obj map[string]interface{}
	if err := json.Unmarshal(b, &obj); err != nil {
		return nil, err
	}
	var raw []interface{}
	if f, ok := obj["failure"].(map[string]interface{}); ok {
		raw = append(raw, f["input"])
	}
	if ins, ok := obj["inputs"].([]interface{}); ok {
		for _, x := range ins {
			if m, ok := x.(map[string]interface{}); ok {
				raw = append(raw, m["input"])
			}
		}
	}
	var out []*prog
	for _, x := range raw {
		p := &prog{Idx: len(out), Feat: map[string]int{}, Replay: true}
		switch v := x.(type) {
		case map[string]interface{}:
			p.Src, _ = v["src"].(string)
			call, _ := v["call"].(string)
			p.TopName = strings.TrimSuffix(strings.TrimSpace(call), "()")
			p.Coq, _ = v["coq"].(string)
			if t, ok := v["top"].(float64); ok {
				p.TopIdx = int(t)
			}
			if t, ok := v["size"].(float64); ok {
				p.Size = int(t)
			}
		case string:
			t := strings.TrimSpace(v)
			i := strings.LastIndex(t, "\n")
			if i < 0 {
				continue
			}
			p.Src, p.TopName = t[:i+1], strings.TrimSuffix(strings.TrimSpace(t[i+1:]), "()")
		default:
			continue
		}
		if p.Src == "" || p.TopName == "" {
			continue
		}
		out = append(out, p)
	}
	if len(out) == 0 {
		return nil, fmt.Errorf("no replayable input in %s", path)
	}
	return out, nil
}

type gen struct {
	r           *vh.Rng
	nextV       int
	feat        map[string]int
	avoidNested bool
	fnDefers    []bool // function (transitively) installs defers
	inLoop      bool   // generating the body of a counted loop (loops are not nested)
	fnSize      []int  // dyn() of each function generated so far
	noBuiltin   bool   // defer of the builtins close/delete/copy/recover is not compiled by this gomacro: do not generate it
	nf          int    // number of functions of the program (the last one is the entry point: never itself deferred)
	nextB       int
	fv          bool // "funcvar" programs: 12% of the acts defer a function VALUE held in a settable place (funcvar.go)
}

// body of function index fi (calls only to lower indices); inDeferred: we are (transitively) inside a deferred closure
func (g *gen) body(fi, depth int, closure, inDeferred bool, budget *int) []act {
	var out []act
	n := 1 + g.r.Intn(4)
	for i := 0; i < n && *budget > 0; i++ {
		*budget--
		switch x := g.r.Intn(100); {
		case g.fv && x < 12:
			// defer of a function value held in a variable / field / element that is overwritten afterwards (funcvar.go)
			if depth >= 3 || (inDeferred && g.avoidNested) {
				continue
			}
			k := g.r.Intn(len(fvShapes))
			g.nextB++
			a := act{Kind: "deferfv", K: k, V: g.nextB}
			g.feat["defer-funcvar"]++
			g.feat["defer-funcvar:"+fvShapes[k]]++
			if inDeferred {
				g.feat["defer-inside-deferred"]++
			}
			if g.inLoop {
				g.feat["defer-funcvar-in-loop"]++
			}
			a.Body = g.body(fi, depth+1, true, true, budget)
			out = append(out, a)
		case x >= 12 && x < 18 && !g.noBuiltin && !(inDeferred && g.avoidNested):
			// defer of a builtin: close, delete, copy, panic, print/println, recover (builtin.go)
			t := g.r.Intn(len(biTemplates))
			if biTemplates[t].topOnly && (closure || fi != g.nf-1) {
				t = g.r.Intn(biRecover) // templates before biRecover can be used everywhere
			}
			g.nextB++
			a := act{Kind: "deferbi", K: t, V: g.nextB}
			if biTemplates[t].panics {
				g.nextV++
				a.V = g.nextV
				g.feat["panic"]++
			}
			g.feat["defer-builtin"]++
			g.feat["defer-builtin:"+biTemplates[t].name]++
			if g.inLoop {
				g.feat["defer-builtin-in-loop"]++
			}
			out = append(out, a)
		case x < 18:
			out = append(out, act{Kind: "emit", K: g.r.Intn(90)})
		case x < 28:
			out = append(out, act{Kind: "setr", K: g.r.Intn(9)})
		case x < 36:
			out = append(out, act{Kind: "addr", K: 1 + g.r.Intn(5)})
		case x < 48:
			g.nextV++
			out = append(out, act{Kind: "panic", K: g.nextV})
			g.feat["panic"]++
			return out // the rest would be dead code
		case x < 58:
			if fi == 0 {
				continue
			}
			tgt := g.r.Intn(fi)
			if inDeferred && g.avoidNested && g.fnDefers[tgt] {
				continue
			}
			out = append(out, act{Kind: "call", K: tgt})
			g.feat["call"]++
		case x < 64 && !g.inLoop && depth < 2:
			// counted loop: the body (any acts, also defer statements: defers inside long-running loops) runs K times;
			// the activation has then executed many statements before it reaches what follows (the executor leaves its
			// unrolled fast loop after 5 rounds of 14 statements / 5 defer statements)
			g.inLoop = true
			b := g.body(fi, depth+1, closure, inDeferred, budget)
			g.inLoop = false
			if len(b) == 0 {
				continue
			}
			k := 2 + g.r.Intn(11)
			if !hasDefer(b) && g.r.Chance(2, 3) {
				k = 12 + g.r.Intn(36)
			}
			if d := g.dyn(b); d*k > 600 {
				if k = 600 / d; k < 2 {
					k = 2
				}
			}
			g.feat["loop"]++
			if hasDefer(b) {
				g.feat["defer-in-long-loop"]++
			}
			out = append(out, act{Kind: "loop", K: k, Body: b})
		case x < 76:
			if depth >= 3 || (inDeferred && g.avoidNested) {
				continue
			}
			g.feat["defer-closure"]++
			if inDeferred {
				g.feat["defer-inside-deferred"]++
			}
			out = append(out, act{Kind: "deferclo", Body: g.body(fi, depth+1, true, true, budget)})
			// 1/3: a second defer statement directly after it (two ADJACENT defer statements)
			if g.r.Chance(1, 3) && *budget > 0 {
				*budget--
				g.feat["defer-closure"]++
				g.feat["adjacent-defers"]++
				out = append(out, act{Kind: "deferclo", Body: g.body(fi, depth+1, true, true, budget)})
			}
		case x < 82:
			if fi == 0 || (inDeferred && g.avoidNested) {
				continue
			}
			tgt := g.r.Intn(fi)
			if g.avoidNested && g.fnDefers[tgt] {
				continue
			}
			g.feat["defer-func"]++
			out = append(out, act{Kind: "deferfn", K: tgt})
		case x < 86:
			if depth >= 3 || (inDeferred && g.avoidNested) {
				continue
			}
			g.feat["defer-in-loop"]++
			out = append(out, act{Kind: "deferloop", K: g.r.Intn(50), Body: g.body(fi, depth+1, true, true, budget)})
		case x < 95:
			out = append(out, act{Kind: "recover"})
			g.feat["recover"]++
		default:
			out = append(out, act{Kind: "recoverdeep"})
			g.feat["recover-deep"]++
		}
	}
	return out
}

// hasDefer: the acts contain a defer statement (at any depth of loops)
func hasDefer(as []act) bool {
	for _, a := range as {
		switch a.Kind {
		case "deferclo", "deferfn", "deferloop", "deferbi", "deferfv":
			return true
		case "loop":
			if hasDefer(a.Body) {
				return true
			}
		}
	}
	return false
}

// dyn: upper bound of the number of model actions executed by the acts, loops unrolled and callees included
// (bounds the size of the generated programs; fuel of the Coq evaluation)
func (g *gen) dyn(as []act) int {
	n := 0
	for _, a := range as {
		switch a.Kind {
		case "loop":
			n += a.K * g.dyn(a.Body)
		case "deferloop":
			n += 2 * (2 + g.dyn(a.Body))
		case "deferclo":
			n += 1 + g.dyn(a.Body)
		case "deferbi":
			n += 3
		case "deferfv":
			if a.K == fvLoopReuse {
				n += 3 * (2 + g.dyn(a.Body))
			} else {
				n += 2 + g.dyn(a.Body)
			}
		case "call", "deferfn":
			n += 2 + g.fnSize[a.K]
		default:
			n++
		}
	}
	return n
}

func renderActs(as []act, ind string, sb *strings.Builder) {
	for _, a := range as {
		switch a.Kind {
		case "loop":
			fmt.Fprintf(sb, "%sfor n := 0; n < %d; n++ {\n", ind, a.K)
			renderActs(a.Body, ind+"\t", sb)
			fmt.Fprintf(sb, "%s}\n", ind)
		case "emit":
			fmt.Fprintf(sb, "%semit(%d)\n", ind, a.K)
		case "setr":
			fmt.Fprintf(sb, "%sr = %d\n", ind, a.K)
		case "addr":
			fmt.Fprintf(sb, "%sr += %d\n", ind, a.K)
		case "panic":
			fmt.Fprintf(sb, "%spanic(%d)\n", ind, a.K)
		case "call":
			fmt.Fprintf(sb, "%semit(500 + f%d())\n", ind, a.K)
		case "deferclo":
			fmt.Fprintf(sb, "%sdefer func() {\n", ind)
			renderActs(a.Body, ind+"\t", sb)
			fmt.Fprintf(sb, "%s}()\n", ind)
		case "deferfn":
			fmt.Fprintf(sb, "%sdefer f%d()\n", ind, a.K)
		case "deferloop":
			fmt.Fprintf(sb, "%sfor i := 0; i < 2; i++ {\n%s\tdefer func() {\n%s\t\temit(%d + i)\n", ind, ind, ind, 100+a.K)
			renderActs(a.Body, ind+"\t\t", sb)
			fmt.Fprintf(sb, "%s\t}()\n%s}\n", ind, ind)
		case "recover":
			fmt.Fprintf(sb, "%sif x := recover(); x != nil {\n%s\temit(1000 + x.(int))\n%s} else {\n%s\temit(-1)\n%s}\n", ind, ind, ind, ind, ind)
		case "recoverdeep":
			fmt.Fprintf(sb, "%semit(rec())\n", ind)
		case "deferbi":
			biTemplates[a.K].render(a.V, ind, sb)
		case "deferfv":
			renderFv(a, ind, sb)
		}
	}
}

func coqActs(as []act) string {
	parts := coqActsList(as)
	if len(parts) == 0 {
		return "(@nil act)"
	}
	return "[" + strings.Join(parts, "; ") + "]"
}

func coqActsList(as []act) []string {
	var parts []string
	for _, a := range as {
		switch a.Kind {
		case "loop":
			// no act refers to the loop variable: the loop is its body K times (a panic in the body ends the list in both)
			if b := coqActsList(a.Body); len(b) > 0 {
				for i := 0; i < a.K; i++ {
					parts = append(parts, b...)
				}
			}
		case "emit":
			parts = append(parts, fmt.Sprintf("AEmit %d", a.K))
		case "setr":
			parts = append(parts, fmt.Sprintf("ASetR %d", a.K))
		case "addr":
			parts = append(parts, fmt.Sprintf("AAddR %d", a.K))
		case "panic":
			parts = append(parts, fmt.Sprintf("APanic %d", a.K))
		case "call":
			parts = append(parts, fmt.Sprintf("ACall %d", a.K))
		case "deferclo":
			parts = append(parts, "ADeferClo "+coqActs(a.Body))
		case "deferfn":
			parts = append(parts, fmt.Sprintf("ADeferFn %d", a.K))
		case "deferloop":
			// two closures, both see i == 2 (per-loop variable): emit(100+K+2) then the body
			b := "(AEmit " + fmt.Sprint(100+a.K+2) + " :: " + coqActs(a.Body) + ")"
			parts = append(parts, "ADeferClo "+b, "ADeferClo "+b)
		case "recover":
			parts = append(parts, "ARecover")
		case "recoverdeep":
			parts = append(parts, "ARecoverDeep")
		case "deferbi":
			parts = append(parts, biTemplates[a.K].coq(a.V)...)
		case "deferfv":
			parts = append(parts, coqFv(a)...)
		}
	}
	return parts
}

func hasNested(as []act, inDef bool) bool {
	for _, a := range as {
		switch a.Kind {
		case "loop":
			if hasNested(a.Body, inDef) {
				return true
			}
		case "deferclo", "deferloop", "deferfv":
			if inDef || hasNested(a.Body, true) {
				return true
			}
		case "deferfn", "deferbi":
			if inDef {
				return true
			}
		}
	}
	return false
}

func (g *gen) installs(as []act) bool {
	for _, a := range as {
		switch a.Kind {
		case "loop":
			if g.installs(a.Body) {
				return true
			}
		case "deferclo", "deferloop", "deferfn", "deferbi", "deferfv":
			return true
		case "call":
			if g.fnDefers[a.K] {
				return true
			}
		}
	}
	return false
}

func genProg(r *vh.Rng, avoidNested, noBuiltin bool) *prog {
	return genProgFv(r, avoidNested, noBuiltin, false)
}

func genProgFv(r *vh.Rng, avoidNested, noBuiltin, fv bool) *prog {
	g := &gen{r: r, feat: map[string]int{}, avoidNested: avoidNested, noBuiltin: noBuiltin, fv: fv}
	nf := 2 + r.Intn(3)
	g.nf = nf
	p := &prog{Feat: g.feat}
	for fi := 0; fi < nf; fi++ {
		budget := 6 + r.Intn(8)
		f := g.body(fi, 0, false, false, &budget)
		p.Funcs = append(p.Funcs, f)
		g.fnDefers = append(g.fnDefers, g.installs(f))
		g.fnSize = append(g.fnSize, g.dyn(f))
	}
	p.Size = g.fnSize[nf-1]
	return p
}

func (p *prog) render(prefix string) {
	var sb strings.Builder
	var cf []string
	for i, f := range p.Funcs {
		fmt.Fprintf(&sb, "func %sf%d() (r int) {\n", prefix, i)
		var b strings.Builder
		renderActs(f, "\t", &b)
		// calls / defers refer to this program's functions
		body := b.String()
		for j := len(p.Funcs) - 1; j >= 0; j-- {
			body = strings.ReplaceAll(body, fmt.Sprintf("f%d()", j), fmt.Sprintf("%sf%d()", prefix, j))
		}
		sb.WriteString(body)
		sb.WriteString("\treturn\n}\n\n")
		cf = append(cf, coqActs(f))
		if hasNested(f, false) {
			p.NestedDeferInDeferred = true
		}
	}
	p.Src = sb.String()
	p.Coq = "[" + strings.Join(cf, ";\n   ") + "]"
}

type obs struct {
	Trace  []int  `json:"trace"`
	Result int    `json:"result"`
	Panic  string `json:"panic"` // "" or the escaping panic value
}

func (o obs) String() string { return fmt.Sprint(o.Trace, o.Result, "|", o.Panic) }

const helper = "func rec() int {\n\tif x := recover(); x != nil {\n\t\treturn 1000 + x.(int)\n\t}\n\treturn -1\n}\n\n"

// oracle compiles and runs the programs in batches of 1000 (one `go build` each).  The watchdog guards the
// implementation, not the Go compiler: while a batch is being built (minutes on a loaded machine) it is kept alive.
func oracle(a *vh.Args, progs []*prog, wd *vh.Watchdog) (map[int]obs, error) {
	const per = 1000
	res := map[int]obs{}
	for b := 0; b*per < len(progs); b++ {
		hi := (b + 1) * per
		if hi > len(progs) {
			hi = len(progs)
		}
		stop := make(chan struct{})
		go func(b int) {
			for {
				wd.Beat(fmt.Sprintf("oracle batch %d (go build + run of compiled Go)", b))
				select {
				case <-stop:
					return
				case <-time.After(15 * time.Second):
				}
			}
		}(b)
		r, err := oracleBatch(a, progs[b*per:hi], b)
		close(stop)
		if err != nil {
			return nil, err
		}
		for k, v := range r {
			res[k] = v
		}
	}
	return res, nil
}

func oracleBatch(a *vh.Args, progs []*prog, batch int) (map[int]obs, error) {
	dir := a.Path(fmt.Sprintf("oracle/b%03d", batch))
	os.MkdirAll(dir, 0o755)
	var sb strings.Builder
	sb.WriteString("package main\n\nimport \"fmt\"\n\nvar trace []int\n\nfunc emit(k int) { trace = append(trace, k) }\n\n" + helper)
	sb.WriteString("func run(id int, f func() int) {\n\ttrace = trace[:0]\n\tdefer func() {\n\t\tif x := recover(); x != nil {\n\t\t\tfmt.Println(id, \"P\", trace, x)\n\t\t}\n\t}()\n\tres := f()\n\tfmt.Println(id, \"R\", trace, res)\n}\n\n")
	for _, p := range progs {
		sb.WriteString(p.Src)
	}
	sb.WriteString("func main() {\n")
	for _, p := range progs {
		fmt.Fprintf(&sb, "\trun(%d, %s)\n", p.Idx, p.TopName)
	}
	sb.WriteString("}\n")
	if err := os.WriteFile(filepath.Join(dir, "main.go"), []byte(sb.String()), 0o644); err != nil {
		return nil, err
	}
	os.WriteFile(filepath.Join(dir, "go.mod"), []byte("module oracle\n\ngo 1.18\n"), 0o644)
	env := append(os.Environ(), "GOFLAGS=-mod=mod", "GOPROXY=off", "GOSUMDB=off", "GOTOOLCHAIN=local", "CGO_ENABLED=0")
	// -l: without it go1.23 inlines the helper rec() into a deferred function and recover() then wrongly succeeds
	// "one call deeper" (optimised and -N -l builds of the same program disagree; the Go spec says nil)
	ctx, cancel := context.WithTimeout(context.Background(), 20*time.Minute)
	defer cancel()
	cmd := exec.CommandContext(ctx, "go", "build", "-gcflags=-N -l", "-o", "oracle.bin", ".")
	cmd.Dir, cmd.Env = dir, env
	if out, err := cmd.CombinedOutput(); err != nil {
		return nil, fmt.Errorf("go build of oracle batch %d failed: %v\n%s", batch, err, string(out))
	}
	run := exec.Command(filepath.Join(dir, "oracle.bin"))
	var out, errOut bytes.Buffer // deferred print/println write to stderr: kept apart from the result lines
	run.Stdout, run.Stderr = &out, &errOut
	if err := run.Start(); err != nil {
		return nil, err
	}
	done := make(chan error, 1)
	go func() { done <- run.Wait() }()
	select {
	case err := <-done:
		if err != nil {
			return nil, fmt.Errorf("oracle run: %v\n%s\n%s", err, out.String(), errOut.String())
		}
	case <-time.After(120 * time.Second):
		run.Process.Kill()
		return nil, fmt.Errorf("oracle did not terminate")
	}
	res := map[int]obs{}
	for _, line := range strings.Split(out.String(), "\n") {
		f := strings.Fields(strings.NewReplacer("[", " [ ", "]", " ] ").Replace(line))
		if len(f) < 5 {
			continue
		}
		id, err := strconv.Atoi(f[0])
		if err != nil {
			continue
		}
		o := obs{Trace: []int{}}
		i := 3
		for ; i < len(f) && f[i] != "]"; i++ {
			k, _ := strconv.Atoi(f[i])
			o.Trace = append(o.Trace, k)
		}
		if i+1 < len(f) {
			if f[1] == "P" {
				o.Panic = f[i+1]
			} else {
				o.Result, _ = strconv.Atoi(f[i+1])
			}
		}
		res[id] = o
	}
	return res, nil
}

type interp struct {
	ir    *fast.Interp
	trace []int
}

func newInterp() *interp {
	it := &interp{}
	it.ir = fast.New()
	g := &it.ir.Comp.Globals
	g.Stdout, g.Stderr = io.Discard, io.Discard
	it.ir.DeclFunc("emit", func(k int) { it.trace = append(it.trace, k) })
	it.ir.Eval(helper)
	return it
}

func (it *interp) run(call string) (o obs) {
	it.trace = nil
	perr := vh.Catch(func() {
		vs, _ := it.ir.Eval(call)
		if len(vs) == 1 {
			o.Result = int(vs[0].ReflectValue().Int())
		}
	})
	o.Trace = append([]int{}, it.trace...)
	if perr != nil {
		o.Panic = fmt.Sprint(perr)
		o.Result = 0
	}
	return o
}

func coqZs(xs []int) string {
	if len(xs) == 0 {
		return "(@nil Z)"
	}
	var sb strings.Builder
	sb.WriteString("[")
	for i, x := range xs {
		if i > 0 {
			sb.WriteString(";")
		}
		if x < 0 {
			fmt.Fprintf(&sb, "(%d)", x)
		} else {
			fmt.Fprintf(&sb, "%d", x)
		}
	}
	sb.WriteString("]")
	return sb.String()
}

// recorded input of finding C07-1
const nestedKey = "nested-panic-recovered-inside-deferred-call-swallows-outer-panic"
const nestedSrc = "func k1() (r int) {\n\tdefer func() {\n\t\tdefer func() {\n\t\t\tif x := recover(); x != nil {\n\t\t\t\temit(1000 + x.(int))\n\t\t\t}\n\t\t}()\n\t\tpanic(2)\n\t}()\n\tpanic(1)\n}\n"

func main() {
	a := vh.ParseArgs()
	rng := vh.NewRng(a.Seed)
	rep := vh.NewReport(a, "random call trees of 2..4 functions func fN() (r int): emit / r = k / r += k / panic(v) / emit(500+fJ()) / defer closure (over r; may defer, panic, recover, call) / defer fJ() / "+
		"defers in a loop / counted loop `for n := 0; n < K; n++ { acts }` (K = 2..47; the body may hold defer statements: defers inside long-running loops; what follows the loop runs after the activation executed up to several hundred statements, i.e. in the executor's steady loop) / "+
		"two ADJACENT defer statements (1/3 of the defer closures are followed directly by another one) / "+
		"defer of a BUILTIN (6% of the acts, also inside counted loops and deferred closures: delete on map / nil map, close on chan / send-only chan, copy of slices / of a string, panic(v), println/print, recover(); "+
		"arguments are changed after the defer statement and an observer closure deferred just before it emits what the builtin did) / "+
		"defer of a FUNCTION VALUE (in 30% additional programs with their own PRNG stream, 12% of their acts; a closure with a random body is stored in a local variable / struct field / slice, array, map element / behind a pointer / a variable re-used by 3 loop iterations, "+
		"a call through that place is deferred (also with an argument), then the place is overwritten - directly, with nil, or from inside another closure - by a closure whose marker must never be observed) + fixed corpus programs of deferred builtins (direct oracle only) / recover() directly / recover() one call deeper (must yield nil); oracle = the same source compiled by go1.23 (event trace, result, escaping panic value). "+
		"Non-trivial: at least one panic is raised and at least one deferred call runs; distinct by SHA-256 of the source. "+
		"While finding C07-1 (a panic raised and recovered inside a deferred call swallows the outer panic) is present, its exact input is replayed first and the generator lets no deferred call (transitively) install defers.")
	wd := vh.NewWatchdog(rep, 180*time.Second)
	n, perShard := 500, 120
	if a.Thorough() {
		// 12000 programs / 120 per shard = 100 case files (~11 s each on the loaded machine) and a 9 min harness run;
		// 8000 / 260: 31 case files
		n, perShard = 8000, 260
	}
	nFv := n * 3 / 10
	if a.N > 0 {
		n = a.N
	}
	// corpus / known-defect probe
	nestedPresent := false
	{
		it := newInterp()
		it.ir.Eval(nestedSrc)
		o := it.run("k1()")
		if o.Panic != "1" || fmt.Sprint(o.Trace) != "[1002]" {
			nestedPresent = true
			rep.Fail(vh.Failure{Key: nestedKey, What: "a panic raised and recovered inside a deferred call swallows the panic that caused the deferred call to run (pushDefer overwrites Run.PanicFun; maybeRepanic then sees nil)",
				Input: map[string]interface{}{"src": nestedSrc, "call": "k1()", "coq": "[[ADeferClo [ADeferClo [ARecover]; APanic 2]; APanic 1]]", "top": 0}, Got: o, Want: "trace [1002], panic(1) escapes (compiled Go)"})
		}
		rep.Extra["defect_present:"+nestedKey] = nestedPresent
	}
	// defer of builtins: probe (the generator avoids the class while this gomacro cannot compile it) + corpus programs
	noBuiltin := false
	registered := registeredKeys(os.Getenv("VERIF_DIR"))
	{
		it := newInterp()
		perr := vh.Catch(func() {
			it.ir.Eval("func biprobe() (r int) {\n\tm := map[int]int{1: 1}\n\tdefer delete(m, 1)\n\treturn len(m)\n}\n")
		})
		rep.Extra["defect_present:"+biKey] = perr != nil
		// once the finding is registered (fixed by C07-2) the class is generated whatever the probe says: a regression fails
		noBuiltin = perr != nil && !registered["corpus:bi-delete"]
	}
	deferred := []string{}
	var progs []*prog
	if a.Replay == "" {
		progs = append(progs, biCorpus()...)
	}
	ncorpus := len(progs)
	if a.Replay != "" {
		// re-execute exactly the recorded tree(s): compiled Go, gomacro, and (when the Coq term was recorded) both models
		var err error
		if progs, err = loadReplay(a.Replay); err != nil {
			fmt.Fprintln(os.Stderr, "replay:", err)
			os.Exit(2)
		}
		rep.Extra["replayed"] = len(progs)
	} else {
		for i := ncorpus; i < ncorpus+n; i++ {
			p := genProg(rng.Fork(), nestedPresent, noBuiltin)
			p.Idx = i
			p.render(fmt.Sprintf("p%d_", i))
			p.TopName, p.TopIdx = fmt.Sprintf("p%d_f%d", i, len(p.Funcs)-1), len(p.Funcs)-1
			progs = append(progs, p)
		}
		// "funcvar" programs (funcvar.go): the same generator, where 12% of the acts are defers of a function value held
		// in a place that is overwritten afterwards; own PRNG stream
		frng := vh.NewRng(a.Seed*7919 + 77)
		for i := ncorpus + n; i < ncorpus+n+nFv; i++ {
			p := genProgFv(frng.Fork(), nestedPresent, noBuiltin, true)
			p.Idx = i
			p.render(fmt.Sprintf("p%d_", i))
			p.TopName, p.TopIdx = fmt.Sprintf("p%d_f%d", i, len(p.Funcs)-1), len(p.Funcs)-1
			progs = append(progs, p)
		}
	}
	want, err := oracle(a, progs, wd)
	if err != nil {
		fmt.Fprintln(os.Stderr, err)
		os.Exit(2)
	}
	header := "From Coq Require Import List ZArith.\nFrom Verif Require Import C07.Model.\nImport ListNotations.\nOpen Scope Z_scope."
	cw := vh.NewCases(a, header, "case", "mismatches", perShard)
	it := newInterp()
	for i, p := range progs {
		if i%100 == 99 {
			it = newInterp()
		}
		wd.Beat(p.input()) // what a hang is reported with: replayable
		w, ok := want[p.Idx]
		if !ok {
			fmt.Fprintf(os.Stderr, "no oracle output for %d\n", p.Idx)
			os.Exit(2)
		}
		top := p.TopName + "()"
		fail := func(what string, got interface{}) {
			key := "src:" + p.Src
			if p.Key != "" {
				key = p.Key
				if p.Defer && !registered[key] {
					deferred = append(deferred, fmt.Sprintf("%s: %s: got %v want %v", key, what, got, w))
					return
				}
			}
			rep.Fail(vh.Failure{Key: key, What: what, Input: p.input(), Got: got, Want: w})
		}
		if perr := vh.Catch(func() { it.ir.Eval(p.Src) }); perr != nil {
			fail("gomacro rejects a program accepted by the Go compiler", fmt.Sprint(perr))
			it = newInterp()
			continue
		}
		o := it.run(top)
		if o.String() != w.String() {
			fail("events / result / escaping panic differ from compiled Go", o)
		}
		ndef := p.Feat["defer-closure"] + p.Feat["defer-func"] + p.Feat["defer-in-loop"] + p.Feat["defer-builtin"] + p.Feat["defer-funcvar"]
		rep.Count(p.Src, p.Feat["panic"] > 0 && ndef > 0)
		for k := range p.Feat {
			rep.Dist("construct:" + k)
		}
		if w.Panic != "" {
			rep.Dist("outcome:panic-escapes")
		} else {
			rep.Dist("outcome:returns")
		}
		if i%97 == 3 {
			rep.Sample(map[string]interface{}{"src": p.Src, "go": w})
		}
		in := p.input()
		in["go"], in["gomacro"] = w, o
		rep.CaseInput(p.Idx, in)
		if p.Coq == "" {
			continue // replay of an input recorded without its Coq term: direct oracle only
		}
		pv := "None"
		if o.Panic != "" {
			if v, err := strconv.Atoi(o.Panic); err == nil {
				pv = fmt.Sprintf("(Some %d)", v)
			} else {
				pv = "(Some (-1))"
			}
		}
		cw.Add(fmt.Sprintf("mkCase %d %s %s %d (N.to_nat %d) %s %d %s", p.Idx, vh.CoqBool(!nestedPresent), p.Coq, p.TopIdx, 400+4*p.Size, coqZs(o.Trace), o.Result, pv))
	}
	cw.Close()
	rep.Extra["deferred_corpus_failures"] = deferred
	rep.Write()
}

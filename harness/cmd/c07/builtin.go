// Deferred calls of builtins (property text: "defer (of closures, methods and builtins, inside loops)").
//
// Go accepts as deferred call (and as expression statement) the builtins close, delete, copy, panic, print, println,
// recover.  Every template declares its own containers (names suffixed with a unique number, so that a template can be
// repeated by a counted loop or instantiated several times in one function), defers an OBSERVER closure, defers the
// builtin directly after it (LIFO: the builtin runs first, then the observer) and finally changes the variables used as
// arguments: the value emitted by the observer is a constant fixed by Go's rules (arguments evaluated by the defer
// statement, the call executed when the function returns), so the model term is  ADeferClo [AEmit c]; ADeferClo [].
package main

import (
	"encoding/json"
	"fmt"
	"os"
	"path/filepath"
	"strings"
)

const biKey = "defer-of-builtin-close-delete-copy-recover-panics-in-reflect-at-compile-time"

type biTemplate struct {
	name    string
	lines   []string // $ = unique suffix; the builtin's defer statement is part of the lines
	obs     int      // constant emitted by the observer (0: no observer)
	panics  bool     // defer panic($): the suffix is the (program-unique) panic value
	topOnly bool     // only directly in the body of the entry function (see biRecover)
}

// index of the first template that may only be used in the entry function
const biRecover = 10

var biTemplates = []biTemplate{
	{name: "delete", obs: 2220, lines: []string{
		"m$ := map[int]int{1: 1, 2: 2, 3: 3}", "k$ := 1",
		"defer func() { emit(2000 + 100*len(m$) + 10*m$[2] + m$[1]) }()",
		"defer delete(m$, k$)", "k$ = 2"}},
	{name: "delete-nil-map-string-key", obs: 2300, lines: []string{
		"var m$ map[string]int", "k$ := \"a\"",
		"defer func() { emit(2300 + len(m$) + len(k$)) }()",
		"defer delete(m$, k$)", "k$ = \"\""}},
	{name: "delete-later-entry", obs: 2411, lines: []string{
		// the map is a reference: an entry added after the defer statement is deleted too
		"m$ := map[string]int{\"a\": 1}",
		"defer func() { emit(2400 + 10*len(m$) + m$[\"a\"]) }()",
		"defer delete(m$, \"b\")", "m$[\"b\"] = 2"}},
	{name: "close", obs: 2551, lines: []string{
		"c$ := make(chan int, 1)", "c$ <- 5",
		"defer func() {", "\tv, ok := <-c$", "\tn := 0", "\tselect {", "\tcase _, ok2 := <-c$:", "\t\tif !ok2 {", "\t\t\tn = 1", "\t\t}", "\tdefault:", "\t\tn = 2", "\t}",
		"\tif ok {", "\t\tv += 10", "\t}", "\temit(2400 + 10*v + n)", "}()",
		"defer close(c$)"}},
	{name: "close-send-only", obs: 2601, lines: []string{
		"c$ := make(chan int)", "var s$ chan<- int = c$",
		"defer func() {", "\tselect {", "\tcase _, ok := <-c$:", "\t\tif ok {", "\t\t\temit(2600)", "\t\t} else {", "\t\t\temit(2601)", "\t\t}", "\tdefault:", "\t\temit(2602)", "\t}", "}()",
		"defer close(s$)", "s$ = nil"}},
	{name: "copy", obs: 3059, lines: []string{
		// b[0] = 9 is seen (same backing array), the new slice assigned to b is not
		"a$ := make([]int, 3)", "b$ := []int{4, 5}",
		"defer func() { emit(3000 + a$[0] + 10*a$[1] + 100*a$[2]) }()",
		"defer copy(a$, b$)", "b$[0] = 9", "b$ = []int{7, 8, 6}"}},
	{name: "copy-string", obs: 3395, lines: []string{
		"a$ := make([]byte, 2)", "b$ := \"ab\"",
		"defer func() { emit(3200 + int(a$[0]) + int(a$[1])) }()",
		"defer copy(a$, b$)", "b$ = \"zz\""}},
	{name: "panic", panics: true, lines: []string{"p$ := $", "defer panic(p$)", "p$ = 0"}},
	{name: "panic-const", panics: true, lines: []string{"defer panic($)"}},
	{name: "println", lines: []string{"x$ := $", "defer println(\"deferred\", x$)", "defer print()", "x$++"}},
	// biRecover: a deferred recover() returns nil and does not stop a panic when the function that executes the defer
	// statement is not itself a deferred call (go1.23 treats `defer recover()` executed BY a deferred call as a direct
	// call made by that deferred function: corpus program bi-recover-in-deferred-call)
	{name: "recover", topOnly: true, lines: []string{"defer recover()"}},
}

func (t *biTemplate) render(v int, ind string, sb *strings.Builder) {
	for _, l := range t.lines {
		sb.WriteString(ind + strings.ReplaceAll(l, "$", fmt.Sprint(v)) + "\n")
	}
}

func (t *biTemplate) coq(v int) []string {
	switch {
	case t.panics:
		return []string{fmt.Sprintf("ADeferClo [APanic %d]", v)}
	case t.obs != 0:
		return []string{fmt.Sprintf("ADeferClo [AEmit %d]", t.obs), "ADeferClo (@nil act)"}
	}
	return []string{"ADeferClo (@nil act)"}
}

// biCorpus: fixed programs, compared with compiled Go only (no model term).  Keys are "corpus:<name>".
func biCorpus() []*prog {
	type cp struct{ name, body string }
	list := []cp{
		// the reported input
		{"bi-delete", "\tm := map[int]int{1: 1, 2: 2}\n\tk := 1\n\tdefer func() { emit(10*len(m) + m[2]) }()\n\tdefer delete(m, k)\n\tk = 2\n\treturn len(m)\n"},
		{"bi-delete-loop", "\tm := map[int]int{1: 1, 2: 2, 3: 3}\n\tdefer func() { emit(10*len(m) + m[3]) }()\n\tfor k := 1; k <= 2; k++ {\n\t\tdefer delete(m, k)\n\t}\n\treturn len(m)\n"},
		{"bi-close", "\tc := make(chan int, 1)\n\tdefer func() {\n\t\t_, ok := <-c\n\t\tif !ok {\n\t\t\temit(1)\n\t\t}\n\t}()\n\tdefer close(c)\n\treturn 3\n"},
		{"bi-close-nil-chan-panics", "\tdefer func() {\n\t\tif x := recover(); x != nil {\n\t\t\tif _, ok := x.(error); ok {\n\t\t\t\temit(77)\n\t\t\t}\n\t\t}\n\t}()\n\tvar c chan int\n\tdefer close(c)\n\treturn 3\n"},
		{"bi-close-twice-panics", "\tdefer func() {\n\t\tif x := recover(); x != nil {\n\t\t\tif _, ok := x.(error); ok {\n\t\t\t\temit(78)\n\t\t\t}\n\t\t}\n\t}()\n\tc := make(chan int)\n\tdefer close(c)\n\tdefer close(c)\n\treturn 3\n"},
		{"bi-copy", "\ta := make([]int, 3)\n\tb := []int{4, 5}\n\tdefer func() { emit(a[0] + 10*a[1] + 100*a[2]) }()\n\tdefer copy(a, b)\n\tb[0] = 9\n\tb = []int{7, 8, 6}\n\treturn a[0]\n"},
		{"bi-copy-overlap", "\ta := []int{1, 2, 3, 4}\n\tdefer func() { emit(a[0] + 10*a[1] + 100*a[2] + 1000*a[3]) }()\n\tdefer copy(a[1:], a)\n\treturn 0\n"},
		{"bi-panic", "\tdefer func() {\n\t\tif x := recover(); x != nil {\n\t\t\temit(1000 + x.(int))\n\t\t}\n\t}()\n\tx := 7\n\tdefer panic(x)\n\tx = 8\n\treturn x\n"},
		{"bi-panic-replaces-panic", "\tdefer panic(2)\n\tpanic(1)\n"},
		{"bi-print", "\tdefer print(\"a\", 1)\n\tdefer println(\"b\", 2)\n\tdefer println()\n\treturn 3\n"},
		{"bi-recover-does-not-recover", "\tdefer func() { r = 5 }()\n\tdefer recover()\n\tpanic(1)\n"},
		{"bi-recover-then-closure-recovers", "\tdefer func() {\n\t\tif x := recover(); x != nil {\n\t\t\tr = 100 + x.(int)\n\t\t}\n\t}()\n\tdefer recover()\n\tpanic(1)\n"},
		{"bi-recover-no-panic", "\tdefer recover()\n\treturn 4\n"},
		// go1.23: recovers (r == 0, nothing escapes): `defer recover()` executed by a deferred call of the panicking function
		{"bi-recover-in-deferred-call", "\tdefer func() {\n\t\tdefer recover()\n\t}()\n\tpanic(3)\n"},
		{"bi-mixed-loop", "\tm := map[int]int{}\n\tc := make(chan int, 8)\n\tdefer func() {\n\t\tn := 0\n\t\tfor range c {\n\t\t\tn++\n\t\t}\n\t\temit(100*n + len(m))\n\t}()\n\tdefer close(c)\n\tfor i := 0; i < 6; i++ {\n\t\tm[i] = i\n\t\tc <- i\n\t\tif i%2 == 0 {\n\t\t\tdefer delete(m, i)\n\t\t}\n\t}\n\treturn len(m)\n"},
	}
	var out []*prog
	for i, c := range list {
		fn := fmt.Sprintf("cb%d", i)
		out = append(out, &prog{Idx: i, Feat: map[string]int{"defer-builtin": 1, "panic": 1, "corpus:" + c.name: 1},
			Src: "func " + fn + "() (r int) {\n" + c.body + "}\n\n", TopName: fn, Key: "corpus:" + c.name, Defer: true, Size: 50})
	}
	return out
}

// registeredKeys: the keys (key + other_keys) recorded for property C07 in $VERIF_DIR/known_findings.json
func registeredKeys(dir string) map[string]bool {
	out := map[string]bool{}
	var kf struct {
		Findings []struct {
			Property string   `json:"property"`
			Key      string   `json:"key"`
			Other    []string `json:"other_keys"`
		} `json:"findings"`
	}
	if b, err := os.ReadFile(filepath.Join(dir, "known_findings.json")); err == nil && json.Unmarshal(b, &kf) == nil {
		for _, f := range kf.Findings {
			if f.Property == "C07" {
				out[f.Key] = true
				for _, k := range f.Other {
					out[k] = true
				}
			}
		}
	}
	return out
}

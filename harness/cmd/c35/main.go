// c35: generic instantiation = textual specialisation, and is memoised (fast/generic_func.go, generic_type.go,
// generic_maker.go, generic_infer.go).
//
// Every session is one fresh interpreter (etoken.GENERICS_V2_CTI) in which the whole template catalogue (templates.go)
// and a few named types are declared, followed by a random history of operations.  One operation = one generic G, one
// list of random type/constant arguments A (basic types of all widths, named types of the session, slices, maps,
// arrays, pointers, funcs, chans, struct literals, other instances), one scope (top level, function body, closures of
// depth 1..3, block, goroutine, method body, function with a local type as argument, call with inferred arguments) and
// random input values.  Direct oracles (never the Coq model):
//
//	(1) L1: the declaration of G with the parameters textually replaced by A and a fresh name (inner generic
//	    references kept), declared in the same interpreter; driver results must be equal; the type of a function
//	    instance must be identical to the type of its L1 copy; the underlying type of a type instance must be identical
//	    to the type denoted by the textually substituted body;
//	(2) L2: the fully monomorphised plain-Go copy, evaluated by gomacro and compiled with `go build` in one batched
//	    oracle module (go 1.18): results must be equal;
//	(3) memoisation: the same (G, A) again - other scope, other Eval, other spelling of A (alias name, constant
//	    expression) - must leave the instance caches GenericFunc.Instances / GenericType.Instances unchanged, keep the
//	    *GenericFuncInstance pointer, and yield a type with the same xreflect.MakeKey that is IdenticalTo, assignable
//	    and prints the same %T; distinct argument lists of one generic must yield distinct keys / non-identical types
//	    (and, when the reflect types differ, non-assignable values).
//
// Correspondence (cases_*.v): per session the declarations (the generic references of every body), the history (the
// closed references every evaluated source contains, in order) -> cache sizes of every generic after every operation
// and, for the identity probes, the index of the first probe that returned the same type; evaluated by the Coq model.
package main

import (
	"bytes"
	"encoding/json"
	"fmt"
	types "github.com/cosmos72/gomacro/go/types"
	"io"
	"os"
	"path/filepath"
	"regexp"
	"sort"
	"strconv"
	"strings"
	"time"

	"github.com/cosmos72/gomacro/base"
	"github.com/cosmos72/gomacro/fast"
	etoken "github.com/cosmos72/gomacro/go/etoken"
	xr "github.com/cosmos72/gomacro/xreflect"
	"verifh/vh"
)

// ---------------------------------------------------------------- L2 registry
type Specs struct {
	sess  *Session
	have  map[string]bool
	all   []string
	fresh []string
}

func (sp *Specs) need(name string, args []*Ty) string {
	mg := mangle(name, args)
	if sp.have[mg] {
		return mg
	}
	sp.have[mg] = true
	t := sp.sess.tmpl[name]
	if t == nil {
		panic("unknown template " + name)
	}
	src := sp.sess.declSrc(t, &Mode{kind: mL2, args: args, sp: sp}, mg)
	sp.all = append(sp.all, src)
	sp.fresh = append(sp.fresh, src)
	return mg
}
func (sp *Specs) take() []string {
	f := sp.fresh
	sp.fresh = nil
	return f
}

// ---------------------------------------------------------------- expansion of the template language
type holeVal struct {
	v     *Val
	cands [][]*Val // func-typed hole: candidate results
	t     *Ty
}
type expCtx struct {
	head  string // %D%
	fn    string // %F%
	self  *Ty    // %SELF%
	holes map[int]*holeVal
	seed  uint64
}

func (s *Session) declSrc(t *Template, m *Mode, head string) string {
	if t.Kind == "func" {
		return s.expand(t.Src, m, &expCtx{head: head})
	}
	eq := ""
	if t.Kind == "alias" {
		eq = "= "
	}
	return "type " + head + " " + eq + m.ty(t.Under)
}

func (s *Session) expand(src string, m *Mode, x *expCtx) string {
	var sb strings.Builder
	for i := 0; i < len(src); {
		c := src[i]
		switch {
		case c == '$' && i+1 < len(src) && src[i+1] >= '0' && src[i+1] <= '9':
			sb.WriteString(m.ty(Param(int(src[i+1] - '0'))))
			i += 2
		case c == '@':
			j := i + 1
			for j < len(src) && isIdent(src[j]) {
				j++
			}
			depth, k := 0, j
			for ; k < len(src); k++ {
				if src[k] == '<' {
					depth++
				} else if src[k] == '>' {
					depth--
					if depth == 0 {
						break
					}
				}
			}
			sb.WriteString(m.ty(parseTy(src[i : k+1])))
			i = k + 1
		case strings.HasPrefix(src[i:], "%D%"):
			sb.WriteString(x.head)
			i += 3
		case strings.HasPrefix(src[i:], "%F%"):
			sb.WriteString(x.fn)
			i += 3
		case c == '&' && i+1 < len(src) && isIdent(src[i+1]) && strings.IndexByte(src[i+1:], '&') > 0 && findUnit(src[i+1:i+1+strings.IndexByte(src[i+1:], '&')]) != nil:
			j := strings.IndexByte(src[i+1:], '&') + i + 1
			name := src[i+1 : j]
			if m.rec != nil {
				*m.rec = append(*m.rec, &Ty{K: "plain", Name: name})
			}
			sb.WriteString(name)
			i = j + 1
		case c == '#' && i+1 < len(src) && src[i+1] >= '0' && src[i+1] <= '9':
			j := strings.IndexByte(src[i+1:], '#') + i + 1
			body := src[i+1 : j]
			col := strings.IndexByte(body, ':')
			k, _ := strconv.Atoi(body[:col])
			sb.WriteString(s.hole(k, body[col+1:], m, x))
			i = j + 1
		default:
			sb.WriteByte(c)
			i++
		}
	}
	return sb.String()
}

func (s *Session) hole(k int, typ string, m *Mode, x *expCtx) string {
	h := x.holes[k]
	if h == nil {
		var t *Ty
		if typ == "%SELF%" {
			t = x.self
		} else {
			t = subst(parseTy(typ), m.args)
		}
		r := vh.NewRng(x.seed*1000003 + uint64(k)*7919 + 17)
		h = &holeVal{t: t}
		if t.K == "func" && strings.HasPrefix(strings.TrimSpace(typ), "func(") {
			for _, o := range t.Outs {
				var c []*Val
				for i := 0; i < 3; i++ {
					c = append(c, s.genVal(o, r, 1))
				}
				h.cands = append(h.cands, c)
			}
		} else {
			h.v = s.genVal(t, r, 0)
		}
		x.holes[k] = h
	}
	closed := &Mode{kind: m.kind, sp: m.sp, rec: m.rec, spell: false}
	if h.cands == nil && h.v == nil {
		h.v = s.genVal(h.t, vh.NewRng(x.seed+uint64(k)), 0)
	}
	if h.v != nil {
		return closed.val(h.v)
	}
	// function literal: total, deterministic, depends on the printed length of its arguments
	t := h.t
	var ps, lens []string
	for i, in := range t.E {
		ps = append(ps, fmt.Sprintf("a%d %s", i, closed.ty(in)))
		lens = append(lens, fmt.Sprintf("len(fmt.Sprint(a%d))", i))
	}
	if len(lens) == 0 {
		lens = []string{"0"}
	}
	var outs, rets []string
	for i, o := range t.Outs {
		ot := closed.ty(o)
		outs = append(outs, ot)
		var cs []string
		for _, c := range h.cands[i] {
			cs = append(cs, closed.val(c))
		}
		rets = append(rets, fmt.Sprintf("[]%s{%s}[n%%3]", ot, strings.Join(cs, ", ")))
	}
	sig := "func(" + strings.Join(ps, ", ") + ")"
	if len(outs) == 1 {
		sig += " " + outs[0]
	} else if len(outs) > 1 {
		sig += " (" + strings.Join(outs, ", ") + ")"
	}
	if len(outs) == 0 {
		return sig + " { }"
	}
	return sig + " { n := " + strings.Join(lens, " + ") + "; return " + strings.Join(rets, ", ") + " }"
}

// ---------------------------------------------------------------- argument generator
var intKinds = []string{"int", "int8", "int16", "int32", "int64", "uint", "uint8", "uint16", "uint32", "uint64"}

func pick(r *vh.Rng, l []string) string { return l[r.Intn(len(l))] }

func (s *Session) genArg(class string, r *vh.Rng, depth int) *Ty {
	basic := func(n string) *Ty {
		t := Basic(n)
		if n == "int" && r.Chance(1, 4) {
			t.Spell = "AliasInt"
		}
		if n == "uint8" && r.Chance(1, 3) {
			t.Spell = "byte"
		}
		if n == "int32" && r.Chance(1, 3) {
			t.Spell = "rune"
		}
		return t
	}
	switch class {
	case "int":
		if r.Chance(1, 8) {
			return Named("MyInt")
		}
		return basic(pick(r, intKinds))
	case "numbasic":
		if r.Chance(1, 4) {
			return Basic("float64")
		}
		return basic(pick(r, intKinds))
	case "ordbasic":
		switch r.Intn(5) {
		case 0:
			return Basic("string")
		case 1:
			return Basic("float64")
		}
		return basic(pick(r, intKinds))
	case "num", "add", "ord":
		switch r.Intn(10) {
		case 0:
			return Basic("float64")
		case 1:
			return Basic("float32")
		case 2:
			return Named("MyInt")
		case 3:
			if class != "num" {
				return Basic("string")
			}
		case 4:
			if class == "add" {
				return Basic("complex128")
			}
			if class == "ord" {
				return Named("Str")
			}
		}
		return basic(pick(r, intKinds))
	case "constint":
		v := r.Intn(5)
		t := Const("int", strconv.Itoa(v))
		switch r.Intn(4) {
		case 0:
			t.Spell = strconv.Itoa(v)
		case 1:
			t.Spell = fmt.Sprintf("%d-%d", v+2, 2)
		case 2:
			t.Spell = fmt.Sprintf("K%d", v) // session constant
		}
		return t
	case "constnamed":
		return Const(pick(r, []string{"MyInt", "OtherInt"}), strconv.Itoa(r.Intn(3)))
	case "cmp":
		switch r.Intn(9) {
		case 0:
			return Basic("string")
		case 1:
			return Basic("bool")
		case 2:
			return Named("S1")
		case 3:
			return Array(Const("int", "2"), basic(pick(r, intKinds)))
		case 4:
			if depth < 2 {
				return Inst("Pair", s.genArg("cmp", r, depth+1), s.genArg("cmp", r, depth+1))
			}
		case 5:
			return Ptr(Basic("int"))
		case 6:
			return Struct([]string{"A", "B"}, []*Ty{Basic("int"), Basic("string")})
		case 7:
			return Basic("float64")
		}
		return s.genArg("ord", r, depth)
	}
	// any
	if depth >= 2 {
		return s.genArg("cmp", r, depth)
	}
	d := depth + 1
	switch r.Intn(16) {
	case 0:
		return Slice(s.genArg("any", r, d))
	case 1:
		return Map(s.genArg("cmp", r, d), s.genArg("any", r, d))
	case 2:
		return Ptr(s.genArg("any", r, d))
	case 3:
		return Func([]*Ty{s.genArg("any", r, d)}, []*Ty{s.genArg("any", r, d)})
	case 4:
		return Chan(s.genArg("any", r, d))
	case 5:
		return Named("S2")
	case 6:
		return Struct([]string{"X", "Y"}, []*Ty{s.genArg("any", r, d), s.genArg("cmp", r, d)})
	case 7:
		return Inst("Pair", s.genArg("any", r, d), s.genArg("any", r, d))
	case 8:
		// (while C35-2 is unfixed the generator keeps recursive instances out of the arguments of other instances)
		names := []string{"Box", "Opt", "List", "Stack", "Vec", "Pipe", "NodeA"}
		if !s.h.fixed2 {
			if depth > 0 {
				names = []string{"Box", "Opt", "Stack", "Vec", "Pipe"}
			} else {
				return Inst(pick(r, names), s.genArg("cmp", r, 2))
			}
		}
		return Inst(pick(r, names), s.genArg("any", r, d))
	case 9:
		return Inst("Arr", s.genArg("any", r, d), s.genArg("constint", r, d))
	case 10:
		return Inst("Fn", s.genArg("any", r, d), s.genArg("any", r, d))
	case 11:
		return Array(Const("int", strconv.Itoa(r.Intn(4))), s.genArg("any", r, d))
	}
	return s.genArg("cmp", r, depth)
}

// ---------------------------------------------------------------- sessions
type Op struct {
	N     int    `json:"n"`
	Tmpl  string `json:"generic"`
	Args  string `json:"args"`
	Scope string `json:"scope"`
	Seed  uint64 `json:"seed"`
	Src   string `json:"src,omitempty"`
	inst  *Ty
	local *Ty
}

type siteRec struct {
	sess, n int
	key     string
	op      Op
	gen     string // result of the plain-Go copy evaluated by gomacro (already required to equal the instance's result)
	err     string
}

type harness struct {
	a       *vh.Args
	rep     *vh.Report
	wd      *vh.Watchdog
	cw      *vh.Cases
	cat     []*Template
	fixed   bool // C35-1 fixed on this tree
	fixed2  bool // C35-2 fixed on this tree
	oracle  []*oraclePkg
	sites   []siteRec
	caseIdx int
	casesE  []string // cases of the "late" sessions, for C35.FailModel (written as cases_fail_NNN.v)
	pending []*pendingDiff
}

// pendingDiff: the instance and one of its specialisations (L1 in the same interpreter, or the plain-Go copy L2 evaluated
// by gomacro) returned different results.  Decided once the compiled-Go result of the plain copy is known (decide()).
type pendingDiff struct {
	sess, n  int
	kind     string // "L1" | "L2"
	f        vh.Failure
	inst     string // norm(result of the instance)
	instErr  string
	plain    string // L2 only: norm(result of the plain-Go copy evaluated by gomacro in the session)
	fresh    string // norm(result of the plain-Go copy evaluated FIRST, in the same kind of scope, in a fresh interpreter)
	freshErr string
	freshSrc string // that generics-free program
	instance string
	scope    string
}

type probeRec struct {
	idx int
	key xr.Key
}

type Session struct {
	named  map[string]*Ty
	tmpl   map[string]*Template
	h      *harness
	id     int
	ir     *fast.Interp
	sp     *Specs
	env    *coqEnv
	pn     map[string][]string // parameter names per template
	seen   map[string]bool     // canonical instances certainly instantiated so far: closure (arguments, declaration bodies) of every reference a successfully compiled source spelled
	maybe  map[string]bool     // same closure for sources whose compilation failed: completed inner instances stay cached, the others do not
	keys   map[string]xr.Key   // canonical type instance -> key of the first probe
	typs   map[string]xr.Type
	first  map[string]int // canonical type instance -> index of the first probe op
	probes []probeRec
	// correspondence
	cops  []string
	cobs  []string
	nops  int
	dirty bool
	pkg   *oraclePkg
	hist  []Op
	// "late" session: the late units are declared only after a consumer failed for want of them (FailModel)
	late     bool
	declared map[string]bool // late units (plain and generic) evaluated so far
	avail0   []bool          // model: initial availability of every declaration
	out      *bytes.Buffer   // Stdout of the interpreter (debug lines of OptDebugGenerics)
}

const sessionDecls = `type S1 struct { A int; B string }
type S2 struct { X float64; Y []int }
type MyInt int
type OtherInt int
type Str string
type AliasInt = int
func (m MyInt) Name() string { return "MyInt" }
func (m OtherInt) Name() string { return "OtherInt" }
const K0, K1, K2, K3, K4 = 0, 1, 2, 3, 4`

func (h *harness) newSession(id int, r *vh.Rng, late bool) *Session {
	s := &Session{h: h, id: id, named: map[string]*Ty{}, tmpl: map[string]*Template{}, env: newCoqEnv(), pn: map[string][]string{},
		seen: map[string]bool{}, maybe: map[string]bool{}, keys: map[string]xr.Key{}, typs: map[string]xr.Type{}, first: map[string]int{},
		late: late, declared: map[string]bool{}, out: &bytes.Buffer{}}
	s.env.late = late
	s.named["LateRec"] = parseTy("struct { N int; S string }")
	s.named["S1"] = parseTy("struct { A int; B string }")
	s.named["S2"] = parseTy("struct { X float64; Y []int }")
	s.named["MyInt"] = Basic("int")
	s.named["OtherInt"] = Basic("int")
	s.named["Str"] = Basic("string")
	s.sp = &Specs{sess: s, have: map[string]bool{}}
	s.ir = fast.New()
	s.ir.Comp.Globals.Stderr = io.Discard
	s.ir.Comp.Globals.Stdout = s.out
	s.pkg = &oraclePkg{name: fmt.Sprintf("s%d", id), sites: map[int]string{}}
	h.oracle = append(h.oracle, s.pkg)
	s.mustEval(`import "fmt"`)
	for _, d := range strings.Split(sessionDecls+"\n"+globalDecls, "\n") {
		s.mustEval(d)
	}
	// the catalogue, in random order, with random parameter names; generic ids of the model = catalogue order,
	// followed by the plain late units
	for _, t := range h.cat {
		s.tmpl[t.Name] = t
		s.env.id(s.env.gens, t.Name)
		s.avail0 = append(s.avail0, !(late && t.Late))
	}
	for _, u := range lateUnits {
		s.env.id(s.env.gens, u.Name)
		s.env.plain[u.Name] = true
		s.avail0 = append(s.avail0, false)
		if !late {
			s.mustEval(u.Src)
			s.declared[u.Name] = true
		}
	}
	order := make([]int, len(h.cat))
	for i := range order {
		order[i] = i
	}
	for i := len(order) - 1; i > 0; i-- {
		j := r.Intn(i + 1)
		order[i], order[j] = order[j], order[i]
	}
	// the last two styles shadow names of the enclosing scope (named types of the session, basic types)
	styles := [][]string{{"T", "U", "V"}, {"A", "B", "C"}, {"K1", "K2", "K3"}, {"Elem", "Val", "Acc"}, {"S2", "MyInt", "Str"}, {"S1", "OtherInt", "AliasInt"}}
	for _, i := range order {
		t := h.cat[i]
		st := styles[r.Intn(len(styles))]
		pn := st[:t.NP]
		s.pn[t.Name] = pn
		if late && t.Late {
			continue // declared by declareUnit once a consumer has failed
		}
		s.mustEval(s.genericDecl(t))
		if t.Late {
			s.declared[t.Name] = true
		}
	}
	return s
}

func (s *Session) genericDecl(t *Template) string {
	pn := s.pn[t.Name]
	return s.declSrc(t, &Mode{kind: mGen, pnames: pn}, t.Name+"#["+strings.Join(pn, ", ")+"]")
}

// pending: the late units named by the body of t that are not declared yet
func (s *Session) pending(t *Template) []string {
	var p []string
	for _, n := range t.Needs {
		if !s.declared[n] {
			p = append(p, n)
		}
	}
	return p
}

// declareUnit evaluates the declaration of a late unit (plain declaration or Late generic); model: EDeclare
func (s *Session) declareUnit(n string) {
	if u := findUnit(n); u != nil {
		s.mustEval(u.Src)
	} else {
		s.mustEval(s.genericDecl(s.tmpl[n]))
	}
	s.declared[n] = true
	sz, _ := s.sizes()
	s.cops = append(s.cops, fmt.Sprintf("EDeclare %d", s.env.gens[n]))
	s.cobs = append(s.cobs, fmt.Sprintf("mkObs %s %s", coqSizes(sz), vh.CoqZ(-4)))
	s.nops++
}

// model declarations: kind, parameter names, declared type, generic references of a function, in source order
func (s *Session) coqDecls() string {
	var ds []string
	for _, t := range s.h.cat {
		pn := s.pn[t.Name]
		var ids []string
		for _, p := range pn {
			ids = append(ids, fmt.Sprintf("%d%%N", s.env.id(s.env.basics, p)))
		}
		switch t.Kind {
		case "func":
			var refs []*Ty
			s.declSrc(t, &Mode{kind: mGen, pnames: pn, rec: &refs}, "x")
			ds = append(ds, fmt.Sprintf("mkDecl 2 %s (TyFunc [] []) %s", vh.CoqList(ids, "N"), s.env.tyList(refs, pn)))
		case "alias":
			ds = append(ds, fmt.Sprintf("mkDecl 1 %s %s []", vh.CoqList(ids, "N"), s.env.ty(t.Under, pn)))
		default:
			ds = append(ds, fmt.Sprintf("mkDecl 0 %s %s []", vh.CoqList(ids, "N"), s.env.ty(t.Under, pn)))
		}
	}
	if s.late {
		for range lateUnits {
			ds = append(ds, "mkDecl 3 [] (TyName 0%N) []")
		}
	}
	return vh.CoqList(ds, "decl")
}

func (s *Session) mustEval(src string) {
	if p := vh.Catch(func() { s.ir.Eval(src) }); p != nil {
		panic(fmt.Sprintf("session setup failed: %v\n%s", p, src))
	}
}

type evalRes struct {
	out      string
	err      string
	types    []xr.Type
	compiled bool // the source compiled (instantiations happen while compiling); err is then a run-time error
}

func (s *Session) eval(src string) evalRes { return evalIn(s.ir, src) }

func evalIn(ir *fast.Interp, src string) evalRes {
	var res evalRes
	p := vh.Catch(func() {
		e := ir.Compile(src)
		res.compiled = true
		if e == nil {
			return
		}
		vals, types := ir.RunExpr(e)
		res.types = types
		if len(vals) > 0 && vals[0].IsValid() && vals[0].Kind().String() == "string" {
			res.out = vals[0].String()
		}
	})
	if p != nil {
		res.err = fmt.Sprint(p)
		if len(res.err) > 300 {
			res.err = res.err[:300]
		}
	}
	return res
}

// cache sizes of every generic, catalogue order; and the instance pointers of generic functions
func (s *Session) sizes() ([]int, map[string]map[interface{}]*fast.GenericFuncInstance) {
	var sz []int
	ptrs := map[string]map[interface{}]*fast.GenericFuncInstance{}
	for _, t := range s.h.cat {
		b := s.ir.Comp.Binds[t.Name]
		n := -1
		if b != nil {
			switch g := b.Value.(type) {
			case *fast.GenericFunc:
				n = len(g.Instances)
				m := map[interface{}]*fast.GenericFuncInstance{}
				for k, v := range g.Instances {
					m[k] = v
				}
				ptrs[t.Name] = m
			case *fast.GenericType:
				n = len(g.Instances)
			}
		}
		if n < 0 && s.late {
			n = 0 // a Late generic that is not declared yet
		}
		sz = append(sz, n)
	}
	if s.late {
		for range lateUnits {
			sz = append(sz, 0)
		}
	}
	return sz, ptrs
}

func coqSizes(sz []int) string {
	var p []string
	for _, n := range sz {
		p = append(p, fmt.Sprintf("%d%%N", n))
	}
	return vh.CoqList(p, "N")
}

// record one evaluated source in the model history
func (s *Session) record(refs []*Ty, probe bool, first int) {
	sz, _ := s.sizes()
	if s.late {
		s.cops = append(s.cops, fmt.Sprintf("EEval %s %s", s.env.tyList(refs, nil), vh.CoqBool(probe)))
	} else {
		s.cops = append(s.cops, fmt.Sprintf("mkOp %s %s", s.env.tyList(refs, nil), vh.CoqBool(probe)))
	}
	s.cobs = append(s.cobs, fmt.Sprintf("mkObs %s %s", coqSizes(sz), vh.CoqZ(int64(first))))
	s.nops++
}

// recordFail: an evaluated source whose compilation failed inside an instantiation (late sessions only: FailModel)
func (s *Session) recordFail(refs []*Ty) {
	sz, _ := s.sizes()
	s.cops = append(s.cops, fmt.Sprintf("EEval %s false", s.env.tyList(refs, nil)))
	s.cobs = append(s.cobs, fmt.Sprintf("mkObs %s %s", coqSizes(sz), vh.CoqZ(-3)))
	s.nops++
}

// layers of a "nest:" scope: the instantiation is named below a function body and 0..5 further constructs, each of
// which may or may not own a run-time environment (blocks, loops, if/switch with an init statement, closures - with
// and without locals or parameters).  The first layer is the function: fn (no parameters) or fnP (parameters).
var layerKinds = []string{"blk", "blkL", "for", "forL", "range", "if", "sw", "cl", "clL", "clP"}

func genLayers(r *vh.Rng, k int) string {
	l := []string{"fn"}
	if r.Chance(1, 3) {
		l[0] = "fnP"
	}
	for i := 0; i < k; i++ {
		l = append(l, layerKinds[r.Intn(len(layerKinds))])
	}
	return "nest:" + strings.Join(l, ",")
}

func wrapNest(n int, layers []string, e string) (decl, call string) {
	f := fmt.Sprintf("op%d", n)
	body := "r = " + e
	for i := len(layers) - 1; i >= 1; i-- {
		v := fmt.Sprintf("%d_%d", n, i)
		switch layers[i] {
		case "blk":
			body = "{ " + body + " }"
		case "blkL":
			body = fmt.Sprintf("{ pad%s := %d; _ = pad%s; %s }", v, i, v, body)
		case "for":
			body = fmt.Sprintf("for i%s := 0; i%s < 2; i%s++ { %s }", v, v, v, body)
		case "forL":
			body = fmt.Sprintf("for i%s := 0; i%s < 2; i%s++ { k%s := i%s * 3; _ = k%s; %s }", v, v, v, v, v, v, body)
		case "range":
			body = fmt.Sprintf("for _, e%s := range []int{3, 4} { _ = e%s; %s }", v, v, body)
		case "if":
			body = fmt.Sprintf("if c%s := %d; c%s >= 0 { %s }", v, i, v, body)
		case "sw":
			body = fmt.Sprintf("switch t%s := %d; { case t%s >= 0: %s }", v, i, v, body)
		case "cl":
			body = "func() { " + body + " }()"
		case "clL":
			body = fmt.Sprintf("func() { w%s := %d; _ = w%s; %s }()", v, i, v, body)
		case "clP":
			body = fmt.Sprintf("func(a%s int) { _ = a%s; %s }(%d)", v, v, body, i)
		default:
			panic("unknown layer " + layers[i])
		}
	}
	if layers[0] == "fnP" {
		return fmt.Sprintf("func %s(a int, b string) string { var r string; %s; return r }", f, body), f + `(1, "q")`
	}
	return fmt.Sprintf("func %s() string { var r string; %s; return r }", f, body), f + "()"
}

func wrapScope(scope string, n int, e string, local string) (decl, call string) {
	f := fmt.Sprintf("op%d", n)
	if strings.HasPrefix(scope, "nest:") {
		return wrapNest(n, strings.Split(scope[5:], ","), e)
	}
	switch scope {
	case "func":
		return fmt.Sprintf("func %s() string { return %s }", f, e), f + "()"
	case "closure1":
		return fmt.Sprintf("func %s() string { return func() string { return %s }() }", f, e), f + "()"
	case "closure2":
		return fmt.Sprintf("func %s() string { g := func() string { return func() string { return %s }() }; return g() }", f, e), f + "()"
	case "closure3":
		return fmt.Sprintf("func %s(a int, b string) string { x := a + 1; return func() string { y := b; _ = y; return func() string { return func() string { _ = x; return %s }() }() }() }", f, e), f + `(1, "q")`
	case "block":
		return fmt.Sprintf("func %s() string { var r string; { var pad1, pad2 int; _ = pad1; _ = pad2; { r = %s } }; return r }", f, e), f + "()"
	case "goroutine":
		return fmt.Sprintf("func %s() string { c := make(chan string, 1); go func() { defer func() { if recover() != nil { c <- \"panic\" } }(); c <- %s }(); return <-c }", f, e), f + "()"
	case "method":
		return fmt.Sprintf("type Recv%d struct{ Pad int }\nfunc (r Recv%d) Run() string { return %s }", n, n, e), fmt.Sprintf("Recv%d{}.Run()", n)
	case "localtype":
		return fmt.Sprintf("func %s() string { %s; return %s }", f, local, e), f + "()"
	}
	return "", "(" + e + ")"
}

var scopes = []string{"top", "top", "func", "closure1", "closure2", "closure3", "block", "goroutine", "method", "localtype", "infer", "nest", "nest", "nest"}

var reUpn = regexp.MustCompile(`upn = (\d+)`)

func (s *Session) fail(key, what string, in interface{}, got, want interface{}) {
	s.h.rep.Fail(vh.Failure{Key: key, What: what, Input: in, Got: got, Want: want})
}

func norm(r evalRes) string {
	if r.err != "" || r.out == "panic" { // "panic": recovered inside the goroutine scope
		return "ERROR"
	}
	return r.out
}

// one operation
func (s *Session) runOp(r *vh.Rng, forced *Op) {
	h := s.h
	n := len(s.hist)
	var t *Template
	var args []*Ty
	scope := scopes[r.Intn(len(scopes))]
	seed := r.U64() >> 16
	var local *Ty
	localDecl := ""
	if forced != nil {
		t, args, scope, seed = s.tmpl[forced.Tmpl], forced.inst.E, forced.Scope, forced.Seed
	} else if len(s.hist) > 0 && r.Chance(3, 10) {
		// repeat an earlier (generic, arguments) from another scope, with other values / spellings
		prev := s.hist[r.Intn(len(s.hist))]
		if prev.local == nil {
			t, args = s.tmpl[prev.Tmpl], prev.inst.E
			if r.Chance(1, 4) && t.NP == 2 && t.Classes[0] == t.Classes[1] {
				args = []*Ty{args[1], args[0]} // permuted arguments: a distinct instance
			}
		}
	}
	if t == nil {
		for {
			t = h.cat[r.Intn(len(h.cat))]
			if !h.fixed && hasClass(t, "constnamed") {
				continue
			}
			break
		}
		for _, c := range t.Classes {
			args = append(args, s.genArg(c, r, 0))
		}
	}
	if scope == "infer" && !t.Infer {
		scope = "top"
	}
	if scope == "nest" {
		scope = genLayers(r, r.Intn(6))
	}
	if t.Late && !s.declared[t.Name] {
		s.declareUnit(t.Name) // a Late generic picked directly: declared now
	}
	if scope == "localtype" {
		// a type declared inside the function body becomes one of the "any" arguments
		pos := -1
		for i, c := range t.Classes {
			if c == "any" {
				pos = i
			}
		}
		if pos < 0 || forced != nil {
			scope = "func"
		} else {
			name := fmt.Sprintf("L%d_%d", s.id, n)
			local = Named(name)
			s.named[name] = parseTy("struct { P int; Q string }")
			localDecl = "type " + name + " struct { P int; Q string }"
			args = append([]*Ty(nil), args...)
			args[pos] = local
		}
	}
	inst := Inst(t.Name, args...)
	cinst := canon(inst)
	op := Op{N: n, Tmpl: t.Name, Args: canonList(args), Scope: scope, Seed: seed, inst: inst, local: local}
	key := fmt.Sprintf("C35:%s:%s", cinst, scope)
	h.wd.Beat(map[string]interface{}{"session": s.id, "op": op})
	if pend := s.pending(t); len(pend) > 0 {
		s.failFirst(t, args, inst, scope, n, pend, local)
	}
	if strings.HasPrefix(scope, "nest:") {
		h.rep.Dist(fmt.Sprintf("scope:nest(%d layers)", strings.Count(scope, ",")))
		for _, l := range strings.Split(scope[5:], ",") {
			h.rep.Dist("layer:" + l)
		}
	} else {
		h.rep.Dist("scope:" + scope)
	}
	if t.Global {
		h.rep.Dist("generic-uses-package-level-state")
	}
	h.rep.Dist("generic:" + t.Name)
	for _, a := range args {
		h.rep.Dist("arg:" + a.K)
	}

	// ---- generic rendering
	var refs []*Ty
	x := &expCtx{holes: map[int]*holeVal{}, seed: seed, self: inst}
	mg := &Mode{kind: mGen, args: args, rec: &refs, spell: true}
	if scope == "infer" {
		x.fn = t.Name
		refs = append(refs, inst)
	} else {
		x.fn = mg.ty(inst)
	}
	eGen := s.expand(t.Drv, mg, x)
	if scope == "localtype" {
		// the same instance twice in one body (second driver with other values)
		x2 := &expCtx{holes: map[int]*holeVal{}, seed: seed + 1, self: inst, fn: x.fn}
		eGen = eGen + ` + "|" + ` + s.expand(t.Drv, mg, x2)
	}
	decl, call := wrapScope(scope, n, eGen, localDecl)
	op.Src = decl + "\n" + call
	in := map[string]interface{}{"session": s.id, "seed": h.a.Seed, "op": op, "history": s.hist}
	repeated := s.seen[cinst]
	szBefore, ptrBefore := s.sizes()
	var rGen evalRes
	compiled := true
	measure := t.Kind == "func" && (t.Global || strings.HasPrefix(scope, "nest:"))
	if measure {
		// OptDebugGenerics makes Comp.genericFunc print the number of run-time environments between the place that
		// names the instance and the scope that declares the generic ("upn"): measured, for the evidence
		s.out.Reset()
		s.ir.Comp.Globals.Options |= base.OptDebugGenerics
	}
	if decl != "" {
		rGen = s.eval(decl)
		compiled = rGen.compiled
	}
	if rGen.err == "" {
		rGen = s.eval(call)
		compiled = rGen.compiled
	}
	if measure {
		s.ir.Comp.Globals.Options &^= base.OptDebugGenerics
		for _, line := range strings.Split(s.out.String(), "\n") {
			if strings.Contains(line, "generic function: "+t.Name+"#[") {
				if m := reUpn.FindStringSubmatch(line); m != nil {
					h.rep.Dist("env-depth-below-declaration(upn):" + m[1])
					if t.Global {
						h.rep.Dist("env-depth(upn) of generics using package-level state:" + m[1])
					}
				}
			}
		}
		s.out.Reset()
	}
	szAfter, ptrAfter := s.sizes()
	s.hist = append(s.hist, op)
	if compiled {
		s.mark(s.seen, refs)
		s.record(refs, false, -1)
	} else {
		s.mark(s.maybe, refs)
		s.dirty = true
	}
	ti := s.env.gens[t.Name]
	if compiled {
		// (3) memoisation, on the implementation's own caches
		if repeated {
			if fmt.Sprint(szBefore) != fmt.Sprint(szAfter) {
				s.fail(key, "memo: instantiating an already instantiated (generic, arguments) changed the instance caches", in, szAfter, szBefore)
			}
			if t.Kind == "func" {
				for k, p := range ptrBefore[t.Name] {
					if ptrAfter[t.Name][k] != p {
						s.fail(key, "memo: *GenericFuncInstance replaced", in, nil, nil)
					}
				}
			}
		} else if local == nil && !s.maybe[cinst] && szAfter[ti] <= szBefore[ti] {
			// (generic, arguments) was never instantiated before - neither spelled in an evaluated source (at any depth of
			// its type arguments) nor reached through the body of an instantiated declaration
			s.fail(key, "memo: a new argument list did not create a new instance (collision)", in, szAfter[ti], szBefore[ti]+1)
		}
	}

	// ---- L1: textual specialisation, same interpreter
	var rL1 evalRes
	haveL1 := scope != "localtype" && !t.NoL1
	if haveL1 {
		var refs1 []*Ty
		fresh := fmt.Sprintf("%s_l1_%d", t.Name, n)
		m1 := &Mode{kind: mL1, args: args, self: t.Name, selfName: fresh, rec: &refs1}
		d1 := s.declSrc(t, m1, fresh)
		x1 := &expCtx{holes: map[int]*holeVal{}, seed: seed, self: inst, fn: fresh}
		if t.Kind != "func" {
			// values of the instance type are spelled with the fresh name (same structure, same seed: same values)
			x1.self = Named(fresh)
			s.named[fresh] = subst(t.Under, args)
		}
		e1 := s.expand(t.Drv, &Mode{kind: mGen, args: args, rec: &refs1}, x1)
		rL1 = s.eval(d1)
		c1 := rL1.compiled
		if rL1.err == "" {
			rL1 = s.eval("(" + e1 + ")")
			c1 = rL1.compiled
		}
		if c1 {
			s.mark(s.seen, refs1)
			s.record(refs1, false, -1)
		} else {
			s.mark(s.maybe, refs1)
			s.dirty = true
		}
		if norm(rGen) != norm(rL1) {
			f := vh.Failure{Key: key, What: "instance and textual specialisation (L1, same interpreter) behave differently", Input: in, Got: norm(rGen) + " " + rGen.err, Want: norm(rL1) + " " + rL1.err + "\n" + d1 + "\n" + e1}
			s.differs("L1", f, t, args, inst, op, x.holes, localDecl, rGen, "")
		}
		// type of a function instance = type of its L1 copy
		if t.Kind == "func" && rGen.err == "" && rL1.err == "" {
			ta := s.eval(mg.ty(inst))
			tb := s.eval(fresh)
			if ta.err == "" && tb.err == "" && len(ta.types) == 1 && len(tb.types) == 1 {
				if !ta.types[0].IdenticalTo(tb.types[0]) {
					s.fail(key, "type of the function instance differs from the type of its textual specialisation", in, ta.types[0].String(), tb.types[0].String())
				}
				s.record([]*Ty{inst}, false, -1)
			}
		}
	}

	// ---- L2: plain Go copy, gomacro and compiled
	if !t.NoGo {
		m2 := &Mode{kind: mL2, args: args, sp: s.sp}
		x2 := &expCtx{holes: x.holes, seed: seed, self: inst}
		if local != nil {
			s.sp.all = append(s.sp.all, localDecl)
			s.sp.fresh = append(s.sp.fresh, localDecl)
		}
		x2.fn = m2.ty(inst)
		e2 := s.expand(t.Drv, m2, x2)
		if scope == "localtype" {
			x3 := &expCtx{holes: map[int]*holeVal{}, seed: seed + 1, self: inst, fn: x2.fn}
			e2 = e2 + ` + "|" + ` + s.expand(t.Drv, m2, x3)
		}
		// the new plain-Go declarations: all types in one source (cycles), then the functions one by one
		// (dependencies were generated first)
		fresh := s.sp.take()
		newDecls := strings.Join(fresh, "\n")
		var rL2 evalRes
		var tys, fns []string
		for _, d := range fresh {
			if strings.HasPrefix(d, "type ") {
				tys = append(tys, d)
			} else {
				fns = append(fns, d)
			}
		}
		if len(tys) > 0 {
			rL2 = s.eval(strings.Join(tys, "\n"))
		}
		for _, d := range fns {
			if rL2.err == "" {
				rL2 = s.eval(d)
			}
		}
		if rL2.err == "" {
			rL2 = s.eval("(" + e2 + ")")
		}
		if norm(rGen) != norm(rL2) {
			f := vh.Failure{Key: key, What: "instance and monomorphic plain-Go copy (L2, evaluated by gomacro) behave differently", Input: in, Got: norm(rGen) + " " + rGen.err, Want: norm(rL2) + " " + rL2.err + "\n" + newDecls + "\n" + e2}
			s.differs("L2", f, t, args, inst, op, x.holes, localDecl, rGen, norm(rL2))
		}
		s.pkg.sites[n] = e2
		h.sites = append(h.sites, siteRec{sess: s.id, n: n, key: key, op: op, gen: norm(rL2), err: rL2.err})
	}
	h.rep.Count(cinst+"|"+scope+"|"+fmt.Sprint(seed), rGen.err == "" && len(rGen.out) > 0)
	if rGen.err != "" {
		h.rep.Dist("result:error")
	} else {
		h.rep.Dist("result:ok")
	}
	if (s.id*31+n)%97 == 5 {
		h.rep.Sample(map[string]interface{}{"instance": cinst, "scope": scope, "source": op.Src, "result": rGen.out})
	}

	// ---- identity probes for type instances
	if t.Kind != "func" && local == nil && rGen.err == "" {
		s.probe(r, t, inst, key, in)
	}
}

// mark adds to set every (generic, arguments) that compiling a source which spells the closed references refs
// instantiates: the references themselves, the instances among their type arguments (at any depth) and, transitively,
// the references of the declaration bodies under the substitution (gomacro compiles the body when it creates the
// instance).  Computed from the template catalogue only.
func (s *Session) mark(set map[string]bool, refs []*Ty) {
	for _, t := range refs {
		s.mark1(set, t)
	}
}
func (s *Session) mark1(set map[string]bool, t *Ty) {
	if t == nil {
		return
	}
	for _, e := range t.E {
		s.mark1(set, e)
	}
	for _, e := range t.Outs {
		s.mark1(set, e)
	}
	if t.K != "inst" {
		return
	}
	c := canon(t)
	if set[c] {
		return
	}
	set[c] = true
	tp := s.tmpl[t.Name]
	if tp == nil {
		return
	}
	var inner []*Ty
	s.declSrc(tp, &Mode{kind: mGen, args: t.E, rec: &inner}, "x")
	for _, r := range inner {
		s.mark1(set, r)
	}
}

// differs: the instance and a specialisation disagree.  Inside one interpreter the specialisation is always evaluated
// AFTER the instance, and the plain-Go copy is fed to gomacro in the harness' own way (all new types in one source): both
// can expose behaviour of gomacro on generics-free code (other properties) instead of a defect of the instantiation.  So
// the verdict is taken by decide() when the compiled-Go result of the plain copy is known, with one more observation
// made here: the plain copy evaluated FIRST, in the same kind of scope, in a fresh interpreter without any generic.
func (s *Session) differs(kind string, f vh.Failure, t *Template, args []*Ty, inst *Ty, op Op, holes map[int]*holeVal, localDecl string, rGen evalRes, plain string) {
	if t.NoGo {
		s.h.rep.Fail(f) // no plain-Go copy exists (CTI methods of basic types)
		return
	}
	res, src := s.freshPlain(t, args, inst, op, holes, localDecl)
	s.h.pending = append(s.h.pending, &pendingDiff{sess: s.id, n: op.N, kind: kind, f: f, inst: norm(rGen), instErr: rGen.err, plain: plain,
		fresh: norm(res), freshErr: res.err, freshSrc: src, instance: canon(inst), scope: op.Scope})
}

func (s *Session) freshPlain(t *Template, args []*Ty, inst *Ty, op Op, holes map[int]*holeVal, localDecl string) (evalRes, string) {
	sp := &Specs{sess: s, have: map[string]bool{}}
	m2 := &Mode{kind: mL2, args: args, sp: sp}
	x2 := &expCtx{holes: holes, seed: op.Seed, self: inst}
	x2.fn = m2.ty(inst)
	e2 := s.expand(t.Drv, m2, x2)
	scope := op.Scope
	if scope == "localtype" {
		x3 := &expCtx{holes: map[int]*holeVal{}, seed: op.Seed + 1, self: inst, fn: x2.fn}
		e2 = e2 + ` + "|" + ` + s.expand(t.Drv, m2, x3)
		scope = "func" // the local type is a package-level type of the plain copy
	}
	if scope == "infer" {
		scope = "top"
	}
	var tys, fns, all []string
	if localDecl != "" {
		tys = append(tys, localDecl)
	}
	for _, d := range sp.all {
		if strings.HasPrefix(d, "type ") {
			tys = append(tys, d)
		} else {
			fns = append(fns, d)
		}
	}
	ir := fast.New()
	ir.Comp.Globals.Stderr = io.Discard
	ir.Comp.Globals.Stdout = io.Discard
	var res evalRes
	setup := []string{`import "fmt"`}
	setup = append(setup, strings.Split(sessionDecls+"\n"+globalDecls, "\n")...)
	for _, u := range lateUnits {
		setup = append(setup, u.Src)
	}
	for _, d := range setup {
		if res = evalIn(ir, d); res.err != "" {
			return res, d
		}
	}
	all = append(all, setup...)
	// same feeding as in the session: the types in one source (cycles), then the functions one by one
	if len(tys) > 0 {
		all = append(all, strings.Join(tys, "\n"))
		res = evalIn(ir, strings.Join(tys, "\n"))
	}
	for _, d := range fns {
		if res.err == "" {
			all = append(all, d)
			res = evalIn(ir, d)
		}
	}
	decl, call := wrapScope(scope, op.N, e2, "")
	if res.err == "" && decl != "" {
		all = append(all, decl)
		res = evalIn(ir, decl)
	}
	if res.err == "" {
		all = append(all, call)
		res = evalIn(ir, call)
	}
	return res, strings.Join(all, "\n----\n")
}

var rePos = regexp.MustCompile(`[\w./-]+\.go:\d+(:\d+)?:? ?`)

func errClass(e string) string { return rePos.ReplaceAllString(e, "") }

// decide: verdict on the recorded differences between an instance and its specialisations, given the compiled-Go results
// (nil when the oracle module could not be built: every difference is then a failure)
func (h *harness) decide(want map[string]map[int]string, diverge *[]interface{}) map[[2]int]bool {
	handled := map[[2]int]bool{}
	for _, p := range h.pending {
		g, ok := want[fmt.Sprintf("s%d", p.sess)][p.n]
		if g == "panic" {
			g = "ERROR"
		}
		reason := ""
		switch {
		case !ok:
		case p.kind == "L2" && p.inst == g && p.plain != g:
			reason = "gomacro evaluates the plain-Go copy (generics-free source) differently from compiled Go; the instance agrees with compiled Go"
		case p.fresh == p.inst && p.fresh != g && errClass(p.freshErr) == errClass(p.instErr):
			reason = "the plain-Go copy evaluated first, in the same kind of scope, in a fresh interpreter without generics deviates from compiled Go exactly as the instance did: evaluation-order dependent behaviour of gomacro on generics-free code"
		}
		if reason == "" {
			h.rep.Fail(p.f)
			continue
		}
		handled[[2]int{p.sess, p.n}] = true
		h.rep.Dist("compiled-go:plain-copy-diverges(not-C35):instance-vs-" + p.kind)
		if len(*diverge) < 40 {
			*diverge = append(*diverge, map[string]interface{}{"instance": p.instance, "scope": p.scope, "difference": p.f.What, "why_not_C35": reason,
				"instance_result": p.inst + " " + p.instErr, "go": g, "gomacro_on_plain_copy_in_session": p.plain,
				"gomacro_on_plain_copy_fresh_interpreter": p.fresh + " " + p.freshErr, "plain_go_input(fresh interpreter, one Eval per ---- block)": p.freshSrc})
		}
	}
	return handled
}

// failFirst: the body of t names late units that are not declared yet.  The instantiation must fail to compile, like
// its textual specialisation; the failed attempt must leave the instance caches of t (and of every other generic still
// waiting for a late unit) as they were; then the missing units are declared and the caller goes on with the ordinary
// operation: the same (generic, arguments) must now compile and behave like its textual specialisation.
func (s *Session) failFirst(t *Template, args []*Ty, inst *Ty, scope string, n int, pend []string, local *Ty) {
	h := s.h
	sc := scope
	localDecl := ""
	if sc == "infer" || sc == "localtype" && local == nil {
		sc = "func"
	}
	if sc == "localtype" {
		// the attempt is made in a function body of its own: it gets its own local type (a type declared in another
		// function body is another type, also for the model), declared in that body like the one of the operation
		name := local.Name + "f"
		l2 := Named(name)
		s.named[name] = s.named[local.Name]
		localDecl = "type " + name + " struct { P int; Q string }"
		args = append([]*Ty(nil), args...)
		for i, a := range args {
			if a == local {
				args[i] = l2
			}
		}
		inst = Inst(t.Name, args...)
	}
	var refs []*Ty
	mg := &Mode{kind: mGen, args: args, rec: &refs, spell: true}
	var e string
	if t.Kind == "func" {
		e = "fmt.Sprint(" + mg.ty(inst) + " == nil)"
	} else {
		e = "fmt.Sprint(new(" + mg.ty(inst) + ") == nil)"
	}
	decl, call := wrapScope(sc, 100000+n, e, localDecl)
	cinst := canon(inst)
	key := fmt.Sprintf("C35:%s:%s:first-attempt-before-%s", cinst, sc, strings.Join(pend, "+"))
	in := map[string]interface{}{"session": s.id, "seed": h.a.Seed, "generic": t.Name, "args": canonList(args), "scope": sc,
		"src": decl + "\n" + call, "not_yet_declared": pend, "history": s.hist}
	h.rep.Dist("late:first-attempt")
	szBefore, _ := s.sizes()
	var res evalRes
	if decl != "" {
		res = s.eval(decl)
	}
	if decl == "" || res.compiled && res.err == "" {
		res = s.eval(call)
	}
	szAfter, _ := s.sizes()
	if res.compiled {
		s.fail(key, "an instantiation whose body names an undeclared identifier compiled", in, res.out+" "+res.err, "compile error")
		s.mark(s.seen, refs)
		s.record(refs, false, -1)
	} else {
		s.mark(s.maybe, refs)
		s.recordFail(refs)
		h.rep.Count(cinst+"|"+sc+"|first-attempt", true)
	}
	for i, u := range h.cat {
		if szAfter[i] < szBefore[i] {
			s.fail(key, "a failed instantiation removed cached instances of "+u.Name, in, szAfter[i], szBefore[i])
		}
		if len(s.pending(u)) > 0 && szAfter[i] != szBefore[i] {
			s.fail(key, "a failed instantiation left an entry in the instance cache of "+u.Name+" (its body cannot compile yet)", in, szAfter[i], szBefore[i])
		}
	}
	// the textual specialisation fails to compile as well (a package-level declaration: it cannot name a local type)
	if !t.NoL1 && localDecl == "" {
		var refs1 []*Ty
		fresh := fmt.Sprintf("%s_l1f_%d", t.Name, n)
		d1 := s.declSrc(t, &Mode{kind: mL1, args: args, self: t.Name, selfName: fresh, rec: &refs1}, fresh)
		r1 := s.eval(d1)
		if r1.compiled != res.compiled {
			s.fail(key, "instance and textual specialisation (L1) differ: one compiles, the other does not", in, fmt.Sprint("instance compiled=", res.compiled, " ", res.err), fmt.Sprint("L1 compiled=", r1.compiled, " ", r1.err, "\n", d1))
		}
		if r1.compiled {
			s.mark(s.seen, refs1)
			s.record(refs1, false, -1)
		} else {
			s.mark(s.maybe, refs1)
			s.recordFail(refs1)
		}
	}
	for _, u := range pend {
		s.declareUnit(u)
	}
}

// forcedOp: an operation on template t in the given scope with freshly generated arguments
func (s *Session) forcedOp(r *vh.Rng, t *Template, scope string) *Op {
	var args []*Ty
	for _, c := range t.Classes {
		args = append(args, s.genArg(c, r, 0))
	}
	return &Op{Tmpl: t.Name, Scope: scope, Seed: r.U64() >> 16, inst: Inst(t.Name, args...)}
}

func hasClass(t *Template, c string) bool {
	for _, x := range t.Classes {
		if x == c {
			return true
		}
	}
	return false
}

// identity probe of a type instance: a package-level variable, a function signature and a function body all spell the
// same instance; xreflect identity with the first probe of the same canonical instance, difference from every other.
func (s *Session) probe(r *vh.Rng, t *Template, inst *Ty, key string, in interface{}) {
	n := len(s.hist)
	cinst := canon(inst)
	var refs []*Ty
	ms := &Mode{kind: mGen, rec: &refs, spell: true}
	mp := &Mode{kind: mGen, rec: &refs}
	src := fmt.Sprintf("var id%d %s", n, ms.ty(inst))
	res := s.eval(src)
	if res.err == "" {
		res = s.eval(fmt.Sprintf("id%d", n))
	}
	if res.err != "" || len(res.types) != 1 {
		s.fail(key, "identity probe failed", in, res.err, nil)
		s.dirty = true
		return
	}
	typ := res.types[0]
	k := xr.MakeKey(typ)
	firstIdx := s.nops
	for _, pk := range s.probes {
		if pk.key == k {
			firstIdx = pk.idx // observed: the first probe that returned this very type
			break
		}
	}
	s.probes = append(s.probes, probeRec{s.nops, k})
	if _, ok := s.first[cinst]; ok {
		if s.keys[cinst] != k || !typ.IdenticalTo(s.typs[cinst]) {
			s.fail(key, "memo: the same generic with identical arguments yields a distinct type", in, typ.String(), s.typs[cinst].String())
		}
	} else {
		s.first[cinst] = firstIdx
		s.keys[cinst] = k
		s.typs[cinst] = typ
	}
	// the model observes the result of the LAST reference of a probe: the probed instance was recorded first (before the
	// instances among its arguments, which the interpreter resolves first anyway) - move it to the end
	if len(refs) > 1 && canon(refs[0]) == cinst {
		refs = append(append([]*Ty(nil), refs[1:]...), refs[0])
	}
	s.record(refs, true, firstIdx)
	for c, ok := range s.keys {
		if c == cinst || !strings.HasPrefix(c, t.Name+"#[") {
			continue
		}
		if t.Kind == "alias" {
			continue // aliases denote the (possibly shared) substituted type
		}
		if ok == k || typ.IdenticalTo(s.typs[c]) {
			s.fail(key, "memo: distinct argument lists collide in one instance", in, cinst, c)
		}
	}
	// (1) the underlying type of the instance is the type denoted by the textually substituted body
	refs = nil
	body := subst(t.Under, inst.E)
	res2 := s.eval(fmt.Sprintf("var ub%d %s", n, mp.ty(body)))
	if res2.err == "" {
		res2 = s.eval(fmt.Sprintf("ub%d", n))
	}
	if res2.err != "" || len(res2.types) != 1 {
		s.fail(key, "the textually substituted body does not compile", in, res2.err, mp.ty(body))
		s.dirty = true
		return
	}
	s.record(refs, false, -1)
	ub := res2.types[0]
	if t.Kind == "alias" {
		if !typ.IdenticalTo(ub) || xr.MakeKey(ub) != k {
			s.fail(key, "alias instance is not the textually substituted type", in, typ.String(), ub.String())
		}
	} else if u := typ.GoType().Underlying(); !types.Identical(u, ub.GoType()) || typ.Kind() != ub.Kind() {
		s.fail(key, "underlying type of the instance differs from the textually substituted body", in, fmt.Sprint(u), ub.String())
	}
	// the same instance spelled in a signature and in a body, assigned across: must compile, same key, same %T
	refs = nil
	f := fmt.Sprintf("sig%d", n)
	src = fmt.Sprintf("func %s(p *%s) (z %s) { var w %s; w = id%d; *p = w; z = *p; return }", f, mp.ty(inst), ms.ty(inst), mp.ty(inst), n)
	res3 := s.eval(src)
	if res3.err == "" {
		res3 = s.eval(f)
	}
	if res3.err != "" || len(res3.types) != 1 {
		s.fail(key, "memo: values of the same instance spelled in different scopes are not assignable", in, res3.err, src)
		s.dirty = true
		return
	}
	s.record(refs, false, -1)
	ft := res3.types[0]
	if ft.NumOut() != 1 || xr.MakeKey(ft.Out(0)) != k || xr.MakeKey(ft.In(0).Elem()) != k {
		s.fail(key, "memo: instance spelled in a signature has another identity", in, ft.String(), typ.String())
	}
	res4 := s.eval(fmt.Sprintf(`fmt.Sprintf("%%T|%%T", id%d, %s(&id%d))`, n, f, n))
	if res4.err != "" {
		s.fail(key, "memo: call through the signature failed", in, res4.err, nil)
	} else if p := strings.Split(res4.out, "|"); len(p) != 2 || p[0] != p[1] {
		s.fail(key, "memo: %T differs between two spellings of the same instance", in, res4.out, nil)
	}
	// permuted arguments with different reflect types must not be assignable
	if (t.Name == "Pair" || t.Name == "Fn") && canon(inst.E[0]) != canon(inst.E[1]) {
		other := Inst(t.Name, inst.E[1], inst.E[0])
		refs = nil
		src := fmt.Sprintf("func nasg%d(p *%s) { *p = id%d }", n, mp.ty(other), n)
		res5 := s.eval(src)
		var rt2 evalRes
		if res5.err != "" {
			// the failed declaration may still have instantiated `other`
			rt2 = s.eval(fmt.Sprintf("var oth%d %s", n, mp.ty(other)))
		} else {
			rt2 = s.eval(fmt.Sprintf("var oth%d %s", n, mp.ty(other)))
		}
		if rt2.err == "" {
			rt2 = s.eval(fmt.Sprintf("oth%d", n))
		}
		if rt2.err == "" && len(rt2.types) == 1 {
			s.record(refs, false, -1)
			ot := rt2.types[0]
			if xr.MakeKey(ot) == k || ot.IdenticalTo(typ) {
				s.fail(key, "memo: permuted argument lists collide in one instance", in, ot.String(), typ.String())
			}
			sameReflect := ot.ReflectType() == typ.ReflectType()
			if res5.err == "" && !sameReflect {
				s.fail(key, "memo: values of instances with permuted arguments are assignable", in, src, "compile error")
			}
			co := canon(other)
			s.mark(s.seen, []*Ty{other})
			if _, ok := s.keys[co]; !ok {
				s.keys[co] = xr.MakeKey(ot)
				s.typs[co] = ot
			}
		} else {
			s.mark(s.maybe, []*Ty{other})
			s.dirty = true
		}
	}
}

func (s *Session) finish() {
	s.pkg.decls = s.sp.all
	if s.dirty {
		s.h.rep.Dist("session:not-in-correspondence(error-path)")
		return
	}
	s.h.rep.Dist("session:in-correspondence")
	if s.late {
		var av []string
		for _, b := range s.avail0 {
			av = append(av, vh.CoqBool(b))
		}
		s.h.casesE = append(s.h.casesE, fmt.Sprintf("mkCaseE %d\n  %s\n  %s\n  %s\n  %s", s.h.caseIdx, s.coqDecls(), vh.CoqList(av, "bool"), vh.CoqList(s.cops, "opE"), vh.CoqList(s.cobs, "obs")))
	} else {
		s.h.cw.Add(fmt.Sprintf("mkCase %d\n  %s\n  %s\n  %s", s.h.caseIdx, s.coqDecls(), vh.CoqList(s.cops, "op"), vh.CoqList(s.cobs, "obs")))
	}
	s.h.rep.CaseInput(s.h.caseIdx, map[string]interface{}{"session": s.id, "history": s.hist})
	s.h.caseIdx++
}

// C35-1 (GenericKey ignored the type of a constant argument): exact recorded history
func (h *harness) replayC351() bool {
	ir := fast.New()
	ir.Comp.Globals.Stderr = io.Discard
	ir.Comp.Globals.Stdout = io.Discard
	var out [2]string
	p := vh.Catch(func() {
		ir.Eval(`type MyInt int`)
		ir.Eval(`func (m MyInt) Name() string { return "MyInt" }`)
		ir.Eval(`type OtherInt int`)
		ir.Eval(`func (m OtherInt) Name() string { return "OtherInt" }`)
		ir.Eval(`func Z#[N]() string { return N.Name() }`)
		v, _ := ir.Eval1(`Z#[MyInt(3)]()`)
		out[0] = v.String()
		v, _ = ir.Eval1(`Z#[OtherInt(3)]()`)
		out[1] = v.String()
	})
	ok := p == nil && out[0] == "MyInt" && out[1] == "OtherInt"
	if !ok {
		h.rep.Fail(vh.Failure{Key: "C35-1:constant-argument-type-not-in-GenericKey", What: "Z#[MyInt(3)]() then Z#[OtherInt(3)](): the second call returns the cached instance of the first (GenericKey ignores the type of a constant argument)",
			Input: "corpus/C35/01_const_type_in_key.json", Got: fmt.Sprint(out, p), Want: "[MyInt OtherInt]"})
	}
	return ok
}

// C35-2 (xreflect.MakeKey of a named type with a Forward reflect type is the key of its underlying type and changes
// later): exact recorded history
func (h *harness) replayC352() bool {
	ir := fast.New()
	ir.Comp.Globals.Stderr = io.Discard
	ir.Comp.Globals.Stdout = io.Discard
	n := -1
	p := vh.Catch(func() {
		ir.Eval(`type Arr#[T,N] [N]T`)
		ir.Eval(`type NodeA#[T] struct { V T; Next *NodeB#[T] }`)
		ir.Eval(`type NodeB#[T] struct { W []T; Back *NodeA#[T] }`)
		ir.Eval(`type List#[T] struct { First T; Rest *List#[T] }`)
		ir.Eval(`var y List#[Arr#[NodeA#[int16], 0]]`)
		ir.Eval(`func f() int { z := Arr#[NodeA#[int16], 0]{}; _ = z; return 1 }`)
		ir.Eval(`var y2 List#[Arr#[NodeA#[int16], 0]]`)
		n = len(ir.Comp.Binds["List"].Value.(*fast.GenericType).Instances)
		ir.Eval(`y = y2`)
	})
	ok := p == nil && n == 1
	if !ok {
		h.rep.Fail(vh.Failure{Key: "C35-2:MakeKey-unstable-for-forward-named-type", What: "List#[Arr#[NodeA#[int16], 0]] instantiated before and after the reflect type of its argument became concrete: two instances, `y = y2` does not compile",
			Input: "corpus/C35/02_makekey_forward_named.json", Got: fmt.Sprintf("len(List.Instances)=%d, y = y2: %v", n, p), Want: "1 instance, assignment compiles"})
	}
	return ok
}

func main() {
	a := vh.ParseArgs()
	etoken.GENERICS = etoken.GENERICS_V2_CTI
	rng := vh.NewRng(a.Seed)
	rep := vh.NewReport(a, "sessions = fresh interpreter + the whole generic catalogue (21 generic types incl. recursive, mutually recursive, alias, constant-parameter and nested ones; 51 generic functions over slices/maps/closures/channels/lists/trees, package-level state and late-declared names) declared in random order with random parameter names, "+
		"then a random history of operations: generic x random arguments per parameter class (ints of all widths, floats, string, complex, named types, aliases byte/rune/AliasInt as alternative spellings, slices, maps, arrays, pointers, funcs, chans, struct literals, other instances to depth 2, integer constants spelled as literal/expression/named constant) x scope "+
		"(top, func, closure1..3, block, goroutine, method, localtype, infer, nest = a function body (with or without parameters) and 0..5 nested constructs drawn from {block, block with local, for, for with body local, range, if with init, switch with init, closure, closure with local, closure with parameter}) x random input values; 30% of the operations repeat or permute an earlier (generic, arguments); "+
		"5 generic functions have bodies that read/write package-level variables and call package-level functions; every session names one of them at top level and below 0..5 nest layers (depth sweep; the measured number of run-time environments between the naming site and the declaration is in distribution env-depth-below-declaration(upn):N, printed by OptDebugGenerics); "+
		"every second session is LATE: the late units (plain func/type/var lateShow, LateRec, lateVar and the generics LateBox, LateLen) are not declared at the start; the first operation on a consumer (7 generics whose body names a unit, one of them through a nested instance, one after a completed nested instance) first attempts the instantiation (in the scope of the operation): it must fail to compile like its textual specialisation and leave the instance caches of every generic still waiting for a unit unchanged; then the unit is declared and the operation proceeds as usual (must compile and agree with L1/L2/compiled Go; memoisation as usual); late sessions are evaluated by C35.FailModel (cases_fail_*.v), the others by C35.Model; "+
		"each operation is evaluated as generic instance, as L1 textual specialisation (same interpreter), as L2 plain Go copy (gomacro and compiled Go); type instances get identity probes; "+
		"a difference between the instance and a specialisation is a failure unless the generics-free plain-Go copy itself is mis-evaluated by gomacro with respect to compiled Go - either the instance agrees with compiled Go and the copy evaluated in the session does not, or the copy evaluated first in a fresh interpreter (same kind of scope) deviates from compiled Go exactly as the instance did - such cases are listed with their plain-Go input in extra.plain_go_divergences_of_gomacro; "+
		"memo counts: an argument list is new when its instance is outside the closure (type arguments at any depth, declaration bodies) of every reference evaluated before; "+
		"corpus/C35 (exact inputs of findings) first; an evaluation is non-trivial when the instance compiled and its driver returned a non-empty string; distinct by (canonical instance, scope, value seed)")
	h := &harness{a: a, rep: rep, cat: catalogue()}
	h.wd = vh.NewWatchdog(rep, 180*time.Second)
	h.wd.Beat("start")
	h.cw = vh.NewCases(a, "From Coq Require Import List NArith ZArith.\nFrom Verif Require Import C35.Model.\nImport ListNotations.\nOpen Scope Z_scope.", "case", "mismatches", 6)

	// corpus first
	h.fixed = h.replayC351()
	rep.Extra["C35-1_fixed_on_this_tree"] = h.fixed
	h.fixed2 = h.replayC352()
	rep.Extra["C35-2_fixed_on_this_tree"] = h.fixed2
	if h.fixed {
		h.cat = append(h.cat, funcT("CName", []string{"constnamed"}, `func %D%() string { return $0.Name() + fmt.Sprint(int($0)) }`, `fmt.Sprint(%F%())`))
	}
	var corpusOps [][]Op
	if dir := os.Getenv("VERIF_DIR"); dir != "" {
		files, _ := filepath.Glob(filepath.Join(dir, "corpus", "C35", "*.json"))
		sort.Strings(files)
		for _, f := range files {
			var c struct {
				Ops []struct {
					Generic string   `json:"generic"`
					Args    []string `json:"args"`
					Scope   string   `json:"scope"`
					Seed    uint64   `json:"seed"`
				} `json:"ops"`
			}
			if b, err := os.ReadFile(f); err == nil && json.Unmarshal(b, &c) == nil && len(c.Ops) > 0 {
				var ops []Op
				for _, o := range c.Ops {
					var args []*Ty
					for _, a := range o.Args {
						args = append(args, parseArg(a))
					}
					ops = append(ops, Op{Tmpl: o.Generic, Scope: o.Scope, Seed: o.Seed, inst: Inst(o.Generic, args...)})
				}
				corpusOps = append(corpusOps, ops)
			}
		}
	}
	nSess, nOps := 14, 14
	if a.Thorough() {
		nSess, nOps = 160, 24 // + 7 depth-sweep and (late sessions) 3 late-consumer operations per session
	}
	if a.N > 0 {
		nSess = a.N
	}
	id := 0
	for _, ops := range corpusOps {
		ok := true
		for _, o := range ops {
			if t := findT(h.cat, o.Tmpl); t == nil {
				ok = false
			}
		}
		if !ok {
			rep.Dist("corpus:skipped(needs C35-1 fix)")
			continue
		}
		s := h.newSession(id, rng.Fork(), false)
		r := rng.Fork()
		for i := range ops {
			s.runOp(r, &ops[i])
		}
		s.finish()
		rep.Dist("corpus:replayed")
		id++
	}
	var globals, consumers []*Template
	for _, t := range h.cat {
		if t.Global {
			globals = append(globals, t)
		}
		if len(t.Needs) > 0 {
			consumers = append(consumers, t)
		}
	}
	for k := 0; k < nSess; k++ {
		// every second session is "late": the late units are declared only after a consumer has failed for want of them
		late := k%2 == 1
		s := h.newSession(id, rng.Fork(), late)
		r := rng.Fork()
		if late {
			rep.Dist("session:late-declarations")
		}
		// directed operations: (a) depth sweep - a generic whose body uses package-level state, named below 0..5 nested
		// constructs of a function body (and at top level); (b) late sessions: three consumers of late units
		sweep := []int{-1, 0, 1, 2, 3, 4, 5}
		for i := len(sweep) - 1; i > 0; i-- {
			j := r.Intn(i + 1)
			sweep[i], sweep[j] = sweep[j], sweep[i]
		}
		lateAt := map[int]bool{}
		if late {
			for len(lateAt) < 3 {
				lateAt[r.Intn(nOps)] = true
			}
		}
		for i := 0; i < nOps; i++ {
			if i%2 == 0 && len(sweep) > 0 {
				d := sweep[0]
				sweep = sweep[1:]
				sc := "top"
				if d >= 0 {
					sc = genLayers(r, d)
				}
				s.runOp(r, s.forcedOp(r, globals[r.Intn(len(globals))], sc))
			}
			if lateAt[i] {
				sc := scopes[r.Intn(len(scopes))]
				if sc == "nest" {
					sc = genLayers(r, r.Intn(6))
				}
				if sc == "localtype" || sc == "infer" {
					sc = "func"
				}
				s.runOp(r, s.forcedOp(r, consumers[r.Intn(len(consumers))], sc))
			}
			s.runOp(r, nil)
		}
		s.finish()
		id++
	}
	h.cw.Close()
	// cases of the late sessions: evaluated by C35.FailModel
	for i := 0; i*6 < len(h.casesE); i++ {
		hi := (i + 1) * 6
		if hi > len(h.casesE) {
			hi = len(h.casesE)
		}
		txt := "From Coq Require Import List NArith ZArith.\nFrom Verif Require Import C35.Model C35.FailModel.\nImport ListNotations.\nOpen Scope Z_scope.\n" +
			"Definition cases : list caseE := [\n " + strings.Join(h.casesE[i*6:hi], ";\n ") + "\n].\n" +
			"Definition verif_mismatches : list Z := Eval vm_compute in mismatchesE cases.\nPrint verif_mismatches.\n"
		if err := os.WriteFile(a.Path(fmt.Sprintf("cases_fail_%03d.v", i)), []byte(txt), 0o644); err != nil {
			panic(err)
		}
	}
	// (2) compiled Go.  The watchdog guards the implementation, not the Go compiler: the thorough oracle (160 sessions)
	// took more than its 2 minutes to build on the loaded machine and the run was cut short as a "hang" - keep it alive
	stopBeat := make(chan struct{})
	go func() {
		for {
			h.wd.Beat("oracle build (go build + run of the plain-Go copies)")
			select {
			case <-stopBeat:
				return
			case <-time.After(15 * time.Second):
			}
		}
	}()
	var diverge []interface{}
	want, err := buildOracle(a.Path("oracle"), h.oracle)
	close(stopBeat)
	if err != nil {
		rep.Fail(vh.Failure{Key: "C35:oracle-build", What: "the plain-Go copies do not compile with go build", Got: err.Error()})
		h.decide(nil, &diverge)
	} else {
		handled := h.decide(want, &diverge)
		for _, sr := range h.sites {
			if handled[[2]int{sr.sess, sr.n}] {
				continue
			}
			w, ok := want[fmt.Sprintf("s%d", sr.sess)][sr.n]
			if !ok {
				rep.Fail(vh.Failure{Key: sr.key, What: "no compiled-Go output for the site", Input: sr.op})
				continue
			}
			if w == "panic" {
				w = "ERROR"
			}
			if w != sr.gen {
				// the plain-Go copy itself behaves differently in gomacro and in compiled Go: a deviation of gomacro on
				// non-generic code (other properties); the instance agrees with its copy inside gomacro (checked above)
				rep.Dist("compiled-go:plain-copy-diverges(not-C35)")
				if len(diverge) < 12 {
					diverge = append(diverge, map[string]interface{}{"instance": sr.op.Tmpl + "#[" + sr.op.Args + "]", "scope": sr.op.Scope, "gomacro": sr.gen + " " + sr.err, "go": w, "src": sr.op.Src})
				}
				continue
			}
			rep.Dist("compiled-go:compared")
		}
	}
	rep.Extra["plain_go_divergences_of_gomacro"] = diverge
	rep.Extra["sessions"] = id
	rep.Extra["catalogue"] = len(h.cat)
	rep.Write()
}

func findT(cat []*Template, n string) *Template {
	for _, t := range cat {
		if t.Name == n {
			return t
		}
	}
	return nil
}

// corpus argument syntax: the template type language, plus const(type:value)
func parseArg(a string) *Ty {
	if strings.HasPrefix(a, "const(") {
		body := strings.TrimSuffix(strings.TrimPrefix(a, "const("), ")")
		i := strings.IndexByte(body, ':')
		return Const(body[:i], body[i+1:])
	}
	return parseTy(a)
}

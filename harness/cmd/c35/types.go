// c35 type terms: the small type-expression language shared by the template catalogue, the three renderings
// (gomacro generic syntax, "L1" textual specialisation kept in gomacro syntax, "L2" fully monomorphised plain Go),
// the random value generator and the Coq emitter.
package main

import (
	"crypto/sha256"
	"encoding/hex"
	"fmt"
	"strconv"
	"strings"

	"verifh/vh"
)

// Ty is a type expression.  K:
//
//	basic  Name=int|int8|...|string|bool          named  Name=session-declared named type (S1, MyInt, ...)
//	param  N=index                                 const  Name=type of the constant (int, float64, string, MyInt...), Val=Go literal
//	ptr slice chan: E[0]      array: E[0]=length (const or param), E[1]=elem      map: E[0]=key, E[1]=value
//	func: E=ins, Outs=outs    struct: F=field names, E=field types               inst: Name=generic, E=arguments
type Ty struct {
	K     string
	Name  string
	N     int
	Val   string
	E     []*Ty
	Outs  []*Ty
	F     []string
	Spell string // alternative spelling used only at instantiation sites in gomacro source (alias name, constant expression)
}

func Basic(n string) *Ty             { return &Ty{K: "basic", Name: n} }
func Named(n string) *Ty             { return &Ty{K: "named", Name: n} }
func Param(i int) *Ty                { return &Ty{K: "param", N: i} }
func Const(typ, val string) *Ty      { return &Ty{K: "const", Name: typ, Val: val} }
func Ptr(e *Ty) *Ty                  { return &Ty{K: "ptr", E: []*Ty{e}} }
func Slice(e *Ty) *Ty                { return &Ty{K: "slice", E: []*Ty{e}} }
func Chan(e *Ty) *Ty                 { return &Ty{K: "chan", E: []*Ty{e}} }
func Array(n, e *Ty) *Ty             { return &Ty{K: "array", E: []*Ty{n, e}} }
func Map(k, v *Ty) *Ty               { return &Ty{K: "map", E: []*Ty{k, v}} }
func Func(ins, outs []*Ty) *Ty       { return &Ty{K: "func", E: ins, Outs: outs} }
func Struct(f []string, e []*Ty) *Ty { return &Ty{K: "struct", F: f, E: e} }
func Inst(n string, a ...*Ty) *Ty    { return &Ty{K: "inst", Name: n, E: a} }

// subst replaces parameters by (closed) arguments.
func subst(t *Ty, args []*Ty) *Ty {
	if t == nil || args == nil {
		return t
	}
	if t.K == "param" {
		return args[t.N]
	}
	if len(t.E) == 0 && len(t.Outs) == 0 {
		return t
	}
	c := *t
	c.E = make([]*Ty, len(t.E))
	for i, e := range t.E {
		c.E[i] = subst(e, args)
	}
	c.Outs = make([]*Ty, len(t.Outs))
	for i, e := range t.Outs {
		c.Outs[i] = subst(e, args)
	}
	return &c
}

// canon is the canonical text of a closed type (one text per type identity; spellings are ignored).
func canon(t *Ty) string {
	switch t.K {
	case "basic", "named", "plain":
		return t.Name
	case "param":
		return "$" + strconv.Itoa(t.N)
	case "const":
		return "const(" + t.Name + ":" + t.Val + ")"
	case "ptr":
		return "*" + canon(t.E[0])
	case "slice":
		return "[]" + canon(t.E[0])
	case "chan":
		return "chan " + canon(t.E[0])
	case "array":
		return "[" + canon(t.E[0]) + "]" + canon(t.E[1])
	case "map":
		return "map[" + canon(t.E[0]) + "]" + canon(t.E[1])
	case "func":
		return "func(" + canonList(t.E) + ")(" + canonList(t.Outs) + ")"
	case "struct":
		var p []string
		for i, e := range t.E {
			p = append(p, t.F[i]+" "+canon(e))
		}
		return "struct{" + strings.Join(p, ";") + "}"
	case "inst":
		return t.Name + "#[" + canonList(t.E) + "]"
	}
	panic("canon: " + t.K)
}
func canonList(l []*Ty) string {
	var p []string
	for _, e := range l {
		p = append(p, canon(e))
	}
	return strings.Join(p, ",")
}

func mangle(name string, args []*Ty) string {
	h := sha256.Sum256([]byte(name + "#[" + canonList(args) + "]"))
	return name + "_x" + hex.EncodeToString(h[:5])
}

// ---------------------------------------------------------------- rendering
const (
	mGen = iota // gomacro generic syntax (declarations: parameters by name; sites: closed)
	mL1         // textual specialisation, gomacro syntax (inner generic references stay generic)
	mL2         // plain Go: every generic reference replaced by the mangled name of its monomorphic copy
)

type Mode struct {
	kind     int
	pnames   []string // mGen declaration: parameter names
	args     []*Ty    // closed arguments replacing parameters (nil: parameters rendered by name)
	self     string   // L1: name of the generic being specialised ...
	selfName string   // ... and the fresh name standing for Self#[params]
	sp       *Specs   // L2 registry of monomorphic copies
	rec      *[]*Ty   // every generic reference rendered (after substitution of args) is appended here
	spell    bool     // use Ty.Spell where present
}

func (m *Mode) ty(t *Ty) string {
	switch t.K {
	case "basic":
		if m.spell && m.kind != mL2 && t.Spell != "" {
			return t.Spell
		}
		return t.Name
	case "named":
		if m.rec != nil && findUnit(t.Name) != nil {
			*m.rec = append(*m.rec, &Ty{K: "plain", Name: t.Name}) // reference to a plain late unit (model: FailModel)
		}
		return t.Name
	case "param":
		if m.args != nil {
			return m.ty(m.args[t.N])
		}
		return m.pnames[t.N]
	case "const":
		if m.spell && m.kind != mL2 && t.Spell != "" {
			return t.Spell
		}
		return t.Name + "(" + t.Val + ")"
	case "ptr":
		return "*" + m.ty(t.E[0])
	case "slice":
		return "[]" + m.ty(t.E[0])
	case "chan":
		return "chan " + m.ty(t.E[0])
	case "array":
		return "[" + m.ty(t.E[0]) + "]" + m.ty(t.E[1])
	case "map":
		return "map[" + m.ty(t.E[0]) + "]" + m.ty(t.E[1])
	case "func":
		s := "func(" + m.tyList(t.E) + ")"
		switch len(t.Outs) {
		case 0:
		case 1:
			s += " " + m.ty(t.Outs[0])
		default:
			s += " (" + m.tyList(t.Outs) + ")"
		}
		return s
	case "struct":
		var p []string
		for i, e := range t.E {
			p = append(p, t.F[i]+" "+m.ty(e))
		}
		return "struct { " + strings.Join(p, "; ") + " }"
	case "inst":
		if m.rec != nil {
			*m.rec = append(*m.rec, subst(t, m.args))
		}
		switch m.kind {
		case mL1:
			if t.Name == m.self && isParamList(t.E) {
				return m.selfName
			}
			fallthrough
		case mGen:
			return t.Name + "#[" + m.tyList(t.E) + "]"
		default:
			closed := subst(t, m.args)
			return m.sp.need(closed.Name, closed.E)
		}
	}
	panic("render: " + t.K)
}
func (m *Mode) tyList(l []*Ty) string {
	var p []string
	for _, e := range l {
		p = append(p, m.ty(e))
	}
	return strings.Join(p, ", ")
}
func isParamList(l []*Ty) bool {
	for i, e := range l {
		if e.K != "param" || e.N != i {
			return false
		}
	}
	return true
}

// ---------------------------------------------------------------- parser of the template type language
//
//	$0..$9 | ident | []T | [N]T | [$i]T | *T | map[K]V | chan T | func(T, U) R | func(T) (R, S) | struct{ A T; B U } | @Name<T, U>
type tparser struct {
	s string
	i int
}

func parseTy(s string) *Ty {
	p := &tparser{s: s}
	t := p.ty()
	p.ws()
	if p.i != len(p.s) {
		panic("parseTy: trailing text in " + strconv.Quote(s))
	}
	return t
}
func (p *tparser) ws() {
	for p.i < len(p.s) && (p.s[p.i] == ' ' || p.s[p.i] == '\t' || p.s[p.i] == '\n') {
		p.i++
	}
}
func (p *tparser) has(x string) bool {
	p.ws()
	if strings.HasPrefix(p.s[p.i:], x) {
		p.i += len(x)
		return true
	}
	return false
}
func (p *tparser) must(x string) {
	if !p.has(x) {
		panic(fmt.Sprintf("parseTy: expected %q at %d in %q", x, p.i, p.s))
	}
}
func isIdent(c byte) bool {
	return c == '_' || c >= 'a' && c <= 'z' || c >= 'A' && c <= 'Z' || c >= '0' && c <= '9'
}
func (p *tparser) ident() string {
	p.ws()
	j := p.i
	for j < len(p.s) && isIdent(p.s[j]) {
		j++
	}
	id := p.s[p.i:j]
	p.i = j
	return id
}
func (p *tparser) list(closer string) []*Ty {
	var l []*Ty
	if p.has(closer) {
		return l
	}
	for {
		l = append(l, p.ty())
		if p.has(closer) {
			return l
		}
		p.must(",")
	}
}

var basicNames = map[string]bool{"bool": true, "int": true, "int8": true, "int16": true, "int32": true, "int64": true,
	"uint": true, "uint8": true, "uint16": true, "uint32": true, "uint64": true, "uintptr": true, "float32": true, "float64": true,
	"complex64": true, "complex128": true, "string": true, "error": true}

func (p *tparser) ty() *Ty {
	p.ws()
	switch {
	case p.has("$"):
		d := int(p.s[p.i] - '0')
		p.i++
		return Param(d)
	case p.has("@"):
		name := p.ident()
		p.must("<")
		return Inst(name, p.list(">")...)
	case p.has("[]"):
		return Slice(p.ty())
	case p.has("["):
		var n *Ty
		if p.has("$") {
			n = Param(int(p.s[p.i] - '0'))
			p.i++
		} else {
			n = Const("int", p.ident())
		}
		p.must("]")
		return Array(n, p.ty())
	case p.has("*"):
		return Ptr(p.ty())
	case p.has("map["):
		k := p.ty()
		p.must("]")
		return Map(k, p.ty())
	case p.has("chan "):
		return Chan(p.ty())
	case p.has("func("):
		ins := p.list(")")
		var outs []*Ty
		p.ws()
		if p.has("(") {
			outs = p.list(")")
		} else if p.i < len(p.s) && !strings.ContainsRune(",)>;}]", rune(p.s[p.i])) {
			outs = []*Ty{p.ty()}
		}
		return Func(ins, outs)
	case p.has("struct"):
		p.must("{")
		var names []string
		var tys []*Ty
		for !p.has("}") {
			names = append(names, p.ident())
			tys = append(tys, p.ty())
			p.has(";")
		}
		return Struct(names, tys)
	}
	id := p.ident()
	if id == "" {
		panic(fmt.Sprintf("parseTy: unexpected %q at %d in %q", p.s[p.i:], p.i, p.s))
	}
	if basicNames[id] {
		return Basic(id)
	}
	return Named(id)
}

// ---------------------------------------------------------------- values
// Val is a random value of a closed type, rendered as a Go expression in each mode.
type Val struct {
	T    *Ty
	Lit  string // basic / const-like literal (without conversion)
	Nil  bool
	E    []*Val // slice/array elements, struct fields, map values
	Keys []*Val // map keys
}

var words = []string{"", "a", "go", "xyz", "Hello", "z z", "42", "éa"}
var floats = []string{"0", "1.5", "-2.25", "1e10", "0.1", "3", "-7.5", "1e-3"}

func intRange(name string) (lo, hi int64) {
	switch name {
	case "int8":
		return -128, 127
	case "int16":
		return -32768, 32767
	case "int32":
		return -1 << 31, 1<<31 - 1
	case "uint8":
		return 0, 255
	case "uint16":
		return 0, 65535
	case "uint32":
		return 0, 1<<32 - 1
	case "uint", "uint64", "uintptr":
		return 0, 1<<62 - 1
	}
	return -1 << 62, 1<<62 - 1
}

func genBasicLit(name string, r *vh.Rng) string {
	switch name {
	case "bool":
		return vh.CoqBool(r.Bool())
	case "string":
		return strconv.Quote(words[r.Intn(len(words))])
	case "float32", "float64":
		return floats[r.Intn(len(floats))]
	case "complex64", "complex128":
		return "(" + floats[r.Intn(len(floats))] + "+2i)"
	case "error":
		return "nil"
	}
	lo, hi := intRange(name)
	switch r.Intn(6) {
	case 0:
		return strconv.FormatInt(hi-int64(r.Intn(3)), 10)
	case 1:
		return strconv.FormatInt(lo+int64(r.Intn(3)), 10)
	}
	v := int64(r.Intn(41)) - 20
	if v < lo {
		v = -v
	}
	return strconv.FormatInt(v, 10)
}

func (s *Session) underlying(t *Ty) *Ty {
	switch t.K {
	case "named":
		return s.named[t.Name]
	case "inst":
		tp := s.tmpl[t.Name]
		return subst(tp.Under, t.E)
	}
	return t
}

func (s *Session) genVal(t *Ty, r *vh.Rng, depth int) *Val {
	v := &Val{T: t}
	u := t
	for u.K == "named" || u.K == "inst" {
		u = s.underlying(u)
		if u == nil {
			panic("genVal: no underlying type for " + canon(t))
		}
	}
	switch u.K {
	case "basic":
		v.Lit = genBasicLit(u.Name, r)
	case "ptr", "chan", "func":
		v.Nil = true
	case "slice":
		if depth > 3 {
			v.Nil = true
			return v
		}
		n := r.Intn(5)
		for i := 0; i < n; i++ {
			v.E = append(v.E, s.genVal(u.E[0], r, depth+1))
		}
	case "array":
		n, _ := strconv.Atoi(u.E[0].Val)
		for i := 0; i < n; i++ {
			v.E = append(v.E, s.genVal(u.E[1], r, depth+1))
		}
	case "map":
		if depth > 3 {
			v.Nil = true
			return v
		}
		n := r.Intn(4)
		seen := map[string]bool{}
		for i := 0; i < n; i++ {
			k := s.genVal(u.E[0], r, depth+1)
			txt := (&Mode{kind: mGen}).val(k)
			if seen[txt] {
				continue
			}
			seen[txt] = true
			v.Keys = append(v.Keys, k)
			v.E = append(v.E, s.genVal(u.E[1], r, depth+1))
		}
	case "struct":
		for _, f := range u.E {
			v.E = append(v.E, s.genVal(f, r, depth+1))
		}
		v.Keys = nil
	default:
		panic("genVal: " + u.K)
	}
	v.T = t
	return v
}

// structure the value by the underlying type but spell composite literals with the declared type
func (m *Mode) val(v *Val) string { return m.valAs(v, true) }

func (m *Mode) valAs(v *Val, withType bool) string {
	t := v.T
	tt := m.ty(t)
	if v.Nil {
		return "*new(" + tt + ")"
	}
	if v.Lit != "" {
		if v.Lit == "nil" {
			return "*new(" + tt + ")"
		}
		return tt + "(" + v.Lit + ")"
	}
	var p []string
	if v.Keys != nil {
		for i, k := range v.Keys {
			p = append(p, m.val(k)+": "+m.val(v.E[i]))
		}
		return tt + "{" + strings.Join(p, ", ") + "}"
	}
	for _, e := range v.E {
		p = append(p, m.val(e))
	}
	return tt + "{" + strings.Join(p, ", ") + "}"
}

// ---------------------------------------------------------------- Coq emission
type coqEnv struct {
	basics map[string]int  // basic and named type names -> id
	gens   map[string]int  // generic name -> id (catalogue order), then the plain late units
	lits   map[string]int  // non-integer constant literals -> id
	plain  map[string]bool // names of the plain late units
	late   bool            // "late" session (FailModel): a plain unit is referenced as TyInst id []; otherwise it is an opaque name
}

func newCoqEnv() *coqEnv {
	return &coqEnv{basics: map[string]int{}, gens: map[string]int{}, lits: map[string]int{}, plain: map[string]bool{}}
}
func (e *coqEnv) id(m map[string]int, k string) int {
	if v, ok := m[k]; ok {
		return v
	}
	m[k] = len(m)
	return m[k]
}

// pn: names of the parameters of the enclosing declaration (nil for closed terms)
func (e *coqEnv) ty(t *Ty, pn []string) string {
	switch t.K {
	case "plain":
		return fmt.Sprintf("(TyInst %d [])", e.id(e.gens, t.Name))
	case "basic", "named":
		if e.late && e.plain[t.Name] {
			return fmt.Sprintf("(TyInst %d [])", e.id(e.gens, t.Name))
		}
		return fmt.Sprintf("(TyName %d%%N)", e.id(e.basics, t.Name))
	case "param":
		return fmt.Sprintf("(TyName %d%%N)", e.id(e.basics, pn[t.N]))
	case "const":
		var z int64
		if i, err := strconv.ParseInt(t.Val, 10, 64); err == nil && t.Name != "string" {
			z = i
		} else {
			z = int64(1000000 + e.id(e.lits, t.Name+":"+t.Val))
		}
		return fmt.Sprintf("(TyConst %d%%N %s)", e.id(e.basics, t.Name), vh.CoqZ(z))
	case "ptr":
		return "(TyPtr " + e.ty(t.E[0], pn) + ")"
	case "slice":
		return "(TySlice " + e.ty(t.E[0], pn) + ")"
	case "chan":
		return "(TyChan " + e.ty(t.E[0], pn) + ")"
	case "array":
		return "(TyArray " + e.ty(t.E[0], pn) + " " + e.ty(t.E[1], pn) + ")"
	case "map":
		return "(TyMap " + e.ty(t.E[0], pn) + " " + e.ty(t.E[1], pn) + ")"
	case "func":
		return "(TyFunc " + e.tyList(t.E, pn) + " " + e.tyList(t.Outs, pn) + ")"
	case "struct":
		var p []string
		for i, x := range t.E {
			p = append(p, fmt.Sprintf("(%d%%N, %s)", e.id(e.lits, "field:"+t.F[i]), e.ty(x, pn)))
		}
		return "(TyStruct " + vh.CoqList(p, "(N * ty)") + ")"
	case "inst":
		return fmt.Sprintf("(TyInst %d %s)", e.id(e.gens, t.Name), e.tyList(t.E, pn))
	}
	panic("coq: " + t.K)
}
func (e *coqEnv) tyList(l []*Ty, pn []string) string {
	var p []string
	for _, x := range l {
		if x.K == "plain" && !e.late {
			continue // declared from the start: resolving an ordinary identifier does not touch the caches
		}
		p = append(p, e.ty(x, pn))
	}
	return vh.CoqList(p, "ty")
}

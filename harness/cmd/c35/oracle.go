// c35 compiled-Go oracle: one module (go 1.18), one package per session holding the named types of the session, the
// monomorphic plain-Go copies (L2) and one closure per operation; a single `go build`, a single run.
package main

import (
	"bytes"
	"fmt"
	"os"
	"os/exec"
	"path/filepath"
	"sort"
	"strings"
)

type oraclePkg struct {
	name  string
	decls []string
	sites map[int]string
}

const oracleSessionDecls = `type S1 struct { A int; B string }
type S2 struct { X float64; Y []int }
type MyInt int
type OtherInt int
type Str string
type AliasInt = int
func (m MyInt) Name() string { return "MyInt" }
func (m OtherInt) Name() string { return "OtherInt" }
const K0, K1, K2, K3, K4 = 0, 1, 2, 3, 4
`

func buildOracle(dir string, pkgs []*oraclePkg) (map[string]map[int]string, error) {
	os.RemoveAll(dir)
	if err := os.MkdirAll(dir, 0o755); err != nil {
		return nil, err
	}
	os.WriteFile(filepath.Join(dir, "go.mod"), []byte("module oracle\n\ngo 1.18\n"), 0o644)
	var main bytes.Buffer
	main.WriteString("package main\n\nimport (\n\t\"fmt\"\n\t\"sort\"\n")
	for _, p := range pkgs {
		fmt.Fprintf(&main, "\t%s \"oracle/%s\"\n", p.name, p.name)
	}
	main.WriteString(")\n\nfunc call(f func() string) (s string) {\n\tdefer func() {\n\t\tif r := recover(); r != nil {\n\t\t\ts = \"panic\"\n\t\t}\n\t}()\n\treturn f()\n}\n\n")
	main.WriteString("func run(name string, sites map[int]func() string) {\n\tvar ids []int\n\tfor id := range sites {\n\t\tids = append(ids, id)\n\t}\n\tsort.Ints(ids)\n\tfor _, id := range ids {\n\t\tfmt.Printf(\"%s %d %q\\n\", name, id, call(sites[id]))\n\t}\n}\n\nfunc main() {\n")
	for _, p := range pkgs {
		var src bytes.Buffer
		fmt.Fprintf(&src, "package %s\n\nimport \"fmt\"\n\nvar _ = fmt.Sprint\n\n%s\n%s\n", p.name, oracleSessionDecls, globalDecls)
		for _, u := range lateUnits {
			src.WriteString(u.Src + "\n")
		}
		for _, d := range p.decls {
			src.WriteString(d)
			src.WriteString("\n\n")
		}
		src.WriteString("var Sites = map[int]func() string{\n")
		var ids []int
		for id := range p.sites {
			ids = append(ids, id)
		}
		sort.Ints(ids)
		for _, id := range ids {
			fmt.Fprintf(&src, "\t%d: func() string { return %s },\n", id, p.sites[id])
		}
		src.WriteString("}\n")
		os.MkdirAll(filepath.Join(dir, p.name), 0o755)
		if err := os.WriteFile(filepath.Join(dir, p.name, "p.go"), src.Bytes(), 0o644); err != nil {
			return nil, err
		}
		fmt.Fprintf(&main, "\trun(%q, %s.Sites)\n", p.name, p.name)
	}
	main.WriteString("}\n")
	os.WriteFile(filepath.Join(dir, "main.go"), main.Bytes(), 0o644)
	cmd := exec.Command("go", "build", "-o", "oracle.bin", ".")
	cmd.Dir = dir
	cmd.Env = append(os.Environ(), "GOFLAGS=-mod=mod", "GOPROXY=off", "GOSUMDB=off", "GOTOOLCHAIN=local", "GOWORK=off")
	if out, err := cmd.CombinedOutput(); err != nil {
		o := string(out)
		if len(o) > 3000 {
			o = o[:3000]
		}
		return nil, fmt.Errorf("go build of the oracle module failed: %v\n%s", err, o)
	}
	out, err := exec.Command(filepath.Join(dir, "oracle.bin")).Output()
	if err != nil {
		return nil, fmt.Errorf("oracle run failed: %v", err)
	}
	res := map[string]map[int]string{}
	for _, line := range strings.Split(string(out), "\n") {
		var name, val string
		var id int
		if n, _ := fmt.Sscanf(line, "%s %d %q", &name, &id, &val); n == 3 {
			if res[name] == nil {
				res[name] = map[int]string{}
			}
			res[name][id] = val
		}
	}
	return res, nil
}

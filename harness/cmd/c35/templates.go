// c35 template catalogue.  Template language (expanded by expand() in main.go):
//
//	$0..$9       type (or constant) parameter i
//	@Name<a, b>  reference to the generic Name instantiated with the type expressions a, b (may be nested)
//	%D%          head of the declaration: Name#[T,U] (generic) / fresh name (L1) / mangled name (L2)
//	%F%          (drivers) the instantiated function or type
//	#k:type#     (drivers) random value number k of the given type (the same value in every rendering of the op)
//	&name&       (function bodies) reference to the plain package-level declaration `name` of lateUnits
package main

type Template struct {
	Name    string
	Kind    string   // "type" | "alias" | "func"
	Classes []string // class of each parameter: any cmp ord add num int constint
	Under   *Ty      // type/alias: the declared body (with parameters)
	Src     string   // func: declaration source
	Drv     string   // driver: expression of type string
	Infer   bool     // call sites may omit #[...]: inference is implemented for the parameter patterns
	NoGo    bool     // uses the CTI methods of basic types: no compiled-Go oracle, no plain-Go copy
	NoL1    bool     // mutually recursive types: the driver cannot mix the L1 copy with the generic partner
	NP      int
	Needs   []string // late units (lateUnits: plain declarations or Late generics) the body names, transitively
	Late    bool     // a generic that "late" sessions declare only when a consumer has failed for want of it
	Global  bool     // the body reads/writes package-level variables and calls package-level functions
}

func typeT(name, kind string, classes []string, under string) *Template {
	return &Template{Name: name, Kind: kind, Classes: classes, Under: parseTy(under), NP: len(classes),
		Drv: `func() string { var p %F% = #0:%SELF%#; var q %F%; q = p; r := []%F%{q, #1:%SELF%#}; return fmt.Sprint(q, len(r), r[1]) }()`}
}
func funcT(name string, classes []string, src, drv string) *Template {
	return &Template{Name: name, Kind: "func", Classes: classes, Src: src, Drv: drv, NP: len(classes)}
}
func (t *Template) infer() *Template { t.Infer = true; return t }
func (t *Template) nogo() *Template  { t.NoGo = true; return t }
func (t *Template) nol1() *Template  { t.NoL1 = true; return t }
func (t *Template) drv(d string) *Template {
	t.Drv = d
	return t
}
func (t *Template) needs(n ...string) *Template { t.Needs = n; return t }
func (t *Template) late() *Template             { t.Late = true; return t }
func (t *Template) global() *Template           { t.Global = true; return t }

// plain (non generic) package-level declarations named by generic bodies.  "Late" sessions evaluate them only after
// a consumer was instantiated once - and failed: the instantiation must then succeed and behave like the textual copy.
type lateUnit struct {
	Name, Src string
}

var lateUnits = []lateUnit{
	{"lateShow", `func lateShow(x interface{}) string { return fmt.Sprint("[", x, "]") }`},
	{"LateRec", `type LateRec struct { N int; S string }`},
	{"lateVar", `var lateVar = 40`},
}

func findUnit(n string) *lateUnit {
	for i := range lateUnits {
		if lateUnits[i].Name == n {
			return &lateUnits[i]
		}
	}
	return nil
}

// package-level state and functions used by the bodies of the `global()` generics (gomacro session and oracle package)
const globalDecls = `var gBase = 10
var gCount int
var gLast string
var gTab = map[string]int{"a": 1}
func gTwice(x int) int { return 2 * x }
func gShow(x interface{}) string { return fmt.Sprint("<", x, ">") }
func gBump(d int) int { gCount += d; return gCount }
func gSet(b, c int) int { gBase = b; gCount = c; return b }`

func catalogue() []*Template {
	A := "any"
	return []*Template{
		// ---------------- generic types
		typeT("Pair", "type", []string{A, A}, `struct { First $0; Second $1 }`),
		typeT("Box", "type", []string{A}, `struct { V $0 }`),
		typeT("Opt", "type", []string{A}, `struct { V $0; Ok bool }`),
		typeT("List", "type", []string{A}, `struct { First $0; Rest *@List<$0> }`).drv(
			`func() string { l := &%F%{First: #0:$0#}; l = &%F%{First: #1:$0#, Rest: l}; l = &%F%{First: #2:$0#, Rest: l}; n := 0; s := ""; for p := l; p != nil; p = p.Rest { n++; s += fmt.Sprint(p.First, ";") }; return fmt.Sprint(n, s) }()`),
		typeT("Stack", "type", []string{A}, `struct { Items []$0 }`),
		typeT("Tree", "type", []string{A, A}, `struct { L *@Tree<$0, $1>; R *@Tree<$0, $1>; Key $0; Val $1 }`).drv(
			`func() string { t := &%F%{Key: #0:$0#, Val: #1:$1#}; t.L = &%F%{Key: #2:$0#, Val: #3:$1#}; t.L.R = t; return fmt.Sprint(t.L.R.Key, t.L.Val, t.R == nil, t.L.R.L.Key) }()`),
		typeT("Dict", "type", []string{"cmp", A}, `struct { M map[$0]$1; Keys []$0 }`),
		typeT("PairList", "type", []string{A, A}, `struct { Items []@Pair<$0, $1>; N int }`),
		typeT("Fn", "type", []string{A, A}, `func($0) $1`).drv(
			`func() string { var f %F% = #0:func($0) $1#; var g %F%; g = f; return fmt.Sprint(g(#1:$0#), g(#2:$0#)) }()`),
		typeT("Vec", "alias", []string{A}, `[]$0`),
		typeT("MapOf", "alias", []string{"cmp", A}, `map[$0]$1`),
		typeT("Arr", "type", []string{A, "constint"}, `[$1]$0`),
		typeT("Matrix", "type", []string{A, "constint", "constint"}, `[$1][$2]$0`),
		typeT("Pipe", "type", []string{A}, `struct { C chan $0; N int }`).drv(
			`func() string { p := %F%{C: make(chan $0, 3)}; p.C <- #0:$0#; p.N++; p.C <- #1:$0#; p.N++; a := <-p.C; b := <-p.C; return fmt.Sprint(a, b, p.N, len(p.C)) }()`),
		typeT("Nest", "type", []string{A, A}, `struct { P @Pair<$0, @Box<$1>>; L *@List<@Pair<$1, $0>> }`),
		typeT("NodeA", "type", []string{A}, `struct { V $0; Next *@NodeB<$0> }`).drv(
			`func() string { a := &%F%{V: #0:$0#}; a.Next = &@NodeB<$0>{W: #1:[]$0#}; a.Next.Back = a; return fmt.Sprint(a.Next.Back.V, a.Next.W, a.Next.Back.Next.Back == a) }()`).nol1(),
		typeT("NodeB", "type", []string{A}, `struct { W []$0; Back *@NodeA<$0> }`).drv(
			`func() string { b := &%F%{W: #0:[]$0#}; b.Back = &@NodeA<$0>{V: #1:$0#}; b.Back.Next = b; return fmt.Sprint(b.Back.Next.W, b.Back.V) }()`).nol1(),

		// ---------------- generic functions
		funcT("Sum", []string{"add"}, `func %D%(xs []$0) $0 { var s $0; for _, x := range xs { s += x }; return s }`,
			`fmt.Sprint(%F%(#0:[]$0#))`).infer(),
		funcT("MapS", []string{A, A}, `func %D%(xs []$0, f func($0) $1) []$1 { r := make([]$1, len(xs)); for i := range xs { r[i] = f(xs[i]) }; return r }`,
			`fmt.Sprint(%F%(#0:[]$0#, #1:func($0) $1#))`).infer(),
		funcT("Filter", []string{A}, `func %D%(xs []$0, p func($0) bool) []$0 { var r []$0; for _, x := range xs { if p(x) { r = append(r, x) } }; return r }`,
			`fmt.Sprint(%F%(#0:[]$0#, #1:func($0) bool#))`).infer(),
		funcT("Reduce", []string{A, A}, `func %D%(xs []$0, init $1, f func($1, $0) $1) $1 { acc := init; for _, x := range xs { acc = f(acc, x) }; return acc }`,
			`fmt.Sprint(%F%(#0:[]$0#, #1:$1#, #2:func($1, $0) $1#))`),
		funcT("Swap", []string{A, A}, `func %D%(p @Pair<$0, $1>) @Pair<$1, $0> { return @Pair<$1, $0>{First: p.Second, Second: p.First} }`,
			`fmt.Sprint(%F%(#0:@Pair<$0, $1>#))`),
		funcT("Max", []string{"ord"}, `func %D%(xs []$0) $0 { var m $0; for i, x := range xs { if i == 0 || m < x { m = x } }; return m }`,
			`fmt.Sprint(%F%(#0:[]$0#))`).infer(),
		funcT("MaxM", []string{"ordbasic"}, `func %D%(xs []$0) $0 { var m $0; for i, x := range xs { if i == 0 || m.Less(x) { m = x } }; return m }`,
			`fmt.Sprint(%F%(#0:[]$0#))`).nogo(),
		funcT("AddM", []string{"numbasic"}, `func %D%(a, b $0) $0 { var z $0; return z.Add(a, b) }`,
			`fmt.Sprint(%F%(#0:$0#, #1:$0#))`).nogo(),
		funcT("Lookup", []string{"cmp", A}, `func %D%(m map[$0]$1, k $0) ($1, bool) { v, ok := m[k]; return v, ok }`,
			`func() string { m := #0:map[$0]$1#; v, ok := %F%(m, #1:$0#); return fmt.Sprint(v, ok, len(m)) }()`).infer(),
		funcT("SumVals", []string{"cmp", "int"}, `func %D%(m map[$0]$1) $1 { var t $1; for k := range m { t += m[k] }; return t }`,
			`fmt.Sprint(%F%(#0:map[$0]$1#))`).infer(),
		funcT("Compose", []string{A, A, A}, `func %D%(f func($0) $1, g func($1) $2) func($0) $2 { return func(x $0) $2 { return g(f(x)) } }`,
			`fmt.Sprint(%F%(#0:func($0) $1#, #1:func($1) $2#)(#2:$0#))`),
		funcT("Curry", []string{A, A, A}, `func %D%(f func($0, $1) $2) func($0) func($1) $2 { return func(a $0) func($1) $2 { return func(b $1) $2 { return f(a, b) } } }`,
			`fmt.Sprint(%F%(#0:func($0, $1) $2#)(#1:$0#)(#2:$1#))`),
		funcT("Push", []string{A}, `func %D%(s *@Stack<$0>, v $0) { s.Items = append(s.Items, v) }`,
			`func() string { var s @Stack<$0>; %F%(&s, #0:$0#); %F%(&s, #1:$0#); return fmt.Sprint(s, len(s.Items)) }()`),
		funcT("Pop", []string{A}, `func %D%(s *@Stack<$0>) ($0, bool) { var z $0; n := len(s.Items); if n == 0 { return z, false }; z = s.Items[n-1]; s.Items = s.Items[:n-1]; return z, true }`,
			`func() string { s := @Stack<$0>{Items: #0:[]$0#}; @Push<$0>(&s, #1:$0#); a, ok := %F%(&s); b, ok2 := %F%(&s); return fmt.Sprint(a, ok, b, ok2, len(s.Items)) }()`),
		funcT("Prepend", []string{A}, `func %D%(l *@List<$0>, v $0) *@List<$0> { return &@List<$0>{First: v, Rest: l} }`,
			`func() string { var l *@List<$0>; l = %F%(l, #0:$0#); l = %F%(l, #1:$0#); return fmt.Sprint(l.First, l.Rest.First, l.Rest.Rest == nil) }()`),
		funcT("ListLen", []string{A}, `func %D%(l *@List<$0>) int { if l == nil { return 0 }; return 1 + @ListLen<$0>(l.Rest) }`,
			`func() string { l := @Prepend<$0>(@Prepend<$0>(@Prepend<$0>(*new(*@List<$0>), #0:$0#), #1:$0#), #2:$0#); return fmt.Sprint(%F%(l), %F%(l.Rest.Rest), %F%(*new(*@List<$0>))) }()`),
		funcT("ToSlice", []string{A}, `func %D%(l *@List<$0>) []$0 { var r []$0; for ; l != nil; l = l.Rest { r = append(r, l.First) }; return r }`,
			`func() string { l := @Prepend<$0>(@Prepend<$0>(*new(*@List<$0>), #0:$0#), #1:$0#); return fmt.Sprint(%F%(l), @ListLen<$0>(l)) }()`),
		funcT("TreeInsert", []string{"ord", A}, `func %D%(t *@Tree<$0, $1>, k $0, v $1) *@Tree<$0, $1> { if t == nil { return &@Tree<$0, $1>{Key: k, Val: v} }; if k < t.Key { t.L = @TreeInsert<$0, $1>(t.L, k, v) } else if t.Key < k { t.R = @TreeInsert<$0, $1>(t.R, k, v) } else { t.Val = v }; return t }`,
			`func() string { var t *@Tree<$0, $1>; for _, k := range #0:[]$0# { t = %F%(t, k, #1:$1#) }; return fmt.Sprint(@TreeKeys<$0, $1>(t, nil)) }()`),
		funcT("TreeKeys", []string{"ord", A}, `func %D%(t *@Tree<$0, $1>, acc []$0) []$0 { if t == nil { return acc }; acc = @TreeKeys<$0, $1>(t.L, acc); acc = append(acc, t.Key); return @TreeKeys<$0, $1>(t.R, acc) }`,
			`func() string { var t *@Tree<$0, $1>; for _, k := range #0:[]$0# { t = @TreeInsert<$0, $1>(t, k, #1:$1#) }; r := %F%(t, nil); return fmt.Sprint(r, len(r)) }()`),
		funcT("Produce", []string{A}, `func %D%(xs []$0) chan $0 { c := make(chan $0, len(xs)); for _, x := range xs { c <- x }; close(c); return c }`,
			`func() string { c := %F%(#0:[]$0#); return fmt.Sprint(@Collect<$0>(c, 99)) }()`),
		funcT("Collect", []string{A}, `func %D%(c chan $0, n int) []$0 { var r []$0; for i := 0; i < n; i++ { v, ok := <-c; if !ok { break }; r = append(r, v) }; return r }`,
			`func() string { c := make(chan $0, 4); c <- #0:$0#; c <- #1:$0#; c <- #2:$0#; return fmt.Sprint(%F%(c, 2), len(c)) }()`),
		funcT("Zero", []string{A}, `func %D%() $0 { var z $0; return z }`,
			`fmt.Sprint(%F%())`),
		funcT("PtrTo", []string{A}, `func %D%(v $0) *$0 { p := new($0); *p = v; return p }`,
			`func() string { p := %F%(#0:$0#); q := %F%(#1:$0#); return fmt.Sprint(*p, *q, p == q) }()`).infer(),
		funcT("Repeat", []string{A}, `func %D%(v $0, n int) []$0 { r := make([]$0, 0, n); for i := 0; i < n; i++ { r = append(r, v) }; return r }`,
			`fmt.Sprint(%F%(#0:$0#, 3))`).infer(),
		funcT("Contains", []string{"cmp"}, `func %D%(xs []$0, v $0) bool { for _, x := range xs { if x == v { return true } }; return false }`,
			`func() string { xs := #0:[]$0#; r := fmt.Sprint(%F%(xs, #1:$0#)); if len(xs) > 0 { r += fmt.Sprint(%F%(xs, xs[len(xs)-1])) }; return r }()`).infer(),
		funcT("AddN", []string{"constint"}, `func %D%(x int) int { return x + $0 }`,
			`fmt.Sprint(%F%(#0:int#))`),
		funcT("Fill", []string{A, "constint"}, `func %D%(v $0) @Arr<$0, $1> { var a @Arr<$0, $1>; for i := range a { a[i] = v }; return a }`,
			`func() string { a := %F%(#0:$0#); return fmt.Sprint(a, len(a)) }()`),
		funcT("Fib", []string{"int"}, `func %D%(n $0) $0 { if n < 2 { return n }; return @Fib<$0>(n-1) + @Fib<$0>(n-2) }`,
			`fmt.Sprint(%F%(7), %F%(11))`),
		funcT("Zip", []string{A, A}, `func %D%(a []$0, b []$1) []@Pair<$0, $1> { var r []@Pair<$0, $1>; for i := range a { if i < len(b) { r = append(r, @Pair<$0, $1>{a[i], b[i]}) } }; return r }`,
			`fmt.Sprint(%F%(#0:[]$0#, #1:[]$1#))`),
		funcT("Enumerate", []string{A}, `func %D%(xs []$0) []@Pair<int, $0> { idx := make([]int, len(xs)); for i := range xs { idx[i] = i }; return @Zip<int, $0>(idx, xs) }`,
			`fmt.Sprint(%F%(#0:[]$0#))`),
		funcT("MakeAcc", []string{"add"}, `func %D%(init $0) func($0) $0 { acc := init; return func(d $0) $0 { acc += d; return acc } }`,
			`func() string { f := %F%(#0:$0#); g := %F%(#1:$0#); f(#2:$0#); g(#3:$0#); return fmt.Sprint(f(#4:$0#), g(#5:$0#)) }()`),
		funcT("Twice", []string{A}, `func %D%(f func($0) $0) func($0) $0 { return func(x $0) $0 { return f(f(x)) } }`,
			`fmt.Sprint(%F%(#0:func($0) $0#)(#1:$0#))`),
		funcT("SwapPtr", []string{A}, `func %D%(a, b *$0) { *a, *b = *b, *a }`,
			`func() string { x, y := #0:$0#, #1:$0#; %F%(&x, &y); return fmt.Sprint(x, y) }()`),
		funcT("SortedKeys", []string{"ord", A}, `func %D%(m map[$0]$1) []$0 { var ks []$0; for k := range m { ks = append(ks, k); for i := len(ks) - 1; i > 0 && ks[i] < ks[i-1]; i-- { ks[i], ks[i-1] = ks[i-1], ks[i] } }; return ks }`,
			`fmt.Sprint(%F%(#0:map[$0]$1#))`),
		funcT("Apply", []string{A, A}, `func %D%(f @Fn<$0, $1>, xs []$0) []$1 { var r []$1; for _, x := range xs { r = append(r, f(x)) }; return r }`,
			`fmt.Sprint(%F%(#0:func($0) $1#, #1:[]$0#))`),
		funcT("Unbox", []string{A}, `func %D%(b @Box<@Opt<$0>>, d $0) $0 { if b.V.Ok { return b.V.V }; return d }`,
			`fmt.Sprint(%F%(#0:@Box<@Opt<$0>>#, #1:$0#))`),
		// ---------------- bodies that use package-level variables and functions (the instance must run in the
		// environment of the DECLARATION, wherever it is named)
		funcT("AddBase", []string{"int"}, `func %D%(x $0) $0 { return x + $0(gTwice(gBase)) }`,
			`fmt.Sprint(gSet(int(#1:int8#), 0), %F%(#0:$0#))`).infer().global(),
		funcT("Tally", []string{A}, `func %D%(v $0) string { gCount += 3; gLast = gShow(v); return fmt.Sprint(gBump(2), gLast) }`,
			`func() string { gCount = int(#1:int8#); r := %F%(#0:$0#); return fmt.Sprint(r, gCount, gLast) }()`).infer().global(),
		funcT("Ticker", []string{A}, `func %D%(d $0) func() string { return func() string { gCount++; return fmt.Sprint(d, gCount, gTwice(gBase)) } }`,
			`func() string { gCount = int(#1:int8#); gBase = int(#2:int8#); f := %F%(#0:$0#); f(); return f() + fmt.Sprint(gCount) }()`).global(),
		funcT("Each", []string{A}, `func %D%(xs []$0) string { s := ""; for i, x := range xs { s += gShow(x); gTab["n"] = i + gBase }; return s + fmt.Sprint(len(gTab), gTab["n"]) }`,
			`func() string { gTab = map[string]int{"a": 1}; gBase = int(#1:int8#); return %F%(#0:[]$0#) }()`).global(),
		funcT("BoxBase", []string{"int"}, `func %D%(x $0) @Box<$0> { gLast = "bb"; return @Box<$0>{V: x * $0(gBase)} }`,
			`func() string { gBase = int(#1:int8#); gLast = ""; return fmt.Sprint(%F%(#0:$0#), gLast) }()`).global(),

		// ---------------- bodies that name something which may be declared only later
		typeT("LateBox", "type", []string{A}, `struct { W $0; Tag string }`).late(),
		funcT("LateLen", []string{A}, `func %D%(xs []$0) int { return len(xs) * 3 }`,
			`fmt.Sprint(%F%(#0:[]$0#))`).late(),
		funcT("UseLateF", []string{A}, `func %D%(x $0) string { return &lateShow&(x) + "!" }`,
			`fmt.Sprint(%F%(#0:$0#))`).needs("lateShow"),
		funcT("UseLateV", []string{A}, `func %D%(x $0) string { &lateVar&++; return fmt.Sprint(x, lateVar) }`,
			`func() string { lateVar = int(#1:int8#); return %F%(#0:$0#) }()`).needs("lateVar"),
		funcT("UseLateG", []string{A}, `func %D%(xs []$0) int { return @LateLen<$0>(xs) + 1 }`,
			`fmt.Sprint(%F%(#0:[]$0#))`).needs("LateLen"),
		funcT("OuterLate", []string{A}, `func %D%(x $0) string { var b @Box<$0>; b.V = x; return fmt.Sprint(b) + @UseLateF<$0>(x) }`,
			`fmt.Sprint(%F%(#0:$0#))`).needs("lateShow"),
		typeT("HoldLate", "type", []string{A}, `struct { V $0; L LateRec }`).needs("LateRec"),
		typeT("WrapLate", "type", []string{A}, `struct { In @LateBox<$0>; K int }`).needs("LateBox"),
		typeT("PairLate", "type", []string{A}, `struct { P @Pair<$0, $0>; H *@HoldLate<$0> }`).needs("LateRec"),

		funcT("Transpose", []string{A, "constint", "constint"}, `func %D%(m @Matrix<$0, $1, $2>) @Matrix<$0, $2, $1> { var r @Matrix<$0, $2, $1>; for i := range m { for j := range m[i] { r[j][i] = m[i][j] } }; return r }`,
			`fmt.Sprint(%F%(#0:@Matrix<$0, $1, $2>#))`),
	}
}

// c36: correspondence + direct oracle for code completion (fast/repl.go Interp.CompleteWords and friends,
// fast/selector.go listFieldsAndMethods).
//
// For each of several random interpreter states (declared vars/consts/funcs/types, struct types with plain,
// embedded and embedded-pointer fields and methods, interfaces, named non-struct types, imported packages)
// it asks the real implementation to complete many lines at many cursor positions and
//   - judges the answer with a reference that never consults the Coq model (direct oracle):
//     single word : completions == sorted unique { n in U | HasPrefix(n, typed) } where U = names a fresh
//     interpreter exposes (collected once through one-letter prefixes) + the names declared here
//     var chain   : completions == sorted unique { m in members | HasPrefix(m, typed) } where members follows Go's
//     selector rules on the declarations generated here (fields, promoted fields, methods,
//     methods promoted through embedded values / pointers / interfaces)
//     pkg chain   : completions == filter of what the same package lists for the empty prefix, all exported
//     every case  : strictly sorted; tail == line[pos:]; head+typed == line[:pos]; typed is a prefix of every completion
//   - writes the state (as seen through the exported xreflect API), the line, the cursor and the observed
//     answer as a Coq term; ./check evaluates Verif.C36.Model.complete_line on it (correspondence).
package main

import (
	"encoding/json"
	"fmt"
	"go/token"
	"io"
	"os"
	"path/filepath"
	r "reflect"
	"sort"
	"strings"
	"time"

	"github.com/cosmos72/gomacro/fast"
	"github.com/cosmos72/gomacro/imports"
	xr "github.com/cosmos72/gomacro/xreflect"
	"verifh/vh"
)

// ---------------------------------------------------------------- declarations generated for one state

type fieldDecl struct {
	Name     string // for embedded fields: the type name
	Typ      string // Go source of the type
	Struct   int    // index of struct type (value or pointer), -1 otherwise
	Iface    int    // index of interface type, -1 otherwise
	Named    int    // index of named non-struct type, -1 otherwise
	Embedded bool
}

type structDecl struct {
	Name    string
	Fields  []fieldDecl
	Methods []string
	PtrRecv []bool
}

type ifaceDecl struct {
	Name    string
	Methods []string
}

type namedDecl struct {
	Name    string
	Methods []string
}

type varDecl struct {
	Name   string
	Struct int
	Iface  int
	Named  int
	Ptr    bool
}

type state struct {
	ir       *fast.Interp
	structs  []structDecl
	ifaces   []ifaceDecl
	nameds   []namedDecl
	vars     []varDecl
	declared map[string]bool   // every top-level name declared (incl. imports)
	kind     map[string]string // declared top-level name -> var | const | func | type | import
	imports  []string
	src      []string
	coqName  string
}

var memberPool = []string{"Al", "Alp", "Alpha", "Alps", "Be", "Beta", "Bet", "Cnt", "Count", "Counter", "Na", "Name", "Names", "X", "X1", "X2", "Xy",
	"do", "done", "doIt", "get", "getAll", "ge", "Set", "SetAll", "Se", "id", "idx", "Id", "Len", "Le", "String", "Str", "a", "ab", "abc", "b", "ba", "Z", "Zz", "Zeta", "w", "wi", "with_1", "w_2"}

var topPool = []string{"fo", "foo", "foo1", "foo2", "forx", "fun1", "fu", "intx", "in1", "lenn", "le", "str", "string2", "ca", "cap1", "cas", "gox", "gp",
	"map1", "ma", "ifoo", "i", "vx", "va", "var1", "ty", "typ", "t1", "t2", "tt", "br", "brk", "sel", "se", "ret", "re", "x", "xy", "xyz", "y", "_u", "_", "a1", "A1", "Ab", "AB", "nil1", "ne", "new1",
	"tr", "tru", "pan", "pr", "pri", "printx", "c", "co", "con", "de", "def", "el", "ra", "sw", "st", "ch", "cha", "ui", "uin", "by", "bo", "er", "ru", "fl", "im", "ma_2", "mac", "te", "temp", "go1", "ap", "cl", "cm", "rea", "rec"}

var importPool = []string{"strings", "fmt", "math", "sort", "strconv", "errors", "bytes", "reflect", "time", "io"}

func pick(rng *vh.Rng, pool []string, used map[string]bool) string {
	for k := 0; k < 200; k++ {
		n := pool[rng.Intn(len(pool))]
		if !used[n] {
			used[n] = true
			return n
		}
	}
	for k := 0; ; k++ {
		n := fmt.Sprintf("%s%d", pool[rng.Intn(len(pool))], k)
		if !used[n] {
			used[n] = true
			return n
		}
	}
}

func (st *state) eval(src string) bool {
	st.src = append(st.src, src)
	if p := vh.Catch(func() { st.ir.Eval(src) }); p != nil {
		fmt.Fprintf(os.Stderr, "c36: declaration failed: %q: %v\n", src, p)
		return false
	}
	return true
}

// names a struct type's tree already uses (own + everything reachable through embedded fields): a new member
// declared in an outer type may shadow them (different depth), two members at the same depth never collide
// because every member name is otherwise globally unique and a struct type is embedded at most once.
func newState(rng *vh.Rng, idx int) *state {
	st := &state{ir: fast.New(), declared: map[string]bool{}, kind: map[string]string{}, coqName: fmt.Sprintf("st%d", idx)}
	g := &st.ir.Comp.Globals
	g.Stdout, g.Stderr = io.Discard, io.Discard
	usedTop := map[string]bool{}
	usedMem := map[string]bool{}
	decl := func(name, kind string) { st.declared[name] = true; usedTop[name] = true; st.kind[name] = kind }

	// imports
	for _, p := range importPool {
		if rng.Chance(2, 5) {
			if st.eval(fmt.Sprintf("import %q", p)) {
				st.imports = append(st.imports, p)
				decl(p, "import")
			}
		}
	}
	// interfaces
	for i, n := 0, rng.Intn(3); i < n; i++ {
		d := ifaceDecl{Name: fmt.Sprintf("If%d", i)}
		for k, m := 0, 1+rng.Intn(3); k < m; k++ {
			d.Methods = append(d.Methods, pick(rng, memberPool, usedMem))
		}
		var ms []string
		for _, m := range d.Methods {
			ms = append(ms, m+"()")
		}
		if st.eval(fmt.Sprintf("type %s interface { %s }", d.Name, strings.Join(ms, "; "))) {
			st.ifaces = append(st.ifaces, d)
			decl(d.Name, "type")
		}
	}
	// named non-struct types with methods
	for i, n := 0, rng.Intn(3); i < n; i++ {
		d := namedDecl{Name: fmt.Sprintf("Nm%d", i)}
		if !st.eval(fmt.Sprintf("type %s %s", d.Name, []string{"int", "string", "[]int", "map[string]int"}[rng.Intn(4)])) {
			continue
		}
		for k, m := 0, rng.Intn(3); k < m; k++ {
			mn := pick(rng, memberPool, usedMem)
			if st.eval(fmt.Sprintf("func (x %s) %s() {}", d.Name, mn)) {
				d.Methods = append(d.Methods, mn)
			}
		}
		st.nameds = append(st.nameds, d)
		decl(d.Name, "type")
	}
	// struct types, leaves first; each is embedded at most once
	embeddedOnce := map[int]bool{}
	ifaceEmbedded := map[int]bool{}
	nstruct := 2 + rng.Intn(5)
	for i := 0; i < nstruct; i++ {
		d := structDecl{Name: []string{"T", "Tq", "Inner", "In2", "Base", "Bx", "Node"}[i]}
		// shadow candidates: members of types that will be embedded
		var shadow []string
		nf := 1 + rng.Intn(4)
		for k := 0; k < nf; k++ {
			f := fieldDecl{Struct: -1, Iface: -1, Named: -1}
			switch x := rng.Intn(10); {
			case x < 3 && len(st.structs) > 0: // embedded struct (value or pointer)
				j := rng.Intn(len(st.structs))
				if embeddedOnce[j] {
					continue
				}
				embeddedOnce[j] = true
				f.Embedded, f.Struct, f.Name = true, j, st.structs[j].Name
				f.Typ = st.structs[j].Name
				if rng.Bool() {
					f.Typ = "*" + f.Typ
				}
				for _, ff := range st.structs[j].Fields {
					shadow = append(shadow, ff.Name)
				}
				shadow = append(shadow, st.structs[j].Methods...)
			case x < 4 && len(st.ifaces) > 0: // embedded interface
				j := rng.Intn(len(st.ifaces))
				if ifaceEmbedded[j] {
					continue
				}
				ifaceEmbedded[j] = true
				f.Embedded, f.Iface, f.Name, f.Typ = true, j, st.ifaces[j].Name, st.ifaces[j].Name
			case x < 6 && len(st.structs) > 0: // plain field of struct / pointer-to-struct type
				j := rng.Intn(len(st.structs))
				f.Struct, f.Typ = j, st.structs[j].Name
				if rng.Bool() {
					f.Typ = "*" + f.Typ
				}
			case x < 7 && len(st.ifaces) > 0:
				j := rng.Intn(len(st.ifaces))
				f.Iface, f.Typ = j, st.ifaces[j].Name
			case x < 8 && len(st.nameds) > 0:
				j := rng.Intn(len(st.nameds))
				f.Named, f.Typ = j, st.nameds[j].Name
			default:
				f.Typ = []string{"int", "string", "[]byte", "func()", "*int"}[rng.Intn(5)]
			}
			if !f.Embedded {
				if len(shadow) > 0 && rng.Chance(1, 4) {
					// shadow a deeper member (legal: different depth)
					cand := shadow[rng.Intn(len(shadow))]
					dup := false
					for _, ff := range d.Fields {
						dup = dup || ff.Name == cand
					}
					if dup {
						continue
					}
					f.Name = cand
				} else {
					f.Name = pick(rng, memberPool, usedMem)
				}
			}
			d.Fields = append(d.Fields, f)
		}
		if len(d.Fields) == 0 {
			d.Fields = append(d.Fields, fieldDecl{Name: pick(rng, memberPool, usedMem), Typ: "int", Struct: -1, Iface: -1, Named: -1})
		}
		var fs []string
		for _, f := range d.Fields {
			if f.Embedded {
				fs = append(fs, f.Typ)
			} else {
				fs = append(fs, f.Name+" "+f.Typ)
			}
		}
		if !st.eval(fmt.Sprintf("type %s struct { %s }", d.Name, strings.Join(fs, "; "))) {
			continue
		}
		for k, m := 0, rng.Intn(4); k < m; k++ {
			mn := pick(rng, memberPool, usedMem)
			ptr := rng.Bool()
			recv := d.Name
			if ptr {
				recv = "*" + recv
			}
			if st.eval(fmt.Sprintf("func (x %s) %s() {}", recv, mn)) {
				d.Methods = append(d.Methods, mn)
				d.PtrRecv = append(d.PtrRecv, ptr)
			}
		}
		st.structs = append(st.structs, d)
		decl(d.Name, "type")
	}
	// variables of the declared types
	addVar := func(v varDecl, typ string) {
		v.Name = pick(rng, topPool, usedTop)
		if v.Name == "_" {
			return // (gomacro rejects "var _ T" for non-basic T with an index-out-of-range panic; not this property)
		}
		if st.eval(fmt.Sprintf("var %s %s", v.Name, typ)) {
			st.vars = append(st.vars, v)
			decl(v.Name, "var")
		}
	}
	for j, d := range st.structs {
		if rng.Chance(3, 4) {
			addVar(varDecl{Struct: j, Iface: -1, Named: -1}, d.Name)
		}
		if rng.Chance(1, 2) {
			addVar(varDecl{Struct: j, Iface: -1, Named: -1, Ptr: true}, "*"+d.Name)
		}
	}
	for j, d := range st.ifaces {
		addVar(varDecl{Struct: -1, Iface: j, Named: -1}, d.Name)
	}
	for j, d := range st.nameds {
		addVar(varDecl{Struct: -1, Iface: -1, Named: j}, d.Name)
	}
	// plain variables, constants, functions sharing prefixes with keywords and builtins
	for i, n := 0, 4+rng.Intn(10); i < n; i++ {
		name := pick(rng, topPool, usedTop)
		var src, kind string
		switch rng.Intn(4) {
		case 0:
			src, kind = fmt.Sprintf("var %s int", name), "var"
		case 1:
			src, kind = fmt.Sprintf("const %s = %d", name, i), "const"
		case 2:
			src, kind = fmt.Sprintf("func %s() {}", name), "func"
		default:
			src, kind = fmt.Sprintf("var %s = \"s\"", name), "var"
		}
		if name == "_" {
			continue
		}
		if st.eval(src) {
			decl(name, kind)
		}
	}
	return st
}

// ---------------------------------------------------------------- reference: Go's selector rules on the declarations

// members valid on an (addressable) value of struct type j, or a pointer to it
func (st *state) structMembers(j int) map[string]bool {
	out := map[string]bool{}
	level := []int{j}
	for len(level) > 0 {
		var next []int
		for _, s := range level {
			d := st.structs[s]
			for _, m := range d.Methods {
				out[m] = true
			}
			for _, f := range d.Fields {
				out[f.Name] = true
				if f.Embedded && f.Struct >= 0 {
					next = append(next, f.Struct)
				}
				if f.Embedded && f.Iface >= 0 {
					for _, m := range st.ifaces[f.Iface].Methods {
						out[m] = true
					}
				}
			}
		}
		level = next
	}
	return out
}

type tref struct{ Struct, Iface, Named int } // all -1: a type without members

func (st *state) members(t tref) map[string]bool {
	switch {
	case t.Struct >= 0:
		return st.structMembers(t.Struct)
	case t.Iface >= 0:
		out := map[string]bool{}
		for _, m := range st.ifaces[t.Iface].Methods {
			out[m] = true
		}
		return out
	case t.Named >= 0:
		out := map[string]bool{}
		for _, m := range st.nameds[t.Named].Methods {
			out[m] = true
		}
		return out
	}
	return map[string]bool{}
}

// fields (own and promoted) of struct j with their types, for walking a chain
func (st *state) structFieldTypes(j int) map[string]tref {
	out := map[string]tref{}
	level := []int{j}
	for len(level) > 0 {
		var next []int
		for _, s := range level {
			for _, f := range st.structs[s].Fields {
				if _, shadowed := out[f.Name]; !shadowed {
					out[f.Name] = tref{f.Struct, f.Iface, f.Named}
				}
				if f.Embedded && f.Struct >= 0 {
					next = append(next, f.Struct)
				}
			}
		}
		// a method at a shallower or equal depth would shadow a deeper field; member names are unique across
		// kinds except for deliberate shadowing by *fields*, so no method hides a field here
		level = next
	}
	return out
}

func sortedKeys2(m map[string]string) []string {
	out := make([]string, 0, len(m))
	for k := range m {
		out = append(out, k)
	}
	sort.Strings(out)
	return out
}

// wordKinds classifies the names a single word may complete to: the declared ones by their declaration,
// the ones of a fresh interpreter as keyword | predeclared
func wordKinds(st *state, base map[string]bool) map[string]string {
	out := map[string]string{}
	for n := range base {
		if token.Lookup(n).IsKeyword() {
			out[n] = "keyword"
		} else {
			out[n] = "predeclared"
		}
	}
	for n, k := range st.kind {
		out[n] = k
	}
	return out
}

func sortedKeys(m map[string]bool) []string {
	out := make([]string, 0, len(m))
	for k := range m {
		out = append(out, k)
	}
	sort.Strings(out)
	return out
}

func filterPrefix(names []string, p string) []string {
	out := []string{}
	for _, n := range names {
		if strings.HasPrefix(n, p) {
			out = append(out, n)
		}
	}
	return out
}

// ---------------------------------------------------------------- member kinds (for the exact-name sweep)

// memberKinds classifies every member name valid on a value of type t (shallowest occurrence wins):
// field | embedded-field | method | promoted-field | promoted-embedded-field | promoted-method | iface-method
func (st *state) memberKinds(t tref) map[string]string {
	out := map[string]string{}
	set := func(n, k string) {
		if _, ok := out[n]; !ok {
			out[n] = k
		}
	}
	switch {
	case t.Iface >= 0:
		for _, m := range st.ifaces[t.Iface].Methods {
			set(m, "iface-method")
		}
	case t.Named >= 0:
		for _, m := range st.nameds[t.Named].Methods {
			set(m, "method")
		}
	case t.Struct >= 0:
		level, pro := []int{t.Struct}, ""
		for len(level) > 0 {
			var next []int
			for _, s := range level {
				d := st.structs[s]
				for _, m := range d.Methods {
					set(m, pro+"method")
				}
				for _, f := range d.Fields {
					if f.Embedded {
						set(f.Name, pro+"embedded-field")
					} else {
						set(f.Name, pro+"field")
					}
					if f.Embedded && f.Struct >= 0 {
						next = append(next, f.Struct)
					}
					if f.Embedded && f.Iface >= 0 {
						for _, m := range st.ifaces[f.Iface].Methods {
							set(m, "promoted-iface-method")
						}
					}
				}
			}
			level, pro = next, "promoted-"
		}
	}
	return out
}

// pkgMemberKinds classifies the exported names of a precompiled package from gomacro's import table
// (imports.Packages, tied to the real packages by C31): func | var | const | type
func pkgMemberKinds(path string) map[string]string {
	out := map[string]string{}
	pkg, ok := imports.Packages[path]
	if !ok {
		return out
	}
	for n, v := range pkg.Binds {
		switch {
		case v.Kind() == r.Func:
			out[n] = "func"
		case v.Kind() == r.Ptr && pkg.Untypeds[n] == "":
			// variables are stored as pointers to them (typed constants of pointer type do not exist)
			out[n] = "var"
		default:
			out[n] = "const"
		}
	}
	for n := range pkg.Types {
		out[n] = "type"
	}
	return out
}

// exactNames picks, for every kind, up to perKind names to be typed in FULL: first a name that is a proper
// prefix of another candidate (the exact match must be offered together with its extensions), then random ones.
func exactNames(rng *vh.Rng, kinds map[string]string, perKind int) [][2]string {
	byKind := map[string][]string{}
	for n, k := range kinds {
		byKind[k] = append(byKind[k], n)
	}
	var ks []string
	for k := range byKind {
		ks = append(ks, k)
	}
	sort.Strings(ks)
	all := make([]string, 0, len(kinds))
	for n := range kinds {
		all = append(all, n)
	}
	sort.Strings(all)
	var out [][2]string
	for _, k := range ks {
		names := byKind[k]
		sort.Strings(names)
		chosen := map[string]bool{}
		var ext []string
		for _, n := range names {
			for _, m := range all {
				if len(m) > len(n) && strings.HasPrefix(m, n) {
					ext = append(ext, n)
					break
				}
			}
		}
		if len(ext) > 0 {
			chosen[ext[rng.Intn(len(ext))]] = true
		}
		for tries := 0; len(chosen) < perKind && len(chosen) < len(names) && tries < 50; tries++ {
			chosen[names[rng.Intn(len(names))]] = true
		}
		for _, n := range sortedKeys(chosen) {
			out = append(out, [2]string{k, n})
		}
	}
	return out
}

// ---------------------------------------------------------------- the state as Coq terms (through the exported API)

type conv struct {
	ids   map[string]int
	memo  map[string]string // (type, depth) -> Coq identifier of an emitted Definition
	defs  []string          // Definitions, dependencies first
	inuse map[string]bool   // struct types being converted (a cycle is cut with TOther)
	pfx   string
}

func coqStrs(names []string) string {
	var cs []string
	for _, n := range names {
		cs = append(cs, vh.CoqStr(n))
	}
	return vh.CoqList(cs, "str")
}

func methodNames(t xr.Type) []string {
	var out []string
	vh.Catch(func() {
		for i, n := 0, t.NumMethod(); i < n; i++ {
			out = append(out, t.Method(i).Name)
		}
	})
	return out
}

func (cv *conv) ty(t xr.Type, depth int) string {
	if t == nil {
		return "(TOther [])"
	}
	switch t.Kind() {
	case r.Ptr:
		return "(TPtr " + cv.ty(t.Elem(), depth) + ")"
	case r.Interface:
		return "(TIface " + coqStrs(methodNames(t)) + ")"
	case r.Struct:
		key := t.String()
		if depth <= 0 || cv.inuse[key] {
			return "(TOther " + coqStrs(methodNames(t)) + ")"
		}
		mk := fmt.Sprintf("%s@%d", key, depth)
		if name, ok := cv.memo[mk]; ok {
			return name
		}
		id, ok := cv.ids[key]
		if !ok {
			id = len(cv.ids) + 1
			cv.ids[key] = id
		}
		cv.inuse[key] = true
		var fs []string
		for i, n := 0, t.NumField(); i < n; i++ {
			f := t.Field(i)
			fs = append(fs, fmt.Sprintf("(%s, %s, %s)", vh.CoqStr(f.Name), vh.CoqBool(f.Anonymous), cv.ty(f.Type, depth-1)))
		}
		delete(cv.inuse, key)
		name := fmt.Sprintf("%s_ty%d", cv.pfx, len(cv.memo))
		cv.memo[mk] = name
		cv.defs = append(cv.defs, fmt.Sprintf("Definition %s : ty := TStruct %d%%N %s %s.\n", name, id, coqStrs(methodNames(t)), vh.CoqList(fs, "(str * bool * ty)")))
		return name
	}
	return "(TOther " + coqStrs(methodNames(t)) + ")"
}

func sortedBindNames(m map[string]*fast.Bind) []string {
	out := make([]string, 0, len(m))
	for k := range m {
		out = append(out, k)
	}
	sort.Strings(out)
	return out
}
func sortedTypeNames(m map[string]xr.Type) []string {
	out := make([]string, 0, len(m))
	for k := range m {
		out = append(out, k)
	}
	sort.Strings(out)
	return out
}

// scope renders one *Comp as a Coq `scope`. The order inside a Go map is unspecified: the lists are emitted in
// a seed-dependent rotation of the sorted order (the theorems show the order cannot matter).
func (cv *conv) scope(c *fast.Comp, rot int, depth int) string {
	var bs, ts []string
	bn := sortedBindNames(c.Binds)
	for k := range bn {
		name := bn[(k+rot)%len(bn)]
		b := c.Binds[name]
		var term string
		if imp, ok := b.Value.(*fast.Import); ok && b.Const() {
			var ib, it []string
			for _, n := range sortedBindNames(imp.Binds) {
				ib = append(ib, fmt.Sprintf("(%s, %s)", vh.CoqStr(n), cv.ty(imp.Binds[n].Type, 1)))
			}
			for _, n := range sortedTypeNames(imp.Types) {
				it = append(it, fmt.Sprintf("(%s, %s)", vh.CoqStr(n), cv.ty(imp.Types[n], 2)))
			}
			term = fmt.Sprintf("BImport %s %s", vh.CoqList(ib, "(str * ty)"), vh.CoqList(it, "(str * ty)"))
		} else {
			term = "BVal " + cv.ty(b.Type, depth)
		}
		bs = append(bs, fmt.Sprintf("(%s, %s)", vh.CoqStr(name), term))
	}
	tn := sortedTypeNames(c.Types)
	for k := range tn {
		name := tn[(k+rot)%len(tn)]
		ts = append(ts, fmt.Sprintf("(%s, %s)", vh.CoqStr(name), cv.ty(c.Types[name], depth)))
	}
	return fmt.Sprintf("(mkScope %s %s)", vh.CoqList(bs, "(str * bind)"), vh.CoqList(ts, "(str * ty)"))
}

// ---------------------------------------------------------------- queries

type query struct {
	Line  string `json:"line"`
	Pos   int    `json:"pos"`
	Class string `json:"class"`           // word | chain | pkg | free
	Exact string `json:"exact,omitempty"` // kind of the name typed in full (exact-name sweep)
	// reference
	Typed string   `json:"typed,omitempty"`
	Want  []string `json:"want,omitempty"`
	State int      `json:"state"`
}

var contexts = []string{"", "", "", "x + ", "f(", "a[i] = ", "  ", "go ", "y := -", "if a == b && !", "{", "z.q; ", "s = \"q\" + "}
var tails = []string{"", "", "", " + 1", ")", "pha", ".Z", " ", "_x"}

func spaced(rng *vh.Rng, parts []string) string {
	// join ident . ident with optional blanks around the dots
	var sb strings.Builder
	for i, p := range parts {
		if i > 0 {
			if rng.Chance(1, 6) {
				sb.WriteString(" ")
			}
			sb.WriteString(".")
			if rng.Chance(1, 6) {
				sb.WriteString(" ")
			}
		}
		sb.WriteString(p)
	}
	return sb.String()
}

// partial returns a prefix of name (maybe whole, maybe empty if allowEmpty), or a non-matching variation
func partial(rng *vh.Rng, name string, allowEmpty bool) string {
	lo := 1
	if allowEmpty {
		lo = 0
	}
	if len(name) == 0 {
		return ""
	}
	n := lo + rng.Intn(len(name)-lo+1)
	if rng.Chance(1, 5) {
		n = len(name) // the full name: the exact match and its extensions must both be offered
	}
	p := name[:n]
	if rng.Chance(1, 10) {
		p += string("qZ_9"[rng.Intn(4)])
	}
	return p
}

func main() {
	a := vh.ParseArgs()
	rng := vh.NewRng(a.Seed)
	rep := vh.NewReport(a, "random interpreter states (imports from {strings,fmt,math,sort,strconv,errors,bytes}; 0-2 interfaces; 0-2 named non-struct types with methods; "+
		"2-6 struct types with plain/embedded/embedded-pointer/embedded-interface fields, shadowing across depths, value and pointer receiver methods; variables of those types and pointers to them; "+
		"4-13 vars/consts/funcs whose names share prefixes with keywords and builtins); per state: single-word queries (prefixes of declared names, keywords, builtins, with left context and text after the cursor), "+
		"variable chains of 1-3 selectors with optional blanks around dots ending in a (possibly empty or non-matching) partial member name, package chains, and free-form lines over {a,b,t,T,.,blank,1,_,(,+} with arbitrary cursors (also negative and past the end). "+
		"plus an exact-name sweep per state: the typed word is the FULL name of a candidate of every kind - single words: var/const/func/type/import/keyword/predeclared; variable chains: field/embedded field/method/promoted field/promoted method/interface method; "+
		"package chains: func/var/const/type of every imported package - preferring names that are proper prefixes of other candidates (the exact match must be offered together with its extensions); partial words are the whole name 1 time in 5; "+
		"imports from {strings,fmt,math,sort,strconv,errors,bytes,reflect,time,io}; the reference listing of a package is the exported functions, variables, constants and types of gomacro's import table (not the implementation's own answer for the empty prefix, which is compared with it). "+
		"Avoided input classes (proposed known findings): chains whose first word is a type name, values of types from other packages (unexported members), two promoted members of equal name at equal depth. "+
		"A case is non-trivial when it has at least one completion; distinct by SHA-256 of (state declarations, line, cursor)")
	// generous: creating an interpreter state (fast.New + imports + declarations) is slow on a loaded machine
	wd := vh.NewWatchdog(rep, 180*time.Second)
	wd.Beat("fresh interpreter: names exposed through one-letter prefixes")

	// ---- universe of a fresh interpreter, through one-letter prefixes (what the interpreter exposes)
	base := map[string]bool{}
	{
		ir := fast.New()
		for c := 0; c < 128; c++ {
			ch := byte(c)
			if ch == '_' || (ch >= 'a' && ch <= 'z') || (ch >= 'A' && ch <= 'Z') {
				_, comps, _ := ir.CompleteWords(string(ch), 1)
				for _, n := range comps {
					base[n] = true
					if !strings.HasPrefix(n, string(ch)) {
						rep.Fail(vh.Failure{Key: "base:" + string(ch), What: "completion without the typed prefix", Input: string(ch), Got: n})
					}
				}
			}
		}
		// independent sanity: Go's keywords and the classic predeclared identifiers are all there
		for tok := token.BREAK; tok <= token.VAR; tok++ {
			if !base[tok.String()] {
				rep.Fail(vh.Failure{Key: "base:keyword:" + tok.String(), What: "Go keyword not offered by a fresh interpreter", Input: tok.String()})
			}
		}
		for _, n := range []string{"true", "false", "nil", "append", "cap", "len", "make", "new", "panic", "recover", "print", "println", "copy", "delete", "close", "complex", "real", "imag",
			"bool", "byte", "rune", "string", "error", "int", "int8", "int16", "int32", "int64", "uint", "uint8", "uint16", "uint32", "uint64", "uintptr", "float32", "float64", "complex64", "complex128"} {
			if !base[n] {
				rep.Fail(vh.Failure{Key: "base:predeclared:" + n, What: "predeclared identifier not offered by a fresh interpreter", Input: n})
			}
		}
		rep.Extra["fresh_interpreter_names"] = len(base)
	}

	nStates, perState := 8, 90
	if a.Thorough() {
		nStates, perState = 60, 250
	}
	if a.N > 0 {
		perState = a.N
	}

	header := "From Coq Require Import List NArith ZArith.\nFrom Verif Require Import Common.GoStr C36.Model.\nImport ListNotations.\nOpen Scope Z_scope.\n"
	shard := 0
	writeShard := func(defs string, cases []string) {
		var sb strings.Builder
		sb.WriteString(header)
		sb.WriteString(defs)
		sb.WriteString("\nDefinition cases : list case := [\n ")
		sb.WriteString(strings.Join(cases, ";\n "))
		sb.WriteString("\n].\nDefinition verif_mismatches : list Z := Eval vm_compute in mismatches cases.\nPrint verif_mismatches.\n")
		if err := os.WriteFile(a.Path(fmt.Sprintf("cases_%03d.v", shard)), []byte(sb.String()), 0o644); err != nil {
			panic(err)
		}
		shard++
	}

	// corpus: exact (declarations, line, pos, expected completions) of past findings, run first
	type corpusCase struct {
		Key   string   `json:"key"`
		Decls []string `json:"decls"`
		Line  string   `json:"line"`
		Pos   int      `json:"pos"`
		Want  []string `json:"want"`
		Head  string   `json:"head"`
		What  string   `json:"what"`
	}
	nCorpus := 0
	if dir := os.Getenv("VERIF_DIR"); dir != "" {
		files, _ := filepath.Glob(filepath.Join(dir, "corpus", "C36", "*.json"))
		sort.Strings(files)
		for _, f := range files {
			var cc corpusCase
			b, err := os.ReadFile(f)
			if err != nil || json.Unmarshal(b, &cc) != nil {
				continue
			}
			nCorpus++
			ir := fast.New()
			ir.Comp.Globals.Stdout, ir.Comp.Globals.Stderr = io.Discard, io.Discard
			for _, d := range cc.Decls {
				if p := vh.Catch(func() { ir.Eval(d) }); p != nil {
					rep.Fail(vh.Failure{Key: cc.Key, What: "corpus declaration failed", Input: d, Got: fmt.Sprint(p)})
				}
			}
			head, comps, _ := ir.CompleteWords(cc.Line, cc.Pos)
			if comps == nil {
				comps = []string{}
			}
			if cc.Want == nil {
				cc.Want = []string{}
			}
			if strings.Join(comps, " ") != strings.Join(cc.Want, " ") || (len(comps) > 0 && head != cc.Head) {
				rep.Fail(vh.Failure{Key: cc.Key, What: cc.What, Input: cc, Got: map[string]interface{}{"head": head, "completions": comps}, Want: map[string]interface{}{"head": cc.Head, "completions": cc.Want}})
			}
			rep.Dist("corpus")
		}
	}
	rep.Extra["corpus_cases"] = nCorpus

	idx := 0
	for s := 0; s < nStates; s++ {
		wd.Beat(fmt.Sprintf("creating state %d", s))
		st := newState(rng.Fork(), s)
		wd.Beat(fmt.Sprintf("state %d declared: %v", s, st.src))
		qr := rng.Fork()
		ir := st.ir
		cv := &conv{ids: map[string]int{}, memo: map[string]string{}, inuse: map[string]bool{}, pfx: st.coqName}
		var envScopes []string
		rot := qr.Intn(1000)
		for c := ir.Comp; c != nil; c = c.Outer {
			envScopes = append(envScopes, cv.scope(c, rot, 12))
		}
		defs := strings.Join(cv.defs, "") + fmt.Sprintf("Definition %s : env := %s.\n", st.coqName, vh.CoqList(envScopes, "scope"))

		// universe for single words in this state
		uni := map[string]bool{}
		for n := range base {
			uni[n] = true
		}
		for n := range st.declared {
			uni[n] = true
		}
		uniNames := sortedKeys(uni)

		var qs []query
		addQ := func(q query) { q.State = s; qs = append(qs, q) }
		// reference listing of a package: the exported names of gomacro's import table (functions, variables,
		// constants AND types), compared once with what the implementation lists for the empty prefix
		pkgCache := map[string][]string{}
		pkgAll := func(pkg string) []string {
			if all, ok := pkgCache[pkg]; ok {
				return all
			}
			ref := sortedKeys2(pkgMemberKinds(pkg))
			_, all, _ := ir.CompleteWords(pkg+".", len(pkg)+1)
			for _, n := range all {
				if !token.IsExported(n) {
					rep.Fail(vh.Failure{Key: "pkg-unexported:" + pkg + "." + n, What: "package completion offers an unexported name", Input: pkg + ".", Got: n})
				}
			}
			if len(all) == 0 {
				rep.Fail(vh.Failure{Key: "pkg-empty:" + pkg, What: "imported package offers no names", Input: pkg + "."})
			}
			if strings.Join(all, " ") != strings.Join(ref, " ") {
				rep.Fail(vh.Failure{Key: "pkg-listing:" + pkg, What: "names listed for 'pkg.' differ from the exported functions, variables, constants and types of the import table",
					Input: map[string]interface{}{"decls": st.src, "line": pkg + ".", "pos": len(pkg) + 1}, Got: all, Want: ref})
			}
			pkgCache[pkg] = ref
			return ref
		}
		for k := 0; k < perState; k++ {
			ctx := contexts[qr.Intn(len(contexts))]
			tail := tails[qr.Intn(len(tails))]
			switch x := qr.Intn(20); {
			case x < 7: // single word
				name := uniNames[qr.Intn(len(uniNames))]
				if qr.Chance(1, 2) {
					dn := sortedKeys(st.declared)
					name = dn[qr.Intn(len(dn))]
				}
				p := partial(qr, name, false)
				if p == "" || (p[0] >= '0' && p[0] <= '9') {
					continue
				}
				addQ(query{Line: ctx + p + tail, Pos: len(ctx) + len(p), Class: "word", Typed: p, Want: filterPrefix(uniNames, p)})
			case x < 14 && len(st.vars) > 0: // variable chain
				v := st.vars[qr.Intn(len(st.vars))]
				parts := []string{v.Name}
				cur := tref{v.Struct, v.Iface, v.Named}
				for steps := qr.Intn(3); steps > 0 && cur.Struct >= 0; steps-- {
					ft := st.structFieldTypes(cur.Struct)
					var names []string
					for n := range ft {
						names = append(names, n)
					}
					sort.Strings(names)
					if len(names) == 0 {
						break
					}
					n := names[qr.Intn(len(names))]
					parts = append(parts, n)
					cur = ft[n]
				}
				mem := sortedKeys(st.members(cur))
				p := ""
				if len(mem) > 0 && qr.Chance(3, 4) {
					p = partial(qr, mem[qr.Intn(len(mem))], true)
				} else if qr.Chance(1, 3) {
					p = "q"
				}
				if len(p) > 0 && p[0] >= '0' && p[0] <= '9' {
					continue
				}
				parts = append(parts, p)
				chain := spaced(qr, parts)
				addQ(query{Line: ctx + chain + tail, Pos: len(ctx) + len(chain), Class: "chain", Typed: p, Want: filterPrefix(mem, p)})
			case x < 17 && len(st.imports) > 0: // package chain
				pkg := st.imports[qr.Intn(len(st.imports))]
				all := pkgAll(pkg)
				p := ""
				if len(all) > 0 {
					p = partial(qr, all[qr.Intn(len(all))], true)
				}
				addQ(query{Line: ctx + pkg + "." + p + tail, Pos: len(ctx) + len(pkg) + 1 + len(p), Class: "pkg", Typed: p, Want: filterPrefix(all, p)})
			default: // free form: correspondence + generic predicates only
				n := qr.Intn(12)
				var sb strings.Builder
				alpha := []string{"a", "b", "t", "T", ".", " ", "1", "_", "(", "+", "fo", "In", "\t"}
				for _, v := range st.vars {
					alpha = append(alpha, v.Name)
				}
				for _, d := range st.structs {
					alpha = append(alpha, d.Name, ".")
				}
				for _, im := range st.imports {
					alpha = append(alpha, im)
				}
				for i := 0; i < n; i++ {
					sb.WriteString(alpha[qr.Intn(len(alpha))])
				}
				line := sb.String()
				pos := qr.Intn(len(line)+4) - 1
				addQ(query{Line: line, Pos: pos, Class: "free"})
			}
		}

		// ---- exact-name sweep: for every member kind of every class the typed word is the FULL name
		for _, kn := range exactNames(qr, wordKinds(st, base), 2) {
			ctx, tail := contexts[qr.Intn(len(contexts))], tails[qr.Intn(len(tails))]
			if strings.HasPrefix(tail, "pha") || strings.HasPrefix(tail, "_x") {
				tail = "" // (text glued after the cursor is fine for CompleteWords, but keep the typed word a whole word here)
			}
			addQ(query{Line: ctx + kn[1] + tail, Pos: len(ctx) + len(kn[1]), Class: "word", Exact: kn[0], Typed: kn[1], Want: filterPrefix(uniNames, kn[1])})
		}
		for vi, v := range st.vars {
			if vi >= 4 && !a.Thorough() {
				break
			}
			cur := tref{v.Struct, v.Iface, v.Named}
			mem := sortedKeys(st.members(cur))
			for _, kn := range exactNames(qr, st.memberKinds(cur), 1) {
				chain := spaced(qr, []string{v.Name, kn[1]})
				ctx := contexts[qr.Intn(len(contexts))]
				addQ(query{Line: ctx + chain, Pos: len(ctx) + len(chain), Class: "chain", Exact: kn[0], Typed: kn[1], Want: filterPrefix(mem, kn[1])})
			}
		}
		for _, pkg := range st.imports {
			all := pkgAll(pkg)
			for _, kn := range exactNames(qr, pkgMemberKinds(pkg), 2) {
				ctx, tail := contexts[qr.Intn(len(contexts))], []string{"", "", "(", " + 1", "{}"}[qr.Intn(5)]
				addQ(query{Line: ctx + pkg + "." + kn[1] + tail, Pos: len(ctx) + len(pkg) + 1 + len(kn[1]), Class: "pkg", Exact: kn[0], Typed: kn[1], Want: filterPrefix(all, kn[1])})
			}
		}

		var cases []string
		for _, q := range qs {
			wd.Beat(q)
			var head, tail string
			var comps []string
			if p := vh.Catch(func() { head, comps, tail = ir.CompleteWords(q.Line, q.Pos) }); p != nil {
				rep.Fail(vh.Failure{Key: fmt.Sprintf("panic:%q@%d", q.Line, q.Pos), What: "CompleteWords panicked", Input: map[string]interface{}{"decls": st.src, "query": q}, Got: fmt.Sprint(p)})
				continue
			}
			fail := func(what string, got, want interface{}) {
				rep.Fail(vh.Failure{Key: fmt.Sprintf("%s:%q@%d:%s", q.Class, q.Line, q.Pos, strings.Join(st.src, ";")), What: what,
					Input: map[string]interface{}{"decls": st.src, "line": q.Line, "pos": q.Pos, "class": q.Class}, Got: got, Want: want})
			}
			// ---- generic predicates (every class)
			for i := 1; i < len(comps); i++ {
				if !(comps[i-1] < comps[i]) {
					fail("completions not strictly sorted (sorted and duplicate-free)", comps, nil)
					break
				}
			}
			if q.Pos >= 0 {
				cut := q.Pos
				if cut > len(q.Line) {
					cut = len(q.Line)
				}
				if tail != q.Line[cut:] {
					fail("tail is not the text after the cursor", tail, q.Line[cut:])
				}
				if !strings.HasPrefix(q.Line[:cut], head) {
					fail("head is not a prefix of the text before the cursor", head, q.Line[:cut])
				}
			}
			// ---- reference (classes inside the property's input class)
			if q.Class != "free" {
				if comps == nil {
					comps = []string{}
				}
				if strings.Join(comps, "\x00") != strings.Join(q.Want, "\x00") {
					fail("completions differ from the reference {n in candidates | HasPrefix(n, typed)}", comps, q.Want)
				}
				if len(comps) > 0 {
					if head+q.Typed != q.Line[:q.Pos] {
						fail("head + typed prefix is not the text before the cursor", head, q.Line[:q.Pos-len(q.Typed)])
					}
					for _, c := range comps {
						if !strings.HasPrefix(c, q.Typed) || head+c+tail != q.Line[:q.Pos-len(q.Typed)]+c+q.Line[q.Pos:] {
							fail("head+completion+tail is not the line with the typed prefix replaced", head+c+tail, nil)
							break
						}
					}
				}
			}
			var cc []string
			for _, c := range comps {
				cc = append(cc, vh.CoqStr(c))
			}
			cases = append(cases, fmt.Sprintf("mkCase %d %s %s %s %s %s %s", idx, st.coqName, vh.CoqStr(q.Line), vh.CoqZ(int64(q.Pos)),
				vh.CoqStr(head), vh.CoqList(cc, "str"), vh.CoqStr(tail)))
			rep.CaseInput(idx, map[string]interface{}{"decls": st.src, "line": q.Line, "pos": q.Pos, "class": q.Class, "head": head, "completions": comps, "tail": tail})
			rep.Count(strings.Join(st.src, ";")+"\x00"+q.Line+"\x00"+fmt.Sprint(q.Pos), len(comps) > 0)
			rep.Dist("class:" + q.Class)
			if q.Exact != "" {
				rep.Dist("exact-name:" + q.Class + ":" + q.Exact)
			}
			switch {
			case len(comps) == 0:
				rep.Dist("completions:0")
			case len(comps) == 1:
				rep.Dist("completions:1")
			case len(comps) < 10:
				rep.Dist("completions:2-9")
			default:
				rep.Dist("completions:10+")
			}
			if idx%131 == 7 {
				rep.Sample(map[string]interface{}{"line": q.Line, "pos": q.Pos, "head": head, "completions": comps, "tail": tail})
			}
			idx++
		}
		rep.Dist(fmt.Sprintf("state:structs=%d", len(st.structs)))
		rep.Dist(fmt.Sprintf("state:imports=%d", len(st.imports)))
		if len(cases) > 0 {
			writeShard(defs, cases)
		}
	}
	rep.Extra["states"] = nStates
	rep.Write()
}

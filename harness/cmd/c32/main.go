// c32: direct oracle + correspondence for base/untyped/val.go (Marshal, Unmarshal, unmarshalFloat).
//
// Streams:
//
//	A  constants (enumerated edge values, corpus, PRNG): s := Marshal(k, v) on the real code; (k2, v2) := Unmarshal(s);
//	   direct oracle: k2 == k and v2 is EXACTLY v (big.Int / big.Rat / big.Float comparison of the exact values, plus
//	   constant.Compare; strings by bytes).  Correspondence: model marshal(k, abs v) == s byte for byte, and model
//	   unmarshal(s) == abs(k2, v2) (representation included: ratVal / floatVal, mantissa, exponent).
//	B  texts of the real import tables ($VERIF_REPO/imports/**.go, `Untypeds: map[string]string{...}`): oracle
//	   Marshal(Unmarshal(t)) == t; correspondence as above.
//	C  hand-written and mutated texts (other literal syntaxes, division by zero, overflow...): correspondence only,
//	   the model may answer "not modelled" (counted).
package main

import (
	"encoding/json"
	"fmt"
	"go/ast"
	"go/constant"
	"go/parser"
	"go/token"
	"math"
	"math/big"
	"os"
	"path/filepath"
	"sort"
	"strconv"
	"strings"
	"time"

	"github.com/cosmos72/gomacro/base/untyped"
	"verifh/vh"
)

// ---------- Coq rendering ----------
var limbMod = new(big.Int).Lsh(big.NewInt(1), 256)

func limbs(x *big.Int) string {
	x = new(big.Int).Abs(x)
	var parts []string
	for x.Sign() > 0 {
		q, r := new(big.Int).QuoRem(x, limbMod, new(big.Int))
		parts = append([]string{r.String()}, parts...)
		x = q
	}
	return "[" + strings.Join(parts, ";") + "]%N"
}
func coqBigZ(x *big.Int) string {
	if x.BitLen() > 256 {
		return "(zl " + vh.CoqBool(x.Sign() < 0) + " " + limbs(x) + ")"
	}
	if x.Sign() < 0 {
		return "(" + x.String() + ")%Z"
	}
	return x.String() + "%Z"
}
func coqPos(x *big.Int) string {
	if x.BitLen() > 256 {
		return "(pl " + limbs(x) + ")"
	}
	return x.String() + "%positive"
}

// coqStr: short strings as list literals, long ones as 31-byte limbs under a leading 1 sentinel (see Model.sl)
func coqStr(s string) string {
	if len(s) <= 48 {
		return vh.CoqStr(s)
	}
	var parts []string
	for i := 0; i < len(s); i += 31 {
		j := i + 31
		if j > len(s) {
			j = len(s)
		}
		b := append([]byte{1}, s[i:j]...)
		parts = append(parts, new(big.Int).SetBytes(b).String())
	}
	return "(sl [" + strings.Join(parts, ";") + "]%N)"
}

func coqKind(k untyped.Kind) string {
	switch k {
	case untyped.None:
		return "KNone"
	case untyped.Bool:
		return "KBool"
	case untyped.Int:
		return "KInt"
	case untyped.Rune:
		return "KRune"
	case untyped.Float:
		return "KFloat"
	case untyped.Complex:
		return "KComplex"
	case untyped.String:
		return "KString"
	}
	return "KNone"
}

// abstraction of a numeric constant.Value used as a Float: int64Val/intVal/ratVal -> FRat, floatVal -> FBig/FBig0
func coqFval(v constant.Value) (string, bool) {
	switch x := constant.Val(v).(type) {
	case int64:
		return "(FRat " + coqBigZ(big.NewInt(x)) + " 1%positive)", true
	case *big.Int:
		return "(FRat " + coqBigZ(x) + " 1%positive)", true
	case *big.Rat:
		return "(FRat " + coqBigZ(x.Num()) + " " + coqPos(x.Denom()) + ")", true
	case *big.Float:
		if x.Sign() == 0 {
			return "FBig0", true
		}
		if x.IsInf() {
			return "", false
		}
		mant := new(big.Float)
		exp := x.MantExp(mant)
		p := int(x.MinPrec())
		mant.SetMantExp(mant, p)
		m, acc := mant.Int(nil)
		if acc != big.Exact {
			return "", false
		}
		neg := m.Sign() < 0
		m.Abs(m)
		return fmt.Sprintf("(FBig %s %s %s)", vh.CoqBool(neg), coqPos(m), vh.CoqZ(int64(exp-p))), true
	}
	return "", false
}

// abstraction of (kind, value) into the model's `value`; ok=false when the pair is outside the model's domain
func coqValue(k untyped.Kind, v constant.Value) (string, bool) {
	if v == nil {
		return "VNil", true
	}
	if v.Kind() == constant.Unknown {
		return "VUnknown", true
	}
	switch k {
	case untyped.None:
		return "VNil", true
	case untyped.Bool:
		if v.Kind() == constant.Bool {
			return "(VBool " + vh.CoqBool(constant.BoolVal(v)) + ")", true
		}
	case untyped.Int, untyped.Rune:
		switch x := constant.Val(v).(type) {
		case int64:
			return "(VInt " + coqBigZ(big.NewInt(x)) + ")", true
		case *big.Int:
			return "(VInt " + coqBigZ(x) + ")", true
		}
	case untyped.Float:
		if s, ok := coqFval(v); ok {
			return "(VFloat " + s + ")", true
		}
	case untyped.Complex:
		re, ok1 := coqFval(constant.Real(v))
		im, ok2 := coqFval(constant.Imag(v))
		if ok1 && ok2 {
			return "(VComplex " + re + " " + im + ")", true
		}
	case untyped.String:
		if v.Kind() == constant.String {
			return "(VString " + coqStr(constant.StringVal(v)) + ")", true
		}
	}
	return "", false
}

// ---------- exact comparison (the direct oracle) ----------
// exact value of a numeric constant: *big.Rat when the binary exponent is moderate, else *big.Float (exact, own precision)
func exactNum(v constant.Value) interface{} {
	switch x := constant.Val(v).(type) {
	case int64:
		return new(big.Rat).SetInt64(x)
	case *big.Int:
		return new(big.Rat).SetInt(x)
	case *big.Rat:
		return x
	case *big.Float:
		if x.IsInf() {
			return nil
		}
		if e := x.MantExp(nil); e > -70000 && e < 70000 {
			r, _ := x.Rat(nil)
			return r
		}
		return x
	}
	return nil
}

func exactNumEq(a, b constant.Value) bool {
	x, y := exactNum(a), exactNum(b)
	switch x := x.(type) {
	case *big.Rat:
		if y, ok := y.(*big.Rat); ok {
			return x.Cmp(y) == 0
		}
	case *big.Float:
		if y, ok := y.(*big.Float); ok {
			return x.Cmp(y) == 0
		}
	}
	return false
}

func exactEq(k untyped.Kind, a, b constant.Value) bool {
	if k == untyped.None {
		return a == nil && b == nil
	}
	if a == nil || b == nil || a.Kind() == constant.Unknown || b.Kind() == constant.Unknown {
		return false
	}
	switch k {
	case untyped.Bool:
		return a.Kind() == constant.Bool && b.Kind() == constant.Bool && constant.BoolVal(a) == constant.BoolVal(b)
	case untyped.String:
		return a.Kind() == constant.String && b.Kind() == constant.String && constant.StringVal(a) == constant.StringVal(b)
	case untyped.Int, untyped.Rune:
		return a.Kind() == constant.Int && b.Kind() == constant.Int && exactNumEq(a, b) && constant.Compare(a, token.EQL, b)
	case untyped.Float:
		return exactNumEq(a, b) && constant.Compare(a, token.EQL, b)
	case untyped.Complex:
		return exactNumEq(constant.Real(a), constant.Real(b)) && exactNumEq(constant.Imag(a), constant.Imag(b)) &&
			constant.Compare(a, token.EQL, b)
	}
	return false
}

// ---------- test values ----------
type tv struct {
	Name string
	K    untyped.Kind
	V    constant.Value
	Key  string // non-empty: exact input of a recorded finding
}

func flit(s string) constant.Value { return constant.MakeFromLiteral(s, token.FLOAT, 0) }
func ilit(s string) constant.Value { return constant.MakeFromLiteral(s, token.INT, 0) }
func op(x constant.Value, t token.Token, y constant.Value) constant.Value {
	return constant.BinaryOp(x, t, y)
}
func neg(x constant.Value) constant.Value { return constant.UnaryOp(token.SUB, x, 0) }

// expandLit: "1.0{2000}1" -> "1." + 2000 zeros + "1" (compact spelling of long literals in corpus files)
func expandLit(s string) string {
	for {
		i := strings.IndexByte(s, '{')
		if i <= 0 {
			return s
		}
		j := strings.IndexByte(s[i:], '}')
		if j < 0 {
			return s
		}
		n, err := strconv.Atoi(s[i+1 : i+j])
		if err != nil {
			return s
		}
		s = s[:i-1] + strings.Repeat(s[i-1:i], n) + s[i+j+1:]
	}
}

type corpusEntry struct {
	Name  string `json:"name"`
	Kind  string `json:"kind"`  // float int rune string complex
	Build string `json:"build"` // lit | intfloat (ToFloat of an integer expression 2^a-b)
	Arg   string `json:"arg"`
	Imag  string `json:"imag,omitempty"`
	Key   string `json:"finding_key,omitempty"`
}

func pow2minus(arg string) constant.Value {
	// "a-b": 2^a - b
	var a, b int64
	fmt.Sscanf(arg, "%d-%d", &a, &b)
	x := constant.Shift(constant.MakeInt64(1), token.SHL, uint(a))
	return op(x, token.SUB, constant.MakeInt64(b))
}

func (c corpusEntry) value() (tv, bool) {
	t := tv{Name: "corpus:" + c.Name, Key: c.Key}
	switch c.Kind {
	case "float":
		t.K = untyped.Float
		switch c.Build {
		case "lit":
			t.V = flit(expandLit(c.Arg))
		case "intfloat":
			t.V = constant.ToFloat(pow2minus(c.Arg))
		}
	case "int":
		t.K, t.V = untyped.Int, ilit(expandLit(c.Arg))
	case "rune":
		t.K, t.V = untyped.Rune, ilit(expandLit(c.Arg))
	case "string":
		t.K, t.V = untyped.String, constant.MakeString(c.Arg)
	case "complex":
		t.K = untyped.Complex
		t.V = op(constant.ToComplex(flit(expandLit(c.Arg))), token.ADD, constant.MakeImag(flit(expandLit(c.Imag))))
	}
	return t, t.V != nil && t.V.Kind() != constant.Unknown
}

func edgeValues() []tv {
	F, I, R, C, S := untyped.Float, untyped.Int, untyped.Rune, untyped.Complex, untyped.String
	var negzero float64
	negzero = -negzero
	third := op(flit("1"), token.QUO, flit("3"))
	p4096 := third
	for i := 0; i < 12; i++ {
		p4096 = op(p4096, token.MUL, p4096)
	}
	big1300 := flit("1e1300")
	all := make([]byte, 256)
	for i := range all {
		all[i] = byte(i)
	}
	vs := []tv{
		{"nil", untyped.None, nil, ""},
		{"nil-with-value", untyped.None, constant.MakeInt64(3), ""},
		{"true", untyped.Bool, constant.MakeBool(true), ""},
		{"false", untyped.Bool, constant.MakeBool(false), ""},
		{"int 0", I, constant.MakeInt64(0), ""},
		{"int -1", I, constant.MakeInt64(-1), ""},
		{"int MaxInt64", I, constant.MakeInt64(math.MaxInt64), ""},
		{"int MinInt64", I, constant.MakeInt64(math.MinInt64), ""},
		{"int MinInt64-1", I, op(constant.MakeInt64(math.MinInt64), token.SUB, constant.MakeInt64(1)), ""},
		{"int MaxUint64", I, constant.MakeUint64(math.MaxUint64), ""},
		{"int MaxUint64+1", I, ilit("18446744073709551616"), ""},
		{"int 10^40", I, ilit("1" + strings.Repeat("0", 40)), ""},
		{"int -10^40", I, neg(ilit("1" + strings.Repeat("0", 40))), ""},
		{"int 1<<5000", I, constant.Shift(constant.MakeInt64(1), token.SHL, 5000), ""},
		{"int 10^1000", I, ilit("1" + strings.Repeat("0", 1000)), ""},
		{"rune 0", R, constant.MakeInt64(0), ""},
		{"rune a", R, constant.MakeInt64('a'), ""},
		{"rune max", R, constant.MakeInt64(0x10FFFF), ""},
		{"rune -1", R, constant.MakeInt64(-1), ""},
		{"rune huge", R, ilit("1" + strings.Repeat("0", 30)), ""},
		{"float 0", F, flit("0.0"), ""},
		{"float -0.0 (MakeFloat64)", F, constant.MakeFloat64(negzero), ""},
		{"float -(0.0)", F, neg(flit("0.0")), ""},
		{"float 0 as int64Val", F, constant.MakeInt64(0), ""},
		{"float 3 as int64Val", F, constant.MakeInt64(3), ""},
		{"float intVal", F, ilit("1" + strings.Repeat("0", 40)), ""},
		{"float floatVal zero", F, op(big1300, token.SUB, big1300), ""},
		{"float 1.5", F, flit("1.5"), ""},
		{"float -2.75", F, flit("-2.75"), ""},
		{"float 1/3", F, third, ""},
		{"float -1/3", F, neg(third), ""},
		{"float 22/7", F, op(flit("22"), token.QUO, flit("7")), ""},
		{"float 0.1", F, flit("0.1"), ""},
		{"float 1e1000", F, flit("1e1000"), ""},
		{"float -1e1000", F, flit("-1e1000"), ""},
		{"float 1e-1000", F, flit("1e-1000"), ""},
		{"float 1e1233", F, flit("1e1233"), ""},
		{"float 1e1234", F, flit("1e1234"), ""},
		{"float 1e-1234", F, flit("1e-1234"), ""},
		{"float 1e1300", F, big1300, ""},
		{"float -1e1300", F, neg(big1300), ""},
		{"float 1e-1300", F, flit("1e-1300"), ""},
		{"float 1e100000", F, flit("1e100000"), ""},
		{"float 1e-100000", F, flit("1e-100000"), ""},
		{"float 1e1300/3e1299 (floatVal, small exponent)", F, op(big1300, token.QUO, flit("3e1299")), ""},
		{"float 2^-1 as floatVal", F, op(big1300, token.QUO, flit("2e1300")), ""},
		{"float (1/3)^4096", F, p4096, ""},
		{"float 2^4094-1", F, constant.ToFloat(pow2minus("4094-1")), ""},
		{"float 2^4095 (floatVal)", F, constant.ToFloat(pow2minus("4095-0")), ""},
		{"float 2^6000 (intVal -> floatVal)", F, constant.ToFloat(pow2minus("6000-0")), ""},
		{"float 0x1p-1074", F, flit("0x1p-1074"), ""},
		{"float 0x1p-4095", F, flit("0x1p-4095"), ""},
		{"float 0x1p-4096", F, flit("0x1p-4096"), ""},
		{"float 0x1p-4097", F, flit("0x1p-4097"), ""},
		{"float 0x1p+4094", F, flit("0x1p+4094"), ""},
		{"float 0x1p+4095", F, flit("0x1p+4095"), ""},
		{"float 0x1p+4096", F, flit("0x1p+4096"), ""},
		{"float MaxFloat64", F, constant.MakeFloat64(math.MaxFloat64), ""},
		{"float SmallestNonzeroFloat64", F, constant.MakeFloat64(math.SmallestNonzeroFloat64), ""},
		{"float pi", F, flit("3.14159265358979323846264338327950288419716939937510582097494459"), ""},
		{"float 0x.8p+2147483647", F, flit("0x.8p+2147483647"), ""},
		{"float 0x.8p-2147483648", F, flit("0x.8p-2147483648"), ""},
		{"float 0x.ffp+10", F, op(flit("0x.ffp+5010"), token.QUO, flit("0x1p+5000")), ""},
		{"complex 0", C, constant.ToComplex(constant.MakeInt64(0)), ""},
		{"complex int64Val", C, constant.MakeInt64(7), ""},
		{"complex i", C, constant.MakeImag(constant.MakeInt64(1)), ""},
		{"complex 1.5+1e1300i", C, op(constant.ToComplex(flit("1.5")), token.ADD, constant.MakeImag(big1300)), ""},
		{"complex -1/3-22/7i", C, op(constant.ToComplex(neg(third)), token.SUB, constant.MakeImag(op(flit("22"), token.QUO, flit("7")))), ""},
		{"complex 1e-1300+0i", C, constant.ToComplex(flit("1e-1300")), ""},
		{"complex floatVal0 parts", C, op(constant.ToComplex(op(big1300, token.SUB, big1300)), token.ADD, constant.MakeImag(third)), ""},
		{"string empty", S, constant.MakeString(""), ""},
		{"string :", S, constant.MakeString(":"), ""},
		{"string a:b:c", S, constant.MakeString("a:b:c"), ""},
		{"string :::", S, constant.MakeString(":::"), ""},
		{"string bytes", S, constant.MakeString("a:b\xff\x00:c"), ""},
		{"string utf8", S, constant.MakeString("h\u00e9llo:\u4e16\u754c:\U0001F600"), ""},
		{"string looks like float", S, constant.MakeString("float:1/3"), ""},
		{"string string:", S, constant.MakeString("string:"), ""},
		{"string newline quote", S, constant.MakeString("a\n\"b\"\\:\t"), ""},
		{"string all bytes", S, constant.MakeString(string(all)), ""},
		{"string concat (lazy stringVal)", S, op(constant.MakeString("x:"), token.ADD, constant.MakeString(":y")), ""},
	}
	return vs
}

func randBig(r *vh.Rng, bits int) *big.Int {
	if bits <= 0 {
		return new(big.Int)
	}
	x := new(big.Int)
	for x.BitLen() < bits {
		x.Lsh(x, 64)
		x.Or(x, new(big.Int).SetUint64(r.U64()))
	}
	x.Rsh(x, uint(x.BitLen()-bits))
	return x
}

func randBits(r *vh.Rng) int {
	switch r.Intn(10) {
	case 0:
		return r.Intn(8)
	case 1, 2, 3:
		return 1 + r.Intn(64)
	case 4, 5, 6:
		return 60 + r.Intn(200)
	case 7, 8:
		return 200 + r.Intn(400)
	}
	if r.Intn(4) == 0 {
		return 1000 + r.Intn(3000)
	}
	return 300 + r.Intn(700)
}

func randInt(r *vh.Rng) constant.Value {
	x := randBig(r, randBits(r))
	if r.Bool() {
		x.Neg(x)
	}
	return constant.Make(x)
}

func randDigits(r *vh.Rng, n int) string {
	b := make([]byte, n)
	for i := range b {
		b[i] = byte('0' + r.Intn(10))
	}
	if b[0] == '0' {
		b[0] = '7'
	}
	return string(b)
}

// random Float constant; the class of the recorded findings (a ratVal with a component of 4095 bits or more,
// which only a literal with > 1232 significant digits produces) is not generated
func randFloat(r *vh.Rng) (constant.Value, string) {
	sign := ""
	if r.Bool() {
		sign = "-"
	}
	switch r.Intn(9) {
	case 0: // rational from two integers (ratVal, non-dyadic most of the time)
		n := randBig(r, 1+randBits(r)%1500)
		d := randBig(r, 1+randBits(r)%1500)
		if d.Sign() == 0 {
			d.SetInt64(3)
		}
		if sign != "" {
			n.Neg(n)
		}
		return op(constant.ToFloat(constant.Make(n)), token.QUO, constant.ToFloat(constant.Make(d))), "rat"
	case 1: // float64 bit pattern
		for {
			f := math.Float64frombits(r.U64())
			if !math.IsNaN(f) && !math.IsInf(f, 0) {
				return constant.MakeFloat64(f), "float64"
			}
		}
	case 2: // decimal literal, moderate exponent (ratVal)
		return flit(fmt.Sprintf("%s%s.%se%d", sign, randDigits(r, 1+r.Intn(20)), randDigits(r, 1+r.Intn(40)), r.Intn(2400)-1200)), "declit"
	case 3: // decimal literal, large exponent (floatVal, 512-bit mantissa)
		e := 1300 + r.Intn(200000)
		if r.Bool() {
			e = -e
		}
		return flit(fmt.Sprintf("%s%s.%se%d", sign, randDigits(r, 1), randDigits(r, 1+r.Intn(40)), e)), "biglit"
	case 4: // hex literal with few mantissa bits and any exponent (floatVal with short mantissa / dyadic ratVal)
		e := r.Intn(12000) - 6000
		return flit(fmt.Sprintf("%s0x%xp%d", sign, r.U64()>>uint(r.Intn(64)), e)), "hexlit"
	case 5: // product / quotient of floatVals
		a, _ := randFloat(r)
		b := flit(fmt.Sprintf("%s.%se%d", randDigits(r, 1), randDigits(r, 10), 1300+r.Intn(3000)))
		if r.Bool() {
			return op(a, token.MUL, b), "floatop"
		}
		if constant.Sign(a) == 0 {
			return b, "floatop"
		}
		return op(b, token.QUO, a), "floatop"
	case 6: // integer valued
		return constant.ToFloat(randInt(r)), "intfloat"
	case 7: // power of a small rational: components grow past 4096 bits and the value becomes a floatVal
		x := op(flit(strconv.Itoa(1+r.Intn(50))), token.QUO, flit(strconv.Itoa(1+r.Intn(50))))
		for i, n := 0, r.Intn(13); i < n; i++ {
			x = op(x, token.MUL, x)
		}
		return x, "ratpow"
	}
	// floatVal with a small exponent
	a := flit(fmt.Sprintf("%s.%se%d", randDigits(r, 1), randDigits(r, 10), 1300+r.Intn(100)))
	b := flit(fmt.Sprintf("%s%s.%se%d", sign, randDigits(r, 1), randDigits(r, 10), 1300+r.Intn(100)))
	return op(a, token.QUO, b), "floatval-small"
}

func randString(r *vh.Rng) string {
	n := r.Intn(24)
	b := make([]byte, n)
	for i := range b {
		switch r.Intn(6) {
		case 0:
			b[i] = ':'
		case 1:
			b[i] = byte(r.Intn(256))
		case 2:
			b[i] = "/.-+0x p\x00\xff\n"[r.Intn(11)]
		default:
			b[i] = byte('a' + r.Intn(26))
		}
	}
	return string(b)
}

// compLimit = 2^4095 - 2^3582: a decimal integer literal below it stays an exact ratVal in MakeFromLiteral(FLOAT)
// (its 512-bit rounding is below 2^4095), one at or above it becomes a rounded 512-bit floatVal
var compLimit = new(big.Int).Sub(new(big.Int).Lsh(big.NewInt(1), 4095), new(big.Int).Lsh(big.NewInt(1), 3582))

// the class of the recorded findings: a ratVal with |numerator| or denominator >= compLimit
// (kept out of the random stream; go/constant builds such a ratVal only from a literal)
func inFindingClass(v constant.Value) bool {
	chk := func(x constant.Value) bool {
		if r, ok := constant.Val(x).(*big.Rat); ok {
			return new(big.Int).Abs(r.Num()).Cmp(compLimit) >= 0 || r.Denom().Cmp(compLimit) >= 0
		}
		return false
	}
	if v == nil {
		return false
	}
	if v.Kind() == constant.Complex {
		return chk(constant.Real(v)) || chk(constant.Imag(v))
	}
	return chk(v)
}

// ---------- import tables ----------
func importTexts(repo string) []string {
	seen := map[string]bool{}
	var out []string
	filepath.Walk(filepath.Join(repo, "imports"), func(path string, info os.FileInfo, err error) error {
		if err != nil || info.IsDir() || !strings.HasSuffix(path, ".go") {
			return nil
		}
		src, err := os.ReadFile(path)
		if err != nil || !strings.Contains(string(src), "Untypeds") {
			return nil
		}
		f, err := parser.ParseFile(token.NewFileSet(), path, src, 0)
		if err != nil {
			return nil
		}
		ast.Inspect(f, func(n ast.Node) bool {
			kv, ok := n.(*ast.KeyValueExpr)
			if !ok {
				return true
			}
			id, ok := kv.Key.(*ast.Ident)
			if !ok || id.Name != "Untypeds" {
				return true
			}
			cl, ok := kv.Value.(*ast.CompositeLit)
			if !ok {
				return true
			}
			for _, e := range cl.Elts {
				if ekv, ok := e.(*ast.KeyValueExpr); ok {
					if bl, ok := ekv.Value.(*ast.BasicLit); ok && bl.Kind == token.STRING {
						if s, err := strconv.Unquote(bl.Value); err == nil && !seen[s] {
							seen[s] = true
							out = append(out, s)
						}
					}
				}
			}
			return false
		})
		return nil
	})
	sort.Strings(out)
	return out
}

// ---------- hand-written texts for Unmarshal (stream C) ----------
var handTexts = []string{
	"", ":", "nil", "nil:xyz", "xyz", "xyz:1", "bool", "bool:", "bool:true", "bool:false", "bool:True", "bool:true:", "bool:1",
	"int", "int:", "int:0", "int:-0", "int:+7", "int:-", "int:+", "int:+-5", "int:007", "int:017", "int:08", "int:0x1F", "int:0X1f", "int:0x",
	"int:0xg", "int:0b101", "int:0B1", "int:0b102", "int:0b", "int:0o17", "int:0O7", "int:0o8", "int:-0x10", "int:1_000", "int:0x_1",
	"int: 5", "int:5 ", "int:5:6", "int:1e3", "int:1.0", "int:abc", "int:-9223372036854775808", "int:9223372036854775808",
	"int:0x8000000000000000", "int:0xffffffffffffffffffffffff", "int:077777777777777777777777777777", "rune:97", "rune:0x61", "rune:-1", "rune:", "rune",
	"float", "float:", "float:0", "float:-0", "float:+5", "float:007", "float:1/3", "float:-1/3", "float:1/-3", "float:+1/+3", "float:2/6", "float:-6/-4",
	"float:1/0", "float:0/0", "float:0/5", "float:1/2/3", "float:/", "float:1/", "float:/2", "float:1.5", "float:1e3", "float:1e-3", "float:.5", "float:0x10",
	"float:0x1p4", "float:0x.8p+1", "float:-0x.8p+1", "float:0x.8p1", "float:0x.8p-1", "float:0x.8P+1", "float:0X.8p+1", "float:0x.fFp+8", "float:0x.p+1",
	"float:0x.8p", "float:0x.8p+", "float:0x.8", "float:0x.8p+-1", "float:0x.8p+1x", "float:0x.0p+5", "float:0x.00p+99999999999999999999", "float:0x.8p+4095", "float:0x.8p+4096",
	"float:0x.8p+4097", "float:0x.8p-4094", "float:0x.8p-4095", "float:0x.8p-4096", "float:0x.8p+5000", "float:0x.8p-5000", "float:0x.08p+5000", "float:0x.10p+5000",
	"float:0x.8p+2147483647", "float:0x.8p+2147483648", "float:0x.8p-2147483648", "float:0x.8p-2147483649", "float:0x.08p+2147483650", "float:0x.8p+99999999999999999999",
	"float:0x.8p+9223372036854775807", "float:0x.8p-9223372036854775808", "float:0x.8p+9223372036854775808",
	"float:0x." + strings.Repeat("f", 128) + "p+0", "float:0x." + strings.Repeat("f", 128) + "8p+0", "float:0x." + strings.Repeat("f", 127) + "e8p+0",
	"float:0x." + strings.Repeat("f", 127) + "e80001p+0", "float:0x." + strings.Repeat("f", 127) + "d8p+6000", "float:0x." + strings.Repeat("f", 129) + "p+6000",
	"float:0x." + strings.Repeat("f", 129) + "p+4095", "float:0x." + strings.Repeat("f", 129) + "p+2147483647", "float:0x.8" + strings.Repeat("0", 128) + "1p+7000",
	"float:0x.8p+5000/3", "float:0x.8p+5000/0x.8p+4990", "float:1/0x.8p+5000", "float:0/0x.8p+5000", "float:0x.8p+5000/0", "float:0x.8p+5/0x.8p+3", "float:0x.cp+5000/0x.ap-5000",
	"float:0x.8p+2147483647/0x.8p-2147483648", "float:0x.8p-2147483648/0x.8p+2147483647", "float:7/0x.8p+5",
	"float:" + strings.Repeat("9", 1233), "float:" + strings.Repeat("9", 1234), "float:1/" + strings.Repeat("9", 1234), "float:" + strings.Repeat("9", 1300) + "/7",
	"float:" + strings.Repeat("9", 700) + "/" + strings.Repeat("3", 700), "float:3/" + strings.Repeat("9", 1300), "float:" + strings.Repeat("1", 1300) + "/" + strings.Repeat("7", 1300),
	"complex", "complex:", "complex:1", "complex:1:2", "complex:1:2:3", "complex:1/3:-2/7", "complex:1/0:1", "complex:1:1/0", "complex::", "complex:1:", "complex::1",
	"complex:0x.8p+5000:0x.8p-5000", "complex:0x.8p+5000", "complex:x:1", "complex:1/0", "complex:" + strings.Repeat("9", 1300) + ":1", "complex:2/4:0",
	"string", "string:", "string::", "string:a:b", "strin:g", "String:x", " int:5", "int :5",
}

func mutate(r *vh.Rng, s string) string {
	b := []byte(s)
	alphabet := "0123456789abcdefxp+-/:._ "
	switch r.Intn(5) {
	case 0:
		if len(b) > 0 {
			b[r.Intn(len(b))] = alphabet[r.Intn(len(alphabet))]
		}
	case 1:
		if len(b) > 0 {
			i := r.Intn(len(b))
			b = append(b[:i], b[i+1:]...)
		}
	case 2:
		i := r.Intn(len(b) + 1)
		b = append(b[:i], append([]byte{alphabet[r.Intn(len(alphabet))]}, b[i:]...)...)
	case 3:
		b = b[:r.Intn(len(b)+1)]
	case 4:
		if i := strings.IndexByte(s, ':'); i >= 0 {
			kinds := []string{"int", "float", "complex", "rune", "string", "bool"}
			b = []byte(kinds[r.Intn(len(kinds))] + s[i:])
		}
	}
	return string(b)
}

// texts on which big.Rat.SetString / big.Float parsing could take very long are not submitted to the real code
func safeText(s string) bool {
	// an 'e' decimal exponent with many digits, or a 'p' exponent far outside the handled range in a fraction context
	for i := 0; i < len(s); i++ {
		if (s[i] == 'e' || s[i] == 'E' || s[i] == 'p' || s[i] == 'P') && i+1 < len(s) {
			j := i + 1
			if s[j] == '+' || s[j] == '-' {
				j++
			}
			k := j
			for k < len(s) && s[k] >= '0' && s[k] <= '9' {
				k++
			}
			if k-j > 6 && !strings.HasPrefix(s[j:], "2147483") && !strings.HasPrefix(s[j:], "9223372") && !strings.HasPrefix(s[j:], "9999999") {
				return false
			}
		}
	}
	return true
}

func short(s string) string {
	if len(s) > 120 {
		return fmt.Sprintf("%s...(%d bytes)...%s", s[:60], len(s), s[len(s)-30:])
	}
	return s
}

func main() {
	a := vh.ParseArgs()
	rng := vh.NewRng(a.Seed)
	rep := vh.NewReport(a, "stream A: corpus/C32/*.json, 80+ enumerated edge constants (0, -0.0, 1e+-1000, 1e+-1300, 1e+-100000, 2^-4097..2^4096, non-dyadic rationals, MaxUint64+1, "+
		"10^40, 1<<5000, runes, complex, strings with ':' / NUL / 0xff / all 256 bytes / empty) and PRNG constants of every kind (ints up to 4000 bits, ratVal and floatVal floats built with go/constant "+
		"literals and operations, complex pairs, byte strings biased to ':'); excluded class = ratVal with |numerator| or denominator >= 2^4095-2^3582 (recorded finding, its exact inputs are replayed from the corpus only); "+
		"stream B: every distinct text of the Untypeds tables of $VERIF_REPO/imports (read with go/parser at run time); stream C: hand-written and mutated texts (model correspondence only). "+
		"Oracle A: Unmarshal(Marshal(k,v)) has kind k and EXACTLY the value v (big.Int/big.Rat/big.Float comparison + constant.Compare; strings bytewise); oracle B: Marshal(Unmarshal(t)) == t. "+
		"non-trivial = stream A/B case whose value is not nil; distinct by SHA-256 of the marshalled text")
	wd := vh.NewWatchdog(rep, 180*time.Second)
	repo := os.Getenv("VERIF_REPO")
	if repo == "" {
		repo = "/repo"
	}
	verif := os.Getenv("VERIF_DIR")

	// known findings (committed list): their exact inputs are replayed, and only those
	known := map[string]bool{}
	if verif != "" {
		if b, err := os.ReadFile(filepath.Join(verif, "known_findings.json")); err == nil {
			var kf struct {
				Findings []struct {
					Property, Key, Status string
				}
			}
			if json.Unmarshal(b, &kf) == nil {
				for _, f := range kf.Findings {
					if f.Property == "C32" && f.Status == "known" {
						known[f.Key] = true
					}
				}
			}
		}
	}

	header := "From Coq Require Import List NArith ZArith.\nFrom Verif Require Import Common.GoStr C32.Model.\nImport ListNotations.\nOpen Scope Z_scope."
	var pending []string
	cw := struct{ Add func(string) }{Add: func(t string) { pending = append(pending, t) }}
	idx := 0
	unsupported := 0

	// abstraction of the real Unmarshal result as a model `ures`
	runUnmarshal := func(text string) (k untyped.Kind, v constant.Value, res string, ok bool) {
		p := vh.Catch(func() { k, v = untyped.Unmarshal(text) })
		if p != nil {
			return k, v, "UPanic", true
		}
		cv, ok := coqValue(k, v)
		if !ok {
			return k, v, "", false
		}
		return k, v, fmt.Sprintf("(UOk %s %s)", coqKind(k), cv), true
	}

	// ----- stream A
	var vals []tv
	nCorpus, nFindingInputs := 0, 0
	if verif != "" {
		files, _ := filepath.Glob(filepath.Join(verif, "corpus", "C32", "*.json"))
		sort.Strings(files)
		for _, f := range files {
			b, err := os.ReadFile(f)
			if err != nil {
				continue
			}
			var es []corpusEntry
			if json.Unmarshal(b, &es) != nil {
				continue
			}
			for _, e := range es {
				if e.Key != "" && !known[e.Key] {
					continue // a proposed finding not (yet) in known_findings.json is not replayed
				}
				if t, ok := e.value(); ok {
					vals = append(vals, t)
					nCorpus++
					if e.Key != "" {
						nFindingInputs++
					}
				}
			}
		}
	}
	vals = append(vals, edgeValues()...)
	nRand := 400
	if a.Thorough() {
		nRand = 6000 // 15x quick; a case costs ~0.1 s of coqc (big-number literals + model evaluation)
	}
	if a.N > 0 {
		nRand = a.N
	}
	for i := 0; i < nRand; i++ {
		var t tv
		switch x := rng.Intn(20); {
		case x < 4:
			t = tv{"rand int", untyped.Int, randInt(rng), ""}
		case x < 5:
			t = tv{"rand rune", untyped.Rune, constant.MakeInt64(int64(rng.Intn(0x110000))), ""}
		case x < 12:
			v, how := randFloat(rng)
			t = tv{"rand float " + how, untyped.Float, v, ""}
		case x < 15:
			re, h1 := randFloat(rng)
			im, h2 := randFloat(rng)
			t = tv{"rand complex " + h1 + "," + h2, untyped.Complex, op(constant.ToComplex(re), token.ADD, constant.MakeImag(im)), ""}
		case x < 19:
			t = tv{"rand string", untyped.String, constant.MakeString(randString(rng)), ""}
		default:
			t = tv{"rand bool", untyped.Bool, constant.MakeBool(rng.Bool()), ""}
		}
		if t.V == nil || t.V.Kind() == constant.Unknown || inFindingClass(t.V) {
			continue
		}
		vals = append(vals, t)
	}

	for _, t := range vals {
		wd.Beat(t.Name)
		in := map[string]interface{}{"stream": "A", "name": t.Name, "kind": t.K.String()}
		if t.V != nil {
			in["value"] = short(t.V.ExactString())
		}
		var s string
		key := t.Key
		if key == "" {
			key = "A:" + t.Name
		}
		if p := vh.Catch(func() { s = untyped.Marshal(t.K, t.V) }); p != nil {
			rep.Fail(vh.Failure{Key: key, What: "Marshal panicked", Input: in, Got: fmt.Sprint(p)})
			continue
		}
		in["marshalled"] = short(s)
		if t.Key == "" {
			key = "A:" + t.K.String() + ":" + short(s)
		}
		k2, v2, res, ok := runUnmarshal(s)
		want := t.V
		if t.K == untyped.None {
			want = nil
		}
		switch {
		case res == "UPanic":
			rep.Fail(vh.Failure{Key: key, What: "Unmarshal(Marshal(v)) panicked", Input: in})
		case k2 != t.K:
			rep.Fail(vh.Failure{Key: key, What: "round trip changed the kind", Input: in, Got: k2.String(), Want: t.K.String()})
		case !exactEq(t.K, want, v2):
			got := "<nil>"
			if v2 != nil {
				got = short(v2.ExactString())
			}
			rep.Fail(vh.Failure{Key: key, What: "round trip changed the value (exact comparison)", Input: in, Got: got, Want: in["value"]})
		}
		cv, okv := coqValue(t.K, t.V)
		switch {
		case okv && ok:
			cw.Add(fmt.Sprintf("CRound %d %s %s %s %s %s", idx, vh.CoqBool(!inFindingClass(t.V)), coqKind(t.K), cv, coqStr(s), res))
		case okv:
			cw.Add(fmt.Sprintf("CMarshal %d %s %s %s %s", idx, vh.CoqBool(!inFindingClass(t.V)), coqKind(t.K), cv, coqStr(s)))
		case ok:
			cw.Add(fmt.Sprintf("CUnmarshal %d true %s %s", idx, coqStr(s), res))
		}
		if !okv || !ok {
			rep.Fail(vh.Failure{Key: key, What: "harness cannot abstract the value (outside the model's domain)", Input: in})
		}
		rep.CaseInput(idx, in)
		rep.Count(s, t.K != untyped.None)
		d := "A:" + t.K.String()
		if t.K == untyped.Float || t.K == untyped.Complex {
			d += fmt.Sprintf(":%T", t.V)
		}
		rep.Dist(d)
		if idx%131 == 7 {
			rep.Sample(in)
		}
		idx++
	}
	nA := idx

	// ----- stream B: import tables
	texts := importTexts(repo)
	nTexts := len(texts)
	nB := 0
	for i, text := range texts {
		_ = i
		wd.Beat(text)
		in := map[string]interface{}{"stream": "B", "text": short(text)}
		k, v, res, ok := runUnmarshal(text)
		key := "B:" + short(text)
		if res == "UPanic" {
			rep.Fail(vh.Failure{Key: key, What: "Unmarshal of an import-table text panicked", Input: in})
		} else {
			var back string
			if p := vh.Catch(func() { back = untyped.Marshal(k, v) }); p != nil || back != text {
				rep.Fail(vh.Failure{Key: key, What: "Marshal(Unmarshal(t)) != t for an import-table text", Input: in, Got: short(back), Want: short(text)})
			}
		}
		if ok {
			cw.Add(fmt.Sprintf("CUnmarshal %d true %s %s", idx, coqStr(text), res))
		} else {
			rep.Fail(vh.Failure{Key: key, What: "harness cannot abstract the value (outside the model's domain)", Input: in})
		}
		rep.CaseInput(idx, in)
		rep.Count(text, k != untyped.None)
		rep.Dist("B:" + k.String())
		if nB%400 == 5 {
			rep.Sample(in)
		}
		idx++
		nB++
	}

	// ----- stream C: other texts (correspondence only)
	var ctexts []string
	ctexts = append(ctexts, handTexts...)
	nMut := 400
	if a.Thorough() {
		nMut = 4000
	}
	for i := 0; i < nMut; i++ {
		var base string
		if rng.Intn(3) == 0 {
			base = handTexts[rng.Intn(len(handTexts))]
		} else {
			t := vals[rng.Intn(len(vals))]
			if vh.Catch(func() { base = untyped.Marshal(t.K, t.V) }) != nil {
				continue
			}
		}
		if len(base) > 400 {
			continue
		}
		m := mutate(rng, base)
		if rng.Intn(4) == 0 {
			m = mutate(rng, m)
		}
		ctexts = append(ctexts, m)
	}
	nC := 0
	for _, text := range ctexts {
		if !safeText(text) {
			continue
		}
		wd.Beat(text)
		in := map[string]interface{}{"stream": "C", "text": short(text)}
		_, _, res, ok := runUnmarshal(text)
		if !ok {
			unsupported++
			continue
		}
		cw.Add(fmt.Sprintf("CUnmarshal %d false %s %s", idx, coqStr(text), res))
		rep.CaseInput(idx, in)
		rep.Count("C:"+text, false)
		rep.Dist("C:texts")
		idx++
		nC++
	}
	// balance the shards: heaviest terms first, dealt round-robin into 8 shards (thorough: 32; padded with a trivial case)
	sort.SliceStable(pending, func(i, j int) bool { return len(pending[i]) > len(pending[j]) })
	nShards := 8
	if a.Thorough() {
		nShards = 32
	}
	per := (len(pending) + nShards - 1) / nShards
	if per == 0 {
		per = 1
	}
	out := vh.NewCases(a, header, "case", "mismatches", per)
	for sh := 0; sh < nShards; sh++ {
		n := 0
		for i := sh; i < len(pending); i += nShards {
			out.Add(pending[i])
			n++
		}
		for ; n < per && n > 0; n++ {
			out.Add("CUnmarshal (-1) false (@nil N) (UOk KNone VNil)")
		}
	}
	out.Close()
	rep.Extra["stream_A_constants"] = nA
	rep.Extra["stream_B_import_texts_run"] = nB
	rep.Extra["import_table_distinct_texts"] = nTexts
	rep.Extra["stream_C_texts"] = nC
	rep.Extra["corpus_values"] = nCorpus
	rep.Extra["known_finding_inputs_replayed"] = nFindingInputs
	rep.Extra["stream_C_not_abstractable"] = unsupported
	rep.Write()
}

package main

// Generators: dependency graphs rendered as Go source.  Node i is the i-th declaration in the text and is named
// by names[i]; an edge i->j is one reference to j placed inside i.  Locals, parameters, results and receivers
// use lower-case names that never equal a declaration name (known-finding class F1 is avoided), and a
// reference from scope depth >= 2 is only placed when j is declared later in the text (class F2 is avoided).
// Struct FIELDS may be named like declarations (named struct types and anonymous struct types in initialisers and
// function bodies) and keyed struct literals use those names as keys: neither is a reference.  Identifier keys of
// map / array literals ARE references (known finding C17-3: only used next to another reference to the same name).

import (
	"fmt"
	"strings"

	"verifh/vh"
)

var names = []string{"A", "B", "C", "D", "E", "F", "G", "H", "J", "K", "L", "M"}

type gnode struct {
	Kind  string // const var func type method
	Recv  int    // method: index of the receiver type node
	Edges []int
	Self  bool // refers to itself
}

type graph struct{ Nodes []gnode }

func (g graph) name(i int) string {
	n := g.Nodes[i]
	if n.Kind == "method" {
		return "m" + names[i]
	}
	return names[i]
}

func enumKinds(kinds []string, n int) [][]string {
	if n == 0 {
		return [][]string{nil}
	}
	var out [][]string
	for _, rest := range enumKinds(kinds, n-1) {
		for _, k := range kinds {
			out = append(out, append(append([]string(nil), rest...), k))
		}
	}
	return out
}

func graphFromMask(n, mask int, kinds []string) graph {
	g := graph{Nodes: make([]gnode, n)}
	b := 0
	for i := 0; i < n; i++ {
		g.Nodes[i].Kind = kinds[i]
		for j := 0; j < n; j++ {
			if i == j {
				continue
			}
			if mask>>uint(b)&1 == 1 {
				g.Nodes[i].Edges = append(g.Nodes[i].Edges, j)
			}
			b++
		}
	}
	return g
}

func randomGraph(r *vh.Rng) graph {
	n := 5 + r.Intn(8)
	g := graph{Nodes: make([]gnode, n)}
	var types []int
	for i := range g.Nodes {
		k := []string{"const", "var", "var", "func", "type", "type"}[r.Intn(6)]
		g.Nodes[i].Kind = k
		if k == "type" {
			types = append(types, i)
		}
	}
	for i := range g.Nodes {
		if len(types) > 0 && g.Nodes[i].Kind != "type" && r.Chance(1, 6) {
			g.Nodes[i].Kind = "method"
			g.Nodes[i].Recv = types[r.Intn(len(types))]
		}
	}
	// rank: acyclic graphs only have edges from higher to lower rank
	rank := make([]int, n)
	for i := range rank {
		rank[i] = i
	}
	for i := n - 1; i > 0; i-- {
		j := r.Intn(i + 1)
		rank[i], rank[j] = rank[j], rank[i]
	}
	mode := r.Intn(10) // 0..5 acyclic, 6..7 cycles only among types, 8..9 arbitrary
	p := 1 + r.Intn(3)
	for i := range g.Nodes {
		for j := range g.Nodes {
			if i == j || g.Nodes[j].Kind == "method" || !r.Chance(p, n) {
				continue
			}
			if (g.Nodes[i].Kind == "func" || g.Nodes[i].Kind == "method") && j < i {
				continue // class F2
			}
			back := rank[j] > rank[i]
			switch {
			case !back, mode >= 8:
			case mode >= 6 && g.Nodes[i].Kind == "type" && g.Nodes[j].Kind == "type":
			default:
				continue
			}
			g.Nodes[i].Edges = append(g.Nodes[i].Edges, j)
		}
		if r.Chance(1, 12) {
			g.Nodes[i].Self = true
		}
	}
	return g
}

// render returns the text of every declaration node, or ok=false when the graph falls into the excluded class F2
// (a function/method declaration, whose signature and body are at scope depth >= 2, referring to an earlier name).
func renderPieces(g graph, r *vh.Rng) (pieces []string, ok bool) {
	// struct types may get extra int fields NAMED LIKE DECLARATIONS of the input (a field name is not a reference, neither
	// where the field is declared nor as the key of a keyed struct literal); decided up front because a literal of the type
	// can be rendered before the type itself
	coll := make([][]string, len(g.Nodes))
	asSlice := make([]bool, len(g.Nodes))
	for i, n := range g.Nodes {
		if n.Kind != "type" {
			continue
		}
		asSlice[i] = len(n.Edges) == 1 && !n.Self && r.Chance(1, 3)
		if !asSlice[i] && r.Chance(1, 2) {
			for k := 1 + r.Intn(2); k > 0; k-- {
				c := names[r.Intn(len(g.Nodes))]
				dup := false
				for _, x := range coll[i] {
					dup = dup || x == c
				}
				if !dup {
					coll[i] = append(coll[i], c)
				}
			}
		}
	}
	// a keyed literal of an anonymous struct type whose only field is named like a random declaration of the input
	anonLit := func() string {
		c := names[r.Intn(len(g.Nodes))]
		return fmt.Sprintf("struct{ %s int }{%s: %d}.%s", c, c, 1+r.Intn(9), c)
	}
	for i, n := range g.Nodes {
		name := names[i]
		later := func(j int) bool { return j > i }
		var sb strings.Builder
		switch n.Kind {
		case "const":
			sb.WriteString("const " + name + " = 1")
			for _, j := range n.Edges {
				sb.WriteString(" + " + g.name(j))
			}
			if n.Self {
				sb.WriteString(" + " + name)
			}
		case "var":
			var typ []string
			var terms []string
			for _, j := range n.Edges {
				t := g.name(j)
				max := 3 // placements 0..2 are at depth <= 1
				if later(j) {
					max = 6
				}
				if g.Nodes[j].Kind == "type" && len(coll[j]) > 0 && r.Chance(1, 2) {
					// keyed struct literal of the declared type j; the keys are field names that equal declaration names
					c := coll[j][r.Intn(len(coll[j]))]
					lit := fmt.Sprintf("%s{%s: %d}.%s", t, c, r.Intn(9), c)
					if later(j) && r.Chance(1, 3) {
						lit = "func() int { return " + lit + " }()"
					}
					terms = append(terms, lit)
					continue
				}
				if k := g.Nodes[j].Kind; (k == "const" || k == "var") && r.Chance(1, 8) {
					// identifier key of a MAP / ARRAY literal: an expression, hence a reference.  Known finding C17-3: scope.go
					// ignores every identifier key, so the generators only use such a key when the same declaration refers to
					// the name elsewhere too (here: as the index)
					if r.Bool() {
						terms = append(terms, fmt.Sprintf("map[int]int{%s: %d}[%s]", t, r.Intn(9), t))
					} else {
						terms = append(terms, fmt.Sprintf("[...]int{%s: %d}[%s]", t, r.Intn(9), t))
					}
					continue
				}
				switch r.Intn(max) {
				case 0:
					terms = append(terms, t)
				case 1:
					terms = append(terms, "func() int { return "+t+" }()")
				case 2:
					typ = append(typ, fmt.Sprintf("f%d *%s", len(typ), t))
				case 3:
					terms = append(terms, "func() int { if true { return "+t+" }; return 0 }()")
				case 4:
					terms = append(terms, "func(p int) int { for { if p > 0 { v := "+t+"; return v } } }(1)")
				case 5:
					typ = append(typ, fmt.Sprintf("f%d struct{ g []%s }", len(typ), t))
				}
			}
			if n.Self {
				terms = append(terms, name)
			}
			if r.Chance(1, 3) {
				terms = append(terms, anonLit())
			}
			sb.WriteString("var " + name)
			if len(typ) > 0 {
				sb.WriteString(" struct{ " + strings.Join(typ, "; ") + " }")
			}
			if len(terms) > 0 {
				sb.WriteString(" = " + strings.Join(terms, " + "))
			} else if len(typ) == 0 {
				sb.WriteString(" = 0")
			}
		case "type":
			var fields []string
			for _, j := range n.Edges {
				t := g.name(j)
				max := 3
				if later(j) {
					max = 5
				}
				switch r.Intn(max) {
				case 0:
					fields = append(fields, fmt.Sprintf("f%d *%s", len(fields), t))
				case 1:
					fields = append(fields, fmt.Sprintf("f%d []%s", len(fields), t))
				case 2:
					fields = append(fields, fmt.Sprintf("f%d map[string]%s", len(fields), t))
				case 3:
					fields = append(fields, fmt.Sprintf("f%d struct{ g %s }", len(fields), t))
				case 4:
					fields = append(fields, fmt.Sprintf("f%d func(q %s) int", len(fields), t))
				}
			}
			if n.Self {
				fields = append(fields, "next *"+name)
			}
			for _, c := range coll[i] {
				fields = append(fields, c+" int")
			}
			if asSlice[i] {
				sb.WriteString("type " + name + " []" + g.name(n.Edges[0]))
			} else {
				sb.WriteString("type " + name + " struct{ " + strings.Join(fields, "; ") + " }")
			}
		case "func", "method":
			var params, body []string
			for _, j := range n.Edges {
				if !later(j) {
					return nil, false
				}
				t := g.name(j)
				switch r.Intn(5) {
				case 0:
					params = append(params, fmt.Sprintf("p%d %s", len(params), t))
				case 1:
					body = append(body, "_ = "+t)
				case 2:
					body = append(body, "if true { _ = "+t+" }")
				case 3:
					body = append(body, "for i := 0; i < 1; i++ { switch { case i > 0: w := "+t+"; _ = w } }")
				case 4:
					body = append(body, "_ = func() int { return "+t+" }()")
				}
			}
			fname := name
			recv := ""
			if n.Kind == "method" {
				fname = "m" + name
				recv = "(r " + []string{"", "*"}[r.Intn(2)] + names[n.Recv] + ") "
			}
			if n.Self && n.Kind == "func" {
				body = append(body, "if false { "+name+"("+strings.Repeat("nil, ", len(params))+") }")
			}
			if r.Chance(1, 4) {
				body = append(body, "_ = "+anonLit())
			}
			sb.WriteString("func " + recv + fname + "(" + strings.Join(params, ", ") + ") { " + strings.Join(body, "; ") + " }")
		}
		pieces = append(pieces, sb.String())
	}
	return pieces, true
}

func render(g graph, r *vh.Rng) (string, bool) {
	p, ok := renderPieces(g, r)
	if !ok {
		return "", false
	}
	return strings.Join(p, "\n"), true
}

// decorate re-renders a random graph with package/import clauses, grouped declarations and statements that split
// the declarations into several runs
func decorate(src string, g graph, r *vh.Rng) string {
	pieces := strings.Split(src, "\n")
	var out []string
	if r.Chance(1, 3) {
		out = append(out, "package p")
	}
	switch r.Intn(4) {
	case 0:
		out = append(out, `import "fmt"`)
	case 1:
		out = append(out, `import ( "os"; s "strings" )`, `import "path/filepath"`)
	}
	for i := 0; i < len(pieces); i++ {
		p := pieces[i]
		// group consecutive const / var / type declarations
		kw := strings.SplitN(p, " ", 2)[0]
		if kw != "func" && i+1 < len(pieces) && strings.HasPrefix(pieces[i+1], kw+" ") && r.Chance(1, 3) {
			out = append(out, kw+" (\n\t"+strings.TrimPrefix(p, kw+" ")+"\n\t"+strings.TrimPrefix(pieces[i+1], kw+" ")+"\n)")
			i++
		} else {
			out = append(out, p)
		}
		if r.Chance(1, 7) {
			switch r.Intn(3) {
			case 0:
				out = append(out, fmt.Sprintf("x%d := %d", i, i))
			case 1:
				out = append(out, fmt.Sprintf("println(%d)", i), fmt.Sprintf("y%d := 0", i))
			case 2:
				out = append(out, fmt.Sprintf("for z%d := 0; z%d < 1; z%d++ { }", i, i, i), `import "io"`)
			}
		}
	}
	return strings.Join(out, "\n")
}

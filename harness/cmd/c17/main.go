// c17: correspondence + direct oracle for base/dep (Sorter.All: phase split, graph.Sort, RemoveNodesNoDeps,
// RemoveTypeFwd, declaration-loop error).
//
// Inputs: dependency graphs over declarations of mixed kinds rendered as Go source (see gen.go), the corpus
// (exact inputs of known findings / past failures) and random larger graphs.
// Implementation: dep.NewSorter().LoadNodes(parse(src)).All(), repeated several times per input.
// Direct oracle (never the Coq model): predicates of the property evaluated on the implementation's own output
// against a reference free-variable analysis written here over go/ast (ref.go).
// Correspondence: the Coq model of the graph stage is run on the Deps that dep.Scope itself extracts (graph-stage
// isolation) and must produce exactly the observed list (kind, name, pos, deps) or the declaration-loop error.
package main

import (
	"encoding/json"
	"fmt"
	"go/ast"
	"go/token"
	"os"
	"path/filepath"
	"sort"
	"strings"
	"time"

	"github.com/cosmos72/gomacro/base/dep"
	"github.com/cosmos72/gomacro/go/etoken"
	"github.com/cosmos72/gomacro/go/parser"
	"verifh/vh"
)

// ---------- running the implementation ----------

type outDecl struct {
	Kind string   `json:"k"`
	Name string   `json:"n"`
	Pos  int      `json:"p"`
	Deps []string `json:"d,omitempty"`
}

type observation struct {
	Loop  bool      `json:"loop,omitempty"`
	Panic string    `json:"panic,omitempty"` // any other panic
	Out   []outDecl `json:"out,omitempty"`
}

func (o observation) canon() string {
	b, _ := json.Marshal(o)
	return string(b)
}

func parse(src string) ([]ast.Node, error) {
	var p parser.Parser
	fset := etoken.NewFileSet()
	p.Init(fset, "c17.go", 0, []byte(src))
	return p.Parse()
}

func sortOnce(src string) (obs observation, nodes []ast.Node) {
	nodes, err := parse(src)
	if err != nil {
		obs.Panic = "parse: " + err.Error()
		return
	}
	p := vh.Catch(func() {
		s := dep.NewSorter()
		s.LoadNodes(nodes)
		for _, d := range s.All() {
			obs.Out = append(obs.Out, outDecl{d.Kind.String(), d.Name, int(d.Pos), append([]string(nil), d.Deps...)})
		}
	})
	if p != nil {
		obs.Out = nil
		msg := fmt.Sprint(p)
		if strings.Contains(msg, "declaration loop") {
			obs.Loop = true
		} else {
			obs.Panic = msg
		}
	}
	return
}

// ---------- model input: queue items with the Deps extracted by dep.Scope itself ----------

func classOf(n ast.Node) string {
	switch n := n.(type) {
	case nil:
		return "nil"
	case *ast.GenDecl:
		switch n.Tok {
		case token.PACKAGE:
			return "package"
		case token.IMPORT:
			return "import"
		}
		return "decl"
	case ast.Decl:
		return "decl"
	case ast.Expr:
		return "expr"
	case ast.Stmt:
		return "stmt"
	}
	return "other"
}

func coqKind(k string) string { return "K" + k }

func coqDecl(kind, name string, pos int, deps []string) string {
	var ds []string
	for _, d := range deps {
		ds = append(ds, vh.CoqStr(d))
	}
	return fmt.Sprintf("(mkDecl %s %s %d%%N %s)", coqKind(kind), vh.CoqStr(name), pos, vh.CoqList(ds, "str"))
}

// queueItems renders the parsed nodes as the model's queue; declaration runs are analysed by one dep.Scope per run
// (exactly what popDecls does) and the resulting Decls are attributed to their node by position.
func queueItems(nodes []ast.Node) (items []string, err interface{}) {
	err = vh.Catch(func() {
		for i := 0; i < len(nodes); {
			n := nodes[i]
			switch classOf(n) {
			case "nil":
				items = append(items, "INil")
				i++
			case "package":
				var ps []string
				for _, spec := range n.(*ast.GenDecl).Specs {
					v := spec.(*ast.ValueSpec)
					pos := token.NoPos
					if len(v.Names) != 0 {
						pos = v.Names[0].Pos()
					} else if len(v.Values) != 0 {
						pos = v.Values[0].Pos()
					}
					ps = append(ps, fmt.Sprintf("%d%%N", int(pos)))
				}
				items = append(items, "IPackage "+vh.CoqList(ps, "N"))
				i++
			case "import":
				var ps []string
				for _, spec := range n.(*ast.GenDecl).Specs {
					im := spec.(*ast.ImportSpec)
					ps = append(ps, fmt.Sprintf("(%s, %d%%N)", vh.CoqStr(importName(im)), int(im.Pos())))
				}
				items = append(items, "IImport "+vh.CoqList(ps, "(str * N)"))
				i++
			case "decl":
				j := i
				for j < len(nodes) && (classOf(nodes[j]) == "decl" || classOf(nodes[j]) == "nil") {
					j++
				}
				run := nodes[i:j]
				sc := dep.NewScope(nil)
				sc.Nodes(append([]ast.Node(nil), run...))
				list := sc.Decls.List()
				sort.SliceStable(list, func(a, b int) bool { return list[a].Pos < list[b].Pos })
				per := make([][]string, len(run))
				for _, d := range list {
					k := -1
					for x, rn := range run {
						if rn != nil && classOf(rn) == "decl" && rn.Pos() <= d.Pos && d.Pos < rn.End() {
							k = x
						}
					}
					if k < 0 {
						panic(fmt.Sprintf("declaration %s@%d outside every node of its run", d.Name, d.Pos))
					}
					per[k] = append(per[k], coqDecl(d.Kind.String(), d.Name, int(d.Pos), d.Deps))
				}
				for x, rn := range run {
					if classOf(rn) == "nil" {
						items = append(items, "INil")
					} else {
						items = append(items, "IDecl "+vh.CoqList(per[x], "decl"))
					}
				}
				i = j
			case "expr":
				items = append(items, fmt.Sprintf("IExpr %d%%N", int(n.Pos())))
				i++
			case "stmt":
				items = append(items, fmt.Sprintf("IStmt %d%%N", int(n.Pos())))
				i++
			default:
				items = append(items, "IOther")
				i++
			}
		}
	})
	return
}

func coqObs(o observation) string {
	if o.Loop {
		return "ObsLoop"
	}
	var ds []string
	for _, d := range o.Out {
		ds = append(ds, coqDecl(d.Kind, d.Name, d.Pos, d.Deps))
	}
	return "(ObsOk " + vh.CoqList(ds, "decl") + ")"
}

// ---------- one input ----------

type input struct {
	Src    string `json:"src"`
	Key    string `json:"key,omitempty"` // corpus entries: key recorded in known_findings.json
	Origin string `json:"origin"`
}

type runner struct {
	a    *vh.Args
	rep  *vh.Report
	cw   *vh.Cases
	wd   *vh.Watchdog
	idx  int
	reps int
}

func (r *runner) fail(in input, what string, got, want interface{}) {
	key := in.Key
	if key == "" {
		key = in.Src
	}
	r.rep.Fail(vh.Failure{Key: key, What: what, Input: in, Got: got, Want: want})
}

// run sorts the input reps times, applies the direct oracle and emits the model case (toModel=false: oracle only).
func (r *runner) run(in input, toModel bool) {
	r.wd.Beat(in)
	obs, nodes := sortOnce(in.Src)
	if strings.HasPrefix(obs.Panic, "parse: ") {
		r.fail(in, "harness: generated source does not parse", obs.Panic, nil)
		return
	}
	c0 := obs.canon()
	for k := 1; k < r.reps; k++ {
		o2, _ := sortOnce(in.Src)
		if c := o2.canon(); c != c0 {
			r.fail(in, "nondeterministic: two runs on the same source differ", c, c0)
			break
		}
	}
	top := analyse(nodes)
	for _, msg := range oracle(top, obs) {
		r.fail(in, msg.what, msg.got, msg.want)
	}
	nd, ne, cyc := 0, 0, false
	for _, t := range top {
		nd += len(t.Decls)
		for _, d := range t.Decls {
			ne += len(d.Refs)
		}
	}
	for _, run := range runsOf(top) {
		if run.Class == "decl" && len(cycleNodes(run.Decls)) > 0 {
			cyc = true
		}
	}
	nfwd := 0
	for _, d := range obs.Out {
		if d.Kind == "TypeFwd" {
			nfwd++
		}
	}
	r.rep.Count(in.Src, ne > 0)
	r.rep.Dist(fmt.Sprintf("decls:%d", min(nd, 9)))
	r.rep.Dist(fmt.Sprintf("edges:%d", min(ne, 12)))
	switch {
	case obs.Loop:
		r.rep.Dist("result:declaration-loop")
	case obs.Panic != "":
		r.rep.Dist("result:other-panic")
	case nfwd > 0:
		r.rep.Dist("result:sorted-with-typefwd")
	case cyc:
		r.rep.Dist("result:sorted-cyclic")
	default:
		r.rep.Dist("result:sorted-acyclic")
	}
	r.rep.Dist("origin:" + in.Origin)
	if toModel && obs.Panic == "" {
		items, err := queueItems(nodes)
		if err != nil {
			r.fail(in, "dep.Scope panicked while extracting the model input", fmt.Sprint(err), nil)
		} else {
			r.cw.Add(fmt.Sprintf("mkCase %d %s %s", r.idx, vh.CoqList(items, "item"), coqObs(obs)))
			r.rep.CaseInput(r.idx, in)
			r.idx++
		}
	}
	if r.rep.Evaluations%997 == 5 {
		r.rep.Sample(map[string]interface{}{"src": in.Src, "observed": obs})
	}
}

func min(a, b int) int {
	if a < b {
		return a
	}
	return b
}

func loadCorpus() []input {
	dir := filepath.Join(os.Getenv("VERIF_DIR"), "corpus", "C17")
	files, _ := filepath.Glob(filepath.Join(dir, "*.json"))
	sort.Strings(files)
	var out []input
	for _, f := range files {
		b, err := os.ReadFile(f)
		if err != nil {
			continue
		}
		var in input
		if json.Unmarshal(b, &in) == nil && in.Src != "" {
			in.Origin = "corpus"
			out = append(out, in)
		}
	}
	return out
}

func main() {
	a := vh.ParseArgs()
	rng := vh.NewRng(a.Seed)
	rep := vh.NewReport(a, "dependency graphs over n declarations named A..H of kinds const/var/func/type/method rendered as Go source "+
		"(edge i->j = a reference to j inside i: initialiser, var type, struct field / slice / func type, function signature or body, "+
		"at block depth 0..3 chosen per edge); part 1 bounded-exhaustive: every digraph on n<=3 nodes x every kind assignment over {const,var,func,type}, "+
		"every digraph on 4 nodes x 2 (quick) kind assignments [thorough: x 6, and every digraph on 5 nodes x 1 assignment, direct oracle on all (3 repetitions), model on a 1/64 sample; quick: model on every second 4-node input]; "+
		"part 2 PRNG graphs with 5..12 declarations incl. methods, self references, package/import clauses and statements between declaration runs; "+
		"struct types (declared, or anonymous inside initialisers and function bodies) get int fields NAMED LIKE DECLARATIONS of the input and keyed struct literals use them as keys (not references); "+
		"identifier keys of map/array literals are references (only generated next to another reference to the same name: known finding C17-3); the reference analysis asks go/types whether a key is a field name; "+
		"part 4 PRNG programs of 7..12 names whose var / const specs declare 1..3 names each (one initialiser per name with its own references, one multi-valued call, or none; const groups inheriting type and initialisers) "+
		"with an explicit type EXPRESSION over 1..4 declared types incl. repeated ones (map[K]K, func(X, Y) Z, struct, [C]T ...), grouped var ( ... ) / const ( ... ) declarations; "+
		"part 3 corpus. Excluded classes (known findings): a local/parameter named like a declaration (F1); a reference from scope depth>=2 "+
		"(function declaration signature/body, nested block or struct) to a name declared earlier in the text (F2). "+
		"non-trivial = at least one dependency edge; distinct by SHA-256 of the source. Every input is sorted 5x (quick) / 20x (thorough).")
	r := &runner{a: a, rep: rep, reps: 5}
	if a.Thorough() {
		r.reps = 20
	}
	r.cw = vh.NewCases(a, "From Coq Require Import List NArith ZArith.\nFrom Verif Require Import Common.GoStr C17.Model.\nImport ListNotations.\nOpen Scope Z_scope.", "case", "mismatches", 700)
	r.wd = vh.NewWatchdog(rep, 180*time.Second)

	if a.Replay != "" {
		b, err := os.ReadFile(a.Replay)
		if err == nil {
			var rp struct {
				Failure struct {
					Input input `json:"input"`
				} `json:"failure"`
				Inputs []struct {
					Input input `json:"input"`
				} `json:"inputs"`
			}
			if json.Unmarshal(b, &rp) == nil {
				if rp.Failure.Input.Src != "" {
					r.run(rp.Failure.Input, true)
				}
				for _, x := range rp.Inputs {
					r.run(x.Input, true)
				}
			}
		}
		r.cw.Close()
		rep.Write()
		return
	}

	reps := r.reps
	// part 3 first: corpus
	for _, in := range loadCorpus() {
		r.run(in, true)
	}
	// part 1: bounded exhaustive
	excluded := 0
	nExh := 0
	kinds4 := []string{"const", "var", "func", "type"}
	for n := 1; n <= 5; n++ {
		if n == 5 && !a.Thorough() {
			break
		}
		nedges := n * (n - 1)
		assign := enumKinds(kinds4, n)
		for mask := 0; mask < 1<<uint(nedges); mask++ {
			var ks [][]string
			switch {
			case n <= 3:
				ks = assign
			case n == 4:
				cnt := 2
				if a.Thorough() {
					cnt = 6
				}
				for c := 0; c < cnt; c++ {
					ks = append(ks, assign[rng.Intn(len(assign))])
				}
			default:
				ks = [][]string{assign[rng.Intn(len(assign))]}
			}
			for _, k := range ks {
				g := graphFromMask(n, mask, k)
				src, ok := render(g, rng)
				if !ok {
					excluded++
					continue
				}
				nExh++
				toModel := n <= 3 || (n == 4 && (a.Thorough() || mask%2 == 0)) || mask%64 == 3
				if n == 5 {
					r.reps = 3
				}
				r.run(input{Src: src, Origin: fmt.Sprintf("exhaustive-n%d", n)}, toModel)
				r.reps = reps
			}
		}
	}
	// part 2: random larger graphs
	nRand := 1000
	if a.Thorough() {
		nRand = 20000
	}
	if a.N > 0 {
		nRand = a.N
	}
	for i := 0; i < nRand; i++ {
		g := randomGraph(rng)
		src, ok := render(g, rng)
		if !ok {
			excluded++
			continue
		}
		src = decorate(src, g, rng)
		r.run(input{Src: src, Origin: "random"}, true)
	}
	// part 4: specs declaring several names, with type expressions over several declared types (spec.go); own PRNG stream
	nSpec := 600
	if a.Thorough() {
		nSpec = 12000
	}
	srng := vh.NewRng(a.Seed*104729 + 17)
	for i := 0; i < nSpec; i++ {
		r.run(input{Src: genSpecs(srng.Fork()), Origin: "multispec"}, true)
	}
	r.cw.Close()
	rep.Extra["exhaustive_inputs"] = nExh
	rep.Extra["identifier_keys_of_composite_literals"] = map[string]int{"field_names": keyTotals.FieldKeys, "expressions": keyTotals.ExprKeys,
		"decided_by_go/types": keyTotals.ByTypes, "decided_by_type_expression_shape": keyTotals.BySyntax, "undecided(counted as field name)": keyTotals.Undecided}
	rep.Extra["excluded_by_known_finding_class_F2"] = excluded
	rep.Extra["repetitions_per_input"] = r.reps
	rep.Exhaustive = false
	rep.Write()
}

package main

// Reference analysis (independent of base/dep): which top-level names occur free in each top-level declaration,
// with Go's scoping rules for parameters, results, receivers, locals (var/const/type/:=), range/if/for/switch
// scopes and labels; and the direct oracle of property C17 evaluated on the sorter's own output.

import (
	"fmt"
	"go/ast"
	"go/token"
	"sort"
	"strconv"
	"strings"
)

type refDecl struct {
	Kind string
	Name string
	Pos  int
	Refs []string // free identifiers (sorted, unique); resolved against the run later
}

type topItem struct {
	Class string // package import decl stmt
	Pos   int
	Decls []refDecl // package/import/stmt: one entry per emitted Decl
}

type scope struct {
	names map[string]bool
	outer *scope
}

func newScope(o *scope) *scope { return &scope{map[string]bool{}, o} }
func (s *scope) bound(n string) bool {
	for ; s != nil; s = s.outer {
		if s.names[n] {
			return true
		}
	}
	return false
}
func (s *scope) bind(id *ast.Ident) {
	if id != nil && id.Name != "_" {
		s.names[id.Name] = true
	}
}

type fv struct{ free map[string]bool }

func (w *fv) list() []string {
	var l []string
	for n := range w.free {
		l = append(l, n)
	}
	sort.Strings(l)
	return l
}

func (w *fv) fieldTypes(fl *ast.FieldList, sc *scope) {
	if fl == nil {
		return
	}
	for _, f := range fl.List {
		w.walk(f.Type, sc)
	}
}
func bindFields(fl *ast.FieldList, sc *scope) {
	if fl == nil {
		return
	}
	for _, f := range fl.List {
		for _, id := range f.Names {
			sc.bind(id)
		}
	}
}

func (w *fv) stmts(list []ast.Stmt, sc *scope) {
	for _, s := range list {
		w.walk(s, sc)
	}
}

func (w *fv) genDecl(d *ast.GenDecl, sc *scope) { // local declaration
	for _, spec := range d.Specs {
		switch sp := spec.(type) {
		case *ast.ValueSpec:
			w.walk(sp.Type, sc)
			for _, v := range sp.Values {
				w.walk(v, sc)
			}
			for _, id := range sp.Names {
				sc.bind(id)
			}
		case *ast.TypeSpec:
			sc.bind(sp.Name)
			w.walk(sp.Type, sc)
		}
	}
}

func (w *fv) walk(n ast.Node, sc *scope) {
	if n == nil {
		return
	}
	switch v := n.(type) { // typed nils
	case *ast.BlockStmt:
		if v == nil {
			return
		}
	case *ast.Ident:
		if v == nil {
			return
		}
	case *ast.FieldList:
		if v == nil {
			return
		}
	}
	ast.Inspect(n, func(m ast.Node) bool {
		switch m := m.(type) {
		case nil:
			return false
		case *ast.Ident:
			if m.Name != "_" && !sc.bound(m.Name) {
				w.free[m.Name] = true
			}
			return false
		case *ast.SelectorExpr:
			w.walk(m.X, sc)
			if id, ok := m.X.(*ast.Ident); ok && !sc.bound(id.Name) {
				w.free[id.Name+"."+m.Sel.Name] = true // method expression T.m (resolved only if such a method is declared)
			}
			return false
		case *ast.CompositeLit:
			// identifier keys: a FIELD NAME in a struct literal (not a reference), an EXPRESSION in a map / array / slice
			// literal (a reference).  go/types decides (keys.go); never the syntactic shape of the key alone.
			w.walk(m.Type, sc)
			for _, el := range m.Elts {
				kv, ok := el.(*ast.KeyValueExpr)
				if !ok {
					w.walk(el, sc)
					continue
				}
				if id, isId := kv.Key.(*ast.Ident); !isId || !curKeys.isFieldKey(m, id) {
					w.walk(kv.Key, sc)
				}
				w.walk(kv.Value, sc)
			}
			return false
		case *ast.FuncLit:
			inner := newScope(sc)
			w.fieldTypes(m.Type.Params, sc)
			w.fieldTypes(m.Type.Results, sc)
			bindFields(m.Type.Params, inner)
			bindFields(m.Type.Results, inner)
			w.stmts(m.Body.List, inner)
			return false
		case *ast.FuncType:
			w.fieldTypes(m.Params, sc)
			w.fieldTypes(m.Results, sc)
			return false
		case *ast.StructType:
			w.fieldTypes(m.Fields, sc)
			return false
		case *ast.InterfaceType:
			w.fieldTypes(m.Methods, sc)
			return false
		case *ast.BlockStmt:
			w.stmts(m.List, newScope(sc))
			return false
		case *ast.AssignStmt:
			for _, e := range m.Rhs {
				w.walk(e, sc)
			}
			for _, e := range m.Lhs {
				if id, ok := e.(*ast.Ident); ok && m.Tok == token.DEFINE {
					sc.bind(id)
				} else {
					w.walk(e, sc)
				}
			}
			return false
		case *ast.DeclStmt:
			if gd, ok := m.Decl.(*ast.GenDecl); ok {
				w.genDecl(gd, sc)
			}
			return false
		case *ast.LabeledStmt:
			w.walk(m.Stmt, sc)
			return false
		case *ast.BranchStmt:
			return false
		case *ast.IfStmt:
			s2 := newScope(sc)
			w.walk(m.Init, s2)
			w.walk(m.Cond, s2)
			w.stmts(m.Body.List, newScope(s2))
			w.walk(m.Else, s2)
			return false
		case *ast.ForStmt:
			s2 := newScope(sc)
			w.walk(m.Init, s2)
			w.walk(m.Cond, s2)
			w.walk(m.Post, s2)
			w.stmts(m.Body.List, newScope(s2))
			return false
		case *ast.RangeStmt:
			w.walk(m.X, sc)
			s2 := newScope(sc)
			for _, e := range []ast.Expr{m.Key, m.Value} {
				if e == nil {
					continue
				}
				if id, ok := e.(*ast.Ident); ok && m.Tok == token.DEFINE {
					s2.bind(id)
				} else {
					w.walk(e, sc)
				}
			}
			w.stmts(m.Body.List, newScope(s2))
			return false
		case *ast.SwitchStmt:
			s2 := newScope(sc)
			w.walk(m.Init, s2)
			w.walk(m.Tag, s2)
			w.clauses(m.Body, s2)
			return false
		case *ast.TypeSwitchStmt:
			s2 := newScope(sc)
			w.walk(m.Init, s2)
			w.walk(m.Assign, s2)
			w.clauses(m.Body, s2)
			return false
		case *ast.SelectStmt:
			w.clauses(m.Body, sc)
			return false
		}
		return true
	})
}

func (w *fv) clauses(b *ast.BlockStmt, sc *scope) {
	if b == nil {
		return
	}
	for _, c := range b.List {
		s2 := newScope(sc)
		switch c := c.(type) {
		case *ast.CaseClause:
			for _, e := range c.List {
				w.walk(e, sc)
			}
			w.stmts(c.Body, s2)
		case *ast.CommClause:
			w.walk(c.Comm, s2)
			w.stmts(c.Body, s2)
		}
	}
}

func freeOf(f func(w *fv, sc *scope)) []string {
	w := &fv{free: map[string]bool{}}
	f(w, nil)
	return w.list()
}

func union(a, b []string) []string {
	m := map[string]bool{}
	for _, x := range a {
		m[x] = true
	}
	for _, x := range b {
		m[x] = true
	}
	var l []string
	for x := range m {
		l = append(l, x)
	}
	sort.Strings(l)
	return l
}

func importName(im *ast.ImportSpec) string {
	if im.Name != nil {
		return im.Name.Name
	}
	p, err := strconv.Unquote(im.Path.Value)
	if err != nil {
		p = strings.Trim(im.Path.Value, "\"`")
	}
	return p[1+strings.LastIndexByte(p, '/'):]
}

func recvBase(e ast.Expr) string {
	for {
		switch x := e.(type) {
		case *ast.StarExpr:
			e = x.X
		case *ast.ParenExpr:
			e = x.X
		case *ast.Ident:
			return x.Name
		default:
			return "?"
		}
	}
}

func analyse(nodes []ast.Node) []topItem {
	curKeys = classifyKeys(nodes)
	var top []topItem
	for _, n := range nodes {
		switch classOf(n) {
		case "package":
			it := topItem{Class: "package", Pos: int(n.Pos())}
			for _, spec := range n.(*ast.GenDecl).Specs {
				v := spec.(*ast.ValueSpec)
				p := 0
				if len(v.Names) > 0 {
					p = int(v.Names[0].Pos())
				} else if len(v.Values) > 0 {
					p = int(v.Values[0].Pos())
				}
				it.Decls = append(it.Decls, refDecl{Kind: "Package", Pos: p})
			}
			top = append(top, it)
		case "import":
			it := topItem{Class: "import", Pos: int(n.Pos())}
			for _, spec := range n.(*ast.GenDecl).Specs {
				im := spec.(*ast.ImportSpec)
				it.Decls = append(it.Decls, refDecl{Kind: "Import", Name: importName(im), Pos: int(im.Pos())})
			}
			top = append(top, it)
		case "expr":
			top = append(top, topItem{Class: "stmt", Pos: int(n.Pos()), Decls: []refDecl{{Kind: "Expr", Pos: int(n.Pos())}}})
		case "stmt":
			top = append(top, topItem{Class: "stmt", Pos: int(n.Pos()), Decls: []refDecl{{Kind: "Stmt", Pos: int(n.Pos())}}})
		case "decl":
			it := topItem{Class: "decl", Pos: int(n.Pos())}
			switch d := n.(type) {
			case *ast.FuncDecl:
				name, kind := d.Name.Name, "Func"
				if d.Recv != nil && len(d.Recv.List) > 0 {
					name, kind = recvBase(d.Recv.List[0].Type)+"."+name, "Method"
				}
				refs := freeOf(func(w *fv, _ *scope) {
					sc := newScope(nil)
					w.fieldTypes(d.Recv, sc)
					w.fieldTypes(d.Type.Params, sc)
					w.fieldTypes(d.Type.Results, sc)
					bindFields(d.Recv, sc)
					bindFields(d.Type.Params, sc)
					bindFields(d.Type.Results, sc)
					if d.Body != nil {
						w.stmts(d.Body.List, sc)
					}
				})
				it.Decls = append(it.Decls, refDecl{Kind: kind, Name: name, Pos: int(d.Name.Pos()), Refs: refs})
			case *ast.GenDecl:
				var lastType ast.Expr
				var lastValues []ast.Expr
				for _, spec := range d.Specs {
					switch sp := spec.(type) {
					case *ast.TypeSpec:
						refs := freeOf(func(w *fv, _ *scope) { w.walk(sp.Type, newScope(nil)) })
						it.Decls = append(it.Decls, refDecl{Kind: "Type", Name: sp.Name.Name, Pos: int(sp.Name.Pos()), Refs: refs})
					case *ast.ValueSpec:
						typ, values := sp.Type, sp.Values
						kind := "Var"
						if d.Tok == token.CONST {
							kind = "Const"
							if sp.Type != nil || sp.Values != nil {
								lastType, lastValues = sp.Type, sp.Values
							}
							typ, values = lastType, lastValues
						}
						tref := freeOf(func(w *fv, _ *scope) { w.walk(typ, newScope(nil)) })
						multi := kind == "Var" && len(sp.Names) > 1 && len(values) == 1
						for i, id := range sp.Names {
							refs := tref
							k := kind
							if multi {
								k = "VarMulti"
								refs = union(refs, freeOf(func(w *fv, _ *scope) { w.walk(values[0], newScope(nil)) }))
							} else if i < len(values) {
								refs = union(refs, freeOf(func(w *fv, _ *scope) { w.walk(values[i], newScope(nil)) }))
							}
							it.Decls = append(it.Decls, refDecl{Kind: k, Name: id.Name, Pos: int(id.Pos()), Refs: refs})
						}
					}
				}
			}
			top = append(top, it)
		}
	}
	return top
}

type run struct {
	Class string
	Decls []refDecl
}

func runsOf(top []topItem) []run {
	var rs []run
	for _, t := range top {
		if len(rs) == 0 || rs[len(rs)-1].Class != t.Class {
			rs = append(rs, run{Class: t.Class})
		}
		rs[len(rs)-1].Decls = append(rs[len(rs)-1].Decls, t.Decls...)
	}
	return rs
}

// resolved dependency lists of a declaration run: references to names declared in the run; a function, method or type
// may refer to itself (recursion / self-referencing type)
func resolved(decls []refDecl) map[string][]string {
	declared := map[string]bool{}
	for _, d := range decls {
		declared[d.Name] = true
	}
	res := map[string][]string{}
	for _, d := range decls {
		for _, r := range d.Refs {
			if !declared[r] {
				continue
			}
			if r == d.Name && (d.Kind == "Func" || d.Kind == "Method" || d.Kind == "Type") {
				continue
			}
			res[d.Name] = append(res[d.Name], r)
		}
	}
	return res
}

// names lying on a dependency cycle (restricted to the declarations accepted by keep)
func cycleNodesIf(decls []refDecl, keep func(refDecl) bool) map[string]bool {
	deps := resolved(decls)
	ok := map[string]bool{}
	for _, d := range decls {
		if keep(d) {
			ok[d.Name] = true
		}
	}
	reach := func(from string) map[string]bool {
		seen := map[string]bool{}
		var st []string
		for _, x := range deps[from] {
			if ok[x] {
				st = append(st, x)
			}
		}
		for len(st) > 0 {
			x := st[len(st)-1]
			st = st[:len(st)-1]
			if seen[x] {
				continue
			}
			seen[x] = true
			for _, y := range deps[x] {
				if ok[y] {
					st = append(st, y)
				}
			}
		}
		return seen
	}
	on := map[string]bool{}
	for n := range ok {
		if reach(n)[n] {
			on[n] = true
		}
	}
	return on
}
func cycleNodes(decls []refDecl) map[string]bool {
	return cycleNodesIf(decls, func(refDecl) bool { return true })
}

type msg struct {
	what      string
	got, want interface{}
}

func isDeclKind(k string) bool {
	switch k {
	case "Const", "Var", "VarMulti", "Func", "Method", "Type", "TypeFwd", "Macro":
		return true
	}
	return false
}

// oracle: the property's predicates evaluated on the sorter's output
func oracle(top []topItem, obs observation) (fails []msg) {
	bad := func(what string, got, want interface{}) { fails = append(fails, msg{what, got, want}) }
	if obs.Panic != "" {
		bad("sorter panicked (not a declaration loop)", obs.Panic, nil)
		return
	}
	runs := runsOf(top)
	if obs.Loop {
		for _, r := range runs {
			if r.Class == "decl" && len(cycleNodes(r.Decls)) > 0 {
				return
			}
		}
		bad("declaration loop reported but the reference dependency graph has no cycle", "declaration loop", "sorted list")
		return
	}
	out := obs.Out
	k := 0
	for ri, r := range runs {
		switch r.Class {
		case "package", "import", "stmt":
			exp := append([]refDecl(nil), r.Decls...)
			if r.Class != "stmt" {
				sort.SliceStable(exp, func(a, b int) bool { return exp[a].Pos < exp[b].Pos })
			}
			for _, e := range exp {
				if k >= len(out) || out[k].Kind != e.Kind || out[k].Pos != e.Pos || (e.Kind == "Import" && out[k].Name != e.Name) {
					bad(fmt.Sprintf("phase split: run %d (%s) not emitted in place / in source order", ri, r.Class), out, e)
					return
				}
				k++
			}
		case "decl":
			start := k
			for k < len(out) && isDeclKind(out[k].Kind) {
				k++
			}
			seg := out[start:k]
			// (a) each declaration exactly once
			want := map[string]int{}
			for _, d := range r.Decls {
				want[fmt.Sprintf("%s %s@%d", d.Kind, d.Name, d.Pos)]++
			}
			got := map[string]int{}
			for _, d := range seg {
				if d.Kind != "TypeFwd" {
					got[fmt.Sprintf("%s %s@%d", d.Kind, d.Name, d.Pos)]++
				}
			}
			if fmt.Sprint(got) != fmt.Sprint(want) {
				bad(fmt.Sprintf("each-once: run %d is not a permutation of its declarations", ri), got, want)
				return
			}
			deps := resolved(r.Decls)
			byName := map[string]refDecl{}
			dup := false
			for _, d := range r.Decls {
				if _, ok := byName[d.Name]; ok {
					dup = true
				}
				byName[d.Name] = d
			}
			cyc := cycleNodes(r.Decls)
			// (g) a cycle without any type must be an error
			if nt := cycleNodesIf(r.Decls, func(d refDecl) bool { return d.Kind != "Type" }); len(nt) > 0 {
				bad("cycle without type declaration was not reported as declaration loop", seg, fmt.Sprint(nt))
			}
			if dup {
				continue // duplicate names: order predicates are stated for distinct names only
			}
			idx := map[string]int{}
			fwdIdx := map[string]int{}
			for i, d := range seg {
				if d.Kind == "TypeFwd" {
					if t, ok := byName[d.Name]; !ok || t.Kind != "Type" || !cyc[d.Name] {
						bad("TypeFwd emitted for a name that is not a type on a dependency cycle", d, nil)
					}
					if _, ok := fwdIdx[d.Name]; !ok {
						fwdIdx[d.Name] = i
					}
				} else {
					idx[d.Name] = i
				}
			}
			for n, fi := range fwdIdx {
				if fi > idx[n] {
					bad("TypeFwd emitted after its type declaration", n, nil)
				}
			}
			// (c) topological
			for i, d := range seg {
				if d.Kind == "TypeFwd" {
					continue
				}
				for _, dn := range deps[d.Name] {
					if idx[dn] < i && dn != d.Name {
						continue
					}
					if fi, ok := fwdIdx[dn]; ok && fi < i && d.Kind == "Type" {
						continue
					}
					bad("topological: declaration emitted before a declaration it refers to", fmt.Sprintf("%s before %s", d.Name, dn), seg)
				}
			}
			// (d) earliest ready
			emitted := map[string]bool{}
			for i, d := range seg {
				if d.Kind == "TypeFwd" {
					continue
				}
				for j := i + 1; j < len(seg); j++ {
					e := seg[j]
					if e.Kind == "TypeFwd" || e.Pos >= d.Pos {
						continue
					}
					ready := true
					for _, dn := range deps[e.Name] {
						if !emitted[dn] {
							ready = false
						}
					}
					if ready {
						bad("earliest-ready: a ready declaration with a smaller position was passed over", fmt.Sprintf("%s@%d chosen while %s@%d was ready", d.Name, d.Pos, e.Name, e.Pos), seg)
					}
				}
				emitted[d.Name] = true
			}
		}
	}
	if k != len(out) {
		bad("phase split: output has extra / misplaced declarations", out[k:], nil)
	}
	return
}

package main

// Identifier keys of composite literals: `T{x: 1}`.  In a struct literal the key is a field name and NOT a reference to a
// package-level declaration named x; in a map / array / slice literal it is an ordinary expression and IS a reference.
// Only the type of the literal can tell, so go/types is asked (the declarations of the input, type-checked as one file;
// type errors elsewhere in the input are ignored - go/types records what it can resolve).  When go/types has no answer
// (the literal's type is invalid) the syntactic shape of the literal's type expression is followed through the type
// declarations of the input; what is still unknown counts as a field name and is reported in the distribution.

import (
	"go/ast"
	"go/token"
	"go/types"

	"verifh/vh"
)

type keyClassifier struct {
	info      *types.Info
	typeDecls map[string]ast.Expr
	ByTypes   int // decided by go/types
	BySyntax  int // decided by the shape of the literal's type expression
	Undecided int
	FieldKeys int // identifier keys classified as field names
	ExprKeys  int // identifier keys classified as expressions (references)
}

var curKeys *keyClassifier
var keyTotals keyClassifier

func classifyKeys(nodes []ast.Node) *keyClassifier {
	k := &keyClassifier{typeDecls: map[string]ast.Expr{},
		info: &types.Info{Uses: map[*ast.Ident]types.Object{}, Types: map[ast.Expr]types.TypeAndValue{}}}
	file := &ast.File{Name: ast.NewIdent("p"), FileStart: token.Pos(1), FileEnd: token.Pos(1 << 40)}
	for _, n := range nodes {
		switch d := n.(type) {
		case *ast.GenDecl:
			if d.Tok == token.PACKAGE || d.Tok == token.IMPORT {
				continue
			}
			if d.Tok == token.TYPE {
				for _, sp := range d.Specs {
					if ts, ok := sp.(*ast.TypeSpec); ok {
						if _, dup := k.typeDecls[ts.Name.Name]; !dup {
							k.typeDecls[ts.Name.Name] = ts.Type
						}
					}
				}
			}
			file.Decls = append(file.Decls, d)
		case *ast.FuncDecl:
			file.Decls = append(file.Decls, d)
		}
	}
	vh.Catch(func() {
		conf := types.Config{Error: func(error) {}}
		conf.Check("p", token.NewFileSet(), []*ast.File{file}, k.info)
	})
	return k
}

// shape of a type expression: 's' struct, 'e' map/array/slice (keys are expressions), 0 unknown
func (k *keyClassifier) shape(e ast.Expr, depth int) byte {
	switch t := e.(type) {
	case *ast.ParenExpr:
		return k.shape(t.X, depth)
	case *ast.StructType:
		return 's'
	case *ast.MapType, *ast.ArrayType:
		return 'e'
	case *ast.Ident:
		if d, ok := k.typeDecls[t.Name]; ok && depth < 16 {
			return k.shape(d, depth+1)
		}
	}
	return 0
}

func (k *keyClassifier) isFieldKey(lit *ast.CompositeLit, key *ast.Ident) (field bool) {
	if k == nil {
		return true
	}
	defer func() {
		if field {
			k.FieldKeys++
			keyTotals.FieldKeys++
		} else {
			k.ExprKeys++
			keyTotals.ExprKeys++
		}
	}()
	if obj := k.info.Uses[key]; obj != nil {
		k.ByTypes++
		keyTotals.ByTypes++
		v, ok := obj.(*types.Var)
		return ok && v.IsField()
	}
	if tv, ok := k.info.Types[lit]; ok && tv.Type != nil {
		t := tv.Type
		if p, isPtr := t.Underlying().(*types.Pointer); isPtr { // elided &T{...}
			t = p.Elem()
		}
		switch t.Underlying().(type) {
		case *types.Struct:
			k.ByTypes++
			keyTotals.ByTypes++
			return true
		case *types.Map, *types.Slice, *types.Array:
			k.ByTypes++
			keyTotals.ByTypes++
			return false
		}
	}
	if lit.Type != nil {
		switch k.shape(lit.Type, 0) {
		case 's':
			k.BySyntax++
			keyTotals.BySyntax++
			return true
		case 'e':
			k.BySyntax++
			keyTotals.BySyntax++
			return false
		}
	}
	k.Undecided++
	keyTotals.Undecided++
	return true
}

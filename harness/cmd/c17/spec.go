package main

// spec.go: declaration SPECS that declare several names (part 4 of the generators).
//
// gen.go renders one name per declaration.  Here one var / const spec declares 1..3 names:
//   var a, b TYPE = e1, e2        every name has its own initialiser (own dependencies) and shares the type expression
//   var a, b TYPE = f()           one multi-valued initialiser (VarMulti)
//   var a, b TYPE                 no initialiser
//   const a, b TYPE = e1, e2      and const groups whose later specs inherit type and initialisers (iota)
// TYPE is empty or a type EXPRESSION over 1..4 declared type names, possibly the same name twice
// (map[K]K, func(X, Y) Z, struct{ f0 *X; f1 []Y }, [C]X with a declared constant C, chan, pointer, slice ...), so the
// dependency list of the type has 1..5 entries with and without duplicates.  Initialisers refer to different declared
// functions / variables / constants / types, directly or inside function literals.  Specs are also grouped: var ( ... ).
// The programs only need to parse (dep.Sorter does not type-check).  The excluded classes of gen.go are respected:
// no local is named like a declaration (F1); a reference from scope depth >= 2 (function declarations, function
// literals, struct inside func type ...) only goes to a name declared LATER in the text (F2); no identifier keys in
// map / array literals (C17-3).

import (
	"fmt"
	"strings"

	"verifh/vh"
)

type sunit struct {
	kind  string // type func var const
	names []string
	rank  int
	text  string
}

// a reference to a declared name as an expression
func sref(r *vh.Rng, name, kind string) string {
	switch kind {
	case "func":
		return name + "()"
	case "type":
		return []string{name + "{}", "new(" + name + ")", name + "(nil)", "len([]" + name + "{})", "[]" + name + "{}"}[r.Intn(5)]
	}
	return name
}

// typeExpr builds a type expression at scope depth <= 1 over the given declared type names (all of them are used);
// flat = inside a func / struct type already (no further func / struct nesting: that would be depth 2)
func typeExpr(r *vh.Rng, ts []string, flat bool) string {
	unary := func(t string) string {
		return []string{t, "*" + t, "[]" + t, "map[string]" + t, "chan " + t, "[2]" + t, "map[" + t + "]bool"}[r.Intn(7)]
	}
	switch len(ts) {
	case 0:
		return []string{"int", "map[string]int", "[]string"}[r.Intn(3)]
	case 1:
		if !flat && r.Chance(1, 4) {
			return "func(" + ts[0] + ") " + ts[0]
		}
		if r.Chance(1, 4) {
			return "map[" + ts[0] + "]" + ts[0] // the same dependency twice
		}
		return unary(ts[0])
	}
	k := 1 + r.Intn(len(ts)-1)
	form := r.Intn(4)
	if flat && form >= 2 {
		form = r.Intn(2)
	}
	switch form {
	case 0:
		return "map[" + unary(ts[0]) + "]" + typeExpr(r, ts[1:], flat)
	case 1:
		return []string{"[]", "*", "chan ", "[3]"}[r.Intn(4)] + "map[" + typeExpr(r, ts[:k], true) + "]" + typeExpr(r, ts[k:], true)
	case 2:
		var ps []string
		for _, t := range ts[:len(ts)-1] {
			ps = append(ps, unary(t))
		}
		if r.Bool() {
			return "func(" + strings.Join(ps, ", ") + ") " + unary(ts[len(ts)-1])
		}
		return "func(" + strings.Join(ps[:len(ps)-1], ", ") + ") (" + ps[len(ps)-1] + ", " + unary(ts[len(ts)-1]) + ")"
	default:
		var fs []string
		for i, t := range ts {
			fs = append(fs, fmt.Sprintf("f%d %s", i, unary(t)))
		}
		return "struct{ " + strings.Join(fs, "; ") + " }"
	}
}

func genSpecs(r *vh.Rng) string {
	pool := append([]string(nil), names...)
	for i := len(pool) - 1; i > 0; i-- {
		j := r.Intn(i + 1)
		pool[i], pool[j] = pool[j], pool[i]
	}
	n := 7 + r.Intn(len(pool)-6)
	pool = pool[:n]
	take := func(k int) []string {
		if k > len(pool) {
			k = len(pool)
		}
		out := pool[:k]
		pool = pool[k:]
		return out
	}
	var units []*sunit
	for i, nt := 0, 2+r.Intn(3); i < nt; i++ {
		units = append(units, &sunit{kind: "type", names: take(1)})
	}
	for i, nf := 0, 2+r.Intn(2); i < nf; i++ {
		units = append(units, &sunit{kind: "func", names: take(1)})
	}
	for len(pool) > 0 {
		k := 1 + r.Intn(3)
		if r.Chance(1, 4) {
			units = append(units, &sunit{kind: "const", names: take(k)})
		} else {
			units = append(units, &sunit{kind: "var", names: take(k)})
		}
	}
	// text order and dependency rank are independent random permutations
	for i := len(units) - 1; i > 0; i-- {
		j := r.Intn(i + 1)
		units[i], units[j] = units[j], units[i]
	}
	perm := make([]int, len(units))
	for i := range perm {
		perm[i] = i
	}
	for i := len(perm) - 1; i > 0; i-- {
		j := r.Intn(i + 1)
		perm[i], perm[j] = perm[j], perm[i]
	}
	for i, u := range units {
		u.rank = perm[i]
	}
	cyclic := r.Chance(1, 8)
	type cand struct {
		name, kind string
		later      bool
	}
	// names unit ui may refer to; deep = from scope depth >= 2
	cands := func(ui int, kinds string, deep bool) []cand {
		var out []cand
		for vi, v := range units {
			if vi == ui || !strings.Contains(kinds, v.kind) {
				continue
			}
			if !cyclic && v.rank >= units[ui].rank {
				continue
			}
			if deep && vi < ui {
				continue
			}
			for _, nm := range v.names {
				out = append(out, cand{nm, v.kind, vi > ui})
			}
		}
		return out
	}
	pick := func(cs []cand, k int) []cand {
		var out []cand
		for i := 0; i < k && len(cs) > 0; i++ {
			out = append(out, cs[r.Intn(len(cs))])
		}
		return out
	}
	// an initialiser expression with 0..2 references
	initExpr := func(ui int, kinds string) string {
		var terms []string
		for _, c := range pick(cands(ui, kinds, false), r.Intn(3)) {
			t := sref(r, c.name, c.kind)
			if c.later && r.Chance(1, 4) {
				t = "func() int { return " + t + " }()"
			}
			terms = append(terms, t)
		}
		if len(terms) == 0 {
			return fmt.Sprint(1 + r.Intn(9))
		}
		return strings.Join(terms, " + ")
	}
	typeOf := func(ui int) string {
		cs := cands(ui, "type", false)
		if len(cs) == 0 {
			return typeExpr(r, nil, false)
		}
		var ts []string
		for _, c := range pick(cs, 1+r.Intn(4)) {
			ts = append(ts, c.name)
		}
		t := typeExpr(r, ts, false)
		if cc := cands(ui, "const", false); len(cc) > 0 && r.Chance(1, 5) {
			t = "[" + cc[r.Intn(len(cc))].name + "]" + t
		}
		return t
	}
	for ui, u := range units {
		switch u.kind {
		case "type":
			cs := pick(cands(ui, "type", false), r.Intn(3))
			var ts []string
			for _, c := range cs {
				ts = append(ts, c.name)
			}
			switch {
			case len(ts) == 0:
				u.text = "type " + u.names[0] + " " + []string{"int", "struct{ v int }", "[]byte"}[r.Intn(3)]
			case r.Chance(1, 3):
				u.text = "type " + u.names[0] + " " + typeExpr(r, ts, true)
			default:
				var fs []string
				for i, t := range ts {
					fs = append(fs, fmt.Sprintf("f%d %s", i, []string{"*" + t, "[]" + t, "map[string]" + t, t}[r.Intn(4)]))
				}
				u.text = "type " + u.names[0] + " struct{ " + strings.Join(fs, "; ") + " }"
			}
		case "func":
			var params, body []string
			for _, c := range pick(cands(ui, "type func var const", true), r.Intn(3)) {
				if c.kind == "type" && r.Bool() {
					params = append(params, fmt.Sprintf("p%d %s", len(params), c.name))
				} else {
					body = append(body, "_ = "+sref(r, c.name, c.kind))
				}
			}
			res := ""
			if cs := cands(ui, "type", true); len(cs) > 0 && r.Chance(1, 3) {
				res = " " + cs[r.Intn(len(cs))].name
				body = append(body, "panic(0)")
			}
			u.text = "func " + u.names[0] + "(" + strings.Join(params, ", ") + ")" + res + " { " + strings.Join(body, "; ") + " }"
		case "var":
			typ := ""
			form := r.Intn(8) // 0: no initialiser; 1: one multi-valued call; else one initialiser per name
			if form <= 1 || r.Chance(3, 4) {
				typ = " " + typeOf(ui)
			}
			lhs := strings.Join(u.names, ", ")
			switch {
			case form == 0:
				u.text = "var " + lhs + typ
			case form == 1 && len(u.names) > 1:
				if fs := cands(ui, "func", false); len(fs) > 0 {
					u.text = "var " + lhs + typ + " = " + fs[r.Intn(len(fs))].name + "()"
				} else {
					u.text = "var " + lhs + typ + " = func() (int, int, int) { return 1, 2, 3 }()"
				}
			default:
				var es []string
				for range u.names {
					es = append(es, initExpr(ui, "func var const type"))
				}
				u.text = "var " + lhs + typ + " = " + strings.Join(es, ", ")
			}
		case "const":
			typ := ""
			if cs := cands(ui, "type", false); len(cs) > 0 && r.Bool() {
				typ = " " + cs[r.Intn(len(cs))].name
			}
			var es []string
			for range u.names {
				e := initExpr(ui, "const")
				if r.Chance(1, 3) {
					e = "iota + " + e
				}
				es = append(es, e)
			}
			u.text = "const " + strings.Join(u.names, ", ") + typ + " = " + strings.Join(es, ", ")
		}
	}
	// grouping: adjacent var specs share one GenDecl; two adjacent const specs with the same number of names become an
	// iota group whose second spec inherits type and initialisers of the first
	var out []string
	for i := 0; i < len(units); i++ {
		u := units[i]
		if i+1 < len(units) && u.kind == units[i+1].kind && (u.kind == "var" || u.kind == "const") && r.Chance(1, 2) {
			v := units[i+1]
			second := strings.TrimPrefix(v.text, v.kind+" ")
			if u.kind == "const" && len(u.names) == len(v.names) && r.Bool() {
				second = strings.Join(v.names, ", ")
			}
			out = append(out, u.kind+" (\n\t"+strings.TrimPrefix(u.text, u.kind+" ")+"\n\t"+second+"\n)")
			i++
			continue
		}
		out = append(out, u.text)
	}
	return strings.Join(out, "\n")
}

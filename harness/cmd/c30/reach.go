package main

// reach.go: (1) the walk over EVERY type reachable from the objects of a converted package - through underlying types,
// struct fields, signatures, explicit methods of named types, explicit methods and embedded types of interfaces, at any
// depth, also into the named types of other packages - comparing at each interface its completeness and complete method
// set, and at each named type its explicit methods, with go/types;
// (2) a synthetic stream of two-package programs (type-checked from source) in which an interface / a named type with
// methods is FIRST reached from a method signature, an embedded interface, a struct field or a func parameter, in
// several declaration (= scope) orders and at several chain depths; only the importing package is converted, on a
// fresh Converter (what xreflect.Importer does for the first import of a session).
//
// Finding C30-3 (fix: fixes/C30-3.diff): Converter.Package completed the pending interfaces BEFORE it converted the
// methods of named types, and ranged over c.toaddmethods while the conversion of method signatures inserted into it:
// interfaces first reached from a method signature stayed incomplete (NumMethods()==0, printed "/* incomplete */",
// implemented by every type), named types first reached from one kept 0 methods or not depending on map order.
// While the probe finds the defect present, the deviations of exactly that shape (interface incomplete / named type
// with no method at all) are reported under the key of the corpus entry `latemeth` if that key is registered in
// known_findings.json, and listed in report.json extra "deferred_corpus_failures" otherwise; every other deviation
// is always a failure.

import (
	"encoding/json"
	"fmt"
	"go/ast"
	"go/parser"
	"go/token"
	gotypes "go/types"
	"os"
	"path/filepath"
	"sort"
	"strings"

	"github.com/cosmos72/gomacro/go/types"
	"verifh/vh"
)

const (
	whatIface     = "reachable interface incomplete or wrong method set"
	whatNamed     = "reachable named type: explicit methods"
	lateKey       = whatIface + ": corpus/latemeth.T.M>param0"
	lateDefectTag = "defect_present:interface-first-reached-from-method-signature-left-incomplete(C30-3)"
)

// registeredKeys: the keys recorded for property C30 in $VERIF_DIR/known_findings.json
func registeredKeys() map[string]bool {
	out := map[string]bool{}
	var kf struct {
		Findings []struct {
			Property string   `json:"property"`
			Key      string   `json:"key"`
			Other    []string `json:"other_keys"`
		} `json:"findings"`
	}
	if b, err := os.ReadFile(filepath.Join(verifDir(), "known_findings.json")); err == nil && json.Unmarshal(b, &kf) == nil {
		for _, f := range kf.Findings {
			if f.Property == "C30" {
				out[f.Key] = true
				for _, k := range f.Other {
					out[k] = true
				}
			}
		}
	}
	return out
}

type lateState struct {
	defect     bool
	registered map[string]bool
	deferred   []string
}

// failLate: a deviation found by the reachability walk; shaped = it has exactly the shape of finding C30-3
func (h *H) failLate(what, pkg, obj string, shaped bool, got, want interface{}) {
	if !shaped || !h.late.defect || os.Getenv("VERIF_C30_NODEFER") != "" { // the variable: self-test of the gate
		h.fail(what, pkg, obj, got, want)
		return
	}
	h.stats["deviations_of_class_C30_3_while_defect_present"]++
	key := what + ": " + pkg + "." + obj
	if h.late.registered[lateKey] {
		h.nfail[what+" (C30-3 class)"]++
		if h.nfail[what+" (C30-3 class)"] <= 5 {
			h.rep.Fail(vh.Failure{Key: lateKey, What: what + " (type first reached from a method signature: class of C30-3)",
				Input: map[string]string{"package": pkg, "object": obj}, Got: got, Want: want})
		}
		return
	}
	if len(h.late.deferred) < 40 {
		h.late.deferred = append(h.late.deferred, key)
	}
}

type reach struct {
	h    *H
	pkg  string // name of the package in failure keys
	self string // its import path
	seen map[gotypes.Type]bool
}

// gname: Name for the types of the walked package, path.Name for the others
func (w *reach) gname(t *gotypes.Named) string {
	if pp := gpath(t.Obj().Pkg()); pp != w.self {
		return pp + "." + t.Obj().Name()
	}
	return t.Obj().Name()
}

// imethods: complete method list of an interface as sorted "name sig" lines (receiver-free signatures)
func gimethods(it *gotypes.Interface, n intern) []string {
	var out []string
	for i := 0; i < it.NumMethods(); i++ {
		m := it.Method(i)
		id := m.Name()
		if !ast.IsExported(id) && m.Pkg() != nil {
			id = m.Pkg().Path() + "·" + id
		}
		out = append(out, id+" "+encGSig(m.Type().(*gotypes.Signature), n, 0, false))
	}
	sort.Strings(out)
	return out
}
func fimethods(it *types.Interface, n intern) []string {
	var out []string
	for i := 0; i < it.NumMethods(); i++ {
		m := it.Method(i)
		id := m.Name()
		if !ast.IsExported(id) && m.Pkg() != nil {
			id = m.Pkg().Path() + "·" + id
		}
		out = append(out, id+" "+encFSig(m.Type().(*types.Signature), n, 0, false))
	}
	sort.Strings(out)
	return out
}
func dedup(xs []string) []string {
	var out []string
	for i, x := range xs {
		if i == 0 || x != xs[i-1] {
			out = append(out, x)
		}
	}
	return out
}

func (w *reach) iface(g *gotypes.Interface, f *types.Interface, where string) {
	h := w.h
	h.stats["reachable_interfaces_compared"]++
	if generic(g, 0) {
		h.stats["reachable_interfaces_mentioning_generics_excluded"]++
		return
	}
	var (
		str              string
		gm, fm           []string
		gms, fms         []string
		nexp, nemb, nall int
	)
	n := intern{}
	if e := vh.Catch(func() {
		str = types.TypeString(f, fqual)
		_ = f.String()
		nexp, nemb, nall = f.NumExplicitMethods(), f.NumEmbeddeds(), f.NumMethods()
		fm = fimethods(f, n)
		ms := types.NewMethodSet(f)
		for i := 0; i < ms.Len(); i++ {
			fms = append(fms, ms.At(i).Obj().Name())
		}
		_ = f.Empty()
	}); e != nil {
		h.failLate("reachable interface: NumMethods/Method/NewMethodSet/String panics", w.pkg, where, false, fmt.Sprint(e), "no panic")
		return
	}
	gm = gimethods(g, n)
	ms := gotypes.NewMethodSet(g)
	for i := 0; i < ms.Len(); i++ {
		gms = append(gms, ms.At(i).Obj().Name())
	}
	sort.Strings(gms)
	sort.Strings(fms)
	incomplete := strings.HasSuffix(str, "/* incomplete */}")
	got := map[string]interface{}{"incomplete": incomplete, "methods": fm, "explicit": nexp, "embeddeds": nemb, "printed": str}
	want := map[string]interface{}{"incomplete": false, "methods": gm, "explicit": g.NumExplicitMethods(), "embeddeds": g.NumEmbeddeds()}
	switch {
	case incomplete:
		// shape of C30-3: incomplete, hence no method at all
		h.failLate(whatIface, w.pkg, where, nall == 0, got, want)
	case f.Empty() != g.Empty():
		h.failLate(whatIface, w.pkg, where, false, got, want)
	case strings.Join(gm, "\n") == strings.Join(fm, "\n") && (nexp != g.NumExplicitMethods() || nemb != g.NumEmbeddeds()):
		// same complete method set, other split into explicit methods / embedded interfaces: the converter's cache is a
		// typeutil.Map (keyed by types.Identical), an interface literal identical to one converted before gets that one's
		// structure (`interface{ I; J }` after `J interface{ I; N() }`): identity is preserved, recorded only
		h.note("reachable_interfaces_with_structure_of_an_identical_interface_from_the_cache", w.pkg+": "+where)
	case nexp != g.NumExplicitMethods() || nemb != g.NumEmbeddeds():
		h.failLate(whatIface, w.pkg, where, false, got, want)
	case strings.Join(gm, "\n") != strings.Join(fm, "\n"):
		if strings.Join(gm, "\n") == strings.Join(dedup(fm), "\n") {
			// an interface embedding overlapping interfaces: the fork's Interface.Complete predates Go 1.14 and lists
			// the shared methods twice - not the converter (same note as comparePackage makes for unexported types)
			h.note("reachable_interfaces_listing_shared_methods_of_overlapping_embeddeds_twice", w.pkg+": "+where)
		} else {
			h.failLate(whatIface, w.pkg, where, false, got, want)
		}
	case strings.Join(gms, ",") != strings.Join(dedup(fms), ","):
		h.failLate("reachable interface: NewMethodSet names", w.pkg, where, false, fms, gms)
	}
	h.stats["reachable_interface_methods_compared"] += len(gm)
}

func (w *reach) walk(g gotypes.Type, f types.Type, where string) {
	if g == nil || f == nil || w.seen[g] {
		return
	}
	w.seen[g] = true
	h := w.h
	switch g := g.(type) {
	case *gotypes.Alias:
		w.walk(gotypes.Unalias(g), f, where)
	case *gotypes.Named:
		fn, ok := f.(*types.Named)
		if !ok || g.TypeParams().Len() > 0 || g.TypeArgs().Len() > 0 {
			return
		}
		name := w.gname(g)
		h.stats["reachable_named_types_compared"]++
		if gpath(g.Obj().Pkg()) != w.self {
			h.stats["reachable_named_types_of_other_packages"]++
		}
		if generic(g.Underlying(), 0) {
			// e.g. a constraint interface `interface{ ~int | ~float64 }`: compared by name only (comparePackage)
			h.stats["reachable_named_types_with_generic_components_excluded"]++
			return
		}
		if fn.Underlying() == nil {
			h.failLate("reachable named type without underlying type", w.pkg, name, false, nil, norm(gotypes.TypeString(g.Underlying(), gqual)))
			return
		}
		if gi, ok := g.Underlying().(*gotypes.Interface); ok {
			if fi, ok := fn.Underlying().(*types.Interface); ok {
				w.seen[gi] = true
				w.iface(gi, fi, name)
				w.ifaceParts(gi, fi, name)
			} else {
				h.failLate(whatIface, w.pkg, name, false, types.TypeString(fn.Underlying(), fqual), "an interface")
			}
		} else {
			w.walk(g.Underlying(), fn.Underlying(), name)
			if !generic(g.Underlying(), 0) {
				n := intern{}
				gm, gen := gmethods(g, n)
				if !gen {
					fm := fmethods(fn, n)
					if strings.Join(gm, "\n") != strings.Join(fm, "\n") {
						h.failLate(whatNamed, w.pkg, name, len(fm) == 0, fm, gm)
					}
					h.stats["reachable_named_type_methods_compared"] += len(gm)
				}
			}
		}
		fms := map[string]*types.Func{}
		for i := 0; i < fn.NumMethods(); i++ {
			m := fn.Method(i)
			fms[fpath(m.Pkg())+"."+m.Name()] = m
		}
		for i := 0; i < g.NumMethods(); i++ {
			m := g.Method(i)
			if fmm := fms[gpath(m.Pkg())+"."+m.Name()]; fmm != nil {
				w.walk(m.Type(), fmm.Type(), name+"."+m.Name())
			}
		}
	case *gotypes.Pointer:
		if f, ok := f.(*types.Pointer); ok {
			w.walk(g.Elem(), f.Elem(), where+">*")
		}
	case *gotypes.Slice:
		if f, ok := f.(*types.Slice); ok {
			w.walk(g.Elem(), f.Elem(), where+">[]")
		}
	case *gotypes.Array:
		if f, ok := f.(*types.Array); ok {
			w.walk(g.Elem(), f.Elem(), where+">[n]")
		}
	case *gotypes.Chan:
		if f, ok := f.(*types.Chan); ok {
			w.walk(g.Elem(), f.Elem(), where+">chan")
		}
	case *gotypes.Map:
		if f, ok := f.(*types.Map); ok {
			w.walk(g.Key(), f.Key(), where+">key")
			w.walk(g.Elem(), f.Elem(), where+">elem")
		}
	case *gotypes.Signature:
		f, ok := f.(*types.Signature)
		if !ok || g.TypeParams().Len() > 0 || g.RecvTypeParams().Len() > 0 {
			return
		}
		if r, fr := g.Recv(), f.Recv(); r != nil && fr != nil {
			w.walk(r.Type(), fr.Type(), where+">recv")
		}
		for i := 0; i < g.Params().Len() && f.Params() != nil && i < f.Params().Len(); i++ {
			w.walk(g.Params().At(i).Type(), f.Params().At(i).Type(), fmt.Sprintf("%s>param%d", where, i))
		}
		for i := 0; i < g.Results().Len() && f.Results() != nil && i < f.Results().Len(); i++ {
			w.walk(g.Results().At(i).Type(), f.Results().At(i).Type(), fmt.Sprintf("%s>result%d", where, i))
		}
	case *gotypes.Struct:
		if f, ok := f.(*types.Struct); ok {
			for i := 0; i < g.NumFields() && i < f.NumFields(); i++ {
				w.walk(g.Field(i).Type(), f.Field(i).Type(), where+">field "+g.Field(i).Name())
			}
		}
	case *gotypes.Interface:
		if f, ok := f.(*types.Interface); ok {
			w.iface(g, f, where)
			w.ifaceParts(g, f, where)
		}
	}
}

// ifaceParts descends into the explicit methods (matched by name) and the embedded types (matched by printed form:
// the fork sorts them) of an interface
func (w *reach) ifaceParts(g *gotypes.Interface, f *types.Interface, where string) {
	fm := map[string]*types.Func{}
	for i := 0; i < f.NumExplicitMethods(); i++ {
		m := f.ExplicitMethod(i)
		fm[fpath(m.Pkg())+"."+m.Name()] = m
	}
	for i := 0; i < g.NumExplicitMethods(); i++ {
		m := g.ExplicitMethod(i)
		if fmm := fm[gpath(m.Pkg())+"."+m.Name()]; fmm != nil {
			w.walk(m.Type(), fmm.Type(), where+">method "+m.Name())
		}
	}
	used := map[int]bool{}
	for i := 0; i < g.NumEmbeddeds(); i++ {
		ge := g.EmbeddedType(i)
		if generic(ge, 0) {
			continue
		}
		gs := norm(gotypes.TypeString(ge, gqual))
		for j := 0; j < f.NumEmbeddeds(); j++ {
			if !used[j] && types.TypeString(f.EmbeddedType(j), fqual) == gs {
				used[j] = true
				w.walk(ge, f.EmbeddedType(j), where+">embedded "+gs)
				break
			}
		}
	}
}

// compareReachable: the walk from every object of the scope (generic declarations excluded as in comparePackage)
func (h *H) compareReachable(gp *gotypes.Package, p *types.Package, pkgname string) {
	w := &reach{h: h, pkg: pkgname, self: gp.Path(), seen: map[gotypes.Type]bool{}}
	for _, name := range gp.Scope().Names() {
		o := gp.Scope().Lookup(name)
		if generic(o.Type(), 0) {
			continue
		}
		fo := p.Scope().Lookup(name)
		if fo == nil {
			continue // reported by comparePackage
		}
		w.walk(o.Type(), fo.Type(), name)
	}
}

// ---- synthetic two-package programs ----

type mapImporter map[string]*gotypes.Package

func (m mapImporter) Import(path string) (*gotypes.Package, error) {
	if p := m[path]; p != nil {
		return p, nil
	}
	return nil, fmt.Errorf("no package %q", path)
}

func checkSrc(path, src string, imp gotypes.Importer) (*gotypes.Package, error) {
	fset := token.NewFileSet()
	f, err := parser.ParseFile(fset, path+".go", src, 0)
	if err != nil {
		return nil, err
	}
	conf := gotypes.Config{Importer: imp}
	return conf.Check(path, fset, []*ast.File{f}, nil)
}

// the dependency: never converted itself, only reached from package b
const synthDep = `package a
type I interface { M(x int) string }
type J interface { I; N() }
type K interface { J; O(K) I }
type Ov interface { I; J }
type S struct { F I; G []J }
type U int
func (U) String() string { return "" }
func (u *U) Set(i I) J { return nil }
type V struct { u U }
func (v V) Get() U { return v.u }
func (v *V) Deep(x interface{ P() K }) *W { return nil }
type W struct{ next *W }
func (w *W) Next(f func(I) S) map[U]chan V { return nil }
func (w W) Lit() interface{ J; Q() interface{ R() } } { return nil }
`

// shapes of the type through which the method signature of T reaches the late type; %s = the late type
var synthWraps = []string{"%s", "*%s", "[]%s", "[2]%s", "map[string]%s", "chan %s", "func(%s)", "func() %s", "struct{ F %s }", "struct{ %s }", "interface{ X() %s }", "...%s"}

// the late types: named types of the dependency and interface literals
var synthLate = []string{"a.I", "a.J", "a.K", "a.Ov", "a.S", "a.U", "a.V", "a.W", "*a.V", "*a.W",
	"interface{ Foo() }", "interface{ a.I }", "interface{ a.J; Foo(a.K) a.U }", "interface{ error; Foo() }", "interface{ Foo() interface{ Bar() a.I } }"}

type synthProg struct {
	name, src string
	late      bool // the late type is reached from a method signature only
}

func synthOne(id int, wrap, late string, pos int, ptrRecv bool, tname string, early bool) synthProg {
	typ := fmt.Sprintf(wrap, late)
	embeddedField := wrap == "struct{ %s }"
	if embeddedField && strings.HasPrefix(late, "interface") {
		typ = fmt.Sprintf("struct{ F %s }", late) // an interface literal cannot be embedded
	}
	variadic := strings.HasPrefix(wrap, "...")
	recv := tname
	if ptrRecv {
		recv = "*" + tname
	}
	var sb strings.Builder
	fmt.Fprintf(&sb, "package b\nimport \"a\"\nvar _ a.U\n")
	fmt.Fprintf(&sb, "type %s struct{ n int }\n", tname)
	switch {
	case variadic || pos == 0:
		fmt.Fprintf(&sb, "func (t %s) M(n int, x %s) {}\n", recv, typ)
	case pos == 1:
		fmt.Fprintf(&sb, "func (t %s) M() (r %s) { return }\n", recv, typ)
	default:
		fmt.Fprintf(&sb, "func (t %s) M(f func(x %s) error) (bool, error) { return false, nil }\n", recv, typ)
	}
	// other declarations around T (scope order = name order): unrelated to the late type ...
	fmt.Fprintf(&sb, "type Aa struct{ t *%s }\nfunc (Aa) M() {}\ntype Zz interface{ M() }\nvar Mm %s\nfunc Ff(%s) {}\n", tname, tname, tname)
	if early {
		// ... or one that mentions it outside any method: then the late type is reached while the objects are converted
		fmt.Fprintf(&sb, "var Early %s\n", strings.Replace(typ, "...", "[]", 1))
	}
	return synthProg{name: fmt.Sprintf("synth%03d", id), src: sb.String(), late: !early}
}

func (h *H) synthPrograms() []synthProg {
	var out []synthProg
	id := 0
	// bounded-exhaustive: wrap x late type, position/receiver/name order rotating; every 5th with an early mention
	for wi, wrap := range synthWraps {
		for li, late := range synthLate {
			k := wi*len(synthLate) + li
			tname := []string{"T", "Ab", "Zy"}[k%3] // T sorts between / before / after the other declarations
			out = append(out, synthOne(id, wrap, late, k%3, k%2 == 0, tname, k%5 == 4))
			id++
		}
	}
	// random combinations (own stream: the std sample keeps its seeds)
	rng := vh.NewRng(h.a.Seed ^ 0xC30C30)
	n := 60
	if h.a.Thorough() {
		n = 600
	}
	for i := 0; i < n; i++ {
		wrap := synthWraps[rng.Intn(len(synthWraps))]
		if rng.Chance(1, 3) && !strings.HasPrefix(wrap, "...") {
			wrap = fmt.Sprintf(synthWraps[1+rng.Intn(8)], wrap) // two levels
		}
		out = append(out, synthOne(id, wrap, synthLate[rng.Intn(len(synthLate))], rng.Intn(3), rng.Bool(), []string{"T", "Ab", "Zy"}[rng.Intn(3)], rng.Chance(1, 6)))
		id++
	}
	return out
}

func (h *H) convertFresh(gp *gotypes.Package) (p *types.Package, e interface{}) {
	conv := &types.Converter{}
	conv.Init(types.Universe)
	devnull, _ := os.OpenFile(os.DevNull, os.O_WRONLY, 0)
	saved := os.Stdout
	os.Stdout = devnull
	e = vh.Catch(func() { p = conv.Package(gp) })
	os.Stdout = saved
	devnull.Close()
	return
}

// probeLate: is the defect of C30-3 present? (an interface literal in a method parameter of the only type of a package)
func probeLate() bool {
	gp, err := checkSrc("probe", "package probe\ntype T struct{}\nfunc (T) M(x interface{ Foo() }) {}\n", nil)
	if err != nil {
		panic(err)
	}
	conv := &types.Converter{}
	conv.Init(types.Universe)
	var p *types.Package
	if vh.Catch(func() { p = conv.Package(gp) }) != nil || p == nil {
		return false
	}
	tn, _ := p.Scope().Lookup("T").(*types.TypeName)
	if tn == nil {
		return false
	}
	nt, _ := tn.Type().(*types.Named)
	if nt == nil || nt.NumMethods() != 1 {
		return false
	}
	it, _ := nt.Method(0).Type().(*types.Signature).Params().At(0).Type().(*types.Interface)
	return it != nil && it.NumMethods() == 0
}

func (h *H) synthetic() {
	dep, err := checkSrc("a", synthDep, nil)
	if err != nil {
		panic(fmt.Sprint("synthetic dependency does not type-check: ", err))
	}
	// the dependency itself, converted alone (everything is a top-level object there)
	if p, e := h.convertFresh(dep); e != nil || p == nil {
		h.fail("Converter.Package panics", "synthetic/a", "", fmt.Sprint(e), "a converted package")
	} else {
		h.compareReachable(dep, p, "a")
	}
	imp := mapImporter{"a": dep}
	for _, sp := range h.synthPrograms() {
		gp, err := checkSrc("b", sp.src, imp)
		if err != nil {
			h.stats["synthetic_packages_not_type_checking"]++
			h.note("synthetic_package_rejected_by_go_types", sp.name+": "+err.Error())
			continue
		}
		p, e := h.convertFresh(gp)
		if e != nil || p == nil {
			h.fail("Converter.Package panics", "synthetic/"+sp.name, "", fmt.Sprint(e)+"\n"+sp.src, "a converted package")
			continue
		}
		before := len(h.rep.Failures) + len(h.late.deferred) + h.stats["deviations_of_class_C30_3_while_defect_present"]
		h.compareReachable(gp, p, "synthetic/"+sp.name)
		if after := len(h.rep.Failures) + len(h.late.deferred) + h.stats["deviations_of_class_C30_3_while_defect_present"]; after != before {
			h.note("synthetic_package_with_deviation", sp.name+":\n"+sp.src)
		}
		h.stats["synthetic_packages"]++
		if sp.late {
			h.stats["synthetic_packages_late_type_reached_from_method_signature_only"]++
		}
		h.rep.Count("synthetic/"+sp.name, sp.late)
		h.rep.Dist("synthetic package")
	}
}

package main

// corpus: hand-made packages type-checked from source with go/types, converted on a fresh Converter.
// They hold the exact inputs of the findings and the constructs the std walk meets rarely.

import (
	"fmt"
	"go/ast"
	"go/parser"
	"go/token"
	gotypes "go/types"
	"os"

	"github.com/cosmos72/gomacro/go/types"
	"verifh/vh"
)

type corpusPkg struct {
	name string
	src  string
	// deferUntilRegistered: the exact input of a finding whose fix is not applied yet / that is not yet registered in
	// known_findings.json: while the defect is present and the key is not registered, the failure is listed in report.json
	// extra "deferred_corpus_failures" instead of being reported (reach.go: failLate)
	deferUntilRegistered bool
}

var corpusPkgs = []corpusPkg{
	// C30-3: an interface (literal) first reached from a method signature stays incomplete
	// key: "reachable interface incomplete or wrong method set: corpus/latemeth.T.M>param0"
	{name: "latemeth", deferUntilRegistered: true, src: `package latemeth
type T struct{}
func (T) M(x interface{ Foo() }) {}
func (t *T) N() (r struct{ F interface{ error; Bar(T) } }) { return }
type U interface{ Get() interface{ Baz() } }
`},
	{name: "chans", src: `package chans
type T struct { S chan<- int; R <-chan int; B chan int; N chan (<-chan int) }
var V chan<- string
func F(a <-chan int, b chan<- int, c ...chan int) (x chan int) { return nil }
type I interface { M(chan<- int) <-chan int }
`},
	{name: "consts", src: `package consts
const A = 1 << 100
const B = 1.5e300
const C = "str\x00"
const D = 'x'
const E = 1 + 2i
const F int8 = -128
const G = true
type K uint16
const H K = 65535
`},
	{name: "structs", src: `package structs
type A struct { X, y int; Z string "tag" }
type B struct { A; *C; b bool }
type C struct { Next *C; m map[string][]*B; f func(int, ...string) (bool, error) }
type D [3]struct{ P *D }
type E interface { error; String() string; private() }
type F func(E) E
func (a A) Get() int { return a.X }
func (a *A) Set(x int) { a.X = x }
func (c *C) private() {}
var V1 = B{}
var V2 map[A][]F
`},
	// C30-1: a generic type whose underlying type does not mention its type parameter, with a method that does
	{name: "genmeth", src: `package genmeth
type P[T any] struct { u int }
func (p *P[T]) Load() *T { return nil }
type Plain struct { A int }
func (p Plain) M() int { return p.A }
var V Plain
`},
	// generic declarations next to plain ones: the plain ones must survive
	{name: "genmix", src: `package genmix
type G[T any] struct { v T }
func Map[T, U any](xs []T, f func(T) U) []U { return nil }
type Num interface { ~int | ~float64 }
type Plain struct { A int }
const C = 7
var V = "v"
func F(x int) string { return "" }
`},
}

func (h *H) corpus() {
	for _, c := range corpusPkgs {
		fset := token.NewFileSet()
		f, err := parser.ParseFile(fset, c.name+".go", c.src, 0)
		if err != nil {
			panic(err)
		}
		conf := gotypes.Config{}
		gp, err := conf.Check(c.name, fset, []*ast.File{f}, nil)
		if err != nil {
			panic(fmt.Sprint("corpus package does not type-check: ", err))
		}
		conv := &types.Converter{}
		conv.Init(types.Universe)
		var p *types.Package
		devnull, _ := os.OpenFile(os.DevNull, os.O_WRONLY, 0)
		saved := os.Stdout
		os.Stdout = devnull
		e := vh.Catch(func() { p = conv.Package(gp) })
		os.Stdout = saved
		devnull.Close()
		if e != nil {
			h.fail("Converter.Package panics", "corpus/"+c.name, "", fmt.Sprint(e), "a converted package (generic declarations skipped)")
			continue
		}
		h.comparePackage(gp, p)
		h.compareReachable(gp, p, "corpus/"+c.name)
		h.stats["corpus_packages"]++
	}
}

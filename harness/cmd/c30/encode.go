package main

// Coq term encoders (coq/C30/Model.v [ty]) for go/types types and for the fork's types: named types are leaves,
// names are interned per case, interface method signatures are encoded without receiver (the converter drops it and
// NewInterfaceType installs the new interface), embedded interfaces are ordered by their printed form.

import (
	"fmt"
	"go/ast"
	gotypes "go/types"
	"sort"
	"strings"

	"github.com/cosmos72/gomacro/go/types"
	"verifh/vh"
)

type intern map[string]int

func (n intern) id(s string) int {
	if s == "" {
		return 0
	}
	if i, ok := n[s]; ok {
		return i
	}
	n[s] = len(n) + 1
	return len(n)
}

func coqList(xs []string, typ string) string {
	if len(xs) == 0 {
		return "(@nil " + typ + ")"
	}
	return "[" + strings.Join(xs, "; ") + "]"
}

func gpath(p *gotypes.Package) string {
	if p == nil {
		return ""
	}
	return p.Path()
}
func fpath(p *types.Package) string {
	if p == nil {
		return ""
	}
	return p.Path()
}

func encG(t gotypes.Type, n intern, depth int) string {
	if depth > 40 {
		return "TParam"
	}
	switch t := t.(type) {
	case *gotypes.Basic:
		return fmt.Sprintf("(Basic %d)", int(t.Kind()))
	case *gotypes.Alias:
		return encG(gotypes.Unalias(t), n, depth+1)
	case *gotypes.Named:
		if t.TypeArgs().Len() > 0 || t.TypeParams().Len() > 0 {
			return "TParam" // generic type or instance: outside the fork's language
		}
		return fmt.Sprintf("(Named %d)", n.id(gpath(t.Obj().Pkg())+"."+t.Obj().Name()))
	case *gotypes.TypeParam, *gotypes.Union:
		return "TParam"
	case *gotypes.Pointer:
		return "(Pointer " + encG(t.Elem(), n, depth+1) + ")"
	case *gotypes.Slice:
		return "(Slice " + encG(t.Elem(), n, depth+1) + ")"
	case *gotypes.Array:
		return fmt.Sprintf("(Array %d%%Z %s)", t.Len(), encG(t.Elem(), n, depth+1))
	case *gotypes.Chan:
		return fmt.Sprintf("(Chan %d %s)", int(t.Dir()), encG(t.Elem(), n, depth+1))
	case *gotypes.Map:
		return "(Map " + encG(t.Key(), n, depth+1) + " " + encG(t.Elem(), n, depth+1) + ")"
	case *gotypes.Signature:
		return encGSig(t, n, depth, true)
	case *gotypes.Struct:
		var fs []string
		for i := 0; i < t.NumFields(); i++ {
			f := t.Field(i)
			pk := ""
			if !ast.IsExported(f.Name()) {
				pk = gpath(f.Pkg())
			}
			fs = append(fs, fmt.Sprintf("(mkF %d %d %s %d, %s)", n.id(f.Name()), n.id(pk), vh.CoqBool(f.Embedded()), n.id(t.Tag(i)), encG(f.Type(), n, depth+1)))
		}
		return "(Struct " + coqList(fs, "(finfo * ty)") + ")"
	case *gotypes.Interface:
		var ms, es []string
		for i := 0; i < t.NumExplicitMethods(); i++ {
			m := t.ExplicitMethod(i)
			ms = append(ms, fmt.Sprintf("(%d, %s)", n.id(m.Name()), encGSig(m.Type().(*gotypes.Signature), n, depth, false)))
		}
		type es1 struct{ key, enc string }
		var el []es1
		for i := 0; i < t.NumEmbeddeds(); i++ {
			e := t.EmbeddedType(i)
			el = append(el, es1{norm(gotypes.TypeString(e, gqual)), encG(e, n, depth+1)})
		}
		sort.Slice(el, func(i, j int) bool { return el[i].key < el[j].key })
		for _, e := range el {
			es = append(es, e.enc)
		}
		return "(Iface " + coqList(ms, "(N * ty)") + " " + coqList(es, "ty") + ")"
	case *gotypes.Tuple:
		return "TParam"
	}
	return "TParam"
}

func encGSig(s *gotypes.Signature, n intern, depth int, withRecv bool) string {
	if s.TypeParams().Len() > 0 {
		return "TParam"
	}
	recv := "None"
	if withRecv && s.Recv() != nil {
		recv = "(Some " + encG(s.Recv().Type(), n, depth+1) + ")"
	}
	var ps, rs []string
	for i := 0; i < s.Params().Len(); i++ {
		ps = append(ps, encG(s.Params().At(i).Type(), n, depth+1))
	}
	for i := 0; i < s.Results().Len(); i++ {
		rs = append(rs, encG(s.Results().At(i).Type(), n, depth+1))
	}
	return fmt.Sprintf("(Sig %s %s %s %s)", recv, coqList(ps, "ty"), coqList(rs, "ty"), vh.CoqBool(s.Variadic()))
}

func encF(t types.Type, n intern, depth int) string {
	if depth > 40 {
		return "TParam"
	}
	switch t := t.(type) {
	case *types.Basic:
		return fmt.Sprintf("(Basic %d)", int(t.Kind()))
	case *types.Named:
		return fmt.Sprintf("(Named %d)", n.id(fpath(t.Obj().Pkg())+"."+t.Obj().Name()))
	case *types.Pointer:
		return "(Pointer " + encF(t.Elem(), n, depth+1) + ")"
	case *types.Slice:
		return "(Slice " + encF(t.Elem(), n, depth+1) + ")"
	case *types.Array:
		return fmt.Sprintf("(Array %d%%Z %s)", t.Len(), encF(t.Elem(), n, depth+1))
	case *types.Chan:
		return fmt.Sprintf("(Chan %d %s)", int(t.Dir()), encF(t.Elem(), n, depth+1))
	case *types.Map:
		return "(Map " + encF(t.Key(), n, depth+1) + " " + encF(t.Elem(), n, depth+1) + ")"
	case *types.Signature:
		return encFSig(t, n, depth, true)
	case *types.Struct:
		var fs []string
		for i := 0; i < t.NumFields(); i++ {
			f := t.Field(i)
			pk := ""
			if !ast.IsExported(f.Name()) {
				pk = fpath(f.Pkg())
			}
			fs = append(fs, fmt.Sprintf("(mkF %d %d %s %d, %s)", n.id(f.Name()), n.id(pk), vh.CoqBool(f.Embedded()), n.id(t.Tag(i)), encF(f.Type(), n, depth+1)))
		}
		return "(Struct " + coqList(fs, "(finfo * ty)") + ")"
	case *types.Interface:
		var ms, es []string
		for i := 0; i < t.NumExplicitMethods(); i++ {
			m := t.ExplicitMethod(i)
			ms = append(ms, fmt.Sprintf("(%d, %s)", n.id(m.Name()), encFSig(m.Type().(*types.Signature), n, depth, false)))
		}
		type es1 struct{ key, enc string }
		var el []es1
		for i := 0; i < t.NumEmbeddeds(); i++ {
			e := t.EmbeddedType(i)
			el = append(el, es1{types.TypeString(e, fqual), encF(e, n, depth+1)})
		}
		sort.Slice(el, func(i, j int) bool { return el[i].key < el[j].key })
		for _, e := range el {
			es = append(es, e.enc)
		}
		return "(Iface " + coqList(ms, "(N * ty)") + " " + coqList(es, "ty") + ")"
	}
	return "TParam"
}

func encFSig(s *types.Signature, n intern, depth int, withRecv bool) string {
	recv := "None"
	if withRecv && s.Recv() != nil {
		recv = "(Some " + encF(s.Recv().Type(), n, depth+1) + ")"
	}
	var ps, rs []string
	if s.Params() != nil {
		for i := 0; i < s.Params().Len(); i++ {
			ps = append(ps, encF(s.Params().At(i).Type(), n, depth+1))
		}
	}
	if s.Results() != nil {
		for i := 0; i < s.Results().Len(); i++ {
			rs = append(rs, encF(s.Results().At(i).Type(), n, depth+1))
		}
	}
	return fmt.Sprintf("(Sig %s %s %s %s)", recv, coqList(ps, "ty"), coqList(rs, "ty"), vh.CoqBool(s.Variadic()))
}

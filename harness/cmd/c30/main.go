// c30: go/types -> fork conversion (go/types/converter.go, xreflect/importer.go) against go/types itself.
//
// Every standard-library package (list: `go list std` at run time; quick tier: a fixed subset of ~45 packages with the
// big ones) is loaded from the compiler's export data with go/types' gc importer (what xreflect's importer uses),
// converted with ONE shared types.Converter in path order (what Importer.ImportFrom does: imp.Converter.Package(pkg)),
// and compared object by object: exported names, object kinds, constant values, printed types, method sets,
// underlying structure.  Generic declarations (and anything that mentions a generic instance) are excluded.
// Then every type REACHABLE from the objects of each converted package (reach.go) is walked: completeness and complete
// method set of every interface, explicit methods of every named type; and a synthetic stream of two-package programs
// where a type is first reached from a method signature (finding C30-3).
// The same conversions are written as Coq cases for coq/C30/Model.v on a sample of types.
package main

import (
	"fmt"
	"go/ast"
	"go/constant"
	"go/importer"
	"go/token"
	gotypes "go/types"
	"io"
	"os"
	"os/exec"
	"path/filepath"
	"regexp"
	"sort"
	"strings"
	"time"

	"github.com/cosmos72/gomacro/go/types"
	xr "github.com/cosmos72/gomacro/xreflect"
	"verifh/vh"
)

func verifDir() string {
	if d := os.Getenv("VERIF_DIR"); d != "" {
		return d
	}
	return "/verif"
}

func goList(args ...string) ([]string, error) {
	cmd := exec.Command("go", append([]string{"list"}, args...)...)
	cmd.Dir = filepath.Join(verifDir(), "harness")
	cmd.Stderr = os.Stderr
	out, err := cmd.Output()
	if err != nil {
		return nil, fmt.Errorf("go list %v: %v", args, err)
	}
	var res []string
	for _, l := range strings.Split(string(out), "\n") {
		if l = strings.TrimSpace(l); l != "" {
			res = append(res, l)
		}
	}
	return res, nil
}

var quickPkgs = []string{
	"archive/tar", "bufio", "bytes", "compress/gzip", "container/heap", "container/list", "context", "crypto/sha256", "crypto/tls", "crypto/x509",
	"database/sql", "encoding/binary", "encoding/json", "encoding/xml", "errors", "flag", "fmt", "go/ast", "go/constant", "go/token", "go/types", "html/template",
	"image", "io", "io/fs", "log", "math", "math/big", "math/rand", "net", "net/http", "net/url", "os", "os/exec", "path/filepath", "reflect", "regexp",
	"runtime", "sort", "strconv", "strings", "sync", "sync/atomic", "syscall", "testing", "text/template", "time", "unicode", "unicode/utf8", "unsafe",
}

var (
	gqual = func(p *gotypes.Package) string { return p.Path() }
	fqual = func(p *types.Package) string { return p.Path() }
	reWB  = regexp.MustCompile(`(untyped )?\b(byte|rune|any)\b`)
)

// norm: documented normalisations of go1.23's go/types printer versus the (go1.13 era) fork:
// `any` is printed for interface{}, the aliases byte/rune keep their name (the converter maps basic types by kind)
func norm(s string) string {
	return reWB.ReplaceAllStringFunc(s, func(w string) string {
		if strings.HasPrefix(w, "untyped ") {
			return w
		}
		switch w {
		case "byte":
			return "uint8"
		case "rune":
			return "int32"
		}
		return "interface{}"
	})
}

// generic reports whether t is, or mentions (without looking through named types), a type parameter, a generic type or
// an instance of one
// bareTypeParam: a type parameter occurs in t outside the type arguments of an instantiated named type
// (what go/types/converter.go Converter.typ actually meets while converting t)
func bareTypeParam(t gotypes.Type, depth int) bool {
	if depth > 12 {
		return false
	}
	switch t := t.(type) {
	case *gotypes.TypeParam, *gotypes.Union:
		return true
	case *gotypes.Named:
		return t.TypeParams().Len() > 0 && t.TypeArgs().Len() == 0
	case *gotypes.Alias:
		return bareTypeParam(gotypes.Unalias(t), depth+1)
	case *gotypes.Pointer:
		return bareTypeParam(t.Elem(), depth+1)
	case *gotypes.Slice:
		return bareTypeParam(t.Elem(), depth+1)
	case *gotypes.Array:
		return bareTypeParam(t.Elem(), depth+1)
	case *gotypes.Chan:
		return bareTypeParam(t.Elem(), depth+1)
	case *gotypes.Map:
		return bareTypeParam(t.Key(), depth+1) || bareTypeParam(t.Elem(), depth+1)
	case *gotypes.Tuple:
		for i := 0; i < t.Len(); i++ {
			if bareTypeParam(t.At(i).Type(), depth+1) {
				return true
			}
		}
	case *gotypes.Signature:
		return bareTypeParam(t.Params(), depth+1) || bareTypeParam(t.Results(), depth+1)
	case *gotypes.Struct:
		for i := 0; i < t.NumFields(); i++ {
			if bareTypeParam(t.Field(i).Type(), depth+1) {
				return true
			}
		}
	case *gotypes.Interface:
		for i := 0; i < t.NumExplicitMethods(); i++ {
			if bareTypeParam(t.ExplicitMethod(i).Type(), depth+1) {
				return true
			}
		}
		for i := 0; i < t.NumEmbeddeds(); i++ {
			if bareTypeParam(t.EmbeddedType(i), depth+1) {
				return true
			}
		}
	}
	return false
}

func generic(t gotypes.Type, depth int) bool {
	if depth > 12 {
		return false
	}
	switch t := t.(type) {
	case nil:
		return false
	case *gotypes.TypeParam, *gotypes.Union:
		return true
	case *gotypes.Named:
		return t.TypeParams().Len() > 0 || t.TypeArgs().Len() > 0
	case *gotypes.Alias:
		return generic(gotypes.Unalias(t), depth+1)
	case *gotypes.Pointer:
		return generic(t.Elem(), depth+1)
	case *gotypes.Slice:
		return generic(t.Elem(), depth+1)
	case *gotypes.Array:
		return generic(t.Elem(), depth+1)
	case *gotypes.Chan:
		return generic(t.Elem(), depth+1)
	case *gotypes.Map:
		return generic(t.Key(), depth+1) || generic(t.Elem(), depth+1)
	case *gotypes.Tuple:
		for i := 0; i < t.Len(); i++ {
			if generic(t.At(i).Type(), depth+1) {
				return true
			}
		}
	case *gotypes.Signature:
		if t.TypeParams().Len() > 0 || t.RecvTypeParams().Len() > 0 {
			return true
		}
		return generic(t.Params(), depth+1) || generic(t.Results(), depth+1)
	case *gotypes.Struct:
		for i := 0; i < t.NumFields(); i++ {
			if generic(t.Field(i).Type(), depth+1) {
				return true
			}
		}
	case *gotypes.Interface:
		for i := 0; i < t.NumMethods(); i++ {
			if generic(t.Method(i).Type(), depth+1) {
				return true
			}
		}
		for i := 0; i < t.NumEmbeddeds(); i++ {
			if generic(t.EmbeddedType(i), depth+1) {
				return true
			}
		}
	}
	return false
}

func gkind(o gotypes.Object) string {
	switch o.(type) {
	case *gotypes.Const:
		return "const"
	case *gotypes.Var:
		return "var"
	case *gotypes.Func:
		return "func"
	case *gotypes.TypeName:
		return "type"
	}
	return fmt.Sprintf("%T", o)
}
func fkind(o types.Object) string {
	switch o.(type) {
	case *types.Const:
		return "const"
	case *types.Var:
		return "var"
	case *types.Func:
		return "func"
	case *types.TypeName:
		return "type"
	}
	return fmt.Sprintf("%T", o)
}

type H struct {
	a     *vh.Args
	rep   *vh.Report
	nfail map[string]int
	stats map[string]int
	cw    *vh.Cases
	ncase int
	rng   *vh.Rng
	late  lateState
}

func (h *H) note(what, x string) {
	h.stats[what]++
	l, _ := h.rep.Extra["note_"+what].([]string)
	if len(l) < 12 {
		h.rep.Extra["note_"+what] = append(l, x)
	}
}

func (h *H) fail(what, pkg, obj string, got, want interface{}) {
	h.nfail[what]++
	if h.nfail[what] > 5 {
		return
	}
	h.rep.Fail(vh.Failure{Key: what + ": " + pkg + "." + obj, What: what, Input: map[string]string{"package": pkg, "object": obj}, Got: got, Want: want})
}

// method sets (explicit methods of a named type, or all methods of an interface) as sorted "name sig" lines
func gmethods(t gotypes.Type, n intern) ([]string, bool) {
	var out []string
	gen := false
	add := func(m *gotypes.Func) {
		sig := m.Type().(*gotypes.Signature)
		if generic(sig, 0) {
			gen = true
		}
		recv := ""
		if r := sig.Recv(); r != nil {
			if _, ok := r.Type().(*gotypes.Pointer); ok {
				recv = "*"
			}
		}
		id := m.Name()
		if !ast.IsExported(id) && m.Pkg() != nil {
			id = m.Pkg().Path() + "·" + id
		}
		out = append(out, recv+id+" "+encGSig(sig, n, 0, false))
	}
	if it, ok := t.Underlying().(*gotypes.Interface); ok {
		for i := 0; i < it.NumMethods(); i++ {
			add(it.Method(i))
		}
	} else if n, ok := t.(*gotypes.Named); ok {
		for i := 0; i < n.NumMethods(); i++ {
			add(n.Method(i))
		}
	}
	sort.Strings(out)
	return out, gen
}
func fmethods(t types.Type, n intern) []string {
	var out []string
	add := func(m *types.Func, iface bool) {
		sig := m.Type().(*types.Signature)
		recv := ""
		if r := sig.Recv(); r != nil && !iface {
			if _, ok := r.Type().(*types.Pointer); ok {
				recv = "*"
			}
		}
		id := m.Name()
		if !ast.IsExported(id) && m.Pkg() != nil {
			id = m.Pkg().Path() + "·" + id
		}
		out = append(out, recv+id+" "+encFSig(sig, n, 0, false))
	}
	if it, ok := t.Underlying().(*types.Interface); ok {
		for i := 0; i < it.NumMethods(); i++ {
			add(it.Method(i), true)
		}
	} else if n, ok := t.(*types.Named); ok {
		for i := 0; i < n.NumMethods(); i++ {
			add(n.Method(i), false)
		}
	}
	sort.Strings(out)
	return out
}

// full method sets (with promotion through embedded fields) of T and *T: names only
func gmset(t gotypes.Type) string {
	var out []string
	for _, tt := range []gotypes.Type{t, gotypes.NewPointer(t)} {
		ms := gotypes.NewMethodSet(tt)
		var names []string
		for i := 0; i < ms.Len(); i++ {
			names = append(names, ms.At(i).Obj().Name())
		}
		sort.Strings(names)
		out = append(out, strings.Join(names, ","))
	}
	return strings.Join(out, " | ")
}
func fmset(t types.Type) string {
	var out []string
	for _, tt := range []types.Type{t, types.NewPointer(t)} {
		ms := types.NewMethodSet(tt)
		var names []string
		for i := 0; i < ms.Len(); i++ {
			names = append(names, ms.At(i).Obj().Name())
		}
		sort.Strings(names)
		out = append(out, strings.Join(names, ","))
	}
	return strings.Join(out, " | ")
}

// promotesThroughGeneric: an embedded field chain of t reaches a generic instance (its promoted methods are outside)
func promotesThroughGeneric(t gotypes.Type, depth int, seen map[gotypes.Type]bool) bool {
	if depth > 8 || seen[t] {
		return false
	}
	seen[t] = true
	if p, ok := t.Underlying().(*gotypes.Pointer); ok {
		t = p.Elem()
	}
	if generic(t, 0) {
		return true
	}
	st, ok := t.Underlying().(*gotypes.Struct)
	if !ok {
		return false
	}
	for i := 0; i < st.NumFields(); i++ {
		if f := st.Field(i); f.Embedded() && promotesThroughGeneric(f.Type(), depth+1, seen) {
			return true
		}
	}
	return false
}

func (h *H) comparePackage(gp *gotypes.Package, p *types.Package) {
	path := gp.Path()
	if p.Path() != path || p.Name() != gp.Name() {
		h.fail("package path/name", path, "", p.Path()+" "+p.Name(), path+" "+gp.Name())
	}
	gs, fs := gp.Scope(), p.Scope()
	want := map[string]bool{}
	for _, name := range gs.Names() {
		o := gs.Lookup(name)
		isGen := generic(o.Type(), 0)
		if tn, ok := o.(*gotypes.TypeName); ok && !isGen {
			// a non-generic type whose underlying structure or methods mention generics is compared by name and kind only
			_ = tn
		}
		if isGen {
			h.stats["generic_objects_excluded"]++
			// a generic function or variable must simply be absent after the conversion (model: conv = None)
			// (objects that only mention an instance, like func Preorder(Node) iter.Seq[Node], are converted with the
			// instance collapsed into its generic name: known limitation, excluded)
			if sig, isFunc := o.Type().(*gotypes.Signature); isFunc && sig.TypeParams().Len() > 0 && h.ncase < 6000 {
				if fs.Lookup(name) != nil {
					if !bareTypeParam(sig.Params(), 0) && !bareTypeParam(sig.Results(), 0) {
						// class of known finding C30-2 (recorded on reflect.TypeFor): the converter refuses a generic
						// function only when it meets a *types.TypeParam, and it does not look into the type arguments of
						// an instance - a signature without a bare type parameter (`func TypeFor[T any]() Type`,
						// `func NewHashTrieMap[K, V comparable]() *HashTrieMap[K, V]`) is imported as a plain function.
						// The thorough tier (all of std, internal packages included) meets 4 more objects of the class:
						// they are reported under the key of the recorded finding, the object in the failure input.
						h.nfail["generic object present after conversion (C30-2 class)"]++
						h.rep.Fail(vh.Failure{Key: "generic object present after conversion: reflect.TypeFor",
							What:  "generic object present after conversion (signature without a bare type parameter: class of C30-2)",
							Input: map[string]string{"package": path, "object": name}, Got: fkind(fs.Lookup(name)), Want: "skipped"})
					} else {
						h.fail("generic object present after conversion", path, name, fkind(fs.Lookup(name)), "skipped")
					}
				}
				n := intern{}
				if src := encG(o.Type(), n, 0); len(src) < 20000 {
					h.cw.Add(fmt.Sprintf("mkCase %d%%Z %s None", h.ncase, src))
					h.rep.CaseInput(h.ncase, path+"."+name)
					h.ncase++
					h.stats["generic_cases_for_model"]++
				}
			}
			continue
		}
		if _, isAlias := o.Type().(*gotypes.Alias); isAlias {
			h.stats["alias_nodes"]++
		}
		want[name] = true
		h.rep.Count(path+"."+name, ast.IsExported(name))
		h.rep.Dist("object:" + gkind(o))
		fo := fs.Lookup(name)
		if fo == nil {
			if ast.IsExported(name) {
				h.fail("exported object missing after conversion", path, name, nil, gkind(o))
			} else {
				h.fail("object missing after conversion", path, name, nil, gkind(o))
			}
			continue
		}
		if gkind(o) != fkind(fo) {
			h.fail("object kind", path, name, fkind(fo), gkind(o))
			continue
		}
		if fo.Name() != name || fo.Pkg() == nil || fo.Pkg().Path() != path || fo.Exported() != o.Exported() {
			h.fail("object name/package/exported", path, name, fmt.Sprint(fo.Name(), " ", fo.Pkg()), path)
		}
		// printed form of the object's type
		// (go1.23's printer omits parameter names inside nested func types and keeps the source order of embedded
		// interfaces, the fork prints the names and sorts: when the texts differ the name-free structural
		// encodings decide)
		gstr, fstr := norm(gotypes.TypeString(o.Type(), gqual)), types.TypeString(fo.Type(), fqual)
		if gstr != fstr {
			n := intern{}
			if a, b := encG(o.Type(), n, 0), encF(fo.Type(), n, 0); a != b {
				h.fail("printed type", path, name, fstr, gstr)
			} else {
				h.stats["printed_form_differs_only_in_param_names_or_embedded_order"]++
			}
		}
		switch o := o.(type) {
		case *gotypes.Const:
			fc := fo.(*types.Const)
			if fc.Val().ExactString() != o.Val().ExactString() || fc.Val().Kind() != o.Val().Kind() {
				h.fail("constant value", path, name, fc.Val().ExactString(), o.Val().ExactString())
			}
			if o.Val().Kind() == constant.Unknown {
				h.stats["unknown_constants"]++
			}
		case *gotypes.TypeName:
			gt, ft := o.Type(), fo.Type()
			if generic(gt.Underlying(), 0) {
				h.stats["types_with_generic_components_compared_by_name_only"]++
				break
			}
			gu, fu := norm(gotypes.TypeString(gt.Underlying(), gqual)), types.TypeString(ft.Underlying(), fqual)
			n := intern{}
			if a, b := encG(gt.Underlying(), n, 0), encF(ft.Underlying(), n, 0); a != b {
				h.fail("underlying structure", path, name, fu, gu)
			}
			gm, gen := gmethods(gt, n)
			if gen {
				h.stats["method_sets_mentioning_generics_excluded"]++
				break
			}
			fm := fmethods(ft, n)
			if strings.Join(gm, "\n") != strings.Join(fm, "\n") {
				if ast.IsExported(name) {
					h.fail("method set (names, receivers, signatures)", path, name, fm, gm)
				} else {
					// the property is about exported objects; recorded, not failed (std: one interface embedding two
					// overlapping interfaces - the fork's Interface.Complete predates Go 1.14 and lists the shared methods twice)
					h.note("unexported_types_with_different_method_set", path+"."+name)
				}
			}
			h.stats["methods_compared"] += len(gm)
			// informational: the method sets with promotion are computed by the fork's own NewMethodSet (go1.13 algorithm:
			// a field does not shadow a deeper method of the same name), not by the converter - the structure it works on
			// was compared above
			if !promotesThroughGeneric(gt, 0, map[gotypes.Type]bool{}) {
				if a, b := fmset(ft), gmset(gt); a != b {
					h.note("NewMethodSet_differs_on_identical_structure", path+"."+name)
				}
			}
			h.sampleType(path+"."+name, gt.Underlying(), ft.Underlying())
		}
	}
	// nothing extra: every exported name of the converted scope exists in the original
	for _, name := range fs.Names() {
		if ast.IsExported(name) && gs.Lookup(name) == nil {
			h.fail("exported object invented by the conversion", path, name, fkind(fs.Lookup(name)), nil)
		}
	}
}

// sampleType writes (source term, converted term) as a case for the Coq model of Converter.typ
func (h *H) sampleType(name string, gt gotypes.Type, ft types.Type) {
	h.stats["types_seen"]++
	limit := 600
	if h.a.Thorough() {
		limit = 6000
	}
	if h.ncase >= limit || h.rng.Intn(3) != 0 {
		return
	}
	n := intern{}
	src := encG(gt, n, 0)
	dst := "None"
	if ft != nil {
		dst = "(Some " + encF(ft, n, 0) + ")"
	}
	if len(src) > 20000 {
		return
	}
	h.cw.Add(fmt.Sprintf("mkCase %d%%Z %s %s", h.ncase, src, dst))
	h.rep.CaseInput(h.ncase, name)
	h.ncase++
}

func main() {
	a := vh.ParseArgs()
	rng := vh.NewRng(a.Seed)
	rep := vh.NewReport(a, "every standard-library package of `go list std` that the gc importer loads offline (quick: fixed subset of 50 incl. net/http, reflect, go/ast, go/types, crypto/tls; thorough: all), "+
		"exhaustive over the objects of its scope; a case is one object (non-trivial = exported); generic declarations and anything that mentions a generic instance are excluded and counted; "+
		"for each converted package also a walk over every reachable type (fields, signatures, methods, embedded interfaces, any depth, other packages included) comparing each interface's completeness + complete method set (names, signatures, explicit/embedded counts, NewMethodSet, no panic) and each named type's explicit methods with go/types; "+
		"plus hand-made packages type-checked from source (corpus), synthetic two-package programs (12 wrappers x 15 late types bounded-exhaustive + PRNG combinations; non-trivial = the late interface/named type is reached from a method signature only; only the importing package is converted, fresh Converter) and a PRNG sample of type terms for the Coq model")
	wd := vh.NewWatchdog(rep, 300*time.Second)
	h := &H{a: a, rep: rep, nfail: map[string]int{}, stats: map[string]int{}, rng: rng}
	h.cw = vh.NewCases(a, "From Coq Require Import List NArith ZArith Bool.\nFrom Verif Require Import C30.Model.\nImport ListNotations.\nOpen Scope N_scope.", "case", "mismatches", 150)
	t0 := time.Now()

	wd.Beat("go list std")
	pkgs := quickPkgs
	if a.Thorough() {
		all, err := goList("std")
		if err != nil {
			fmt.Fprintln(os.Stderr, err)
			os.Exit(2)
		}
		pkgs = all
	}
	wd.Beat("go list -export")
	lines, err := goList(append([]string{"-export", "-deps", "-f", "{{.ImportPath}}={{.Export}}"}, pkgs...)...)
	if err != nil {
		fmt.Fprintln(os.Stderr, err)
		os.Exit(2)
	}
	files := map[string]string{}
	for _, l := range lines {
		if i := strings.IndexByte(l, '='); i > 0 && i < len(l)-1 {
			files[l[:i]] = l[i+1:]
		}
	}
	rep.Extra["go_list_s"] = time.Since(t0).Seconds()
	gimp := importer.ForCompiler(token.NewFileSet(), "gc", func(path string) (io.ReadCloser, error) {
		f, ok := files[path]
		if !ok {
			return nil, fmt.Errorf("no export data for %q", path)
		}
		return os.Open(f)
	})

	// is the defect of finding C30-3 present in this tree? (reach.go: failLate)
	h.late = lateState{defect: probeLate(), registered: registeredKeys()}
	rep.Extra[lateDefectTag] = h.late.defect

	// corpus first: hand-made packages, exact inputs of known findings
	h.corpus()

	sort.Strings(pkgs)
	conv := &types.Converter{}
	conv.Init(types.Universe)
	devnull, _ := os.OpenFile(os.DevNull, os.O_WRONLY, 0)
	loaded := 0
	for _, path := range pkgs {
		if path == "unsafe" {
			continue
		}
		wd.Beat(path)
		gp, err := gimp.Import(path)
		if err != nil || gp == nil {
			h.stats["packages_not_loadable"]++
			continue
		}
		loaded++
		var p *types.Package
		saved := os.Stdout
		os.Stdout = devnull // "// warning: skipping import of ..." lines
		e := vh.Catch(func() { p = conv.Package(gp) })
		os.Stdout = saved
		if e != nil {
			h.fail("Converter.Package panics", path, "", fmt.Sprint(e), "a converted package (generic declarations skipped)")
			// is the converter still usable?
			gerr, _ := gimp.Import("errors")
			os.Stdout = devnull
			e2 := vh.Catch(func() { conv.Package(gerr) })
			os.Stdout = saved
			if e2 != nil {
				h.fail("Converter unusable after a panic: converting package errors panics too", path, "", fmt.Sprint(e2), nil)
				conv = &types.Converter{} // continue with a new one so that the remaining packages are still compared
				conv.Init(types.Universe)
			}
			continue
		}
		if p == nil {
			h.fail("Converter.Package returned nil", path, "", nil, nil)
			continue
		}
		h.comparePackage(gp, p)
		h.compareReachable(gp, p, path)
		rep.Dist("package")
	}
	rep.Extra["packages_loaded"] = loaded
	rep.Extra["compare_s"] = time.Since(t0).Seconds()

	// the importer wrapper itself (xreflect/importer.go): slow (one `go list` per package), a few packages
	wrapped := []string{"errors", "container/list"}
	if a.Thorough() {
		wrapped = append(wrapped, "sort", "bufio", "text/tabwriter", "encoding/hex", "unicode/utf16", "hash/crc32")
	}
	imp := xr.DefaultImporter()
	for _, path := range wrapped {
		wd.Beat("Importer.Import " + path)
		var p *types.Package
		var err error
		saved := os.Stdout
		os.Stdout = devnull
		e := vh.Catch(func() { p, err = imp.Import(path) })
		os.Stdout = saved
		if e != nil || err != nil || p == nil {
			h.fail("xreflect.Importer.Import failed", path, "", fmt.Sprint(e, err), nil)
			continue
		}
		if gp, err := gimp.Import(path); err == nil {
			h.comparePackage(gp, p)
			h.compareReachable(gp, p, path)
			h.stats["packages_through_importer_wrapper"]++
		}
	}
	rep.Extra["wrapper_s"] = time.Since(t0).Seconds()

	// synthetic two-package programs: a type first reached from a method signature (reach.go)
	wd.Beat("synthetic")
	h.synthetic()
	rep.Extra["synthetic_s"] = time.Since(t0).Seconds()
	if h.late.deferred == nil {
		h.late.deferred = []string{}
	}
	rep.Extra["deferred_corpus_failures"] = h.late.deferred

	h.cw.Close()
	for k, n := range h.stats {
		rep.Extra["stat_"+k] = n
	}
	for k, n := range h.nfail {
		rep.Extra["failcount_"+k] = n
	}
	rep.Exhaustive = true
	rep.Write()
}

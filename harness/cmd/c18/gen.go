// program generators for c18.  Every program declares top-level types/vars/funcs whose names end in the
// program suffix and a function run<sfx>() with one result; emit(int) / emits(string) record the event trace.
package main

import (
	"fmt"
	"strings"

	"verifh/vh"
)

type prog struct {
	ID     int    `json:"id"`
	Class  string `json:"class"`
	Decls  string `json:"decls"`
	Call   string `json:"call"`
	Mini   string `json:"-"`                     // Coq term of the program (class mini only)
	Breaks int    `json:"breakpoints,omitempty"` // breakpoint statements inserted by withBreakpoints
}

func lit(r *vh.Rng) int { return r.Intn(19) - 6 }

// ---------- integer expressions over variables a b c (int), all operations total except / and % ----------
func intExpr(r *vh.Rng, d int, vars []string) string {
	if d <= 0 || r.Chance(1, 4) {
		if r.Bool() && len(vars) > 0 {
			return vars[r.Intn(len(vars))]
		}
		return fmt.Sprint(lit(r))
	}
	a, b := intExpr(r, d-1, vars), intExpr(r, d-1, vars)
	switch r.Intn(10) {
	case 0:
		return "(" + a + " + " + b + ")"
	case 1:
		return "(" + a + " - " + b + ")"
	case 2:
		return "(" + a + " * " + b + ")"
	case 3:
		return "(" + a + " / (" + b + " | 1))" // never zero
	case 4:
		return "(" + a + " % (" + b + " | 1))"
	case 5:
		return "(" + a + " & " + b + ")"
	case 6:
		return "(" + a + " ^ " + b + ")"
	case 7:
		return "(" + a + " << uint(" + b + " & 7))"
	case 8:
		return "(" + a + " >> uint(" + b + " & 7))"
	}
	return "-" + a
}

func boolExpr(r *vh.Rng, vars []string) string {
	a, b := intExpr(r, 1, vars), intExpr(r, 1, vars)
	op := []string{"<", "<=", "==", "!=", ">", ">="}[r.Intn(6)]
	e := a + " " + op + " " + b
	if r.Chance(1, 3) {
		e = "(" + e + ") " + []string{"&&", "||"}[r.Intn(2)] + " (" + intExpr(r, 1, vars) + " != " + fmt.Sprint(lit(r)) + ")"
	}
	return e
}

// ---------- class expr: typed arithmetic of several kinds ----------
func genExpr(r *vh.Rng, sfx string) (string, string) {
	var sb strings.Builder
	kinds := []string{"int", "int8", "int16", "int32", "int64", "uint", "uint8", "uint16", "uint32", "uint64"}
	k := kinds[r.Intn(len(kinds))]
	fmt.Fprintf(&sb, "func run%s() string {\n", sfx)
	fmt.Fprintf(&sb, "\tvar a, b, c %s = %d, %d, %d\n", k, 1+r.Intn(100), 1+r.Intn(100), 1+r.Intn(7))
	fmt.Fprintf(&sb, "\tvar f, g float64 = %d.5, %d.25\n", r.Intn(50), 1+r.Intn(9))
	fmt.Fprintf(&sb, "\ts := %q\n", []string{"", "ab", "héllo", "xyz"}[r.Intn(4)])
	for i := 0; i < 3+r.Intn(4); i++ {
		switch r.Intn(8) {
		case 0:
			fmt.Fprintf(&sb, "\ta = a*b + c\n")
		case 1:
			fmt.Fprintf(&sb, "\tb = (a ^ b) %s c\n", []string{"<<", ">>", "&", "|", "&^"}[r.Intn(5)])
		case 2:
			fmt.Fprintf(&sb, "\tc = c + a/(b|1) - a%%(c|1)\n")
		case 3:
			fmt.Fprintf(&sb, "\tf = f*g - float64(a)\n")
		case 4:
			fmt.Fprintf(&sb, "\tg = g / (f*f + 1)\n")
		case 5:
			fmt.Fprintf(&sb, "\ts = s + %q + string(rune(65 + int(c%%26)))\n", "-")
		case 6:
			fmt.Fprintf(&sb, "\ta, b = b, a\n")
		case 7:
			fmt.Fprintf(&sb, "\tif a > b { c++ } else { c-- }\n")
		}
		if r.Chance(1, 3) {
			fmt.Fprintf(&sb, "\temit(int(a %% 100))\n")
		}
	}
	fmt.Fprintf(&sb, "\treturn fmt.Sprint(a, b, c, f, g, s, len(s), a < b, s > \"b\")\n}\n")
	return sb.String(), fmt.Sprintf("run%s()", sfx)
}

// ---------- class flow: loops, switch, labels, break/continue, goto-free ----------
func genFlow(r *vh.Rng, sfx string) (string, string) {
	var sb strings.Builder
	fmt.Fprintf(&sb, "func run%s() int {\n\tv := %d\n", sfx, r.Intn(20))
	n := 2 + r.Intn(4)
	for i := 0; i < n; i++ {
		switch r.Intn(6) {
		case 0:
			fmt.Fprintf(&sb, "\tfor i := 0; i < %d; i++ {\n\t\tif i%%%d == %d { continue }\n\t\tv += i*%d\n\t\temit(v %% 1000)\n\t\tif v > %d { break }\n\t}\n", 2+r.Intn(8), 2+r.Intn(3), r.Intn(2), 1+r.Intn(5), 50+r.Intn(500))
		case 1:
			fmt.Fprintf(&sb, "outer%d:\n\tfor i := 0; i < %d; i++ {\n\t\tfor j := 0; j < %d; j++ {\n\t\t\tif (i+j)%%%d == 0 { continue outer%d }\n\t\t\tif i*j > %d { break outer%d }\n\t\t\tv += i + j\n\t\t}\n\t\temit(v %% 1000)\n\t}\n", i, 2+r.Intn(4), 2+r.Intn(4), 3+r.Intn(3), i, 4+r.Intn(6), i)
		case 2:
			fmt.Fprintf(&sb, "\tswitch v %% %d {\n\tcase 0:\n\t\tv += %d\n\t\tfallthrough\n\tcase 1, 2:\n\t\tv *= 2\n\tdefault:\n\t\tv -= %d\n\t}\n\temit(v %% 1000)\n", 3+r.Intn(3), r.Intn(9), r.Intn(9))
		case 3:
			fmt.Fprintf(&sb, "\tswitch {\n\tcase v > %d:\n\t\tv = v %% %d\n\tcase v < 0:\n\t\tv = -v\n\t}\n", 10+r.Intn(100), 7+r.Intn(20))
		case 4:
			fmt.Fprintf(&sb, "\tfor k, x := range []int{%d, %d, %d} {\n\t\tv += k * x\n\t}\n\tfor _, c := range \"h€y\" {\n\t\tv += int(c) %% 7\n\t}\n", lit(r), lit(r), lit(r))
		case 5:
			fmt.Fprintf(&sb, "\t{\n\t\tw := v * %d\n\t\tif w %% 2 == 0 {\n\t\t\tv = w / 2\n\t\t} else if w %% 3 == 0 {\n\t\t\tv = w / 3\n\t\t} else {\n\t\t\tv = w + 1\n\t\t}\n\t\temit(v %% 1000)\n\t}\n", 1+r.Intn(5))
		}
	}
	fmt.Fprintf(&sb, "\tn := 0\n\tfor v > 1 && n < 30 {\n\t\tif v%%2 == 0 { v /= 2 } else { v = v*3 + 1 }\n\t\tn++\n\t}\n\treturn v*100 + n\n}\n")
	return sb.String(), fmt.Sprintf("run%s()", sfx)
}

// ---------- class closure ----------
func genClosure(r *vh.Rng, sfx string) (string, string) {
	var sb strings.Builder
	fmt.Fprintf(&sb, "func mk%s(start int) (func() int, func(int)) {\n\tn := start\n\treturn func() int { n += %d; emit(n); return n }, func(d int) { n -= d }\n}\n", sfx, 1+r.Intn(5))
	fmt.Fprintf(&sb, "func fold%s(xs []int, f func(int, int) int, z int) int {\n\tfor _, x := range xs {\n\t\tz = f(z, x)\n\t}\n\treturn z\n}\n", sfx)
	fmt.Fprintf(&sb, "func run%s() int {\n\tinc, dec := mk%s(%d)\n\tinc(); inc(); dec(%d); v := inc()\n", sfx, sfx, r.Intn(10), r.Intn(7))
	fmt.Fprintf(&sb, "\tvar fs []func() int\n\tfor i := 0; i < %d; i++ {\n\t\tj := i * %d\n\t\tfs = append(fs, func() int { j++; return j + v })\n\t}\n\tfor _, f := range fs {\n\t\tv += f() + f()\n\t}\n", 2+r.Intn(4), 1+r.Intn(4))
	fmt.Fprintf(&sb, "\tk := %d\n\tv += fold%s([]int{%d, %d, %d, %d}, func(a, b int) int { return a*k + b }, %d)\n", 2+r.Intn(3), sfx, lit(r), lit(r), lit(r), lit(r), lit(r))
	fmt.Fprintf(&sb, "\tvar fib func(int) int\n\tfib = func(n int) int { if n < 2 { return n }; return fib(n-1) + fib(n-2) }\n\tv += fib(%d)\n", 5+r.Intn(8))
	fmt.Fprintf(&sb, "\temit(v %% 1000)\n\treturn v\n}\n")
	return sb.String(), fmt.Sprintf("run%s()", sfx)
}

// ---------- class defer: defer / panic / recover, named results; 1/4 end with an uncaught panic ----------
func genDefer(r *vh.Rng, sfx string) (string, string) {
	var sb strings.Builder
	pan := []string{`"boom"`, `errors.New("e1")`, fmt.Sprint(lit(r)), `fmt.Sprintf("p%d", x)`}[r.Intn(4)]
	fmt.Fprintf(&sb, "func g%s(x int) (res int) {\n\tdefer func() {\n\t\tif e := recover(); e != nil {\n\t\t\temits(fmt.Sprint(\"rec:\", e))\n\t\t\tres = -x\n\t\t}\n\t}()\n\tdefer func() { res *= 2; emit(res) }()\n\tif x %% %d == 0 {\n\t\tpanic(%s)\n\t}\n\tres = x + %d\n\treturn res\n}\n", sfx, 2+r.Intn(3), pan, r.Intn(9))
	fmt.Fprintf(&sb, "func h%s(xs []int, i int) (v int) {\n\tdefer func() {\n\t\tif e := recover(); e != nil {\n\t\t\t_, isrt := e.(runtime.Error)\n\t\t\temits(fmt.Sprint(\"rt:\", isrt))\n\t\t\tv = -1\n\t\t}\n\t}()\n\tfor k := 0; k < 3; k++ {\n\t\tdefer emit(k)\n\t}\n\treturn xs[i] / (i - %d)\n}\n", sfx, r.Intn(4))
	fmt.Fprintf(&sb, "type Np%s struct{ A int }\n", sfx)
	fmt.Fprintf(&sb, "func run%s() int {\n\tv := 0\n\tfor i := 0; i < %d; i++ {\n\t\tv += g%s(i)\n\t}\n\tfor i := 0; i < 5; i++ {\n\t\tv += h%s([]int{%d, %d, %d}, i)\n\t}\n", sfx, 3+r.Intn(4), sfx, sfx, 10+r.Intn(90), 10+r.Intn(90), 10+r.Intn(90))
	switch r.Intn(8) {
	case 0:
		fmt.Fprintf(&sb, "\tdefer emits(\"d1\")\n\tpanic(fmt.Sprint(\"final:\", v))\n")
	case 1:
		fmt.Fprintf(&sb, "\tvar m map[string]int\n\tm[\"k\"] = v\n")
	case 2:
		fmt.Fprintf(&sb, "\tvar p *Np%s\n\tdefer func() { emits(\"d2\") }()\n\tv += p.A\n", sfx)
	case 3:
		fmt.Fprintf(&sb, "\tz := v - v\n\tv = v / z\n")
	}
	fmt.Fprintf(&sb, "\treturn v\n}\n")
	return sb.String(), fmt.Sprintf("run%s()", sfx)
}

// ---------- class composite: structs, methods, interfaces, maps, slices, type switch ----------
func genComposite(r *vh.Rng, sfx string) (string, string) {
	var sb strings.Builder
	fmt.Fprintf(&sb, "type Pt%s struct {\n\tX, Y int\n\tTag string\n}\n", sfx)
	fmt.Fprintf(&sb, "func (p Pt%s) Norm() int { return p.X*p.X + p.Y*p.Y }\nfunc (p *Pt%s) Move(d int) { p.X += d; p.Y -= d }\n", sfx, sfx)
	fmt.Fprintf(&sb, "type Sh%s interface { Norm() int }\n", sfx)
	fmt.Fprintf(&sb, "type Cn%s int\nfunc (c Cn%s) Norm() int { return int(c) * %d }\n", sfx, sfx, 1+r.Intn(5))
	fmt.Fprintf(&sb, "var tab%s = map[string]int{\"a\": %d, \"b\": %d}\n", sfx, lit(r), lit(r))
	fmt.Fprintf(&sb, "func cls%s(x interface{}) string {\n\tswitch y := x.(type) {\n\tcase int:\n\t\treturn fmt.Sprint(\"int\", y+1)\n\tcase string:\n\t\treturn \"str\" + y\n\tcase Sh%s:\n\t\treturn fmt.Sprint(\"sh\", y.Norm())\n\tcase nil:\n\t\treturn \"nil\"\n\t}\n\treturn \"other\"\n}\n", sfx, sfx)
	fmt.Fprintf(&sb, "func run%s() string {\n\tp := Pt%s{%d, %d, \"t\"}\n\tp.Move(%d)\n\tq := &p\n\tq.Move(%d)\n", sfx, sfx, lit(r), lit(r), lit(r), lit(r))
	fmt.Fprintf(&sb, "\tvar cn Cn%s = %d\n\tshapes := []Sh%s{p, cn, q}\n\ttot := 0\n\tfor _, s := range shapes {\n\t\ttot += s.Norm()\n\t\temit(tot %% 1000)\n\t}\n", sfx, lit(r), sfx)
	fmt.Fprintf(&sb, "\txs := make([]int, 0, 2)\n\tfor i := 0; i < %d; i++ {\n\t\txs = append(xs, i*i)\n\t}\n\tys := xs[1:%d]\n\tys[0] = %d\n\tcopy(xs[2:], xs)\n", 4+r.Intn(4), 3+r.Intn(2), lit(r))
	fmt.Fprintf(&sb, "\ttab%s[\"c\"] += len(xs)\n\tdelete(tab%s, \"a\")\n\t_, has := tab%s[\"a\"]\n", sfx, sfx, sfx)
	fmt.Fprintf(&sb, "\tarr := [3]Pt%s{{1, 2, \"x\"}, {Y: 5}}\n\tarr2 := arr\n\tarr2[0].X = %d\n", sfx, lit(r))
	fmt.Fprintf(&sb, "\treturn fmt.Sprint(p, tot, xs, ys, len(ys), cap(ys) > 0, tab%s, has, arr[0] == arr2[0], cls%s(3), cls%s(\"s\"), cls%s(p), cls%s(nil), cls%s(1.5))\n}\n", sfx, sfx, sfx, sfx, sfx, sfx)
	return sb.String(), fmt.Sprintf("run%s()", sfx)
}

// ---------- class embed: promoted fields and methods through NAMED and UNNAMED struct types ----------
// every place where a struct type may be written is also exercised with a struct type literal: values, pointers
// (&struct{...}{...}, new(struct{...})), variables, slice and map elements, fields of a named struct; embedding by
// value and by pointer; method calls, method values and interface satisfaction through the promoted methods
func genEmbed(r *vh.Rng, sfx string) (string, string) {
	var sb strings.Builder
	in, lb, gt := "In"+sfx, "Lb"+sfx, "Gt"+sfx
	fmt.Fprintf(&sb, "type %s struct{ A, B int }\n", in)
	fmt.Fprintf(&sb, "func (i %s) Get() int { return i.A*%d + i.B }\n", in, 2+r.Intn(9))
	fmt.Fprintf(&sb, "func (i *%s) Set(v int) { i.A = v; emit(v) }\n", in)
	fmt.Fprintf(&sb, "type %s struct{ Name string }\n", lb)
	fmt.Fprintf(&sb, "func (l %s) Label() string { return \"<\" + l.Name + \">\" }\n", lb)
	fmt.Fprintf(&sb, "type %s interface { Get() int }\n", gt)
	fmt.Fprintf(&sb, "type Ho%s struct {\n\tF struct{ %s }\n\tP *struct{ %s; n int }\n}\n", sfx, in, in)
	fmt.Fprintf(&sb, "type Nm%s struct{ %s; %s }\n", sfx, in, lb)
	fmt.Fprintf(&sb, "func run%s() string {\n\tout := \"\"\n", sfx)
	n := func() int { return 1 + r.Intn(9) }
	stanzas := []func(k int){
		func(k int) { // unnamed struct value (addressable variable)
			fmt.Fprintf(&sb, "\tu%d := struct{ %s; tag string }{%s{%d, %d}, \"t\"}\n\tout += fmt.Sprint(u%d.Get(), u%d.A, u%d.tag)\n\tu%d.Set(%d)\n\tout += fmt.Sprint(u%d.Get())\n", k, in, in, n(), n(), k, k, k, k, n(), k)
		},
		func(k int) { // pointer to an unnamed struct
			fmt.Fprintf(&sb, "\tp%d := &struct{ %s; n int }{%s{%d, %d}, %d}\n\tout += fmt.Sprint(p%d.Get(), p%d.B, p%d.n)\n\tp%d.Set(%d)\n\tout += fmt.Sprint(p%d.A, p%d.Get())\n", k, in, in, n(), n(), n(), k, k, k, k, n(), k, k)
		},
		func(k int) { // unnamed struct embedding a pointer and a second type
			fmt.Fprintf(&sb, "\tq%d := struct{ *%s; %s }{&%s{%d, %d}, %s{\"x%d\"}}\n\tout += fmt.Sprint(q%d.Get(), q%d.Label())\n\tq%d.Set(%d)\n\tout += fmt.Sprint(q%d.B + q%d.Get())\n", k, in, lb, in, n(), n(), lb, k, k, k, k, n(), k, k)
		},
		func(k int) { // pointer to an unnamed struct embedding a pointer
			fmt.Fprintf(&sb, "\tr%d := &struct{ *%s; w int }{&%s{%d, %d}, %d}\n\tr%d.Set(r%d.w)\n\tout += fmt.Sprint(r%d.Get(), r%d.A)\n", k, in, in, n(), n(), n(), k, k, k, k)
		},
		func(k int) { // interface satisfied through promotion: unnamed struct value and pointer, named struct
			fmt.Fprintf(&sb, "\tvar g%d %s = struct{ %s }{%s{%d, %d}}\n\tout += fmt.Sprint(g%d.Get())\n\tg%d = &struct{ %s; z int }{%s{%d, %d}, 0}\n\tout += fmt.Sprint(g%d.Get())\n\tg%d = Nm%s{%s{%d, %d}, %s{\"n\"}}\n\tout += fmt.Sprint(g%d.Get())\n",
				k, gt, in, in, n(), n(), k, k, in, in, n(), n(), k, k, sfx, in, n(), n(), lb, k)
		},
		func(k int) { // method values bound through a pointer to an unnamed struct and through a named struct
			fmt.Fprintf(&sb, "\tm%d := &struct{ %s }{%s{%d, %d}}\n\tf%d, s%d := m%d.Get, m%d.Set\n\ts%d(%d)\n\tout += fmt.Sprint(f%d(), m%d.Get())\n", k, in, in, n(), n(), k, k, k, k, k, n(), k, k)
		},
		func(k int) { // variable of unnamed struct type, new(struct{...})
			fmt.Fprintf(&sb, "\tvar w%d struct{ %s; k int }\n\tw%d.A, w%d.k = %d, %d\n\tout += fmt.Sprint(w%d.Get(), w%d.k)\n\tn%d := new(struct{ %s; %s })\n\tn%d.B, n%d.Name = %d, \"nn\"\n\tn%d.Set(%d)\n\tout += fmt.Sprint(n%d.Get(), n%d.Label())\n", k, in, k, k, n(), n(), k, k, k, in, lb, k, k, n(), k, n(), k, k)
		},
		func(k int) { // slice and map elements of unnamed struct type
			fmt.Fprintf(&sb, "\txs%d := []struct{ %s }{{%s{%d, %d}}, {%s{%d, %d}}}\n\txs%d[1].Set(%d)\n\tout += fmt.Sprint(xs%d[0].Get(), xs%d[1].Get())\n\tmp%d := map[string]*struct{ %s }{\"k\": {%s{%d, %d}}}\n\tmp%d[\"k\"].Set(%d)\n\tout += fmt.Sprint(mp%d[\"k\"].Get())\n",
				k, in, in, n(), n(), in, n(), n(), k, n(), k, k, k, in, in, n(), n(), k, n(), k)
		},
		func(k int) { // fields of unnamed struct type inside a named struct
			fmt.Fprintf(&sb, "\tvar h%d Ho%s\n\th%d.F.A = %d\n\th%d.P = &struct{ %s; n int }{%s{%d, %d}, %d}\n\th%d.F.Set(%d)\n\th%d.P.Set(h%d.P.n)\n\tpf%d := &h%d.F\n\tout += fmt.Sprint(h%d.F.Get(), h%d.P.Get(), pf%d.Get())\n", k, sfx, k, n(), k, in, in, n(), n(), n(), k, n(), k, k, k, k, k, k, k)
		},
		func(k int) { // named struct, value and pointer (the reference shape)
			fmt.Fprintf(&sb, "\tv%d := Nm%s{%s{%d, %d}, %s{\"v\"}}\n\tpv%d := &v%d\n\tpv%d.Set(%d)\n\tout += fmt.Sprint(v%d.Get(), pv%d.Label(), pv%d.Get())\n", k, sfx, in, n(), n(), lb, k, k, k, n(), k, k, k)
		},
	}
	for k, cnt := 0, 3+r.Intn(4); k < cnt; k++ {
		stanzas[r.Intn(len(stanzas))](k)
		sb.WriteString("\tout += \"|\"\n")
	}
	fmt.Fprintf(&sb, "\treturn out\n}\n")
	return sb.String(), fmt.Sprintf("run%s()", sfx)
}

// ---------- breakpoint statements ("break" and _ = "break") ----------
// withBreakpoints inserts breakpoint statements at the start of function, loop and if/else bodies. Without a
// debugger installed a breakpoint only warns (once) and execution resumes: observations must not change, whatever
// the options.
func withBreakpoints(r *vh.Rng, decls string) (string, int) {
	lines := strings.Split(decls, "\n")
	var out []string
	n := 0
	for _, l := range lines {
		out = append(out, l)
		t := strings.TrimSpace(l)
		if !strings.HasSuffix(t, "{") {
			continue
		}
		starts := strings.HasPrefix(t, "func ") || strings.HasPrefix(t, "for ") || strings.HasPrefix(t, "if ") || strings.HasPrefix(t, "} else") || strings.HasPrefix(t, "defer func()")
		if !starts || strings.Contains(t, "switch") || !r.Chance(1, 3) {
			continue
		}
		indent := l[:len(l)-len(strings.TrimLeft(l, "\t"))] + "\t"
		if r.Bool() {
			out = append(out, indent+"\"break\"")
		} else {
			out = append(out, indent+"_ = \"break\"")
		}
		n++
	}
	return strings.Join(out, "\n"), n
}

// ---------- class mini: the statement language of coq/C18/Model.v, rendered as Go and as a Coq term ----------
// variables: 4 globals-of-the-function x0..x3 (frame 0); blocks with one local (pushEnv); functions f0..f2 (no parameters,
// they work on their own frame and on the package variable acc<sfx>)
type mgen struct {
	r     *vh.Rng
	sfx   string
	nfun  int
	depth int // number of enclosing blocks with a local
}

// expression: returns (go, coq); vars are (upn, idx) pairs resolved against the block nesting
func (g *mgen) expr(d int, fi int) (string, string) {
	r := g.r
	if d <= 0 || r.Chance(1, 3) {
		switch r.Intn(3) {
		case 0:
			k := lit(r)
			return fmt.Sprint(k), fmt.Sprintf("EConst (%d)", k)
		case 1:
			if g.depth > 0 && r.Bool() {
				lv := r.Intn(g.depth)
				return fmt.Sprintf("l%d", lv), fmt.Sprintf("EVar %d 0", g.depth-1-lv)
			}
			i := r.Intn(4)
			return fmt.Sprintf("x%d", i), fmt.Sprintf("EVar %d %d", g.depth, i)
		}
		return "acc" + g.sfx, "EGlob"
	}
	a, ca := g.expr(d-1, fi)
	b, cb := g.expr(d-1, fi)
	switch r.Intn(4) {
	case 0:
		return "(" + a + " + " + b + ")", "EAdd (" + ca + ") (" + cb + ")"
	case 1:
		return "(" + a + " - " + b + ")", "ESub (" + ca + ") (" + cb + ")"
	case 2:
		return "(" + a + " * " + b + ")", "EMul (" + ca + ") (" + cb + ")"
	}
	// the divisor is a variable (a constant divisor 0 is a compile-time error); panics when it is 0
	for strings.HasPrefix(cb, "EConst") || strings.HasPrefix(cb, "EAdd") || strings.HasPrefix(cb, "ESub") || strings.HasPrefix(cb, "EMul") || strings.HasPrefix(cb, "EDiv") {
		b, cb = g.expr(0, fi)
	}
	return "(" + a + " / " + b + ")", "EDiv (" + ca + ") (" + cb + ")"
}

func (g *mgen) stmts(n, lvl, fi, ind int) (string, string) {
	var gs, cs []string
	for i := 0; i < n; i++ {
		a, b := g.stmt(lvl, fi, ind)
		gs = append(gs, a)
		cs = append(cs, b)
	}
	coq := "SSkip"
	for i := len(cs) - 1; i >= 0; i-- {
		coq = "SSeq (" + cs[i] + ") (" + coq + ")"
	}
	return strings.Join(gs, ""), coq
}

func (g *mgen) stmt(lvl, fi, ind int) (string, string) {
	r := g.r
	t := strings.Repeat("\t", ind)
	switch x := r.Intn(12); {
	case x < 3:
		e, c := g.expr(2, fi)
		if g.depth > 0 && r.Bool() {
			lv := r.Intn(g.depth)
			return fmt.Sprintf("%sl%d = %s\n", t, lv, e), fmt.Sprintf("SAssign %d 0 (%s)", g.depth-1-lv, c)
		}
		i := r.Intn(4)
		return fmt.Sprintf("%sx%d = %s\n", t, i, e), fmt.Sprintf("SAssign %d %d (%s)", g.depth, i, c)
	case x < 5:
		e, c := g.expr(2, fi)
		return fmt.Sprintf("%semit(%s)\n", t, e), fmt.Sprintf("SEmit (%s)", c)
	case x < 6:
		e, c := g.expr(2, fi)
		return fmt.Sprintf("%sacc%s = %s\n", t, g.sfx, e), fmt.Sprintf("SGlob (%s)", c)
	case x < 8 && lvl < 3:
		e, c := g.expr(1, fi)
		g.depth++
		body, cb := g.stmts(1+r.Intn(3), lvl+1, fi, ind+1)
		g.depth--
		return fmt.Sprintf("%s{\n%s\tl%d := %s\n%s%s}\n", t, t, g.depth, e, body, t), fmt.Sprintf("SLocal (%s) (%s)", c, cb)
	case x < 10 && lvl < 3:
		e, c := g.expr(1, fi)
		a, ca := g.stmts(1+r.Intn(2), lvl+1, fi, ind+1)
		b, cb := g.stmts(r.Intn(2), lvl+1, fi, ind+1)
		return fmt.Sprintf("%sif %s > 0 {\n%s%s} else {\n%s%s}\n", t, e, a, t, b, t), fmt.Sprintf("SIf (%s) (%s) (%s)", c, ca, cb)
	case x < 11 && fi+1 < g.nfun:
		callee := fi + 1 + r.Intn(g.nfun-fi-1)
		return fmt.Sprintf("%sf%d%s()\n", t, callee, g.sfx), fmt.Sprintf("SCall %d", callee)
	case x == 11 && r.Chance(1, 2):
		// breakpoint statement (no debugger is installed: it only warns, once, and execution resumes)
		return fmt.Sprintf("%s%s\n", t, []string{"\"break\"", "_ = \"break\""}[r.Intn(2)]), "SBreak"
	}
	e, c := g.expr(1, fi)
	return fmt.Sprintf("%semit(%s)\n", t, e), fmt.Sprintf("SEmit (%s)", c)
}

func genMini(r *vh.Rng, sfx string) (string, string, string) {
	g := &mgen{r: r, sfx: sfx, nfun: 1 + r.Intn(3)}
	var sb strings.Builder
	fmt.Fprintf(&sb, "var acc%s int\n", sfx)
	bodies := make([]string, g.nfun)
	for fi := g.nfun - 1; fi >= 0; fi-- {
		body, coq := g.stmts(2+r.Intn(5), 0, fi, 1)
		bodies[fi] = coq
		if fi == 0 {
			fmt.Fprintf(&sb, "func run%s() int {\n\tacc%s = 0\n\tx0, x1, x2, x3 := 1, 2, 3, 4\n%s\temit(x0); emit(x1); emit(x2); emit(x3)\n\treturn acc%s\n}\n", sfx, sfx, body, sfx)
		} else {
			fmt.Fprintf(&sb, "func f%d%s() {\n\tx0, x1, x2, x3 := 1, 2, 3, 4\n%s\temit(x0 + x1 + x2 + x3)\n}\n", fi, sfx, body)
		}
	}
	coq := "[" + strings.Join(bodies, "; ") + "]"
	return sb.String(), fmt.Sprintf("run%s()", sfx), coq
}

func genProg(r *vh.Rng, id int) *prog {
	sfx := fmt.Sprintf("P%d", id)
	classes := []string{"expr", "flow", "closure", "defer", "composite", "mini", "mini", "embed"}
	cl := classes[id%len(classes)]
	p := &prog{ID: id, Class: cl}
	switch cl {
	case "expr":
		p.Decls, p.Call = genExpr(r, sfx)
	case "flow":
		p.Decls, p.Call = genFlow(r, sfx)
	case "closure":
		p.Decls, p.Call = genClosure(r, sfx)
	case "defer":
		p.Decls, p.Call = genDefer(r, sfx)
	case "composite":
		p.Decls, p.Call = genComposite(r, sfx)
	case "embed":
		p.Decls, p.Call = genEmbed(r, sfx)
	case "mini":
		p.Decls, p.Call, p.Mini = genMini(r, sfx)
	}
	if cl != "mini" && r.Chance(1, 3) {
		// (mini programs carry their breakpoints as SBreak statements, see mgen.stmt)
		p.Decls, p.Breaks = withBreakpoints(r, p.Decls)
	}
	return p
}

// ---------- class index: index expressions that resemble the generics syntax `name#[T1, T2]` / `name[T]` ----------
// maps keyed by struct / array / interface types indexed by TYPED composite literals (the generics extension encodes
// `name#[A, B]` as an IndexExpr whose index is a TYPE-LESS composite literal), with the operand a global / local / parameter
// identifier, a selector, a call result or a parenthesised expression; as value, assignment target, op-assignment, ++,
// comma-ok, call of the element, address of the element, delete; indexes that are index / selector / call expressions OVER a
// composite literal; generic-free by construction.
func genIndex(r *vh.Rng, sfx string) (string, string) {
	var sb strings.Builder
	fmt.Fprintf(&sb, "type K%[1]s struct{ X, Y int }\ntype A%[1]s [2]int\ntype N%[1]s struct {\n\tP K%[1]s\n\tT string\n}\ntype H%[1]s struct{ m map[K%[1]s]int }\n", sfx)
	fmt.Fprintf(&sb, "var grid%[1]s = map[K%[1]s]int{{1, 2}: %d, {0, 0}: %d}\nvar pairs%[1]s = map[[2]int]string{{1, 2}: \"a\"}\nvar named%[1]s = map[A%[1]s]int{}\n", sfx, lit(r), lit(r))
	fmt.Fprintf(&sb, "var nest%[1]s = map[N%[1]s]int{}\nvar fm%[1]s = map[K%[1]s]func(int) int{{1, 1}: func(x int) int { return x + %d }}\n", sfx, lit(r))
	fmt.Fprintf(&sb, "func mk%[1]s() map[K%[1]s]int { return grid%[1]s }\nfunc (k K%[1]s) Sum() int { return k.X + k.Y }\n", sfx)
	fmt.Fprintf(&sb, "func run%[1]s() string {\n\tvar out []interface{}\n\tx, y := %d, %d\n\tlocal := map[K%[1]s]int{}\n\th := H%[1]s{m: map[K%[1]s]int{}}\n\tim := map[interface{}]int{}\n", sfx, lit(r), lit(r))
	fmt.Fprintf(&sb, "\tidx := []int{10, 20, 30}\n\tarr := [3]int{}\n\tgrids := []map[K%[1]s]int{grid%[1]s, local}\n\tpm := map[*K%[1]s]int{}\n\t_, _, _, _, _, _, _, _ = local, h, im, idx, arr, grids, pm, y\n", sfx)
	key := func() string {
		switch r.Intn(5) {
		case 0:
			return fmt.Sprintf("K%s{x, y}", sfx)
		case 1:
			return fmt.Sprintf("K%s{X: x}", sfx)
		case 2:
			return fmt.Sprintf("K%s{%d, %d}", sfx, r.Intn(3), r.Intn(3))
		case 3:
			return fmt.Sprintf("K%s{Y: y, X: %d}", sfx, lit(r))
		}
		return fmt.Sprintf("K%s{}", sfx)
	}
	akey := func() string {
		return []string{"[2]int{x, y}", "[...]int{1, 2}", "[2]int{1: x}", "[2]int{}"}[r.Intn(4)]
	}
	operand := func() string { // an expression of type map[K]int
		switch r.Intn(7) {
		case 0, 1:
			return "grid" + sfx
		case 2:
			return "local"
		case 3:
			return "h.m"
		case 4:
			return "mk" + sfx + "()"
		case 5:
			return "(grid" + sfx + ")"
		}
		return "grids[x&1]"
	}
	lv := func() string { // an assignable map of type map[K]int whose operand is an identifier or selector
		return []string{"grid" + sfx, "local", "h.m", "grids[1]"}[r.Intn(4)]
	}
	tmpl := []func() string{
		func() string { return fmt.Sprintf("%s[%s] = %d", lv(), key(), lit(r)) },
		func() string { return fmt.Sprintf("%s[%s]++", lv(), key()) },
		func() string { return fmt.Sprintf("%s[%s] += %d", lv(), key(), lit(r)) },
		func() string { return fmt.Sprintf("out = append(out, %s[%s])", operand(), key()) },
		func() string {
			return fmt.Sprintf("if v, ok := %s[%s]; ok || v == 0 {\n\t\tout = append(out, v, ok)\n\t}", operand(), key())
		},
		func() string { return fmt.Sprintf("pairs%s[%s] = %q", sfx, akey(), "s"+fmt.Sprint(lit(r))) },
		func() string {
			return fmt.Sprintf("out = append(out, pairs%s[%s]+pairs%s[%s])", sfx, akey(), sfx, akey())
		},
		func() string {
			return fmt.Sprintf("named%[1]s[A%[1]s{x, y}] += %d\n\tout = append(out, named%[1]s[A%[1]s{x, y}], named%[1]s[A%[1]s{1: 7}])", sfx, lit(r))
		},
		func() string {
			return fmt.Sprintf("nest%[1]s[N%[1]s{%s, \"t\"}]++\n\tout = append(out, nest%[1]s[N%[1]s{P: %s}], len(nest%[1]s))", sfx, key(), key())
		},
		func() string {
			return fmt.Sprintf("if f := fm%[1]s[K%[1]s{1, %d}]; f != nil {\n\t\tout = append(out, f(x), fm%[1]s[K%[1]s{1, 1}](y))\n\t}", sfx, r.Intn(2))
		},
		func() string {
			return fmt.Sprintf("delete(%s, %s)\n\tout = append(out, len(grid%s))", lv(), key(), sfx)
		},
		func() string { return "out = append(out, idx[[]int{2, 0, 1}[x&1]], idx[[3]int{1, 2}[1]])" },
		func() string { return "out = append(out, idx[struct{ i int }{1}.i], idx[len([]int{1, 2})])" },
		func() string { return fmt.Sprintf("out = append(out, idx[%s.Sum()&1], idx[(%s).X&1])", key(), key()) },
		func() string {
			return fmt.Sprintf("arr[[1]int{2}[0]] = %d\n\tarr[[]int{0, 1}[1]] += %d\n\tout = append(out, arr)", lit(r), lit(r))
		},
		func() string {
			return fmt.Sprintf("im[%s] += 1\n\tim[%s] += 2\n\tout = append(out, im[%s], im[%s], len(im))", key(), akey(), key(), akey())
		},
		func() string {
			return fmt.Sprintf("pm[&K%[1]s{1, 2}] = 1\n\tout = append(out, len(pm), pm[&K%[1]s{1, 2}])", sfx)
		},
		func() string { return fmt.Sprintf("emit(%s[%s] %% 1000)", operand(), key()) },
		func() string {
			return fmt.Sprintf("for i := 0; i < 3; i++ {\n\t\t%s[K%s{i, i}] += i\n\t\temit(grid%s[K%s{i, i}] %% 1000)\n\t}", lv(), sfx, sfx, sfx)
		},
		func() string {
			return fmt.Sprintf("func() {\n\t\tgrid%[1]s[K%[1]s{x, 1}] = %d\n\t\tout = append(out, grid%[1]s[K%[1]s{x, 1}], local[K%[1]s{x, 1}])\n\t}()", sfx, lit(r))
		},
	}
	for k, n := 0, 7+r.Intn(8); k < n; k++ {
		sb.WriteString("\t" + tmpl[r.Intn(len(tmpl))]() + "\n")
	}
	fmt.Fprintf(&sb, "\temit(len(grid%[1]s))\n\treturn fmt.Sprint(out, len(grid%[1]s), len(local), len(h.m), len(pairs%[1]s))\n}\n", sfx)
	return sb.String(), fmt.Sprintf("run%s()", sfx)
}

// genIndexProg: a program of class "index" (own stream: the ids and seeds of the 7-class rotation above are unchanged)
func genIndexProg(r *vh.Rng, id int) *prog {
	p := &prog{ID: id, Class: "index"}
	p.Decls, p.Call = genIndex(r, fmt.Sprintf("P%d", id))
	return p
}

// final untyped constant expressions (OptKeepUntyped stream)
func genConst(r *vh.Rng) string {
	switch r.Intn(8) {
	case 0:
		return fmt.Sprintf("%d + %d*%d", lit(r), lit(r), lit(r))
	case 1:
		return fmt.Sprintf("1 << %d", r.Intn(62))
	case 2:
		return fmt.Sprintf("'%c' + %d", 'a'+rune(r.Intn(20)), r.Intn(5))
	case 3:
		return fmt.Sprintf("%d.%s * %d", r.Intn(100), []string{"5", "25", "125", "0"}[r.Intn(4)], 1+r.Intn(8))
	case 4:
		return fmt.Sprintf("%q + %q", []string{"a", "", "hé"}[r.Intn(3)], []string{"b", "€", ""}[r.Intn(3)])
	case 5:
		return fmt.Sprintf("%d < %d", lit(r), lit(r))
	case 6:
		return fmt.Sprintf("%d / %d", 10+r.Intn(1000), 1+r.Intn(9))
	}
	return fmt.Sprintf("(%d - %d) %% %d", r.Intn(100), r.Intn(100), 1+r.Intn(9))
}

// c18: program results do not depend on semantics-neutral options.
// Every generated program is evaluated in 128 interpreters, one per combination of
//
//	OptDebugger, OptCollectDeclarations, OptCollectStatements, OptTrapPanic, OptPanicStackTrace  (32)
//	x etoken.GENERICS in {NONE, V2_CTI} (programs are generic-free) x OptKeepUntyped (off/on),
//
// through the REPL entry Interp.ParseEvalPrint (the path that consults OptTrapPanic/OptPanicStackTrace and the
// collection options).  Direct oracle: the observation (result value and type, emit log, panic value) of every
// configuration equals that of configuration 0.  A second stream evaluates constant expressions with Interp.Eval:
// with OptKeepUntyped the result is an untyped constant whose value must equal the typed result without it.
// Correspondence: programs of class "mini" are also given to the Coq model (coq/C18/Model.v), which must
// reproduce emit log + result for the option sets all-off and all-on.
package main

import (
	"bytes"
	"fmt"
	"go/constant"
	"io"
	"strings"
	"time"

	"github.com/cosmos72/gomacro/base"
	"github.com/cosmos72/gomacro/fast"
	etoken "github.com/cosmos72/gomacro/go/etoken"
	"verifh/vh"
)

type config struct {
	idx      int
	opts     base.Options
	generics etoken.Generics
	ir       *fast.Interp
	emits    []string
	result   string
	hasRes   bool
	stderr   bytes.Buffer
}

var optBits = []struct {
	name string
	o    base.Options
}{
	{"Debugger", base.OptDebugger}, {"CollectDeclarations", base.OptCollectDeclarations}, {"CollectStatements", base.OptCollectStatements},
	{"TrapPanic", base.OptTrapPanic}, {"PanicStackTrace", base.OptPanicStackTrace}, {"KeepUntyped", base.OptKeepUntyped},
}

func (c *config) name() string {
	var on []string
	for _, b := range optBits {
		if c.opts&b.o != 0 {
			on = append(on, b.name)
		}
	}
	if c.generics != etoken.GENERICS_NONE {
		on = append(on, "GENERICS_V2_CTI")
	}
	if len(on) == 0 {
		return "none"
	}
	return strings.Join(on, "+")
}

const allNeutral = base.OptDebugger | base.OptCollectDeclarations | base.OptCollectStatements | base.OptTrapPanic | base.OptPanicStackTrace | base.OptKeepUntyped

func newConfig(idx int) *config {
	c := &config{idx: idx}
	for i, b := range optBits {
		if idx&(1<<uint(i)) != 0 {
			c.opts |= b.o
		}
	}
	c.generics = etoken.GENERICS_NONE
	if idx&(1<<uint(len(optBits))) != 0 {
		c.generics = etoken.GENERICS_V2_CTI
	}
	etoken.GENERICS = c.generics
	c.ir = fast.New()
	g := &c.ir.Comp.Globals
	g.Options = (g.Options &^ allNeutral) | c.opts
	g.Options &^= base.OptShowPrompt | base.OptShowEval | base.OptShowEvalType
	g.Stdout = io.Discard
	g.Stderr = &c.stderr
	c.ir.DeclFunc("emit", func(x int) { c.emits = append(c.emits, fmt.Sprint(x)) })
	c.ir.DeclFunc("emits", func(x string) { c.emits = append(c.emits, x) })
	c.ir.DeclFunc("res", func(x interface{}) { c.result, c.hasRes = fmt.Sprintf("%v:%T", x, x), true })
	c.eval(`import ("fmt"; "errors"; "runtime")`)
	return c
}

// eval runs one REPL input; returns the canonical panic text ("" if none)
func (c *config) eval(src string) string {
	etoken.GENERICS = c.generics
	g := &c.ir.Comp.Globals
	g.Options = (g.Options &^ allNeutral) | c.opts
	c.stderr.Reset()
	p := vh.Catch(func() { c.ir.ParseEvalPrint(src) })
	if p != nil {
		// not trapped: the panic value itself
		return firstLine(fmt.Sprintf("%v", p))
	}
	if c.opts&base.OptTrapPanic != 0 {
		// trapped: ParseEvalPrint printed "%v\n" (+ stack trace) of the recovered value
		return firstLine(stripWarnings(c.stderr.String()))
	}
	return ""
}

// stripWarnings removes the leading diagnostics printed with Output.Warnf ("// warning: ...", e.g. the once-only
// "breakpoint: no debugger set"): they are not panics
func stripWarnings(s string) string {
	for strings.HasPrefix(s, "// warning: ") {
		i := strings.IndexByte(s, '\n')
		if i < 0 {
			return ""
		}
		s = s[i+1:]
	}
	return s
}

func firstLine(s string) string {
	if i := strings.IndexByte(s, '\n'); i >= 0 {
		s = s[:i]
	}
	return s
}

type obs struct {
	DeclPanic string
	Panic     string
	Result    string
	Emits     string
}

func (c *config) runProg(p *prog) obs {
	var o obs
	o.DeclPanic = c.eval(p.Decls)
	c.emits, c.result, c.hasRes = nil, "", false
	o.Panic = c.eval("res(" + p.Call + ")")
	o.Result = c.result
	o.Emits = strings.Join(c.emits, ",")
	return o
}

// constant stream: Interp.Eval returns the value; with OptKeepUntyped an untyped constant
func (c *config) evalConst(src string) string {
	etoken.GENERICS = c.generics
	g := &c.ir.Comp.Globals
	g.Options = (g.Options &^ allNeutral) | c.opts
	var out string
	p := vh.Catch(func() {
		vs, ts := c.ir.Eval(src)
		if len(vs) != 1 {
			out = fmt.Sprint("values:", len(vs))
			return
		}
		x := vs[0].Interface()
		untyped := false
		var cv constant.Value
		switch y := x.(type) {
		case fast.UntypedLit:
			untyped = true
			cv = y.Val
		case bool:
			cv = constant.MakeBool(y)
		case string:
			cv = constant.MakeString(y)
		case int:
			cv = constant.MakeInt64(int64(y))
		case int32:
			cv = constant.MakeInt64(int64(y))
		case float64:
			cv = constant.MakeFloat64(y)
		default:
			out = fmt.Sprintf("unexpected %T", x)
			return
		}
		if untyped != (c.opts&base.OptKeepUntyped != 0) {
			out = fmt.Sprintf("untyped=%v with KeepUntyped=%v type=%v", untyped, c.opts&base.OptKeepUntyped != 0, ts[0])
			return
		}
		if cv.Kind() == constant.Int || cv.Kind() == constant.Float {
			f, _ := constant.Float64Val(cv)
			out = fmt.Sprintf("num:%v", f)
			if cv.Kind() == constant.Int {
				out = "num:" + cv.ExactString()
			} else if constant.ToInt(cv).Kind() == constant.Int {
				out = "num:" + constant.ToInt(cv).ExactString()
			}
		} else {
			out = cv.ExactString()
		}
	})
	if p != nil {
		return "panic:" + firstLine(fmt.Sprint(p))
	}
	return out
}

func main() {
	a := vh.ParseArgs()
	rng := vh.NewRng(a.Seed)
	rep := vh.NewReport(a, "PRNG programs of 7 classes (expr: typed integer/float/string arithmetic of 10 integer kinds; flow: for/range/switch/fallthrough/labelled break+continue/if-else chains; closure: counters, captured loop variables, fold, recursive closure; "+
		"defer: defer/panic/recover with named results, runtime panics, 1/2 ending in an uncaught panic (user, nil map, nil pointer, division by zero); composite: structs, methods, interfaces, maps, slices, arrays, type switch; "+
		"embed: promoted fields and methods through named and UNNAMED struct types - values, &struct{..}{..}, new(struct{..}), variables, slice/map elements and fields of struct-literal type, embedding by value and by pointer, method values, interface satisfaction; "+
		"index (16 quick / 160 thorough programs, own PRNG stream): index expressions resembling the generics syntax - maps keyed by struct / array / named array / nested struct / interface / pointer types indexed by TYPED composite literals, operand = global, local, selector, call result, parenthesised, element of a slice of maps; as value, assignment target, op-assignment, ++, comma-ok, call of a func element, delete, inside loops and closures; slice/array indexes that are index / selector / method-call expressions over a composite literal; "+
		"mini: the statement language of the Coq model, breakpoint statements included); a third of the non-mini programs get breakpoint statements (\"break\" / _ = \"break\", no debugger installed) at the start of function, loop and if/else bodies; + untyped constant expressions; each evaluated in 128 interpreters = every subset of {OptDebugger, OptCollectDeclarations, OptCollectStatements, OptTrapPanic, OptPanicStackTrace, OptKeepUntyped} x GENERICS {NONE, V2_CTI} through Interp.ParseEvalPrint; "+
		"one evaluated case = one (program, configuration); non-trivial when the program produced >= 1 emit or a panic; distinct by SHA-256 of program text + configuration")
	nProg, nConst := 63, 60
	if a.Thorough() {
		// measured 2026-09-22 on the loaded machine: ~1.15 s per program and ~0.6 s per constant (128 configurations each,
		// sequential because etoken.GENERICS is a process global); 1400/2000 took 49 min, 640/600 stays below 25 min
		nProg, nConst = 640, 600
	}
	nIndex := 16
	if a.Thorough() {
		nIndex = 160
	}
	if a.N > 0 {
		nProg = a.N
	}
	wd := vh.NewWatchdog(rep, 180*time.Second)
	wd.Beat("creating 128 interpreters")
	ncfg := 1 << uint(len(optBits)+1)
	cfgs := make([]*config, ncfg)
	for i := range cfgs {
		wd.Beat(fmt.Sprintf("creating interpreter %d of %d", i+1, ncfg)) // (seconds each on a loaded machine)
		cfgs[i] = newConfig(i)
	}
	cw := vh.NewCases(a, "From Coq Require Import List ZArith Bool.\nFrom Verif Require Import C18.Model.\nImport ListNotations.\nOpen Scope Z_scope.", "case", "mismatches", 40)
	idx := 0
	irng := vh.NewRng(a.Seed*15485863 + 1818) // own PRNG stream of the class "index" programs
	for pi := 0; pi < nProg+nIndex; pi++ {
		var p *prog
		if pi < nProg {
			p = genProg(rng.Fork(), pi)
		} else {
			p = genIndexProg(irng.Fork(), pi)
		}
		wd.Beat(p)
		var ref obs
		for ci, c := range cfgs {
			o := c.runProg(p)
			if ci == 0 {
				ref = o
				rep.Dist("class:" + p.Class)
				if p.Breaks > 0 || strings.Contains(p.Mini, "SBreak") {
					rep.Dist("with-breakpoint-statements")
				}
				switch {
				case o.DeclPanic != "":
					rep.Dist("outcome:declaration-error")
				case o.Panic != "":
					rep.Dist("outcome:panic")
				default:
					rep.Dist("outcome:value")
				}
				if o.DeclPanic != "" {
					rep.Fail(vh.Failure{Key: "gen:" + p.Decls, What: "generated program rejected: " + o.DeclPanic, Input: p})
				}
			} else if o != ref {
				rep.Fail(vh.Failure{Key: fmt.Sprintf("%s|%s|%s", p.Decls, p.Call, c.name()), What: "observation under options {" + c.name() + "} differs from the run with none of the options",
					Input: map[string]interface{}{"prog": p, "config": c.name()}, Got: o, Want: ref})
			}
			rep.Count(fmt.Sprintf("%s|%d", p.Decls, ci), o.Emits != "" || o.Panic != "")
		}
		if pi%7 == 3 {
			rep.Sample(map[string]interface{}{"class": p.Class, "program": p.Decls, "call": p.Call, "observation": ref})
		}
		if p.Class == "mini" && ref.DeclPanic == "" {
			// observation -> Coq: events (all ints) and result
			var ev []string
			if ref.Emits != "" {
				for _, e := range strings.Split(ref.Emits, ",") {
					ev = append(ev, "("+e+")")
				}
			}
			res := "OPanicDiv0"
			if ref.Panic == "" {
				res = "OVal (" + strings.TrimSuffix(ref.Result, ":int") + ")"
			} else if !strings.Contains(ref.Panic, "divide by zero") {
				res = "OOther"
			}
			cw.Add(fmt.Sprintf("mkCase %d %s %s (%s)", idx, p.Mini, vh.CoqList(ev, "Z"), res))
			rep.CaseInput(idx, p)
			idx++
		}
	}
	cw.Close()
	// untyped constants
	for k := 0; k < nConst; k++ {
		src := genConst(rng)
		wd.Beat(src)
		var ref string
		for ci, c := range cfgs {
			v := c.evalConst(src)
			if ci == 0 {
				ref = v
				rep.Dist("class:const")
			} else if v != ref {
				rep.Fail(vh.Failure{Key: fmt.Sprintf("const|%s|%s", src, c.name()), What: "value of a constant expression under options {" + c.name() + "} differs from the run with none of the options",
					Input: map[string]interface{}{"expr": src, "config": c.name()}, Got: v, Want: ref})
			}
			rep.Count(fmt.Sprintf("const|%s|%d", src, ci), true)
		}
		if strings.HasPrefix(ref, "panic:") || strings.HasPrefix(ref, "unexpected") || strings.HasPrefix(ref, "untyped=") {
			rep.Fail(vh.Failure{Key: "const|" + src, What: "constant expression not evaluated: " + ref, Input: src})
		}
	}
	rep.Extra["configurations"] = ncfg
	rep.Extra["programs"] = nProg + nIndex
	rep.Extra["index_programs"] = nIndex
	rep.Extra["constant_expressions"] = nConst
	rep.Extra["mini_programs_to_model"] = idx
	rep.Write()
}
